(* C18, TrRelUnionFind: the specification (reflexive transitive closure of the added pairs on the
   mentioned elements) and the state invariant that links a model state to the list of added pairs.
   Definitions only; preservation is in TrUfProofs.v, the query theorems in TrUfQueries.v. *)
From Coq Require Import List Arith Bool.
From AV Require Import UF.UfBase.
From AV Require Import UF.TrUfModel.
Import ListNotations.

(* ---- specification *)
Definition mentioned (E : list (nat * nat)) (x : nat) : Prop := exists y, In (x, y) E \/ In (y, x) E.

(* reflexive (on mentioned elements) transitive closure of E *)
Inductive rtc (E : list (nat * nat)) : nat -> nat -> Prop :=
| rtc_l x y : In (x, y) E -> rtc E x x
| rtc_r x y : In (x, y) E -> rtc E y y
| rtc_e x y : In (x, y) E -> rtc E x y
| rtc_t x y z : rtc E x y -> rtc E y z -> rtc E x z.

(* ---- reading a state *)
Definition nsets (st : truf) : nat := length (t_sets st).
(* x is a member of sets[s] *)
Definition mem_of (st : truf) (s x : nat) : Prop := exists l, nth_error (t_sets st) s = Some l /\ In x l.
(* s is a live class id *)
Definition dominant (st : truf) (d : nat) : Prop := d < nsets st /\ aget d (t_subs st) = None.
(* b is listed in set_connections[a] / reverse_set_connections[a] *)
Definition cn (st : truf) (a b : nat) : Prop := In b (eget a (t_conn st)).
Definition rv (st : truf) (a b : nat) : Prop := In b (eget a (t_rev st)).
(* the chain of subsumptions from t ends in d within the fuel that the number of entries allows *)
Definition dom_to (st : truf) (t d : nat) : Prop :=
  gdom (S (length (t_subs st))) (t_subs st) t = Ok d /\ d < nsets st /\ aget d (t_subs st) = None.

Definition mset_wf (st : truf) (m : mset) : Prop :=
  NoDup (map fst m) /\
  forall k c, aget k m = Some c -> dominant st k /\ NoDup c /\ forall j, In j c -> dominant st j.

(* [P] = the live class ids that are allowed to have no entry in the two connection maps:
   [tinv] (P empty) is what sequences of add maintain; [tinv_weak] (P everything) is what sequences of add and
   add_node / add_node_new maintain (add_node creates a class without entries; no code path needs them). *)
Record tinvP (P : nat -> Prop) (E : list (nat * nat)) (st : truf) : Prop := mkTinv {
  (* W: well-formedness of the five fields *)
  w_subs_range : forall s f, aget s (t_subs st) = Some f -> s < nsets st /\ f < nsets st;
  w_subs_keys : NoDup (map fst (t_subs st));
  w_subs_dom : forall t, t < nsets st -> exists d, dom_to st t d;
  w_sets_nodup : NoDup (concat (t_sets st));
  w_subsumed_empty : forall s f, aget s (t_subs st) = Some f -> nth_error (t_sets st) s = Some [];
  w_ids_mem : forall x i, aget x (t_ids st) = Some i -> i < nsets st /\ exists d, dom_to st i d /\ mem_of st d x;
  w_mem_ids : forall s x, mem_of st s x -> aget x (t_ids st) <> None;
  w_ids_keys : NoDup (map fst (t_ids st));
  w_conn : mset_wf st (t_conn st);
  w_rev : mset_wf st (t_rev st);
  w_present : forall d, dominant st d -> P d \/ (ahas d (t_conn st) = true /\ ahas d (t_rev st) = true);
  w_nonempty : forall d, dominant st d -> exists x, mem_of st d x;
  (* G: the class graph: rev is the converse of conn off the diagonal; conn is transitive and antisymmetric *)
  g_conv : forall a b, a <> b -> (cn st a b <-> rv st b a);
  g_trans : forall a b c, cn st a b -> cn st b c -> a <> c -> cn st a c;
  g_antisym : forall a b, a <> b -> cn st a b -> ~ cn st b a;
  (* M: meaning with respect to the added pairs E *)
  m_ids : forall x, aget x (t_ids st) <> None <-> mentioned E x;
  m_class : forall s x y, mem_of st s x -> mem_of st s y -> rtc E x y;
  m_conn : forall a b x y, cn st a b -> mem_of st a x -> mem_of st b y -> rtc E x y;
  m_complete : forall a b x y, dominant st a -> dominant st b -> mem_of st a x -> mem_of st b y ->
               rtc E x y -> a = b \/ cn st a b
}.

Arguments w_subs_range {P} E st _. Arguments w_subs_keys {P} E st _. Arguments w_subs_dom {P} E st _.
Arguments w_sets_nodup {P} E st _. Arguments w_subsumed_empty {P} E st _. Arguments w_ids_mem {P} E st _.
Arguments w_mem_ids {P} E st _. Arguments w_ids_keys {P} E st _. Arguments w_conn {P} E st _.
Arguments w_rev {P} E st _. Arguments w_present {P} E st _. Arguments w_nonempty {P} E st _.
Arguments g_conv {P} E st _. Arguments g_trans {P} E st _. Arguments g_antisym {P} E st _.
Arguments m_ids {P} E st _. Arguments m_class {P} E st _. Arguments m_conn {P} E st _. Arguments m_complete {P} E st _.

Notation tinv := (tinvP (fun _ : nat => False)).
Notation tinv_weak := (tinvP (fun _ : nat => True)).

Lemma tinvP_mono : forall (P Q : nat -> Prop) E st, (forall d, P d -> Q d) -> tinvP P E st -> tinvP Q E st.
Proof.
  intros P Q E st HPQ H. destruct H. constructor; try assumption.
  intros d Hd. destruct (w_present0 d Hd) as [Hp|Hk]; [left; apply HPQ; exact Hp|right; exact Hk].
Qed.
Lemma tinv_weaken : forall P E st, tinvP P E st -> tinv_weak E st.
Proof. intros P E st H. apply (tinvP_mono P (fun _ => True)); [intros; exact I|exact H]. Qed.
