(* C18, TrRelUnionFind: add_node_new (with elem_set_update and the path-compressing
   get_dominant_id_mut_with_depth) never fails on a state satisfying [cinv] and preserves [cinv]. *)
From Coq Require Import List Arith Bool Lia.
From AV Require Import UF.UfBase.
From AV Require Import UF.TrUfModel.
From AV Require Import UF.TrUfInv.
From AV Require Import UF.TrUfLemmas.
From AV Require Import UF.TrUfQueries.
From AV Require Import UF.TrUfCore.
Import ListNotations.

(* ---- gdom: end point, determinism *)
Lemma gdom_end : forall f s t d, gdom f s t = Ok d -> aget d s = None.
Proof.
  induction f as [|f IH]; cbn; intros s t d H; [discriminate|].
  destruct (aget t s) as [p|] eqn:Ht; [eapply IH; eassumption|]. inversion H; subst; assumption.
Qed.

Lemma gdom_det : forall f f' s t d d', gdom f s t = Ok d -> gdom f' s t = Ok d' -> d = d'.
Proof.
  intros f f' s t d d' H H'.
  pose proof (gdom_mono _ _ _ _ H (f + f') ltac:(lia)) as H1.
  pose proof (gdom_mono _ _ _ _ H' (f + f') ltac:(lia)) as H2. congruence.
Qed.

(* redirecting a key on a chain directly to the end of its chain preserves every chain *)
Lemma gdom_shortcut : forall s id p f0 d, aget id s = Some p -> gdom f0 s id = Ok d ->
  forall f t e, gdom f s t = Ok e -> gdom f (aset id d s) t = Ok e.
Proof.
  intros s id p f0 d Hid Hd.
  assert (Hdn : aget d s = None) by (eapply gdom_end; eassumption).
  assert (Hne : d <> id) by (intros ->; congruence).
  induction f as [|f IH]; intros t e H; [discriminate|].
  assert (Hfull := H).
  cbn in H |- *. rewrite aget_aset.
  destruct (Nat.eqb_spec t id) as [->|Hti].
  - rewrite Hid in H.
    assert (e = d) by (eapply gdom_det; [exact Hfull|exact Hd]). subst e.
    destruct f as [|f]; [discriminate|]. cbn. rewrite aget_aset_ne by assumption. rewrite Hdn. reflexivity.
  - destruct (aget t s) as [q|]; [apply IH; assumption|assumption].
Qed.

Lemma keys_aset_same : forall V (k : nat) (v : V) m, aget k m <> None -> map fst (aset k v m) = map fst m.
Proof.
  induction m as [|[a b] m IH]; cbn; [congruence|].
  destruct (Nat.eqb_spec k a) as [->|Hka]; cbn; intros H; [reflexivity|]. f_equal. apply IH; assumption.
Qed.

(* ---- path compression: s1 has the keys of s, every binding of s1 is one of s or sends a key of s
   to d, and every chain of s is a chain of s1 *)
Definition compressed (s s1 : list (nat * nat)) (d : nat) : Prop :=
  map fst s1 = map fst s /\
  (forall k v, aget k s1 = Some v -> aget k s = Some v \/ (v = d /\ aget k s <> None)) /\
  (forall f t e, gdom f s t = Ok e -> gdom f s1 t = Ok e).

Lemma compressed_refl : forall s d, compressed s s d.
Proof. intros s d; split; [reflexivity|split]; auto. Qed.

Lemma compressed_has : forall s s1 d k, compressed s s1 d -> (aget k s1 <> None <-> aget k s <> None).
Proof. intros s s1 d k [Hk _]. rewrite !aget_some_in_keys, Hk. reflexivity. Qed.

Lemma compressed_keys : forall s s1 d k, compressed s s1 d -> (aget k s1 = None <-> aget k s = None).
Proof.
  intros s s1 d k Hc. pose proof (compressed_has s s1 d k Hc) as H.
  destruct (aget k s1), (aget k s); intuition congruence.
Qed.

Lemma compressed_length : forall s s1 d, compressed s s1 d -> length s1 = length s.
Proof. intros s s1 d [Hk _]. rewrite <- (map_length fst s1), Hk, map_length. reflexivity. Qed.

Lemma gdom_mut_spec : forall f s id d, gdom f s id = Ok d ->
  exists s1, gdom_mut f s id = Ok (s1, d) /\ compressed s s1 d.
Proof.
  induction f as [|f IH]; intros s id d H; [discriminate|].
  assert (Hfull := H).
  cbn in H |- *. destruct (aget id s) as [p|] eqn:Hid.
  - destruct (IH _ _ _ H) as [s1 [Hm Hc]]. rewrite Hm. cbn [bind].
    destruct (Nat.eqb_spec d p) as [Hdp|Hdp].
    + exists s1; split; [reflexivity|assumption].
    + exists (aset id d s1); split; [reflexivity|].
      assert (Hid1 : aget id s1 <> None) by (apply (compressed_has _ _ _ id Hc); congruence).
      destruct Hc as [Hk [Hb Hg]].
      split; [|split].
      * rewrite keys_aset_same by assumption. assumption.
      * intros k v. rewrite aget_aset. destruct (Nat.eqb_spec k id) as [->|Hki].
        -- intros E; inversion E; subst. right; split; [reflexivity|congruence].
        -- apply Hb.
      * intros f' t e Ht. destruct (aget id s1) as [p1|] eqn:Hp1; [|congruence].
        eapply gdom_shortcut; [exact Hp1| |apply Hg; exact Ht].
        apply Hg. exact Hfull.
  - inversion H; subst. exists s; split; [reflexivity|]. apply compressed_refl.
Qed.

(* ---- reading a state after updates *)
Lemma mem_of_sets : forall st st', t_sets st' = t_sets st -> forall s x, mem_of st' s x <-> mem_of st s x.
Proof. intros st st' H s x; unfold mem_of; rewrite H; reflexivity. Qed.

Lemma mem_of_lt : forall st s x, mem_of st s x -> s < nsets st.
Proof. intros st s x [l [Hl _]]. unfold nsets. eapply nth_error_some_lt; eassumption. Qed.

Lemma dominant_same : forall st st', nsets st' = nsets st ->
  (forall k, aget k (t_subs st') = None <-> aget k (t_subs st) = None) ->
  forall d, dominant st' d <-> dominant st d.
Proof. intros st st' Hn Hk d; unfold dominant; rewrite Hn, Hk; reflexivity. Qed.

Lemma mset_wf_mono : forall st st' m, (forall d, dominant st d -> dominant st' d) -> mset_wf st m -> mset_wf st' m.
Proof.
  intros st st' m Hd [Hk Hw]; split; [assumption|]. intros k c Hc. destruct (Hw k c Hc) as [H1 [H2 H3]].
  split; [auto|split; [assumption|]]. intros j Hj; apply Hd, H3; assumption.
Qed.

Lemma dom_to_compressed : forall st st' d0, nsets st' = nsets st -> compressed (t_subs st) (t_subs st') d0 ->
  forall t d, dom_to st t d -> dom_to st' t d.
Proof.
  intros st st' d0 Hn Hc t d [Hg [Hlt Hno]]. unfold dom_to.
  split; [|split].
  - rewrite (compressed_length _ _ _ Hc). destruct Hc as [_ [_ Hch]]. apply Hch; assumption.
  - rewrite Hn; assumption.
  - apply (compressed_keys _ _ _ d Hc); assumption.
Qed.

Lemma cn_dominant : forall st a b, mset_wf st (t_conn st) -> cn st a b -> dominant st a /\ dominant st b.
Proof.
  intros st a b [_ Hw] H. unfold cn, eget in H. destruct (aget a (t_conn st)) as [c|] eqn:Hc; [|destruct H].
  destruct (Hw a c Hc) as [Ha [_ Hj]]. split; [assumption|apply Hj; assumption].
Qed.

(* ---- consequences of cinv *)
Lemma cinv_subs_len : forall Es st, cinv Es st -> length (t_subs st) <= nsets st.
Proof.
  intros Es st H.
  rewrite <- (map_length fst), <- (seq_length (nsets st) 0). apply NoDup_incl_length.
  - apply (c_subs_keys _ _ H).
  - intros k Hk. apply in_seq. apply aget_some_in_keys in Hk.
    destruct (aget k (t_subs st)) as [f|] eqn:Hf; [|congruence].
    apply (c_subs_range _ _ H) in Hf. lia.
Qed.

Lemma cinv_dom_to_fuel : forall Es st, cinv Es st -> forall t d, dom_to st t d -> gdom (dfuel st) (t_subs st) t = Ok d.
Proof.
  intros Es st H t d [Hg _]. eapply gdom_mono; [eassumption|].
  pose proof (cinv_subs_len Es st H) as Hl. unfold dfuel, nsets in *. lia.
Qed.

Lemma cinv_disjoint_ok : forall Es st, cinv Es st -> disjoint_ok st = true.
Proof. intros Es st H. unfold disjoint_ok. apply disjoint_from_ok; [apply (c_sets_nodup _ _ H)|intros x _ []]. Qed.

(* ---- existing element: ids and subs are updated by path compression *)
Lemma cinv_compress : forall Es st x d ids1 subs1,
  cinv Es st ->
  dominant st d -> mem_of st d x ->
  NoDup (map fst ids1) ->
  (forall z, aget z ids1 = if Nat.eqb z x then Some d else aget z (t_ids st)) ->
  aget x (t_ids st) <> None ->
  compressed (t_subs st) subs1 d ->
  cinv Es (mkTr (t_sets st) ids1 subs1 (t_conn st) (t_rev st)).
Proof.
  intros Es st x d ids1 subs1 Hc Hdom Hmem Hnd Hids Hx Hcomp.
  set (st' := mkTr (t_sets st) ids1 subs1 (t_conn st) (t_rev st)).
  assert (Hn : nsets st' = nsets st) by reflexivity.
  assert (Hcomp' : compressed (t_subs st) (t_subs st') d) by exact Hcomp.
  assert (Hdm : forall k, dominant st' k <-> dominant st k).
  { apply dominant_same; [exact Hn|]. intros k; apply (compressed_keys _ _ _ k Hcomp'). }
  assert (Hmm : forall s z, mem_of st' s z <-> mem_of st s z) by (apply mem_of_sets; reflexivity).
  assert (Hdt : forall t e, dom_to st t e -> dom_to st' t e) by (apply (dom_to_compressed st st' d Hn Hcomp')).
  constructor.
  - intros s f Hs. rewrite Hn. destruct Hcomp' as [_ [Hb _]]. destruct (Hb s f Hs) as [Ho|[-> Ho]].
    + apply (c_subs_range Es st Hc); assumption.
    + destruct (aget s (t_subs st)) as [f0|] eqn:Hf0; [|congruence].
      split; [apply (c_subs_range Es st Hc s f0 Hf0)|apply Hdom].
  - destruct Hcomp' as [Hk _]. rewrite Hk. apply (c_subs_keys Es st Hc).
  - intros t Ht. rewrite Hn in Ht. destruct (c_subs_dom Es st Hc t Ht) as [e He]. exists e; auto.
  - apply (c_sets_nodup Es st Hc).
  - intros s f Hs. destruct Hcomp' as [_ [Hb _]]. destruct (Hb s f Hs) as [Ho|[_ Ho]].
    + apply (c_subsumed_empty Es st Hc s f Ho).
    + destruct (aget s (t_subs st)) as [f0|] eqn:Hf0; [|congruence].
      apply (c_subsumed_empty Es st Hc s f0 Hf0).
  - intros z i Hz. change (t_ids st') with ids1 in Hz. rewrite Hids in Hz. rewrite Hn.
    destruct (Nat.eqb_spec z x) as [->|Hzx].
    + inversion Hz; subst i. split; [apply Hdom|]. exists d; split.
      * apply dominant_dom_to, Hdm; assumption.
      * apply Hmm; assumption.
    + destruct (c_ids_mem Es st Hc z i Hz) as [Hi [e [He Hme]]]. split; [assumption|].
      exists e; split; [auto|apply Hmm; assumption].
  - intros s z Hm. change (t_ids st') with ids1. rewrite Hids.
    destruct (Nat.eqb_spec z x) as [->|Hzx]; [congruence|].
    apply (c_mem_ids Es st Hc s z), Hmm; assumption.
  - exact Hnd.
  - apply (mset_wf_mono st st'); [intros k; apply Hdm|apply (c_conn Es st Hc)].
  - apply (mset_wf_mono st st'); [intros k; apply Hdm|apply (c_rev Es st Hc)].
  - intros k Hk. apply Hdm in Hk. destruct (c_nonempty Es st Hc k Hk) as [z Hz]. exists z; apply Hmm; assumption.
  - exact (c_conv Es st Hc).
  - exact (c_trans Es st Hc).
  - exact (c_antisym Es st Hc).
  - intros z. change (t_ids st') with ids1. rewrite Hids.
    destruct (Nat.eqb_spec z x) as [->|Hzx]; intros Hz.
    + apply (c_ids_ment Es st Hc); assumption.
    + apply (c_ids_ment Es st Hc); assumption.
  - intros s a b Ha Hb. apply Hmm in Ha, Hb. apply (c_class Es st Hc s); assumption.
  - intros a b u v Hab Hu Hv. apply Hmm in Hu, Hv. apply (c_conn_sound Es st Hc a b); assumption.
Qed.

(* ---- fresh element: a new singleton class is appended *)
Definition fresh_st (st : truf) (x : nat) : truf :=
  mkTr (t_sets st ++ [[x]]) (aset x (nsets st) (t_ids st)) (t_subs st) (t_conn st) (t_rev st).

Lemma fresh_nsets : forall st x, nsets (fresh_st st x) = S (nsets st).
Proof. intros st x. unfold nsets, fresh_st; cbn. rewrite app_length; cbn; lia. Qed.

Lemma fresh_mem : forall st x s z, mem_of (fresh_st st x) s z <-> mem_of st s z \/ (s = nsets st /\ z = x).
Proof.
  intros st x s z. unfold mem_of, fresh_st, nsets; cbn. split.
  - intros [l [Hl Hz]]. destruct (lt_dec s (length (t_sets st))) as [Hlt|Hge].
    + rewrite nth_error_app1 in Hl by assumption. left; exists l; auto.
    + rewrite nth_error_app2 in Hl by lia. right.
      destruct (s - length (t_sets st)) as [|k] eqn:Hk; cbn in Hl.
      * inversion Hl; subst l. destruct Hz as [<-|[]]. split; [lia|reflexivity].
      * destruct k; discriminate.
  - intros [[l [Hl Hz]]|[-> ->]].
    + exists l; split; [|assumption]. rewrite nth_error_app1; [assumption|]. eapply nth_error_some_lt; eassumption.
    + exists [x]; split; [|now left]. rewrite nth_error_app2 by lia. rewrite Nat.sub_diag. reflexivity.
Qed.

Lemma fresh_no_sub : forall Es st, cinv Es st -> aget (nsets st) (t_subs st) = None.
Proof.
  intros Es st Hc. destruct (aget (nsets st) (t_subs st)) as [f|] eqn:Hf; [|reflexivity].
  apply (c_subs_range Es st Hc) in Hf. lia.
Qed.

Lemma fresh_dominant : forall Es st x, cinv Es st -> forall d, dominant (fresh_st st x) d <-> dominant st d \/ d = nsets st.
Proof.
  intros Es st x Hc d. unfold dominant. rewrite fresh_nsets. change (t_subs (fresh_st st x)) with (t_subs st). split.
  - intros [Hlt Hn]. destruct (Nat.eq_dec d (nsets st)) as [->|Hne]; [now right|left; split; [lia|assumption]].
  - intros [[Hlt Hn]| ->]; [split; [lia|assumption]|split; [lia|apply (fresh_no_sub Es st Hc)]].
Qed.

Lemma fresh_dom_to : forall st x t e, dom_to st t e -> dom_to (fresh_st st x) t e.
Proof.
  intros st x t e [Hg [Hlt Hn]]. unfold dom_to. rewrite fresh_nsets. change (t_subs (fresh_st st x)) with (t_subs st).
  split; [assumption|split; [lia|assumption]].
Qed.

Lemma fresh_not_member : forall Es st x, cinv Es st -> aget x (t_ids st) = None -> ~ In x (concat (t_sets st)).
Proof.
  intros Es st x Hc Hi Hin. apply in_concat in Hin. destruct Hin as [l [Hl Hxl]].
  apply In_nth_error in Hl. destruct Hl as [s Hs].
  apply (c_mem_ids Es st Hc s x); [exists l; auto|assumption].
Qed.

Lemma cinv_fresh : forall Es st x, cinv Es st -> mentioned Es x -> aget x (t_ids st) = None -> cinv Es (fresh_st st x).
Proof.
  intros Es st x Hc Hx Hi.
  pose proof (fresh_nsets st x) as Hn. pose proof (fresh_mem st x) as Hmm. pose proof (fresh_dominant Es st x Hc) as Hdm.
  pose proof (fresh_dom_to st x) as Hdt.
  assert (Hnew : dominant (fresh_st st x) (nsets st)) by (apply Hdm; now right).
  constructor.
  - intros s f Hs. rewrite Hn. apply (c_subs_range Es st Hc) in Hs. lia.
  - apply (c_subs_keys Es st Hc).
  - intros t Ht. rewrite Hn in Ht. destruct (Nat.eq_dec t (nsets st)) as [->|Hne].
    + exists (nsets st). apply dominant_dom_to; assumption.
    + destruct (c_subs_dom Es st Hc t ltac:(lia)) as [e He]. exists e; auto.
  - change (t_sets (fresh_st st x)) with (t_sets st ++ [[x]]). rewrite concat_app. cbn. apply nodup_app.
    + apply (c_sets_nodup Es st Hc).
    + constructor; [intros []|constructor].
    + intros z Hz [<-|[]]. apply (fresh_not_member Es st x Hc Hi); assumption.
  - intros s f Hs. change (t_sets (fresh_st st x)) with (t_sets st ++ [[x]]).
    pose proof (c_subsumed_empty Es st Hc s f Hs) as He.
    rewrite nth_error_app1; [assumption|]. eapply nth_error_some_lt; eassumption.
  - intros z i Hz. change (t_ids (fresh_st st x)) with (aset x (nsets st) (t_ids st)) in Hz. rewrite aget_aset in Hz.
    rewrite Hn. destruct (Nat.eqb_spec z x) as [->|Hzx].
    + inversion Hz; subst i. split; [lia|]. exists (nsets st); split.
      * apply dominant_dom_to; assumption.
      * apply Hmm; right; auto.
    + destruct (c_ids_mem Es st Hc z i Hz) as [Hil [e [He Hme]]]. split; [lia|].
      exists e; split; [auto|apply Hmm; left; assumption].
  - intros s z Hm. change (t_ids (fresh_st st x)) with (aset x (nsets st) (t_ids st)). rewrite aget_aset.
    destruct (Nat.eqb_spec z x) as [->|Hzx]; [congruence|].
    apply Hmm in Hm. destruct Hm as [Hm|[_ ->]]; [|congruence].
    apply (c_mem_ids Es st Hc s z); assumption.
  - apply nodup_keys_aset, (c_ids_keys Es st Hc).
  - apply (mset_wf_mono st (fresh_st st x)); [intros k Hk; apply Hdm; now left|apply (c_conn Es st Hc)].
  - apply (mset_wf_mono st (fresh_st st x)); [intros k Hk; apply Hdm; now left|apply (c_rev Es st Hc)].
  - intros k Hk. apply Hdm in Hk. destruct Hk as [Hk| ->].
    + destruct (c_nonempty Es st Hc k Hk) as [z Hz]. exists z; apply Hmm; now left.
    + exists x; apply Hmm; right; auto.
  - exact (c_conv Es st Hc).
  - exact (c_trans Es st Hc).
  - exact (c_antisym Es st Hc).
  - intros z. change (t_ids (fresh_st st x)) with (aset x (nsets st) (t_ids st)). rewrite aget_aset.
    destruct (Nat.eqb_spec z x) as [->|Hzx]; intros Hz; [assumption|].
    apply (c_ids_ment Es st Hc); assumption.
  - intros s a b Ha Hb. apply Hmm in Ha, Hb.
    destruct Ha as [Ha|[-> ->]], Hb as [Hb|[Hs ->]].
    + apply (c_class Es st Hc s); assumption.
    + subst s. apply mem_of_lt in Ha. lia.
    + apply mem_of_lt in Hb. lia.
    + apply mentioned_rtc; assumption.
  - intros a b u v Hab Hu Hv.
    assert (Hab' : cn st a b) by exact Hab.
    destruct (cn_dominant st a b (c_conn Es st Hc) Hab') as [[Ha _] [Hb _]].
    apply Hmm in Hu, Hv.
    destruct Hu as [Hu|[-> _]]; [|lia]. destruct Hv as [Hv|[-> _]]; [|lia].
    apply (c_conn_sound Es st Hc a b); assumption.
Qed.

(* ---- add_node_new *)
Theorem ann_spec : forall Es st x, cinv Es st -> mentioned Es x ->
  exists st' id fresh, add_node_new st x = Ok (st', id, fresh) /\
    cinv Es st' /\ dominant st' id /\ mem_of st' id x /\
    t_conn st' = t_conn st /\ t_rev st' = t_rev st /\
    (forall z, aget z (t_ids st') <> None <-> aget z (t_ids st) <> None \/ z = x) /\
    (fresh = false -> aget x (t_ids st) <> None /\ nsets st' = nsets st /\ t_sets st' = t_sets st /\
                      (forall d, dominant st' d <-> dominant st d)) /\
    (fresh = true -> aget x (t_ids st) = None /\ id = nsets st /\ t_sets st' = t_sets st ++ [[x]] /\
                     t_subs st' = t_subs st /\
                     (forall d, dominant st' d <-> dominant st d \/ d = id) /\
                     (forall s z, mem_of st' s z <-> mem_of st s z \/ (s = id /\ z = x))).
Proof.
  intros Es st x Hc Hx. unfold add_node_new, elem_set_update.
  destruct (aget x (t_ids st)) as [i|] eqn:Hi.
  - destruct (c_ids_mem Es st Hc x i Hi) as [Hil [d [Hdt Hmem]]].
    pose proof (cinv_dom_to_fuel Es st Hc i d Hdt) as Hg.
    destruct (gdom_mut_spec _ _ _ _ Hg) as [subs1 [Hgm Hcomp]].
    rewrite Hgm. cbn [bind].
    set (ids1 := if Nat.eqb i d then t_ids st else aset x d (t_ids st)).
    set (st' := mkTr (t_sets st) ids1 subs1 (t_conn st) (t_rev st)).
    assert (Hdom : dominant st d) by (eapply dom_to_dominant; eassumption).
    assert (Hids : forall z, aget z ids1 = if Nat.eqb z x then Some d else aget z (t_ids st)).
    { intros z. unfold ids1. destruct (Nat.eqb_spec i d) as [->|Hid].
      - destruct (Nat.eqb_spec z x) as [->|]; [assumption|reflexivity].
      - apply aget_aset. }
    assert (Hnd : NoDup (map fst ids1)).
    { unfold ids1. destruct (Nat.eqb i d); [|apply nodup_keys_aset]; apply (c_ids_keys Es st Hc). }
    assert (Hc' : cinv Es st').
    { apply cinv_compress with (x := x) (d := d); try assumption. congruence. }
    rewrite (cinv_disjoint_ok Es st' Hc'). cbn [dbgt bind].
    assert (Hdm : forall k, dominant st' k <-> dominant st k).
    { apply dominant_same; [reflexivity|]. intros k; apply (compressed_keys _ _ _ k Hcomp). }
    exists st', d, false. split; [reflexivity|]. split; [assumption|].
    split; [apply Hdm; assumption|]. split; [apply (mem_of_sets st st' eq_refl); assumption|].
    split; [reflexivity|]. split; [reflexivity|]. split; [|split].
    + intros z. change (t_ids st') with ids1. rewrite Hids.
      destruct (Nat.eqb_spec z x) as [->|Hzx]; [|intuition congruence].
      split; [intros _; now right|intros _; discriminate].
    + intros _. split; [congruence|]. split; [reflexivity|]. split; [reflexivity|assumption].
    + discriminate.
  - cbn [bind].
    pose proof (cinv_fresh Es st x Hc Hx Hi) as Hc'.
    change (length (t_sets st)) with (nsets st).
    change (mkTr (t_sets st ++ [[x]]) (aset x (nsets st) (t_ids st)) (t_subs st) (t_conn st) (t_rev st)) with (fresh_st st x).
    set (st' := fresh_st st x) in *.
    rewrite (cinv_disjoint_ok Es st' Hc'). cbn [dbgt bind].
    exists st', (nsets st), true. split; [reflexivity|]. split; [assumption|].
    split; [apply (fresh_dominant Es st x Hc); now right|].
    split; [apply (fresh_mem st x); right; auto|].
    split; [reflexivity|]. split; [reflexivity|]. split; [|split].
    + intros z. change (t_ids st') with (aset x (nsets st) (t_ids st)). rewrite aget_aset.
      destruct (Nat.eqb_spec z x) as [->|Hzx]; [|intuition congruence].
      split; [intros _; now right|intros _; discriminate].
    + discriminate.
    + intros _. split; [first [assumption|reflexivity]|]. split; [reflexivity|]. split; [reflexivity|]. split; [reflexivity|].
      split; [apply (fresh_dominant Es st x Hc)|apply (fresh_mem st x)].
Qed.

Print Assumptions ann_spec.
