(* C18, TrRelUnionFind: state-level effect of add_set_connection (no collapse) on the invariant. *)
From Coq Require Import List Arith Bool Lia.
From AV Require Import UF.UfBase.
From AV Require Import UF.TrUfModel.
From AV Require Import UF.TrUfInv.
From AV Require Import UF.TrUfLemmas.
From AV Require Import UF.TrUfQueries.
From AV Require Import UF.TrUfCore.
From AV Require Import UF.TrUfGraph.
Import ListNotations.

(* ---- the closure after one more pair *)
Lemma rtc_mono : forall E E' x y, (forall p, In p E -> In p E') -> rtc E x y -> rtc E' x y.
Proof.
  intros E E' x y Hi H; induction H.
  - eapply rtc_l; apply Hi; eassumption.
  - eapply rtc_r; apply Hi; eassumption.
  - apply rtc_e; apply Hi; assumption.
  - eapply rtc_t; eassumption.
Qed.

Lemma rtc_snoc_inv : forall E x0 y0 u v, rtc (E ++ [(x0, y0)]) u v ->
  rtc E u v \/ ((u = x0 \/ rtc E u x0) /\ (v = y0 \/ rtc E y0 v)) \/ (u = v /\ (u = x0 \/ u = y0)).
Proof.
  intros E x0 y0 u v H; induction H as [u y Hi|y u Hi|u v Hi|u w v H1 IH1 H2 IH2].
  - apply in_app_iff in Hi; destruct Hi as [Hi|[Hi|[]]].
    + left; eapply rtc_l; eassumption.
    + inversion Hi; subst; right; right; auto.
  - apply in_app_iff in Hi; destruct Hi as [Hi|[Hi|[]]].
    + left; eapply rtc_r; eassumption.
    + inversion Hi; subst; right; right; auto.
  - apply in_app_iff in Hi; destruct Hi as [Hi|[Hi|[]]].
    + left; apply rtc_e; assumption.
    + inversion Hi; subst; right; left; auto.
  - destruct IH1 as [L1|[[A1 B1]|[-> _]]]; [| |exact IH2].
    + destruct IH2 as [L2|[[A2 B2]|[<- _]]]; [left; eapply rtc_t; eassumption| |left; assumption].
      right; left; split; [|assumption]. right. destruct A2 as [->|A2]; [assumption|eapply rtc_t; eassumption].
    + destruct IH2 as [L2|[[A2 B2]|[<- _]]]; [|right; left; split; assumption|right; left; split; assumption].
      right; left; split; [assumption|]. right. destruct B1 as [->|B1]; [assumption|eapply rtc_t; eassumption].
Qed.

Lemma mentioned_snoc : forall E x0 y0 z, mentioned (E ++ [(x0, y0)]) z <-> mentioned E z \/ z = x0 \/ z = y0.
Proof.
  intros E x0 y0 z; unfold mentioned; split.
  - intros [w [H|H]]; apply in_app_iff in H; destruct H as [H|[H|[]]].
    + left; exists w; auto.
    + inversion H; auto.
    + left; exists w; auto.
    + inversion H; auto.
  - intros [[w [H|H]]|[->| ->]].
    + exists w; left; apply in_app_iff; auto.
    + exists w; right; apply in_app_iff; auto.
    + exists y0; left; apply in_app_iff; right; now left.
    + exists x0; right; apply in_app_iff; right; now left.
Qed.

(* ---- reading lemmas under cinv *)
Lemma cmem_disj : forall Es st, cinv Es st -> forall a b x, mem_of st a x -> mem_of st b x -> a = b.
Proof.
  intros Es st Hc a b x [la [Ha Hxa]] [lb [Hb Hxb]].
  eapply (concat_nodup_disj (t_sets st) a b la lb x); try eassumption. apply (c_sets_nodup Es st Hc).
Qed.

Lemma mset_wf_good : forall st m, mset_wf st m <-> mgood (dominant st) m.
Proof.
  intros st m; unfold mset_wf, mgood, mnodup, mrange; split.
  - intros [Hk Hv]; split; [split; [assumption|]|]; intros k c Hg; destruct (Hv k c Hg) as [H1 [H2 H3]]; auto.
  - intros [[Hk Hn] Hr]; split; [assumption|]. intros k c Hg; destruct (Hr k c Hg) as [H1 H2]. split; [assumption|].
    split; [eapply Hn; eassumption|assumption].
Qed.

Lemma wf_cn_dom : forall Es st, cinv Es st -> forall a b, cn st a b -> dominant st a /\ dominant st b.
Proof.
  intros Es st Hc a b H. apply (mrange_has (dominant st) (t_conn st)); [|exact H].
  apply mset_wf_good, (c_conn Es st Hc).
Qed.
Lemma wf_rv_dom : forall Es st, cinv Es st -> forall a b, rv st a b -> dominant st a /\ dominant st b.
Proof.
  intros Es st Hc a b H. apply (mrange_has (dominant st) (t_rev st)); [|exact H].
  apply mset_wf_good, (c_rev Es st Hc).
Qed.

(* ---- add_set_connection between two unconnected live classes *)
Theorem asc_state : forall Es st from to x0 y0,
  cinv Es st -> dominant st from -> dominant st to -> from <> to ->
  ~ cn st to from -> ~ cn st from to ->
  mem_of st from x0 -> mem_of st to y0 -> rtc Es x0 y0 ->
  exists st', add_set_connection st from to = Ok (st', true) /\
    t_sets st' = t_sets st /\ t_ids st' = t_ids st /\ t_subs st' = t_subs st /\
    cinv Es st' /\
    (forall a b, dominant st a ->
       (cn st' a b <-> cn st a b \/ ((a = from \/ cn st a from) /\ (b = to \/ cn st to b)))) /\
    (forall d, ahas d (t_conn st) = true \/ d = from \/ d = to -> ahas d (t_conn st') = true) /\
    (forall d, ahas d (t_rev st) = true \/ d = from \/ d = to -> ahas d (t_rev st') = true).
Proof.
  intros Es st from to x0 y0 Hc Hdf Hdt Hft Hnb Hnf Hx0 Hy0 Hxy.
  assert (Hm : smem to (eget from (t_conn st)) = false) by (apply smem_false; exact Hnf).
  rewrite (asc_eq st from to Hm).
  set (C6 := fst (asc_maps (t_conn st) (t_rev st) from to)).
  set (R6 := snd (asc_maps (t_conn st) (t_rev st) from to)).
  exists (with_cr st C6 R6). split; [reflexivity|]. split; [reflexivity|]. split; [reflexivity|]. split; [reflexivity|].
  pose (W := dominant st).
  assert (Hconv : forall a b, W a -> W b -> a <> b -> (In b (eget a (t_conn st)) <-> In a (eget b (t_rev st)))).
  { intros a b _ _ Hab; apply (c_conv Es st Hc a b Hab). }
  assert (Htrans : forall a b c, W a -> W b -> W c -> In b (eget a (t_conn st)) -> In c (eget b (t_conn st)) -> a <> c -> In c (eget a (t_conn st))).
  { intros a b c _ _ _; apply (c_trans Es st Hc). }
  assert (Hanti : forall a b, W a -> W b -> a <> b -> In b (eget a (t_conn st)) -> ~ In a (eget b (t_conn st))).
  { intros a b _ _; apply (c_antisym Es st Hc). }
  assert (HRf : forall a, In a (eget from (t_rev st)) -> W a) by (intros a H; apply (wf_rv_dom Es st Hc from a H)).
  assert (HCt : forall b, In b (eget to (t_conn st)) -> W b) by (intros b H; apply (wf_cn_dom Es st Hc to b H)).
  assert (K1 : forall a b, W a -> (In b (eget a C6) <-> In b (eget a (t_conn st)) \/
             ((a = from \/ In from (eget a (t_conn st))) /\ (b = to \/ In b (eget to (t_conn st)))))).
  { intros a b Wa. apply (asc_K1 W (t_conn st) (t_rev st) from to); assumption. }
  assert (K3 : forall a b, W a -> W b -> a <> b -> (In b (eget a C6) <-> In a (eget b R6))).
  { intros a b Wa Wb Hab. apply (asc_K3 W (t_conn st) (t_rev st) from to); assumption. }
  assert (KT : forall a b c, W a -> W b -> W c -> In b (eget a C6) -> In c (eget b C6) -> a <> c -> In c (eget a C6)).
  { intros a b c Wa Wb Wc. apply (asc_trans W (t_conn st) (t_rev st) from to); assumption. }
  assert (KA : forall a b, W a -> W b -> a <> b -> In b (eget a C6) -> ~ In a (eget b C6)).
  { intros a b Wa Wb. apply (asc_antisym W (t_conn st) (t_rev st) from to); assumption. }
  destruct (asc_good W (t_conn st) (t_rev st) from to) as [GC GR];
    [apply mset_wf_good, (c_conn Es st Hc)|apply mset_wf_good, (c_rev Es st Hc)|exact Hdf|exact Hdt|].
  fold C6 in GC. fold R6 in GR.
  assert (HdC : forall a b, In b (eget a C6) -> W a /\ W b) by (intros a b; apply mrange_has, GC).
  assert (HdR : forall a b, In b (eget a R6) -> W a /\ W b) by (intros a b; apply mrange_has, GR).
  split; [|split; [|split]].
  - destruct Hc. constructor; try assumption.
    + apply mset_wf_good; exact GC.
    + apply mset_wf_good; exact GR.
    + intros a b Hab; unfold cn, rv; cbn [t_conn t_rev with_cr]. split; intros H.
      * destruct (HdC _ _ H). apply K3; assumption.
      * destruct (HdR _ _ H). apply K3; assumption.
    + intros a b c Hab Hbc Hac; unfold cn in *; cbn [t_conn with_cr] in *.
      destruct (HdC _ _ Hab). destruct (HdC _ _ Hbc). apply (KT a b c); assumption.
    + intros a b Hne Hab Hba; unfold cn in *; cbn [t_conn with_cr] in *.
      destruct (HdC _ _ Hab). apply (KA a b); assumption.
    + intros a b x y Hab Hxa Hyb. unfold cn in Hab; cbn [t_conn with_cr] in Hab.
      destruct (HdC _ _ Hab) as [Wa Wb]. apply K1 in Hab; [|assumption].
      destruct Hab as [Hab|[Hp Hs]]; [eapply c_conn_sound; eassumption|].
      assert (Hx : rtc Es x x0).
      { destruct Hp as [->|Hp]; [eapply c_class; eassumption|eapply c_conn_sound; eassumption]. }
      assert (Hy : rtc Es y0 y).
      { destruct Hs as [->|Hs]; [eapply c_class; eassumption|eapply c_conn_sound; eassumption]. }
      eapply rtc_t; [exact Hx|]. eapply rtc_t; [exact Hxy|exact Hy].
  - intros a b Wa. unfold cn; cbn [t_conn with_cr]. apply K1; exact Wa.
  - intros d Hd. cbn [t_conn with_cr]. apply (asc_present (t_conn st) (t_rev st) from to Hft d); exact Hd.
  - intros d Hd. cbn [t_rev with_cr]. apply (asc_present (t_conn st) (t_rev st) from to Hft d); exact Hd.
Qed.
