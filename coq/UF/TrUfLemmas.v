(* Basic facts about the association lists, list-sets and vectors of UfBase.v (used by the
   TrRelUnionFind proofs). *)
From Coq Require Import List Arith Bool Lia.
From AV Require Import UF.UfBase.
Import ListNotations.

(* ---- association lists *)
Lemma aget_aset : forall V (k k' : nat) (v : V) m,
  aget k' (aset k v m) = if Nat.eqb k' k then Some v else aget k' m.
Proof.
  induction m as [|[a b] m IH]; cbn.
  - destruct (Nat.eqb_spec k' k); reflexivity.
  - destruct (Nat.eqb_spec k a) as [->|Hka]; cbn.
    + destruct (Nat.eqb_spec k' a); reflexivity.
    + rewrite IH. destruct (Nat.eqb_spec k' a) as [->|]; [|reflexivity].
      destruct (Nat.eqb_spec a k); [congruence|reflexivity].
Qed.

Lemma aget_aset_eq : forall V (k : nat) (v : V) m, aget k (aset k v m) = Some v.
Proof. intros; rewrite aget_aset, Nat.eqb_refl; reflexivity. Qed.
Lemma aget_aset_ne : forall V (k k' : nat) (v : V) m, k' <> k -> aget k' (aset k v m) = aget k' m.
Proof. intros; rewrite aget_aset; destruct (Nat.eqb_spec k' k); [contradiction|reflexivity]. Qed.

Lemma aget_arem : forall V (k k' : nat) (m : list (nat * V)),
  aget k' (arem k m) = if Nat.eqb k' k then None else aget k' m.
Proof.
  induction m as [|[a b] m IH]; cbn.
  - destruct (Nat.eqb k' k); reflexivity.
  - destruct (Nat.eqb_spec k a) as [->|Hka]; cbn.
    + rewrite IH. destruct (Nat.eqb_spec k' a); reflexivity.
    + rewrite IH. destruct (Nat.eqb_spec k' a) as [->|]; [|reflexivity].
      destruct (Nat.eqb_spec a k); [congruence|reflexivity].
Qed.

Lemma keys_aset : forall V (k : nat) (v : V) m k', In k' (map fst (aset k v m)) <-> k' = k \/ In k' (map fst m).
Proof.
  induction m as [|[a b] m IH]; cbn; intros.
  - intuition.
  - destruct (Nat.eqb_spec k a) as [->|Hka]; cbn; [intuition|]. rewrite IH. intuition.
Qed.

Lemma keys_arem : forall V (k : nat) (m : list (nat * V)) k', In k' (map fst (arem k m)) <-> k' <> k /\ In k' (map fst m).
Proof.
  induction m as [|[a b] m IH]; cbn; intros.
  - intuition.
  - destruct (Nat.eqb_spec k a) as [->|Hka]; cbn; rewrite IH; intuition congruence.
Qed.

Lemma nodup_keys_aset : forall V (k : nat) (v : V) m, NoDup (map fst m) -> NoDup (map fst (aset k v m)).
Proof.
  induction m as [|[a b] m IH]; cbn; intros H.
  - constructor; [intros []|constructor].
  - inversion H as [|? ? Hn Hd]; subst. destruct (Nat.eqb_spec k a) as [->|Hka]; cbn.
    + constructor; assumption.
    + constructor; [|apply IH; assumption]. rewrite keys_aset. intuition.
Qed.

Lemma nodup_keys_arem : forall V (k : nat) (m : list (nat * V)), NoDup (map fst m) -> NoDup (map fst (arem k m)).
Proof.
  induction m as [|[a b] m IH]; cbn; intros H; [constructor|].
  inversion H as [|? ? Hn Hd]; subst. destruct (Nat.eqb_spec k a) as [->|Hka]; cbn.
  - apply IH; assumption.
  - constructor; [|apply IH; assumption]. rewrite keys_arem. intuition.
Qed.

Lemma aget_some_in_keys : forall V (k : nat) (m : list (nat * V)), aget k m <> None <-> In k (map fst m).
Proof.
  induction m as [|[a b] m IH]; cbn.
  - intuition.
  - destruct (Nat.eqb_spec k a) as [->|Hka]; [intuition congruence|]. rewrite IH. intuition.
Qed.

Lemma aget_in : forall V (k : nat) (v : V) m, aget k m = Some v -> In (k, v) m.
Proof.
  induction m as [|[a b] m IH]; cbn; [discriminate|].
  destruct (Nat.eqb_spec k a) as [->|Hka]; intros H; [inversion H; subst; now left|right; auto].
Qed.

Lemma in_aget : forall V (k : nat) (v : V) m, NoDup (map fst m) -> In (k, v) m -> aget k m = Some v.
Proof.
  induction m as [|[a b] m IH]; cbn; [intros _ []|]. intros Hd [He|Hi].
  - inversion He; subst. rewrite Nat.eqb_refl; reflexivity.
  - inversion Hd as [|? ? Hn Hd']; subst. destruct (Nat.eqb_spec k a) as [->|Hka]; [|auto].
    exfalso; apply Hn. change a with (fst (a, v)). apply in_map; assumption.
Qed.

Lemma length_aset : forall V (k : nat) (v : V) m,
  length (aset k v m) = match aget k m with Some _ => length m | None => S (length m) end.
Proof.
  induction m as [|[a b] m IH]; cbn; [reflexivity|].
  destruct (Nat.eqb_spec k a) as [->|Hka]; cbn; [reflexivity|]. rewrite IH. destruct (aget k m); reflexivity.
Qed.

Lemma ahas_true : forall V (k : nat) (m : list (nat * V)), ahas k m = true <-> aget k m <> None.
Proof. intros; unfold ahas; destruct (aget k m); intuition congruence. Qed.
Lemma ahas_aset : forall V (k k' : nat) (v : V) m, ahas k' (aset k v m) = Nat.eqb k' k || ahas k' m.
Proof. intros; unfold ahas; rewrite aget_aset; destruct (Nat.eqb k' k); reflexivity. Qed.
Lemma ahas_arem : forall V (k k' : nat) (m : list (nat * V)), ahas k' (arem k m) = negb (Nat.eqb k' k) && ahas k' m.
Proof. intros; unfold ahas; rewrite aget_arem; destruct (Nat.eqb k' k); reflexivity. Qed.

(* ---- eget / ensure *)
Lemma eget_aset : forall k k' v (m : mset), eget k' (aset k v m) = if Nat.eqb k' k then v else eget k' m.
Proof. intros; unfold eget; rewrite aget_aset; destruct (Nat.eqb k' k); reflexivity. Qed.
Lemma eget_aset_eq : forall k v (m : mset), eget k (aset k v m) = v.
Proof. intros; rewrite eget_aset, Nat.eqb_refl; reflexivity. Qed.
Lemma eget_aset_ne : forall k k' v (m : mset), k' <> k -> eget k' (aset k v m) = eget k' m.
Proof. intros; rewrite eget_aset; destruct (Nat.eqb_spec k' k); [contradiction|reflexivity]. Qed.
Lemma eget_arem : forall k k' (m : mset), eget k' (arem k m) = if Nat.eqb k' k then [] else eget k' m.
Proof. intros; unfold eget; rewrite aget_arem; destruct (Nat.eqb k' k); reflexivity. Qed.
Lemma eget_ensure : forall k k' (m : mset), eget k' (ensure k m) = eget k' m.
Proof.
  intros; unfold ensure. destruct (aget k m) eqn:H; [reflexivity|]. rewrite eget_aset.
  destruct (Nat.eqb_spec k' k) as [->|]; [unfold eget; rewrite H|]; reflexivity.
Qed.
Lemma ahas_ensure : forall k k' (m : mset), ahas k' (ensure k m) = Nat.eqb k' k || ahas k' m.
Proof.
  intros; unfold ensure. destruct (aget k m) eqn:H; [|apply ahas_aset].
  destruct (Nat.eqb_spec k' k) as [->|]; [|reflexivity]. unfold ahas; rewrite H; reflexivity.
Qed.
Lemma aget_ensure_some : forall k k' (m : mset) c, aget k' (ensure k m) = Some c -> aget k' m = Some c \/ (k' = k /\ c = [] /\ aget k m = None).
Proof.
  intros k k' m c; unfold ensure. destruct (aget k m) eqn:H; [auto|]. rewrite aget_aset.
  destruct (Nat.eqb_spec k' k) as [->|]; [intros E; inversion E; auto|auto].
Qed.
Lemma nodup_keys_ensure : forall k (m : mset), NoDup (map fst m) -> NoDup (map fst (ensure k m)).
Proof. intros; unfold ensure; destruct (aget k m); [assumption|apply nodup_keys_aset; assumption]. Qed.
Lemma eget_some : forall k (m : mset) c, aget k m = Some c -> eget k m = c.
Proof. intros; unfold eget; rewrite H; reflexivity. Qed.

(* ---- list-sets *)
Lemma smem_in : forall x s, smem x s = true <-> In x s.
Proof.
  intros; unfold smem; rewrite existsb_exists; split.
  - intros [y [Hy He]]; apply Nat.eqb_eq in He; subst; assumption.
  - intros H; exists x; split; [assumption|apply Nat.eqb_refl].
Qed.
Lemma smem_false : forall x s, smem x s = false <-> ~ In x s.
Proof. intros; rewrite <- smem_in; destruct (smem x s); intuition congruence. Qed.
Lemma in_sadd : forall x y s, In x (sadd y s) <-> x = y \/ In x s.
Proof.
  intros; unfold sadd; destruct (smem y s) eqn:H.
  - apply smem_in in H; intuition; subst; assumption.
  - rewrite in_app_iff; cbn; intuition.
Qed.
Lemma in_srem : forall x y s, In x (srem y s) <-> x <> y /\ In x s.
Proof.
  intros; unfold srem; rewrite filter_In. destruct (Nat.eqb_spec y x); cbn; intuition congruence.
Qed.
Lemma in_sdiff : forall x a b, In x (sdiff a b) <-> In x a /\ ~ In x b.
Proof.
  intros; unfold sdiff; rewrite filter_In. destruct (smem x b) eqn:H; cbn.
  - apply smem_in in H; intuition congruence.
  - apply smem_false in H; intuition.
Qed.
Lemma in_sinter : forall x a b, In x (sinter a b) <-> In x a /\ In x b.
Proof. intros; unfold sinter; rewrite filter_In, smem_in; reflexivity. Qed.
Lemma in_sunion : forall x a b, In x (sunion a b) <-> In x a \/ In x b.
Proof.
  intros; unfold sunion; rewrite in_app_iff, in_sdiff.
  destruct (in_dec Nat.eq_dec x a); intuition.
Qed.

Lemma nodup_filter : forall (f : nat -> bool) l, NoDup l -> NoDup (filter f l).
Proof. intros; apply NoDup_filter; assumption. Qed.
Lemma nodup_app : forall (a b : list nat), NoDup a -> NoDup b -> (forall x, In x a -> ~ In x b) -> NoDup (a ++ b).
Proof.
  induction a as [|h a IH]; cbn; intros b Ha Hb Hd; [assumption|].
  inversion Ha as [|? ? Hn Ha']; subst. constructor.
  - rewrite in_app_iff. intros [H|H]; [contradiction|]. apply (Hd h); [now left|assumption].
  - apply IH; [assumption|assumption|]. intros x Hx; apply Hd; now right.
Qed.
Lemma nodup_app_inv : forall (a b : list nat), NoDup (a ++ b) -> NoDup a /\ NoDup b /\ (forall x, In x a -> ~ In x b).
Proof.
  induction a as [|h a IH]; cbn; intros b H.
  - repeat split; [constructor|assumption|intros x []].
  - inversion H as [|? ? Hn H']; subst. destruct (IH _ H') as [Ha [Hb Hd]]. rewrite in_app_iff in Hn.
    repeat split; [constructor; intuition|assumption|]. intros x [->|Hx]; [intuition|apply Hd; assumption].
Qed.
Lemma nodup_sadd : forall y s, NoDup s -> NoDup (sadd y s).
Proof.
  intros; unfold sadd; destruct (smem y s) eqn:E; [assumption|]. apply smem_false in E.
  apply nodup_app; [assumption|constructor; [intros []|constructor]|]. intros x Hx [->|[]]; contradiction.
Qed.
Lemma nodup_srem : forall y s, NoDup s -> NoDup (srem y s).
Proof. intros; apply nodup_filter; assumption. Qed.
Lemma nodup_sdiff : forall a b, NoDup a -> NoDup (sdiff a b).
Proof. intros; apply nodup_filter; assumption. Qed.
Lemma nodup_sinter : forall a b, NoDup a -> NoDup (sinter a b).
Proof. intros; apply nodup_filter; assumption. Qed.
Lemma nodup_sunion : forall a b, NoDup a -> NoDup b -> NoDup (sunion a b).
Proof.
  intros; unfold sunion; apply nodup_app; [assumption|apply nodup_sdiff; assumption|].
  intros x Hx; rewrite in_sdiff; intuition.
Qed.

(* ---- vectors *)
Lemma length_set_nth : forall A (l : list A) i v, length (set_nth l i v) = length l.
Proof. induction l as [|h t IH]; destruct i; cbn; intros; try reflexivity. rewrite IH; reflexivity. Qed.
Lemma nth_set_nth_eq : forall A (l : list A) i v, i < length l -> nth_error (set_nth l i v) i = Some v.
Proof. induction l as [|h t IH]; destruct i; cbn; intros; try lia; [reflexivity|]. apply IH; lia. Qed.
Lemma nth_set_nth_ne : forall A (l : list A) i j v, i <> j -> nth_error (set_nth l i v) j = nth_error l j.
Proof.
  induction l as [|h t IH]; destruct i, j; cbn; intros; try reflexivity; try congruence. apply IH; congruence.
Qed.
Lemma nth_error_lt : forall A (l : list A) i, i < length l -> exists v, nth_error l i = Some v.
Proof. intros. destruct (nth_error l i) eqn:E; [eauto|]. apply nth_error_None in E; lia. Qed.
Lemma nth_error_some_lt : forall A (l : list A) i v, nth_error l i = Some v -> i < length l.
Proof. intros. apply nth_error_Some. congruence. Qed.
