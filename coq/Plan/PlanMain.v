(* Planner + engine: for EVERY well-formed core program and every ok SCC partition, running the plan computed by the
   planner model computes the least model (relations only: Engine/Main.v run_plan_correct_full), resp. the stratified
   model with the aggregated relations of each stratum held fixed (with aggregation / negation: Engine/MainAgg.v
   run_plan_strat_correct_full).  The plan is no longer a hypothesis ("for every plan the validator accepts") but
   computed: Plan/PlanProofs.v compile_model_valid discharges the validator.
   Like the engine theorems these are partial-correctness statements: `run_plan .. = Some st` says the fuel sufficed. *)
From Coq Require Import List ZArith Bool Arith Permutation.
From AV Require Import Engine.Core.
From AV Require Import Engine.Sem.
From AV Require Import Engine.Eval.
From AV Require Import Engine.Validate.
From AV Require Import Engine.Naive.
From AV Require Import Engine.NaiveLemmas.
From AV Require Import Engine.Interface.
From AV Require Import Engine.InterfaceAgg.
From AV Require Import Engine.Strat.
From AV Require Import Engine.StratFixed.
From AV Require Import Engine.SemiNaiveAgg.
From AV Require Import Engine.Main.
From AV Require Import Engine.MainAgg.
From AV Require Import Engine.Vocab.
From AV Require Import Plan.PlanModel.
From AV Require Import Plan.PlanWf.
From AV Require Import Plan.PlanProofs.
Import ListNotations.

(* relations only *)
Theorem planner_engine_correct : forall I swap arities P sccs fuel F0 st,
  arities_functional arities -> wf_facts arities F0 = true -> no_agg P = true ->
  wf_core arities P = true -> sccs_ok P sccs = true ->
  run_plan I swap fuel (compile_model arities P sccs) (init_state F0) = Some st ->
  least_model I P F0 (rows st)
  /\ exists added, rows st = F0 ++ added /\ NoDup added /\ (forall f, In f added -> ~ In f F0).
Proof.
  intros I swap arities P sccs fuel F0 st Har HF Hna Hwf Hok Hrun.
  exact (run_plan_correct_full I swap arities P (compile_model arities P sccs) fuel F0 st Har HF Hna
           (compile_model_valid arities P sccs Hwf Hok) Hrun).
Qed.

(* the same for every rendering of the expressions (the planner's only syntactic test, see PlanModel.v free_ident) *)
Theorem planner_engine_correct_gen : forall fi I swap arities P sccs fuel F0 st,
  arities_functional arities -> wf_facts arities F0 = true -> no_agg P = true ->
  wf_core arities P = true -> sccs_ok P sccs = true ->
  run_plan I swap fuel (compile_model_gen fi arities P sccs) (init_state F0) = Some st ->
  least_model I P F0 (rows st)
  /\ exists added, rows st = F0 ++ added /\ NoDup added /\ (forall f, In f added -> ~ In f F0).
Proof.
  intros fi I swap arities P sccs fuel F0 st Har HF Hna Hwf Hok Hrun.
  exact (run_plan_correct_full I swap arities P (compile_model_gen fi arities P sccs) fuel F0 st Har HF Hna
           (compile_model_gen_valid arities fi P sccs Hwf Hok) Hrun).
Qed.

(* with aggregation / negation *)
Theorem planner_engine_strat_correct : forall I swap arities P sccs fuel F0 st,
  arities_functional arities -> wf_facts arities F0 = true -> NoDup F0 -> agg_perm_invariant I ->
  wf_core arities P = true -> sccs_ok P sccs = true ->
  run_plan I swap fuel (compile_model arities P sccs) (init_state F0) = Some st ->
  let strata := plan_strata P (compile_model arities P sccs) in
  stratified strata = true
  /\ (forall r, In r P <-> In r (concat strata))
  /\ strat_model_fixed I strata F0 (rows st)
  /\ NoDup (rows st)
  /\ exists added, rows st = F0 ++ added.
Proof.
  intros I swap arities P sccs fuel F0 st Har HF Hnd Hperm Hwf Hok Hrun.
  exact (run_plan_strat_correct_full I swap arities P (compile_model arities P sccs) fuel F0 st Har HF Hnd Hperm
           (compile_model_valid arities P sccs Hwf Hok) Hrun).
Qed.

(* the strata of the computed plan are the SCCs of the partition handed to the planner *)
Lemma plan_strata_compile fi arities P sccs : sccs_ok P sccs = true ->
  Forall2 (fun stratum scc => forall r, In r stratum <-> exists j, In j scc /\ nth_error P j = Some r)
          (plan_strata P (compile_model_gen fi arities P sccs)) sccs.
Proof.
  intros Hok. unfold plan_strata, compile_model_gen. rewrite map_map.
  assert (forall l, incl l sccs ->
    Forall2 (fun stratum scc => forall r, In r stratum <-> exists j, In j scc /\ nth_error P j = Some r)
            (map (fun scc => filter_map (fun j => nth_error P j) (rules_of_scc (compile_scc fi P scc))) l) l) as H.
  { induction l as [|sc l IH]; intros Hi; [constructor|]. cbn [map]. constructor.
    - intros r. rewrite in_filter_map. split; intros (j & H1 & H2); exists j; (split; [|exact H2]);
        apply (rules_of_compile fi P sccs Hok sc j (Hi sc (or_introl eq_refl))); exact H1.
    - apply IH. intros x Hx. apply Hi. right. exact Hx. }
  apply H. apply incl_refl.
Qed.

(* instance: the example program of PlanProofs.v under the fixed vocabulary, relations 0 and 1 only (no aggregate) *)
Definition ex_core : list rule := firstn 3 ex_prog.
Example ex_core_run :
  option_map rows (run_plan std_interp std_swap 50%nat (compile_model ex_arities ex_core [[0]; [1; 2]]%nat)
                            (init_state [(0%nat, [1; 2]%Z); (0%nat, [2; 3]%Z); (0%nat, [3; 4]%Z)]))
  = Some [(0%nat, [1; 2]%Z); (0%nat, [2; 3]%Z); (0%nat, [3; 4]%Z);
          (1%nat, [1; 2]%Z); (1%nat, [2; 3]%Z); (1%nat, [3; 4]%Z);
          (1%nat, [1; 3]%Z); (1%nat, [2; 4]%Z); (1%nat, [1; 4]%Z)].
Proof. vm_compute. reflexivity. Qed.

Print Assumptions planner_engine_correct.
Print Assumptions planner_engine_strat_correct.
