(* The HIR pass of the planner model (Plan/PlanModel.v) produces, for every well-formed rule, items the
   validator accepts: the index columns chosen for a clause are Validate.expected_idx; a rule flagged as a simple
   join passes Validate.check_simple_join, in the swapped order too when it is flagged reorderable. *)
From Coq Require Import List ZArith Bool Arith Lia.
From AV Require Import Engine.Core.
From AV Require Import Engine.Eval.
From AV Require Import Engine.Validate.
From AV Require Import Plan.PlanModel.
From AV Require Import Plan.PlanWf.
Import ListNotations.
Local Open Scope nat_scope.

(* ---------- membership ---------- *)
Lemma memv_app x a b : memv x (a ++ b) = memv x a || memv x b.
Proof. unfold memv. apply existsb_app. Qed.

Lemma memv_cons x y l : memv x (y :: l) = Nat.eqb x y || memv x l.
Proof. reflexivity. Qed.

Lemma memv_rev x l : memv x (rev l) = memv x l.
Proof.
  induction l as [|y l IH]; [reflexivity|]. cbn [rev]. rewrite memv_app, IH, memv_cons. cbn [memv existsb].
  rewrite orb_false_r. apply orb_comm.
Qed.

Lemma subv_mono xs S1 S2 : (forall x, memv x S1 = true -> memv x S2 = true) -> subv xs S1 = true -> subv xs S2 = true.
Proof.
  intros H. unfold subv. rewrite !forallb_forall. intros Hs x Hx. apply H. apply Hs. exact Hx.
Qed.

Lemma nats_eqb_refl l : nats_eqb l l = true.
Proof. induction l as [|x l IH]; [reflexivity|]. cbn [nats_eqb]. rewrite Nat.eqb_refl. exact IH. Qed.

(* ---------- conditions ---------- *)
Lemma check_cond_grounds B c B' : check_cond B c = Some B' -> B' = cond_bound c ++ B.
Proof.
  destruct c as [p xs|x f xs]; cbn [check_cond cond_bound].
  - destruct (subv xs B); [|discriminate]. intros H. injection H as <-. reflexivity.
  - destruct (subv xs B && negb (memv x B)); [|discriminate]. intros H. injection H as <-. reflexivity.
Qed.

Lemma check_conds_grounds cs : forall B B', check_conds B cs = Some B' -> B' = ground_conds B cs.
Proof.
  induction cs as [|c cs IH]; intros B B' H; cbn [check_conds ground_conds] in *.
  - injection H as <-. reflexivity.
  - destruct (check_cond B c) as [B1|] eqn:E; [|discriminate]. apply check_cond_grounds in E. subst B1. apply IH. exact H.
Qed.

Lemma ground_conds_mem cs : forall G x, memv x (ground_conds G cs) = memv x (flat_map cond_bound cs) || memv x G.
Proof.
  induction cs as [|c cs IH]; intros G x; cbn [ground_conds flat_map]; [reflexivity|].
  rewrite IH, !memv_app. destruct (memv x (flat_map cond_bound cs)), (memv x (cond_bound c)); reflexivity.
Qed.

(* binders of accepted conditions are fresh *)
Lemma check_conds_fresh cs : forall S R, check_conds S cs = Some R ->
  forall x, memv x (flat_map cond_bound cs) = true -> memv x S = false.
Proof.
  induction cs as [|c cs IH]; intros S R H x Hx; cbn [check_conds flat_map] in *; [discriminate|].
  destruct (check_cond S c) as [S1|] eqn:E; [|discriminate].
  rewrite memv_app in Hx. apply orb_true_iff in Hx as [Hx|Hx].
  - destruct c as [p xs|y f xs]; cbn [cond_bound] in Hx; [discriminate|].
    cbn [check_cond] in E. destruct (subv xs S && negb (memv y S)) eqn:E2; [|discriminate].
    apply andb_true_iff in E2 as [_ E2]. apply negb_true_iff in E2.
    cbn [memv existsb] in Hx. rewrite orb_false_r in Hx. apply Nat.eqb_eq in Hx. subst y. exact E2.
  - pose proof (IH _ _ H x Hx) as H1. pose proof (check_cond_grounds _ _ _ E) as ->.
    rewrite memv_app in H1. apply orb_false_iff in H1 as [_ H1]. exact H1.
Qed.

(* conditions without binders, checked over a larger set *)
Lemma check_conds_nobind cs : forall S1 S2 R, existsb is_bind cs = false -> check_conds S1 cs = Some R ->
  (forall x, memv x S1 = true -> memv x S2 = true) -> check_conds S2 cs = Some S2.
Proof.
  induction cs as [|c cs IH]; intros S1 S2 R Hb H Hsub; cbn [check_conds existsb] in *; [reflexivity|].
  apply orb_false_iff in Hb as [Hc Hb]. destruct c as [p xs|y f xs]; [|discriminate].
  cbn [check_cond] in *. destruct (subv xs S1) eqn:E; [|discriminate].
  rewrite (subv_mono _ _ _ Hsub E). eapply IH; [exact Hb|exact H|exact Hsub].
Qed.

Section FI.
Variable fi : cond -> bool.
(* conditions that mention only the clause's own variables, checked over a set between self and the original one *)
Lemma check_conds_self cs : forall self S1 S2 R, conds_self fi self cs = true -> check_conds S1 cs = Some R ->
  (forall x, memv x self = true -> memv x S2 = true) -> (forall x, memv x S2 = true -> memv x S1 = true) ->
  check_conds S2 cs = Some (ground_conds S2 cs).
Proof.
  induction cs as [|c cs IH]; intros self S1 S2 R Hs H Hsub1 Hsub2; cbn [check_conds conds_self ground_conds] in *; [reflexivity|].
  apply andb_true_iff in Hs as [Hs Hs2]. apply andb_true_iff in Hs as [_ Hs1].
  destruct (check_cond S1 c) as [S1'|] eqn:E; [|discriminate].
  pose proof (check_cond_grounds _ _ _ E) as ->.
  assert (check_cond S2 c = Some (cond_bound c ++ S2)) as E2.
  { destruct c as [p xs|y f xs]; cbn [check_cond cond_bound cond_uses app] in *.
    - rewrite (subv_mono _ _ _ Hsub1 Hs1). reflexivity.
    - rewrite (subv_mono _ _ _ Hsub1 Hs1). destruct (subv xs S1 && negb (memv y S1)) eqn:E3; [|discriminate].
      apply andb_true_iff in E3 as [_ E3]. apply negb_true_iff in E3.
      destruct (memv y S2) eqn:E4; [rewrite (Hsub2 _ E4) in E3; discriminate|]. reflexivity. }
  rewrite E2. eapply IH; [exact Hs2|exact H| |].
  - intros x. rewrite !memv_app. intros Hx. apply orb_true_iff in Hx as [Hx|Hx]; [rewrite Hx; reflexivity|].
    rewrite (Hsub1 _ Hx). apply orb_true_r.
  - intros x. rewrite !memv_app. intros Hx. apply orb_true_iff in Hx as [Hx|Hx]; [rewrite Hx; reflexivity|].
    rewrite (Hsub2 _ Hx). apply orb_true_r.
Qed.
End FI.

(* ---------- index columns = expected_idx ---------- *)
Lemma expected_of_wf args : forall B newv nv pos, wf_args B newv args = Some nv ->
  expected_idx B args pos newv = Some (fst (clause_indices (newv ++ B) args pos), nv)
  /\ snd (clause_indices (newv ++ B) args pos) = nv ++ B.
Proof.
  induction args as [|t args IH]; intros B newv nv pos H; cbn [wf_args expected_idx clause_indices] in *.
  - injection H as <-. split; reflexivity.
  - destruct t as [x|c|f xs].
    + rewrite memv_app. destruct (memv x B) eqn:EB.
      * rewrite orb_true_r. destruct (IH _ _ _ (S pos) H) as [H1 H2]. rewrite H1.
        destruct (clause_indices (newv ++ B) args (S pos)) as [ix G'] eqn:EC. cbn [fst snd] in *. split; [reflexivity|exact H2].
      * rewrite orb_false_r. destruct (memv x newv) eqn:EN; [discriminate|].
        destruct (IH _ _ _ (S pos) H) as [H1 H2]. cbn [app] in H1, H2. split; [exact H1|exact H2].
    + cbn [term_vars subv forallb] in *. destruct (IH _ _ _ (S pos) H) as [H1 H2]. rewrite H1.
      destruct (clause_indices (newv ++ B) args (S pos)) as [ix G'] eqn:EC. cbn [fst snd] in *. split; [reflexivity|exact H2].
    + cbn [term_vars] in *. destruct (subv xs B) eqn:ES; [|discriminate].
      destruct (IH _ _ _ (S pos) H) as [H1 H2]. rewrite H1.
      destruct (clause_indices (newv ++ B) args (S pos)) as [ix G'] eqn:EC. cbn [fst snd] in *. split; [reflexivity|exact H2].
Qed.

Lemma var_args_var y args : var_args (TVar y :: args) = y :: var_args args.
Proof. reflexivity. Qed.
Lemma var_args_const c args : var_args (TConst c :: args) = var_args args.
Proof. reflexivity. Qed.
Lemma var_args_fun f ys args : var_args (TFun f ys :: args) = var_args args.
Proof. reflexivity. Qed.

Lemma wf_args_mem args : forall B newv nv, wf_args B newv args = Some nv ->
  forall x, memv x nv = true -> memv x newv = true \/ memv x (var_args args) = true.
Proof.
  induction args as [|t args IH]; intros B newv nv H x Hx; cbn [wf_args] in *.
  - injection H as <-. left. exact Hx.
  - destruct t as [y|c|f ys]; rewrite ?var_args_var, ?var_args_const, ?var_args_fun.
    + destruct (memv y B) eqn:EB.
      * destruct (IH _ _ _ H x Hx) as [H1|H1]; [left; exact H1|right]. rewrite memv_cons, H1. apply orb_true_r.
      * destruct (memv y newv) eqn:EN; [discriminate|]. destruct (IH _ _ _ H x Hx) as [H1|H1].
        -- rewrite memv_cons in H1. apply orb_true_iff in H1 as [H1|H1]; [right; rewrite memv_cons, H1; reflexivity|left; exact H1].
        -- right. rewrite memv_cons, H1. apply orb_true_r.
    + apply (IH _ _ _ H x Hx).
    + destruct (subv (term_vars (TFun f ys)) B); [|discriminate]. apply (IH _ _ _ H x Hx).
Qed.

Lemma wf_args_covers args : forall B newv nv, wf_args B newv args = Some nv ->
  (forall x, memv x newv = true -> memv x nv = true)
  /\ forall x, memv x (var_args args) = true -> memv x nv = true \/ memv x B = true.
Proof.
  induction args as [|t args IH]; intros B newv nv H; cbn [wf_args] in *.
  - injection H as <-. split; [auto|]. intros x Hx. discriminate.
  - destruct t as [y|c|f ys]; rewrite ?var_args_var, ?var_args_const, ?var_args_fun.
    + destruct (memv y B) eqn:EB.
      * destruct (IH _ _ _ H) as [H1 H2]. split; [exact H1|]. intros x Hx. rewrite memv_cons in Hx.
        apply orb_true_iff in Hx as [Hx|Hx]; [apply Nat.eqb_eq in Hx; subst x; right; exact EB|apply H2; exact Hx].
      * destruct (memv y newv) eqn:EN; [discriminate|]. destruct (IH _ _ _ H) as [H1 H2]. split.
        -- intros x Hx. apply H1. rewrite memv_cons, Hx. apply orb_true_r.
        -- intros x Hx. rewrite memv_cons in Hx. apply orb_true_iff in Hx as [Hx|Hx]; [|apply H2; exact Hx].
           left. apply H1. rewrite memv_cons, Hx. reflexivity.
    + apply (IH _ _ _ H).
    + destruct (subv (term_vars (TFun f ys)) B); [|discriminate]. apply (IH _ _ _ H).
Qed.

Section Items.
Variable arities : list (rel * nat).

(* the index the planner chooses for a clause is the one the validator expects *)
Lemma check_clause_hir B r args cs B' : wf_item arities B (BClause r args cs) = Some B' ->
  check_clause arities B r args cs (fst (clause_indices B args 0)) = Some B'
  /\ item_grounds B (BClause r args cs) = B'.
Proof.
  cbn [wf_item item_grounds]. unfold check_clause. destruct (arity_ok arities r (length args)); [|discriminate].
  destruct (wf_args B [] args) as [nv|] eqn:E; [|discriminate]. intros H.
  destruct (expected_of_wf _ _ _ _ 0 E) as [H1 H2]. cbn [app] in H1, H2. rewrite H1, nats_eqb_refl, H2.
  split; [exact H|]. symmetry. apply check_conds_grounds. exact H.
Qed.

Lemma check_agg_hir B out a bound r args B' : wf_item arities B (BAgg out a bound r args) = Some B' ->
  check_agg arities B out bound r args (agg_indices args) = Some B'
  /\ item_grounds B (BAgg out a bound r args) = B'.
Proof.
  cbn [wf_item item_grounds]. unfold check_agg, agg_indices.
  destruct (arity_ok arities r (length args)); [|discriminate]. cbn [andb]. rewrite nats_eqb_refl. cbn [andb].
  destruct (forallb _ args); [|discriminate]. destruct out as [x|].
  - destruct (memv x B); [discriminate|]. intros H. injection H as <-. split; reflexivity.
  - intros H. injection H as <-. split; reflexivity.
Qed.

Lemma wf_item_grounds B b B' : wf_item arities B b = Some B' -> item_grounds B b = B'.
Proof.
  destruct b as [r args cs|c|x g xs|out a bound r args]; intros H.
  - apply (check_clause_hir _ _ _ _ _ H).
  - cbn [wf_item item_grounds] in *. symmetry. apply check_cond_grounds. exact H.
  - cbn [wf_item item_grounds] in *. destruct (subv xs B && negb (memv x B)); [|discriminate]. injection H as <-. reflexivity.
  - apply (check_agg_hir _ _ _ _ _ _ _ H).
Qed.

Lemma check_items_hir body : forall B Bf, wf_body arities B body = Some Bf ->
  check_items arities B (hir_body B body) = Some Bf.
Proof.
  induction body as [|b body IH]; intros B Bf H; cbn [wf_body hir_body check_items] in *; [exact H|].
  destruct (wf_item arities B b) as [B'|] eqn:E; [|discriminate].
  pose proof (wf_item_grounds _ _ _ E) as HG. rewrite HG.
  destruct b as [r args cs|c|x g xs|out a bound r args]; cbn [hir_item check_items].
  - destruct (check_clause_hir _ _ _ _ _ E) as [H1 _]. rewrite H1. apply IH. exact H.
  - cbn [wf_item] in E. rewrite E. apply IH. exact H.
  - cbn [wf_item] in E. destruct (subv xs B && negb (memv x B)); [|discriminate]. injection E as <-. apply IH. exact H.
  - destruct (check_agg_hir _ _ _ _ _ _ _ E) as [H1 _]. rewrite H1. apply IH. exact H.
Qed.
End Items.

(* ---------- the first clause of a simple join has no index column: all arguments are new variables ---------- *)
Fixpoint all_new (G : list var) (args : list term) : bool :=
  match args with
  | [] => true
  | TVar x :: args' => negb (memv x G) && all_new (x :: G) args'
  | _ => false
  end.

Lemma no_index_all_new args : forall G pos, fst (clause_indices G args pos) = [] -> all_new G args = true.
Proof.
  induction args as [|t args IH]; intros G pos H; cbn [clause_indices all_new] in *; [reflexivity|].
  destruct t as [x|c|f xs].
  - destruct (memv x G); [destruct (clause_indices G args (S pos)); discriminate|]. cbn [negb andb]. eapply IH. exact H.
  - destruct (clause_indices G args (S pos)); discriminate.
  - destruct (clause_indices G args (S pos)); discriminate.
Qed.

Lemma all_new_notin args : forall G x, all_new G args = true -> memv x (var_args args) = true -> memv x G = false.
Proof.
  induction args as [|t args IH]; intros G x H Hx; [discriminate|]. destruct t as [y|c|f ys]; cbn [all_new] in H; try discriminate.
  apply andb_true_iff in H as [H1 H2]. apply negb_true_iff in H1. rewrite var_args_var, memv_cons in Hx.
  apply orb_true_iff in Hx as [Hx|Hx]; [apply Nat.eqb_eq in Hx; subst y; exact H1|].
  pose proof (IH _ _ H2 Hx) as H3. rewrite memv_cons in H3. apply orb_false_iff in H3 as [_ H3]. exact H3.
Qed.

(* a clause whose arguments are pairwise distinct variables, none bound: iterated completely *)
Lemma expected_all_new args : forall B newv pos, forallb is_var args = true ->
  (forall x, memv x (var_args args) = true -> memv x B = false) -> no_repeat (var_args args) newv = true ->
  expected_idx B args pos newv = Some ([], rev (var_args args) ++ newv).
Proof.
  induction args as [|t args IH]; intros B newv pos Hv HB Hn; [reflexivity|].
  destruct t as [x|c|f xs]; try discriminate. cbn [forallb is_var andb] in Hv. rewrite var_args_var in *.
  cbn [no_repeat] in Hn. apply andb_true_iff in Hn as [Hn1 Hn2]. apply negb_true_iff in Hn1.
  cbn [expected_idx]. rewrite (HB x) by (rewrite memv_cons, Nat.eqb_refl; reflexivity). rewrite Hn1.
  rewrite IH; [|exact Hv| |exact Hn2].
  - cbn [rev]. rewrite <- app_assoc. reflexivity.
  - intros y Hy. apply HB. rewrite memv_cons, Hy. apply orb_true_r.
Qed.

(* the first clause looked up after the second one: its index columns are the variables of the second clause *)
Lemma expected_swapped a1 : forall G St V pos newv, all_new G a1 = true ->
  (forall x, memv x (var_args a1) = true -> memv x St = memv x V) ->
  (forall x, memv x newv = true -> memv x G = true) ->
  exists nv, expected_idx St a1 pos newv = Some (indices_given a1 V pos, nv)
    /\ (forall x, memv x newv = true -> memv x nv = true)
    /\ (forall x, memv x (var_args a1) = true -> memv x St = true \/ memv x nv = true).
Proof.
  induction a1 as [|t a1 IH]; intros G St V pos newv Ha HS Hn.
  - exists newv. split; [reflexivity|]. split; [auto|]. intros x Hx. discriminate.
  - destruct t as [x|c|f xs]; cbn [all_new] in Ha; try discriminate.
    apply andb_true_iff in Ha as [Ha1 Ha2]. apply negb_true_iff in Ha1.
    assert (memv x newv = false) as Hxn. { destruct (memv x newv) eqn:E; [rewrite (Hn _ E) in Ha1; discriminate|reflexivity]. }
    assert (forall y, memv y (var_args a1) = true -> memv y St = memv y V) as HS'.
    { intros y Hy. apply HS. rewrite var_args_var, memv_cons, Hy. apply orb_true_r. }
    pose proof (HS x) as HSx. rewrite var_args_var, memv_cons, Nat.eqb_refl in HSx. specialize (HSx eq_refl).
    cbn [expected_idx indices_given]. rewrite <- HSx. destruct (memv x St) eqn:ES.
    + destruct (IH (x :: G) St V (S pos) newv Ha2 HS') as (nv & H1 & H2 & H3).
      { intros y Hy. rewrite memv_cons, (Hn _ Hy). apply orb_true_r. }
      exists nv. rewrite H1. split; [reflexivity|]. split; [exact H2|]. intros y Hy. rewrite var_args_var, memv_cons in Hy.
      apply orb_true_iff in Hy as [Hy|Hy]; [apply Nat.eqb_eq in Hy; subst y; left; exact ES|apply H3; exact Hy].
    + rewrite Hxn. destruct (IH (x :: G) St V (S pos) (x :: newv) Ha2 HS') as (nv & H1 & H2 & H3).
      { intros y Hy. rewrite memv_cons in *. apply orb_true_iff in Hy as [Hy|Hy]; [rewrite Hy; reflexivity|rewrite (Hn _ Hy); apply orb_true_r]. }
      exists nv. split; [exact H1|]. split.
      * intros y Hy. apply H2. rewrite memv_cons, Hy. apply orb_true_r.
      * intros y Hy. rewrite var_args_var, memv_cons in Hy. apply orb_true_iff in Hy as [Hy|Hy]; [|apply H3; exact Hy].
        right. apply H2. rewrite memv_cons, Hy. reflexivity.
Qed.

Lemma intersects_false xs ys : intersects xs ys = false -> forall y, memv y ys = true -> memv y xs = false.
Proof.
  unfold intersects. intros H y Hy. destruct (memv y xs) eqn:E; [|reflexivity].
  assert (existsb (fun y => memv y xs) ys = true) as H1.
  { apply existsb_exists. unfold memv in Hy. apply existsb_exists in Hy as [z [Hz1 Hz2]]. apply Nat.eqb_eq in Hz2. subst z.
    exists y. split; assumption. }
  rewrite H in H1. discriminate.
Qed.

Section Split.
Variable arities : list (rel * nat).
Variable fi : cond -> bool.

Lemma sj_at_split B r1 a1 c1 r2 a2 c2 rest Bf reord :
  wf_body arities B (BClause r1 a1 c1 :: BClause r2 a2 c2 :: rest) = Some Bf ->
  existsb is_bind c1 = false -> second_clause_simple fi a2 c2 = true ->
  fst (clause_indices B a1 0) = [] -> forallb is_var a2 = true ->
  (reord = true -> intersects B (var_args a2 ++ flat_map cond_bound c2) = false) ->
  check_simple_join arities B
    (PClause r1 a1 c1 (indices_given a1 (var_args a2) 0) VTotal
       :: hir_body (item_grounds B (BClause r1 a1 c1)) (BClause r2 a2 c2 :: rest)) reord = Some Bf.
Proof.
  intros H Hnb Hss Hix Hv HD. cbn [wf_body] in H.
  destruct (wf_item arities B (BClause r1 a1 c1)) as [B1|] eqn:E1; [|discriminate].
  destruct (wf_item arities B1 (BClause r2 a2 c2)) as [B2|] eqn:E2; [|discriminate].
  destruct (check_clause_hir _ _ _ _ _ _ E1) as [K1 G1]. destruct (check_clause_hir _ _ _ _ _ _ E2) as [K2 G2].
  rewrite G1. cbn [hir_body hir_item]. rewrite G2. rewrite Hix in K1.
  cbn [check_simple_join]. rewrite K1, K2. rewrite (check_items_hir _ _ _ _ H).
  destruct reord; [|reflexivity]. specialize (HD eq_refl).
  (* the swapped order *)
  cbn [wf_item] in E1, E2.
  destruct (arity_ok arities r1 (length a1)) eqn:A1; [|discriminate].
  destruct (arity_ok arities r2 (length a2)) eqn:A2; [|discriminate].
  destruct (wf_args B [] a1) as [nv1|] eqn:EA1; [|discriminate].
  destruct (wf_args B1 [] a2) as [nv2|] eqn:EA2; [|discriminate].
  assert (B1 = nv1 ++ B) as HB1.
  { pose proof (check_conds_nobind _ _ _ _ Hnb E1 (fun x h => h)) as H1. rewrite H1 in E1. injection E1 as <-. reflexivity. }
  unfold second_clause_simple in Hss. apply andb_true_iff in Hss as [Hnr Hcs].
  assert (forall x, memv x ((var_args a2) ++ flat_map cond_bound c2) = true -> memv x B = false) as HDx by (apply intersects_false; exact HD).
  assert (check_clause arities B r2 a2 c2 [] = Some (ground_conds (rev (var_args a2) ++ B) c2)) as S1.
  { unfold check_clause. rewrite A2. rewrite (expected_all_new a2 B [] 0 Hv); [|intros x Hx; apply HDx; rewrite memv_app; rewrite Hx; reflexivity|exact Hnr].
    rewrite app_nil_r. cbn [nats_eqb].
    eapply (check_conds_self fi c2 (var_args a2) (nv2 ++ B1)); [exact Hcs|exact E2| |].
    - intros x Hx. rewrite memv_app, memv_rev, Hx. reflexivity.
    - intros x Hx. rewrite memv_app, memv_rev in Hx. rewrite memv_app. apply orb_true_iff in Hx as [Hx|Hx].
      + destruct (proj2 (wf_args_covers _ _ _ _ EA2) x Hx) as [H1|H1]; rewrite H1; [reflexivity|apply orb_true_r].
      + rewrite HB1, memv_app, Hx, !orb_true_r. reflexivity. }
  rewrite S1. set (St := ground_conds (rev (var_args a2) ++ B) c2) in *.
  pose proof (no_index_all_new _ _ _ Hix) as Han.
  assert (forall x, memv x (var_args a1) = true -> memv x B1 = true) as Hin1.
  { intros x Hx. rewrite HB1, memv_app. destruct (proj2 (wf_args_covers _ _ _ _ EA1) x Hx) as [H1|H1]; rewrite H1; [reflexivity|apply orb_true_r]. }
  destruct (expected_swapped a1 B St (var_args a2) 0 [] Han) as (nv & X1 & _ & X3).
  { intros x Hx. unfold St. rewrite ground_conds_mem, memv_app, memv_rev.
    rewrite (all_new_notin _ _ _ Han Hx), orb_false_r.
    destruct (memv x (flat_map cond_bound c2)) eqn:EB; [|reflexivity].
    pose proof (check_conds_fresh _ _ _ E2 x EB) as H1. rewrite memv_app, (Hin1 x Hx), orb_true_r in H1. discriminate. }
  { intros x Hx. discriminate. }
  unfold check_clause. rewrite A1, X1, nats_eqb_refl.
  rewrite (check_conds_nobind c1 (nv1 ++ B) (nv ++ St) B1 Hnb E1); [reflexivity|].
  intros x Hx. rewrite memv_app in Hx. rewrite memv_app. apply orb_true_iff in Hx as [Hx|Hx].
  - destruct (wf_args_mem _ _ _ _ EA1 x Hx) as [H1|H1]; [discriminate|].
    destruct (X3 x H1) as [H2|H2]; rewrite H2; [apply orb_true_r|reflexivity].
  - unfold St. rewrite ground_conds_mem, memv_app, Hx, !orb_true_r. reflexivity.
Qed.
End Split.

Definition nonclause (b : bitem) : bool := match b with BClause _ _ _ => false | _ => true end.

Lemma first_clause_split body : forall i, first_clause_ind body = Some i ->
  exists pre r a c tl, body = pre ++ BClause r a c :: tl /\ length pre = i /\ forallb nonclause pre = true
    /\ firstn i body = pre /\ skipn i body = BClause r a c :: tl.
Proof.
  induction body as [|b body IH]; intros i H; [discriminate|].
  destruct b as [r a c|c|x g xs|out ag bound r a]; cbn [first_clause_ind] in H.
  - injection H as <-. exists [], r, a, c, body. repeat split; reflexivity.
  - destruct (first_clause_ind body) as [i'|]; [|discriminate]. injection H as <-.
    destruct (IH i' eq_refl) as (pre & r & a & c0 & tl & H1 & H2 & H3 & H4 & H5).
    exists (BCond c :: pre), r, a, c0, tl. cbn [app length forallb nonclause firstn skipn andb]. rewrite <- H1, H2, H3, H4, H5. repeat split; reflexivity.
  - destruct (first_clause_ind body) as [i'|]; [|discriminate]. injection H as <-.
    destruct (IH i' eq_refl) as (pre & r & a & c0 & tl & H1 & H2 & H3 & H4 & H5).
    exists (BGen x g xs :: pre), r, a, c0, tl. cbn [app length forallb nonclause firstn skipn andb]. rewrite <- H1, H2, H3, H4, H5. repeat split; reflexivity.
  - destruct (first_clause_ind body) as [i'|]; [|discriminate]. injection H as <-.
    destruct (IH i' eq_refl) as (pre & r0 & a0 & c0 & tl & H1 & H2 & H3 & H4 & H5).
    exists (BAgg out ag bound r a :: pre), r0, a0, c0, tl. cbn [app length forallb nonclause firstn skipn andb]. rewrite <- H1, H2, H3, H4, H5. repeat split; reflexivity.
Qed.

Lemma hir_body_app pre : forall B tl, hir_body B (pre ++ tl) = hir_body B pre ++ hir_body (fold_left item_grounds pre B) tl.
Proof. induction pre as [|b pre IH]; intros B tl; cbn [app hir_body fold_left]; [reflexivity|]. rewrite IH. reflexivity. Qed.

Lemma hir_body_length body : forall B, length (hir_body B body) = length body.
Proof. induction body as [|b body IH]; intros B; cbn [hir_body length]; [reflexivity|]. rewrite IH. reflexivity. Qed.

Lemma replace_idx_app l1 : forall l2 ix, replace_idx (l1 ++ l2) (length l1) ix = l1 ++ replace_idx l2 0 ix.
Proof.
  induction l1 as [|p l1 IH]; intros l2 ix; cbn [app length]; [reflexivity|].
  destruct p; cbn [replace_idx]; rewrite IH; reflexivity.
Qed.

Lemma firstn_app_exact {A} (l1 l2 : list A) : firstn (length l1) (l1 ++ l2) = l1.
Proof. induction l1 as [|a l1 IH]; cbn [length firstn app]; [reflexivity|]. rewrite IH. reflexivity. Qed.

Lemma nth_error_app_exact {A} (l1 l2 : list A) k : nth_error (l1 ++ l2) (length l1 + k) = nth_error l2 k.
Proof. induction l1 as [|a l1 IH]; cbn [length app plus nth_error]; [reflexivity|exact IH]. Qed.

Lemma item_of_hir G b : item_of (hir_item G b) = b.
Proof. destruct b; reflexivity. Qed.

Lemma item_of_hir_body body : forall G, map item_of (hir_body G body) = body.
Proof. induction body as [|b body IH]; intros G; cbn [hir_body map]; [reflexivity|]. rewrite item_of_hir, IH. reflexivity. Qed.

Lemma item_of_replace items : forall i ix, map item_of (replace_idx items i ix) = map item_of items.
Proof.
  induction items as [|p items IH]; intros i ix; [destruct i; reflexivity|].
  destruct i as [|n]; destruct p; cbn [replace_idx map item_of]; rewrite ?IH; reflexivity.
Qed.

Lemma intersects_ext xs xs' ys : (forall x, memv x xs = memv x xs') -> intersects xs ys = intersects xs' ys.
Proof. intros H. unfold intersects. induction ys as [|y ys IH]; cbn [existsb]; [reflexivity|]. rewrite H, IH. reflexivity. Qed.

Section Rule.
Variable arities : list (rel * nat).
Variable fi : cond -> bool.

Lemma wf_body_app pre : forall B tl Bf, wf_body arities B (pre ++ tl) = Some Bf ->
  wf_body arities (fold_left item_grounds pre B) tl = Some Bf.
Proof.
  induction pre as [|b pre IH]; intros B tl Bf H; cbn [app wf_body fold_left] in *; [exact H|].
  destruct (wf_item arities B b) as [B'|] eqn:E; [|discriminate]. rewrite (wf_item_grounds _ _ _ _ E). apply IH. exact H.
Qed.

(* the items before the first clause are checked one by one; then the simple join *)
Lemma check_from_app pre : forall B tl X Bf reord, forallb nonclause pre = true -> wf_body arities B (pre ++ tl) = Some Bf ->
  check_from arities B (hir_body B pre ++ X) (Some (length pre)) reord
  = check_from arities (fold_left item_grounds pre B) X (Some 0) reord.
Proof.
  induction pre as [|b pre IH]; intros B tl X Bf reord Hn H; cbn [app hir_body fold_left length]; [reflexivity|].
  cbn [forallb] in Hn. apply andb_true_iff in Hn as [Hb Hn]. cbn [app wf_body] in H.
  destruct (wf_item arities B b) as [B'|] eqn:E; [|discriminate]. pose proof (wf_item_grounds _ _ _ _ E) as HG. rewrite HG.
  destruct b as [r a c|c|x g xs|out ag bound r a]; [discriminate| | |]; cbn [hir_item check_from].
  - cbn [wf_item] in E. rewrite E. eapply IH; [exact Hn|exact H].
  - cbn [wf_item] in E. destruct (subv xs B && negb (memv x B)); [|discriminate]. injection E as <-. eapply IH; [exact Hn|exact H].
  - destruct (check_agg_hir _ _ _ _ _ _ _ _ E) as [H1 _]. rewrite H1. eapply IH; [exact Hn|exact H].
Qed.

(* the variables grounded before the first clause are the bound_vars of the items before it *)
Lemma prefix_vars pre : forall B x, forallb nonclause pre = true ->
  memv x (fold_left item_grounds pre B) = memv x (flat_map item_bound_vars (hir_body B pre)) || memv x B.
Proof.
  induction pre as [|b pre IH]; intros B x Hn; cbn [fold_left hir_body flat_map]; [reflexivity|].
  cbn [forallb] in Hn. apply andb_true_iff in Hn as [Hb Hn]. rewrite (IH _ _ Hn), memv_app.
  assert (memv x (item_grounds B b) = memv x (item_bound_vars (hir_item B b)) || memv x B) as H1.
  { destruct b as [r a c|c|y g xs|out ag bound r a]; [discriminate| | |]; cbn [item_grounds hir_item item_bound_vars].
    - apply memv_app.
    - apply (memv_app x [y] B).
    - destruct out as [z|]; [apply (memv_app x [z] B)|reflexivity]. }
  rewrite H1. destruct (memv x (item_bound_vars (hir_item B b))), (memv x (flat_map item_bound_vars (hir_body (item_grounds B b) pre))); reflexivity.
Qed.

Lemma check_from_none B items reord : check_from arities B items None reord = check_items arities B items.
Proof. destruct items; reflexivity. Qed.

Lemma hir_rule_ok r : wf_rule arities r = true ->
  exists Bf, check_from arities [] (fst (hir_rule fi r)) (snd (hir_rule fi r)) (reorderable (fst (hir_rule fi r)) (snd (hir_rule fi r))) = Some Bf
    /\ heads_ok arities Bf (heads r) = true
    /\ map item_of (fst (hir_rule fi r)) = body r.
Proof.
  unfold wf_rule. destruct (wf_body arities [] (body r)) as [Bf|] eqn:W; [|discriminate]. intros Hh. exists Bf.
  unfold hir_rule. destruct (simple_join_start fi (body r)) as [i|] eqn:ES.
  2:{ cbn [fst snd]. rewrite check_from_none. split; [apply check_items_hir; exact W|]. split; [exact Hh|apply item_of_hir_body]. }
  unfold simple_join_start in ES. destruct (first_clause_ind (body r)) as [i0|] eqn:EF; [|discriminate].
  destruct (first_clause_split _ _ EF) as (pre & r1 & a1 & c1 & tl & HB & HL & HN & HF & HS). rewrite HS, HF in ES.
  destruct tl as [|[r2 a2 c2| | |] rest]; try discriminate.
  destruct (negb (existsb is_bind c1) && second_clause_simple fi a2 c2
            && match fst (clause_indices (fold_left item_grounds pre []) a1 0) with [] => true | _ :: _ => false end
            && forallb is_var a2) eqn:EC; [|discriminate].
  injection ES as <-. rewrite HS. cbn [fst snd].
  apply andb_true_iff in EC as [EC Hv]. apply andb_true_iff in EC as [EC Hix]. apply andb_true_iff in EC as [Hnb Hss].
  apply negb_true_iff in Hnb.
  destruct (fst (clause_indices (fold_left item_grounds pre []) a1 0)) as [|] eqn:Hix0; [|discriminate].
  split; [|split; [exact Hh|rewrite item_of_replace; apply item_of_hir_body]].
  rewrite HB in W |- *. rewrite hir_body_app. rewrite <- HL. rewrite <- (hir_body_length pre []).
  rewrite replace_idx_app. rewrite (hir_body_length pre []).
  set (G := fold_left item_grounds pre []) in *.
  set (ix1 := indices_given a1 (var_args a2) 0).
  rewrite (check_from_app pre [] _ _ Bf _ HN W). fold G.
  cbn [hir_body hir_item replace_idx check_from].
  apply (sj_at_split arities fi G r1 a1 c1 r2 a2 c2 rest Bf); [apply wf_body_app; exact W|exact Hnb|exact Hss|exact Hix0|exact Hv|].
  (* reorderable *)
  unfold reorderable. rewrite <- (hir_body_length pre []) at 1. rewrite firstn_app_exact.
  replace (S (length pre)) with (length (hir_body [] pre) + 1) by (rewrite hir_body_length; lia).
  rewrite nth_error_app_exact. cbn [nth_error hir_body hir_item item_bound_vars].
  intros Hr. apply negb_true_iff in Hr. rewrite <- Hr. apply intersects_ext.
  intros x. unfold G. rewrite (prefix_vars pre [] x HN). apply orb_false_r.
Qed.
End Rule.
