(* The planner and LATTICE relations: boolean side conditions on the core program.

   The real planner (ascent_hir.rs compile_rule_to_ir_rule) knows nothing about lattices when it plans a BODY: the last
   column of a lattice relation is an index column like any other whenever its argument is a constant, an expression or an
   already-bound variable, and the first clause of a simple join is re-indexed on the variables it shares with the second
   clause - the lattice column included.  (Only the HEAD update goes through the key index [0..n-1): ascent_hir.rs
   compile_ascent_program_to_hir lattices_full_indices, mirrored by PlanModel.declared_indices.)  So the planner model
   Plan/PlanModel.v compile_model needs NO lattice-aware variant: it is the same function.

   The lattice engine models (LatEngine/LatEval.v, LatAggEval.v) read an index of a lattice relation through the CURRENT
   key of a row and therefore exclude plans that index a lattice relation on its lattice column (LatPlan.lat_plan_ok,
   LatAggEval.alat_plan_ok).  [wf_lat] is the condition ON THE PROGRAM under which the planner never does that:

     lat_body_ok    the last argument of every body clause on a lattice relation is a variable that is NEW at that point:
                    not bound by an earlier item, not an earlier argument of the same clause (so: no constant, no
                    expression, no join or filter on the lattice value - bind it and test it in an attached `if`);
                    the last argument of an aggregated / negated clause on a lattice relation is not a key expression
                    (it is a wildcard or an aggregated variable);
     sj_lat_ok      when the rule is a simple join (PlanModel.simple_join_start) whose first clause is on a lattice
                    relation, the lattice variable of that clause is not an argument of the second clause
                    (`lat(x, v), r(v, y)` makes the planner build an index of lat on column 1);
     lat_arities_ok a lattice relation has at least one column (ascent_syntax.rs: "empty lattice is not allowed").

   [wf_lat_syn] replaces sj_lat_ok (which mentions the planner's own test) by the purely syntactic, slightly stronger
   first_pair_ok: the first clause of the body, when directly followed by a clause.
   No proofs in this file (Plan/PlanLatProofs.v). *)
From Coq Require Import List ZArith Bool Arith.
From AV Require Import Engine.Core.
From AV Require Import Engine.Eval.
From AV Require Import Engine.Validate.
From AV Require Import Plan.PlanModel.
From AV Require Import LatEngine.LatAggTrans.
Import ListNotations.
Local Open Scope nat_scope.

(* the last argument is a variable that is neither in G nor an earlier argument *)
Fixpoint last_new (G : list var) (args : list term) : bool :=
  match args with
  | [] => false
  | t :: rest =>
      match rest with
      | [] => match t with TVar x => negb (memv x G) | _ => false end
      | _ :: _ => last_new (match t with TVar y => y :: G | _ => G end) rest
      end
  end.

(* the last argument is a variable that is not in vs *)
Fixpoint last_not_in (vs : list var) (args : list term) : bool :=
  match args with
  | [] => false
  | t :: rest =>
      match rest with
      | [] => match t with TVar x => negb (memv x vs) | _ => false end
      | _ :: _ => last_not_in vs rest
      end
  end.

(* the last argument of an aggregated clause is not a key expression *)
Fixpoint agg_last_free (args : list aarg) : bool :=
  match args with
  | [] => true
  | a :: rest =>
      match rest with
      | [] => match a with AKey _ => false | _ => true end
      | _ :: _ => agg_last_free rest
      end
  end.

Section WfLat.
Variable fi : cond -> bool.          (* PlanModel.v free_ident *)
Variable islat : rel -> bool.

(* one body item after the grounded variables G *)
Definition lat_bitem_ok (G : list var) (b : bitem) : bool :=
  match b with
  | BClause r args _ => negb (islat r) || last_new G args
  | BAgg _ _ _ r args => negb (islat r) || agg_last_free args
  | _ => true
  end.

Fixpoint lat_body_ok (G : list var) (body : list bitem) : bool :=
  match body with
  | [] => true
  | b :: rest => lat_bitem_ok G b && lat_body_ok (item_grounds G b) rest
  end.

Definition pair_ok (l : list bitem) : bool :=
  match l with
  | BClause r1 a1 _ :: BClause _ a2 _ :: _ => negb (islat r1) || last_not_in (var_args a2) a1
  | _ => true
  end.

Definition sj_lat_ok (body : list bitem) : bool :=
  match simple_join_start fi body with
  | Some i => pair_ok (skipn i body)
  | None => true
  end.

(* syntactic: the first clause of the body and the item after it *)
Fixpoint first_pair_ok (body : list bitem) : bool :=
  match body with
  | [] => true
  | BClause r a c :: rest => pair_ok (BClause r a c :: rest)
  | _ :: rest => first_pair_ok rest
  end.

Definition wf_lat_rule (r : rule) : bool := lat_body_ok [] (body r) && sj_lat_ok (body r).
Definition wf_lat_rule_syn (r : rule) : bool := lat_body_ok [] (body r) && first_pair_ok (body r).

Definition lat_arities_ok (arities : list (rel * nat)) : bool :=
  forallb (fun p => negb (islat (fst p)) || Nat.ltb 0 (snd p)) arities.

Definition wf_lat_gen (arities : list (rel * nat)) (P : list rule) : bool :=
  forallb wf_lat_rule P && lat_arities_ok arities.
Definition wf_lat_syn (arities : list (rel * nat)) (P : list rule) : bool :=
  forallb wf_lat_rule_syn P && lat_arities_ok arities.
End WfLat.

(* with the rendering of the fixed vocabulary (PlanModel.compile_model) *)
Definition wf_lat (islat : rel -> bool) (arities : list (rel * nat)) (P : list rule) : bool :=
  wf_lat_gen std_free_ident islat arities P.

(* ---------- the bound N of LatAggTrans.plan_below, on the program ---------- *)
Definition prog_below (N : nat) (P : list rule) : bool := forallb (rule_below N) P.

(* every variable of the program *)
Definition cond_all_vars (c : cond) : list var := match c with CIf _ xs => xs | CBind x _ xs => x :: xs end.
Definition aarg_all_vars (a : aarg) : list var := match a with AKey t => term_vars t | ABound x => [x] | AWild => [] end.
Definition bitem_all_vars (b : bitem) : list var :=
  match b with
  | BClause _ args cs => flat_map term_vars args ++ flat_map cond_all_vars cs
  | BCond c => cond_all_vars c
  | BGen x _ xs => x :: xs
  | BAgg out _ bound _ args => (match out with Some x => [x] | None => [] end) ++ bound ++ flat_map aarg_all_vars args
  end.
Definition rule_all_vars (r : rule) : list var :=
  flat_map bitem_all_vars (body r) ++ flat_map (fun h => flat_map term_vars (snd h)) (heads r).
(* the least bound: one more than the largest variable *)
Definition prog_N (P : list rule) : nat := S (list_max (flat_map rule_all_vars P)).
