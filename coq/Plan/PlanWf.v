(* The hypotheses of the planner theorem, as boolean predicates:
   wf_core  — the core program is well formed: relations used with their declared arity, variables bound
              before use, a binder (let / if let / for / agg result) never rebinds a variable, a new variable
              occurs once among the arguments of the clause that binds it (what the desugaring passes
              establish), head arguments bound;
   sccs_ok  — what the validator needs from the SCC partition handed to the planner.
   No proofs in this file. *)
From Coq Require Import List ZArith Bool Arith.
From AV Require Import Engine.Core.
From AV Require Import Engine.Eval.
From AV Require Import Engine.Validate.
Import ListNotations.
Local Open Scope nat_scope.

(* arguments of a clause after the bound variables B: a bound variable or an expression over bound variables is
   matched; an unbound variable is bound, and occurs once.  Returns the new variables (latest first). *)
Fixpoint wf_args (B newv : list var) (args : list term) : option (list var) :=
  match args with
  | [] => Some newv
  | TVar x :: args' =>
      if memv x B then wf_args B newv args'
      else if memv x newv then None
      else wf_args B (x :: newv) args'
  | t :: args' => if subv (term_vars t) B then wf_args B newv args' else None
  end.

Section Wf.
Variable arities : list (rel * nat).

(* one body item after the bound variables B; the bound variables afterwards *)
Definition wf_item (B : list var) (b : bitem) : option (list var) :=
  match b with
  | BClause r args cs =>
      if arity_ok arities r (length args) then
        match wf_args B [] args with Some nv => check_conds (nv ++ B) cs | None => None end
      else None
  | BCond c => check_cond B c
  | BGen x _ xs => if subv xs B && negb (memv x B) then Some (x :: B) else None
  | BAgg out _ _ r args =>
      if arity_ok arities r (length args)
         && forallb (fun a => match a with AKey t => subv (term_vars t) B | _ => true end) args
      then match out with Some x => if memv x B then None else Some (x :: B) | None => Some B end
      else None
  end.

Fixpoint wf_body (B : list var) (body : list bitem) : option (list var) :=
  match body with
  | [] => Some B
  | b :: rest => match wf_item B b with Some B' => wf_body B' rest | None => None end
  end.

Definition wf_rule (r : rule) : bool :=
  match wf_body [] (body r) with Some B => heads_ok arities B (heads r) | None => false end.

Definition wf_core (P : list rule) : bool := forallb wf_rule P.
End Wf.

(* ---------- the SCC partition ---------- *)
Definition mem_nat (j : nat) (l : list nat) : bool := existsb (Nat.eqb j) l.

(* position of the first SCC that contains rule j *)
Fixpoint part_index (sccs : list (list nat)) (j k : nat) : option nat :=
  match sccs with
  | [] => None
  | sc :: rest => if mem_nat j sc then Some k else part_index rest j (S k)
  end.

Definition part_count (sccs : list (list nat)) (j : nat) : nat := length (filter (mem_nat j) sccs).

(* - only rules of the program are listed;
   - every rule is in exactly one SCC;
   - the producers of a relation read by a clause of a rule are in the same or an earlier SCC,
     the producers of a relation it aggregates are in a strictly earlier SCC. *)
Definition sccs_ok (P : list rule) (sccs : list (list nat)) : bool :=
  let n := length P in
  forallb (forallb (fun j => Nat.ltb j n)) sccs
  && forallb (fun j => Nat.eqb (part_count sccs j) 1) (seq 0 n)
  && forallb (fun j =>
       match nth_error P j, part_index sccs j 0 with
       | Some r, Some k =>
           forallb (fun j' =>
             match nth_error P j', part_index sccs j' 0 with
             | Some r', Some k' =>
                 let hr := head_rels r' in
                 (negb (existsb (fun q => existsb (Nat.eqb q) hr) (body_clause_rels r)) || Nat.leb k' k)
                 && (negb (existsb (fun q => existsb (Nat.eqb q) hr) (body_agg_rels r)) || Nat.ltb k' k)
             | _, _ => false
             end) (seq 0 n)
       | _, _ => false
       end) (seq 0 n).
