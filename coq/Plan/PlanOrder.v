(* The ORDER of the strata.  `sccs_ok` (Plan/PlanWf.v) is what the planner theorem asks of the SCC partition the macro hands to
   the planner (petgraph's condensation, reversed).  This file states what that means for the order, in both directions:

     sccs_ok_spec                     sccs_ok = true  <->  only rules of the program are listed, every rule is in exactly one
                                      stratum, every producer of a relation a rule reads sits in the same or an EARLIER stratum
                                      (strictly earlier for an aggregated relation)
     sccs_ok_producer_first           the order half of "->"
     sccs_ok_rejects_consumer_first   a partition in which some consumer precedes one of its producers is REJECTED, whatever
                                      else is right about it (any hand-written "topological" order of the strata that is wrong
                                      for one edge of the stratum DAG falls outside the planner theorem)

   and shows on two programs with a deep / irregular stratum DAG that the hypothesis is not a technicality: with the consumer
   first the engine model (Engine/Eval.v run_plan on the plan computed by the planner model) LOSES derivable tuples, with the
   producers first it computes the least model.
     dd_*  six strata, a recursive stratum in the middle, a stratum `hot` reached over chains of length 1 and 4 and a reader
           `alarm` of it; the wrong order is the one a breadth-first "level" numbering that visits every stratum once gives
     de_*  a two-rule recursive stratum `link` (symmetric + transitive) feeding the consumer `out` through two rule-level edges,
           next to a second producer chain `cand -> hub`; the wrong order is the one a Kahn sort gives whose in-degrees count
           strata but whose decrements count rule-level edges *)
From Coq Require Import List ZArith Bool Arith Lia.
From AV Require Import Engine.Core.
From AV Require Import Engine.Sem.
From AV Require Import Engine.Eval.
From AV Require Import Engine.Validate.
From AV Require Import Engine.Vocab.
From AV Require Import Plan.PlanModel.
From AV Require Import Plan.PlanWf.
From AV Require Import Plan.PlanProofs.
Import ListNotations.
Local Open Scope nat_scope.

(* rule r reads (by a clause / by an aggregate or negation) a relation that rule r' writes *)
Definition reads_from (r r' : rule) : bool :=
  existsb (fun q => existsb (Nat.eqb q) (head_rels r')) (body_clause_rels r).
Definition aggregates_from (r r' : rule) : bool :=
  existsb (fun q => existsb (Nat.eqb q) (head_rels r')) (body_agg_rels r).

Lemma reads_from_iff r r' : reads_from r r' = true <-> exists q, In q (body_clause_rels r) /\ In q (head_rels r').
Proof.
  unfold reads_from. rewrite existsb_exists. split.
  - intros [q [Hq H]]. apply existsb_exists in H as [q' [Hq' E]]. apply Nat.eqb_eq in E. subst q'. exists q. auto.
  - intros [q [Hq Hq']]. exists q. split; [exact Hq|]. apply existsb_exists. exists q. split; [exact Hq'|apply Nat.eqb_refl].
Qed.

Definition order_ok (P : list rule) (sccs : list (list nat)) : Prop :=
  forall j j' r r', nth_error P j = Some r -> nth_error P j' = Some r' ->
    exists k k', part_index sccs j 0 = Some k /\ part_index sccs j' 0 = Some k'
      /\ (reads_from r r' = true -> k' <= k) /\ (aggregates_from r r' = true -> k' < k).

Theorem sccs_ok_spec : forall P sccs,
  sccs_ok P sccs = true <->
  (forall sc j, In sc sccs -> In j sc -> j < length P)
  /\ (forall j, j < length P -> part_count sccs j = 1)
  /\ order_ok P sccs.
Proof.
  intros P sccs. unfold sccs_ok. rewrite !andb_true_iff. split.
  - intros [[H1 H2] H3]. split; [|split].
    + intros sc j Hsc Hj. rewrite forallb_forall in H1. specialize (H1 sc Hsc). rewrite forallb_forall in H1.
      apply Nat.ltb_lt. exact (H1 j Hj).
    + intros j Hj. rewrite forallb_forall in H2. apply Nat.eqb_eq. apply H2. apply in_seq. lia.
    + intros j j' r r' Hr Hr'. rewrite forallb_forall in H3.
      assert (Hj : In j (seq 0 (length P))) by (apply in_seq; split; [lia|]; apply nth_error_Some; congruence).
      assert (Hj' : In j' (seq 0 (length P))) by (apply in_seq; split; [lia|]; apply nth_error_Some; congruence).
      specialize (H3 j Hj). rewrite Hr in H3. destruct (part_index sccs j 0) as [k|] eqn:Ek; [|discriminate].
      rewrite forallb_forall in H3. specialize (H3 j' Hj'). rewrite Hr' in H3.
      destruct (part_index sccs j' 0) as [k'|] eqn:Ek'; [|discriminate].
      exists k, k'. repeat split; auto.
      * intros Hrd. apply andb_true_iff in H3 as [H3 _]. unfold reads_from in Hrd. rewrite Hrd in H3. simpl in H3.
        apply Nat.leb_le. exact H3.
      * intros Hag. apply andb_true_iff in H3 as [_ H3]. unfold aggregates_from in Hag. rewrite Hag in H3. simpl in H3.
        apply Nat.ltb_lt. exact H3.
  - intros [H1 [H2 H3]]. repeat split.
    + apply forallb_forall. intros sc Hsc. apply forallb_forall. intros j Hj. apply Nat.ltb_lt. exact (H1 sc j Hsc Hj).
    + apply forallb_forall. intros j Hj. apply in_seq in Hj. apply Nat.eqb_eq. apply H2. lia.
    + apply forallb_forall. intros j Hj. apply in_seq in Hj.
      destruct (nth_error P j) as [r|] eqn:Hr; [|apply nth_error_None in Hr; lia].
      destruct (H3 j j r r Hr Hr) as [k [k0 [Ek _]]]. rewrite Ek.
      apply forallb_forall. intros j' Hj'. apply in_seq in Hj'.
      destruct (nth_error P j') as [r'|] eqn:Hr'; [|apply nth_error_None in Hr'; lia].
      destruct (H3 j j' r r' Hr Hr') as [k1 [k' [Ek1 [Ek' [Ha Hb]]]]]. rewrite Ek in Ek1. injection Ek1 as <-. rewrite Ek'.
      apply andb_true_iff. split.
      * fold (reads_from r r'). destruct (reads_from r r') eqn:E; simpl; [apply Nat.leb_le; auto|reflexivity].
      * fold (aggregates_from r r'). destruct (aggregates_from r r') eqn:E; simpl; [apply Nat.ltb_lt; auto|reflexivity].
Qed.

(* every producer of a relation a rule reads is evaluated in the same or an earlier stratum *)
Theorem sccs_ok_producer_first : forall P sccs j j' r r',
  sccs_ok P sccs = true -> nth_error P j = Some r -> nth_error P j' = Some r' -> reads_from r r' = true ->
  exists k k', part_index sccs j 0 = Some k /\ part_index sccs j' 0 = Some k' /\ k' <= k.
Proof.
  intros P sccs j j' r r' Hok Hr Hr' Hrd. apply sccs_ok_spec in Hok as [_ [_ Hord]].
  destruct (Hord j j' r r' Hr Hr') as [k [k' [Ek [Ek' [Ha _]]]]]. exists k, k'. auto.
Qed.

(* a partition in which a consumer (rule j, stratum k) precedes one of its producers (rule j', stratum k') is rejected *)
Theorem sccs_ok_rejects_consumer_first : forall P sccs j j' r r' k k',
  nth_error P j = Some r -> nth_error P j' = Some r' -> reads_from r r' = true ->
  part_index sccs j 0 = Some k -> part_index sccs j' 0 = Some k' -> k < k' ->
  sccs_ok P sccs = false.
Proof.
  intros P sccs j j' r r' k k' Hr Hr' Hrd Ek Ek' Hlt. destruct (sccs_ok P sccs) eqn:Hok; [|reflexivity]. exfalso.
  destruct (sccs_ok_producer_first P sccs j j' r r' Hok Hr Hr' Hrd) as [k1 [k1' [E1 [E1' Hle]]]].
  rewrite Ek in E1. rewrite Ek' in E1'. injection E1 as <-. injection E1' as <-. lia.
Qed.

(* ... and so is the plan the planner model computes from it, when the late producer's stratum really writes the relation: stated
   on the examples below (validate = false), the general soundness direction being compile_model_valid *)

(* ---------- a deep stratum DAG: chains of length 1 and 4 into `hot`, a reader `alarm` ----------
   relations 0 edge/2, 1 a/2, 2 b/2, 3 c/2, 4 hot/2, 5 alarm/1
     0: a(x, y)   <-- edge(x, y)
     1: b(x, y)   <-- a(x, y)
     2: b(x, z)   <-- b(x, y), a(y, z)            (recursive stratum in the middle)
     3: c(y, x)   <-- b(x, y)
     4: hot(x, y) <-- a(x, y), c(y, x)            (reads the shallow a AND the deep c)
     5: alarm(x)  <-- hot(x, y) *)
Definition dd_arities : list (rel * nat) := [(0, 2); (1, 2); (2, 2); (3, 2); (4, 2); (5, 1)].
Definition dd_prog : list rule :=
  [ {| heads := [(1, [TVar 0; TVar 1])]; body := [BClause 0 [TVar 0; TVar 1] []] |};
    {| heads := [(2, [TVar 0; TVar 1])]; body := [BClause 1 [TVar 0; TVar 1] []] |};
    {| heads := [(2, [TVar 0; TVar 2])]; body := [BClause 2 [TVar 0; TVar 1] []; BClause 1 [TVar 1; TVar 2] []] |};
    {| heads := [(3, [TVar 1; TVar 0])]; body := [BClause 2 [TVar 0; TVar 1] []] |};
    {| heads := [(4, [TVar 0; TVar 1])]; body := [BClause 1 [TVar 0; TVar 1] []; BClause 3 [TVar 1; TVar 0] []] |};
    {| heads := [(5, [TVar 0])]; body := [BClause 4 [TVar 0; TVar 1] []] |} ].
Definition fz (q : rel) (t : list Z) : fact := (q, t).
Definition dd_facts : list fact := [fz 0 [1; 2]%Z; fz 0 [2; 3]%Z; fz 0 [3; 1]%Z; fz 0 [4; 4]%Z].
(* dependency order / the order of a single-visit breadth-first level numbering: hot gets level 1 when first reached from a,
   alarm level 2, and hot is raised to level 4 only later: alarm (rule 5) is placed before c (rule 3) and hot (rule 4) *)
Definition dd_good : list (list nat) := [[0]; [1]; [2]; [3]; [4]; [5]].
Definition dd_bfs : list (list nat) := [[0]; [1]; [2]; [5]; [3]; [4]].

Definition run_rows (arities : list (rel * nat)) (P : list rule) (sccs : list (list nat)) (F0 : list fact) : option (list fact) :=
  option_map rows (run_plan std_interp std_swap 200 (compile_model arities P sccs) (init_state F0)).
Definition facts_of (q : rel) (o : option (list fact)) : list tuple :=
  match o with Some F => map snd (filter (fun f => Nat.eqb (fst f) q) F) | None => [] end.

(* the same set of facts (the engine appends stratum by stratum, the naive oracle round by round: the orders differ) *)
Definition of_rel (q : rel) (o : option (list fact)) : list fact :=
  match o with Some F => filter (fun f => Nat.eqb (fst f) q) F | None => [] end.
Definition same_set (A B : list fact) : bool :=
  Nat.eqb (length A) (length B) && forallb (fun f => mem_fact f B) A && forallb (fun f => mem_fact f A) B.
Definition same_rows (o1 o2 : option (list fact)) : bool :=
  match o1, o2 with Some A, Some B => same_set A B | _, _ => false end.

Example dd_wf : wf_core dd_arities dd_prog = true.
Proof. vm_compute. reflexivity. Qed.
Example dd_good_ok : sccs_ok dd_prog dd_good = true /\ validate dd_arities dd_prog (compile_model dd_arities dd_prog dd_good) = true.
Proof. split; vm_compute; reflexivity. Qed.
Example dd_good_runs : same_rows (run_rows dd_arities dd_prog dd_good dd_facts) (naive_fix std_interp 200 dd_prog dd_facts) = true
  /\ facts_of 5 (run_rows dd_arities dd_prog dd_good dd_facts) = [[1]; [2]; [3]; [4]]%Z.
Proof. split; vm_compute; reflexivity. Qed.
(* the consumer-first order: rejected by sccs_ok (by the theorem: rule 5 reads what rule 4 writes), the plan compiled from it is
   rejected by the validator, and running that plan leaves alarm EMPTY although four tuples are derivable *)
Example dd_bfs_rejected : sccs_ok dd_prog dd_bfs = false.
Proof.
  apply (sccs_ok_rejects_consumer_first dd_prog dd_bfs 5 4 _ _ 3 5 eq_refl eq_refl); [reflexivity|reflexivity|reflexivity|lia].
Qed.
Example dd_bfs_loses_tuples :
  validate dd_arities dd_prog (compile_model dd_arities dd_prog dd_bfs) = false
  /\ facts_of 5 (run_rows dd_arities dd_prog dd_bfs dd_facts) = []
  /\ facts_of 5 (naive_fix std_interp 200 dd_prog dd_facts) = [[1]; [2]; [3]; [4]]%Z
  /\ same_set (of_rel 4 (run_rows dd_arities dd_prog dd_bfs dd_facts)) (of_rel 4 (naive_fix std_interp 200 dd_prog dd_facts)) = true.
Proof. repeat split; vm_compute; reflexivity. Qed.

(* ---------- two rule-level edges between one pair of strata, and a second producer chain ----------
   relations 0 raw/2, 1 link/2, 2 marked/1, 3 cand/1, 4 hub/1, 5 out/2        (rules in the TEXT order that matters)
     0: out(x, y)  <-- link(x, y), hub(y)          (the consumer, written first)
     1: link(x, y) <-- raw(x, y)
     2: link(y, x) <-- link(x, y)                  (rules 2 and 3: one recursive stratum, both write link)
     3: link(x, z) <-- link(x, y), link(y, z)
     4: hub(y)     <-- cand(y)                     (written before its producer)
     5: cand(y)    <-- marked(y) *)
Definition de_arities : list (rel * nat) := [(0, 2); (1, 2); (2, 1); (3, 1); (4, 1); (5, 2)].
Definition de_prog : list rule :=
  [ {| heads := [(5, [TVar 0; TVar 1])]; body := [BClause 1 [TVar 0; TVar 1] []; BClause 4 [TVar 1] []] |};
    {| heads := [(1, [TVar 0; TVar 1])]; body := [BClause 0 [TVar 0; TVar 1] []] |};
    {| heads := [(1, [TVar 1; TVar 0])]; body := [BClause 1 [TVar 0; TVar 1] []] |};
    {| heads := [(1, [TVar 0; TVar 2])]; body := [BClause 1 [TVar 0; TVar 1] []; BClause 1 [TVar 1; TVar 2] []] |};
    {| heads := [(4, [TVar 0])]; body := [BClause 3 [TVar 0] []] |};
    {| heads := [(3, [TVar 0])]; body := [BClause 2 [TVar 0] []] |} ].
Definition de_facts : list fact := [fz 0 [1; 2]%Z; fz 0 [2; 3]%Z; fz 0 [7; 8]%Z; fz 2 [2]%Z; fz 2 [8]%Z; fz 2 [9]%Z].
Definition de_good : list (list nat) := [[1]; [2; 3]; [5]; [4]; [0]].
(* out has two producer strata ({2,3} and {4}); a counter initialised with 2 and decremented once per rule-level edge reaches 0
   when the stratum {2,3} is done: out (rule 0, first in the text) overtakes hub (rule 4), whose producer cand comes last *)
Definition de_premature : list (list nat) := [[1]; [2; 3]; [0]; [5]; [4]].

Example de_wf : wf_core de_arities de_prog = true.
Proof. vm_compute. reflexivity. Qed.
Example de_good_ok : sccs_ok de_prog de_good = true /\ validate de_arities de_prog (compile_model de_arities de_prog de_good) = true.
Proof. split; vm_compute; reflexivity. Qed.
Example de_good_runs : same_rows (run_rows de_arities de_prog de_good de_facts) (naive_fix std_interp 200 de_prog de_facts) = true
  /\ length (facts_of 5 (run_rows de_arities de_prog de_good de_facts)) = 5.
Proof. split; vm_compute; reflexivity. Qed.
Example de_premature_rejected : sccs_ok de_prog de_premature = false.
Proof.
  apply (sccs_ok_rejects_consumer_first de_prog de_premature 0 4 _ _ 2 4 eq_refl eq_refl); [reflexivity|reflexivity|reflexivity|lia].
Qed.
Example de_premature_loses_tuples :
  validate de_arities de_prog (compile_model de_arities de_prog de_premature) = false
  /\ facts_of 5 (run_rows de_arities de_prog de_premature de_facts) = []
  /\ length (facts_of 5 (naive_fix std_interp 200 de_prog de_facts)) = 5
  /\ same_set (of_rel 1 (run_rows de_arities de_prog de_premature de_facts)) (of_rel 1 (naive_fix std_interp 200 de_prog de_facts)) = true
  /\ same_set (of_rel 4 (run_rows de_arities de_prog de_premature de_facts)) (of_rel 4 (naive_fix std_interp 200 de_prog de_facts)) = true.
Proof. repeat split; vm_compute; reflexivity. Qed.

Print Assumptions sccs_ok_spec.
Print Assumptions sccs_ok_producer_first.
Print Assumptions sccs_ok_rejects_consumer_first.
