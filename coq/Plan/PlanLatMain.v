(* Planner + LATTICE engine: the plan is no longer a hypothesis ("for every plan accepted by the validator and by the
   lattice index check") but COMPUTED by the planner model Plan/PlanModel.v compile_model:
     PlanProofs.compile_model_valid          discharges  validate arities P pl = true
     PlanLatProofs.compile_model_lat_plan_ok discharges  lat_plan_ok islat arities pl = true       (C03)
     PlanLatProofs.compile_model_alat_plan_ok            alat_plan_ok islat arities pl = true      (C04 over lattices)
     PlanLatProofs.compile_model_plan_below              plan_below N pl = true
   from boolean conditions on the PROGRAM (wf_core, wf_lat, prog_below) and on the SCC partition (sccs_ok).
   Like the engine theorems these are partial-correctness statements for the serial models (`.. = Some st`: the fuel
   sufficed) and statements about every run of the parallel models. *)
From Coq Require Import List ZArith Bool Arith Permutation.
From AV Require Import Engine.Core.
From AV Require Import Engine.Eval.
From AV Require Import Engine.Validate.
From AV Require Import Engine.Naive.
From AV Require Import Engine.InterfaceAgg.
From AV Require Import Engine.Strat.
From AV Require Import LatEngine.LatSyntax.
From AV Require Import LatEngine.LatEval.
From AV Require Import LatEngine.LatPlan.
From AV Require Import LatEngine.LatSem.
From AV Require Import LatEngine.LatKeys.
From AV Require Import LatEngine.LatMain.
From AV Require Import LatEngine.LatAggEval.
From AV Require Import LatEngine.LatAggTrans.
From AV Require Import LatEngine.LatAggInv.
From AV Require Import LatEngine.LatAggSem.
From AV Require Import LatEngine.LatAggMain.
From AV Require Import LatEngine.LatParModel.
From AV Require Import LatEngine.LatParMain.
From AV Require Import LatEngine.LatParAggModel.
From AV Require Import LatEngine.LatParAggMain.
From AV Require Import LatEngine.LatVocab.
From AV Require Import LatEngine.LatExample.
From AV Require Import Plan.PlanModel.
From AV Require Import Plan.PlanWf.
From AV Require Import Plan.PlanProofs.
From AV Require Import Plan.PlanMain.
From AV Require Import Plan.PlanLatWf.
From AV Require Import Plan.PlanLatProofs.
Import ListNotations.

(* ---------- C03: lattices, no aggregation; the serial engine ---------- *)
Theorem planner_lat_engine_least_fixed_point :
  forall (V : Type) (I : linterp V) islat lle jm shuffle swap_oracle arities P sccs Rin fuel st,
  veqb_ok I -> (forall r, islat r = true -> lat_laws (lle r) (jm r)) ->
  (forall n l x, In x (shuffle n l) <-> In x l) ->
  arities_functional arities -> no_agg P = true -> monotone_program I islat lle P ->
  wf_core arities P = true -> wf_lat islat arities P = true -> sccs_ok P sccs = true ->
  LatMain.input_ok I islat lle arities Rin ->
  LatEval.run_plan I islat jm shuffle swap_oracle fuel (compile_model arities P sccs) Rin = Some st ->
  let F := dbof (l_rows st) in
  (directed I islat lle F /\ closedH I islat lle P F /\ dble I islat lle (dbof Rin) F /\
   forall J : db, directed I islat lle J -> closedH I islat lle P J -> dble I islat lle (dbof Rin) J -> dble I islat lle F J)
  /\ forall r, islat r = true -> NoDup (map tkey (l_rows st r)).
Proof.
  intros V I islat lle jm shuffle swap_oracle arities P sccs Rin fuel st H1 H2 H3 H4 H5 H6 Hwf Hlat Hok H9 H10.
  pose proof (compile_model_valid arities P sccs Hwf Hok) as Hval.
  pose proof (compile_model_lat_plan_ok islat arities P sccs Hlat H5) as Hlp.
  split.
  - exact (lat_run_least_fixed_point I H1 islat lle jm H2 shuffle H3 swap_oracle arities H4 P H5 H6 _ Hval Hlp Rin H9 fuel st H10).
  - exact (lat_run_unique_key I H1 islat lle jm H2 shuffle H3 swap_oracle arities H4 P H5 H6 _ Hval Hlp Rin H9 fuel st H10).
Qed.

(* the same for every rendering of the expressions (PlanModel.v free_ident) *)
Theorem planner_lat_engine_least_fixed_point_gen :
  forall fi (V : Type) (I : linterp V) islat lle jm shuffle swap_oracle arities P sccs Rin fuel st,
  veqb_ok I -> (forall r, islat r = true -> lat_laws (lle r) (jm r)) ->
  (forall n l x, In x (shuffle n l) <-> In x l) ->
  arities_functional arities -> no_agg P = true -> monotone_program I islat lle P ->
  wf_core arities P = true -> wf_lat_gen fi islat arities P = true -> sccs_ok P sccs = true ->
  LatMain.input_ok I islat lle arities Rin ->
  LatEval.run_plan I islat jm shuffle swap_oracle fuel (compile_model_gen fi arities P sccs) Rin = Some st ->
  let F := dbof (l_rows st) in
  (directed I islat lle F /\ closedH I islat lle P F /\ dble I islat lle (dbof Rin) F /\
   forall J : db, directed I islat lle J -> closedH I islat lle P J -> dble I islat lle (dbof Rin) J -> dble I islat lle F J)
  /\ forall r, islat r = true -> NoDup (map tkey (l_rows st r)).
Proof.
  intros fi V I islat lle jm shuffle swap_oracle arities P sccs Rin fuel st H1 H2 H3 H4 H5 H6 Hwf Hlat Hok H9 H10.
  pose proof (compile_model_gen_valid arities fi P sccs Hwf Hok) as Hval.
  pose proof (compile_model_gen_lat_plan_ok fi islat arities P sccs Hlat H5) as Hlp.
  split.
  - exact (lat_run_least_fixed_point I H1 islat lle jm H2 shuffle H3 swap_oracle arities H4 P H5 H6 _ Hval Hlp Rin H9 fuel st H10).
  - exact (lat_run_unique_key I H1 islat lle jm H2 shuffle H3 swap_oracle arities H4 P H5 H6 _ Hval Hlp Rin H9 fuel st H10).
Qed.

(* ---------- C03: the parallel engine (every run of the parallel model of the computed plan) ---------- *)
Theorem planner_par_lat_engine_least_fixed_point :
  forall (V : Type) (I : linterp V) islat lle jm arities P sccs Rin st,
  veqb_ok I -> (forall r, islat r = true -> lat_laws (lle r) (jm r)) ->
  arities_functional arities -> no_agg P = true -> monotone_program I islat lle P ->
  wf_core arities P = true -> wf_lat islat arities P = true -> sccs_ok P sccs = true ->
  LatMain.input_ok I islat lle arities Rin ->
  par_lat_run_plan I islat jm (compile_model arities P sccs) Rin st ->
  let F := dbof (l_rows st) in
  (directed I islat lle F /\ closedH I islat lle P F /\ dble I islat lle (dbof Rin) F /\
   forall J : db, directed I islat lle J -> closedH I islat lle P J -> dble I islat lle (dbof Rin) J -> dble I islat lle F J)
  /\ forall r, islat r = true -> NoDup (map tkey (l_rows st r)).
Proof.
  intros V I islat lle jm arities P sccs Rin st H1 H2 H4 H5 H6 Hwf Hlat Hok H9 H10.
  pose proof (compile_model_valid arities P sccs Hwf Hok) as Hval.
  pose proof (compile_model_lat_plan_ok islat arities P sccs Hlat H5) as Hlp.
  split.
  - exact (par_lat_run_least_fixed_point I H1 islat lle jm H2 arities H4 P H5 H6 _ Hval Hlp Rin H9 st H10).
  - exact (par_lat_run_unique_key I H1 islat lle jm H2 arities H4 P H5 H6 _ Hval Hlp Rin H9 st H10).
Qed.

(* parallel and serial runs of the computed plan end with the same rows *)
Theorem planner_par_lat_equals_serial :
  forall (V : Type) (I : linterp V) islat lle jm arities P sccs Rin shuffle swap_oracle fuel st_par st_ser,
  veqb_ok I -> (forall r, islat r = true -> lat_laws (lle r) (jm r)) ->
  arities_functional arities -> no_agg P = true -> monotone_program I islat lle P ->
  wf_core arities P = true -> wf_lat islat arities P = true -> sccs_ok P sccs = true ->
  LatMain.input_ok I islat lle arities Rin ->
  (forall n l x, In x (shuffle n l) <-> In x l) ->
  par_lat_run_plan I islat jm (compile_model arities P sccs) Rin st_par ->
  LatEval.run_plan I islat jm shuffle swap_oracle fuel (compile_model arities P sccs) Rin = Some st_ser ->
  (forall r t, In t (l_rows st_par r) <-> In t (l_rows st_ser r))
  /\ (forall r, islat r = true -> Permutation (l_rows st_par r) (l_rows st_ser r)).
Proof.
  intros V I islat lle jm arities P sccs Rin shuffle swap_oracle fuel st_par st_ser H1 H2 H4 H5 H6 Hwf Hlat Hok H9 H3 Hp Hs.
  exact (par_lat_equals_serial I H1 islat lle jm H2 arities H4 P H5 H6 _ (compile_model_valid arities P sccs Hwf Hok)
           (compile_model_lat_plan_ok islat arities P sccs Hlat H5) Rin H9 shuffle swap_oracle fuel st_par st_ser H3 Hp Hs).
Qed.

(* ---------- C04 over lattices: aggregation / negation; the serial engine ---------- *)
Theorem planner_lat_agg_engine_stratified_model :
  forall (V : Type) (I : linterp V) vagg islat lle jm shuffle ashuffle swap_oracle arities P N sccs fuel Rin st,
  veqb_ok I -> (forall a l l', Permutation l l' -> vagg a l = vagg a l') ->
  (forall r, islat r = true -> lat_laws (lle r) (jm r)) ->
  (forall n l x, In x (shuffle n l) <-> In x l) -> (forall n l, Permutation (ashuffle n l) l) ->
  arities_functional arities -> amonotone_program I islat lle N P ->
  wf_core arities P = true -> wf_lat islat arities P = true -> prog_below N P = true -> sccs_ok P sccs = true ->
  ainput_ok I islat lle arities Rin ->
  arun_plan I vagg islat jm shuffle ashuffle swap_oracle fuel (compile_model arities P sccs) Rin = Some st ->
  let strata := plan_strata P (compile_model arities P sccs) in
  stratified strata = true
  /\ (forall r, In r P <-> In r (concat strata))
  /\ strat_lat_model I vagg islat lle strata Rin (l_rows st)
  /\ keys_ok islat (l_rows st) /\ plain_nodup islat (l_rows st).
Proof.
  intros V I vagg islat lle jm shuffle ashuffle swap_oracle arities P N sccs fuel Rin st H1 Hp H2 H3 Ha H4 Hm Hwf Hlat Hb Hok Hin Hrun.
  exact (lat_agg_stratified_model I H1 vagg Hp islat lle jm H2 shuffle H3 ashuffle Ha swap_oracle arities H4 P N Hm _
           (compile_model_valid arities P sccs Hwf Hok) (compile_model_alat_plan_ok islat arities P sccs Hlat)
           (compile_model_plan_below N arities P sccs Hb) fuel Rin st Hin Hrun).
Qed.

(* with the least bound: N = one more than the largest variable of the program; no hypothesis on N is left *)
Theorem planner_lat_agg_engine_stratified_model_N :
  forall (V : Type) (I : linterp V) vagg islat lle jm shuffle ashuffle swap_oracle arities P sccs fuel Rin st,
  veqb_ok I -> (forall a l l', Permutation l l' -> vagg a l = vagg a l') ->
  (forall r, islat r = true -> lat_laws (lle r) (jm r)) ->
  (forall n l x, In x (shuffle n l) <-> In x l) -> (forall n l, Permutation (ashuffle n l) l) ->
  arities_functional arities -> amonotone_program I islat lle (prog_N P) P ->
  wf_core arities P = true -> wf_lat islat arities P = true -> sccs_ok P sccs = true ->
  ainput_ok I islat lle arities Rin ->
  arun_plan I vagg islat jm shuffle ashuffle swap_oracle fuel (compile_model arities P sccs) Rin = Some st ->
  let strata := plan_strata P (compile_model arities P sccs) in
  stratified strata = true
  /\ (forall r, In r P <-> In r (concat strata))
  /\ strat_lat_model I vagg islat lle strata Rin (l_rows st)
  /\ keys_ok islat (l_rows st) /\ plain_nodup islat (l_rows st).
Proof.
  intros V I vagg islat lle jm shuffle ashuffle swap_oracle arities P sccs fuel Rin st H1 Hp H2 H3 Ha H4 Hm Hwf Hlat Hok Hin Hrun.
  exact (planner_lat_agg_engine_stratified_model V I vagg islat lle jm shuffle ashuffle swap_oracle arities P (prog_N P) sccs fuel Rin st
           H1 Hp H2 H3 Ha H4 Hm Hwf Hlat (prog_N_below P) Hok Hin Hrun).
Qed.

(* ---------- C04 over lattices: the parallel engine ---------- *)
Theorem planner_par_lat_agg_engine_stratified_model :
  forall (V : Type) (I : linterp V) vagg islat lle jm arities P N sccs Rin st,
  veqb_ok I -> (forall a l l', Permutation l l' -> vagg a l = vagg a l') ->
  (forall r, islat r = true -> lat_laws (lle r) (jm r)) ->
  arities_functional arities -> amonotone_program I islat lle N P ->
  wf_core arities P = true -> wf_lat islat arities P = true -> prog_below N P = true -> sccs_ok P sccs = true ->
  ainput_ok I islat lle arities Rin ->
  par_lat_agg_run_plan I vagg islat jm (compile_model arities P sccs) Rin st ->
  let strata := plan_strata P (compile_model arities P sccs) in
  stratified strata = true
  /\ (forall r, In r P <-> In r (concat strata))
  /\ strat_lat_model I vagg islat lle strata Rin (l_rows st)
  /\ keys_ok islat (l_rows st) /\ plain_nodup islat (l_rows st).
Proof.
  intros V I vagg islat lle jm arities P N sccs Rin st H1 Hp H2 H4 Hm Hwf Hlat Hb Hok Hin Hrun.
  exact (par_lat_agg_run_stratified_model I H1 vagg Hp islat lle jm H2 arities H4 P N Hm _
           (compile_model_valid arities P sccs Hwf Hok) (compile_model_alat_plan_ok islat arities P sccs Hlat)
           (compile_model_plan_below N arities P sccs Hb) Rin st Hin Hrun).
Qed.

Theorem planner_par_lat_agg_equals_serial :
  forall (V : Type) (I : linterp V) vagg islat lle jm arities P N sccs shuffle ashuffle swap_oracle fuel Rin st_par st_ser,
  veqb_ok I -> (forall a l l', Permutation l l' -> vagg a l = vagg a l') ->
  (forall r, islat r = true -> lat_laws (lle r) (jm r)) ->
  arities_functional arities -> amonotone_program I islat lle N P ->
  wf_core arities P = true -> wf_lat islat arities P = true -> prog_below N P = true -> sccs_ok P sccs = true ->
  (forall n l x, In x (shuffle n l) <-> In x l) -> (forall n l, Permutation (ashuffle n l) l) ->
  ainput_ok I islat lle arities Rin ->
  par_lat_agg_run_plan I vagg islat jm (compile_model arities P sccs) Rin st_par ->
  arun_plan I vagg islat jm shuffle ashuffle swap_oracle fuel (compile_model arities P sccs) Rin = Some st_ser ->
  (forall r t, In t (l_rows st_par r) <-> In t (l_rows st_ser r))
  /\ (forall r, Permutation (l_rows st_par r) (l_rows st_ser r)).
Proof.
  intros V I vagg islat lle jm arities P N sccs shuffle ashuffle swap_oracle fuel Rin st_par st_ser H1 Hp H2 H4 Hm Hwf Hlat Hb Hok H3 Ha Hin Hpar Hser.
  exact (par_lat_agg_equals_serial I H1 vagg Hp islat lle jm H2 arities H4 P N Hm _
           (compile_model_valid arities P sccs Hwf Hok) (compile_model_alat_plan_ok islat arities P sccs Hlat)
           (compile_model_plan_below N arities P sccs Hb) shuffle ashuffle swap_oracle fuel Rin st_par st_ser H3 Ha Hin Hpar Hser).
Qed.

(* the strata are the SCCs of the partition handed to the planner (PlanMain.plan_strata_compile) *)
Theorem planner_lat_strata_are_sccs : forall arities P sccs, sccs_ok P sccs = true ->
  Forall2 (fun stratum scc => forall r, In r stratum <-> exists j, In j scc /\ nth_error P j = Some r)
          (plan_strata P (compile_model arities P sccs)) sccs.
Proof. intros arities P sccs Hok. unfold compile_model. apply plan_strata_compile. exact Hok. Qed.

(* ---------- instance: the shortest-path program of LatExample.v ---------- *)
Definition sp_sccs : list (list nat) := [[0]; [1]; [2]]%nat.

Example sp_hyps : wf_core sp_arities sp_prog = true /\ wf_lat sp_islat sp_arities sp_prog = true
                  /\ wf_lat_syn sp_islat sp_arities sp_prog = true /\ sccs_ok sp_prog sp_sccs = true /\ no_agg sp_prog = true.
Proof. vm_compute. repeat split. Qed.

(* the planner model computes exactly the plan the real macro dumped for this program (LatExample.sp_plan) *)
Example sp_plan_computed : compile_model sp_arities sp_prog sp_sccs = sp_plan.
Proof. vm_compute. reflexivity. Qed.

(* the hypothesis is needed: joining on the lattice value, `near(x, y) <-- sp(x, y, l), edge(l, y, _)`, makes the
   planner re-index the first clause of the simple join on its lattice column; the plan is valid but is rejected by the
   lattice index check *)
Definition sp_bad_prog : list rule :=
  [{| heads := [(2%nat, [TVar 0%nat; TVar 1%nat])];
      body := [BClause 1%nat [TVar 0%nat; TVar 1%nat; TVar 2%nat] []; BClause 0%nat [TVar 2%nat; TVar 1%nat; TVar 3%nat] []] |}].
Example sp_bad : wf_core sp_arities sp_bad_prog = true /\ wf_lat sp_islat sp_arities sp_bad_prog = false
                 /\ validate sp_arities sp_bad_prog (compile_model sp_arities sp_bad_prog [[0%nat]]) = true
                 /\ lat_plan_ok sp_islat sp_arities (compile_model sp_arities sp_bad_prog [[0%nat]]) = false.
Proof. vm_compute. repeat split. Qed.

Lemma sp_input_ok : LatMain.input_ok lv_interp sp_islat sp_lle sp_arities sp_input.
Proof.
  split; [|split].
  - intros r row Hin n Hn. unfold sp_input in Hin. destruct r as [|r]; cbn in Hin, Hn.
    + destruct n as [|[|[|[|n]]]]; try discriminate. repeat (destruct Hin as [<-|Hin]; [reflexivity|]). destruct Hin.
    + destruct Hin.
  - intros r Hl. unfold sp_input. destruct r as [|r]; [discriminate|]. cbn. constructor.
  - intros r row Hl Hin. unfold sp_lle. apply Z.le_refl.
Qed.

(* the run of the COMPUTED plan on the input of LatExample.v: the least fixed point, one row per key *)
Example sp_planned_run : exists st,
  LatEval.run_plan lv_interp sp_islat sp_jm lv_shuffle lv_swap 40 (compile_model sp_arities sp_prog sp_sccs) sp_input = Some st
  /\ length (l_rows st 1%nat) = 25%nat /\ In [0; 4; 4]%Z (l_rows st 1%nat)
  /\ (let F := dbof (l_rows st) in
      directed lv_interp sp_islat sp_lle F /\ closedH lv_interp sp_islat sp_lle sp_prog F /\ dble lv_interp sp_islat sp_lle (dbof sp_input) F
      /\ forall J : db, directed lv_interp sp_islat sp_lle J -> closedH lv_interp sp_islat sp_lle sp_prog J ->
                        dble lv_interp sp_islat sp_lle (dbof sp_input) J -> dble lv_interp sp_islat sp_lle F J)
  /\ forall r, sp_islat r = true -> NoDup (map tkey (l_rows st r)).
Proof.
  destruct (LatEval.run_plan lv_interp sp_islat sp_jm lv_shuffle lv_swap 40 (compile_model sp_arities sp_prog sp_sccs) sp_input) as [st|] eqn:E.
  2:{ exfalso. revert E. vm_compute. discriminate. }
  exists st. split; [reflexivity|].
  assert (l_rows st 1%nat = match sp_result with Some (rows, _) => rows | None => [] end) as Hrows.
  { unfold sp_result. rewrite <- sp_plan_computed, E. reflexivity. }
  destruct sp_hyps as (Hwf & Hlat & _ & Hok & Hna).
  destruct (planner_lat_engine_least_fixed_point Z lv_interp sp_islat sp_lle sp_jm lv_shuffle lv_swap sp_arities sp_prog sp_sccs sp_input 40 st
              sp_eq sp_laws sp_shuffle_ok sp_arities_functional Hna sp_monotone Hwf Hlat Hok sp_input_ok E) as [Hlfp Hkey].
  split; [rewrite Hrows; vm_compute; reflexivity|]. split; [rewrite Hrows; vm_compute; tauto|]. split; [exact Hlfp|exact Hkey].
Qed.

Print Assumptions planner_lat_engine_least_fixed_point.
Print Assumptions planner_par_lat_engine_least_fixed_point.
Print Assumptions planner_lat_agg_engine_stratified_model.
Print Assumptions planner_lat_agg_engine_stratified_model_N.
Print Assumptions planner_par_lat_agg_engine_stratified_model.
Print Assumptions sp_planned_run.
