(* Gallina mirror of the PLANNER of the macro: the HIR pass
   (ascent_macro/src/ascent_hir.rs compile_ascent_program_to_hir / compile_rule_to_ir_rule:
   index columns of every clause given the variables grounded so far, simple-join detection)
   and the MIR pass (ascent_macro/src/ascent_mir.rs compile_hir_to_mir /
   compile_hir_rule_to_mir_rules: dynamic relations of an SCC, is_looping, the semi-naive
   version vectors, reorderable).

   Input: the desugared core program (Engine/Core.v rule) and the SCC partition of the rule
   dependency graph in evaluation order (petgraph's condensation and its order are NOT
   re-implemented: the partition is an input, as dumped by the FRONT hook).
   Output: an Engine/Eval.v plan.

   No proofs in this file (Plan/PlanProofs.v).  The Rust function / block mirrored is named
   above each definition.  The grounded-variable list of the Rust code is only ever queried
   with `contains`; it is kept here newest-first (the order Validate.check_items uses). *)
From Coq Require Import List ZArith Bool Arith.
From AV Require Import Engine.Core.
From AV Require Import Engine.Eval.
From AV Require Import Engine.Validate.
Import ListNotations.
Local Open Scope nat_scope.

(* ---------- small mirrors of utils.rs / ascent_syntax.rs helpers ---------- *)

(* utils.rs expr_to_ident(arg).is_some() *)
Definition is_var (t : term) : bool := match t with TVar _ => true | _ => false end.
(* args.iter().filter_map(expr_to_ident) *)
Definition var_args (args : list term) : list var :=
  flat_map (fun t => match t with TVar x => [x] | _ => [] end) args.

(* ascent_syntax.rs CondClause::bound_vars *)
Definition cond_bound (c : cond) : list var := match c with CBind x _ _ => [x] | CIf _ _ => [] end.
(* syn_utils.rs expr_get_vars(cond.expr()) *)
Definition cond_uses (c : cond) : list var := match c with CIf _ xs => xs | CBind _ _ xs => xs end.
(* matches!(c, CondClause::IfLet(_) | CondClause::Let(_)) *)
Definition is_bind (c : cond) : bool := match c with CBind _ _ _ => true | CIf _ _ => false end.

(* ascent_hir.rs extend_grounded_vars over the conditions attached to a clause
   (its error case, shadowing, is excluded by wf_core) *)
Fixpoint ground_conds (G : list var) (cs : list cond) : list var :=
  match cs with [] => G | c :: cs' => ground_conds (cond_bound c ++ G) cs' end.

(* utils.rs intersects *)
Definition intersects (xs ys : list var) : bool := existsb (fun y => memv y xs) ys.

(* ---------- HIR: ascent_hir.rs compile_rule_to_ir_rule ---------- *)

(* the loop `for (i, arg) in bcl.args.iter().enumerate()`: a variable already grounded or a
   non-variable argument is an index column; a new variable is grounded.  Returns the index
   columns and the grounded variables after the clause's arguments *)
Fixpoint clause_indices (G : list var) (args : list term) (pos : nat) : list nat * list var :=
  match args with
  | [] => ([], G)
  | TVar x :: args' =>
      if memv x G then let '(ix, G') := clause_indices G args' (S pos) in (pos :: ix, G')
      else clause_indices (x :: G) args' (S pos)
  | _ :: args' => let '(ix, G') := clause_indices G args' (S pos) in (pos :: ix, G')
  end.

(* BodyItemNode::Agg: the index columns of an aggregated relation are the arguments that are
   neither a wildcard nor one of the aggregated (bound) variables *)
Definition agg_indices (args : list aarg) : list nat :=
  map fst (filter (fun p => match snd p with AKey _ => true | _ => false end) (combine (seq 0 (length args)) args)).

(* the grounded variables after one body item *)
Definition item_grounds (G : list var) (b : bitem) : list var :=
  match b with
  | BClause _ args cs => ground_conds (snd (clause_indices G args 0)) cs
  | BCond c => cond_bound c ++ G
  | BGen x _ _ => x :: G
  | BAgg out _ _ _ _ => match out with Some x => x :: G | None => G end
  end.

(* the IrBodyItem pushed for one body item (IrRelation::new(relation, indices)); the version
   field is a placeholder until the MIR pass *)
Definition hir_item (G : list var) (b : bitem) : pitem :=
  match b with
  | BClause r args cs => PClause r args cs (fst (clause_indices G args 0)) VTotal
  | BCond c => PCond c
  | BGen x g xs => PGen x g xs
  | BAgg out a bound r args => PAgg out a bound r args (agg_indices args)
  end.

(* the main loop `for (bitem_ind, bitem) in rule.body_items.iter().enumerate()` *)
Fixpoint hir_body (G : list var) (body : list bitem) : list pitem :=
  match body with
  | [] => []
  | b :: rest => hir_item G b :: hir_body (item_grounds G b) rest
  end.

(* first_clause_ind *)
Fixpoint first_clause_ind (body : list bitem) : option nat :=
  match body with
  | [] => None
  | BClause _ _ _ :: _ => Some 0
  | _ :: rest => option_map S (first_clause_ind rest)
  end.

(* the block guarded by `first_clause_ind.map(|x| x + 1) == Some(bitem_ind)`: the variables of
   the second clause are pairwise distinct, and its conditions mention only its own variables *)
Fixpoint no_repeat (xs seen : list var) : bool :=
  match xs with [] => true | x :: xs' => negb (memv x seen) && no_repeat xs' (x :: seen) end.

(* get_indices_given_grounded_variables *)
Fixpoint indices_given (args : list term) (vars : list var) (pos : nat) : list nat :=
  match args with
  | [] => []
  | TVar x :: args' => if memv x vars then pos :: indices_given args' vars (S pos) else indices_given args' vars (S pos)
  | _ :: args' => pos :: indices_given args' vars (S pos)
  end.

(* `cl1.rel = simple_join_ir_relations[0].clone()` *)
Fixpoint replace_idx (items : list pitem) (i : nat) (ix : list nat) : list pitem :=
  match items, i with
  | PClause r a c _ v :: rest, O => PClause r a c ix v :: rest
  | it :: rest, S n => it :: replace_idx rest n ix
  | _, _ => items
  end.

Section Planner.
(* expr_get_vars collects EVERY free path identifier of a condition's expression, also the ones that are not rule
   variables (a called function `Some(..)`, a constant `None`); the core language abstracts an expression to a symbol
   applied to variables, so the rendering decides: [free_ident c] = the expression of c mentions such an identifier.
   The only place the planner looks at it is the test "the conditions of the second clause mention only its own
   variables".  The theorems hold for every [free_ident]. *)
Variable free_ident : cond -> bool.

Fixpoint conds_self (self : list var) (cs : list cond) : bool :=
  match cs with
  | [] => true
  | c :: cs' => negb (free_ident c) && subv (cond_uses c) self && conds_self (cond_bound c ++ self) cs'
  end.
Definition second_clause_simple (args : list term) (cs : list cond) : bool :=
  no_repeat (var_args args) [] && conds_self (var_args args) cs.

(* first_two_clauses_simple at the end of the loop, i.e. simple_join_start_index:
   - the item after the first clause is a clause (initial value);
   - no let / if-let attached to the first clause;
   - second_clause_simple;
   - no index column in the first clause (`indices.push(i)` with first_clause_ind == Some(bitem_ind),
     both for a grounded variable and for a non-variable argument);
   - no non-variable argument in the second clause (`bitem_ind < 2 + first_clause_ind`). *)
Definition simple_join_start (body : list bitem) : option nat :=
  match first_clause_ind body with
  | None => None
  | Some i =>
      let G := fold_left item_grounds (firstn i body) [] in
      match skipn i body with
      | BClause _ a1 c1 :: BClause _ a2 c2 :: _ =>
          if negb (existsb is_bind c1)
             && second_clause_simple a2 c2
             && (match fst (clause_indices G a1 0) with [] => true | _ => false end)
             && forallb is_var a2
          then Some i else None
      | _ => None
      end
  end.

(* IrRule { simple_join_start_index, body_items } *)
Definition hir_rule (r : rule) : list pitem * option nat :=
  let items := hir_body [] (body r) in
  match simple_join_start (body r) with
  | Some i =>
      match skipn i (body r) with
      | BClause _ a1 _ :: BClause _ a2 _ :: _ => (replace_idx items i (indices_given a1 (var_args a2) 0), Some i)
      | _ => (items, Some i)     (* unreachable ("incorrect simple join handling in ascent_hir") *)
      end
  | None => (items, None)
  end.

(* ---------- MIR: ascent_mir.rs compile_hir_rule_to_mir_rules ---------- *)

(* versions_base: for n dynamic clauses (Delta,TD,..,TD), (Total,Delta,TD,..), .., (Total,..,Total,Delta) *)
Fixpoint versions_base (n : nat) : list (list version) :=
  match n with
  | O => []
  | S k => map (fun v => v ++ [VTotalDelta]) (versions_base k) ++ [repeat VTotal k ++ [VDelta]]
  end.

(* `if dynamic_cls.is_empty() { vec![vec![]] } else { versions(..) }`  (versions = versions_base:
   no_total_delta_at_beginning is the constant false) *)
Definition version_combinations (n : nat) : list (list version) :=
  match n with O => [[]] | _ => versions_base n end.

(* dynamic_cls *)
Definition count_dynamic (dyn : list rel) (items : list pitem) : nat :=
  length (filter (fun p => match p with PClause r _ _ _ _ => is_dyn dyn r | _ => false end) items).

(* hir_body_item_to_mir_body_item over the zipped version vector: dynamic clauses take the
   versions in order, the other clauses read Total *)
Fixpoint assign_versions (dyn : list rel) (items : list pitem) (vs : list version) : list pitem :=
  match items with
  | [] => []
  | PClause r a c ix _ :: rest =>
      if is_dyn dyn r then PClause r a c ix (hd VTotal vs) :: assign_versions dyn rest (tl vs)
      else PClause r a c ix VTotal :: assign_versions dyn rest vs
  | it :: rest => it :: assign_versions dyn rest vs
  end.

(* MirBodyItem::bound_vars *)
Definition item_bound_vars (p : pitem) : list var :=
  match p with
  | PClause _ args cs _ _ => var_args args ++ flat_map cond_bound cs
  | PCond c => cond_bound c
  | PGen x _ _ => [x]
  | PAgg out _ _ _ _ _ => match out with Some x => [x] | None => [] end
  end.

(* reorderable: a simple join whose second clause shares no variable with the items before the
   first clause *)
Definition reorderable (items : list pitem) (sj : option nat) : bool :=
  match sj with
  | None => false
  | Some i =>
      negb (intersects (flat_map item_bound_vars (firstn i items))
                       (match nth_error items (S i) with Some p => item_bound_vars p | None => [] end))
  end.

(* the MirRules of one HIR rule *)
Definition mir_rules (dyn : list rel) (j : nat) (r : rule) : list variant :=
  let '(items, sj) := hir_rule r in
  (* bound_vars does not look at the versions: the flag is the same for all variants of the rule *)
  let ro := reorderable items sj in
  map (fun vs => {| v_rule := j; v_heads := heads r; v_items := assign_versions dyn items vs; v_sj := sj; v_reord := ro |})
      (version_combinations (count_dynamic dyn items)).

(* ---------- MIR: ascent_mir.rs compile_hir_to_mir, one SCC ---------- *)

Definition rule_at (P : list rule) (j : nat) : list rule := match nth_error P j with Some r => [r] | None => [] end.

(* dynamic_relations_set: the head relations of the rules of the SCC *)
Definition scc_dynamic (P : list rule) (scc : list nat) : list rel :=
  dedup_nat (flat_map (fun j => flat_map head_rels (rule_at P j)) scc).

(* body_only_relations before the removal: relations of body clauses AND of aggregate clauses (IrBodyItem::rel) *)
Definition scc_body_rels (P : list rule) (scc : list nat) : list rel :=
  flat_map (fun j => flat_map (fun r => body_clause_rels r ++ body_agg_rels r) (rule_at P j)) scc.

(* is_looping: some dynamic relation is read by a body item of the SCC *)
Definition scc_looping (P : list rule) (scc : list nat) : bool :=
  existsb (fun q => existsb (Nat.eqb q) (scc_body_rels P scc)) (scc_dynamic P scc).

Definition compile_scc (P : list rule) (scc : list nat) : pscc :=
  let dyn := scc_dynamic P scc in
  {| s_vars := flat_map (fun j => flat_map (mir_rules dyn j) (rule_at P j)) scc;
     s_dyn := dyn;
     s_loop := scc_looping P scc |}.

(* the error "use of aggregated relation `..` cannot be stratified" *)
Definition scc_agg_error (P : list rule) (scc : list nat) : bool :=
  existsb (fun j => existsb (fun r => existsb (fun q => is_dyn (scc_dynamic P scc) q) (body_agg_rels r)) (rule_at P j)) scc.
Definition compile_error (P : list rule) (sccs : list (list nat)) : bool := existsb (scc_agg_error P) sccs.

(* ---------- HIR: ascent_hir.rs compile_ascent_program_to_hir, relations_ir_relations ---------- *)
(* the indices generated for every relation: its full index (relations_full_indices), for a lattice the index on
   its key columns, all but the last (lattices_full_indices), and every index a body clause or an aggregate of a
   rule reads (after the re-indexing of the first clause of a simple join); [rels] = (relation, arity, is_lattice) *)
Definition item_index (p : pitem) : list (rel * list nat) :=
  match p with PClause r _ _ ix _ => [(r, ix)] | PAgg _ _ _ r _ ix => [(r, ix)] | _ => [] end.
Definition rule_indices (r : rule) : list (rel * list nat) := flat_map item_index (fst (hir_rule r)).
Definition declared_indices (rels : list (rel * nat * bool)) : list (rel * list nat) :=
  flat_map (fun d => match d with (r, n, lat) => (if lat : bool then [(r, seq 0 (n - 1))] else []) ++ [(r, seq 0 n)] end) rels.
Definition program_indices (rels : list (rel * nat * bool)) (P : list rule) : list (rel * list nat) :=
  declared_indices rels ++ flat_map rule_indices P.

(* the plan; the arities take no part in planning (prog_get_relation only checks them) *)
Definition compile_model_gen (arities : list (rel * nat)) (P : list rule) (sccs : list (list nat)) : plan :=
  map (compile_scc P) sccs.
End Planner.

(* the rendering of the fixed vocabulary (gen/dl.py PARTIALS, Engine/Vocab.v std_bint): the two partial functions of
   if-let are written `if .. { Some(..) } else { None }` *)
Definition std_free_ident (c : cond) : bool :=
  match c with CBind _ f _ => Nat.eqb f 100 || Nat.eqb f 101 | CIf _ _ => false end.

Definition compile_model (arities : list (rel * nat)) (P : list rule) (sccs : list (list nat)) : plan :=
  compile_model_gen std_free_ident arities P sccs.
