(* The planner on lattice programs: for every core program that meets wf_lat (Plan/PlanLatWf.v) the plan computed by the
   planner model (Plan/PlanModel.v compile_model) passes the extra plan checks of the lattice engine models:
     compile_model_lat_plan_ok    LatPlan.lat_plan_ok      (C03: lattices, no aggregation)
     compile_model_alat_plan_ok   LatAggEval.alat_plan_ok  (C04 over lattices: with aggregation / negation)
     compile_model_plan_below     LatAggTrans.plan_below   (variables below N, aggregates read through their key index)
   None of them needs wf_core or sccs_ok (those are the hypotheses of PlanProofs.compile_model_valid).
   The conditions are exact: wf_lat_exact (on an ok partition, for a well-formed program, the plan passes alat_plan_ok
   ONLY IF the program meets wf_lat). *)
From Coq Require Import List ZArith Bool Arith Lia.
From AV Require Import Engine.Core.
From AV Require Import Engine.Eval.
From AV Require Import Engine.Validate.
From AV Require Import Engine.Naive.
From AV Require Import Engine.NaiveLemmas.
From AV Require Import LatEngine.LatPlan.
From AV Require Import LatEngine.LatAggEval.
From AV Require Import LatEngine.LatAggTrans.
From AV Require Import Plan.PlanModel.
From AV Require Import Plan.PlanWf.
From AV Require Import Plan.PlanHir.
From AV Require Import Plan.PlanProofs.
From AV Require Import Plan.PlanLatWf.
Import ListNotations.
Local Open Scope nat_scope.

(* ---------- unfolding equations (cbn would unfold through the next argument) ---------- *)
Lemma clause_indices_var G x args pos :
  clause_indices G (TVar x :: args) pos
  = if memv x G then (pos :: fst (clause_indices G args (S pos)), snd (clause_indices G args (S pos)))
    else clause_indices (x :: G) args (S pos).
Proof. cbn [clause_indices]. destruct (memv x G); [|reflexivity]. destruct (clause_indices G args (S pos)); reflexivity. Qed.
Lemma clause_indices_const G c args pos :
  clause_indices G (TConst c :: args) pos = (pos :: fst (clause_indices G args (S pos)), snd (clause_indices G args (S pos))).
Proof. cbn [clause_indices]. destruct (clause_indices G args (S pos)); reflexivity. Qed.
Lemma clause_indices_fun G f xs args pos :
  clause_indices G (TFun f xs :: args) pos = (pos :: fst (clause_indices G args (S pos)), snd (clause_indices G args (S pos))).
Proof. cbn [clause_indices]. destruct (clause_indices G args (S pos)); reflexivity. Qed.

Lemma last_new_cons G t t2 rest :
  last_new G (t :: t2 :: rest) = last_new (match t with TVar y => y :: G | _ => G end) (t2 :: rest).
Proof. reflexivity. Qed.
Lemma last_not_in_cons vs t t2 rest : last_not_in vs (t :: t2 :: rest) = last_not_in vs (t2 :: rest).
Proof. reflexivity. Qed.
Lemma agg_last_free_cons a a2 rest : agg_last_free (a :: a2 :: rest) = agg_last_free (a2 :: rest).
Proof. reflexivity. Qed.

(* the column check of lat_item_ok / alat_item_ok *)
Definition cols_ok (n : nat) (idx : list nat) : bool := forallb (fun i => Nat.ltb (S i) n) idx.

Lemma cols_ok_In n idx : cols_ok n idx = true <-> forall i, In i idx -> S i < n.
Proof.
  unfold cols_ok. rewrite forallb_forall. split; intros H i Hi; [apply Nat.ltb_lt|apply Nat.ltb_lt]; apply H; exact Hi.
Qed.

(* ---------- a new last variable is not an index column ---------- *)
Lemma last_new_indices args : forall G G' pos, (forall x, memv x G' = true -> memv x G = true) -> last_new G args = true ->
  forall i, In i (fst (clause_indices G' args pos)) -> S i < pos + length args.
Proof.
  induction args as [|t rest IH]; intros G G' pos Hsub H i Hi; [discriminate|].
  destruct rest as [|t2 rest2].
  - cbn [last_new] in H. destruct t as [x|c|f xs]; try discriminate. apply negb_true_iff in H.
    rewrite clause_indices_var in Hi. destruct (memv x G') eqn:E; [rewrite (Hsub _ E) in H; discriminate|].
    cbn [clause_indices fst] in Hi. destruct Hi.
  - rewrite last_new_cons in H. cbn [length] in *.
    assert (forall G1 G1', (forall x, memv x G1' = true -> memv x G1 = true) -> last_new G1 (t2 :: rest2) = true ->
            In i (pos :: fst (clause_indices G1' (t2 :: rest2) (S pos))) -> S i < pos + S (S (length rest2))) as Hcons.
    { intros G1 G1' Hs1 H1 [<-|Hin]; [lia|]. pose proof (IH G1 G1' (S pos) Hs1 H1 i Hin) as H2. cbn [length] in H2. lia. }
    destruct t as [y|c|f xs].
    + rewrite clause_indices_var in Hi. destruct (memv y G') eqn:E.
      * cbn [fst] in Hi. apply (Hcons (y :: G) G'); [|exact H|exact Hi].
        intros x Hx. rewrite memv_cons, (Hsub _ Hx). apply orb_true_r.
      * pose proof (IH (y :: G) (y :: G') (S pos)) as H2. cbn [length] in H2.
        assert (S i < S pos + S (length rest2)); [|lia]. apply H2; [|exact H|exact Hi].
        intros x Hx. rewrite memv_cons in *. apply orb_true_iff in Hx as [Hx|Hx]; [rewrite Hx; reflexivity|rewrite (Hsub _ Hx); apply orb_true_r].
    + rewrite clause_indices_const in Hi. cbn [fst] in Hi. apply (Hcons G G' Hsub H Hi).
    + rewrite clause_indices_fun in Hi. cbn [fst] in Hi. apply (Hcons G G' Hsub H Hi).
Qed.

Lemma last_new_cols G args : last_new G args = true -> cols_ok (length args) (fst (clause_indices G args 0)) = true.
Proof. intros H. apply cols_ok_In. intros i Hi. apply (last_new_indices args G G 0 (fun x h => h) H i Hi). Qed.

(* the re-indexed first clause of a simple join *)
Lemma last_not_in_indices vs args : forall pos, last_not_in vs args = true ->
  forall i, In i (indices_given args vs pos) -> S i < pos + length args.
Proof.
  induction args as [|t rest IH]; intros pos H i Hi; [discriminate|].
  destruct rest as [|t2 rest2].
  - cbn [last_not_in] in H. destruct t as [x|c|f xs]; try discriminate. apply negb_true_iff in H.
    cbn [indices_given] in Hi. rewrite H in Hi. destruct Hi.
  - rewrite last_not_in_cons in H. cbn [length] in *.
    assert (In i (indices_given (t2 :: rest2) vs (S pos)) -> S i < pos + S (S (length rest2))) as Hrest.
    { intros Hin. pose proof (IH (S pos) H i Hin) as H2. cbn [length] in H2. lia. }
    destruct t as [y|c|f xs].
    + change (indices_given (TVar y :: t2 :: rest2) vs pos)
        with (if memv y vs then pos :: indices_given (t2 :: rest2) vs (S pos) else indices_given (t2 :: rest2) vs (S pos)) in Hi.
      destruct (memv y vs); [destruct Hi as [<-|Hi]; [lia|]|]; apply Hrest; exact Hi.
    + change (indices_given (TConst c :: t2 :: rest2) vs pos) with (pos :: indices_given (t2 :: rest2) vs (S pos)) in Hi.
      destruct Hi as [<-|Hi]; [lia|apply Hrest; exact Hi].
    + change (indices_given (TFun f xs :: t2 :: rest2) vs pos) with (pos :: indices_given (t2 :: rest2) vs (S pos)) in Hi.
      destruct Hi as [<-|Hi]; [lia|apply Hrest; exact Hi].
Qed.

Lemma last_not_in_cols vs args : last_not_in vs args = true -> cols_ok (length args) (indices_given args vs 0) = true.
Proof. intros H. apply cols_ok_In. intros i Hi. apply (last_not_in_indices vs args 0 H i Hi). Qed.

(* the key index of an aggregated clause *)
Lemma agg_last_free_indices args : forall s, agg_last_free args = true ->
  forall i, In i (map fst (filter (fun p : nat * aarg => match snd p with AKey _ => true | _ => false end) (combine (seq s (length args)) args))) ->
  S i < s + length args.
Proof.
  induction args as [|a rest IH]; intros s H i Hi; [destruct Hi|].
  destruct rest as [|a2 rest2].
  - cbn [agg_last_free] in H. cbn [length seq combine filter snd] in Hi. destruct a; try discriminate; destruct Hi.
  - rewrite agg_last_free_cons in H. pose proof (IH (S s) H i) as H2. cbn [length] in *.
    change (combine (seq s (S (S (length rest2)))) (a :: a2 :: rest2))
      with ((s, a) :: combine (seq (S s) (S (length rest2))) (a2 :: rest2)) in Hi.
    cbn [filter snd] in Hi. destruct a; cbn [map fst] in Hi.
    + specialize (H2 Hi). lia.
    + specialize (H2 Hi). lia.
    + destruct Hi as [<-|Hi]; [lia|]. specialize (H2 Hi). lia.
Qed.

Lemma agg_last_free_cols args : agg_last_free args = true -> cols_ok (length args) (agg_indices args) = true.
Proof. intros H. apply cols_ok_In. intros i Hi. apply (agg_last_free_indices args 0 H i Hi). Qed.

(* ---------- items ---------- *)
Lemma alat_item_ok_erase islat p : alat_item_ok islat (erase p) = alat_item_ok islat p.
Proof. destruct p; reflexivity. Qed.

(* ---------- items ---------- *)
Section Items.
Variable fi : cond -> bool.
Variable islat : rel -> bool.

Lemma alat_items_assign dyn items : forall vs,
  forallb (alat_item_ok islat) (assign_versions dyn items vs) = forallb (alat_item_ok islat) items.
Proof.
  induction items as [|p items IH]; intros vs; [reflexivity|].
  destruct p; cbn [assign_versions]; try (cbn [forallb]; rewrite IH; reflexivity).
  destruct (is_dyn dyn r); cbn [forallb alat_item_ok]; rewrite IH; reflexivity.
Qed.

Lemma hir_body_alat body : forall G, lat_body_ok islat G body = true ->
  forallb (alat_item_ok islat) (hir_body G body) = true.
Proof.
  induction body as [|b body IH]; intros G H; [reflexivity|]. cbn [lat_body_ok] in H. apply andb_true_iff in H as [H1 H2].
  cbn [hir_body forallb]. rewrite (IH _ H2), andb_true_r.
  destruct b as [r args cs|c|x g xs|out a bound r args]; cbn [hir_item alat_item_ok lat_bitem_ok] in *; try reflexivity.
  - destruct (islat r); [|reflexivity]. cbn [negb orb] in *. apply (last_new_cols G args H1).
  - destruct (islat r); [|reflexivity]. cbn [negb orb] in *. apply (agg_last_free_cols args H1).
Qed.

Lemma replace_alat body : forall G i r1 a1 c1 tl ix, skipn i body = BClause r1 a1 c1 :: tl ->
  forallb (alat_item_ok islat) (hir_body G body) = true -> alat_item_ok islat (PClause r1 a1 c1 ix VTotal) = true ->
  forallb (alat_item_ok islat) (replace_idx (hir_body G body) i ix) = true.
Proof.
  induction body as [|b body IH]; intros G i r1 a1 c1 tl ix Hs Hall Hok; [destruct i; discriminate|].
  cbn [hir_body forallb] in Hall. apply andb_true_iff in Hall as [Hb Hall]. destruct i as [|n].
  - cbn [skipn] in Hs. injection Hs as -> ->. cbn [hir_body hir_item replace_idx forallb]. rewrite Hall, andb_true_r. exact Hok.
  - cbn [skipn] in Hs. cbn [hir_body].
    assert (replace_idx (hir_item G b :: hir_body (item_grounds G b) body) (S n) ix
            = hir_item G b :: replace_idx (hir_body (item_grounds G b) body) n ix) as -> by (destruct b; reflexivity).
    cbn [forallb]. rewrite Hb. cbn [andb]. eapply IH; eassumption.
Qed.

Lemma hir_rule_alat r : wf_lat_rule fi islat r = true -> forallb (alat_item_ok islat) (fst (hir_rule fi r)) = true.
Proof.
  unfold wf_lat_rule, hir_rule, sj_lat_ok. intros H. apply andb_true_iff in H as [H1 H2].
  pose proof (hir_body_alat _ _ H1) as Hb.
  destruct (simple_join_start fi (body r)) as [i|]; [|exact Hb].
  destruct (skipn i (body r)) as [|[r1 a1 c1| | |] [|[r2 a2 c2| | |] rest]] eqn:ES; cbn [fst]; try exact Hb.
  apply (replace_alat _ _ _ _ _ _ _ _ ES Hb). cbn [pair_ok] in H2. cbn [alat_item_ok].
  destruct (islat r1); [|reflexivity]. cbn [negb orb] in *. apply (last_not_in_cols _ _ H2).
Qed.

Lemma item_of_hir_rule r : map item_of (fst (hir_rule fi r)) = body r.
Proof.
  unfold hir_rule. destruct (simple_join_start fi (body r)) as [i|]; [|apply item_of_hir_body].
  destruct (skipn i (body r)) as [|[r1 a1 c1| | |] [|[r2 a2 c2| | |] rest]]; cbn [fst]; rewrite ?item_of_replace; apply item_of_hir_body.
Qed.

(* without aggregates the two checks coincide *)
Lemma lat_items_of_alat items : forallb no_agg_item (map item_of items) = true ->
  forallb (alat_item_ok islat) items = true -> forallb (lat_item_ok islat) items = true.
Proof.
  induction items as [|p items IH]; intros Hn Ha; [reflexivity|]. cbn [map forallb] in *.
  apply andb_true_iff in Hn as [Hn1 Hn2]. apply andb_true_iff in Ha as [Ha1 Ha2]. rewrite (IH Hn2 Ha2), andb_true_r.
  destruct p; try exact Ha1. discriminate.
Qed.

(* pitem_below is bitem_below on the source item *)
Lemma pitem_below_item_of N p : pitem_below N p = bitem_below N (item_of p).
Proof. destruct p; reflexivity. Qed.

Lemma keypos_hir_body body : forall G, forallb pitem_keypos (hir_body G body) = true.
Proof.
  induction body as [|b body IH]; intros G; [reflexivity|]. cbn [hir_body forallb]. rewrite IH, andb_true_r.
  destruct b; cbn [hir_item pitem_keypos]; try reflexivity. apply nats_eqb_refl.
Qed.

Lemma keypos_replace items : forall i ix, forallb pitem_keypos items = true -> forallb pitem_keypos (replace_idx items i ix) = true.
Proof.
  induction items as [|p items IH]; intros i ix H; [destruct i; exact H|].
  cbn [forallb] in H. apply andb_true_iff in H as [H1 H2].
  destruct i as [|n]; destruct p; cbn [replace_idx forallb]; rewrite ?H1, ?H2, ?(IH n ix H2); reflexivity.
Qed.

Lemma keypos_hir_rule r : forallb pitem_keypos (fst (hir_rule fi r)) = true.
Proof.
  unfold hir_rule. destruct (simple_join_start fi (body r)) as [i|]; [|apply keypos_hir_body].
  destruct (skipn i (body r)) as [|[r1 a1 c1| | |] [|[r2 a2 c2| | |] rest]]; cbn [fst]; try apply keypos_replace; apply keypos_hir_body.
Qed.

Lemma keypos_assign dyn items : forall vs, forallb pitem_keypos (assign_versions dyn items vs) = forallb pitem_keypos items.
Proof.
  induction items as [|p items IH]; intros vs; [reflexivity|].
  destruct p; cbn [assign_versions]; try (cbn [forallb]; rewrite IH; reflexivity).
  destruct (is_dyn dyn r); cbn [forallb pitem_keypos]; rewrite IH; reflexivity.
Qed.

Lemma forallb_and {A} (f g : A -> bool) l : forallb (fun x => f x && g x) l = forallb f l && forallb g l.
Proof.
  induction l as [|a l IH]; [reflexivity|]. cbn [forallb]. rewrite IH.
  destruct (f a), (g a), (forallb f l), (forallb g l); reflexivity.
Qed.

Lemma forallb_map {A B} (f : B -> bool) (g : A -> B) l : forallb f (map g l) = forallb (fun x => f (g x)) l.
Proof. induction l as [|a l IH]; [reflexivity|]. cbn [map forallb]. rewrite IH. reflexivity. Qed.

Lemma forallb_ext' {A} (f g : A -> bool) l : (forall x, f x = g x) -> forallb f l = forallb g l.
Proof. intros H. induction l as [|a l IH]; [reflexivity|]. cbn [forallb]. rewrite H, IH. reflexivity. Qed.

(* every variant of a rule below N is below N *)
Lemma variant_below_mk N dyn j r vs : rule_below N r = true -> variant_below N (mk_variant fi dyn j r vs) = true.
Proof.
  unfold rule_below, variant_below, mk_variant. cbn [v_items v_heads]. intros H. apply andb_true_iff in H as [Hb Hh].
  rewrite Hh, andb_true_r. rewrite forallb_and, keypos_assign, keypos_hir_rule, andb_true_r.
  rewrite (forallb_ext' _ (fun p => bitem_below N (item_of p)) _ (pitem_below_item_of N)).
  rewrite <- (forallb_map (bitem_below N) item_of), item_of_assign, item_of_hir_rule. exact Hb.
Qed.
End Items.

(* ---------- the plan ---------- *)
Section PlanLat.
Variable fi : cond -> bool.
Variable islat : rel -> bool.
Variable arities : list (rel * nat).
Variable P : list rule.
Variable sccs : list (list nat).

(* every variant of the computed plan is a version assignment of the HIR items of a rule of the program *)
Lemma plan_variant sc v : In sc (compile_model_gen fi arities P sccs) -> In v (s_vars sc) ->
  exists dyn j r vs, In r P /\ v = mk_variant fi dyn j r vs.
Proof.
  unfold compile_model_gen. intros Hsc Hv. apply in_map_iff in Hsc as (scc & <- & _).
  apply in_s_vars in Hv as (j & r & _ & Hr & Hv). apply mir_rules_spec in Hv as (vs & _ & ->).
  exists (scc_dynamic P scc), j, r, vs. split; [eapply nth_error_In; exact Hr|reflexivity].
Qed.

Theorem compile_model_gen_alat_plan_ok : wf_lat_gen fi islat arities P = true ->
  alat_plan_ok islat arities (compile_model_gen fi arities P sccs) = true.
Proof.
  unfold wf_lat_gen, alat_plan_ok, lat_arities_ok. intros H. apply andb_true_iff in H as [H1 H2]. rewrite H2, andb_true_r.
  rewrite forallb_forall in H1. apply forallb_forall. intros sc Hsc. apply forallb_forall. intros v Hv.
  destruct (plan_variant sc v Hsc Hv) as (dyn & j & r & vs & Hr & ->).
  unfold alat_variant_ok, mk_variant. cbn [v_items]. rewrite alat_items_assign. apply hir_rule_alat. apply H1. exact Hr.
Qed.

Theorem compile_model_gen_lat_plan_ok : wf_lat_gen fi islat arities P = true -> no_agg P = true ->
  lat_plan_ok islat arities (compile_model_gen fi arities P sccs) = true.
Proof.
  intros H Hna. pose proof (compile_model_gen_alat_plan_ok H) as Ha.
  unfold alat_plan_ok in Ha. unfold lat_plan_ok. apply andb_true_iff in Ha as [Ha1 Ha2]. rewrite Ha2, andb_true_r.
  rewrite forallb_forall in Ha1. apply forallb_forall. intros sc Hsc. apply forallb_forall. intros v Hv.
  specialize (Ha1 sc Hsc). rewrite forallb_forall in Ha1. specialize (Ha1 v Hv).
  destruct (plan_variant sc v Hsc Hv) as (dyn & j & r & vs & Hr & ->).
  unfold lat_variant_ok, alat_variant_ok, mk_variant in *. cbn [v_items] in *.
  apply lat_items_of_alat; [|exact Ha1]. rewrite item_of_assign, item_of_hir_rule.
  unfold no_agg in Hna. rewrite forallb_forall in Hna. apply (Hna r Hr).
Qed.

Theorem compile_model_gen_plan_below N : prog_below N P = true ->
  plan_below N (compile_model_gen fi arities P sccs) = true.
Proof.
  unfold prog_below, plan_below. intros H. rewrite forallb_forall in H.
  apply forallb_forall. intros sc Hsc. apply forallb_forall. intros v Hv.
  destruct (plan_variant sc v Hsc Hv) as (dyn & j & r & vs & Hr & ->). apply variant_below_mk. apply H. exact Hr.
Qed.
End PlanLat.

(* ---------- the syntactic condition implies wf_lat ---------- *)
Section Syn.
Variable fi : cond -> bool.
Variable islat : rel -> bool.

Lemma first_pair_app pre : forall tl, forallb nonclause pre = true -> first_pair_ok islat (pre ++ tl) = first_pair_ok islat tl.
Proof.
  induction pre as [|b pre IH]; intros tl H; [reflexivity|]. cbn [forallb] in H. apply andb_true_iff in H as [Hb H].
  destruct b; try discriminate; cbn [app first_pair_ok]; apply IH; exact H.
Qed.

Lemma first_pair_sj body : first_pair_ok islat body = true -> sj_lat_ok fi islat body = true.
Proof.
  unfold sj_lat_ok. intros H. destruct (simple_join_start fi body) as [i|] eqn:ES; [|reflexivity].
  unfold simple_join_start in ES. destruct (first_clause_ind body) as [i0|] eqn:EF; [|discriminate].
  destruct (first_clause_split _ _ EF) as (pre & r1 & a1 & c1 & tl & HB & HL & HN & HF & HS).
  assert (i = i0) as ->.
  { rewrite HS in ES. destruct tl as [|[r2 a2 c2| | |] rest]; try discriminate.
    match type of ES with (if ?c then _ else _) = _ => destruct c end; [injection ES as <-; reflexivity|discriminate]. }
  rewrite HS. rewrite HB, (first_pair_app pre _ HN) in H. exact H.
Qed.

Lemma wf_lat_syn_gen arities P : wf_lat_syn islat arities P = true -> wf_lat_gen fi islat arities P = true.
Proof.
  unfold wf_lat_syn, wf_lat_gen. intros H. apply andb_true_iff in H as [H1 H2]. rewrite H2, andb_true_r.
  rewrite forallb_forall in H1. apply forallb_forall. intros r Hr. specialize (H1 r Hr).
  unfold wf_lat_rule_syn in H1. unfold wf_lat_rule. apply andb_true_iff in H1 as [Ha Hb]. rewrite Ha. cbn [andb].
  apply first_pair_sj. exact Hb.
Qed.
End Syn.

(* ---------- prog_N is a bound ---------- *)
Lemma vars_below_max (all xs : list var) : incl xs all -> vars_below (S (list_max all)) xs = true.
Proof.
  intros H. unfold vars_below. apply forallb_forall. intros x Hx. apply Nat.ltb_lt.
  assert (Forall (fun k => k <= list_max all) all) as HF by (apply list_max_le; apply Nat.le_refl).
  rewrite Forall_forall in HF. specialize (HF x (H x Hx)). lia.
Qed.

Lemma below_max_var all x : In x all -> Nat.ltb x (S (list_max all)) = true.
Proof.
  intros H. pose proof (vars_below_max all [x]) as H1. unfold vars_below in H1. cbn [forallb] in H1.
  rewrite andb_true_r in H1. apply H1. intros y [<-|[]]. exact H.
Qed.

Section Bound.
Variable all : list var.
Local Notation N := (S (list_max all)).

Lemma terms_below_max ts : incl (flat_map term_vars ts) all -> forallb (term_below N) ts = true.
Proof.
  intros H. apply forallb_forall. intros t Ht. unfold term_below. apply vars_below_max.
  intros x Hx. apply H. apply in_flat_map. exists t. split; assumption.
Qed.

Lemma cond_below_max c : incl (cond_all_vars c) all -> cond_below N c = true.
Proof.
  destruct c as [p xs|x f xs]; cbn [cond_all_vars cond_below]; intros H.
  - apply vars_below_max. exact H.
  - rewrite (below_max_var all x) by (apply H; left; reflexivity). apply vars_below_max. intros y Hy. apply H. right. exact Hy.
Qed.

Lemma conds_below_max cs : incl (flat_map cond_all_vars cs) all -> forallb (cond_below N) cs = true.
Proof.
  intros H. apply forallb_forall. intros c Hc. apply cond_below_max. intros x Hx. apply H. apply in_flat_map. exists c. split; assumption.
Qed.

Lemma aargs_below_max args : incl (flat_map aarg_all_vars args) all -> forallb (aarg_below N) args = true.
Proof.
  intros H. apply forallb_forall. intros a Ha.
  assert (incl (aarg_all_vars a) all) as Hi by (intros x Hx; apply H; apply in_flat_map; exists a; split; assumption).
  destruct a as [|x|t]; cbn [aarg_below aarg_all_vars] in *; [reflexivity| |].
  - apply below_max_var. apply Hi. left. reflexivity.
  - unfold term_below. apply vars_below_max. exact Hi.
Qed.

Lemma bitem_below_max b : incl (bitem_all_vars b) all -> bitem_below N b = true.
Proof.
  destruct b as [r args cs|c|x g xs|out a bound r args]; cbn [bitem_all_vars bitem_below]; intros H.
  - rewrite terms_below_max, conds_below_max; [reflexivity| |]; intros x Hx; apply H; apply in_or_app; [right|left]; exact Hx.
  - apply cond_below_max. exact H.
  - rewrite (below_max_var all x) by (apply H; left; reflexivity). apply vars_below_max. intros y Hy. apply H. right. exact Hy.
  - assert ((match out with Some x => Nat.ltb x N | None => true end) = true) as ->.
    { destruct out as [x|]; [|reflexivity]. apply below_max_var. apply H. apply in_or_app. left. left. reflexivity. }
    rewrite vars_below_max, aargs_below_max; [reflexivity| |]; intros x Hx; apply H; apply in_or_app; right; apply in_or_app; [right|left]; exact Hx.
Qed.

Lemma rule_below_max r : incl (rule_all_vars r) all -> rule_below N r = true.
Proof.
  unfold rule_all_vars, rule_below. intros H. apply andb_true_iff. split.
  - apply forallb_forall. intros b Hb. apply bitem_below_max. intros x Hx. apply H. apply in_or_app. left.
    apply in_flat_map. exists b. split; assumption.
  - apply forallb_forall. intros h Hh. apply terms_below_max. intros x Hx. apply H. apply in_or_app. right.
    apply in_flat_map. exists h. split; assumption.
Qed.
End Bound.

Theorem prog_N_below P : prog_below (prog_N P) P = true.
Proof.
  unfold prog_below, prog_N. apply forallb_forall. intros r Hr. apply rule_below_max.
  intros x Hx. apply in_flat_map. exists r. split; assumption.
Qed.

(* ---------- exactness: the plan passes the index check ONLY IF the program meets wf_lat ---------- *)
Lemma last_new_complete args : forall G G' pos, (forall x, memv x G = true -> memv x G' = true) -> args <> [] ->
  (forall i, In i (fst (clause_indices G' args pos)) -> S i < pos + length args) -> last_new G args = true.
Proof.
  induction args as [|t rest IH]; intros G G' pos Hsub Hne H; [contradiction|].
  destruct rest as [|t2 rest2].
  - cbn [last_new]. cbn [length] in H. destruct t as [x|c|f xs].
    + rewrite clause_indices_var in H. destruct (memv x G') eqn:E.
      * exfalso. cbn [fst] in H. specialize (H pos (or_introl eq_refl)). lia.
      * apply negb_true_iff. destruct (memv x G) eqn:E2; [rewrite (Hsub _ E2) in E; discriminate|reflexivity].
    + exfalso. rewrite clause_indices_const in H. cbn [fst] in H. specialize (H pos (or_introl eq_refl)). lia.
    + exfalso. rewrite clause_indices_fun in H. cbn [fst] in H. specialize (H pos (or_introl eq_refl)). lia.
  - rewrite last_new_cons. cbn [length] in *.
    assert (forall G1 G1', (forall x, memv x G1 = true -> memv x G1' = true) ->
            (forall i, In i (fst (clause_indices G1' (t2 :: rest2) (S pos))) -> S i < pos + S (S (length rest2))) ->
            last_new G1 (t2 :: rest2) = true) as Hrest.
    { intros G1 G1' Hs1 H1. apply (IH G1 G1' (S pos) Hs1); [discriminate|]. intros i Hi. specialize (H1 i Hi). cbn [length]. lia. }
    destruct t as [y|c|f xs].
    + rewrite clause_indices_var in H. destruct (memv y G') eqn:E.
      * cbn [fst] in H. apply (Hrest (y :: G) G').
        -- intros x Hx. rewrite memv_cons in Hx. apply orb_true_iff in Hx as [Hx|Hx]; [apply Nat.eqb_eq in Hx; subst x; exact E|apply Hsub; exact Hx].
        -- intros i Hi. apply H. right. exact Hi.
      * apply (Hrest (y :: G) (y :: G')); [|exact H].
        intros x Hx. rewrite memv_cons in *. apply orb_true_iff in Hx as [Hx|Hx]; [rewrite Hx; reflexivity|rewrite (Hsub _ Hx); apply orb_true_r].
    + rewrite clause_indices_const in H. cbn [fst] in H. apply (Hrest G G' Hsub). intros i Hi. apply H. right. exact Hi.
    + rewrite clause_indices_fun in H. cbn [fst] in H. apply (Hrest G G' Hsub). intros i Hi. apply H. right. exact Hi.
Qed.

Lemma last_not_in_complete vs args : forall pos, args <> [] ->
  (forall i, In i (indices_given args vs pos) -> S i < pos + length args) -> last_not_in vs args = true.
Proof.
  induction args as [|t rest IH]; intros pos Hne H; [contradiction|].
  destruct rest as [|t2 rest2].
  - cbn [last_not_in]. cbn [length indices_given] in H. destruct t as [x|c|f xs].
    + destruct (memv x vs); [exfalso; specialize (H pos (or_introl eq_refl)); lia|reflexivity].
    + exfalso. specialize (H pos (or_introl eq_refl)). lia.
    + exfalso. specialize (H pos (or_introl eq_refl)). lia.
  - rewrite last_not_in_cons. cbn [length] in *. apply (IH (S pos)); [discriminate|]. intros i Hi.
    assert (In i (indices_given (t :: t2 :: rest2) vs pos)) as Hin.
    { destruct t as [y|c|f xs].
      - change (indices_given (TVar y :: t2 :: rest2) vs pos)
          with (if memv y vs then pos :: indices_given (t2 :: rest2) vs (S pos) else indices_given (t2 :: rest2) vs (S pos)).
        destruct (memv y vs); [right|]; exact Hi.
      - right. exact Hi.
      - right. exact Hi. }
    specialize (H i Hin). cbn [length]. lia.
Qed.

Lemma agg_last_free_complete args : forall s,
  (forall i, In i (map fst (filter (fun p : nat * aarg => match snd p with AKey _ => true | _ => false end) (combine (seq s (length args)) args))) ->
             S i < s + length args) -> agg_last_free args = true.
Proof.
  induction args as [|a rest IH]; intros s H; [reflexivity|].
  destruct rest as [|a2 rest2].
  - cbn [agg_last_free]. destruct a; try reflexivity. exfalso. cbn [length seq combine filter snd map fst] in H.
    specialize (H s (or_introl eq_refl)). lia.
  - rewrite agg_last_free_cons. apply (IH (S s)). intros i Hi. cbn [length] in *.
    assert (S i < s + S (S (length rest2))); [|lia]. apply H.
    change (combine (seq s (S (S (length rest2)))) (a :: a2 :: rest2))
      with ((s, a) :: combine (seq (S s) (S (length rest2))) (a2 :: rest2)).
    cbn [filter snd]. destruct a; cbn [map fst]; [exact Hi|exact Hi|right; exact Hi].
Qed.

Section Exact.
Variable fi : cond -> bool.
Variable islat : rel -> bool.
Variable arities : list (rel * nat).
Hypothesis Har : lat_arities_ok islat arities = true.

Lemma lat_arity_pos r n : islat r = true -> arity_ok arities r n = true -> 0 < n.
Proof.
  intros Hl Ha. unfold lat_arities_ok in Har. rewrite forallb_forall in Har. unfold arity_ok in Ha.
  apply existsb_exists in Ha as [[q m] [Hin E]]. cbn [fst snd] in E. apply andb_true_iff in E as [E1 E2].
  apply Nat.eqb_eq in E1, E2. subst. specialize (Har _ Hin). cbn [fst snd] in Har. rewrite Hl in Har. apply Nat.ltb_lt in Har. exact Har.
Qed.

Lemma hir_body_alat_back body : forall G Bf, wf_body arities G body = Some Bf ->
  forallb (alat_item_ok islat) (hir_body G body) = true -> lat_body_ok islat G body = true.
Proof.
  induction body as [|b body IH]; intros G Bf W H; [reflexivity|]. cbn [wf_body] in W.
  destruct (wf_item arities G b) as [B'|] eqn:E; [|discriminate]. pose proof (wf_item_grounds _ _ _ _ E) as HG.
  cbn [hir_body forallb] in H. apply andb_true_iff in H as [H1 H2]. cbn [lat_body_ok]. rewrite HG in *. rewrite (IH _ _ W H2), andb_true_r.
  destruct b as [r args cs|c|x g xs|out a bound r args]; cbn [hir_item alat_item_ok lat_bitem_ok] in *; try reflexivity.
  - destruct (islat r) eqn:Hl; [|reflexivity]. cbn [negb orb] in *.
    cbn [wf_item] in E. destruct (arity_ok arities r (length args)) eqn:A; [|discriminate]. pose proof (lat_arity_pos _ _ Hl A) as Hp.
    apply (last_new_complete args G G 0 (fun x h => h)); [intros ->; cbn in Hp; lia|]. apply cols_ok_In. exact H1.
  - destruct (islat r) eqn:Hl; [|reflexivity]. cbn [negb orb] in *. apply (agg_last_free_complete args 0). apply cols_ok_In. exact H1.
Qed.

Lemma replace_alat_back body : forall G i r1 a1 c1 tl ix, skipn i body = BClause r1 a1 c1 :: tl ->
  fst (clause_indices (fold_left item_grounds (firstn i body) G) a1 0) = [] ->
  forallb (alat_item_ok islat) (replace_idx (hir_body G body) i ix) = true ->
  forallb (alat_item_ok islat) (hir_body G body) = true /\ alat_item_ok islat (PClause r1 a1 c1 ix VTotal) = true.
Proof.
  induction body as [|b body IH]; intros G i r1 a1 c1 tl ix Hs Hix H; [destruct i; discriminate|]. destruct i as [|n].
  - cbn [skipn] in Hs. injection Hs as -> ->. cbn [firstn fold_left] in Hix.
    cbn [hir_body hir_item replace_idx forallb] in *. apply andb_true_iff in H as [H1 H2]. rewrite H2, Hix. split; [|exact H1].
    cbn [alat_item_ok forallb]. rewrite orb_true_r. reflexivity.
  - cbn [skipn] in Hs. cbn [firstn fold_left] in Hix. cbn [hir_body] in *.
    assert (replace_idx (hir_item G b :: hir_body (item_grounds G b) body) (S n) ix
            = hir_item G b :: replace_idx (hir_body (item_grounds G b) body) n ix) as Er by (destruct b; reflexivity).
    rewrite Er in H. cbn [forallb] in *. apply andb_true_iff in H as [H1 H2]. rewrite H1. cbn [andb].
    eapply IH; eassumption.
Qed.

Lemma hir_rule_alat_back r : wf_rule arities r = true ->
  forallb (alat_item_ok islat) (fst (hir_rule fi r)) = true -> wf_lat_rule fi islat r = true.
Proof.
  unfold wf_rule, wf_lat_rule, hir_rule, sj_lat_ok. destruct (wf_body arities [] (body r)) as [Bf|] eqn:W; [|discriminate]. intros _ H.
  destruct (simple_join_start fi (body r)) as [i|] eqn:ES.
  2:{ cbn [fst] in H. rewrite (hir_body_alat_back _ _ _ W H). reflexivity. }
  unfold simple_join_start in ES. destruct (first_clause_ind (body r)) as [i0|]; [|discriminate].
  destruct (skipn i0 (body r)) as [|[r1 a1 c1| | |] [|[r2 a2 c2| | |] rest]] eqn:ESk; try discriminate.
  match type of ES with (if ?c then _ else _) = _ => destruct c eqn:EC end; [|discriminate]. injection ES as <-.
  rewrite ESk in *. cbn [fst] in H. apply andb_true_iff in EC as [EC _]. apply andb_true_iff in EC as [_ Hix].
  destruct (fst (clause_indices (fold_left item_grounds (firstn i0 (body r)) []) a1 0)) eqn:Hix0; [|discriminate].
  destruct (replace_alat_back _ _ _ _ _ _ _ _ ESk Hix0 H) as [Hb Hp].
  rewrite (hir_body_alat_back _ _ _ W Hb). cbn [andb pair_ok]. cbn [alat_item_ok] in Hp.
  destruct (islat r1) eqn:Hl; [|reflexivity]. cbn [negb orb] in *.
  (* the arity of the first clause *)
  assert (a1 <> []) as Hne.
  { assert (In (BClause r1 a1 c1) (body r)) as Hin.
    { rewrite <- (firstn_skipn i0 (body r)), ESk. apply in_or_app. right. left. reflexivity. }
    clear - W Hin Hl Har. revert W. generalize (@nil var). induction (body r) as [|b body IH]; intros B W; [destruct Hin|].
    cbn [wf_body] in W. destruct (wf_item arities B b) as [B'|] eqn:E; [|discriminate]. destruct Hin as [->|Hin]; [|eapply IH; eassumption].
    cbn [wf_item] in E. destruct (arity_ok arities r1 (length a1)) eqn:A; [|discriminate].
    pose proof (lat_arity_pos _ _ Hl A) as Hp. intros ->. cbn in Hp. lia. }
  apply (last_not_in_complete _ _ 0 Hne). apply cols_ok_In. exact Hp.
Qed.
End Exact.

Lemma part_count_exists sccs j : 1 <= part_count sccs j -> exists scc, In scc sccs /\ mem_nat j scc = true.
Proof.
  unfold part_count. induction sccs as [|sc sccs IH]; cbn [filter length]; intros H; [lia|].
  destruct (mem_nat j sc) eqn:E; [exists sc; split; [left; reflexivity|exact E]|].
  destruct (IH H) as (scc & H1 & H2). exists scc. split; [right; exact H1|exact H2].
Qed.

Theorem wf_lat_gen_exact fi islat arities P sccs : wf_core arities P = true -> sccs_ok P sccs = true ->
  alat_plan_ok islat arities (compile_model_gen fi arities P sccs) = true -> wf_lat_gen fi islat arities P = true.
Proof.
  intros Hwf Hok H. unfold alat_plan_ok in H. apply andb_true_iff in H as [H1 H2]. unfold wf_lat_gen.
  change (forallb (fun p => negb (islat (fst p)) || Nat.ltb 0 (snd p)) arities) with (lat_arities_ok islat arities) in H2.
  rewrite H2, andb_true_r. apply forallb_forall. intros r Hr. apply In_nth_error in Hr as [j Hj].
  assert (j < length P) as Hlt by (apply nth_error_Some; congruence).
  pose proof (ok_count P sccs Hok j Hlt) as Hc.
  destruct (part_count_exists sccs j) as (scc & Hs & Hm); [lia|]. unfold mem_nat in Hm. apply existsb_nat_In in Hm.
  destruct (version_combinations_nonempty (count_dynamic (scc_dynamic P scc) (fst (hir_rule fi r)))) as [vs Hvs].
  rewrite forallb_forall in H1. specialize (H1 (compile_scc fi P scc)).
  assert (In (compile_scc fi P scc) (compile_model_gen fi arities P sccs)) as Hin by (unfold compile_model_gen; apply in_map; exact Hs).
  specialize (H1 Hin). rewrite forallb_forall in H1. specialize (H1 (mk_variant fi (scc_dynamic P scc) j r vs)).
  assert (In (mk_variant fi (scc_dynamic P scc) j r vs) (s_vars (compile_scc fi P scc))) as Hv.
  { apply in_s_vars. exists j, r. split; [exact Hm|]. split; [exact Hj|]. apply mir_rules_spec. exists vs. split; [exact Hvs|reflexivity]. }
  specialize (H1 Hv). unfold alat_variant_ok, mk_variant in H1. cbn [v_items] in H1. rewrite alat_items_assign in H1.
  apply (hir_rule_alat_back fi islat arities H2 r (wf_rule_nth arities P Hwf j r Hj) H1).
Qed.

(* ---------- the statements asked for: the planner with the rendering of the fixed vocabulary ---------- *)
Theorem compile_model_lat_plan_ok : forall islat arities P sccs,
  wf_lat islat arities P = true -> no_agg P = true ->
  lat_plan_ok islat arities (compile_model arities P sccs) = true.
Proof. intros islat arities P sccs H Hna. unfold compile_model. apply compile_model_gen_lat_plan_ok; assumption. Qed.

Theorem compile_model_alat_plan_ok : forall islat arities P sccs,
  wf_lat islat arities P = true ->
  alat_plan_ok islat arities (compile_model arities P sccs) = true.
Proof. intros islat arities P sccs H. unfold compile_model. apply compile_model_gen_alat_plan_ok; assumption. Qed.

Theorem compile_model_plan_below : forall N arities P sccs,
  prog_below N P = true -> plan_below N (compile_model arities P sccs) = true.
Proof. intros N arities P sccs H. unfold compile_model. apply compile_model_gen_plan_below; assumption. Qed.

Theorem compile_model_plan_below_N : forall arities P sccs, plan_below (prog_N P) (compile_model arities P sccs) = true.
Proof. intros arities P sccs. apply compile_model_plan_below. apply prog_N_below. Qed.

Theorem wf_lat_of_syn : forall islat arities P, wf_lat_syn islat arities P = true -> wf_lat islat arities P = true.
Proof. intros islat arities P H. unfold wf_lat. apply wf_lat_syn_gen. exact H. Qed.

(* wf_lat is exact *)
Theorem wf_lat_exact : forall islat arities P sccs, wf_core arities P = true -> sccs_ok P sccs = true ->
  alat_plan_ok islat arities (compile_model arities P sccs) = true -> wf_lat islat arities P = true.
Proof. intros islat arities P sccs Hwf Hok H. unfold wf_lat. exact (wf_lat_gen_exact std_free_ident islat arities P sccs Hwf Hok H). Qed.

Print Assumptions compile_model_lat_plan_ok.
Print Assumptions compile_model_alat_plan_ok.
Print Assumptions compile_model_plan_below_N.
Print Assumptions wf_lat_of_syn.
Print Assumptions wf_lat_exact.
