(* What the tie gen/plan_lat.py evaluates (vm_compute) for every real desugared program: the plan computed by the planner
   model in printable form, and the boolean hypotheses / conclusions of Plan/PlanLatProofs.v.  No proofs.
   The core program handed over is the structural SKELETON of the dumped HIR rules: variables, binders and the variables an
   expression mentions are kept, the symbol of a condition is 1 when its expression mentions an identifier that is not a
   rule variable (PlanModel.v free_ident) and 0 otherwise - the planner looks at nothing else. *)
From Coq Require Import List ZArith Bool Arith.
From AV Require Import Engine.Core.
From AV Require Import Engine.Eval.
From AV Require Import Engine.Validate.
From AV Require Import Engine.Naive.
From AV Require Import LatEngine.LatPlan.
From AV Require Import LatEngine.LatAggEval.
From AV Require Import LatEngine.LatAggTrans.
From AV Require Import Plan.PlanModel.
From AV Require Import Plan.PlanWf.
From AV Require Import Plan.PlanShow.
From AV Require Import Plan.PlanLatWf.
Import ListNotations.
Local Open Scope nat_scope.

Definition flag_fi (c : cond) : bool := match c with CIf p _ => Nat.eqb p 1 | CBind _ f _ => Nat.eqb f 1 end.
Definition islat_of (lats : list rel) (r : rel) : bool := existsb (Nat.eqb r) lats.

Definition lat_report (lats : list rel) (arities : list (rel * nat)) (rels : list (rel * nat * bool)) (P : list rule) (sccs : list (list nat)) :=
  let pl := compile_model_gen flag_fi arities P sccs in
  let islat := islat_of lats in
  (show_plan pl, compile_error P sccs, wf_core arities P, sccs_ok P sccs, program_indices flag_fi rels P,
   (wf_lat_gen flag_fi islat arities P, wf_lat_syn islat arities P, no_agg P),
   (validate arities P pl, alat_plan_ok islat arities pl, lat_plan_ok islat arities pl, plan_below (prog_N P) pl)).
