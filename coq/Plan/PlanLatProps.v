(* Statements proposed for Props/C03.v and Props/C04.v: the lattice engine theorems THROUGH THE PLANNER.
   Property-file style: `Theorem .. Proof. exact lemma. Qed.` + vm_compute Examples + Print Assumptions.
   Proofs: Plan/PlanLatProofs.v (the planner model's plan passes the lattice index checks), Plan/PlanProofs.v (it passes the
   validator), Plan/PlanLatMain.v (composition with LatEngine/LatMain.v, LatAggMain.v, LatParMain.v, LatParAggMain.v).

   Reading guide (in addition to the guides of Props/C03.v and Props/C04.v).
   compile_model arities P sccs = the Gallina mirror of the macro's planner (ascent_hir.rs / ascent_mir.rs; Plan/PlanModel.v) on the
   desugared core program P and the SCC partition sccs of its rule dependency graph (the partition is an input: petgraph's
   condensation is not re-implemented); tied to the plan the real macro computes on every check (gen/plan_model.py, and
   gen/plan_lat.py on lattice programs).
   wf_core arities P: relations used with their declared arity, variables bound before use, binders fresh, a new variable occurs
   once among the arguments of the clause that binds it (what the desugaring passes establish).   sccs_ok P sccs: every rule is in
   exactly one SCC, producers of a relation a rule reads are in the same or an earlier SCC, of a relation it aggregates in a
   strictly earlier one.
   wf_lat islat arities P (Plan/PlanLatWf.v), the condition under which the REAL planner never indexes a lattice relation on its
   lattice column (the engine models read an index of a lattice relation through the CURRENT key of a row, LatPlan.lat_plan_ok):
   the last argument of every body clause on a lattice relation is a variable that is new at that point (not bound earlier, not
   an earlier argument of the clause: no constant, no expression, no join on the lattice value), the last argument of an
   aggregated / negated clause on a lattice relation is a wildcard or an aggregated variable, the lattice variable of a lattice
   clause that opens a simple join is not an argument of the second clause, and a lattice relation has at least one column.
   monotone_program already asks for the first part semantically (the lattice variable is the fresh last argument); wf_lat is
   its boolean, planner-relevant core plus the simple-join condition, evaluated on every real desugared program by the tie.
   prog_below N P: every variable of P is below N (prog_N P = 1 + the largest variable is the least such N: prog_N_is_bound). *)
From Coq Require Import List ZArith Bool Arith Permutation.
From AV Require Import Engine.Core Engine.Eval Engine.Validate Engine.Naive Engine.InterfaceAgg Engine.Strat.
From AV Require Import LatEngine.LatSyntax LatEngine.LatEval LatEngine.LatPlan LatEngine.LatSem LatEngine.LatKeys LatEngine.LatMain.
From AV Require Import LatEngine.LatAggEval LatEngine.LatAggTrans LatEngine.LatAggInv LatEngine.LatAggSem LatEngine.LatAggMain.
From AV Require Import LatEngine.LatParModel LatEngine.LatParMain LatEngine.LatParAggModel LatEngine.LatParAggMain.
From AV Require Import LatEngine.LatVocab LatEngine.LatExample.
From AV Require Import Plan.PlanModel Plan.PlanWf Plan.PlanProofs Plan.PlanLatWf Plan.PlanLatProofs Plan.PlanLatMain.
Import ListNotations.

(* ================================================================ for Props/C03.v ================================================================ *)

(* the planner never indexes a lattice relation on its lattice column: the plan computed for a program meeting wf_lat passes the
   lattice index check of the C03 engine model - for EVERY partition handed to the planner (no hypothesis on sccs, none on arities) *)
Theorem c03_planner_lat_plan_ok : forall islat arities P sccs,
  wf_lat islat arities P = true -> no_agg P = true ->
  lat_plan_ok islat arities (compile_model arities P sccs) = true.
Proof. exact compile_model_lat_plan_ok. Qed.

(* least fixed point and one row per key, with the plan COMPUTED: every well-formed monotone lattice program, every ok partition *)
Theorem c03_planner_least_fixed_point :
  forall (V : Type) (I : linterp V) islat lle jm shuffle swap_oracle arities P sccs Rin fuel st,
  veqb_ok I -> (forall r, islat r = true -> lat_laws (lle r) (jm r)) ->
  (forall n l x, In x (shuffle n l) <-> In x l) ->
  arities_functional arities -> no_agg P = true -> monotone_program I islat lle P ->
  wf_core arities P = true -> wf_lat islat arities P = true -> sccs_ok P sccs = true ->
  LatMain.input_ok I islat lle arities Rin ->
  LatEval.run_plan I islat jm shuffle swap_oracle fuel (compile_model arities P sccs) Rin = Some st ->
  let F := dbof (l_rows st) in
  (directed I islat lle F /\ closedH I islat lle P F /\ dble I islat lle (dbof Rin) F /\
   forall J : db, directed I islat lle J -> closedH I islat lle P J -> dble I islat lle (dbof Rin) J -> dble I islat lle F J)
  /\ forall r, islat r = true -> NoDup (map tkey (l_rows st r)).
Proof. exact planner_lat_engine_least_fixed_point. Qed.

(* the same for every run of the parallel model (ascent_par!) of the computed plan *)
Theorem c03_planner_par_least_fixed_point :
  forall (V : Type) (I : linterp V) islat lle jm arities P sccs Rin st,
  veqb_ok I -> (forall r, islat r = true -> lat_laws (lle r) (jm r)) ->
  arities_functional arities -> no_agg P = true -> monotone_program I islat lle P ->
  wf_core arities P = true -> wf_lat islat arities P = true -> sccs_ok P sccs = true ->
  LatMain.input_ok I islat lle arities Rin ->
  par_lat_run_plan I islat jm (compile_model arities P sccs) Rin st ->
  let F := dbof (l_rows st) in
  (directed I islat lle F /\ closedH I islat lle P F /\ dble I islat lle (dbof Rin) F /\
   forall J : db, directed I islat lle J -> closedH I islat lle P J -> dble I islat lle (dbof Rin) J -> dble I islat lle F J)
  /\ forall r, islat r = true -> NoDup (map tkey (l_rows st r)).
Proof. exact planner_par_lat_engine_least_fixed_point. Qed.

(* parallel and serial runs of the computed plan end with the same rows *)
Theorem c03_planner_par_equals_serial :
  forall (V : Type) (I : linterp V) islat lle jm arities P sccs Rin shuffle swap_oracle fuel st_par st_ser,
  veqb_ok I -> (forall r, islat r = true -> lat_laws (lle r) (jm r)) ->
  arities_functional arities -> no_agg P = true -> monotone_program I islat lle P ->
  wf_core arities P = true -> wf_lat islat arities P = true -> sccs_ok P sccs = true ->
  LatMain.input_ok I islat lle arities Rin ->
  (forall n l x, In x (shuffle n l) <-> In x l) ->
  par_lat_run_plan I islat jm (compile_model arities P sccs) Rin st_par ->
  LatEval.run_plan I islat jm shuffle swap_oracle fuel (compile_model arities P sccs) Rin = Some st_ser ->
  (forall r t, In t (l_rows st_par r) <-> In t (l_rows st_ser r))
  /\ (forall r, islat r = true -> Permutation (l_rows st_par r) (l_rows st_ser r)).
Proof. exact planner_par_lat_equals_serial. Qed.

(* the purely syntactic condition (first clause of the body and the clause directly after it, instead of the planner's own
   simple-join test) is sufficient *)
Theorem c03_wf_lat_syntactic : forall islat arities P, wf_lat_syn islat arities P = true -> wf_lat islat arities P = true.
Proof. exact wf_lat_of_syn. Qed.

(* wf_lat is EXACT: on an ok partition the plan computed for a well-formed program passes the index check ONLY IF the program
   meets wf_lat (so the hypothesis cannot be weakened without changing the engine model) *)
Theorem c03_wf_lat_exact : forall islat arities P sccs,
  wf_core arities P = true -> sccs_ok P sccs = true ->
  alat_plan_ok islat arities (compile_model arities P sccs) = true -> wf_lat islat arities P = true.
Proof. exact wf_lat_exact. Qed.

(* non-vacuity: the shortest-path program of LatExample.v meets every hypothesis, the planner model computes exactly the plan the
   real macro dumped for it, and the run of the computed plan is the least fixed point *)
Example c03_planner_example :
  wf_core sp_arities sp_prog = true /\ wf_lat sp_islat sp_arities sp_prog = true /\ sccs_ok sp_prog sp_sccs = true
  /\ compile_model sp_arities sp_prog sp_sccs = sp_plan
  /\ exists st,
       LatEval.run_plan lv_interp sp_islat sp_jm lv_shuffle lv_swap 40 (compile_model sp_arities sp_prog sp_sccs) sp_input = Some st
       /\ length (l_rows st 1%nat) = 25%nat /\ In [0; 4; 4]%Z (l_rows st 1%nat)
       /\ (let F := dbof (l_rows st) in
           directed lv_interp sp_islat sp_lle F /\ closedH lv_interp sp_islat sp_lle sp_prog F
           /\ dble lv_interp sp_islat sp_lle (dbof sp_input) F
           /\ forall J : db, directed lv_interp sp_islat sp_lle J -> closedH lv_interp sp_islat sp_lle sp_prog J ->
                             dble lv_interp sp_islat sp_lle (dbof sp_input) J -> dble lv_interp sp_islat sp_lle F J)
       /\ forall r, sp_islat r = true -> NoDup (map tkey (l_rows st r)).
Proof.
  destruct sp_hyps as (H1 & H2 & _ & H4 & _).
  exact (conj H1 (conj H2 (conj H4 (conj sp_plan_computed sp_planned_run)))).
Qed.

(* the hypothesis is needed: a join on the lattice value makes the planner build an index on the lattice column; the plan is
   accepted by the validator and rejected by the lattice index check *)
Example c03_planner_wf_lat_needed :
  wf_core sp_arities sp_bad_prog = true /\ wf_lat sp_islat sp_arities sp_bad_prog = false
  /\ validate sp_arities sp_bad_prog (compile_model sp_arities sp_bad_prog [[0%nat]]) = true
  /\ lat_plan_ok sp_islat sp_arities (compile_model sp_arities sp_bad_prog [[0%nat]]) = false.
Proof. exact sp_bad. Qed.

(* ================================================================ for Props/C04.v ================================================================ *)

(* the two extra plan hypotheses of the C04-over-lattices theorems, for the computed plan *)
Theorem c04_planner_alat_plan_ok : forall islat arities P sccs,
  wf_lat islat arities P = true -> alat_plan_ok islat arities (compile_model arities P sccs) = true.
Proof. exact compile_model_alat_plan_ok. Qed.

Theorem c04_planner_plan_below : forall N arities P sccs,
  prog_below N P = true -> plan_below N (compile_model arities P sccs) = true.
Proof. exact compile_model_plan_below. Qed.

Theorem c04_prog_N_is_bound : forall P, prog_below (prog_N P) P = true.
Proof. exact prog_N_below. Qed.

(* the stratified lattice model with the plan COMPUTED (serial engine with the MirBodyItem::Agg arm) *)
Theorem c04_planner_lattice_stratified_model :
  forall (V : Type) (I : linterp V) vagg islat lle jm shuffle ashuffle swap_oracle arities P N sccs fuel Rin st,
  veqb_ok I -> (forall a l l', Permutation l l' -> vagg a l = vagg a l') ->
  (forall r, islat r = true -> lat_laws (lle r) (jm r)) ->
  (forall n l x, In x (shuffle n l) <-> In x l) -> (forall n l, Permutation (ashuffle n l) l) ->
  arities_functional arities -> amonotone_program I islat lle N P ->
  wf_core arities P = true -> wf_lat islat arities P = true -> prog_below N P = true -> sccs_ok P sccs = true ->
  ainput_ok I islat lle arities Rin ->
  arun_plan I vagg islat jm shuffle ashuffle swap_oracle fuel (compile_model arities P sccs) Rin = Some st ->
  let strata := plan_strata P (compile_model arities P sccs) in
  stratified strata = true
  /\ (forall r, In r P <-> In r (concat strata))
  /\ strat_lat_model I vagg islat lle strata Rin (l_rows st)
  /\ keys_ok islat (l_rows st) /\ plain_nodup islat (l_rows st).
Proof. exact planner_lat_agg_engine_stratified_model. Qed.

(* ... for every run of the parallel model of the computed plan *)
Theorem c04_planner_par_lattice_stratified_model :
  forall (V : Type) (I : linterp V) vagg islat lle jm arities P N sccs Rin st,
  veqb_ok I -> (forall a l l', Permutation l l' -> vagg a l = vagg a l') ->
  (forall r, islat r = true -> lat_laws (lle r) (jm r)) ->
  arities_functional arities -> amonotone_program I islat lle N P ->
  wf_core arities P = true -> wf_lat islat arities P = true -> prog_below N P = true -> sccs_ok P sccs = true ->
  ainput_ok I islat lle arities Rin ->
  par_lat_agg_run_plan I vagg islat jm (compile_model arities P sccs) Rin st ->
  let strata := plan_strata P (compile_model arities P sccs) in
  stratified strata = true
  /\ (forall r, In r P <-> In r (concat strata))
  /\ strat_lat_model I vagg islat lle strata Rin (l_rows st)
  /\ keys_ok islat (l_rows st) /\ plain_nodup islat (l_rows st).
Proof. exact planner_par_lat_agg_engine_stratified_model. Qed.

(* ... and the strata are the SCCs of the partition handed to the planner *)
Theorem c04_planner_strata_are_sccs : forall arities P sccs, sccs_ok P sccs = true ->
  Forall2 (fun stratum scc => forall r, In r stratum <-> exists j, In j scc /\ nth_error P j = Some r)
          (plan_strata P (compile_model arities P sccs)) sccs.
Proof. exact planner_lat_strata_are_sccs. Qed.

Print Assumptions c03_planner_lat_plan_ok.
Print Assumptions c03_planner_least_fixed_point.
Print Assumptions c03_planner_par_least_fixed_point.
Print Assumptions c03_planner_par_equals_serial.
Print Assumptions c03_wf_lat_syntactic.
Print Assumptions c03_wf_lat_exact.
Print Assumptions c03_planner_example.
Print Assumptions c03_planner_wf_lat_needed.
Print Assumptions c04_planner_alat_plan_ok.
Print Assumptions c04_planner_plan_below.
Print Assumptions c04_prog_N_is_bound.
Print Assumptions c04_planner_lattice_stratified_model.
Print Assumptions c04_planner_par_lattice_stratified_model.
Print Assumptions c04_planner_strata_are_sccs.
