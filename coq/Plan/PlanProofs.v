(* The planner theorem: for every well-formed core program and every ok SCC partition the plan computed by the
   planner model (Plan/PlanModel.v compile_model) is accepted by the proved-sound validator (Engine/Validate.v).
   Components: the semi-naive version vectors cover every Total/Delta assignment with a Delta (covers_combinations),
   the variants of a rule are valid (variant_ok_mir, from Plan/PlanHir.v hir_rule_ok), every SCC is ok
   (scc_ok_compile: dynamic relations = head relations, looping flag, aggregated relations static), the
   stratification conditions are those of the partition (compile_model_gen_valid). *)
From Coq Require Import List ZArith Bool Arith Lia.
From AV Require Import Engine.Core.
From AV Require Import Engine.Eval.
From AV Require Import Engine.Validate.
From AV Require Import Engine.NaiveLemmas.
From AV Require Import Plan.PlanModel.
From AV Require Import Plan.PlanWf.
From AV Require Import Plan.PlanHir.
Import ListNotations.
Local Open Scope nat_scope.

(* ---------- reflexivity of the validator's equalities ---------- *)
Lemma list_eqb_refl {A} (eqb : A -> A -> bool) : (forall a, eqb a a = true) -> forall l, list_eqb eqb l l = true.
Proof. intros H l. induction l as [|a l IH]; [reflexivity|]. cbn [list_eqb]. rewrite H, IH. reflexivity. Qed.
Lemma term_eqb_refl t : term_eqb t t = true.
Proof. destruct t as [x|c|f xs]; cbn [term_eqb]; [apply Nat.eqb_refl|apply Z.eqb_refl|rewrite Nat.eqb_refl, nats_eqb_refl; reflexivity]. Qed.
Lemma cond_eqb_refl c : cond_eqb c c = true.
Proof. destruct c; cbn [cond_eqb]; rewrite ?Nat.eqb_refl, nats_eqb_refl; reflexivity. Qed.
Lemma aarg_eqb_refl a : aarg_eqb a a = true.
Proof. destruct a; cbn [aarg_eqb]; [reflexivity|apply Nat.eqb_refl|apply term_eqb_refl]. Qed.
Lemma bitem_eqb_refl b : bitem_eqb b b = true.
Proof.
  destruct b as [r a c|c|x g xs|out ag bound r a]; cbn [bitem_eqb].
  - rewrite Nat.eqb_refl, (list_eqb_refl _ term_eqb_refl), (list_eqb_refl _ cond_eqb_refl). reflexivity.
  - apply cond_eqb_refl.
  - rewrite !Nat.eqb_refl, nats_eqb_refl. reflexivity.
  - assert (optnat_eqb out out = true) as -> by (destruct out; [apply Nat.eqb_refl|reflexivity]).
    rewrite !Nat.eqb_refl, nats_eqb_refl, (list_eqb_refl _ aarg_eqb_refl). reflexivity.
Qed.
Lemma head_eqb_refl h : head_eqb h h = true.
Proof. unfold head_eqb. rewrite Nat.eqb_refl, (list_eqb_refl _ term_eqb_refl). reflexivity. Qed.

(* ---------- the checks do not look at the versions ---------- *)
Definition erase (p : pitem) : pitem := match p with PClause r a c ix _ => PClause r a c ix VTotal | _ => p end.

Section Erase.
Variable arities : list (rel * nat).
Lemma check_items_erase items : forall B, check_items arities B (map erase items) = check_items arities B items.
Proof.
  induction items as [|p items IH]; intros B; [reflexivity|]. destruct p; cbn [map erase check_items].
  - destruct (check_clause arities B r args cs idx); [apply IH|reflexivity].
  - destruct (check_cond B c); [apply IH|reflexivity].
  - destruct (subv xs B && negb (memv x B)); [apply IH|reflexivity].
  - destruct (check_agg arities B out bound r args idx); [apply IH|reflexivity].
Qed.
Lemma check_sj_erase items B reord : check_simple_join arities B (map erase items) reord = check_simple_join arities B items reord.
Proof.
  destruct items as [|p1 items]; [reflexivity|]. destruct p1; try reflexivity.
  destruct items as [|p2 items]; [reflexivity|]. destruct p2; try reflexivity.
  cbn [map erase check_simple_join].
  destruct (check_clause arities B r args cs []) as [B1|]; [|reflexivity].
  destruct (check_clause arities B1 r0 args0 cs0 idx0) as [B2|]; [|reflexivity].
  match goal with |- (if ?c then _ else _) = _ => destruct c end; [apply check_items_erase|reflexivity].
Qed.
Lemma check_from_erase items : forall B sj reord, check_from arities B (map erase items) sj reord = check_from arities B items sj reord.
Proof.
  induction items as [|p items IH]; intros B sj reord; [destruct sj as [[|n]|]; reflexivity|].
  destruct sj as [[|n]|].
  - change (check_simple_join arities B (map erase (p :: items)) reord = check_simple_join arities B (p :: items) reord). apply check_sj_erase.
  - destruct p; cbn [map erase check_from]; try reflexivity.
    + destruct (check_cond B c); [apply IH|reflexivity].
    + destruct (subv xs B && negb (memv x B)); [apply IH|reflexivity].
    + destruct (check_agg arities B out bound r args idx); [apply IH|reflexivity].
  - rewrite !check_from_none. apply check_items_erase.
Qed.
End Erase.

Lemma erase_assign dyn items : forall vs, map erase (assign_versions dyn items vs) = map erase items.
Proof.
  induction items as [|p items IH]; intros vs; [reflexivity|]. destruct p; cbn [assign_versions]; try (cbn [map]; rewrite IH; reflexivity).
  destruct (is_dyn dyn r); cbn [map erase]; rewrite IH; reflexivity.
Qed.

Lemma item_of_assign dyn items : forall vs, map item_of (assign_versions dyn items vs) = map item_of items.
Proof.
  induction items as [|p items IH]; intros vs; [reflexivity|]. destruct p; cbn [assign_versions]; try (cbn [map]; rewrite IH; reflexivity).
  destruct (is_dyn dyn r); cbn [map item_of]; rewrite IH; reflexivity.
Qed.

Lemma static_total_assign dyn items : forall vs, static_total dyn (assign_versions dyn items vs) = true.
Proof.
  unfold static_total. induction items as [|p items IH]; intros vs; [reflexivity|].
  destruct p; cbn [assign_versions]; try (cbn [forallb]; apply IH).
  destruct (is_dyn dyn r) eqn:E; cbn [forallb]; rewrite E, IH; reflexivity.
Qed.

Lemma dyn_versions_assign dyn items : forall vs, length vs = count_dynamic dyn items ->
  dyn_versions dyn (assign_versions dyn items vs) = vs.
Proof.
  unfold dyn_versions, count_dynamic. induction items as [|p items IH]; intros vs H.
  - destruct vs; [reflexivity|discriminate].
  - destruct p; cbn [assign_versions filter] in *; try (cbn [flat_map app]; apply IH; exact H).
    destruct (is_dyn dyn r) eqn:E; cbn [flat_map]; rewrite E.
    + cbn [length] in H. destruct vs as [|v vs]; [discriminate|]. cbn [hd tl app]. f_equal. apply IH. injection H as H. exact H.
    + cbn [app]. apply IH. exact H.
Qed.

(* number of dynamic clauses as the validator counts them *)
Lemma count_dynamic_body dyn items r : map item_of items = body r ->
  count_dynamic dyn items = length (filter (is_dyn dyn) (body_clause_rels r)).
Proof.
  unfold count_dynamic, body_clause_rels. intros <-. induction items as [|p items IH]; [reflexivity|].
  destruct p; cbn [map item_of flat_map filter app]; try exact IH.
  destruct (is_dyn dyn r0); cbn [length]; rewrite IH; reflexivity.
Qed.

(* ---------- versions_base covers every assignment with a Delta ---------- *)
Lemma versions_base_length n : forall w, In w (versions_base n) -> length w = n.
Proof.
  induction n as [|k IH]; intros w H; [destruct H|]. cbn [versions_base] in H. apply in_app_or in H as [H|H].
  - apply in_map_iff in H as [w' [<- H]]. rewrite app_length, (IH _ H). cbn [length]. lia.
  - destruct H as [<-|[]]. rewrite app_length, repeat_length. cbn [length]. lia.
Qed.

Lemma version_combinations_length n w : In w (version_combinations n) -> length w = n.
Proof. destruct n; [intros [<-|[]]; reflexivity|apply versions_base_length]. Qed.

Lemma admits_app w : forall a w2 a2, length w = length a -> admits (w ++ w2) (a ++ a2) = admits w a && admits w2 a2.
Proof.
  induction w as [|v w IH]; intros a w2 a2 H; destruct a as [|b a]; try discriminate; [reflexivity|].
  cbn [app admits]. rewrite IH by (injection H as H; exact H). rewrite andb_assoc. reflexivity.
Qed.

Lemma admits_all_total a : has_delta a = false -> admits (repeat VTotal (length a)) a = true.
Proof.
  unfold has_delta. induction a as [|b a IH]; intros H; [reflexivity|]. cbn [existsb] in H. apply orb_false_iff in H as [-> H].
  cbn [length repeat admits negb andb]. apply IH. exact H.
Qed.

Lemma admits_exists n : forall a, length a = n -> has_delta a = true ->
  exists w, In w (versions_base n) /\ admits w a = true.
Proof.
  induction n as [|k IH]; intros a Hl Hd.
  - destruct a; [discriminate|discriminate].
  - destruct (exists_last (l := a)) as (a' & b & ->); [intros ->; discriminate|].
    rewrite app_length in Hl. cbn [length] in Hl. assert (length a' = k) as Hl' by lia.
    unfold has_delta in Hd. rewrite existsb_app in Hd. cbn [existsb] in Hd. rewrite orb_false_r in Hd.
    destruct (existsb (fun b => b) a') eqn:E.
    + destruct (IH a' Hl' E) as (w & Hw & Ha). exists (w ++ [VTotalDelta]). split.
      * cbn [versions_base]. apply in_or_app. left. apply in_map_iff. exists w. split; [reflexivity|exact Hw].
      * rewrite admits_app by (rewrite (versions_base_length _ _ Hw); symmetry; exact Hl'). rewrite Ha. reflexivity.
    + cbn [orb] in Hd. subst b. exists (repeat VTotal k ++ [VDelta]). split.
      * cbn [versions_base]. apply in_or_app. right. left. reflexivity.
      * rewrite admits_app by (rewrite repeat_length; symmetry; exact Hl'). rewrite <- Hl', (admits_all_total a' E). reflexivity.
Qed.

Lemma assignments_length n : forall a, In a (assignments n) -> length a = n.
Proof.
  induction n as [|k IH]; intros a H; [destruct H as [<-|[]]; reflexivity|].
  cbn [assignments] in H. apply in_flat_map in H as [a' [H1 H2]]. destruct H2 as [<-|[<-|[]]]; cbn [length]; rewrite (IH _ H1); reflexivity.
Qed.

Lemma covers_combinations n ws : (forall w, In w (version_combinations n) -> In w ws) -> covers n ws = true.
Proof.
  intros H. destruct n as [|k].
  - cbn [covers]. destruct ws; [exfalso; apply (H []); left; reflexivity|reflexivity].
  - unfold covers. apply forallb_forall. intros a Ha. destruct (has_delta a) eqn:E; [|reflexivity]. cbn [negb orb].
    destruct (admits_exists (S k) a (assignments_length _ _ Ha) E) as (w & Hw & Hadm).
    apply existsb_exists. exists w. split; [apply H; exact Hw|exact Hadm].
Qed.

Lemma version_combinations_nonempty n : exists w, In w (version_combinations n).
Proof.
  destruct n as [|k]; [exists []; left; reflexivity|]. exists (repeat VTotal k ++ [VDelta]).
  cbn [version_combinations versions_base]. apply in_or_app. right. left. reflexivity.
Qed.

Lemma rule_at_some P j r : nth_error P j = Some r -> rule_at P j = [r].
Proof. unfold rule_at. intros ->. reflexivity. Qed.

Lemma rule_at_in P j r : In r (rule_at P j) <-> nth_error P j = Some r.
Proof. unfold rule_at. destruct (nth_error P j) as [r'|]; cbn [In]; split; intros H; try discriminate; try tauto.
  - destruct H as [->|[]]. reflexivity.
  - injection H as ->. left. reflexivity.
Qed.

(* ---------- the partition ---------- *)
Lemma part_count_pos sccs : forall scc j, In scc sccs -> mem_nat j scc = true -> 1 <= part_count sccs j.
Proof.
  unfold part_count. induction sccs as [|sc sccs IH]; intros scc j Hin Hm; [destruct Hin|].
  cbn [filter]. destruct Hin as [->|Hin].
  - rewrite Hm. cbn [length]. lia.
  - pose proof (IH _ _ Hin Hm). destruct (mem_nat j sc); cbn [length]; lia.
Qed.

Lemma same_scc_index sccs : forall k scc j j', In scc sccs -> mem_nat j scc = true -> mem_nat j' scc = true ->
  part_count sccs j = 1 -> part_count sccs j' = 1 -> part_index sccs j k = part_index sccs j' k.
Proof.
  induction sccs as [|sc sccs IH]; intros k scc j j' Hin Hj Hj' Hc Hc'; [destruct Hin|].
  cbn [part_index]. unfold part_count in Hc, Hc'. cbn [filter] in Hc, Hc'.
  destruct (mem_nat j sc) eqn:E, (mem_nat j' sc) eqn:E'.
  - reflexivity.
  - exfalso. destruct Hin as [->|Hin]; [rewrite E' in Hj'; discriminate|].
    pose proof (part_count_pos _ _ _ Hin Hj) as H1. unfold part_count in H1. cbn [length] in Hc. lia.
  - exfalso. destruct Hin as [->|Hin]; [rewrite E in Hj; discriminate|].
    pose proof (part_count_pos _ _ _ Hin Hj') as H1. unfold part_count in H1. cbn [length] in Hc'. lia.
  - destruct Hin as [->|Hin]; [rewrite E in Hj; discriminate|]. eapply IH; eassumption.
Qed.

Section Main.
Variable arities : list (rel * nat).
Variable fi : cond -> bool.
Variable P : list rule.
Hypothesis Hwf : wf_core arities P = true.

Lemma wf_rule_nth j r : nth_error P j = Some r -> wf_rule arities r = true.
Proof. intros H. unfold wf_core in Hwf. rewrite forallb_forall in Hwf. apply Hwf. eapply nth_error_In. exact H. Qed.

Definition mk_variant (dyn : list rel) (j : nat) (r : rule) (vs : list version) : variant :=
  {| v_rule := j; v_heads := heads r; v_items := assign_versions dyn (fst (hir_rule fi r)) vs;
     v_sj := snd (hir_rule fi r); v_reord := reorderable (fst (hir_rule fi r)) (snd (hir_rule fi r)) |}.

Lemma mir_rules_spec dyn j r v : In v (mir_rules fi dyn j r) <->
  exists vs, In vs (version_combinations (count_dynamic dyn (fst (hir_rule fi r)))) /\ v = mk_variant dyn j r vs.
Proof.
  unfold mir_rules, mk_variant. destruct (hir_rule fi r) as [items sj]. cbn [fst snd]. rewrite in_map_iff.
  split; intros (vs & H1 & H2); exists vs; [split; [exact H2|symmetry; exact H1]|split; [symmetry; exact H2|exact H1]].
Qed.

Lemma variant_ok_mir dyn j r v : nth_error P j = Some r -> In v (mir_rules fi dyn j r) -> variant_ok arities P dyn v = true.
Proof.
  intros Hn Hv. apply mir_rules_spec in Hv as (vs & Hvs & ->).
  destruct (hir_rule_ok arities fi r (wf_rule_nth _ _ Hn)) as (Bf & H1 & H2 & H3).
  unfold variant_ok, rule_of_variant, mk_variant. cbn [v_rule v_heads v_items v_sj v_reord]. rewrite Hn.
  rewrite item_of_assign, H3, (list_eqb_refl _ bitem_eqb_refl), (list_eqb_refl _ head_eqb_refl), static_total_assign.
  rewrite <- check_from_erase, erase_assign, check_from_erase, H1. cbn [andb]. exact H2.
Qed.

Section Scc.
Variable sccs : list (list nat).
Hypothesis Hok : sccs_ok P sccs = true.

Lemma ok_range scc j : In scc sccs -> In j scc -> j < length P.
Proof.
  intros H1 H2. unfold sccs_ok in Hok. apply andb_true_iff in Hok as [H _]. apply andb_true_iff in H as [H _].
  rewrite forallb_forall in H. specialize (H _ H1). rewrite forallb_forall in H. apply Nat.ltb_lt. apply H. exact H2.
Qed.

Lemma ok_nth scc j : In scc sccs -> In j scc -> exists r, nth_error P j = Some r.
Proof.
  intros H1 H2. pose proof (ok_range _ _ H1 H2) as H. destruct (nth_error P j) as [r|] eqn:E; [exists r; reflexivity|].
  apply nth_error_None in E. lia.
Qed.

Lemma ok_count j : j < length P -> part_count sccs j = 1.
Proof.
  intros H. unfold sccs_ok in Hok. apply andb_true_iff in Hok as [H1 _]. apply andb_true_iff in H1 as [_ H1].
  rewrite forallb_forall in H1. apply Nat.eqb_eq. apply H1. apply in_seq. lia.
Qed.

Lemma in_s_vars scc v : In v (s_vars (compile_scc fi P scc)) <->
  exists j r, In j scc /\ nth_error P j = Some r /\ In v (mir_rules fi (scc_dynamic P scc) j r).
Proof.
  unfold compile_scc. cbn [s_vars]. rewrite in_flat_map. split.
  - intros (j & Hj & H). apply in_flat_map in H as (r & Hr & H). apply rule_at_in in Hr. exists j, r. auto.
  - intros (j & r & Hj & Hr & H). exists j. split; [exact Hj|]. apply in_flat_map. exists r. split; [apply rule_at_in; exact Hr|exact H].
Qed.

Lemma rules_of_compile scc j : In scc sccs -> (In j (rules_of_scc (compile_scc fi P scc)) <-> In j scc).
Proof.
  intros Hs. unfold rules_of_scc. rewrite dedup_nat_In, in_map_iff. split.
  - intros (v & H1 & H2). apply in_s_vars in H2 as (j' & r & Hj & Hr & Hv). apply mir_rules_spec in Hv as (vs & _ & ->).
    cbn [mk_variant v_rule] in H1. subst j'. exact Hj.
  - intros Hj. destruct (ok_nth _ _ Hs Hj) as [r Hr].
    destruct (version_combinations_nonempty (count_dynamic (scc_dynamic P scc) (fst (hir_rule fi r)))) as [vs Hvs].
    exists (mk_variant (scc_dynamic P scc) j r vs). split; [reflexivity|]. apply in_s_vars. exists j, r.
    split; [exact Hj|]. split; [exact Hr|]. apply mir_rules_spec. exists vs. split; [exact Hvs|reflexivity].
Qed.

Lemma in_dynamic scc q : In q (scc_dynamic P scc) <-> exists j r, In j scc /\ nth_error P j = Some r /\ In q (head_rels r).
Proof.
  unfold scc_dynamic. rewrite dedup_nat_In, in_flat_map. split.
  - intros (j & Hj & H). apply in_flat_map in H as (r & Hr & H). apply rule_at_in in Hr. exists j, r. auto.
  - intros (j & r & Hj & Hr & H). exists j. split; [exact Hj|]. apply in_flat_map. exists r. split; [apply rule_at_in; exact Hr|exact H].
Qed.

Lemma in_head_rels scc q : In scc sccs ->
  (In q (scc_head_rels P (compile_scc fi P scc)) <-> In q (scc_dynamic P scc)).
Proof.
  intros Hs. unfold scc_head_rels. rewrite in_flat_map, in_dynamic. split.
  - intros (j & Hj & H). apply (rules_of_compile _ _ Hs) in Hj. destruct (nth_error P j) as [r|] eqn:E; [|destruct H]. exists j, r. auto.
  - intros (j & r & Hj & Hr & H). exists j. split; [apply (rules_of_compile _ _ Hs); exact Hj|]. rewrite Hr. exact H.
Qed.

(* aggregated relations of a rule are not produced in its own SCC *)
Lemma agg_static scc j r q : In scc sccs -> In j scc -> nth_error P j = Some r -> In q (body_agg_rels r) ->
  is_dyn (scc_dynamic P scc) q = false.
Proof.
  intros Hs Hj Hr Hq. destruct (is_dyn (scc_dynamic P scc) q) eqn:E; [exfalso|reflexivity].
  unfold is_dyn in E. apply existsb_nat_In in E. apply in_dynamic in E as (j' & r' & Hj' & Hr' & Hq').
  pose proof (ok_range _ _ Hs Hj) as Lj. pose proof (ok_range _ _ Hs Hj') as Lj'.
  assert (part_index sccs j 0 = part_index sccs j' 0) as HI.
  { eapply same_scc_index; [exact Hs| | |apply ok_count; exact Lj|apply ok_count; exact Lj']; unfold mem_nat; apply existsb_nat_In; assumption. }
  unfold sccs_ok in Hok. apply andb_true_iff in Hok as [_ H3]. rewrite forallb_forall in H3.
  specialize (H3 j). rewrite Hr in H3. assert (In j (seq 0 (length P))) as Sj by (apply in_seq; lia). specialize (H3 Sj).
  destruct (part_index sccs j 0) as [k|] eqn:Ek; [|discriminate]. rewrite forallb_forall in H3.
  assert (In j' (seq 0 (length P))) as Sj' by (apply in_seq; lia). specialize (H3 j' Sj'). rewrite Hr', <- HI in H3.
  apply andb_true_iff in H3 as [_ H3]. apply orb_true_iff in H3 as [H3|H3]; [|apply Nat.ltb_lt in H3; lia].
  apply negb_true_iff in H3. assert (existsb (fun q0 => existsb (Nat.eqb q0) (head_rels r')) (body_agg_rels r) = true) as H4.
  { apply existsb_exists. exists q. split; [exact Hq|]. apply existsb_nat_In. exact Hq'. }
  rewrite H3 in H4. discriminate.
Qed.

Lemma scc_ok_compile scc : In scc sccs -> scc_ok arities P (compile_scc fi P scc) = true.
Proof.
  intros Hs. unfold scc_ok. set (sc := compile_scc fi P scc). set (dyn := scc_dynamic P scc).
  assert (s_dyn sc = dyn) as Hd by reflexivity. rewrite Hd.
  apply andb_true_iff. split; [apply andb_true_iff; split; [apply andb_true_iff; split|]|].
  - apply forallb_forall. intros v Hv. apply in_s_vars in Hv as (j & r & Hj & Hr & Hv). eapply variant_ok_mir; eassumption.
  - apply forallb_forall. intros q Hq. unfold is_dyn. apply existsb_nat_In. apply (in_head_rels _ _ Hs). exact Hq.
  - apply forallb_forall. intros q Hq. apply existsb_nat_In. apply (in_head_rels _ _ Hs). exact Hq.
  - apply forallb_forall. intros j Hj. apply (rules_of_compile _ _ Hs) in Hj. destruct (ok_nth _ _ Hs Hj) as [r Hr]. rewrite Hr.
    destruct (hir_rule_ok arities fi r (wf_rule_nth _ _ Hr)) as (Bf & _ & _ & H3).
    pose proof (count_dynamic_body dyn _ r H3) as Hc.
    apply andb_true_iff. split; [apply andb_true_iff; split|].
    + apply covers_combinations. intros w Hw. rewrite <- Hc in Hw. apply in_map_iff.
      exists (mk_variant dyn j r w). split.
      * cbn [mk_variant v_items]. apply dyn_versions_assign. apply version_combinations_length in Hw. exact Hw.
      * apply filter_In. split; [|cbn [mk_variant v_rule]; apply Nat.eqb_refl].
        apply in_s_vars. exists j, r. split; [exact Hj|]. split; [exact Hr|]. apply mir_rules_spec. exists w. split; [exact Hw|reflexivity].
    + destruct (filter (is_dyn dyn) (body_clause_rels r)) as [|q l] eqn:EF; [apply orb_true_r|].
      assert (In q (filter (is_dyn dyn) (body_clause_rels r))) as Hq by (rewrite EF; left; reflexivity).
      apply filter_In in Hq as [Hq1 Hq2]. apply orb_true_iff. left. change (s_loop sc) with (scc_looping P scc).
      unfold scc_looping. apply existsb_exists. exists q. split; [unfold is_dyn in Hq2; apply existsb_nat_In in Hq2; exact Hq2|].
      apply existsb_nat_In. unfold scc_body_rels. apply in_flat_map. exists j. split; [exact Hj|].
      rewrite (rule_at_some _ _ _ Hr). cbn [flat_map]. rewrite app_nil_r. apply in_or_app. left. exact Hq1.
    + apply forallb_forall. intros q Hq. pose proof (agg_static _ _ _ _ Hs Hj Hr Hq) as Ha. fold dyn in Ha. rewrite Ha. reflexivity.
Qed.

Lemma mem_rules_compile scc j : In scc sccs -> existsb (Nat.eqb j) (rules_of_scc (compile_scc fi P scc)) = mem_nat j scc.
Proof.
  intros Hs. unfold mem_nat. destruct (existsb (Nat.eqb j) scc) eqn:E.
  - apply existsb_nat_In. apply (rules_of_compile _ _ Hs). apply existsb_nat_In. exact E.
  - destruct (existsb (Nat.eqb j) (rules_of_scc (compile_scc fi P scc))) eqn:E2; [|reflexivity].
    apply existsb_nat_In in E2. apply (rules_of_compile _ _ Hs) in E2. apply existsb_nat_In in E2. rewrite E2 in E. discriminate.
Qed.
End Scc.
End Main.

Section Final.
Variable arities : list (rel * nat).
Variable fi : cond -> bool.
Variable P : list rule.
Variable sccs : list (list nat).
Hypothesis Hwf : wf_core arities P = true.
Hypothesis Hok : sccs_ok P sccs = true.

Lemma count_compile j l : incl l sccs -> count_sccs_with (map (compile_scc fi P) l) j = part_count l j.
Proof.
  unfold count_sccs_with, part_count. induction l as [|sc l IH]; intros Hi; [reflexivity|].
  cbn [map filter]. rewrite (mem_rules_compile fi P sccs Hok sc j) by (apply Hi; left; reflexivity).
  assert (incl l sccs) as Hi' by (intros x Hx; apply Hi; right; exact Hx).
  destruct (mem_nat j sc); cbn [length]; rewrite (IH Hi'); reflexivity.
Qed.

Lemma index_compile j l : forall k, incl l sccs -> scc_index (map (compile_scc fi P) l) j k = part_index l j k.
Proof.
  induction l as [|sc l IH]; intros k Hi; [reflexivity|].
  cbn [map scc_index part_index]. rewrite (mem_rules_compile fi P sccs Hok sc j) by (apply Hi; left; reflexivity).
  destruct (mem_nat j sc); [reflexivity|]. apply IH. intros x Hx. apply Hi. right. exact Hx.
Qed.

Theorem compile_model_gen_valid : validate arities P (compile_model_gen fi arities P sccs) = true.
Proof.
  unfold validate, compile_model_gen. apply andb_true_iff. split.
  - apply forallb_forall. intros sc Hsc. apply in_map_iff in Hsc as (scc & <- & Hs). apply (scc_ok_compile arities fi P Hwf sccs Hok scc Hs).
  - pose proof Hok as H. unfold sccs_ok in H. apply andb_true_iff in H as [H H3]. apply andb_true_iff in H as [_ H2].
    rewrite forallb_forall in H2, H3. unfold strat_ok. apply andb_true_iff. split.
    + apply forallb_forall. intros j Hj. rewrite count_compile by apply incl_refl. apply H2. exact Hj.
    + apply forallb_forall. intros j Hj. specialize (H3 j Hj). rewrite index_compile by apply incl_refl.
      destruct (nth_error P j) as [r|]; [|exact H3]. destruct (part_index sccs j 0) as [k|]; [|exact H3].
      rewrite forallb_forall in H3. apply forallb_forall. intros j' Hj'. specialize (H3 j' Hj').
      rewrite index_compile by apply incl_refl. exact H3.
Qed.

(* on an ok partition the planner does not report "cannot be stratified" *)
Lemma compile_no_error : compile_error P sccs = false.
Proof.
  destruct (compile_error P sccs) eqn:E; [exfalso|reflexivity]. unfold compile_error in E.
  apply existsb_exists in E as (scc & Hs & E). unfold scc_agg_error in E. apply existsb_exists in E as (j & Hj & E).
  apply existsb_exists in E as (r & Hr & E). apply existsb_exists in E as (q & Hq & E). apply rule_at_in in Hr.
  rewrite (agg_static P sccs Hok scc j r q Hs Hj Hr Hq) in E. discriminate.
Qed.
End Final.

(* every index a plan item reads is among the indices generated for its relation *)
Lemma item_index_assign dyn items : forall vs, flat_map item_index (assign_versions dyn items vs) = flat_map item_index items.
Proof.
  induction items as [|p items IH]; intros vs; [reflexivity|]. destruct p; cbn [assign_versions]; try (cbn [flat_map]; rewrite IH; reflexivity).
  destruct (is_dyn dyn r); cbn [flat_map item_index]; rewrite IH; reflexivity.
Qed.

Theorem plan_indices_declared : forall fi arities rels P sccs sc v p q ix,
  In sc (compile_model_gen fi arities P sccs) -> In v (s_vars sc) -> In p (v_items v) -> In (q, ix) (item_index p) ->
  In (q, ix) (program_indices fi rels P).
Proof.
  intros fi arities rels P sccs sc v p q ix Hsc Hv Hp Hq. unfold compile_model_gen in Hsc.
  apply in_map_iff in Hsc as (scc & <- & _). apply in_s_vars in Hv as (j & r & _ & Hr & Hv).
  apply mir_rules_spec in Hv as (vs & _ & ->). cbn [mk_variant v_items] in Hp.
  unfold program_indices. apply in_or_app. right. apply in_flat_map. exists r. split; [eapply nth_error_In; exact Hr|].
  unfold rule_indices. rewrite <- (item_index_assign (scc_dynamic P scc) _ vs). apply in_flat_map. exists p. split; assumption.
Qed.

(* ---------- the statement asked for: the planner with the rendering of the fixed vocabulary ---------- *)
Theorem compile_model_valid : forall arities P sccs,
  wf_core arities P = true -> sccs_ok P sccs = true -> validate arities P (compile_model arities P sccs) = true.
Proof. intros arities P sccs Hwf Hok. unfold compile_model. apply compile_model_gen_valid; assumption. Qed.

Theorem compile_model_no_error : forall P sccs, sccs_ok P sccs = true -> compile_error P sccs = false.
Proof. intros P sccs Hok. apply compile_no_error. exact Hok. Qed.

(* ---------- a non-trivial program meets the hypotheses ---------- *)
(* relations: 0 edge/2, 1 path/2, 2 cnt/1
     0: path(x, y) <-- edge(x, y)
     1: path(x, z) <-- path(x, y), edge(y, z)
     2: path(x, z) <-- let k = 0, path(x, y), path(y, z) if y < z
     3: cnt(n)     <-- edge(x, _), agg n = count() in path(x, _) *)
Definition ex_arities : list (rel * nat) := [(0, 2); (1, 2); (2, 1)].
Definition ex_prog : list rule :=
  [ {| heads := [(1, [TVar 0; TVar 1])]; body := [BClause 0 [TVar 0; TVar 1] []] |};
    {| heads := [(1, [TVar 0; TVar 2])]; body := [BClause 1 [TVar 0; TVar 1] []; BClause 0 [TVar 1; TVar 2] []] |};
    {| heads := [(1, [TVar 0; TVar 2])];
       body := [BCond (CBind 9 200 []); BClause 1 [TVar 0; TVar 1] []; BClause 1 [TVar 1; TVar 2] [CIf 0 [1; 2]]] |};
    {| heads := [(2, [TVar 2])];
       body := [BClause 0 [TVar 0; TVar 1] []; BAgg (Some 2) 0 [] 1 [AKey (TVar 0); AWild]] |} ].
Definition ex_sccs : list (list nat) := [[0]; [1; 2]; [3]].

Example ex_wf : wf_core ex_arities ex_prog = true.
Proof. vm_compute. reflexivity. Qed.
Example ex_sccs_ok : sccs_ok ex_prog ex_sccs = true.
Proof. vm_compute. reflexivity. Qed.
(* variants per SCC: 1; 1 (one dynamic clause) + 2 (two dynamic clauses); 1 *)
Example ex_variants : map (fun sc => (length (s_vars sc), s_dyn sc, s_loop sc)) (compile_model ex_arities ex_prog ex_sccs)
  = [(1, [1], false); (3, [1], true); (1, [2], false)].
Proof. vm_compute. reflexivity. Qed.
(* rule 2: simple join starting at item 1, reorderable, first clause re-indexed by the join column *)
Example ex_rule2 : hir_rule std_free_ident (nth 2 ex_prog (nth 0 ex_prog (nth 0 ex_prog {| heads := []; body := [] |})))
  = ([PCond (CBind 9 200 []); PClause 1 [TVar 0; TVar 1] [] [1] VTotal; PClause 1 [TVar 1; TVar 2] [CIf 0 [1; 2]] [0] VTotal], Some 1).
Proof. vm_compute. reflexivity. Qed.
Example ex_valid : validate ex_arities ex_prog (compile_model ex_arities ex_prog ex_sccs) = true.
Proof. exact (compile_model_valid _ _ _ ex_wf ex_sccs_ok). Qed.
(* the hypothesis on the partition is needed: evaluating the aggregate before its relation is complete is rejected *)
Example ex_bad_partition : sccs_ok ex_prog [[0]; [3]; [1; 2]] = false
  /\ validate ex_arities ex_prog (compile_model ex_arities ex_prog [[0]; [3]; [1; 2]]) = false.
Proof. split; vm_compute; reflexivity. Qed.

Print Assumptions compile_model_valid.
Print Assumptions plan_indices_declared.
