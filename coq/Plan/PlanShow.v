(* Printable summary of a plan, used by the tie gen/plan_model.py: nested lists / tuples of
   naturals that gen/lib.py coq_parse reads.  No proofs. *)
From Coq Require Import List ZArith Bool Arith.
From AV Require Import Engine.Core.
From AV Require Import Engine.Eval.
From AV Require Import Plan.PlanModel.
Import ListNotations.
Local Open Scope nat_scope.

Definition show_version (v : version) : nat := match v with VTotal => 0 | VDelta => 1 | VTotalDelta => 2 end.

(* (kind, relation, index columns, version): kind 0 clause, 1 cond, 2 generator, 3 aggregate *)
Definition show_item (p : pitem) : nat * nat * list nat * nat :=
  match p with
  | PClause r _ _ ix v => (0, r, ix, show_version v)
  | PCond _ => (1, 0, [], 0)
  | PGen _ _ _ => (2, 0, [], 0)
  | PAgg _ _ _ r _ ix => (3, r, ix, 0)
  end.

(* (rule, simple join start + 1 or 0, reorderable, items) *)
Definition show_variant (v : variant) : nat * nat * bool * list (nat * nat * list nat * nat) :=
  (v_rule v, match v_sj v with Some i => S i | None => 0 end, v_reord v, map show_item (v_items v)).

Definition show_scc (sc : pscc) := (map show_variant (s_vars sc), s_dyn sc, s_loop sc).
Definition show_plan (pl : plan) := map show_scc pl.
