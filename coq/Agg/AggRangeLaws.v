(* C17, value range: proofs about Agg/AggRange.v (see the header there). *)
From Coq Require Import List ZArith Bool Lia Permutation.
From AV Require Import Agg.AggModel.
From AV Require Import Agg.AggLaws.
From AV Require Import Agg.AggRange.
Import ListNotations.
Open Scope Z_scope.
Arguments Z.add : simpl never.
Arguments Z.mul : simpl never.
Arguments Z.sub : simpl never.
Arguments Z.modulo : simpl never.
Arguments Z.pow : simpl never.

Definition ty_ok (t : ity) : Prop := 0 < bits t.

Lemma ty_span t : ty_ok t -> ty_max t - ty_min t + 1 = 2 ^ bits t /\ 0 < 2 ^ bits t /\ ty_min t <= 0 <= ty_max t.
Proof.
  unfold ty_ok, ty_max, ty_min; intros H.
  assert (E : 2 ^ bits t = 2 * 2 ^ (bits t - 1)) by (rewrite <- Z.pow_succ_r by lia; f_equal; lia).
  assert (P : 0 < 2 ^ (bits t - 1)) by (apply Z.pow_pos_nonneg; lia).
  destruct (signed t); lia.
Qed.

Lemma in_rangeb_spec t x : reflect (in_range t x) (in_rangeb t x).
Proof.
  unfold in_range, in_rangeb. destruct (Z.leb (ty_min t) x) eqn:A, (Z.leb x (ty_max t)) eqn:B; constructor;
  rewrite ?Z.leb_le, ?Z.leb_gt in A, B; lia.
Qed.

(* ---------- wrap ---------- *)
Lemma wrap_in_range t x : ty_ok t -> in_range t (wrap t x).
Proof.
  intros H. destruct (ty_span t H) as (S & P & _). unfold wrap, in_range.
  pose proof (Z.mod_pos_bound (x - ty_min t) (2 ^ bits t) P). lia.
Qed.
Lemma wrap_id t x : ty_ok t -> in_range t x -> wrap t x = x.
Proof.
  intros H R. destruct (ty_span t H) as (S & P & _). unfold wrap, in_range in *. rewrite Z.mod_small; lia.
Qed.
Lemma wrap_eq_iff t x : ty_ok t -> (wrap t x = x <-> in_range t x).
Proof. intros H; split; [intros E; rewrite <- E; exact (wrap_in_range t x H) | exact (wrap_id t x H)]. Qed.
Lemma wrap_add_l t a x : ty_ok t -> wrap t (wrap t a + x) = wrap t (a + x).
Proof.
  intros H. destruct (ty_span t H) as (_ & P & _). unfold wrap. f_equal.
  replace ((a - ty_min t) mod 2 ^ bits t + ty_min t + x - ty_min t) with ((a - ty_min t) mod 2 ^ bits t + x) by lia.
  rewrite Zplus_mod_idemp_l. f_equal; lia.
Qed.

(* ---------- sum with overflow checks off = the total, wrapped once ---------- *)
Lemma sum_wrapped_acc t l : ty_ok t -> forall a,
  fold_left (fun a x => wrap t (a + x)) l (wrap t a) = wrap t (a + zsum l).
Proof.
  intros H. induction l as [|x xs IH]; intros a; cbn [fold_left zsum fold_right].
  - f_equal; lia.
  - rewrite wrap_add_l by exact H. rewrite IH. fold (zsum xs). f_equal; lia.
Qed.
Lemma sum_wrapped_spec t l : ty_ok t -> sum_wrapped t l = wrap t (zsum l).
Proof.
  intros H. unfold sum_wrapped. destruct (ty_span t H) as (_ & _ & Z0).
  rewrite <- (wrap_id t 0 H) at 1 by exact Z0. rewrite sum_wrapped_acc by exact H. f_equal.
Qed.
Lemma agg_sum_wrapped_spec t l : ty_ok t -> agg_sum_wrapped t l = [wrap t (zsum l)].
Proof. intros H. unfold agg_sum_wrapped. rewrite sum_wrapped_spec by exact H. reflexivity. Qed.
(* checks off: the model's sum exactly when the TOTAL is a value of N (intermediate wraps cancel) *)
Lemma agg_sum_wrapped_ok_iff t l : ty_ok t -> (agg_sum_wrapped t l = agg_sum l <-> in_range t (zsum l)).
Proof.
  intros H. rewrite agg_sum_wrapped_spec by exact H. rewrite agg_sum_spec. rewrite <- (wrap_eq_iff t (zsum l) H).
  split; [intros E; injection E; auto | intros ->; reflexivity].
Qed.

(* ---------- sum with overflow checks on ---------- *)
Lemma sum_checked_ok t l : forall a, prefixes_in_range t l a -> sum_checked t l a = Ok (a + zsum l).
Proof.
  induction l as [|x xs IH]; intros a P; cbn [sum_checked zsum fold_right].
  - f_equal; lia.
  - destruct P as (R & P). destruct (in_rangeb_spec t (a + x)) as [_|N]; [|contradiction].
    rewrite (IH _ P). fold (zsum xs). f_equal; lia.
Qed.
Lemma sum_checked_panic t l : forall a, ~ prefixes_in_range t l a -> sum_checked t l a = Panic.
Proof.
  induction l as [|x xs IH]; intros a N; cbn [sum_checked].
  - exfalso; apply N; exact I.
  - destruct (in_rangeb_spec t (a + x)) as [R|_]; [|reflexivity].
    apply IH. intros P; apply N; split; assumption.
Qed.
(* checks on: the model's sum exactly when EVERY PREFIX total is a value of N, a panic otherwise *)
Lemma agg_sum_checked_ok t l : prefixes_in_range t l 0 -> agg_sum_checked t l = Ok (agg_sum l).
Proof. intros P. unfold agg_sum_checked. rewrite (sum_checked_ok t l 0 P), agg_sum_spec. reflexivity. Qed.
Lemma agg_sum_checked_panic t l : ~ prefixes_in_range t l 0 -> agg_sum_checked t l = Panic.
Proof. intros N. unfold agg_sum_checked. rewrite (sum_checked_panic t l 0 N). reflexivity. Qed.

Lemma prefixes_total t l : forall a, in_range t a -> prefixes_in_range t l a -> in_range t (a + zsum l).
Proof.
  induction l as [|x xs IH]; intros a R P; cbn [zsum fold_right].
  - replace (a + 0) with a by lia. exact R.
  - destruct P as (R' & P). fold (zsum xs). replace (a + (x + zsum xs)) with (a + x + zsum xs) by lia. exact (IH _ R' P).
Qed.

(* the total of a prefix lies between the totals of the negative and of the positive inputs *)
Lemma pos_part_nonneg l : 0 <= pos_part l.
Proof. induction l as [|x xs IH]; cbn [pos_part fold_right]; [lia|]. fold (pos_part xs). lia. Qed.
Lemma neg_part_nonpos l : neg_part l <= 0.
Proof. induction l as [|x xs IH]; cbn [neg_part fold_right]; [lia|]. fold (neg_part xs). lia. Qed.
Lemma parts_prefixes t l : forall a, in_range t a -> ty_min t <= a + neg_part l -> a + pos_part l <= ty_max t -> prefixes_in_range t l a.
Proof.
  induction l as [|x xs IH]; intros a R Lo Hi; cbn [prefixes_in_range]; [exact I|].
  cbn [pos_part neg_part fold_right] in Lo, Hi. fold (pos_part xs) in Hi. fold (neg_part xs) in Lo.
  pose proof (pos_part_nonneg xs). pose proof (neg_part_nonpos xs). unfold in_range in *.
  split; [lia|]. apply IH; lia.
Qed.
Lemma pos_part_perm l l' : Permutation l l' -> pos_part l = pos_part l'.
Proof. induction 1; cbn [pos_part fold_right]; try fold (pos_part l); try fold (pos_part l'); lia. Qed.
Lemma neg_part_perm l l' : Permutation l l' -> neg_part l = neg_part l'.
Proof. induction 1; cbn [neg_part fold_right]; try fold (neg_part l); try fold (neg_part l'); lia. Qed.

(* sum's precondition in an order independent form: when the negative inputs and the positive inputs each total
   within N, `sum` is the mathematical sum in EVERY iteration order, with overflow checks on and off *)
Lemma sum_in_type_correct t l : ty_ok t -> ty_min t <= neg_part l -> pos_part l <= ty_max t ->
  forall l', Permutation l l' -> agg_sum_checked t l' = Ok (agg_sum l) /\ agg_sum_wrapped t l' = agg_sum l.
Proof.
  intros H Lo Hi l' P. destruct (ty_span t H) as (_ & _ & Z0).
  rewrite (neg_part_perm _ _ P) in Lo. rewrite (pos_part_perm _ _ P) in Hi. rewrite (agg_sum_perm _ _ P).
  assert (PR : prefixes_in_range t l' 0) by (apply parts_prefixes; [exact Z0| lia | lia]).
  split; [exact (agg_sum_checked_ok t l' PR)|].
  apply agg_sum_wrapped_ok_iff; [exact H|].
  replace (zsum l') with (0 + zsum l') by lia. exact (prefixes_total t l' 0 Z0 PR).
Qed.

(* ---------- mean: no intermediate is limited by the column type ---------- *)
Lemma range32 t x : ty_ok t -> bits t <= 32 -> in_range t x -> - 2 ^ 32 <= x <= 2 ^ 32.
Proof.
  unfold ty_ok, in_range, ty_min, ty_max. intros H B R.
  assert (A : 2 ^ (bits t - 1) <= 2 ^ 32) by (apply Z.pow_le_mono_r; lia).
  assert (A' : 2 ^ bits t <= 2 ^ 32) by (apply Z.pow_le_mono_r; lia).
  assert (P : 0 < 2 ^ (bits t - 1)) by (apply Z.pow_pos_nonneg; lia).
  destruct (signed t); lia.
Qed.

Lemma f64_int_true z : - 2 ^ 53 <= z <= 2 ^ 53 -> f64_int z = true.
Proof. intros H. unfold f64_int. apply andb_true_intro; split; apply Z.leb_le; lia. Qed.

Lemma mean_f64_fold_exact l : (forall x, In x l -> - 2 ^ 32 <= x <= 2 ^ 32) -> forall s c,
  0 <= c -> - (c * 2 ^ 32) <= s <= c * 2 ^ 32 -> c + zlen l <= 2 ^ 21 ->
  mean_f64_fold l s c = Exact (s + zsum l, c + zlen l).
Proof.
  assert (P32 : 2 ^ 32 = 4294967296) by reflexivity.
  assert (P53 : 2 ^ 53 = 9007199254740992) by reflexivity.
  assert (P21 : 2 ^ 21 = 2097152) by reflexivity.
  induction l as [|x xs IH]; intros B s c C S L; cbn [mean_f64_fold zsum fold_right].
  - unfold zlen; cbn [length Z.of_nat]. f_equal. f_equal; lia.
  - fold (zsum xs). assert (Lx : zlen (x :: xs) = 1 + zlen xs) by (unfold zlen; cbn [length]; lia).
    assert (L0 : 0 <= zlen xs) by (unfold zlen; lia).
    pose proof (B x (or_introl eq_refl)) as Bx.
    rewrite (f64_int_true x) by lia. rewrite (f64_int_true (x + s)) by lia. cbn [andb].
    rewrite IH; [f_equal; f_equal; lia | intros y Y; apply B; right; exact Y | lia | lia | lia].
Qed.

(* every column type of at most 32 bits, at most 2^21 rows: the f64 accumulator of `mean` holds every prefix total
   exactly, whatever the values are -- in particular when the total is far outside the column type -- and the result
   is the rational sum / count of the unbounded model *)
Lemma mean_f64_exact t l : ty_ok t -> bits t <= 32 -> Forall (in_range t) l -> zlen l <= 2 ^ 21 ->
  agg_mean_f64 l = Exact (agg_mean l).
Proof.
  intros H B F L. unfold agg_mean_f64.
  assert (P21 : 2 ^ 21 = 2097152) by reflexivity. assert (P53 : 2 ^ 53 = 9007199254740992) by reflexivity.
  rewrite (mean_f64_fold_exact l); [| intros x X; apply (range32 t x H B); rewrite Forall_forall in F; exact (F x X) | lia | lia | lia].
  assert (L0 : 0 <= zlen l) by (unfold zlen; lia).
  replace (0 + zlen l) with (zlen l) by lia. replace (0 + zsum l) with (zsum l) by lia.
  rewrite (f64_int_true (zlen l)) by lia. rewrite agg_mean_spec. reflexivity.
Qed.

(* ---------- the variant that totals the column in its own type ---------- *)
Lemma agg_mean_colsum_wrapped_spec t l : ty_ok t -> l <> [] -> agg_mean_colsum_wrapped t l = [(wrap t (zsum l), zlen l)].
Proof.
  intros H N. unfold agg_mean_colsum_wrapped. rewrite sum_wrapped_spec by exact H. fold (zlen l).
  destruct (agg_mean_nonempty l N) as (_ & P). destruct (Z.eqb_spec (zlen l) 0); [lia|reflexivity].
Qed.
(* it is `mean` exactly on the inputs whose TOTAL is a value of the column type ... *)
Lemma agg_mean_colsum_wrapped_ok_iff t l : ty_ok t -> l <> [] ->
  (agg_mean_colsum_wrapped t l = agg_mean l <-> in_range t (zsum l)).
Proof.
  intros H N. rewrite (agg_mean_colsum_wrapped_spec t l H N). destruct (agg_mean_nonempty l N) as (-> & _).
  rewrite <- (wrap_eq_iff t (zsum l) H). split; [intros E; injection E; auto | intros ->; reflexivity].
Qed.
(* ... and with overflow checks on it is `mean` exactly when every prefix total is one, a panic otherwise *)
Lemma agg_mean_colsum_checked_ok t l : prefixes_in_range t l 0 -> agg_mean_colsum_checked t l = Ok (agg_mean l).
Proof.
  intros P. unfold agg_mean_colsum_checked. rewrite (sum_checked_ok t l 0 P). rewrite agg_mean_spec. fold (zlen l).
  replace (0 + zsum l) with (zsum l) by lia. reflexivity.
Qed.
Lemma agg_mean_colsum_checked_panic t l : ~ prefixes_in_range t l 0 -> agg_mean_colsum_checked t l = Panic.
Proof. intros N. unfold agg_mean_colsum_checked. rewrite (sum_checked_panic t l 0 N). reflexivity. Qed.

(* every input a value of the column type, the mean itself a value of the column type, and still: *)
Lemma agg_mean_colsum_refuted : exists t l, forallb (in_rangeb t) l = true /\
  agg_mean_colsum_wrapped t l <> agg_mean l /\ agg_mean_colsum_checked t l = Panic /\
  agg_mean_f64 l = Exact (agg_mean l).
Proof. exists u8, [200; 100]. vm_compute. repeat split; congruence. Qed.
