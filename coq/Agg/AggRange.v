(* C17, value RANGE: what the column type N does (and does not do) to the aggregators.
   Agg/AggModel.v works over unbounded Z.  This file makes the two places where the machine width matters
   explicit, again as executable definitions (no proofs here; they are in AggRangeLaws.v):

   * sum : N -> N adds IN THE COLUMN TYPE (`Iterator::sum::<N>()` = fold(0, |a, b| a + b), overflow checks
     inherited from the calling crate): `agg_sum_checked` is the code with overflow checks on (debug builds:
     a prefix total that leaves N panics), `agg_sum_wrapped` the code with checks off (release builds: two's
     complement wrap).  Both equal Agg/AggModel.v `agg_sum` under the caller's precondition (every prefix total
     fits in N); outside it C17 claims nothing about `sum`.
   * mean : N -> f64 converts EVERY INPUT to f64 first and adds f64 values: NO intermediate of `mean` has the
     type N, so nothing of it is limited by the range of N.  The only machine effect is f64 rounding, and it is
     absent as long as every prefix total is an integer of magnitude <= 2^53: `agg_mean_f64` is the code's fold
     with that side condition tracked (`Rounded` as soon as a prefix total is not exactly representable).
     For every column type of at most 32 bits and at most 2^21 rows it never rounds and equals `agg_mean`
     (AggRangeLaws.v mean_f64_exact), i.e. the unbounded model IS the code on that domain.
   * `agg_mean_colsum_wrapped / _checked`: the variant "total the column in its own type like `sum` does, convert
     once at the end".  It is NOT the shipped code; it is refuted against `agg_mean` (Props/C17.v). *)
From Coq Require Import List ZArith Bool.
From AV Require Import Agg.AggModel.
Import ListNotations.
Open Scope Z_scope.

(* an integer column type: i8 .. i64 / u8 .. u64 *)
Record ity : Type := ITy { signed : bool; bits : Z }.
Definition ty_min (t : ity) : Z := if signed t then - 2 ^ (bits t - 1) else 0.
Definition ty_max (t : ity) : Z := if signed t then 2 ^ (bits t - 1) - 1 else 2 ^ (bits t) - 1.
Definition in_range (t : ity) (x : Z) : Prop := ty_min t <= x <= ty_max t.
Definition in_rangeb (t : ity) (x : Z) : bool := Z.leb (ty_min t) x && Z.leb x (ty_max t).
(* two's complement wrap-around into the range of t *)
Definition wrap (t : ity) (x : Z) : Z := (x - ty_min t) mod 2 ^ (bits t) + ty_min t.

Definition i8 := ITy true 8.   Definition i16 := ITy true 16.  Definition i32 := ITy true 32.  Definition i64 := ITy true 64.
Definition u8 := ITy false 8.  Definition u16 := ITy false 16. Definition u32 := ITy false 32. Definition u64 := ITy false 64.

(* ---- sum in the column type ---- *)
(* overflow checks on: `a + b` panics when the result leaves N *)
Fixpoint sum_checked (t : ity) (l : list Z) (a : Z) : res Z :=
  match l with
  | [] => Ok a
  | x :: xs => if in_rangeb t (a + x) then sum_checked t xs (a + x) else Panic
  end.
Definition agg_sum_checked (t : ity) (l : list Z) : res (list Z) :=
  match sum_checked t l 0 with Ok s => Ok [s] | Panic => Panic end.
(* overflow checks off: every addition wraps *)
Definition sum_wrapped (t : ity) (l : list Z) : Z := fold_left (fun a x => wrap t (a + x)) l 0.
Definition agg_sum_wrapped (t : ity) (l : list Z) : list Z := [sum_wrapped t l].

(* the caller's side of `sum`: every prefix total (in iteration order) is a value of N *)
Fixpoint prefixes_in_range (t : ity) (l : list Z) (a : Z) : Prop :=
  match l with [] => True | x :: xs => in_range t (a + x) /\ prefixes_in_range t xs (a + x) end.
(* an order independent sufficient form: the positive and the negative inputs each total within N *)
Definition pos_part (l : list Z) : Z := fold_right (fun x s => Z.max x 0 + s) 0 l.
Definition neg_part (l : list Z) : Z := fold_right (fun x s => Z.min x 0 + s) 0 l.

(* ---- mean: the code's fold over f64 values, exactness tracked ---- *)
Inductive f64res (A : Type) : Type := Exact (a : A) | Rounded.
Arguments Exact {A} a.
Arguments Rounded {A}.
(* integers of magnitude <= 2^53 are f64 values; a sum of two of them that is again one is computed exactly *)
Definition f64_int (z : Z) : bool := Z.leb (- 2 ^ 53) z && Z.leb z (2 ^ 53).
(* fold((0.0, 0usize), |(sum, count), t| (t.0.clone().into() + sum, count + 1)) *)
Fixpoint mean_f64_fold (l : list Z) (s c : Z) : f64res (Z * Z) :=
  match l with
  | [] => Exact (s, c)
  | x :: xs => if f64_int x && f64_int (x + s) then mean_f64_fold xs (x + s) (c + 1) else Rounded
  end.
(* if count == 0 { None } else { Some(sum / count as f64) }: the quotient of two exactly held integers; IEEE division
   is correctly rounded, so the f64 returned is the rational sum / count rounded to nearest-even (trusted base) *)
Definition agg_mean_f64 (l : list Z) : f64res (list (Z * Z)) :=
  match mean_f64_fold l 0 0 with
  | Exact (s, c) => if f64_int c then Exact (if Z.eqb c 0 then [] else [(s, c)]) else Rounded
  | Rounded => Rounded
  end.

(* ---- NOT the shipped code: mean through a total held in the column type ---- *)
Definition agg_mean_colsum_wrapped (t : ity) (l : list Z) : list (Z * Z) :=
  let c := Z.of_nat (length l) in
  if Z.eqb c 0 then [] else [(sum_wrapped t l, c)].
Definition agg_mean_colsum_checked (t : ity) (l : list Z) : res (list (Z * Z)) :=
  let c := Z.of_nat (length l) in
  match sum_checked t l 0 with
  | Ok s => Ok (if Z.eqb c 0 then [] else [(s, c)])
  | Panic => Panic
  end.
