(* Proofs about the model of an `agg` body item (Agg/AggClauseModel.v): what it yields for an empty group, that an
   empty group of a non-empty relation and a relation without rows are the same thing, and which aggregators
   tolerate a "skip the rule when the aggregated relation is empty" short circuit (none that yields on empty input). *)
From Coq Require Import List ZArith Bool Lia Permutation.
From AV Require Import Agg.AggModel.
From AV Require Import Agg.AggLaws.
From AV Require Import Agg.AggClauseModel.
Import ListNotations.
Open Scope Z_scope.

(* ---------- matching ---------- *)
Definition col_ok (o : option Z) (x : Z) : Prop := match o with Some v => v = x | None => True end.

Lemma row_matches_spec p : forall r, row_matches p r = true <-> Forall2 col_ok p r.
Proof.
  induction p as [|o p IH]; intros r; destruct r as [|x r]; cbn [row_matches].
  - split; [constructor|reflexivity].
  - split; [discriminate|intros H; inversion H].
  - destruct o; (split; [discriminate|intros H; inversion H]).
  - destruct o as [v|].
    + rewrite andb_true_iff, Z.eqb_eq, IH. split.
      * intros [E F]; constructor; [exact E|exact F].
      * intros H; inversion H; subst; split; assumption.
    + rewrite IH. split.
      * intros F; constructor; [exact I|exact F].
      * intros H; inversion H; subst; assumption.
Qed.

Lemma matching_in p rows r : In r (matching p rows) <-> In r rows /\ Forall2 col_ok p r.
Proof. unfold matching. rewrite filter_In, row_matches_spec. reflexivity. Qed.

Lemma matching_nil p : matching p [] = [].  Proof. reflexivity. Qed.
Lemma group_nil p col : group p col [] = [].  Proof. reflexivity. Qed.
Lemma group_of_no_match p col rows : matching p rows = [] -> group p col rows = [].
Proof. unfold group; intros ->; reflexivity. Qed.
Lemma group_length p col rows : length (group p col rows) = length (matching p rows).
Proof. unfold group; apply map_length. Qed.

Lemma filter_perm {A} (f : A -> bool) l l' : Permutation l l' -> Permutation (filter f l) (filter f l').
Proof.
  induction 1 as [|x l l' P IH|x y l|l l' l'' P1 IH1 P2 IH2]; cbn [filter].
  - constructor.
  - destruct (f x); [constructor|]; exact IH.
  - destruct (f x), (f y); try apply Permutation_refl. apply perm_swap.
  - eapply Permutation_trans; eauto.
Qed.

Lemma group_perm p col rows rows' : Permutation rows rows' -> Permutation (group p col rows) (group p col rows').
Proof. intros P; unfold group, matching. apply Permutation_map, filter_perm, P. Qed.

(* ---------- what an item yields ---------- *)
Definition yields_on_empty (k : aggk) : bool := match k with ASum | ACount | ANot => true | _ => false end.
Definition empty_result (k : aggk) : list (Z * Z) := if yields_on_empty k then [(0, 1)] else [].

(* no row matches the key (in particular: the relation has no row at all): sum gives 0, count gives 0, not() gives its
   unit, min / max / mean / percentile give nothing -- the body continues once resp. not at all *)
Lemma agg_clause_no_match k p col rows : matching p rows = [] -> agg_clause k p col rows = Ok (empty_result k).
Proof.
  intros E. unfold agg_clause. rewrite (group_of_no_match _ _ _ E), E.
  destruct k; reflexivity.
Qed.

Lemma agg_clause_no_match_explicit k p col rows : matching p rows = [] ->
  agg_clause k p col rows = Ok (match k with ASum | ACount | ANot => [(0, 1)] | _ => [] end).
Proof. intros E; rewrite (agg_clause_no_match k p col rows E); destruct k; reflexivity. Qed.

Lemma agg_clause_empty_rel k p col : agg_clause k p col [] = Ok (empty_result k).
Proof. apply agg_clause_no_match, matching_nil. Qed.

(* an empty group inside a non-empty relation is indistinguishable from an empty relation *)
Lemma agg_clause_empty_group_eq k p col rows : matching p rows = [] -> agg_clause k p col rows = agg_clause k p col [].
Proof. intros E. rewrite agg_clause_empty_rel. apply agg_clause_no_match, E. Qed.

Lemma agg_clause_total k p col rows : exists r, agg_clause k p col rows = Ok r.
Proof.
  unfold agg_clause. destruct k; try (eexists; reflexivity).
  destruct (agg_percentile_total pn pd (group p col rows)) as [r ->]. eexists; reflexivity.
Qed.

Lemma agg_clause_sum p col rows : agg_clause ASum p col rows = Ok [(zsum (group p col rows), 1)].
Proof. unfold agg_clause. rewrite agg_sum_spec. reflexivity. Qed.

Lemma agg_clause_count p col rows : agg_clause ACount p col rows = Ok [(zlen (group p col rows), 1)].
Proof. unfold agg_clause, zlen. rewrite group_length. reflexivity. Qed.

Lemma agg_clause_not p col rows :
  agg_clause ANot p col rows = Ok (if is_nil (matching p rows) then [(0, 1)] else []).
Proof. unfold agg_clause. destruct (matching p rows); reflexivity. Qed.

Lemma agg_clause_min p col rows : group p col rows <> [] ->
  exists m, agg_clause AMin p col rows = Ok [(m, 1)] /\ is_min m (group p col rows).
Proof. intros H. destruct (agg_min_spec _ H) as [m [E M]]. exists m. unfold agg_clause. rewrite E. split; [reflexivity|exact M]. Qed.

Lemma agg_clause_max p col rows : group p col rows <> [] ->
  exists m, agg_clause AMax p col rows = Ok [(m, 1)] /\ is_max m (group p col rows).
Proof. intros H. destruct (agg_max_spec _ H) as [m [E M]]. exists m. unfold agg_clause. rewrite E. split; [reflexivity|exact M]. Qed.

Lemma agg_clause_mean p col rows : group p col rows <> [] ->
  agg_clause AMean p col rows = Ok [(zsum (group p col rows), zlen (group p col rows))] /\ zlen (group p col rows) > 0.
Proof. intros H. destruct (agg_mean_nonempty _ H) as [E L]. unfold agg_clause. rewrite E. split; [reflexivity|exact L]. Qed.

Lemma agg_clause_pct pn pd p col rows : group p col rows <> [] -> 0 < pd -> 0 <= pn <= 100 * pd ->
  exists x, agg_clause (APct pn pd) p col rows = Ok [(x, 1)] /\ In x (group p col rows) /\
            rank_elem (Z.min ((zlen (group p col rows) * pn) / (pd * 100)) (zlen (group p col rows) - 1)) (group p col rows) = Some x.
Proof.
  intros H Hpd Hpn. destruct (agg_percentile_rank pn pd _ H Hpd Hpn) as [x [E [I R]]].
  exists x. unfold agg_clause. rewrite E. repeat split; assumption.
Qed.

(* the order in which the relation stores its rows is irrelevant *)
Lemma agg_clause_perm k p col rows rows' : Permutation rows rows' -> agg_clause k p col rows = agg_clause k p col rows'.
Proof.
  intros P. pose proof (group_perm p col _ _ P) as G.
  assert (length (matching p rows) = length (matching p rows')) as L
    by (apply Permutation_length, filter_perm, P).
  unfold agg_clause. rewrite L.
  destruct k; try reflexivity.
  - rewrite (agg_min_perm _ _ G); reflexivity.
  - rewrite (agg_max_perm _ _ G); reflexivity.
  - rewrite (agg_sum_perm _ _ G); reflexivity.
  - rewrite (agg_mean_perm _ _ G); reflexivity.
  - rewrite (agg_percentile_perm pn pd _ _ G); reflexivity.
Qed.

(* ---------- the rule-level short circuit ---------- *)
(* letting the aggregated relation take part in the "some relation is empty" test is the same as the faithful item
   exactly for the aggregators that yield nothing on empty input *)
Lemma skipping_sound_iff k :
  (forall p col rows, agg_clause_skipping_empty_rel k p col rows = agg_clause k p col rows) <-> yields_on_empty k = false.
Proof.
  split.
  - intros H. specialize (H [] 0%nat []). unfold agg_clause_skipping_empty_rel in H. cbn [is_nil] in H.
    rewrite agg_clause_empty_rel in H. unfold empty_result in H. destruct (yields_on_empty k); [discriminate|reflexivity].
  - intros Y p col rows. unfold agg_clause_skipping_empty_rel. destruct rows as [|r rows]; cbn [is_nil]; [|reflexivity].
    rewrite agg_clause_empty_rel. unfold empty_result. rewrite Y. reflexivity.
Qed.

Definition may_skip (k : aggk) : Prop := match k with ASum | ACount | ANot => False | _ => True end.
Lemma skipping_sound_iff_explicit k :
  (forall p col rows, agg_clause_skipping_empty_rel k p col rows = agg_clause k p col rows) <-> may_skip k.
Proof.
  rewrite (skipping_sound_iff k).
  destruct k; cbn [yields_on_empty may_skip]; split; intros H; try reflexivity; try exact I; try discriminate H; try contradiction H.
Qed.

Lemma skipping_refuted k : yields_on_empty k = true ->
  exists p col rows, agg_clause_skipping_empty_rel k p col rows <> agg_clause k p col rows.
Proof.
  intros Y. exists [], 0%nat, []. unfold agg_clause_skipping_empty_rel. cbn [is_nil].
  rewrite agg_clause_empty_rel. unfold empty_result. rewrite Y. discriminate.
Qed.

(* the short circuit over the CLAUSE relations is harmless for any body that is empty whenever one of them is *)
Lemma rule_guard_sound {A} (clause_rels : list (list row)) (body : list A) :
  (existsb is_nil clause_rels = true -> body = []) -> rule_guard clause_rels body = body.
Proof. intros H. unfold rule_guard. destruct (existsb is_nil clause_rels); [symmetry; apply H; reflexivity|reflexivity]. Qed.
