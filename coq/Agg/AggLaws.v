(* Proofs about the aggregator model (C17). *)
From Coq Require Import List ZArith Bool Lia Permutation Sorting.Sorted Sorting.Mergesort.
From AV Require Import Agg.AggModel.
Import ListNotations.
Open Scope Z_scope.

(* ---------- list specifications ---------- *)
Definition zsum (l : list Z) : Z := fold_right Z.add 0 l.
Definition zlen (l : list Z) : Z := Z.of_nat (length l).
Definition is_min (m : Z) (l : list Z) := In m l /\ forall x, In x l -> m <= x.
Definition is_max (m : Z) (l : list Z) := In m l /\ forall x, In x l -> x <= m.

(* ---------- min / max ---------- *)
Lemma fold_min_spec xs : forall x, is_min (fold_left Z.min xs x) (x :: xs).
Proof.
  induction xs as [|y ys IH]; intros x; cbn [fold_left].
  - split; [now left|]. intros z [<-|[]]; lia.
  - destruct (IH (Z.min x y)) as [Hin Hle]. split.
    + destruct Hin as [Heq|Hin].
      * rewrite <- Heq. destruct (Z.min_spec x y) as [[_ E]|[_ E]]; rewrite E; [left|right; left]; reflexivity.
      * right; right; assumption.
    + intros z [<-|[<-|Hz]].
      * specialize (Hle (Z.min x y) (or_introl eq_refl)); lia.
      * specialize (Hle (Z.min x y) (or_introl eq_refl)); lia.
      * apply Hle; right; assumption.
Qed.

Lemma fold_max_spec xs : forall x, is_max (fold_left Z.max xs x) (x :: xs).
Proof.
  induction xs as [|y ys IH]; intros x; cbn [fold_left].
  - split; [now left|]. intros z [<-|[]]; lia.
  - destruct (IH (Z.max x y)) as [Hin Hle]. split.
    + destruct Hin as [Heq|Hin].
      * rewrite <- Heq. destruct (Z.max_spec x y) as [[_ E]|[_ E]]; rewrite E; [right; left|left]; reflexivity.
      * right; right; assumption.
    + intros z [<-|[<-|Hz]].
      * specialize (Hle (Z.max x y) (or_introl eq_refl)); lia.
      * specialize (Hle (Z.max x y) (or_introl eq_refl)); lia.
      * apply Hle; right; assumption.
Qed.

Lemma agg_min_empty : agg_min [] = [].  Proof. reflexivity. Qed.
Lemma agg_max_empty : agg_max [] = [].  Proof. reflexivity. Qed.

Lemma agg_min_spec l : l <> [] -> exists m, agg_min l = [m] /\ is_min m l.
Proof. destruct l as [|x xs]; [congruence|]. intros _. eexists; split; [reflexivity|apply fold_min_spec]. Qed.

Lemma agg_max_spec l : l <> [] -> exists m, agg_max l = [m] /\ is_max m l.
Proof. destruct l as [|x xs]; [congruence|]. intros _. eexists; split; [reflexivity|apply fold_max_spec]. Qed.

Lemma is_min_unique m m' l : is_min m l -> is_min m' l -> m = m'.
Proof. intros [I1 L1] [I2 L2]. specialize (L1 _ I2). specialize (L2 _ I1). lia. Qed.
Lemma is_max_unique m m' l : is_max m l -> is_max m' l -> m = m'.
Proof. intros [I1 L1] [I2 L2]. specialize (L1 _ I2). specialize (L2 _ I1). lia. Qed.

Lemma is_min_perm m l l' : Permutation l l' -> is_min m l -> is_min m l'.
Proof. intros P [I L]; split; [eapply Permutation_in; eauto|]. intros x Hx; apply L. eapply Permutation_in; [apply Permutation_sym|]; eauto. Qed.
Lemma is_max_perm m l l' : Permutation l l' -> is_max m l -> is_max m l'.
Proof. intros P [I L]; split; [eapply Permutation_in; eauto|]. intros x Hx; apply L. eapply Permutation_in; [apply Permutation_sym|]; eauto. Qed.

Lemma agg_min_perm l l' : Permutation l l' -> agg_min l = agg_min l'.
Proof.
  intros P. destruct l as [|x xs].
  - apply Permutation_nil in P; subst; reflexivity.
  - assert (l' <> []) as Hne by (intros ->; apply Permutation_sym in P; apply Permutation_nil in P; discriminate).
    destruct (agg_min_spec (x :: xs)) as [m [E M]]; [discriminate|].
    destruct (agg_min_spec l' Hne) as [m' [E' M']].
    rewrite E, E'. f_equal. eapply is_min_unique; [eapply is_min_perm; eauto|eauto].
Qed.

Lemma agg_max_perm l l' : Permutation l l' -> agg_max l = agg_max l'.
Proof.
  intros P. destruct l as [|x xs].
  - apply Permutation_nil in P; subst; reflexivity.
  - assert (l' <> []) as Hne by (intros ->; apply Permutation_sym in P; apply Permutation_nil in P; discriminate).
    destruct (agg_max_spec (x :: xs)) as [m [E M]]; [discriminate|].
    destruct (agg_max_spec l' Hne) as [m' [E' M']].
    rewrite E, E'. f_equal. eapply is_max_unique; [eapply is_max_perm; eauto|eauto].
Qed.

(* ---------- sum ---------- *)
Lemma fold_add_acc l : forall a, fold_left Z.add l a = a + zsum l.
Proof. induction l as [|x xs IH]; intros a; cbn [fold_left zsum fold_right]; [lia|]. rewrite IH. fold (zsum xs). lia. Qed.

Lemma agg_sum_spec l : agg_sum l = [zsum l].
Proof. unfold agg_sum. rewrite fold_add_acc. f_equal. Qed.

Lemma zsum_perm l l' : Permutation l l' -> zsum l = zsum l'.
Proof. induction 1; cbn [zsum fold_right] in *; try fold (zsum l) in *; try fold (zsum l') in *; lia. Qed.

Lemma agg_sum_perm l l' : Permutation l l' -> agg_sum l = agg_sum l'.
Proof. intros P. rewrite !agg_sum_spec. f_equal. apply zsum_perm; assumption. Qed.

Lemma agg_sum_empty : agg_sum [] = [0].  Proof. reflexivity. Qed.

(* ---------- count ---------- *)
(* what Iterator::size_hint promises: lo <= n, and n <= hi when hi is given;
   and n itself fits a usize *)
Definition hint_ok (hint : Z * option Z) (n : Z) : Prop :=
  fst hint <= n /\ (match snd hint with Some h => n <= h | None => True end) /\ 0 <= n <= usize_max.

Lemma agg_count_spec hint n : hint_ok hint n -> agg_count hint n = [n].
Proof.
  unfold hint_ok, agg_count. destruct hint as [lo [hi|]]; cbn [fst snd]; intros (H1 & H2 & H3).
  - destruct (Z.eqb_spec lo hi); [f_equal; lia|reflexivity].
  - destruct (Z.eqb_spec lo usize_max); [f_equal; lia|reflexivity].
Qed.

(* ---------- mean ---------- *)
Lemma fold_mean_acc l : forall s c,
  fold_left (fun '(s, c) x => (x + s, c + 1)) l (s, c) = (s + zsum l, c + zlen l).
Proof.
  induction l as [|x xs IH]; intros s c; cbn [fold_left].
  - unfold zlen; cbn; f_equal; lia.
  - rewrite IH. unfold zlen; cbn [zsum fold_right length]. fold (zsum xs). f_equal; lia.
Qed.

Lemma agg_mean_spec l :
  agg_mean l = if Z.eqb (zlen l) 0 then [] else [(zsum l, zlen l)].
Proof. unfold agg_mean. rewrite fold_mean_acc. cbn. reflexivity. Qed.

Lemma agg_mean_empty : agg_mean [] = [].  Proof. reflexivity. Qed.
Lemma agg_mean_nonempty l : l <> [] -> agg_mean l = [(zsum l, zlen l)] /\ zlen l > 0.
Proof.
  intros H. rewrite agg_mean_spec. destruct l; [congruence|]. unfold zlen. cbn [length].
  destruct (Z.eqb_spec (Z.of_nat (S (length l))) 0); [lia|split; [reflexivity|lia]].
Qed.

Lemma agg_mean_perm l l' : Permutation l l' -> agg_mean l = agg_mean l'.
Proof.
  intros P. rewrite !agg_mean_spec. unfold zlen. rewrite (Permutation_length P), (zsum_perm _ _ P). reflexivity.
Qed.

(* ---------- not ---------- *)
Lemma agg_not_spec n : 0 <= n -> (agg_not n = [0] <-> n = 0) /\ (agg_not n = [] <-> n <> 0).
Proof. intros _. unfold agg_not. destruct (Z.eqb_spec n 0); split; split; intros; congruence. Qed.

(* ---------- percentile ---------- *)
Lemma sort_perm l : Permutation (ZSort.sort l) l.
Proof. apply Permutation_sym, ZSort.Permuted_sort. Qed.

Lemma sort_sorted l : StronglySorted Z.le (ZSort.sort l).
Proof.
  assert (StronglySorted (fun x y => is_true (Z.leb x y)) (ZSort.sort l)) as H.
  { apply ZSort.StronglySorted_sort. intros x y z H1 H2. unfold is_true in *.
    apply Z.leb_le in H1, H2. apply Z.leb_le. lia. }
  induction H as [|a s Hs IH Hall]; constructor; [assumption|].
  eapply Forall_impl; [|exact Hall]. intros b Hb. apply Z.leb_le. exact Hb.
Qed.

Lemma sort_length l : length (ZSort.sort l) = length l.
Proof. apply Permutation_length, sort_perm. Qed.

(* sorting is canonical: two sorted permutations of each other are equal *)
Lemma sorted_perm_eq : forall s1 s2, StronglySorted Z.le s1 -> StronglySorted Z.le s2 ->
  Permutation s1 s2 -> s1 = s2.
Proof.
  induction s1 as [|a s1 IH]; intros s2 S1 S2 P.
  - apply Permutation_nil in P; subst; reflexivity.
  - destruct s2 as [|b s2]; [apply Permutation_sym, Permutation_nil in P; discriminate|].
    inversion S1 as [|? ? S1' A1]; subst. inversion S2 as [|? ? S2' A2]; subst.
    assert (a = b) as ->.
    { assert (In a (b :: s2)) as Ia by (eapply Permutation_in; [exact P|now left]).
      assert (In b (a :: s1)) as Ib by (eapply Permutation_in; [apply Permutation_sym; exact P|now left]).
      rewrite Forall_forall in A1, A2.
      destruct Ia as [->|Ia]; [reflexivity|]. destruct Ib as [->|Ib]; [reflexivity|].
      specialize (A1 _ Ib). specialize (A2 _ Ia). lia. }
    f_equal. apply IH; [assumption|assumption|]. eapply Permutation_cons_inv; exact P.
Qed.

Lemma sort_perm_inv l l' : Permutation l l' -> ZSort.sort l = ZSort.sort l'.
Proof.
  intros P. apply sorted_perm_eq; [apply sort_sorted|apply sort_sorted|].
  eapply Permutation_trans; [apply sort_perm|]. eapply Permutation_trans; [exact P|]. apply Permutation_sym, sort_perm.
Qed.

Lemma agg_percentile_perm pn pd l l' : Permutation l l' -> agg_percentile pn pd l = agg_percentile pn pd l'.
Proof. intros P. unfold agg_percentile. rewrite (sort_perm_inv _ _ P). reflexivity. Qed.

Lemma agg_percentile_empty pn pd : agg_percentile pn pd [] = Ok [].
Proof. reflexivity. Qed.

(* index bound: the clamped index is always < len on non-empty input, whatever p *)
Lemma pct_index_lt pn pd len : 0 < len -> 0 <= pct_index pn pd len < len.
Proof. intros Hlen. unfold pct_index. lia. Qed.

(* for p = pn/pd in [0, 100] the index is the prescribed rank floor(len*p/100), capped at the last element *)
Lemma pct_index_rank pn pd len : 0 < pd -> 0 <= pn -> 0 < len ->
  pct_index pn pd len = Z.min ((len * pn) / (pd * 100)) (len - 1).
Proof.
  intros Hpd Hpn Hlen. unfold pct_index.
  assert (0 <= (len * pn) / (pd * 100)) by (apply Z.div_pos; nia). lia.
Qed.

Lemma pct_index_p100 pd len : 0 < pd -> 0 < len -> pct_index (100 * pd) pd len = len - 1.
Proof.
  intros Hpd Hlen. unfold pct_index.
  replace (len * (100 * pd)) with (len * (pd * 100)) by lia. rewrite Z.div_mul by lia. lia.
Qed.

Lemma pct_index_below pn pd len : 0 < pd -> 0 <= pn -> pn < 100 * pd -> 0 < len ->
  pct_index pn pd len = (len * pn) / (pd * 100).
Proof.
  intros Hpd Hpn Hlt Hlen. rewrite pct_index_rank by assumption.
  assert ((len * pn) / (pd * 100) < len) by (apply Z.div_lt_upper_bound; nia). lia.
Qed.

(* the element of rank k of l: k-th element of the sorted permutation *)
Definition rank_elem (k : Z) (l : list Z) : option Z := nth_error (ZSort.sort l) (Z.to_nat k).

Lemma agg_percentile_unfold pn pd l : l <> [] ->
  agg_percentile pn pd l =
  match rank_elem (pct_index pn pd (zlen l)) l with Some x => Ok [x] | None => Panic end.
Proof.
  intros Hne. unfold agg_percentile, rank_elem, zlen. rewrite sort_length.
  destruct (Z.eqb_spec (Z.of_nat (length l)) 0) as [E|E]; [destruct l; [congruence|cbn in E; lia]|reflexivity].
Qed.

Lemma rank_elem_in k l x : rank_elem k l = Some x -> In x l.
Proof. unfold rank_elem. intros H. apply nth_error_In in H. eapply Permutation_in; [apply sort_perm|exact H]. Qed.

Lemma rank_elem_some k l : 0 <= k < zlen l -> exists x, rank_elem k l = Some x.
Proof.
  intros Hk. unfold rank_elem. destruct (nth_error (ZSort.sort l) (Z.to_nat k)) eqn:E; [eauto|].
  apply nth_error_None in E. rewrite sort_length in E. unfold zlen in Hk. lia.
Qed.

Lemma agg_percentile_total pn pd l : exists r, agg_percentile pn pd l = Ok r.
Proof.
  destruct l as [|x xs]; [eexists; reflexivity|].
  rewrite agg_percentile_unfold by discriminate.
  destruct (rank_elem_some (pct_index pn pd (zlen (x :: xs))) (x :: xs)) as [y Hy].
  - apply pct_index_lt. unfold zlen; cbn [length]; lia.
  - rewrite Hy. eauto.
Qed.

Lemma agg_percentile_spec pn pd l : l <> [] ->
  exists x, agg_percentile pn pd l = Ok [x] /\ rank_elem (pct_index pn pd (zlen l)) l = Some x /\ In x l.
Proof.
  intros Hne. rewrite agg_percentile_unfold by assumption.
  destruct (rank_elem_some (pct_index pn pd (zlen l)) l) as [y Hy].
  - apply pct_index_lt. destruct l; [congruence|unfold zlen; cbn [length]; lia].
  - rewrite Hy. exists y; repeat split; [eapply rank_elem_in; eauto].
Qed.

(* rank semantics: the element of rank k has at least k+1 elements <= it and at least len-k elements >= it *)
Lemma sorted_nth_le s : StronglySorted Z.le s -> forall i j x y, (i <= j)%nat ->
  nth_error s i = Some x -> nth_error s j = Some y -> x <= y.
Proof.
  induction 1 as [|a s Hs IH Hall]; intros i j x y Hij Hi Hj.
  - destruct i; discriminate.
  - destruct i as [|i], j as [|j]; cbn in Hi, Hj.
    + injection Hi as <-; injection Hj as <-; lia.
    + injection Hi as <-. rewrite Forall_forall in Hall. apply Hall. eapply nth_error_In; eauto.
    + lia.
    + eapply IH; [|eauto|eauto]. lia.
Qed.

Lemma rank_elem_mono k k' l x y : 0 <= k <= k' -> rank_elem k l = Some x -> rank_elem k' l = Some y -> x <= y.
Proof. unfold rank_elem. intros Hk Hx Hy. eapply (sorted_nth_le _ (sort_sorted l)); [|eauto|eauto]. lia. Qed.

Lemma agg_percentile_rank pn pd l : l <> [] -> 0 < pd -> 0 <= pn <= 100 * pd ->
  exists x, agg_percentile pn pd l = Ok [x] /\ In x l /\
            rank_elem (Z.min ((zlen l * pn) / (pd * 100)) (zlen l - 1)) l = Some x.
Proof.
  intros Hne Hpd Hpn. destruct (agg_percentile_spec pn pd l Hne) as [x (E & R & I)].
  exists x. repeat split; [exact E | exact I |].
  rewrite <- pct_index_rank; [exact R | lia | lia |]. destruct l; [congruence | unfold zlen; cbn [length]; lia].
Qed.

Lemma pct_index_endpoints pd len : 0 < pd -> 0 < len ->
  pct_index 0 pd len = 0 /\ pct_index (100 * pd) pd len = len - 1.
Proof.
  intros Hpd Hlen; split; [|exact (pct_index_p100 pd len Hpd Hlen)].
  rewrite pct_index_below by lia. rewrite Z.mul_0_r. apply Z.div_0_l. lia.
Qed.
