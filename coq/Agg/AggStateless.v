(* C17: an aggregator VALUE applied more than once.

   `agg m = AGG(x) in rel(..)` evaluates the aggregator expression AGG to a value and applies it; a rule may bind that
   value once (`let f = percentile(50.0), grp(g), agg m = (f)(x) in score(g, x)`) and a library user may keep it in a
   variable, so ONE value is applied to MANY inputs.  The property speaks about every application: each result is the
   definition on the input OF THAT APPLICATION, whatever was aggregated before.

   Model: an aggregator value is a machine -- a private state and a step that consumes one input, yields the result and
   the next state.  The code (ascent/src/aggregators.rs): min / max / sum / count / mean / not are `fn` items (no
   captured environment); `percentile(p)` returns a `move` closure whose only capture is the f64 `p`, which it never
   writes (it is `Fn`).  Their state is therefore `unit` ([code_machine]).  A variant that keeps a buffer / a running
   total between applications is a machine with a real state ([pct_buffered], [sum_running], [count_running]); such
   variants are refuted in Agg/AggStatelessLaws.v.  No proofs here. *)
From Coq Require Import List ZArith Bool.
From AV Require Import Agg.AggModel.
From AV Require Import Agg.AggClauseModel.
Import ListNotations.
Open Scope Z_scope.

(* the input of one application: the size hint its iterator reports (count looks at it) and the column values *)
Definition ainput := ((Z * option Z) * list Z)%type.
Definition aresult := res (list (Z * Z)).

(* one application of the aggregator [k] to one input: Agg/AggModel.v, results as rationals like Agg/AggClauseModel.v *)
Definition agg_apply (k : aggk) (i : ainput) : aresult :=
  let l := snd i in
  let n := Z.of_nat (length l) in
  match k with
  | AMin => Ok (ints (agg_min l))
  | AMax => Ok (ints (agg_max l))
  | ASum => Ok (ints (agg_sum l))
  | ACount => Ok (ints (agg_count (fst i) n))
  | AMean => Ok (agg_mean l)
  | APct pn pd => match agg_percentile pn pd l with Ok r => Ok (ints r) | Panic => Panic end
  | ANot => Ok (ints (agg_not n))
  end.

Record machine (S : Type) := { m_init : S; m_step : S -> ainput -> S * aresult }.
Arguments m_init {S} _.
Arguments m_step {S} _ _ _.

Fixpoint run_from {S} (m : machine S) (s : S) (ins : list ainput) : list aresult :=
  match ins with
  | [] => []
  | i :: rest => let '(s', o) := m_step m s i in o :: run_from m s' rest
  end.
Definition run_seq {S} (m : machine S) (ins : list ainput) : list aresult := run_from m (m_init m) ins.

(* the code's aggregator values: nothing is carried from one application to the next *)
Definition code_machine (k : aggk) : machine unit := {| m_init := tt; m_step := fun _ i => (tt, agg_apply k i) |}.
Definition agg_seq (k : aggk) (ins : list ainput) : list aresult := run_seq (code_machine k) ins.

(* ---- variants that DO carry state (what an "allocate once" / "running total" rewrite can turn into) ---- *)

(* percentile with the sort buffer kept in the aggregator value: every application extends the buffer with its input,
   sorts, takes the element at the index computed from the BUFFER's length by draining from that index on, and hands
   the rest (the elements below the index) back *)
Definition pct_buffered (pn pd : Z) : machine (list Z) :=
  {| m_init := [];
     m_step := fun buf i =>
       let sorted := ZSort.sort (buf ++ snd i) in
       let idx := Z.to_nat (pct_index pn pd (Z.of_nat (length sorted))) in
       (firstn idx sorted, Ok (ints (match nth_error sorted idx with Some x => [x] | None => [] end))) |}.
(* the same buffer, cleared before it is handed back *)
Definition pct_buffered_cleared (pn pd : Z) : machine (list Z) :=
  {| m_init := [];
     m_step := fun buf i => let '(_, o) := m_step (pct_buffered pn pd) [] i in ([], o) |}.
(* sum / count that keep their accumulator in the aggregator value *)
Definition sum_running : machine Z :=
  {| m_init := 0; m_step := fun acc i => let t := fold_left Z.add (snd i) acc in (t, Ok (ints [t])) |}.
Definition count_running : machine Z :=
  {| m_init := 0; m_step := fun acc i => let t := acc + Z.of_nat (length (snd i)) in (t, Ok (ints [t])) |}.
(* min that remembers the best value seen so far *)
Definition min_remembering : machine (option Z) :=
  {| m_init := None;
     m_step := fun best i =>
       let l := match best with Some b => b :: snd i | None => snd i end in
       match agg_min l with [m] => (Some m, Ok (ints [m])) | _ => (best, Ok []) end |}.

