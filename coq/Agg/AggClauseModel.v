(* Executable model of ONE `agg` body item of a rule, as the generated code evaluates it (C17, program level):

      agg s = AGGREGATOR(x) in rel(k1, .., x, .., _)

   ascent_macro/src/ascent_codegen.rs (compile_mir_rule_inner, MirBodyItem::Agg): the key columns (every argument
   that is neither a wildcard nor the aggregated variable) are evaluated in the current binding, the matching rows
   of the relation are looked up through the index on those columns, the aggregated column of each matching row is
   handed to the aggregator function of ascent/src/aggregators.rs (Agg/AggModel.v), and the rest of the rule body
   runs once per value the aggregator yields.  The aggregator is called for EVERY binding that reaches the item,
   also when no row matches and also when the relation holds no row at all; the rule-level "some relation is
   empty" short circuit looks at the relations of the body CLAUSES only ([rule_guard] below).

   A relation is the list of its rows; a row is the list of its column values.  No proofs here. *)
From Coq Require Import List ZArith Bool.
From AV Require Import Agg.AggModel.
Import ListNotations.
Open Scope Z_scope.

Definition row := list Z.
(* one entry per column: Some v = key column whose value in the current binding is v; None = wildcard or aggregated column *)
Definition pat := list (option Z).

Fixpoint row_matches (p : pat) (r : row) : bool :=
  match p, r with
  | [], [] => true
  | Some v :: p', x :: r' => Z.eqb v x && row_matches p' r'
  | None :: p', _ :: r' => row_matches p' r'
  | _, _ => false
  end.

Definition matching (p : pat) (rows : list row) : list row := filter (row_matches p) rows.
(* the aggregated column of the matching rows, in row order (a multiset: the projection keeps repeated values) *)
Definition group (p : pat) (col : nat) (rows : list row) : list Z := map (fun r => nth col r 0) (matching p rows).

Inductive aggk := AMin | AMax | ASum | ACount | AMean | APct (pn pd : Z) | ANot.

(* values the aggregator yields, each as the rational (numerator, denominator): integers are (n, 1), mean is
   (sum, count), the unit of not() is (0, 1).  count: the size hint of the generated iterator is not observable at
   program level; (0, None) makes the model count the rows (Props/C17.v c17_count: every legal hint gives the same) *)
Definition ints (l : list Z) : list (Z * Z) := map (fun x => (x, 1)) l.
Definition agg_clause (k : aggk) (p : pat) (col : nat) (rows : list row) : res (list (Z * Z)) :=
  let g := group p col rows in
  let n := Z.of_nat (length (matching p rows)) in
  match k with
  | AMin => Ok (ints (agg_min g))
  | AMax => Ok (ints (agg_max g))
  | ASum => Ok (ints (agg_sum g))
  | ACount => Ok (ints (agg_count (0, None) n))
  | AMean => Ok (agg_mean g)
  | APct pn pd => match agg_percentile pn pd g with Ok l => Ok (ints l) | Panic => Panic end
  | ANot => Ok (ints (agg_not n))
  end.

(* the generated short circuit of a rule with several body clauses: nothing is derived when the relation of some
   body CLAUSE is empty, otherwise the body is evaluated *)
Definition is_nil {A} (l : list A) : bool := match l with [] => true | _ => false end.
Definition rule_guard {A} (clause_rels : list (list row)) (body : list A) : list A :=
  if existsb is_nil clause_rels then [] else body.

(* the variant a code generator must NOT use: the aggregated relation takes part in the short circuit *)
Definition agg_clause_skipping_empty_rel (k : aggk) (p : pat) (col : nat) (rows : list row) : res (list (Z * Z)) :=
  if is_nil rows then Ok [] else agg_clause k p col rows.
