(* Executable model of ascent/src/aggregators.rs (C17; used by C04).
   Column values are Z.  A tuple stream is the list of its bound-column values
   in iteration order.  Proofs live in AggLaws.v so that this file still runs
   when a proof breaks. *)
From Coq Require Import List ZArith Bool Sorting.Mergesort Orders.
Import ListNotations.
Open Scope Z_scope.

Inductive res (A : Type) : Type := Ok (a : A) | Panic.
Arguments Ok {A} a.
Arguments Panic {A}.

(* inp.map(|t| t.0).min().cloned().into_iter() *)
Definition agg_min (l : list Z) : list Z :=
  match l with [] => [] | x :: xs => [fold_left Z.min xs x] end.

Definition agg_max (l : list Z) : list Z :=
  match l with [] => [] | x :: xs => [fold_left Z.max xs x] end.

(* inp.map(..).cloned().sum::<N>(); once(sum).  Unbounded Z: the no-overflow
   precondition on N is stated in the trusted base, not in the model. *)
Definition agg_sum (l : list Z) : list Z := [fold_left Z.add l 0].

(* count: trusts size_hint when floor == ceiling (ceiling None => usize::MAX),
   otherwise iterates.  [n] is the true number of items of the iterator. *)
Definition usize_max : Z := 18446744073709551615.
Definition agg_count (hint : Z * option Z) (n : Z) : list Z :=
  let lo := fst hint in
  let hi := match snd hint with Some h => h | None => usize_max end in
  [if Z.eqb lo hi then lo else n].

(* mean: fold (sum, count); None when count = 0, else sum / count (an f64 in the
   code; here the exact rational as the pair (sum, count)). *)
Definition agg_mean (l : list Z) : list (Z * Z) :=
  let '(s, c) := fold_left (fun '(s, c) x => (x + s, c + 1)) l (0, 0) in
  if Z.eqb c 0 then [] else [(s, c)].

(* percentile(p): sort, index = ((len as f64 * p / 100.0) as usize).min(len.saturating_sub(1)),
   then swap_remove(index) when non-empty.
   p is the rational pn / pd with pd > 0.  `as usize` saturates negatives to 0. *)
Module ZOrder <: TotalLeBool.
  Definition t := Z.
  Definition leb := Z.leb.
  Theorem leb_total : forall a1 a2, leb a1 a2 = true \/ leb a2 a1 = true.
  Proof. intros a b; unfold leb; destruct (Z.leb_spec a b); [now left|right; apply Z.leb_le; apply Z.lt_le_incl; assumption]. Qed.
End ZOrder.
Module ZSort := Sort ZOrder.

Definition pct_index (pn pd len : Z) : Z := Z.min (Z.max 0 ((len * pn) / (pd * 100))) (Z.max 0 (len - 1)).

Definition agg_percentile (pn pd : Z) (l : list Z) : res (list Z) :=
  let sorted := ZSort.sort l in
  let len := Z.of_nat (length sorted) in
  let idx := pct_index pn pd len in
  if Z.eqb len 0 then Ok []
  else match nth_error sorted (Z.to_nat idx) with   (* swap_remove panics when idx >= len *)
       | Some x => Ok [x]
       | None => Panic
       end.

(* not(): Some(()) iff the iterator is empty; unit rendered as 0 *)
Definition agg_not (n : Z) : list Z := if Z.eqb n 0 then [0] else [].
