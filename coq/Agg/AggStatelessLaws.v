(* C17: laws of Agg/AggStateless.v -- applications of one aggregator value are independent; variants that carry state
   between applications are refuted. *)
From Coq Require Import List ZArith Bool Lia.
From AV Require Import Agg.AggModel.
From AV Require Import Agg.AggLaws.
From AV Require Import Agg.AggClauseModel.
From AV Require Import Agg.AggStateless.
Import ListNotations.
Open Scope Z_scope.


(* a machine whose results do not depend on its state IS a function of the input of each application *)
Lemma run_from_output_only {S} (m : machine S) (f : ainput -> aresult) :
  (forall s i, snd (m_step m s i) = f i) -> forall ins s, run_from m s ins = map f ins.
Proof.
  intros H ins; induction ins as [|i rest IH]; intros s; [reflexivity|].
  cbn [run_from map]. specialize (H s i). destruct (m_step m s i) as [s' o]. cbn [snd] in H. now rewrite H, IH.
Qed.

Lemma stateless_machine_is_map {S} (m : machine S) (f : ainput -> aresult) :
  (forall s i, snd (m_step m s i) = f i) -> forall ins, run_seq m ins = map f ins.
Proof. intros H ins; exact (run_from_output_only m f H ins (m_init m)). Qed.

(* applications of one aggregator value are independent: the sequence of results is the definition per input *)
Lemma agg_seq_independent k ins : agg_seq k ins = map (agg_apply k) ins.
Proof. apply (stateless_machine_is_map (code_machine k)); intros s i; reflexivity. Qed.

(* ... in particular the result of an application does not depend on what was aggregated before or after it *)
Lemma agg_seq_nth k pre i post : nth_error (agg_seq k (pre ++ i :: post)) (length pre) = Some (agg_apply k i).
Proof.
  rewrite agg_seq_independent, map_app. cbn [map].
  rewrite nth_error_app2 by (rewrite map_length; lia). rewrite map_length, Nat.sub_diag. reflexivity.
Qed.
Lemma agg_seq_length k ins : length (agg_seq k ins) = length ins.
Proof. rewrite agg_seq_independent; apply map_length. Qed.

(* the clauses of the property at an arbitrary position of an arbitrary sequence *)
Lemma agg_seq_empty_input k pre h post :
  nth_error (agg_seq k (pre ++ (h, []) :: post)) (length pre) =
  Some (match k with
        | ASum => Ok [(0, 1)]
        | ANot => Ok [(0, 1)]
        | ACount => Ok (ints (agg_count h 0))
        | _ => Ok []
        end).
Proof. rewrite agg_seq_nth. destruct k; reflexivity. Qed.

Lemma agg_seq_percentile_rank pn pd pre h l post : l <> [] -> 0 < pd -> 0 <= pn <= 100 * pd ->
  exists x, nth_error (agg_seq (APct pn pd) (pre ++ (h, l) :: post)) (length pre) = Some (Ok [(x, 1)]) /\ In x l /\
            rank_elem (Z.min ((zlen l * pn) / (pd * 100)) (zlen l - 1)) l = Some x.
Proof.
  intros N P R. destruct (agg_percentile_rank pn pd l N P R) as [x [E [I K]]].
  exists x. split; [|split; assumption]. rewrite agg_seq_nth. unfold agg_apply. cbn [snd]. rewrite E. reflexivity.
Qed.

Lemma agg_seq_min_max pre h l post : l <> [] ->
  (exists m, nth_error (agg_seq AMin (pre ++ (h, l) :: post)) (length pre) = Some (Ok [(m, 1)]) /\ is_min m l) /\
  (exists m, nth_error (agg_seq AMax (pre ++ (h, l) :: post)) (length pre) = Some (Ok [(m, 1)]) /\ is_max m l).
Proof.
  intros N. split.
  - destruct (agg_min_spec l N) as [m [E M]]. exists m. split; [|exact M]. rewrite agg_seq_nth. unfold agg_apply. cbn [snd]. rewrite E. reflexivity.
  - destruct (agg_max_spec l N) as [m [E M]]. exists m. split; [|exact M]. rewrite agg_seq_nth. unfold agg_apply. cbn [snd]. rewrite E. reflexivity.
Qed.

Lemma agg_seq_sum_count_mean pre h l post :
  nth_error (agg_seq ASum (pre ++ (h, l) :: post)) (length pre) = Some (Ok [(zsum l, 1)]) /\
  (hint_ok h (zlen l) -> nth_error (agg_seq ACount (pre ++ (h, l) :: post)) (length pre) = Some (Ok [(zlen l, 1)])) /\
  (l <> [] -> nth_error (agg_seq AMean (pre ++ (h, l) :: post)) (length pre) = Some (Ok [(zsum l, zlen l)])).
Proof.
  split; [|split].
  - rewrite agg_seq_nth. unfold agg_apply. cbn [snd]. rewrite agg_sum_spec. reflexivity.
  - intros H. rewrite agg_seq_nth. unfold agg_apply. cbn [fst snd]. fold (zlen l). rewrite (agg_count_spec h (zlen l) H). reflexivity.
  - intros N. rewrite agg_seq_nth. unfold agg_apply. cbn [snd]. destruct (agg_mean_nonempty l N) as [E _]. rewrite E. reflexivity.
Qed.

(* the buffer that is cleared before it is handed back is harmless *)
Lemma pct_buffered_cleared_is_first_application pn pd ins :
  run_seq (pct_buffered_cleared pn pd) ins = map (fun i => match run_seq (pct_buffered pn pd) [i] with [o] => o | _ => Panic end) ins.
Proof.
  apply (stateless_machine_is_map (pct_buffered_cleared pn pd)). intros s i. reflexivity.
Qed.

(* ---- the stateful variants are refuted (valid p, closed witnesses) ---- *)
Definition nohint : Z * option Z := (0, None).
Definition w_seq : list ainput := [(nohint, [40; 10; 30; 20]); (nohint, [3; 1; 2]); (nohint, []); (nohint, [7])].

Lemma pct_buffered_refuted : exists pn pd ins, 0 < pd /\ 0 <= pn <= 100 * pd /\
  run_seq (pct_buffered pn pd) ins <> agg_seq (APct pn pd) ins.
Proof. exists 50, 1, w_seq. split; [lia|split; [lia|]]. vm_compute. discriminate. Qed.

(* what goes wrong, on the witness: a wrong rank, a value on empty input, a value that is no element of the input *)
Example pct_buffered_witness :
  agg_seq (APct 50 1) w_seq = [Ok [(30, 1)]; Ok [(2, 1)]; Ok []; Ok [(7, 1)]] /\
  run_seq (pct_buffered 50 1) w_seq = [Ok [(30, 1)]; Ok [(3, 1)]; Ok [(2, 1)]; Ok [(7, 1)]] /\
  run_seq (pct_buffered 100 1) w_seq = [Ok [(40, 1)]; Ok [(30, 1)]; Ok [(20, 1)]; Ok [(10, 1)]] /\
  run_seq (pct_buffered 0 1) w_seq = agg_seq (APct 0 1) w_seq /\
  run_seq (pct_buffered_cleared 50 1) w_seq = agg_seq (APct 50 1) w_seq.
Proof. vm_compute. repeat split. Qed.

Lemma running_variants_refuted :
  (exists ins, run_seq sum_running ins <> agg_seq ASum ins) /\
  (exists ins, run_seq count_running ins <> agg_seq ACount ins) /\
  (exists ins, run_seq min_remembering ins <> agg_seq AMin ins).
Proof.
  split; [|split].
  - exists [(nohint, [1]); (nohint, [1])]. vm_compute. discriminate.
  - exists [(nohint, [1]); (nohint, [])]. vm_compute. discriminate.
  - exists [(nohint, [0]); (nohint, [1])]. vm_compute. discriminate.
Qed.
