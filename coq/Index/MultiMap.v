(* Abstract specification for C19: multimaps (key -> multiset of values) and sets,
   represented as lists compared up to Permutation.  Keys and values are Z.
   This file is the *specification* side: the operations are the obvious ones on
   lists of entries, and the laws below say that they form a multimap / a set. *)
From Coq Require Import List ZArith Bool Lia Permutation.
Import ListNotations.
Open Scope Z_scope.

(* ------------------------------------------------------------------ multimap *)
Definition entry : Type := (Z * Z)%type.
Definition mmap : Type := list entry.

Definition mm_eq (a b : mmap) : Prop := Permutation a b.
Definition mm_empty : mmap := [].
Definition mm_insert (k v : Z) (m : mmap) : mmap := (k, v) :: m.
Definition mm_union (a b : mmap) : mmap := a ++ b.
Definition key_is (k : Z) (e : entry) : bool := fst e =? k.
(* lookup: the values stored under k (a multiset, as a list) *)
Definition mm_lookup (k : Z) (m : mmap) : list Z := map snd (filter (key_is k) m).
(* iteration: every entry once *)
Definition mm_entries (m : mmap) : list entry := m.
Definition mm_has_key (k : Z) (m : mmap) : bool := existsb (key_is k) m.
(* the distinct keys *)
Definition mm_keys (m : mmap) : list Z := nodup Z.eq_dec (map fst m).
(* the multimap holding exactly a list of inserts (in order of insertion) *)
Definition mm_of_inserts (l : list (Z * Z)) : mmap := l.

Lemma mm_lookup_app k a b : mm_lookup k (a ++ b) = mm_lookup k a ++ mm_lookup k b.
Proof. unfold mm_lookup. now rewrite filter_app, map_app. Qed.

Lemma mm_lookup_perm k a b : Permutation a b -> Permutation (mm_lookup k a) (mm_lookup k b).
Proof.
  intros P. unfold mm_lookup. apply Permutation_map.
  induction P as [|x a b P IH|x y a|a b c P1 IH1 P2 IH2]; cbn [filter].
  - constructor.
  - destruct (key_is k x); [now constructor|assumption].
  - destruct (key_is k x), (key_is k y); try reflexivity. apply perm_swap.
  - now transitivity (filter (key_is k) b).
Qed.

Lemma mm_lookup_insert k k' v m :
  mm_lookup k' (mm_insert k v m) = if k =? k' then v :: mm_lookup k' m else mm_lookup k' m.
Proof. unfold mm_lookup, mm_insert, key_is. cbn [filter fst]. now destruct (k =? k'). Qed.

Lemma mm_lookup_union k a b : mm_lookup k (mm_union a b) = mm_lookup k a ++ mm_lookup k b.
Proof. apply mm_lookup_app. Qed.

Lemma mm_lookup_empty k : mm_lookup k mm_empty = [].
Proof. reflexivity. Qed.

Lemma mm_lookup_in k v m : In v (mm_lookup k m) <-> In (k, v) m.
Proof.
  unfold mm_lookup. rewrite in_map_iff. split.
  - intros [[k' v'] [E H]]. apply filter_In in H as [H K]. unfold key_is in K. cbn in *.
    apply Z.eqb_eq in K. now subst.
  - intros H. exists (k, v). split; [reflexivity|]. apply filter_In. split; [assumption|].
    unfold key_is. cbn. apply Z.eqb_refl.
Qed.

Lemma mm_has_key_lookup k m : mm_has_key k m = negb (match mm_lookup k m with [] => true | _ => false end).
Proof.
  unfold mm_has_key, mm_lookup. induction m as [|e m IH]; [reflexivity|]. cbn [existsb filter].
  destruct (key_is k e); [reflexivity|]. cbn [orb]. exact IH.
Qed.

Lemma mm_has_key_perm k a b : Permutation a b -> mm_has_key k a = mm_has_key k b.
Proof.
  intros P. unfold mm_has_key. induction P as [|x a b P IH|x y a|a b c P1 IH1 P2 IH2]; cbn [existsb].
  - reflexivity.
  - now rewrite IH.
  - destruct (key_is k x), (key_is k y); reflexivity.
  - now rewrite IH1.
Qed.

(* number of entries: what an exact length reports *)
Definition mm_size (m : mmap) : Z := Z.of_nat (length m).
Lemma mm_size_perm a b : Permutation a b -> mm_size a = mm_size b.
Proof. intros P. unfold mm_size. now rewrite (Permutation_length P). Qed.

(* ------------------------------------------------------------------ sets *)
(* A finite set is a duplicate-free list; two sets are equal when they are
   permutations of each other.  Used for the full index (set of keys, each with
   one value), and for the lattice indices (set of (key, row) pairs). *)
Section SetSpec.
  Variable A : Type.
  Variable eqb : A -> A -> bool.
  Variable eqb_spec : forall a b, eqb a b = true <-> a = b.

  Definition set_mem (x : A) (s : list A) : bool := existsb (eqb x) s.
  Definition set_ins (x : A) (s : list A) : list A := if set_mem x s then s else x :: s.
  Definition set_union (a b : list A) : list A := a ++ filter (fun x => negb (set_mem x a)) b.
  Definition set_eq (a b : list A) : Prop := NoDup a /\ NoDup b /\ Permutation a b.

  Lemma set_mem_In x s : set_mem x s = true <-> In x s.
  Proof.
    unfold set_mem. rewrite existsb_exists. split.
    - intros [y [H E]]. apply eqb_spec in E. now subst.
    - intros H. exists x. split; [assumption|]. now apply eqb_spec.
  Qed.

  Lemma set_mem_false x s : set_mem x s = false <-> ~ In x s.
  Proof.
    rewrite <- set_mem_In. destruct (set_mem x s); split; intro H;
      [discriminate | exfalso; apply H; reflexivity | intro; discriminate | reflexivity].
  Qed.

  Lemma set_ins_In x y s : In y (set_ins x s) <-> y = x \/ In y s.
  Proof.
    unfold set_ins. destruct (set_mem x s) eqn:E.
    - apply set_mem_In in E. split; [now right|]. intros [->|H]; assumption.
    - cbn. split; intros [H|H]; auto.
  Qed.

  Lemma set_ins_NoDup x s : NoDup s -> NoDup (set_ins x s).
  Proof.
    intros N. unfold set_ins. destruct (set_mem x s) eqn:E; [assumption|].
    constructor; [|assumption]. now apply set_mem_false.
  Qed.

  Lemma set_union_In x a b : In x (set_union a b) <-> In x a \/ In x b.
  Proof.
    unfold set_union. rewrite in_app_iff, filter_In. split.
    - intros [H|[H _]]; auto.
    - intros [H|H]; [now left|]. destruct (set_mem x a) eqn:E.
      + left. now apply set_mem_In.
      + right. split; [assumption|reflexivity].
  Qed.

  Lemma NoDup_app_disj (a b : list A) : NoDup a -> NoDup b -> (forall x, In x a -> ~ In x b) -> NoDup (a ++ b).
  Proof.
    intros Na Nb D. induction a as [|x a IH]; [assumption|]. inversion Na as [|? ? Hx Na']; subst.
    cbn [app]. constructor.
    - rewrite in_app_iff. intros [H|H]; [contradiction|]. apply (D x); [now left|assumption].
    - apply IH; [assumption|]. intros y Hy. apply D. now right.
  Qed.

  Lemma set_union_NoDup a b : NoDup a -> NoDup b -> NoDup (set_union a b).
  Proof.
    intros Na Nb. unfold set_union. apply NoDup_app_disj; [assumption|now apply NoDup_filter|].
    intros x Hx Hf. apply filter_In in Hf as [_ Hm]. apply negb_true_iff in Hm.
    apply set_mem_false in Hm. contradiction.
  Qed.

  Lemma set_eq_refl s : NoDup s -> set_eq s s.
  Proof. intros N. repeat split; auto. Qed.

  Lemma set_eq_of_In a b : NoDup a -> NoDup b -> (forall x, In x a <-> In x b) -> set_eq a b.
  Proof. intros Na Nb H. repeat split; try assumption. apply NoDup_Permutation; assumption. Qed.
End SetSpec.

Arguments set_mem {A} eqb x s.
Arguments set_ins {A} eqb x s.
Arguments set_union {A} eqb a b.
Arguments set_eq {A} a b.

Definition entry_eqb (a b : entry) : bool := (fst a =? fst b) && (snd a =? snd b).
Lemma entry_eqb_spec a b : entry_eqb a b = true <-> a = b.
Proof.
  destruct a as [a1 a2], b as [b1 b2]. unfold entry_eqb. cbn [fst snd]. rewrite andb_true_iff, !Z.eqb_eq.
  split; [intros [-> ->]; reflexivity|intros E; inversion E; auto].
Qed.
Lemma zeqb_spec a b : (a =? b) = true <-> a = b.
Proof. apply Z.eqb_eq. Qed.

(* set of (key,row) pairs — the lattice indices *)
Definition ps_ins (k v : Z) (s : list entry) : list entry := set_ins entry_eqb (k, v) s.
Definition ps_union (a b : list entry) : list entry := set_union entry_eqb a b.
(* set of keys — the full index *)
Definition ks_ins (k : Z) (s : list Z) : list Z := set_ins Z.eqb k s.
Definition ks_union (a b : list Z) : list Z := set_union Z.eqb a b.
Definition ks_mem (k : Z) (s : list Z) : bool := set_mem Z.eqb k s.
