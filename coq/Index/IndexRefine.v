(* C19 proofs, serial types: the abstraction from each concrete index type of IndexModel.v to the
   multimap / set specification of MultiMap.v commutes with every operation, for every order oracle. *)
From Coq Require Import List ZArith Bool Lia Permutation.
From AV Require Import Index.MultiMap.
From AV Require Import Index.IndexModel.
Import ListNotations.
Open Scope Z_scope.

(* the order oracle: how a hash map / hash set happens to be iterated or drained *)
Definition oracle : Type := forall A : Type, list A -> list A.
Definition permuting (sh : oracle) : Prop := forall A (l : list A), Permutation (sh A l) l.

Lemma sh_rev_permuting : permuting sh_rev.
Proof. intros A l. unfold sh_rev. apply Permutation_sym, Permutation_rev. Qed.
Lemma sh_id_permuting : permuting sh_id.
Proof. intros A l. reflexivity. Qed.

(* ------------------------------------------------------------------ generic list facts *)
Lemma NoDup_app_disj' {A} (a b : list A) : NoDup a -> NoDup b -> (forall x, In x a -> ~ In x b) -> NoDup (a ++ b).
Proof.
  intros Na Nb D. induction a as [|x a IH]; [assumption|]. inversion Na as [|? ? Hx Na']; subst.
  cbn [app]. constructor.
  - rewrite in_app_iff. intros [H|H]; [contradiction|]. apply (D x); [now left|assumption].
  - apply IH; [assumption|]. intros y Hy. apply D. now right.
Qed.

Lemma NoDup_app_inv {A} (a b : list A) : NoDup (a ++ b) -> NoDup a /\ NoDup b /\ (forall x, In x a -> ~ In x b).
Proof.
  induction a as [|x a IH]; cbn [app]; intros N.
  - repeat split; [constructor|assumption|intros x []].
  - inversion N as [|? ? Hx N']; subst. destruct (IH N') as [Na [Nb D]]. repeat split.
    + constructor; [|assumption]. intros H. apply Hx. apply in_app_iff. now left.
    + assumption.
    + intros y [<-|Hy] Hb; [apply Hx; apply in_app_iff; now right|]. exact (D y Hy Hb).
Qed.

Lemma NoDup_map_pair {A B} (k : A) (l : list B) : NoDup l -> NoDup (map (pair k) l).
Proof.
  intros N. induction N as [|x l Hx N IH]; cbn [map]; constructor; [|assumption].
  rewrite in_map_iff. intros [y [E Hy]]. inversion E; subst. contradiction.
Qed.

(* ------------------------------------------------------------------ abstraction of key -> vector maps *)
Definition ent (kv : Z * list Z) : list entry := map (pair (fst kv)) (snd kv).
Definition hv_abs (m : list (Z * list Z)) : mmap := flat_map ent m.
Definition hv_keys (m : list (Z * list Z)) : list Z := map fst m.
(* reachable states: distinct keys, no empty vector *)
Definition hv_wf (m : list (Z * list Z)) : Prop := NoDup (hv_keys m) /\ Forall (fun kv => snd kv <> []) m.

Lemma hv_abs_cons k vs r : hv_abs ((k, vs) :: r) = map (pair k) vs ++ hv_abs r.
Proof. reflexivity. Qed.

Lemma hv_abs_app a b : hv_abs (a ++ b) = hv_abs a ++ hv_abs b.
Proof. unfold hv_abs. apply flat_map_app. Qed.

Lemma hv_abs_perm a b : Permutation a b -> Permutation (hv_abs a) (hv_abs b).
Proof. intros P. unfold hv_abs. now apply Permutation_flat_map. Qed.

Lemma lookup_map_pair k k' (vs : list Z) : mm_lookup k (map (pair k') vs) = if k' =? k then vs else [].
Proof.
  unfold mm_lookup, key_is. induction vs as [|v vs IH]; cbn [map filter fst].
  - now destruct (k' =? k).
  - destruct (k' =? k) eqn:E; cbn [map snd]; rewrite IH; reflexivity.
Qed.

Lemma in_hv_abs k v m : In (k, v) (hv_abs m) <-> exists vs, In (k, vs) m /\ In v vs.
Proof.
  unfold hv_abs. rewrite in_flat_map. split.
  - intros [[k' vs] [H1 H2]]. unfold ent in H2. cbn [fst snd] in H2. apply in_map_iff in H2 as [v' [E H2]].
    inversion E; subst. exists vs. split; assumption.
  - intros [vs [H1 H2]]. exists (k, vs). split; [assumption|]. unfold ent. cbn [fst snd]. now apply in_map.
Qed.

Lemma lookup_absent k m : ~ In k (hv_keys m) -> mm_lookup k (hv_abs m) = [].
Proof.
  induction m as [|[k' vs] r IH]; intros H; [reflexivity|]. rewrite hv_abs_cons, mm_lookup_app, lookup_map_pair.
  cbn [hv_keys map fst In] in H. destruct (Z.eqb_spec k' k) as [->|N].
  - exfalso. apply H. now left.
  - cbn [app]. apply IH. intros Hin. apply H. now right.
Qed.

Lemma hv_get_In k vs m : hv_get k m = Some vs -> In (k, vs) m.
Proof.
  induction m as [|[k' vs'] r IH]; cbn [hv_get]; [discriminate|]. destruct (Z.eqb_spec k' k) as [->|N].
  - intros E. inversion E; subst. now left.
  - intros E. right. now apply IH.
Qed.

Lemma hv_get_None k m : hv_get k m = None <-> ~ In k (hv_keys m).
Proof.
  induction m as [|[k' vs'] r IH]; cbn [hv_get hv_keys map fst In].
  - split; [intros _ []|reflexivity].
  - destruct (Z.eqb_spec k' k) as [->|N].
    + split; [discriminate|]. intros H. exfalso. apply H. now left.
    + rewrite IH. unfold hv_keys. split; [intros H [E|H']; [congruence|contradiction]|intros H H'; apply H; now right].
Qed.

Lemma In_hv_get k vs m : NoDup (hv_keys m) -> In (k, vs) m -> hv_get k m = Some vs.
Proof.
  induction m as [|[k' vs'] r IH]; intros N H; [destruct H|]. cbn [hv_get]. cbn [hv_keys map fst] in N.
  inversion N as [|? ? Hk N']; subst. destruct H as [E|H].
  - inversion E; subst. now rewrite Z.eqb_refl.
  - destruct (Z.eqb_spec k' k) as [->|Ne]; [|now apply IH].
    exfalso. apply Hk. change (In k (map fst r)). apply in_map_iff. exists (k, vs). split; [reflexivity|assumption].
Qed.

(* index_get returns exactly the values stored under the key (same order, with multiplicity) *)
Lemma hv_lookup_abs k m : NoDup (hv_keys m) -> mm_lookup k (hv_abs m) = flat_opt (hv_get k m).
Proof.
  induction m as [|[k' vs] r IH]; intros N; [reflexivity|]. cbn [hv_keys map fst] in N.
  inversion N as [|? ? Hk N']; subst. rewrite hv_abs_cons, mm_lookup_app, lookup_map_pair. cbn [hv_get].
  destruct (Z.eqb_spec k' k) as [->|Ne].
  - cbn [flat_opt]. rewrite lookup_absent; [apply app_nil_r|exact Hk].
  - cbn [app]. now apply IH.
Qed.

Lemma hv_get_spec k m : hv_wf m ->
  match hv_get k m with
  | Some vs => vs = mm_lookup k (hv_abs m) /\ vs <> []
  | None => mm_lookup k (hv_abs m) = []
  end.
Proof.
  intros [N F]. rewrite (hv_lookup_abs k m N). destruct (hv_get k m) as [vs|] eqn:E; [|reflexivity].
  split; [reflexivity|]. apply hv_get_In in E. rewrite Forall_forall in F. exact (F _ E).
Qed.

Lemma hv_get_perm k a b : NoDup (hv_keys a) -> Permutation a b -> hv_get k a = hv_get k b.
Proof.
  intros N P. assert (Nb : NoDup (hv_keys b)) by (eapply Permutation_NoDup; [apply Permutation_map; exact P|exact N]).
  destruct (hv_get k a) as [vs|] eqn:E.
  - symmetry. apply In_hv_get; [assumption|]. eapply Permutation_in; [exact P|]. now apply hv_get_In.
  - symmetry. apply hv_get_None. apply hv_get_None in E. intros H. apply E.
    eapply Permutation_in; [apply Permutation_sym; apply Permutation_map; exact P|exact H].
Qed.

Lemma hv_wf_perm a b : Permutation a b -> hv_wf a -> hv_wf b.
Proof.
  intros P [N F]. split.
  - eapply Permutation_NoDup; [apply Permutation_map; exact P|exact N].
  - eapply Permutation_Forall; eassumption.
Qed.

(* ---- index_insert *)
Lemma hv_insert_abs k v m : Permutation (hv_abs (hv_insert k v m)) (mm_insert k v (hv_abs m)).
Proof.
  unfold mm_insert. induction m as [|[k' vs] r IH]; cbn [hv_insert].
  - cbn. reflexivity.
  - destruct (Z.eqb_spec k' k) as [->|Ne].
    + rewrite !hv_abs_cons, map_app. cbn [map]. rewrite <- app_assoc. cbn [app].
      apply Permutation_sym. apply Permutation_middle.
    + rewrite !hv_abs_cons. rewrite IH. apply Permutation_sym. apply Permutation_middle.
Qed.

Lemma hv_insert_keys k v m x : In x (hv_keys (hv_insert k v m)) <-> x = k \/ In x (hv_keys m).
Proof.
  induction m as [|[k' vs] r IH]; cbn [hv_insert hv_keys map fst In].
  - intuition.
  - destruct (Z.eqb_spec k' k) as [->|Ne]; cbn [hv_keys map fst In].
    + intuition.
    + unfold hv_keys in IH. rewrite IH. intuition.
Qed.

Lemma hv_insert_wf k v m : hv_wf m -> hv_wf (hv_insert k v m).
Proof.
  intros [N F]. induction m as [|[k' vs] r IH]; cbn [hv_insert].
  - split; [cbn; constructor; [intros []|constructor]|constructor; [cbn; discriminate|constructor]].
  - cbn [hv_keys map fst] in N. inversion N as [|? ? Hk N']; subst. inversion F as [|? ? Hv F']; subst.
    destruct (Z.eqb_spec k' k) as [->|Ne].
    + split; [exact N|]. constructor; [|assumption]. cbn [snd]. intros E. apply app_eq_nil in E as [_ E]. discriminate.
    + destruct (IH N' F') as [N2 F2]. split.
      * cbn [hv_keys map fst]. constructor; [|exact N2]. intros H. apply hv_insert_keys in H as [->|H]; [congruence|contradiction].
      * constructor; assumption.
Qed.

Lemma hv_get_insert k v k' m :
  hv_get k' (hv_insert k v m) = if k =? k' then Some (flat_opt (hv_get k m) ++ [v]) else hv_get k' m.
Proof.
  induction m as [|[k0 vs] r IH]; cbn [hv_insert hv_get].
  - destruct (Z.eqb_spec k k'); reflexivity.
  - destruct (Z.eqb_spec k0 k) as [->|Ne]; cbn [hv_get].
    + destruct (Z.eqb_spec k k'); reflexivity.
    + rewrite IH. destruct (Z.eqb_spec k k') as [->|Ne']; [|reflexivity].
      destruct (Z.eqb_spec k0 k'); [congruence|reflexivity].
Qed.

(* after any sequence of inserts, a lookup returns exactly the values inserted under the key, in order *)
Definition hv_of_inserts (l : list (Z * Z)) : hvec := fold_left (fun m kv => hv_insert (fst kv) (snd kv) m) l [].

Lemma hv_of_inserts_wf l : hv_wf (hv_of_inserts l).
Proof.
  unfold hv_of_inserts. assert (G : forall m, hv_wf m -> hv_wf (fold_left (fun m kv => hv_insert (fst kv) (snd kv) m) l m)).
  { induction l as [|kv l IH]; intros m W; [exact W|]. cbn [fold_left]. apply IH. now apply hv_insert_wf. }
  apply G. split; constructor.
Qed.

Lemma hv_of_inserts_abs l : Permutation (hv_abs (hv_of_inserts l)) (mm_of_inserts l).
Proof.
  unfold hv_of_inserts, mm_of_inserts.
  assert (G : forall m, Permutation (hv_abs (fold_left (fun m kv => hv_insert (fst kv) (snd kv) m) l m)) (l ++ hv_abs m)).
  { induction l as [|[k v] l IH]; intros m; [reflexivity|]. cbn [fold_left fst snd]. rewrite IH, hv_insert_abs.
    unfold mm_insert. cbn [app]. apply Permutation_sym, Permutation_middle. }
  rewrite G. cbn. now rewrite app_nil_r.
Qed.

Lemma hv_of_inserts_get l k :
  hv_get k (hv_of_inserts l) = match mm_lookup k l with [] => None | vs => Some vs end.
Proof.
  unfold hv_of_inserts.
  assert (G : forall m, flat_opt (hv_get k (fold_left (fun m kv => hv_insert (fst kv) (snd kv) m) l m)) = flat_opt (hv_get k m) ++ mm_lookup k l
              /\ (hv_get k (fold_left (fun m kv => hv_insert (fst kv) (snd kv) m) l m) = None -> hv_get k m = None /\ mm_lookup k l = [])).
  { induction l as [|[k0 v] l IH]; intros m.
    - cbn. rewrite app_nil_r. auto.
    - cbn [fold_left fst snd]. destruct (IH (hv_insert k0 v m)) as [E1 E2]. rewrite E1. rewrite hv_get_insert.
      change ((k0, v) :: l) with ([(k0, v)] ++ l). rewrite mm_lookup_app.
      unfold mm_lookup at 2 4. unfold key_is. cbn [filter fst map snd]. destruct (Z.eqb_spec k0 k) as [->|Ne].
      + cbn [flat_opt map snd]. rewrite <- app_assoc. split; [reflexivity|].
        intros H. apply E2 in H as [H _]. rewrite hv_get_insert, Z.eqb_refl in H. discriminate.
      + cbn [map app]. split; [reflexivity|]. intros H. apply E2 in H as [H1 H2]. rewrite hv_get_insert in H1.
        destruct (Z.eqb_spec k0 k); [congruence|]. auto. }
  destruct (G []) as [E1 E2]. cbn [hv_get flat_opt app] in E1.
  remember (hv_get k (fold_left (fun m kv => hv_insert (fst kv) (snd kv) m) l [])) as R eqn:E.
  destruct R as [vs|]; symmetry in E.
  - cbn [flat_opt] in E1. subst vs. destruct (mm_lookup k l) eqn:El; [|reflexivity].
    exfalso. pose proof (hv_of_inserts_wf l) as [_ F]. unfold hv_of_inserts in F. apply hv_get_In in E.
    rewrite Forall_forall in F. apply (F _ E). reflexivity.
  - destruct (E2 eq_refl) as [_ ->]. reflexivity.
Qed.

(* ---- len_estimate / is_empty / contains *)
Lemma hv_keys_spec m k : hv_wf m -> In k (hv_keys m) <-> mm_lookup k (hv_abs m) <> [].
Proof.
  intros W. pose proof (hv_get_spec k m W) as S. destruct (hv_get k m) as [vs|] eqn:E.
  - destruct S as [<- Hn]. split; [intros _; exact Hn|]. intros _. apply hv_get_In in E.
    change (In k (map fst m)). apply in_map_iff. exists (k, vs). auto.
  - rewrite S. apply hv_get_None in E. split; [contradiction|congruence].
Qed.

Lemma mm_keys_hv m : hv_wf m -> Permutation (mm_keys (hv_abs m)) (hv_keys m).
Proof.
  intros W. apply NoDup_Permutation; [apply NoDup_nodup|apply W|]. intros k. unfold mm_keys. rewrite nodup_In.
  rewrite (hv_keys_spec m k W). rewrite in_map_iff. split.
  - intros [[k' v] [E H]]. cbn in E. subst k'. intros Hn. apply (mm_lookup_in k v) in H. rewrite Hn in H. destruct H.
  - intros Hn. destruct (mm_lookup k (hv_abs m)) as [|v l] eqn:E; [congruence|]. exists (k, v). split; [reflexivity|].
    apply mm_lookup_in. rewrite E. now left.
Qed.

(* len_estimate = number of distinct keys *)
Lemma hv_len_spec m : hv_wf m -> hv_len m = zlen (mm_keys (hv_abs m)).
Proof.
  intros W. unfold hv_len, zlen. rewrite (Permutation_length (mm_keys_hv m W)). unfold hv_keys. now rewrite map_length.
Qed.

Lemma hv_is_empty_spec m : hv_wf m -> (hv_is_empty m = true <-> hv_abs m = []).
Proof.
  intros [_ F]. destruct m as [|[k vs] r]; cbn; [tauto|]. split; [discriminate|]. intros E.
  inversion F as [|? ? Hv _]; subst. cbn in Hv. destruct vs; [congruence|discriminate].
Qed.

Section Oracle.
  Variable sh : forall A : Type, list A -> list A.
  Hypothesis sh_perm : forall A (l : list A), Permutation (sh A l) l.

  (* ---- iter_all: every entry once, every key once *)
  Lemma hv_iter_all_abs m : Permutation (hv_abs (hv_iter_all sh m)) (mm_entries (hv_abs m)).
  Proof. unfold hv_iter_all, mm_entries. apply hv_abs_perm, sh_perm. Qed.

  Lemma hv_iter_all_keys m : hv_wf m -> NoDup (map fst (hv_iter_all sh m)).
  Proof. intros W. apply (hv_wf_perm m); [apply Permutation_sym, sh_perm|exact W]. Qed.

  Lemma hv_iter_all_entry m k vs : hv_wf m -> In (k, vs) (hv_iter_all sh m) -> vs = mm_lookup k (hv_abs m) /\ vs <> [].
  Proof.
    intros W H. assert (H' : In (k, vs) m) by (eapply Permutation_in; [apply sh_perm|exact H]).
    pose proof (hv_get_spec k m W) as S. rewrite (In_hv_get k vs m (proj1 W) H') in S. exact S.
  Qed.

  (* ---- move_index_contents *)
  Lemma hv_merge_entry_abs k v to : Permutation (hv_abs (hv_merge_entry k v to)) (map (pair k) v ++ hv_abs to).
  Proof.
    induction to as [|[k' e] r IH]; cbn [hv_merge_entry].
    - reflexivity.
    - destruct (Z.eqb_spec k' k) as [->|Ne].
      + rewrite !hv_abs_cons. destruct (length e <? length v)%nat; rewrite map_app, <- app_assoc; [reflexivity|].
        rewrite !app_assoc. apply Permutation_app_tail. apply Permutation_app_comm.
      + rewrite !hv_abs_cons, IH. rewrite !app_assoc. apply Permutation_app_tail. apply Permutation_app_comm.
  Qed.

  Lemma hv_merge_entry_keys k v to x : In x (hv_keys (hv_merge_entry k v to)) <-> x = k \/ In x (hv_keys to).
  Proof.
    induction to as [|[k' e] r IH]; cbn [hv_merge_entry hv_keys map fst In].
    - intuition.
    - destruct (Z.eqb_spec k' k) as [->|Ne]; cbn [hv_keys map fst In].
      + intuition.
      + unfold hv_keys in IH. rewrite IH. intuition.
  Qed.

  Lemma hv_merge_entry_wf k v to : v <> [] -> hv_wf to -> hv_wf (hv_merge_entry k v to).
  Proof.
    intros Hv [N F]. induction to as [|[k' e] r IH]; cbn [hv_merge_entry].
    - split; [cbn; constructor; [intros []|constructor]|constructor; [exact Hv|constructor]].
    - cbn [hv_keys map fst] in N. inversion N as [|? ? Hk N']; subst. inversion F as [|? ? He F']; subst.
      destruct (Z.eqb_spec k' k) as [->|Ne].
      + split; [exact N|]. constructor; [|assumption]. cbn [snd] in *.
        destruct (length e <? length v)%nat; intros E; apply app_eq_nil in E as [E1 E2]; congruence.
      + destruct (IH N' F') as [N2 F2]. split.
        * cbn [hv_keys map fst]. constructor; [|exact N2]. intros H. apply hv_merge_entry_keys in H as [->|H]; [congruence|contradiction].
        * constructor; assumption.
  Qed.

  (* the exact vector kept for a key: the longer one first (ties: destination first) *)
  Lemma hv_get_merge_entry k v to k' :
    hv_get k' (hv_merge_entry k v to) =
      if k =? k' then match hv_get k to with
                      | Some e => Some (if (length e <? length v)%nat then v ++ e else e ++ v)
                      | None => Some v end
      else hv_get k' to.
  Proof.
    induction to as [|[k0 e] r IH]; cbn [hv_merge_entry hv_get].
    - destruct (Z.eqb_spec k k'); reflexivity.
    - destruct (Z.eqb_spec k0 k) as [->|Ne]; cbn [hv_get].
      + destruct (Z.eqb_spec k k'); reflexivity.
      + rewrite IH. destruct (Z.eqb_spec k k') as [->|Ne']; [|reflexivity].
        destruct (Z.eqb_spec k0 k'); [congruence|reflexivity].
  Qed.

  Definition hv_fold (l to : hvec) : hvec := fold_left (fun t kv => hv_merge_entry (fst kv) (snd kv) t) l to.

  Lemma hv_fold_abs l : forall to, Permutation (hv_abs (hv_fold l to)) (hv_abs l ++ hv_abs to).
  Proof.
    induction l as [|[k v] l IH]; intros to; [reflexivity|]. unfold hv_fold in *. cbn [fold_left fst snd].
    rewrite IH, hv_merge_entry_abs, hv_abs_cons. rewrite !app_assoc. apply Permutation_app_tail. apply Permutation_app_comm.
  Qed.

  Lemma hv_fold_wf l : forall to, Forall (fun kv => snd kv <> []) l -> hv_wf to -> hv_wf (hv_fold l to).
  Proof.
    induction l as [|[k v] l IH]; intros to F W; [exact W|]. unfold hv_fold in *. cbn [fold_left fst snd].
    inversion F as [|? ? Hv F']; subst. apply IH; [assumption|]. now apply hv_merge_entry_wf.
  Qed.

  Lemma hv_drain_into_abs from to : Permutation (hv_abs (hv_drain_into sh from to)) (hv_abs from ++ hv_abs to).
  Proof.
    unfold hv_drain_into. fold (hv_fold (sh _ from) to). rewrite hv_fold_abs.
    apply Permutation_app_tail. apply hv_abs_perm, sh_perm.
  Qed.

  Lemma hv_drain_into_wf from to : hv_wf from -> hv_wf to -> hv_wf (hv_drain_into sh from to).
  Proof.
    intros Wf Wt. unfold hv_drain_into. fold (hv_fold (sh _ from) to). apply hv_fold_wf; [|exact Wt].
    apply (hv_wf_perm from); [apply Permutation_sym, sh_perm|exact Wf].
  Qed.

  (* whichever side is larger: source emptied, destination = union *)
  Theorem hv_move_spec from to :
    fst (hv_move sh from to) = [] /\
    Permutation (hv_abs (snd (hv_move sh from to))) (mm_union (hv_abs to) (hv_abs from)) /\
    (hv_wf from -> hv_wf to -> hv_wf (snd (hv_move sh from to))).
  Proof.
    unfold hv_move, mm_union. destruct (length to <? length from)%nat; cbn [fst snd]; (split; [reflexivity|split]).
    - apply hv_drain_into_abs.
    - intros; now apply hv_drain_into_wf.
    - rewrite hv_drain_into_abs. apply Permutation_app_comm.
    - intros; now apply hv_drain_into_wf.
  Qed.

  (* both branches of the size test are reachable *)
  Lemma hv_move_swaps from to :
    snd (hv_move sh from to) = if (length to <? length from)%nat then hv_drain_into sh to from else hv_drain_into sh from to.
  Proof. unfold hv_move. now destruct (length to <? length from)%nat. Qed.

  (* merge_delta_to_total_new_to_delta: total' = total + delta, delta' = new, new' = empty *)
  Theorem hv_merge_spec new delta total :
    let '(n', d', t') := merge3 (hv_move sh) new delta total in
    n' = [] /\ d' = new /\ Permutation (hv_abs t') (mm_union (hv_abs total) (hv_abs delta)) /\
    (hv_wf delta -> hv_wf total -> hv_wf t').
  Proof.
    unfold merge3. destruct (hv_move sh delta total) as [d' t'] eqn:E.
    pose proof (hv_move_spec delta total) as [H1 [H2 H3]]. rewrite E in H1, H2, H3. cbn [fst snd] in *. auto.
  Qed.

  (* ------------------------------------------------------------------ RelNoIndexType *)
  Lemma ni_insert_spec v l : Permutation (ni_insert v l) (v :: l).
  Proof. unfold ni_insert. apply Permutation_sym, Permutation_cons_append. Qed.
  Lemma ni_move_spec a b : ni_move a b = ([], b ++ a).
  Proof. reflexivity. Qed.
  Theorem ni_merge_spec new delta total :
    merge3 ni_move new delta total = ([], new, total ++ delta).
  Proof. reflexivity. Qed.

  (* ------------------------------------------------------------------ RelIndexCombined *)
  Lemma comb_get_spec k m1 m2 : NoDup (hv_keys m1) -> NoDup (hv_keys m2) ->
    flat_opt (comb_get (hv_get k m1) (hv_get k m2)) = mm_lookup k (mm_union (hv_abs m1) (hv_abs m2)).
  Proof.
    intros N1 N2. rewrite mm_lookup_union, !hv_lookup_abs by assumption. unfold comb_get.
    destruct (hv_get k m1), (hv_get k m2); reflexivity.
  Qed.
  Lemma comb_get_none a b : comb_get a b = None <-> a = None /\ b = None.
  Proof. unfold comb_get. destruct a, b; split; intros H; try discriminate; try (destruct H; discriminate); auto. Qed.
  Lemma comb_iter_all_abs a b : hv_abs (comb_iter_all a b) = mm_union (hv_abs a) (hv_abs b).
  Proof. apply hv_abs_app. Qed.
End Oracle.

(* ================================================================== full index: a finite map key -> value *)
Definition fm_keys (m : fmap) : list Z := map fst m.

Lemma fm_get_None k m : fm_get k m = None <-> ~ In k (fm_keys m).
Proof.
  induction m as [|[k' v'] r IH]; cbn [fm_get fm_keys map fst In].
  - split; [intros _ []|reflexivity].
  - destruct (Z.eqb_spec k' k) as [->|N].
    + split; [discriminate|]. intros H. exfalso. apply H. now left.
    + rewrite IH. unfold fm_keys. split; [intros H [E|H']; [congruence|contradiction]|intros H H'; apply H; now right].
Qed.

Lemma fm_get_In k v m : fm_get k m = Some v -> In (k, v) m.
Proof.
  induction m as [|[k' v'] r IH]; cbn [fm_get]; [discriminate|]. destruct (Z.eqb_spec k' k) as [->|N].
  - intros E. inversion E; subst. now left.
  - intros E. right. now apply IH.
Qed.

Lemma In_fm_get k v m : NoDup (fm_keys m) -> In (k, v) m -> fm_get k m = Some v.
Proof.
  induction m as [|[k' v'] r IH]; intros N H; [destruct H|]. cbn [fm_get]. cbn [fm_keys map fst] in N.
  inversion N as [|? ? Hk N']; subst. destruct H as [E|H].
  - inversion E; subst. now rewrite Z.eqb_refl.
  - destruct (Z.eqb_spec k' k) as [->|Ne]; [|now apply IH].
    exfalso. apply Hk. change (In k (map fst r)). apply in_map_iff. exists (k, v). split; [reflexivity|assumption].
Qed.

Lemma fm_get_perm k a b : NoDup (fm_keys a) -> Permutation a b -> fm_get k a = fm_get k b.
Proof.
  intros N P. assert (Nb : NoDup (fm_keys b)) by (eapply Permutation_NoDup; [apply Permutation_map; exact P|exact N]).
  destruct (fm_get k a) as [v|] eqn:E.
  - symmetry. apply In_fm_get; [assumption|]. eapply Permutation_in; [exact P|]. now apply fm_get_In.
  - symmetry. apply fm_get_None. apply fm_get_None in E. intros H. apply E.
    eapply Permutation_in; [apply Permutation_sym; apply Permutation_map; exact P|exact H].
Qed.

(* contains_key = membership in the key set *)
Lemma fm_contains_spec k m : fm_contains k m = ks_mem k (fm_keys m).
Proof.
  unfold fm_contains, ks_mem. destruct (fm_get k m) eqn:E.
  - symmetry. apply (set_mem_In Z Z.eqb zeqb_spec). apply fm_get_In in E. change (In k (map fst m)).
    apply in_map_iff. eexists; split; [|exact E]. reflexivity.
  - symmetry. apply (set_mem_false Z Z.eqb zeqb_spec). now apply fm_get_None.
Qed.

Lemma fm_contains_In k m : fm_contains k m = true <-> In k (fm_keys m).
Proof. rewrite fm_contains_spec. apply (set_mem_In Z Z.eqb zeqb_spec). Qed.

Lemma fm_index_get_spec k m : fm_index_get k m = match fm_get k m with Some v => Some [v] | None => None end.
Proof. reflexivity. Qed.

(* ---- index_insert (HashMap::insert) *)
Lemma fm_get_insert k v k' m : fm_get k' (fm_insert k v m) = if k =? k' then Some v else fm_get k' m.
Proof.
  induction m as [|[k0 v0] r IH]; cbn [fm_insert fm_get].
  - destruct (Z.eqb_spec k k'); reflexivity.
  - destruct (Z.eqb_spec k0 k) as [->|Ne]; cbn [fm_get].
    + destruct (Z.eqb_spec k k'); reflexivity.
    + rewrite IH. destruct (Z.eqb_spec k k') as [->|Ne']; [|reflexivity].
      destruct (Z.eqb_spec k0 k'); [congruence|reflexivity].
Qed.

Lemma fm_insert_keys k v m x : In x (fm_keys (fm_insert k v m)) <-> x = k \/ In x (fm_keys m).
Proof.
  induction m as [|[k' v'] r IH]; cbn [fm_insert fm_keys map fst In].
  - intuition.
  - destruct (Z.eqb_spec k' k) as [->|Ne]; cbn [fm_keys map fst In].
    + intuition.
    + unfold fm_keys in IH. rewrite IH. intuition.
Qed.

Lemma fm_insert_nodup k v m : NoDup (fm_keys m) -> NoDup (fm_keys (fm_insert k v m)).
Proof.
  induction m as [|[k' v'] r IH]; cbn [fm_insert fm_keys map fst]; intros N.
  - constructor; [intros []|constructor].
  - inversion N as [|? ? Hk N']; subst. destruct (Z.eqb_spec k' k) as [->|Ne]; cbn [fm_keys map fst].
    + exact N.
    + constructor; [|now apply IH]. intros H. apply fm_insert_keys in H as [->|H]; [congruence|contradiction].
Qed.

Lemma ks_ins_In k s x : In x (ks_ins k s) <-> x = k \/ In x s.
Proof. apply (set_ins_In Z Z.eqb zeqb_spec). Qed.

Theorem fm_insert_spec k v m : NoDup (fm_keys m) ->
  set_eq (fm_keys (fm_insert k v m)) (ks_ins k (fm_keys m)) /\
  forall k', fm_get k' (fm_insert k v m) = if k =? k' then Some v else fm_get k' m.
Proof.
  intros N. split; [|intros; apply fm_get_insert]. apply set_eq_of_In.
  - now apply fm_insert_nodup.
  - now apply (set_ins_NoDup Z Z.eqb zeqb_spec).
  - intros x. rewrite fm_insert_keys, ks_ins_In. reflexivity.
Qed.

(* ---- insert_if_not_present: true iff absent, and then (and only then) inserts *)
Lemma fm_get_app_absent k v k' m : ~ In k (fm_keys m) -> fm_get k' (m ++ [(k, v)]) = if k =? k' then Some v else fm_get k' m.
Proof.
  induction m as [|[k0 v0] r IH]; intros H; cbn [app fm_get].
  - destruct (Z.eqb_spec k k'); reflexivity.
  - cbn [fm_keys map fst In] in H. rewrite IH by (intros H'; apply H; now right).
    destruct (Z.eqb_spec k0 k') as [->|Ne]; [|reflexivity].
    destruct (Z.eqb_spec k k') as [->|Ne']; [|reflexivity]. exfalso. apply H. now left.
Qed.

Theorem fm_insert_if_not_present_spec k v m : NoDup (fm_keys m) ->
  let '(m', b) := fm_insert_if_not_present k v m in
  b = negb (fm_contains k m) /\
  (b = false -> m' = m) /\
  NoDup (fm_keys m') /\
  set_eq (fm_keys m') (ks_ins k (fm_keys m)) /\
  forall k', fm_get k' m' = if b && (k =? k') then Some v else fm_get k' m.
Proof.
  intros N. unfold fm_insert_if_not_present. destruct (fm_contains k m) eqn:C.
  - repeat split; auto.
    + apply (set_ins_NoDup Z Z.eqb zeqb_spec); assumption.
    + apply NoDup_Permutation; [assumption|apply (set_ins_NoDup Z Z.eqb zeqb_spec); assumption|].
      intros x. rewrite ks_ins_In. apply fm_contains_In in C. split; [auto|]. intros [->|H]; assumption.
  - assert (A : ~ In k (fm_keys m)).
    { intros H. apply fm_contains_In in H. congruence. }
    assert (N' : NoDup (fm_keys (m ++ [(k, v)]))).
    { unfold fm_keys. rewrite map_app. cbn [map fst]. apply NoDup_app_disj'; [exact N|constructor; [intros []|constructor]|].
      intros x Hx [<-|[]]. contradiction. }
    repeat split; auto; try discriminate.
    + apply (set_ins_NoDup Z Z.eqb zeqb_spec); assumption.
    + apply NoDup_Permutation; [assumption|apply (set_ins_NoDup Z Z.eqb zeqb_spec); assumption|].
      intros x. rewrite ks_ins_In. unfold fm_keys. rewrite map_app, in_app_iff. cbn [map fst In]. intuition.
    + intros k'. cbn [andb]. now apply fm_get_app_absent.
Qed.

Section OracleFull.
  Variable sh : forall A : Type, list A -> list A.
  Hypothesis sh_perm : forall A (l : list A), Permutation (sh A l) l.

  Definition fm_fold (l to : fmap) : fmap := fold_left (fun t kv => fm_insert (fst kv) (snd kv) t) l to.

  Lemma fm_fold_keys l : forall to x, In x (fm_keys (fm_fold l to)) <-> In x (fm_keys l) \/ In x (fm_keys to).
  Proof.
    induction l as [|[k v] l IH]; intros to x; unfold fm_fold in *; cbn [fold_left fst snd fm_keys map In].
    - intuition.
    - rewrite IH, fm_insert_keys. unfold fm_keys. intuition.
  Qed.

  Lemma fm_fold_nodup l : forall to, NoDup (fm_keys to) -> NoDup (fm_keys (fm_fold l to)).
  Proof.
    induction l as [|[k v] l IH]; intros to N; [exact N|]. unfold fm_fold in *. cbn [fold_left fst snd].
    apply IH. now apply fm_insert_nodup.
  Qed.

  Lemma fm_fold_get k l : forall to, NoDup (fm_keys l) ->
    fm_get k (fm_fold l to) = match fm_get k l with Some v => Some v | None => fm_get k to end.
  Proof.
    induction l as [|[k0 v0] l IH]; intros to N; [reflexivity|]. unfold fm_fold in *. cbn [fold_left fst snd fm_get].
    cbn [fm_keys map fst] in N. inversion N as [|? ? Hk N']; subst. rewrite IH by assumption. rewrite fm_get_insert.
    destruct (Z.eqb_spec k0 k) as [->|Ne]; [|reflexivity].
    assert (E : fm_get k l = None) by (apply fm_get_None; exact Hk). now rewrite E.
  Qed.

  Lemma fm_drain_into_spec from to : NoDup (fm_keys from) -> NoDup (fm_keys to) ->
    NoDup (fm_keys (fm_drain_into sh from to)) /\
    (forall x, In x (fm_keys (fm_drain_into sh from to)) <-> In x (fm_keys from) \/ In x (fm_keys to)) /\
    (forall k, fm_get k (fm_drain_into sh from to) = match fm_get k from with Some v => Some v | None => fm_get k to end).
  Proof.
    intros Nf Nt. unfold fm_drain_into. fold (fm_fold (sh _ from) to).
    assert (Ns : NoDup (fm_keys (sh _ from))).
    { eapply Permutation_NoDup; [apply Permutation_map, Permutation_sym, sh_perm|exact Nf]. }
    split; [now apply fm_fold_nodup|]. split.
    - intros x. rewrite fm_fold_keys. split; (intros [H|H]; [left|now right]).
      + eapply Permutation_in; [apply Permutation_map, sh_perm|exact H].
      + eapply Permutation_in; [apply Permutation_map, Permutation_sym, sh_perm|exact H].
    - intros k. rewrite fm_fold_get by assumption. rewrite (fm_get_perm k (sh _ from) from Ns (sh_perm _ from)). reflexivity.
  Qed.

  (* move_index_contents, whichever side is larger: source emptied; key set = union;
     a key present on both sides keeps the value of the side that was drained (the smaller one) *)
  Theorem fm_move_spec from to : NoDup (fm_keys from) -> NoDup (fm_keys to) ->
    fst (fm_move sh from to) = [] /\
    NoDup (fm_keys (snd (fm_move sh from to))) /\
    set_eq (fm_keys (snd (fm_move sh from to))) (ks_union (fm_keys to) (fm_keys from)) /\
    (forall k, fm_get k (snd (fm_move sh from to)) =
       if (length to <? length from)%nat
       then match fm_get k to with Some v => Some v | None => fm_get k from end
       else match fm_get k from with Some v => Some v | None => fm_get k to end).
  Proof.
    intros Nf Nt. unfold fm_move. destruct (length to <? length from)%nat; cbn [fst snd].
    - destruct (fm_drain_into_spec to from Nt Nf) as [N [K G]]. repeat split; auto.
      + apply (set_union_NoDup Z Z.eqb zeqb_spec); assumption.
      + apply NoDup_Permutation; [assumption|apply (set_union_NoDup Z Z.eqb zeqb_spec); assumption|].
        intros x. rewrite K. unfold ks_union. rewrite (set_union_In Z Z.eqb zeqb_spec). reflexivity.
    - destruct (fm_drain_into_spec from to Nf Nt) as [N [K G]]. repeat split; auto.
      + apply (set_union_NoDup Z Z.eqb zeqb_spec); assumption.
      + apply NoDup_Permutation; [assumption|apply (set_union_NoDup Z Z.eqb zeqb_spec); assumption|].
        intros x. rewrite K. unfold ks_union. rewrite (set_union_In Z Z.eqb zeqb_spec). tauto.
  Qed.

  (* with disjoint key sets (what generated code maintains: a tuple is in at most one of total / delta / new)
     nothing is overwritten: every (key, value) of both sides survives *)
  Corollary fm_move_disjoint from to : NoDup (fm_keys from) -> NoDup (fm_keys to) ->
    (forall k, In k (fm_keys from) -> ~ In k (fm_keys to)) ->
    forall k, fm_get k (snd (fm_move sh from to)) = match fm_get k from with Some v => Some v | None => fm_get k to end.
  Proof.
    intros Nf Nt D k. destruct (fm_move_spec from to Nf Nt) as [_ [_ [_ G]]]. rewrite G.
    destruct (length to <? length from)%nat; [|reflexivity].
    destruct (fm_get k to) as [v|] eqn:Et, (fm_get k from) as [w|] eqn:Ef; try reflexivity.
    exfalso. apply (D k).
    - apply fm_get_In in Ef. change (In k (map fst from)). apply in_map_iff. eexists; split; [|exact Ef]. reflexivity.
    - apply fm_get_In in Et. change (In k (map fst to)). apply in_map_iff. eexists; split; [|exact Et]. reflexivity.
  Qed.

  Theorem fm_merge_spec new delta total : NoDup (fm_keys delta) -> NoDup (fm_keys total) ->
    let '(n', d', t') := merge3 (fm_move sh) new delta total in
    n' = [] /\ d' = new /\ NoDup (fm_keys t') /\ set_eq (fm_keys t') (ks_union (fm_keys total) (fm_keys delta)).
  Proof.
    intros Nd Nt. unfold merge3. destruct (fm_move sh delta total) as [d' t'] eqn:E.
    pose proof (fm_move_spec delta total Nd Nt) as [H1 [H2 [H3 _]]]. rewrite E in H1, H2, H3. cbn [fst snd] in *. auto.
  Qed.

  (* iter_all: every (key, value) once, every key once *)
  Lemma hv_abs_singletons (l : fmap) : hv_abs (map (fun kv => (fst kv, [snd kv])) l) = l.
  Proof. induction l as [|[k v] l IH]; [reflexivity|]. cbn [map fst snd]. rewrite hv_abs_cons. cbn [map app]. now rewrite IH. Qed.

  Lemma fm_iter_all_abs m : Permutation (hv_abs (fm_iter_all sh m)) m.
  Proof. unfold fm_iter_all. rewrite hv_abs_singletons. apply sh_perm. Qed.

  Lemma fm_iter_all_keys m : NoDup (fm_keys m) -> NoDup (map fst (fm_iter_all sh m)).
  Proof.
    intros N. unfold fm_iter_all. rewrite map_map. cbn [fst].
    eapply Permutation_NoDup; [apply Permutation_map, Permutation_sym, sh_perm|exact N].
  Qed.

  Lemma fm_len_spec m : fm_len m = zlen (fm_keys m).
  Proof. unfold fm_len, zlen, fm_keys. now rewrite map_length. Qed.
  Lemma fm_is_empty_spec m : fm_is_empty m = true <-> m = [].
  Proof. destruct m; cbn; split; congruence. Qed.
End OracleFull.

(* ================================================================== lattice indices: key -> set of rows *)
(* reachable states: distinct keys, every set duplicate free and non-empty *)
Definition lat_wf (m : lmap) : Prop := NoDup (hv_keys m) /\ Forall (fun kv => NoDup (snd kv) /\ snd kv <> []) m.

Lemma lat_wf_hv m : lat_wf m -> hv_wf m.
Proof. intros [N F]. split; [exact N|]. eapply Forall_impl; [|exact F]. intros a [_ H]. exact H. Qed.

Lemma vs_add_In v s x : In x (vs_add v s) <-> x = v \/ In x s.
Proof.
  induction s as [|y r IH]; cbn [vs_add In].
  - intuition.
  - destruct (Z.eqb_spec y v) as [->|Ne]; cbn [In]; [intuition|]. rewrite IH. intuition.
Qed.

Lemma vs_add_NoDup v s : NoDup s -> NoDup (vs_add v s).
Proof.
  induction s as [|y r IH]; cbn [vs_add]; intros N.
  - constructor; [intros []|constructor].
  - destruct (Z.eqb_spec y v) as [->|Ne]; [exact N|]. inversion N as [|? ? Hy N']; subst.
    constructor; [|now apply IH]. rewrite vs_add_In. intros [E|H]; [congruence|contradiction].
Qed.

Lemma vs_add_nonempty v s : vs_add v s <> [].
Proof. destruct s as [|y r]; cbn [vs_add]; [discriminate|]. destruct (y =? v); discriminate. Qed.

Lemma vs_extend_In vs : forall s x, In x (vs_extend s vs) <-> In x s \/ In x vs.
Proof.
  unfold vs_extend. induction vs as [|v vs IH]; intros s x; cbn [fold_left In]; [intuition|].
  rewrite IH, vs_add_In. intuition.
Qed.

Lemma vs_extend_NoDup vs : forall s, NoDup s -> NoDup (vs_extend s vs).
Proof.
  unfold vs_extend. induction vs as [|v vs IH]; intros s N; cbn [fold_left]; [exact N|]. apply IH. now apply vs_add_NoDup.
Qed.

Lemma vs_extend_nonempty vs s : s <> [] \/ vs <> [] -> vs_extend s vs <> [].
Proof.
  intros H E. assert (A : forall x, ~ In x (vs_extend s vs)) by (rewrite E; intros x []).
  destruct H as [H|H].
  - destruct s as [|x s]; [congruence|]. apply (A x). apply vs_extend_In. left. now left.
  - destruct vs as [|x vs]; [congruence|]. apply (A x). apply vs_extend_In. right. now left.
Qed.

(* all writes of the set-valued maps are "update the entry of k by a function of what is there" *)
Fixpoint upd_entry (k : Z) (g : option (list Z) -> list Z) (m : lmap) : lmap :=
  match m with
  | [] => [(k, g None)]
  | (k', s) :: r => if k' =? k then (k', g (Some s)) :: r else (k', s) :: upd_entry k g r
  end.

Lemma get_upd_entry k g m k' : hv_get k' (upd_entry k g m) = if k =? k' then Some (g (hv_get k m)) else hv_get k' m.
Proof.
  induction m as [|[k0 s] r IH]; cbn [upd_entry hv_get].
  - destruct (Z.eqb_spec k k'); reflexivity.
  - destruct (Z.eqb_spec k0 k) as [->|Ne]; cbn [hv_get].
    + destruct (Z.eqb_spec k k'); reflexivity.
    + rewrite IH. destruct (Z.eqb_spec k k') as [->|Ne']; [|reflexivity].
      destruct (Z.eqb_spec k0 k'); [congruence|reflexivity].
Qed.

Lemma keys_upd_entry k g m x : In x (hv_keys (upd_entry k g m)) <-> x = k \/ In x (hv_keys m).
Proof.
  induction m as [|[k' s] r IH]; cbn [upd_entry hv_keys map fst In].
  - intuition.
  - destruct (Z.eqb_spec k' k) as [->|Ne]; cbn [hv_keys map fst In].
    + intuition.
    + unfold hv_keys in IH. rewrite IH. intuition.
Qed.

Lemma upd_entry_wf k g m : lat_wf m -> NoDup (g (hv_get k m)) -> g (hv_get k m) <> [] -> lat_wf (upd_entry k g m).
Proof.
  intros [N F]. induction m as [|[k' s] r IH]; cbn [upd_entry hv_get]; intros G1 G2.
  - split; [cbn; constructor; [intros []|constructor]|constructor; [split; assumption|constructor]].
  - cbn [hv_keys map fst] in N. inversion N as [|? ? Hk N']; subst. inversion F as [|? ? Hs F']; subst.
    destruct (Z.eqb_spec k' k) as [->|Ne].
    + split; [exact N|]. constructor; [split; assumption|assumption].
    + destruct (IH N' F' G1 G2) as [N2 F2]. split.
      * cbn [hv_keys map fst]. constructor; [|exact N2]. intros H. apply keys_upd_entry in H as [->|H]; [congruence|contradiction].
      * constructor; assumption.
Qed.

Lemma in_abs_get k v m : NoDup (hv_keys m) -> In (k, v) (hv_abs m) <-> exists vs, hv_get k m = Some vs /\ In v vs.
Proof.
  intros N. rewrite in_hv_abs. split; intros [vs [H1 H2]]; exists vs; split; auto.
  - now apply In_hv_get.
  - now apply hv_get_In.
Qed.

Lemma in_abs_upd_entry k g m k' v' : NoDup (hv_keys m) ->
  In (k', v') (hv_abs (upd_entry k g m)) <-> (k' = k /\ In v' (g (hv_get k m))) \/ (k' <> k /\ In (k', v') (hv_abs m)).
Proof.
  intros N. assert (N' : NoDup (hv_keys (upd_entry k g m))).
  { clear k' v'. induction m as [|[k0 s] r IH]; cbn [upd_entry].
    - cbn. constructor; [intros []|constructor].
    - cbn [hv_keys map fst] in N. inversion N as [|? ? Hk N2]; subst. destruct (Z.eqb_spec k0 k) as [->|Ne]; [exact N|].
      cbn [hv_keys map fst]. constructor; [|now apply IH]. intros H. apply keys_upd_entry in H as [->|H]; [congruence|contradiction]. }
  rewrite (in_abs_get k' v' _ N'), (in_abs_get k' v' _ N). rewrite get_upd_entry.
  destruct (Z.eqb_spec k k') as [->|Ne].
  - split.
    + intros [vs [E H]]. inversion E; subst. left. auto.
    + intros [[_ H]|[H _]]; [|congruence]. eexists; split; [reflexivity|exact H].
  - split.
    + intros H. right. split; [congruence|exact H].
    + intros [[H _]|[_ H]]; [congruence|exact H].
Qed.

Lemma hv_abs_NoDup m : lat_wf m -> NoDup (hv_abs m).
Proof.
  intros [N F]. induction m as [|[k s] r IH]; [constructor|]. cbn [hv_keys map fst] in N.
  inversion N as [|? ? Hk N']; subst. inversion F as [|? ? [Hs _] F']; subst. rewrite hv_abs_cons.
  apply NoDup_app_disj'; [now apply NoDup_map_pair|now apply IH|].
  intros [k' v'] H1 H2. apply in_map_iff in H1 as [v0 [E _]]. inversion E; subst.
  apply in_hv_abs in H2 as [vs [H2 _]]. apply Hk. change (In k' (map fst r)). apply in_map_iff. exists (k', vs). auto.
Qed.

Lemma ps_ins_In k v s e : In e (ps_ins k v s) <-> e = (k, v) \/ In e s.
Proof. apply (set_ins_In entry entry_eqb entry_eqb_spec). Qed.
Lemma ps_union_In a b e : In e (ps_union a b) <-> In e a \/ In e b.
Proof. apply (set_union_In entry entry_eqb entry_eqb_spec). Qed.

(* ---- index_insert *)
Lemma lat_insert_upd k v m : lat_insert k v m = upd_entry k (fun o => vs_add v (flat_opt o)) m.
Proof.
  induction m as [|[k' s] r IH]; cbn [lat_insert upd_entry flat_opt]; [reflexivity|]. destruct (k' =? k); [reflexivity|]. now rewrite IH.
Qed.

Lemma flat_opt_get_NoDup k m : lat_wf m -> NoDup (flat_opt (hv_get k m)).
Proof.
  intros [N F]. destruct (hv_get k m) as [vs|] eqn:E; cbn [flat_opt]; [|constructor].
  apply hv_get_In in E. rewrite Forall_forall in F. exact (proj1 (F _ E)).
Qed.

Theorem lat_insert_spec k v m : lat_wf m ->
  lat_wf (lat_insert k v m) /\ set_eq (hv_abs (lat_insert k v m)) (ps_ins k v (hv_abs m)).
Proof.
  intros W. rewrite lat_insert_upd.
  assert (W' : lat_wf (upd_entry k (fun o => vs_add v (flat_opt o)) m)).
  { apply upd_entry_wf; [exact W| |apply vs_add_nonempty]. apply vs_add_NoDup. now apply flat_opt_get_NoDup. }
  split; [exact W'|]. apply set_eq_of_In.
  - now apply hv_abs_NoDup.
  - apply (set_ins_NoDup entry entry_eqb entry_eqb_spec). now apply hv_abs_NoDup.
  - intros [k' v']. rewrite ps_ins_In, in_abs_upd_entry by apply W. rewrite vs_add_In. split.
    + intros [[-> [->|H]]|[Ne H]]; [now left| |now right]. right. apply in_abs_get; [apply W|].
      destruct (hv_get k m) as [vs|]; [|destruct H]. exists vs. auto.
    + intros [E|H].
      * inversion E; subst. left. auto.
      * destruct (Z.eq_dec k' k) as [->|Ne]; [left|right; auto].
        split; [reflexivity|]. right. apply in_abs_get in H; [|apply W]. destruct H as [vs [E H]]. rewrite E. exact H.
Qed.

Section OracleLat.
  Variable sh : forall A : Type, list A -> list A.
  Hypothesis sh_perm : forall A (l : list A), Permutation (sh A l) l.

  Lemma sh_In {A} (l : list A) x : In x (sh A l) <-> In x l.
  Proof. split; apply Permutation_in; [apply sh_perm|apply Permutation_sym, sh_perm]. Qed.

  (* index_get: the set stored under the key, each row once *)
  Theorem lat_get_spec k m : lat_wf m ->
    match lat_get sh k m with
    | Some vs => Permutation vs (mm_lookup k (hv_abs m)) /\ NoDup vs /\ vs <> []
    | None => mm_lookup k (hv_abs m) = []
    end.
  Proof.
    intros W. pose proof (hv_get_spec k m (lat_wf_hv m W)) as S. unfold lat_get.
    destruct (hv_get k m) as [vs|] eqn:E; [|exact S]. destruct S as [S1 S2]. split; [|split].
    - rewrite <- S1. apply sh_perm.
    - eapply Permutation_NoDup; [apply Permutation_sym, sh_perm|]. apply hv_get_In in E.
      destruct W as [_ F]. rewrite Forall_forall in F. exact (proj1 (F _ E)).
    - intros E2. apply S2. pose proof (sh_perm _ vs) as P. rewrite E2 in P. now apply Permutation_nil in P.
  Qed.

  Lemma hv_abs_map_sh (l : lmap) : Permutation (hv_abs (map (fun ks => (fst ks, sh _ (snd ks))) l)) (hv_abs l).
  Proof.
    induction l as [|[k s] l IH]; [reflexivity|]. cbn [map fst snd]. rewrite !hv_abs_cons.
    apply Permutation_app; [|exact IH]. apply Permutation_map, sh_perm.
  Qed.

  Lemma lat_iter_all_abs m : Permutation (hv_abs (lat_iter_all sh m)) (mm_entries (hv_abs m)).
  Proof. unfold lat_iter_all, mm_entries. rewrite hv_abs_map_sh. apply hv_abs_perm, sh_perm. Qed.

  Lemma lat_iter_all_keys m : lat_wf m -> NoDup (map fst (lat_iter_all sh m)).
  Proof.
    intros [N _]. unfold lat_iter_all. rewrite map_map. cbn [fst].
    eapply Permutation_NoDup; [apply Permutation_map, Permutation_sym, sh_perm|exact N].
  Qed.

  (* ---- serial move_index_contents (no swap) *)
  Lemma lat_extend_entry_upd k vs m : lat_extend_entry k vs m = upd_entry k (fun o => vs_extend (flat_opt o) vs) m.
  Proof.
    induction m as [|[k' s] r IH]; cbn [lat_extend_entry upd_entry flat_opt]; [reflexivity|]. destruct (k' =? k); [reflexivity|]. now rewrite IH.
  Qed.

  (* a drain loop whose step adds the rows [h kv] under key [fst kv] *)
  Definition set_step (step : Z -> list Z -> lmap -> lmap) : Prop :=
    forall k vs m, vs <> [] -> NoDup vs -> lat_wf m ->
      lat_wf (step k vs m) /\ forall e, In e (hv_abs (step k vs m)) <-> In e (map (pair k) vs) \/ In e (hv_abs m).

  Lemma set_fold step (S : set_step step) l : forall to,
    Forall (fun kv => NoDup (snd kv) /\ snd kv <> []) l -> lat_wf to ->
    lat_wf (fold_left (fun t kv => step (fst kv) (snd kv) t) l to) /\
    forall e, In e (hv_abs (fold_left (fun t kv => step (fst kv) (snd kv) t) l to)) <-> In e (hv_abs l) \/ In e (hv_abs to).
  Proof.
    induction l as [|[k vs] l IH]; intros to F W; cbn [fold_left fst snd].
    - split; [exact W|]. intros e. cbn. tauto.
    - inversion F as [|? ? [H1 H2] F']; subst. cbn [snd] in *. destruct (S k vs to H2 H1 W) as [W1 I1].
      destruct (IH _ F' W1) as [W2 I2]. split; [exact W2|]. intros e. rewrite I2, I1, hv_abs_cons, in_app_iff. tauto.
  Qed.

  Lemma lat_extend_step : set_step (fun k vs m => lat_extend_entry k (sh _ vs) m).
  Proof.
    intros k vs m Hne Hnd W. rewrite lat_extend_entry_upd. split.
    - apply upd_entry_wf; [exact W| |].
      + apply vs_extend_NoDup. now apply flat_opt_get_NoDup.
      + apply vs_extend_nonempty. right. intros E. apply Hne. pose proof (sh_perm _ vs) as P. rewrite E in P. now apply Permutation_nil in P.
    - intros [k' v']. rewrite in_abs_upd_entry by apply W. rewrite vs_extend_In, sh_In, in_map_iff. split.
      + intros [[-> [H|H]]|[Ne H]].
        * right. apply in_abs_get; [apply W|]. destruct (hv_get k m) as [s|]; [|destruct H]. exists s. auto.
        * left. exists v'. auto.
        * now right.
      + intros [[v0 [E H]]|H].
        * inversion E; subst. left. auto.
        * destruct (Z.eq_dec k' k) as [->|Ne]; [left|right; auto].
          split; [reflexivity|]. left. apply in_abs_get in H; [|apply W]. destruct H as [s [E H]]. rewrite E. exact H.
  Qed.

  Lemma lat_wf_perm a b : Permutation a b -> lat_wf a -> lat_wf b.
  Proof.
    intros P [N F]. split.
    - eapply Permutation_NoDup; [apply Permutation_map; exact P|exact N].
    - eapply Permutation_Forall; eassumption.
  Qed.

  Lemma in_abs_sh (m : lmap) e : In e (hv_abs (sh _ m)) <-> In e (hv_abs m).
  Proof. split; apply Permutation_in; [apply hv_abs_perm, sh_perm|apply Permutation_sym, hv_abs_perm, sh_perm]. Qed.

  Theorem lat_move_spec from to : lat_wf from -> lat_wf to ->
    fst (lat_move sh from to) = [] /\ lat_wf (snd (lat_move sh from to)) /\
    set_eq (hv_abs (snd (lat_move sh from to))) (ps_union (hv_abs to) (hv_abs from)).
  Proof.
    intros Wf Wt. unfold lat_move, lat_drain_into. cbn [fst snd].
    destruct (set_fold _ lat_extend_step (sh _ from) to) as [W I].
    { apply (lat_wf_perm from); [apply Permutation_sym, sh_perm|exact Wf]. }
    { exact Wt. }
    split; [reflexivity|]. split; [exact W|]. apply set_eq_of_In.
    - now apply hv_abs_NoDup.
    - apply (set_union_NoDup entry entry_eqb entry_eqb_spec); now apply hv_abs_NoDup.
    - intros e. rewrite I, ps_union_In, in_abs_sh. tauto.
  Qed.

  Theorem lat_merge_spec new delta total : lat_wf delta -> lat_wf total ->
    let '(n', d', t') := merge3 (lat_move sh) new delta total in
    n' = [] /\ d' = new /\ lat_wf t' /\ set_eq (hv_abs t') (ps_union (hv_abs total) (hv_abs delta)).
  Proof.
    intros Wd Wt. unfold merge3. destruct (lat_move sh delta total) as [d' t'] eqn:E.
    pose proof (lat_move_spec delta total Wd Wt) as [H1 [H2 H3]]. rewrite E in H1, H2, H3. cbn [fst snd] in *. auto.
  Qed.

  (* ---- the per-shard move of CLatIndex: size swap, then per key the larger set absorbs the smaller *)
  Lemma clat_merge_entry_upd k v m :
    clat_merge_entry sh k v m =
    upd_entry k (fun o => match o with
                          | Some e => if (length e <? length v)%nat then vs_extend v (sh _ e) else vs_extend e (sh _ v)
                          | None => v end) m.
  Proof.
    induction m as [|[k' s] r IH]; cbn [clat_merge_entry upd_entry]; [reflexivity|]. destruct (k' =? k); [reflexivity|]. now rewrite IH.
  Qed.

  Lemma clat_merge_step : set_step (clat_merge_entry sh).
  Proof.
    intros k vs m Hne Hnd W. rewrite clat_merge_entry_upd.
    assert (Hg : forall s, hv_get k m = Some s -> NoDup s /\ s <> []).
    { intros s E. apply hv_get_In in E. destruct W as [_ F]. rewrite Forall_forall in F. exact (F _ E). }
    split.
    - apply upd_entry_wf; [exact W| |].
      + destruct (hv_get k m) as [s|] eqn:E; [|exact Hnd]. destruct (Hg s eq_refl) as [Ns _].
        destruct (length s <? length vs)%nat; now apply vs_extend_NoDup.
      + destruct (hv_get k m) as [s|] eqn:E; [|exact Hne]. destruct (Hg s eq_refl) as [_ Nes].
        destruct (length s <? length vs)%nat; apply vs_extend_nonempty; auto.
    - intros [k' v']. rewrite in_abs_upd_entry by apply W. rewrite in_map_iff. split.
      + intros [[-> H]|[Ne H]]; [|now right].
        destruct (hv_get k m) as [s|] eqn:E.
        * assert (Hs : In v' s -> In (k, v') (hv_abs m)) by (intros Hi; apply in_abs_get; [apply W|]; exists s; auto).
          destruct (length s <? length vs)%nat; apply vs_extend_In in H; rewrite sh_In in H; destruct H as [H|H];
            solve [left; exists v'; auto | right; auto].
        * left. exists v'. auto.
      + intros [[v0 [E H]]|H].
        * inversion E; subst. left. split; [reflexivity|]. destruct (hv_get k' m) as [s|].
          -- destruct (length s <? length vs)%nat; apply vs_extend_In; rewrite sh_In; auto.
          -- exact H.
        * destruct (Z.eq_dec k' k) as [->|Ne]; [left|right; auto].
          split; [reflexivity|]. apply in_abs_get in H; [|apply W]. destruct H as [s [E H]]. rewrite E.
          destruct (length s <? length vs)%nat; apply vs_extend_In; rewrite sh_In; auto.
  Qed.

  Theorem clat_shard_move_spec from to : lat_wf from -> lat_wf to ->
    fst (clat_shard_move sh from to) = [] /\ lat_wf (snd (clat_shard_move sh from to)) /\
    (forall e, In e (hv_abs (snd (clat_shard_move sh from to))) <-> In e (hv_abs from) \/ In e (hv_abs to)) /\
    (forall x, In x (hv_keys (snd (clat_shard_move sh from to))) <-> In x (hv_keys from) \/ In x (hv_keys to)).
  Proof.
    intros Wf Wt.
    assert (K : forall m, lat_wf m -> forall x, In x (hv_keys m) <-> exists v, In (x, v) (hv_abs m)).
    { intros m W x. split.
      - intros H. apply in_map_iff in H as [[k s] [E H]]. cbn in E. subst k. destruct W as [_ F]. rewrite Forall_forall in F.
        destruct (F _ H) as [_ Hs]. cbn in Hs. destruct s as [|v s]; [congruence|]. exists v. apply in_hv_abs. exists (v :: s). split; [exact H|now left].
      - intros [v H]. apply in_hv_abs in H as [s [H _]]. apply in_map_iff. exists (x, s). auto. }
    unfold clat_shard_move, clat_drain_into. destruct (length to <? length from)%nat; cbn [fst snd].
    - destruct (set_fold _ clat_merge_step (sh _ to) from) as [W I].
      { apply (lat_wf_perm to); [apply Permutation_sym, sh_perm|exact Wt]. }
      { exact Wf. }
      split; [reflexivity|]. split; [exact W|]. split.
      + intros e. rewrite I, in_abs_sh. tauto.
      + intros x. rewrite (K _ W), (K _ Wf), (K _ Wt). split.
        * intros [v H]. apply I in H. rewrite in_abs_sh in H. destruct H; [right|left]; eauto.
        * intros [[v H]|[v H]]; exists v; apply I; rewrite in_abs_sh; auto.
    - destruct (set_fold _ clat_merge_step (sh _ from) to) as [W I].
      { apply (lat_wf_perm from); [apply Permutation_sym, sh_perm|exact Wf]. }
      { exact Wt. }
      split; [reflexivity|]. split; [exact W|]. split.
      + intros e. rewrite I, in_abs_sh. tauto.
      + intros x. rewrite (K _ W), (K _ Wf), (K _ Wt). split.
        * intros [v H]. apply I in H. rewrite in_abs_sh in H. destruct H; [left|right]; eauto.
        * intros [[v H]|[v H]]; exists v; apply I; rewrite in_abs_sh; auto.
  Qed.
End OracleLat.

(* ================================================================== whole histories (all operation sequences) *)
(* The write operations of a history over the three versions (slot 0 = new, 1 = delta, 2 = total), applied to the
   concrete RelIndexType1 values and to the abstract multimaps; the two stay related, so every lookup / iteration
   made after ANY sequence of inserts, moves (either direction, either side larger) and merges answers from the
   abstract content. *)
Inductive wop : Type := WIns (s k v : Z) | WMove (a b : Z) | WMerge.

Definition wop_ok (o : wop) : Prop :=
  match o with
  | WIns s _ _ => 0 <= s <= 2
  | WMove a b => 0 <= a <= 2 /\ 0 <= b <= 2 /\ a <> b
  | WMerge => True
  end.

Definition mm_apply (o : wop) (st : mmap * mmap * mmap) : mmap * mmap * mmap :=
  match o with
  | WIns s k v => slot_set s (mm_insert k v (slot_get s st)) st
  | WMove a b => slot_set b (mm_union (slot_get b st) (slot_get a st)) (slot_set a mm_empty st)
  | WMerge => let '(n, d, t) := st in (mm_empty, n, mm_union t d)
  end.

Definition to_op (o : wop) : op :=
  match o with WIns s k v => OIns s k v | WMove a b => OMove a b | WMerge => OMerge end.

Section History.
  Variable sh : forall A : Type, list A -> list A.
  Hypothesis sh_perm : forall A (l : list A), Permutation (sh A l) l.

  Definition hv_apply (o : wop) (st : hvec * hvec * hvec) : hvec * hvec * hvec :=
    match o with
    | WIns s k v => slot_set s (hv_insert k v (slot_get s st)) st
    | WMove a b => let '(x, y) := hv_move sh (slot_get a st) (slot_get b st) in slot_set b y (slot_set a x st)
    | WMerge => let '(n, d, t) := st in merge3 (hv_move sh) n d t
    end.

  (* hv_apply is the state transition of the history interpreter that the tie evaluates *)
  Lemma run_hv_write o r (st : hvec * hvec * hvec) : wop_ok o -> run (I_hv sh) (to_op o :: r) st = run (I_hv sh) r (hv_apply o st).
  Proof.
    destruct o as [s k v|a b|]; intros Hok; cbn [to_op run hv_apply I_hv i_ins i_move St ok2].
    - reflexivity.
    - destruct Hok as [_ [_ Hne]]. destruct (Z.eqb_spec a b) as [E|_]; [contradiction|].
      destruct (hv_move sh (slot_get a st) (slot_get b st)) as [x y]. reflexivity.
    - destruct st as [[n d] t]. unfold merge3r, merge3, ok2. cbn [bind]. destruct (hv_move sh d t) as [d' t']. reflexivity.
  Qed.

  Definition rel1 (c : hvec) (a : mmap) : Prop := hv_wf c /\ Permutation (hv_abs c) a.
  Definition rel3 (c : hvec * hvec * hvec) (a : mmap * mmap * mmap) : Prop :=
    let '(c0, c1, c2) := c in let '(a0, a1, a2) := a in rel1 c0 a0 /\ rel1 c1 a1 /\ rel1 c2 a2.

  Lemma slot_cases s : 0 <= s <= 2 -> s = 0 \/ s = 1 \/ s = 2.
  Proof. lia. Qed.

  Lemma rel3_get s c a : rel3 c a -> rel1 (slot_get s c) (slot_get s a).
  Proof.
    destruct c as [[c0 c1] c2], a as [[a0 a1] a2]. intros [R0 [R1 R2]]. unfold slot_get.
    destruct (s =? 0); [exact R0|]. destruct (s =? 1); [exact R1|exact R2].
  Qed.

  Lemma rel3_set s x y c a : rel3 c a -> rel1 x y -> rel3 (slot_set s x c) (slot_set s y a).
  Proof.
    destruct c as [[c0 c1] c2], a as [[a0 a1] a2]. intros [R0 [R1 R2]] R. unfold slot_set.
    destruct (s =? 0); [exact (conj R (conj R1 R2))|]. destruct (s =? 1); [exact (conj R0 (conj R R2))|exact (conj R0 (conj R1 R))].
  Qed.

  Lemma slot_get_set_other {S} a b (x : S) st : 0 <= a <= 2 -> 0 <= b <= 2 -> a <> b -> slot_get b (slot_set a x st) = slot_get b st.
  Proof.
    intros Ha Hb Hne. destruct st as [[s0 s1] s2]. unfold slot_get, slot_set.
    destruct (slot_cases a Ha) as [-> | [-> | ->]], (slot_cases b Hb) as [-> | [-> | ->]]; try congruence; reflexivity.
  Qed.

  Lemma hv_apply_rel o c a : wop_ok o -> rel3 c a -> rel3 (hv_apply o c) (mm_apply o a).
  Proof.
    destruct o as [s k v|x y|]; intros Hok R; cbn [hv_apply mm_apply].
    - apply rel3_set; [exact R|]. destruct (rel3_get s c a R) as [W P]. split; [now apply hv_insert_wf|].
      rewrite hv_insert_abs. unfold mm_insert. now apply perm_skip.
    - destruct Hok as [Hx [Hy Hne]]. destruct (rel3_get x c a R) as [Wx Px], (rel3_get y c a R) as [Wy Py].
      pose proof (hv_move_spec sh sh_perm (slot_get x c) (slot_get y c)) as [M1 [M2 M3]].
      destruct (hv_move sh (slot_get x c) (slot_get y c)) as [x' y']. cbn [fst snd] in *. subst x'.
      apply rel3_set.
      + apply rel3_set; [exact R|]. split; [split; constructor|reflexivity].
      + split; [now apply M3|]. rewrite M2. unfold mm_union. now apply Permutation_app.
    - destruct c as [[c0 c1] c2], a as [[a0 a1] a2]. destruct R as [R0 [[W1 P1] [W2 P2]]].
      pose proof (hv_merge_spec sh sh_perm c0 c1 c2) as M. destruct (merge3 (hv_move sh) c0 c1 c2) as [[n' d'] t'].
      destruct M as [-> [-> [M3 M4]]]. split; [split; [split; constructor|reflexivity]|]. split; [exact R0|].
      split; [now apply M4|]. rewrite M3. unfold mm_union. now apply Permutation_app.
  Qed.

  Definition hv_run_writes (ops : list wop) : hvec * hvec * hvec := fold_left (fun st o => hv_apply o st) ops ([], [], []).
  Definition mm_run_writes (ops : list wop) : mmap * mmap * mmap := fold_left (fun st o => mm_apply o st) ops ([], [], []).

  Theorem hv_history ops : Forall wop_ok ops -> rel3 (hv_run_writes ops) (mm_run_writes ops).
  Proof.
    unfold hv_run_writes, mm_run_writes.
    assert (G : forall c a, rel3 c a -> Forall wop_ok ops ->
                rel3 (fold_left (fun st o => hv_apply o st) ops c) (fold_left (fun st o => mm_apply o st) ops a)).
    { induction ops as [|o ops IH]; intros c a R F; [exact R|]. inversion F; subst. cbn [fold_left]. apply IH; [|assumption].
      now apply hv_apply_rel. }
    intros F. apply G; [|exact F]. repeat split; constructor.
  Qed.

  (* consequently: after any history, index_get on any version answers exactly the abstract content *)
  Corollary hv_history_lookup ops s k : Forall wop_ok ops ->
    match hv_get k (slot_get s (hv_run_writes ops)) with
    | Some vs => Permutation vs (mm_lookup k (slot_get s (mm_run_writes ops))) /\ vs <> []
    | None => mm_lookup k (slot_get s (mm_run_writes ops)) = []
    end.
  Proof.
    intros F. destruct (rel3_get s _ _ (hv_history ops F)) as [W P]. pose proof (hv_get_spec k _ W) as S.
    destruct (hv_get k (slot_get s (hv_run_writes ops))) as [vs|].
    - destruct S as [-> Hn]. split; [now apply mm_lookup_perm|exact Hn].
    - apply Permutation_nil. rewrite <- S. apply Permutation_sym. now apply mm_lookup_perm.
  Qed.

  (* the interpreter evaluated by the tie runs exactly these transitions *)
  Lemma run_hv_writes ops r : Forall wop_ok ops -> forall st : hvec * hvec * hvec,
    run (I_hv sh) (map to_op ops ++ r) st = run (I_hv sh) r (fold_left (fun st o => hv_apply o st) ops st).
  Proof.
    induction 1 as [|o ops Ho _ IH]; intros st; [reflexivity|]. cbn [map app fold_left]. rewrite run_hv_write by exact Ho. apply IH.
  Qed.
End History.
