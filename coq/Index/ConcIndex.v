(* C19 proofs, concurrent types: DashMap based indices as lists of shards (placement by an arbitrary hash),
   freeze / unfreeze, shard-wise move, and concurrency: every DashMap entry operation is one atomic step;
   for EVERY order in which the steps of several threads are interleaved the resulting abstraction is the
   union of all inserts, and among racing insert_if_not_present calls on a key exactly one returns true. *)
From Coq Require Import List ZArith Bool Lia Permutation Arith.
From AV Require Import Index.MultiMap.
From AV Require Import Index.IndexModel.
From AV Require Import Index.IndexRefine.
Import ListNotations.
Open Scope Z_scope.

(* ------------------------------------------------------------------ interleavings *)
(* [interleave ts l]: l is obtained by repeatedly taking the next step of some thread *)
Inductive interleave {A : Type} : list (list A) -> list A -> Prop :=
| il_done : forall ts, Forall (fun t => t = []) ts -> interleave ts []
| il_step : forall ts1 x t ts2 l, interleave (ts1 ++ t :: ts2) l -> interleave (ts1 ++ (x :: t) :: ts2) (x :: l).

Lemma concat_all_nil {A} (ts : list (list A)) : Forall (fun t => t = []) ts -> concat ts = [].
Proof. induction 1 as [|t ts Ht _ IH]; [reflexivity|]. cbn [concat]. now rewrite Ht, IH. Qed.

Lemma interleave_perm {A} (ts : list (list A)) l : interleave ts l -> Permutation l (concat ts).
Proof.
  induction 1 as [ts F|ts1 x t ts2 l _ IH].
  - now rewrite concat_all_nil.
  - rewrite concat_app in *. cbn [concat] in *. cbn [app]. rewrite IH.
    apply Permutation_sym. rewrite Permutation_app_comm. cbn [app]. apply perm_skip.
    rewrite <- app_assoc. rewrite (Permutation_app_comm (concat ts1)). rewrite <- app_assoc. reflexivity.
Qed.

(* running a list of atomic steps *)
Definition steps {S A} (f : A -> S -> res S) (l : list A) (c : S) : res S :=
  fold_left (fun r a => bind r (f a)) l (Ok c).

Lemma steps_cons {S A} (f : A -> S -> res S) a l c c1 : f a c = Ok c1 -> steps f (a :: l) c = steps f l c1.
Proof. intros E. unfold steps. cbn [fold_left bind]. now rewrite E. Qed.

(* ------------------------------------------------------------------ lists of shards *)
Lemma upd_nth_length {A} (f : A -> A) l : forall i, length (upd_nth i f l) = length l.
Proof. induction l as [|x l IH]; intros [|i]; cbn [upd_nth length]; auto. Qed.

Lemma nth_upd_nth {A} (f : A -> A) d l : forall i j, (i < length l)%nat ->
  nth j (upd_nth i f l) d = if Nat.eqb i j then f (nth j l d) else nth j l d.
Proof.
  induction l as [|x l IH]; intros i j Hi; [cbn in Hi; lia|]. destruct i as [|i], j as [|j]; cbn [upd_nth nth Nat.eqb]; auto.
  apply IH. cbn in Hi. lia.
Qed.

Lemma upd_nth_split {A} (f : A -> A) d l : forall i, (i < length l)%nat ->
  exists l1 l2, l = l1 ++ nth i l d :: l2 /\ upd_nth i f l = l1 ++ f (nth i l d) :: l2 /\ length l1 = i.
Proof.
  induction l as [|x l IH]; intros i Hi; [cbn in Hi; lia|]. destruct i as [|i].
  - exists [], l. auto.
  - cbn in Hi. destruct (IH i) as [l1 [l2 [E1 [E2 E3]]]]; [lia|]. exists (x :: l1), l2. cbn [upd_nth nth app length].
    rewrite <- E1, E2, E3. auto.
Qed.

Lemma mod_lt n x : n <> O -> (Nat.modulo x n < n)%nat.
Proof. intros H. now apply Nat.mod_upper_bound. Qed.

Section Shards.
  Variable hash : Z -> nat.
  Variable M : Type.
  Variable a : M -> mmap.                (* abstraction of one shard *)
  Variable keysof : M -> list Z.
  Variable e0 : M.                        (* the empty shard *)
  Hypothesis keys_e0 : keysof e0 = [].
  Hypothesis absent : forall k m, ~ In k (keysof m) -> mm_lookup k (a m) = [].

  Definition dm_abs (c : dmap M) : mmap := flat_map a (snd c).

  (* freeze / unfreeze are the identity on the contents *)
  Lemma dm_freeze_abs c : dm_abs (dm_freeze c) = dm_abs c.       Proof. reflexivity. Qed.
  Lemma dm_unfreeze_abs c : dm_abs (dm_unfreeze c) = dm_abs c.   Proof. reflexivity. Qed.
  Lemma dm_freeze_unfreeze (c : dmap M) : snd (dm_unfreeze (dm_freeze c)) = snd c /\ snd (dm_freeze (dm_unfreeze c)) = snd c.
  Proof. split; reflexivity. Qed.
  Lemma dm_freeze_flag (c : dmap M) : fst (dm_freeze c) = true /\ fst (dm_unfreeze c) = false.
  Proof. split; reflexivity. Qed.

  (* every key sits in the shard its hash selects *)
  Fixpoint placed (n : nat) (l : list M) (b : nat) : Prop :=
    match l with
    | [] => True
    | m :: r => (forall k, In k (keysof m) -> Nat.modulo (hash k) n = b) /\ placed n r (S b)
    end.
  Definition dm_placed (c : dmap M) : Prop := placed (length (snd c)) (snd c) 0.

  Lemma placed_ge n l : forall b k, placed n l b -> In k (concat (map keysof l)) -> (b <= Nat.modulo (hash k) n)%nat.
  Proof.
    induction l as [|m r IH]; intros b k P H; [destruct H|]. cbn [map concat] in H. destruct P as [P1 P2].
    apply in_app_iff in H as [H|H]; [rewrite (P1 k H); lia|]. specialize (IH _ _ P2 H). lia.
  Qed.

  Lemma placed_nth n l : forall b i k, placed n l b -> (i < length l)%nat -> In k (keysof (nth i l e0)) -> Nat.modulo (hash k) n = (b + i)%nat.
  Proof.
    induction l as [|m r IH]; intros b i k P Hi H; [cbn in Hi; lia|]. destruct P as [P1 P2]. destruct i as [|i]; cbn [nth] in H.
    - rewrite (P1 k H). lia.
    - cbn in Hi. rewrite (IH (S b) i k P2); [lia|lia|exact H].
  Qed.

  Lemma placed_upd n (f : M -> M) l : forall b i, placed n l b ->
    (forall k, In k (keysof (f (nth i l e0))) -> In k (keysof (nth i l e0)) \/ Nat.modulo (hash k) n = (b + i)%nat) ->
    placed n (upd_nth i f l) b.
  Proof.
    induction l as [|m r IH]; intros b i P H; [destruct i; exact I|]. destruct P as [P1 P2]. destruct i as [|i]; cbn [upd_nth placed nth] in *.
    - split; [|exact P2]. intros k Hk. destruct (H k Hk) as [H'|H']; [now apply P1|lia].
    - split; [exact P1|]. apply IH; [exact P2|]. intros k Hk. destruct (H k Hk) as [H'|H']; [now left|right; lia].
  Qed.

  Lemma placed_repeat n k : forall b, placed n (repeat e0 k) b.
  Proof. induction k as [|k IH]; intros b; cbn [repeat placed]; [exact I|]. split; [|apply IH]. rewrite keys_e0. intros ? []. Qed.

  (* the keys of all shards together are distinct *)
  Lemma placed_NoDup n l : forall b, placed n l b -> Forall (fun m => NoDup (keysof m)) l -> NoDup (concat (map keysof l)).
  Proof.
    induction l as [|m r IH]; intros b P F; [constructor|]. destruct P as [P1 P2]. inversion F as [|? ? Hm F']; subst.
    cbn [map concat]. apply NoDup_app_disj'; [exact Hm|now apply (IH (S b))|].
    intros k H1 H2. pose proof (placed_ge _ _ _ _ P2 H2) as G. rewrite (P1 k H1) in G. lia.
  Qed.

  (* a lookup only needs the shard selected by the hash *)
  Lemma placed_lookup n l k : forall b i, placed n l b -> Nat.modulo (hash k) n = (b + i)%nat -> (i < length l)%nat ->
    mm_lookup k (flat_map a l) = mm_lookup k (a (nth i l e0)).
  Proof.
    induction l as [|m r IH]; intros b i P E Hi; [cbn in Hi; lia|]. destruct P as [P1 P2]. cbn [flat_map]. rewrite mm_lookup_app.
    destruct i as [|i]; cbn [nth].
    - assert (R : mm_lookup k (flat_map a r) = []).
      { clear IH Hi. assert (G : forall l b', placed n l b' -> (Nat.modulo (hash k) n < b')%nat -> mm_lookup k (flat_map a l) = []).
        { induction l as [|m' l' IHl]; intros b' P' Hlt; [reflexivity|]. destruct P' as [Q1 Q2]. cbn [flat_map]. rewrite mm_lookup_app.
          rewrite absent; [|intros Hk; rewrite (Q1 k Hk) in Hlt; lia]. cbn [app]. apply (IHl (S b')); [exact Q2|lia]. }
        apply (G r (S b)); [exact P2|lia]. }
      rewrite R. apply app_nil_r.
    - rewrite absent; [|intros Hk; rewrite (P1 k Hk) in E; lia]. cbn [app]. cbn in Hi. apply (IH (S b) i); [exact P2|lia|lia].
  Qed.

  Definition has_shards (c : dmap M) : Prop := snd c <> [].

  Lemma shard_ix_lt k (c : dmap M) : has_shards c -> (shard_ix hash k c < length (snd c))%nat.
  Proof. intros H. unfold has_shards in H. unfold shard_ix. apply mod_lt. destruct (snd c); [congruence|cbn; lia]. Qed.

  Lemma is_nil_false {A} (l : list A) : l <> [] -> is_nil l = false.
  Proof. destruct l; [congruence|reflexivity]. Qed.

  (* ---- a write to the shard of k *)
  Lemma dm_write_spec k (f : M -> M) (e : list entry) c :
    fst c = false -> has_shards c ->
    (forall m, Permutation (a (f m)) (e ++ a m)) ->
    exists c', dm_write hash k f c = Ok c' /\ fst c' = false /\ length (snd c') = length (snd c) /\
               Permutation (dm_abs c') (e ++ dm_abs c) /\
               snd c' = upd_nth (shard_ix hash k c) f (snd c).
  Proof.
    intros Hf Hs Hp. unfold dm_write. rewrite Hf, (is_nil_false _ Hs). eexists. split; [reflexivity|]. cbn [fst snd].
    split; [reflexivity|]. split; [apply upd_nth_length|]. split; [|reflexivity].
    destruct (upd_nth_split f e0 (snd c) (shard_ix hash k c) (shard_ix_lt k c Hs)) as [l1 [l2 [E1 [E2 _]]]].
    unfold dm_abs. cbn [snd]. rewrite E2. rewrite E1 at 2. rewrite !flat_map_app. cbn [flat_map]. rewrite Hp.
    rewrite <- !app_assoc. apply Permutation_app_swap_app.
  Qed.

  Lemma dm_write_frozen k (f : M -> M) c : fst c = true -> dm_write hash k f c = Panic.
  Proof. intros H. unfold dm_write. now rewrite H. Qed.

  Lemma dm_write_placed k (f : M -> M) c c' :
    dm_write hash k f c = Ok c' -> dm_placed c ->
    (forall m x, In x (keysof (f m)) -> In x (keysof m) \/ x = k) -> dm_placed c'.
  Proof.
    unfold dm_write. destruct (fst c); [discriminate|]. destruct (is_nil (snd c)) eqn:Hn; [discriminate|].
    intros E P H. inversion E; subst. unfold dm_placed. cbn [snd]. rewrite upd_nth_length. apply placed_upd; [exact P|].
    intros x Hx. destruct (H _ _ Hx) as [H'| ->]; [now left|right]. reflexivity.
  Qed.

  (* ---- a read of the shard of k *)
  Lemma dm_read_spec {R} k (f : M -> R) c : fst c = true -> has_shards c ->
    dm_read hash e0 k f c = Ok (f (nth (shard_ix hash k c) (snd c) e0)).
  Proof. intros Hf Hs. unfold dm_read. now rewrite Hf, (is_nil_false _ Hs). Qed.

  Lemma dm_read_unfrozen {R} k (f : M -> R) c : fst c = false -> dm_read hash e0 k f c = Panic.
  Proof. intros Hf. unfold dm_read. now rewrite Hf. Qed.

  Lemma dm_lookup k c : has_shards c -> dm_placed c ->
    mm_lookup k (dm_abs c) = mm_lookup k (a (nth (shard_ix hash k c) (snd c) e0)).
  Proof.
    intros Hs P. unfold dm_abs. apply (placed_lookup _ _ k 0%nat (shard_ix hash k c) P); [reflexivity|now apply shard_ix_lt].
  Qed.

  (* ---- shard-wise move_index_contents *)
  Variable smove : M -> M -> M * M.
  Hypothesis smove_from : forall f t, fst (smove f t) = e0.
  Hypothesis smove_abs : forall f t, Permutation (a (snd (smove f t))) (a f ++ a t).
  Hypothesis a_e0 : a e0 = [].

  Lemma zip_move_abs : forall fs ts, length fs = length ts ->
    let ps := map (fun ft => smove (fst ft) (snd ft)) (combine fs ts) in
    map fst ps = repeat e0 (length fs) /\ Permutation (flat_map a (map snd ps)) (flat_map a fs ++ flat_map a ts).
  Proof.
    induction fs as [|f fs IH]; intros [|t ts] L; cbn [length] in L; try discriminate.
    - cbn. split; [reflexivity|constructor].
    - injection L as L. destruct (IH ts L) as [I1 I2]. cbn [combine map fst snd length repeat flat_map]. split.
      + now rewrite smove_from, I1.
      + rewrite I2, smove_abs. rewrite <- !app_assoc. apply Permutation_app_head. apply Permutation_app_swap_app.
  Qed.

  Theorem dm_move_spec from to : fst from = false -> fst to = false -> length (snd from) = length (snd to) ->
    exists f' t', dm_move smove from to = Ok (f', t') /\
      fst f' = false /\ fst t' = false /\
      snd f' = repeat e0 (length (snd from)) /\ dm_abs f' = [] /\
      length (snd t') = length (snd to) /\
      Permutation (dm_abs t') (dm_abs from ++ dm_abs to).
  Proof.
    intros Hf Ht L. unfold dm_move. rewrite Hf, Ht.
    replace (Nat.eqb (length (snd from)) (length (snd to))) with true by (symmetry; apply Nat.eqb_eq; exact L). cbn [negb].
    destruct (zip_move_abs (snd from) (snd to) L) as [Z1 Z2]. cbn zeta in Z1, Z2.
    eexists. eexists. split; [reflexivity|]. cbn [fst snd]. repeat split.
    - rewrite Z1. reflexivity.
    - unfold dm_abs. cbn [snd]. rewrite Z1. clear Z1 Z2. generalize (length (snd from)) as n. induction n as [|n IH]; [reflexivity|]. cbn. now rewrite a_e0.
    - rewrite !map_length, combine_length, L. lia.
    - exact Z2.
  Qed.

  Lemma dm_move_panics from to :
    fst from = true \/ fst to = true \/ length (snd from) <> length (snd to) -> dm_move smove from to = Panic.
  Proof.
    unfold dm_move. intros [H|[H|H]].
    - now rewrite H.
    - rewrite H. now destruct (fst from).
    - destruct (fst from), (fst to); try reflexivity. apply Nat.eqb_neq in H. now rewrite H.
  Qed.

  Hypothesis smove_keys : forall f t x, In x (keysof (snd (smove f t))) -> In x (keysof f) \/ In x (keysof t).

  Lemma zip_move_placed n : forall fs ts b, length fs = length ts -> placed n fs b -> placed n ts b ->
    placed n (map snd (map (fun ft => smove (fst ft) (snd ft)) (combine fs ts))) b.
  Proof.
    induction fs as [|f fs IH]; intros [|t ts] b L Pf Pt; cbn [length] in L; try discriminate; [exact I|].
    injection L as L. destruct Pf as [F1 F2], Pt as [T1 T2]. cbn [combine map fst snd placed]. split.
    - intros k Hk. destruct (smove_keys _ _ _ Hk); auto.
    - now apply IH.
  Qed.

  Lemma dm_move_placed from to f' t' : dm_move smove from to = Ok (f', t') -> dm_placed from -> dm_placed to ->
    dm_placed f' /\ dm_placed t'.
  Proof.
    unfold dm_move. destruct (fst from); [discriminate|]. destruct (fst to); [discriminate|].
    destruct (Nat.eqb (length (snd from)) (length (snd to))) eqn:L; [|discriminate]. apply Nat.eqb_eq in L. cbn [negb].
    intros E Pf Pt. inversion E; subst. unfold dm_placed in *. cbn [snd]. split.
    - destruct (zip_move_abs (snd from) (snd to) L) as [Z1 _]. cbn zeta in Z1. rewrite Z1. apply placed_repeat.
    - rewrite !map_length, combine_length, L, Nat.min_id. rewrite L in Pf. now apply zip_move_placed.
  Qed.
End Shards.

Lemma dm_default_has_shards (M : Type) (e : M) n : n <> O -> has_shards M (dm_default e n).
Proof. intros H. unfold has_shards. cbn. destruct n; [congruence|discriminate]. Qed.

(* membership versions (for the set-like types) *)
Section ShardsIn.
  Variable hash : Z -> nat.
  Variable M : Type.
  Variable a : M -> mmap.
  Variable keysof : M -> list Z.
  Variable e0 : M.
  Hypothesis a_keys : forall k v m, In (k, v) (a m) -> In k (keysof m).

  Lemma dm_write_In k (f : M -> M) (E : list entry) c c' :
    dm_write hash k f c = Ok c' ->
    (forall m e, In e (a (f m)) <-> In e E \/ In e (a m)) ->
    forall e, In e (dm_abs M a c') <-> In e E \/ In e (dm_abs M a c).
  Proof.
    unfold dm_write. destruct (fst c); [discriminate|]. destruct (is_nil (snd c)) eqn:Hn; [discriminate|].
    intros Eq Hp e. inversion Eq; subst. assert (Hs : has_shards M c) by (unfold has_shards; destruct (snd c); [discriminate|congruence]).
    destruct (upd_nth_split f e0 (snd c) (shard_ix hash k c) (shard_ix_lt hash M k c Hs)) as [l1 [l2 [E1 [E2 _]]]].
    unfold dm_abs. cbn [snd]. rewrite E2. rewrite E1 at 2. rewrite !flat_map_app. cbn [flat_map]. rewrite !in_app_iff, Hp. tauto.
  Qed.

  Lemma zip_move_In (smove : M -> M -> M * M)
    (S : forall f t e, In e (a (snd (smove f t))) <-> In e (a f) \/ In e (a t)) :
    forall fs ts, length fs = length ts ->
    forall e, In e (flat_map a (map snd (map (fun ft => smove (fst ft) (snd ft)) (combine fs ts)))) <-> In e (flat_map a fs) \/ In e (flat_map a ts).
  Proof.
    induction fs as [|f fs IH]; intros [|t ts] L e; cbn [length] in L; try discriminate.
    - cbn. tauto.
    - injection L as L. cbn [combine map fst snd flat_map]. rewrite !in_app_iff, S, (IH ts L). tauto.
  Qed.

  Lemma dm_move_In (smove : M -> M -> M * M) from to f' t'
    (S : forall f t e, In e (a (snd (smove f t))) <-> In e (a f) \/ In e (a t)) :
    dm_move smove from to = Ok (f', t') ->
    forall e, In e (dm_abs M a t') <-> In e (dm_abs M a from) \/ In e (dm_abs M a to).
  Proof.
    unfold dm_move. destruct (fst from); [discriminate|]. destruct (fst to); [discriminate|].
    destruct (Nat.eqb (length (snd from)) (length (snd to))) eqn:L; [|discriminate]. apply Nat.eqb_eq in L. cbn [negb].
    intros E e. inversion E; subst. unfold dm_abs. cbn [snd]. now apply zip_move_In.
  Qed.

  (* every entry once, globally *)
  Lemma placed_abs_NoDup n l : forall b, placed hash M keysof n l b -> Forall (fun m => NoDup (a m)) l -> NoDup (flat_map a l).
  Proof.
    induction l as [|m r IH]; intros b P F; [constructor|]. destruct P as [P1 P2]. inversion F as [|? ? Hm F']; subst.
    cbn [flat_map]. apply NoDup_app_disj'; [exact Hm|now apply (IH (S b))|].
    intros [k v] H1 H2. apply a_keys in H1. apply in_flat_map in H2 as [m' [Hm' H2]]. apply a_keys in H2.
    assert (G : In k (concat (map keysof r))).
    { apply in_concat. exists (keysof m'). split; [now apply in_map|exact H2]. }
    pose proof (placed_ge hash M keysof _ _ _ _ P2 G) as G'. rewrite (P1 k H1) in G'. lia.
  Qed.
End ShardsIn.

Lemma Forall_upd_nth {A} (P : A -> Prop) (f : A -> A) l : forall i, Forall P l -> (forall x, P x -> P (f x)) -> Forall P (upd_nth i f l).
Proof.
  induction l as [|x l IH]; intros i F H; [destruct i; constructor|]. inversion F; subst. destruct i; cbn [upd_nth]; constructor; auto.
Qed.

Lemma Forall_nth_d {A} (P : A -> Prop) d l i : Forall P l -> P d -> P (nth i l d).
Proof. intros F Hd. revert i. induction F; intros [|i]; cbn; auto. Qed.

Lemma Forall_zip {A} (P : A -> Prop) (g : A -> A -> A) : forall fs ts, Forall P fs -> Forall P ts -> (forall f t, P f -> P t -> P (g f t)) ->
  Forall P (map (fun ft => g (fst ft) (snd ft)) (combine fs ts)).
Proof.
  induction fs as [|f fs IH]; intros [|t ts] Ff Ft H; cbn [combine map]; try constructor.
  - inversion Ff; inversion Ft; subst. cbn. auto.
  - inversion Ff; inversion Ft; subst. now apply IH.
Qed.

Lemma hv_abs_concat ss : hv_abs (concat ss) = flat_map hv_abs ss.
Proof. induction ss as [|s ss IH]; [reflexivity|]. cbn [concat flat_map]. now rewrite hv_abs_app, IH. Qed.

Lemma flat_map_nil_iff {A B} (g : A -> list B) l : flat_map g l = [] <-> Forall (fun x => g x = []) l.
Proof.
  induction l as [|x l IH]; cbn [flat_map]; [split; constructor|]. split.
  - intros E. apply app_eq_nil in E as [E1 E2]. constructor; [exact E1|now apply IH].
  - intros F. inversion F; subst. rewrite H1. now apply IH.
Qed.

(* ================================================================== CRelIndex *)
Section CRelIndex.
  Variable sh : forall A : Type, list A -> list A.
  Hypothesis sh_perm : forall A (l : list A), Permutation (sh A l) l.
  Variable hash : Z -> nat.

  Definition cri_abs (c : cri) : mmap := dm_abs hvec hv_abs c.
  Definition cri_wf (c : cri) : Prop := Forall hv_wf (snd c) /\ dm_placed hash hvec hv_keys c.

  Lemma cri_default_wf n : cri_wf (dm_default ([] : hvec) n) /\ cri_abs (dm_default ([] : hvec) n) = [] /\ fst (dm_default ([] : hvec) n) = false.
  Proof.
    split; [|split; [|reflexivity]].
    - split.
      + cbn [dm_default snd]. clear. induction n; cbn [repeat]; constructor; [split; constructor|assumption].
      + unfold dm_placed. cbn [dm_default snd]. apply placed_repeat. reflexivity.
    - unfold cri_abs, dm_abs. cbn [dm_default snd]. clear. induction n; [reflexivity|]. cbn. assumption.
  Qed.

  (* freeze / unfreeze: identity on the contents *)
  Lemma cri_freeze_spec c : cri_abs (dm_freeze c) = cri_abs c /\ cri_abs (dm_unfreeze c) = cri_abs c /\
    (cri_wf c -> cri_wf (dm_freeze c) /\ cri_wf (dm_unfreeze c)).
  Proof. repeat split; try reflexivity; apply H. Qed.

  (* index_insert (both the &mut and the &self flavour): one atomic step adding one entry *)
  Theorem cri_insert_spec k v c : fst c = false -> has_shards hvec c ->
    exists c', cri_insert hash k v c = Ok c' /\ fst c' = false /\ length (snd c') = length (snd c) /\
               Permutation (cri_abs c') (mm_insert k v (cri_abs c)) /\ (cri_wf c -> cri_wf c').
  Proof.
    intros Hf Hs. unfold cri_insert.
    assert (Hp : forall m, Permutation (hv_abs (hv_insert k v m)) ([(k, v)] ++ hv_abs m)) by (intros m; apply hv_insert_abs).
    destruct (dm_write_spec hash hvec hv_abs [] k (hv_insert k v) [(k, v)] c Hf Hs Hp) as [c' [E [F [L [P U]]]]].
    exists c'. split; [exact E|]. split; [exact F|]. split; [exact L|]. split; [exact P|]. intros [W1 W2]. split.
    - rewrite U. apply Forall_upd_nth; [exact W1|]. intros m. apply hv_insert_wf.
    - apply (dm_write_placed hash hvec hv_keys [] k (hv_insert k v) c c' E W2). intros m x Hx.
      apply hv_insert_keys in Hx. tauto.
  Qed.

  Lemma cri_insert_frozen k v c : fst c = true -> cri_insert hash k v c = Panic.
  Proof. apply dm_write_frozen. Qed.

  (* index_get: exactly the values stored under the key *)
  Theorem cri_get_spec k c : fst c = true -> has_shards hvec c -> cri_wf c ->
    exists r, cri_get hash k c = Ok r /\
      match r with
      | Some vs => vs = mm_lookup k (cri_abs c) /\ vs <> []
      | None => mm_lookup k (cri_abs c) = []
      end.
  Proof.
    intros Hf Hs [W1 W2]. unfold cri_get. eexists. split; [apply (dm_read_spec hash hvec [] k (hv_get k) c Hf Hs)|].
    unfold cri_abs. rewrite (dm_lookup hash hvec hv_abs hv_keys [] lookup_absent k c Hs W2).
    apply hv_get_spec. apply Forall_nth_d; [exact W1|]. split; constructor.
  Qed.

  Lemma cri_get_unfrozen k c : fst c = false -> cri_get hash k c = Panic.
  Proof. apply dm_read_unfrozen. Qed.

  (* iter_all: every entry once, every key once *)
  Theorem cri_iter_all_spec c : fst c = true ->
    exists l, cri_iter_all sh c = Ok l /\ Permutation (hv_abs l) (mm_entries (cri_abs c)) /\ (cri_wf c -> NoDup (map fst l)).
  Proof.
    intros Hf. destruct c as [fz ss]. cbn [fst] in Hf. subst fz. eexists. split; [reflexivity|]. unfold cri_abs, dm_abs, cri_wf, dm_placed. cbn [snd]. split.
    - rewrite (hv_abs_perm _ _ (sh_perm _ _)). now rewrite hv_abs_concat.
    - intros [W1 W2]. eapply Permutation_NoDup; [apply Permutation_map, Permutation_sym, sh_perm|].
      rewrite concat_map. apply (placed_NoDup hash hvec hv_keys _ _ 0%nat W2).
      eapply Forall_impl; [|exact W1]. intros m [N _]. exact N.
  Qed.

  Theorem cri_is_empty_spec c : fst c = true -> cri_wf c ->
    exists b, cri_is_empty c = Ok b /\ (b = true <-> cri_abs c = []).
  Proof.
    intros Hf [W1 _]. destruct c as [fz ss]. cbn [fst snd] in *. subst fz. eexists. split; [reflexivity|].
    unfold cri_abs, dm_abs. cbn [snd]. rewrite Forall_forall in W1. split.
    - intros H. apply flat_map_nil_iff. rewrite Forall_forall. intros m Hm. apply hv_is_empty_spec; [apply W1; exact Hm|].
      rewrite forallb_forall in H. apply H, Hm.
    - intros H. apply forallb_forall. intros m Hm. apply hv_is_empty_spec; [apply W1, Hm|].
      apply flat_map_nil_iff in H. rewrite Forall_forall in H. apply H, Hm.
  Qed.

  (* len_estimate is exact when there are at most four shards (it samples the first four) *)

  (* ---- move_index_contents / merge *)
  Lemma hv_move_keys from to x : In x (hv_keys (snd (hv_move sh from to))) -> In x (hv_keys from) \/ In x (hv_keys to).
  Proof.
    assert (G : forall l t, In x (hv_keys (hv_fold l t)) -> In x (hv_keys l) \/ In x (hv_keys t)).
    { induction l as [|[k v] l IH]; intros t H; [now right|]. unfold hv_fold in *. cbn [fold_left fst snd] in H.
      apply IH in H as [H|H]; [left; now right|]. apply hv_merge_entry_keys in H as [->|H]; [left; now left|now right]. }
    unfold hv_move. destruct (length to <? length from)%nat; cbn [snd]; unfold hv_drain_into; intros H; apply G in H as [H|H]; auto.
    - right. eapply Permutation_in; [apply Permutation_map, sh_perm|exact H].
    - left. eapply Permutation_in; [apply Permutation_map, sh_perm|exact H].
  Qed.

  Lemma hv_move_from f t : fst (hv_move sh f t) = [].
  Proof. apply hv_move_spec. exact sh_perm. Qed.
  Lemma hv_move_abs2 f t : Permutation (hv_abs (snd (hv_move sh f t))) (hv_abs f ++ hv_abs t).
  Proof. destruct (hv_move_spec sh sh_perm f t) as [_ [H _]]. rewrite H. apply Permutation_app_comm. Qed.

  Theorem cri_move_spec from to : fst from = false -> fst to = false -> length (snd from) = length (snd to) ->
    exists f' t', cri_move sh from to = Ok (f', t') /\ fst f' = false /\ fst t' = false /\
      cri_abs f' = [] /\ length (snd f') = length (snd from) /\ length (snd t') = length (snd to) /\
      Permutation (cri_abs t') (mm_union (cri_abs to) (cri_abs from)) /\
      (cri_wf from -> cri_wf to -> cri_wf f' /\ cri_wf t').
  Proof.
    intros Hf Ht L. unfold cri_move.
    destruct (dm_move_spec hvec hv_abs [] (hv_move sh) hv_move_from hv_move_abs2 eq_refl from to Hf Ht L)
      as [f' [t' [E [F1 [F2 [S1 [A1 [L2 P]]]]]]]].
    exists f', t'. split; [exact E|]. split; [exact F1|]. split; [exact F2|]. split; [exact A1|].
    split; [rewrite S1; apply repeat_length|]. split; [exact L2|]. split.
    - unfold cri_abs, mm_union. rewrite P. apply Permutation_app_comm.
    - intros [Wf Pf] [Wt Pt].
      destruct (dm_move_placed hash hvec hv_abs hv_keys [] eq_refl (hv_move sh) hv_move_from hv_move_abs2 hv_move_keys from to f' t' E Pf Pt) as [Q1 Q2].
      split; (split; [|assumption]).
      + rewrite S1. clear. induction (length (snd from)); cbn [repeat]; constructor; [split; constructor|assumption].
      + unfold dm_move in E. rewrite Hf, Ht in E. destruct (negb _); [discriminate|]. inversion E; subst. cbn [snd]. rewrite map_map.
        apply (Forall_zip hv_wf (fun f t => snd (hv_move sh f t))); auto. intros f t Hwf Hwt. now apply hv_move_spec.
  Qed.

  Lemma cri_move_panics from to :
    fst from = true \/ fst to = true \/ length (snd from) <> length (snd to) -> cri_move sh from to = Panic.
  Proof. apply dm_move_panics. Qed.

  Theorem cri_merge_spec new delta total : fst delta = false -> fst total = false -> length (snd delta) = length (snd total) ->
    exists n' t', merge3r (cri_move sh) new delta total = Ok (n', new, t') /\
      cri_abs n' = [] /\ fst n' = false /\ fst t' = false /\
      Permutation (cri_abs t') (mm_union (cri_abs total) (cri_abs delta)) /\
      (cri_wf delta -> cri_wf total -> cri_wf n' /\ cri_wf t').
  Proof.
    intros Hd Ht L. destruct (cri_move_spec delta total Hd Ht L) as [f' [t' [E [F1 [F2 [A1 [_ [_ [P W]]]]]]]]].
    exists f', t'. unfold merge3r. rewrite E. cbn [bind fst snd]. auto 10.
  Qed.

  (* ---- concurrency: every order of the atomic insert steps yields the multiset union *)
  Definition cri_step (kv : Z * Z) (c : cri) : res cri := cri_insert hash (fst kv) (snd kv) c.

  Theorem cri_steps_spec l : forall c, fst c = false -> has_shards hvec c ->
    exists c', steps cri_step l c = Ok c' /\ fst c' = false /\ length (snd c') = length (snd c) /\
               Permutation (cri_abs c') (mm_union (mm_of_inserts l) (cri_abs c)) /\ (cri_wf c -> cri_wf c').
  Proof.
    induction l as [|[k v] l IH]; intros c Hf Hs.
    - exists c. split; [reflexivity|]. split; [exact Hf|]. split; [reflexivity|]. split; [reflexivity|auto].
    - destruct (cri_insert_spec k v c Hf Hs) as [c1 [E1 [F1 [L1 [P1 W1]]]]].
      assert (Hs1 : has_shards hvec c1).
      { unfold has_shards in *. destruct (snd c1); [destruct (snd c); [congruence|discriminate]|discriminate]. }
      destruct (IH c1 F1 Hs1) as [c' [E [F [L [P W]]]]]. exists c'. split.
      + rewrite (steps_cons cri_step (k, v) l c c1 E1). exact E.
      + split; [exact F|]. split; [congruence|]. split.
        * rewrite P. unfold mm_union, mm_of_inserts, mm_insert in *. rewrite P1. cbn [app]. apply Permutation_sym, Permutation_middle.
        * intros Wc. apply W, W1, Wc.
  Qed.

  Theorem cri_concurrent_inserts (threads : list (list (Z * Z))) (schedule : list (Z * Z)) c :
    fst c = false -> has_shards hvec c -> interleave threads schedule ->
    exists c', steps cri_step schedule c = Ok c' /\
               Permutation (cri_abs c') (mm_union (mm_of_inserts (concat threads)) (cri_abs c)) /\ (cri_wf c -> cri_wf c').
  Proof.
    intros Hf Hs I. destruct (cri_steps_spec schedule c Hf Hs) as [c' [E [_ [_ [P W]]]]]. exists c'. split; [exact E|]. split; [|exact W].
    rewrite P. unfold mm_union, mm_of_inserts. apply Permutation_app_tail. now apply interleave_perm.
  Qed.
End CRelIndex.

(* ================================================================== CRelFullIndex *)
Lemma fm_lookup_absent k (m : fmap) : ~ In k (fm_keys m) -> mm_lookup k m = [].
Proof.
  intros H. destruct (mm_lookup k m) as [|v l] eqn:E; [reflexivity|]. exfalso. apply H.
  assert (I : In v (mm_lookup k m)) by (rewrite E; now left). apply mm_lookup_in in I.
  change (In k (map fst m)). apply in_map_iff. exists (k, v). auto.
Qed.

Lemma fm_get_inp k v k' m :
  fm_get k' (fst (fm_insert_if_not_present k v m)) = if negb (fm_contains k m) && (k =? k') then Some v else fm_get k' m.
Proof.
  unfold fm_insert_if_not_present. destruct (fm_contains k m) eqn:C; cbn [fst negb andb]; [reflexivity|].
  apply fm_get_app_absent. intros H. apply fm_contains_In in H. congruence.
Qed.

Lemma fm_inp_keys k v m x : In x (fm_keys (fst (fm_insert_if_not_present k v m))) -> In x (fm_keys m) \/ x = k.
Proof.
  unfold fm_insert_if_not_present. destruct (fm_contains k m); cbn [fst]; [now left|].
  unfold fm_keys. rewrite map_app, in_app_iff. cbn. intuition.
Qed.

Lemma fm_inp_nodup k v m : NoDup (fm_keys m) -> NoDup (fm_keys (fst (fm_insert_if_not_present k v m))).
Proof.
  intros N. pose proof (fm_insert_if_not_present_spec k v m N) as S. destruct (fm_insert_if_not_present k v m) as [m' b].
  cbn [fst]. apply S.
Qed.

Section CRelFullIndex.
  Variable sh : forall A : Type, list A -> list A.
  Hypothesis sh_perm : forall A (l : list A), Permutation (sh A l) l.
  Variable hash : Z -> nat.

  Definition cfi_shard (k : Z) (c : cfi) : fmap := nth (shard_ix hash k c) (snd c) [].
  Definition cfi_lookup (k : Z) (c : cfi) : option Z := fm_get k (cfi_shard k c).
  Definition cfi_has (k : Z) (c : cfi) : bool := fm_contains k (cfi_shard k c).
  Definition cfi_entries (c : cfi) : mmap := dm_abs fmap (fun m => m) c.
  Definition cfi_wf (c : cfi) : Prop := Forall (fun m => NoDup (fm_keys m)) (snd c) /\ dm_placed hash fmap fm_keys c.

  Lemma cfi_has_lookup k c : cfi_has k c = match cfi_lookup k c with Some _ => true | None => false end.
  Proof. reflexivity. Qed.

  Lemma cfi_freeze_spec c : cfi_entries (dm_freeze c) = cfi_entries c /\ cfi_entries (dm_unfreeze c) = cfi_entries c /\
    (forall k, cfi_lookup k (dm_freeze c) = cfi_lookup k c /\ cfi_lookup k (dm_unfreeze c) = cfi_lookup k c) /\
    (cfi_wf c -> cfi_wf (dm_freeze c) /\ cfi_wf (dm_unfreeze c)).
  Proof. repeat split; try reflexivity; apply H. Qed.

  Lemma cfi_default_wf n : cfi_wf (dm_default ([] : fmap) n) /\ cfi_entries (dm_default ([] : fmap) n) = [] /\ fst (dm_default ([] : fmap) n) = false.
  Proof.
    split; [|split; [|reflexivity]].
    - split.
      + cbn [dm_default snd]. clear. induction n; cbn [repeat]; constructor; [constructor|assumption].
      + unfold dm_placed. cbn [dm_default snd]. apply placed_repeat. reflexivity.
    - unfold cfi_entries, dm_abs. cbn [dm_default snd]. clear. induction n; [reflexivity|]. cbn. assumption.
  Qed.

  (* the shard of k' after a write to the shard of k *)
  Lemma cfi_shard_upd k k' (f : fmap -> fmap) (c : cfi) b : has_shards fmap c ->
    cfi_shard k' (b, upd_nth (shard_ix hash k c) f (snd c)) =
    if Nat.eqb (shard_ix hash k c) (shard_ix hash k' c) then f (cfi_shard k' c) else cfi_shard k' c.
  Proof.
    intros Hs. unfold cfi_shard. unfold shard_ix at 1. cbn [snd]. rewrite upd_nth_length. fold (shard_ix hash k' c).
    apply nth_upd_nth. now apply shard_ix_lt.
  Qed.

  Lemma same_key_same_shard k k' (c : cfi) : k = k' -> Nat.eqb (shard_ix hash k c) (shard_ix hash k' c) = true.
  Proof. intros ->. apply Nat.eqb_refl. Qed.

  (* index_insert = DashMap::insert: the key now maps to v (overwrites) *)
  Theorem cfi_insert_spec k v c : fst c = false -> has_shards fmap c ->
    exists c', cfi_insert hash k v c = Ok c' /\ fst c' = false /\ length (snd c') = length (snd c) /\
      (forall k', cfi_lookup k' c' = if k =? k' then Some v else cfi_lookup k' c) /\ (cfi_wf c -> cfi_wf c').
  Proof.
    intros Hf Hs. unfold cfi_insert, dm_write. rewrite Hf, (is_nil_false _ Hs). eexists. split; [reflexivity|].
    cbn [fst snd]. split; [reflexivity|]. split; [apply upd_nth_length|]. split.
    - intros k'. unfold cfi_lookup. rewrite (cfi_shard_upd k k' (fm_insert k v) c false Hs).
      destruct (Nat.eqb (shard_ix hash k c) (shard_ix hash k' c)) eqn:E.
      + apply fm_get_insert.
      + destruct (Z.eqb_spec k k') as [->|Ne]; [|reflexivity]. rewrite Nat.eqb_refl in E. discriminate.
    - intros [W1 W2]. split.
      + cbn [snd]. apply Forall_upd_nth; [exact W1|]. intros m. apply fm_insert_nodup.
      + apply (dm_write_placed hash fmap fm_keys [] k (fm_insert k v) c _) ; [|exact W2|].
        * unfold dm_write. now rewrite Hf, (is_nil_false _ Hs).
        * intros m x Hx. apply fm_insert_keys in Hx. tauto.
  Qed.

  (* insert_if_not_present, &mut flavour (unfreezes first): returns true iff absent, and then inserts *)
  Theorem cfi_insert_if_not_present_mut_spec k v c : has_shards fmap c ->
    exists c', cfi_insert_if_not_present_mut hash k v c = Ok (c', negb (cfi_has k c)) /\ fst c' = false /\
      length (snd c') = length (snd c) /\
      (forall k', cfi_lookup k' c' = if negb (cfi_has k c) && (k =? k') then Some v else cfi_lookup k' c) /\
      (forall k', cfi_has k' c' = cfi_has k' c || (k =? k')) /\
      (cfi_wf c -> cfi_wf c').
  Proof.
    intros Hs. unfold cfi_insert_if_not_present_mut. cbn [dm_unfreeze snd]. rewrite (is_nil_false _ Hs).
    change (shard_ix hash k (false, snd c)) with (shard_ix hash k c).
    eexists. split; [reflexivity|]. cbn [fst snd]. split; [reflexivity|]. split; [apply upd_nth_length|].
    assert (LK : forall k', cfi_lookup k' (false, upd_nth (shard_ix hash k c) (fun m => fst (fm_insert_if_not_present k v m)) (snd c)) =
                            if negb (cfi_has k c) && (k =? k') then Some v else cfi_lookup k' c).
    { intros k'. unfold cfi_lookup. rewrite (cfi_shard_upd k k' (fun m => fst (fm_insert_if_not_present k v m)) c false Hs).
      destruct (Nat.eqb (shard_ix hash k c) (shard_ix hash k' c)) eqn:E.
      - rewrite fm_get_inp. unfold cfi_has, cfi_shard. apply Nat.eqb_eq in E. rewrite E. reflexivity.
      - destruct (Z.eqb_spec k k') as [->|Ne]; [rewrite Nat.eqb_refl in E; discriminate|]. now rewrite andb_false_r. }
    split; [exact LK|]. split.
    - intros k'. rewrite !cfi_has_lookup, LK. destruct (Z.eqb_spec k k') as [->|Ne].
      + rewrite andb_true_r. rewrite cfi_has_lookup. destruct (cfi_lookup k' c); reflexivity.
      + rewrite andb_false_r, orb_false_r. reflexivity.
    - intros [W1 W2]. split.
      + cbn [snd]. apply Forall_upd_nth; [exact W1|]. intros m. apply fm_inp_nodup.
      + apply (dm_write_placed hash fmap fm_keys [] k (fun m => fst (fm_insert_if_not_present k v m)) (false, snd c) _).
        * unfold dm_write. cbn [fst snd]. rewrite (is_nil_false _ Hs). reflexivity.
        * exact W2.
        * intros m x Hx. now apply fm_inp_keys in Hx.
  Qed.

  (* &self flavour: the same atomic step, requires the unfrozen state *)
  Theorem cfi_insert_if_not_present_spec k v c : fst c = false -> has_shards fmap c ->
    exists c', cfi_insert_if_not_present hash k v c = Ok (c', negb (cfi_has k c)) /\ fst c' = false /\
      length (snd c') = length (snd c) /\
      (forall k', cfi_lookup k' c' = if negb (cfi_has k c) && (k =? k') then Some v else cfi_lookup k' c) /\
      (forall k', cfi_has k' c' = cfi_has k' c || (k =? k')) /\
      (cfi_wf c -> cfi_wf c').
  Proof. intros Hf Hs. unfold cfi_insert_if_not_present. rewrite Hf. now apply cfi_insert_if_not_present_mut_spec. Qed.

  Lemma cfi_insert_if_not_present_frozen k v c : fst c = true -> cfi_insert_if_not_present hash k v c = Panic.
  Proof. intros H. unfold cfi_insert_if_not_present. now rewrite H. Qed.

  (* reads (frozen): index_get / contains_key answer from the shard of the key; under the invariant that is
     exactly the set of entries *)
  Theorem cfi_get_spec k c : fst c = true -> has_shards fmap c ->
    cfi_get hash k c = Ok (match cfi_lookup k c with Some v => Some [v] | None => None end) /\
    cfi_contains hash k c = Ok (cfi_has k c).
  Proof.
    intros Hf Hs. unfold cfi_get, cfi_contains. rewrite !(dm_read_spec hash fmap [] k _ c Hf Hs). split; reflexivity.
  Qed.

  Theorem cfi_lookup_entries k v c : has_shards fmap c -> cfi_wf c -> (In (k, v) (cfi_entries c) <-> cfi_lookup k c = Some v).
  Proof.
    intros Hs [W1 W2]. rewrite <- mm_lookup_in. unfold cfi_entries.
    rewrite (dm_lookup hash fmap (fun m => m) fm_keys [] fm_lookup_absent k c Hs W2). rewrite mm_lookup_in.
    unfold cfi_lookup, cfi_shard. assert (N : NoDup (fm_keys (nth (shard_ix hash k c) (snd c) []))).
    { apply Forall_nth_d; [exact W1|constructor]. }
    split; [now apply In_fm_get|apply fm_get_In].
  Qed.

  Lemma concat_flat_id (ss : list fmap) : flat_map (fun m => m) ss = concat ss.
  Proof. induction ss as [|s ss IH]; [reflexivity|]. cbn. now rewrite IH. Qed.

  Theorem cfi_iter_all_spec c : fst c = true ->
    exists l, cfi_iter_all sh c = Ok l /\ Permutation (hv_abs l) (mm_entries (cfi_entries c)) /\ (cfi_wf c -> NoDup (map fst l)).
  Proof.
    intros Hf. destruct c as [fz ss]. cbn [fst] in Hf. subst fz. eexists. split; [reflexivity|].
    unfold cfi_entries, dm_abs, cfi_wf, dm_placed, mm_entries. cbn [snd]. split.
    - rewrite (fm_iter_all_abs sh sh_perm). now rewrite concat_flat_id.
    - intros [W1 W2]. apply (fm_iter_all_keys sh sh_perm). unfold fm_keys. rewrite concat_map.
      apply (placed_NoDup hash fmap fm_keys _ _ 0%nat W2 W1).
  Qed.

  Theorem cfi_len_spec c : fst c = true ->
    cfi_len c = Ok (mm_size (cfi_entries c)) /\ cfi_is_empty c = Ok (mm_size (cfi_entries c) =? 0).
  Proof.
    intros Hf. destruct c as [fz ss]. cbn [fst] in Hf. subst fz. unfold cfi_len, cfi_is_empty, dm_read_all, cfi_entries, dm_abs, mm_size, zlen.
    cbn [fst snd]. now rewrite concat_flat_id.
  Qed.

  (* ---- move_index_contents / merge: shard-wise fm_move *)
  Lemma nth_zip {A B} (g : A -> A -> B) d db : forall fs ts i, length fs = length ts -> (i < length fs)%nat ->
    nth i (map (fun ft => g (fst ft) (snd ft)) (combine fs ts)) db = g (nth i fs d) (nth i ts d).
  Proof.
    induction fs as [|f fs IH]; intros [|t ts] i L Hi; cbn [length] in *; try lia.
    destruct i as [|i]; cbn [combine map nth fst snd]; [reflexivity|]. apply IH; lia.
  Qed.

  Theorem cfi_move_spec from to : fst from = false -> fst to = false -> length (snd from) = length (snd to) -> has_shards fmap to ->
    exists f' t', cfi_move sh from to = Ok (f', t') /\ fst f' = false /\ fst t' = false /\
      cfi_entries f' = [] /\ length (snd f') = length (snd from) /\ length (snd t') = length (snd to) /\
      (forall k, cfi_lookup k t' = fm_get k (snd (fm_move sh (cfi_shard k from) (cfi_shard k to)))) /\
      (cfi_wf from -> cfi_wf to ->
         cfi_wf f' /\ cfi_wf t' /\
         (forall k, cfi_has k t' = cfi_has k from || cfi_has k to) /\
         (forall k v, cfi_lookup k t' = Some v -> cfi_lookup k from = Some v \/ cfi_lookup k to = Some v) /\
         ((forall k, cfi_has k from = true -> cfi_has k to = false) ->
            forall k, cfi_lookup k t' = match cfi_lookup k from with Some v => Some v | None => cfi_lookup k to end)).
  Proof.
    intros Hf Ht L Hs. unfold cfi_move, dm_move. rewrite Hf, Ht.
    replace (Nat.eqb (length (snd from)) (length (snd to))) with true by (symmetry; apply Nat.eqb_eq; exact L). cbn [negb].
    eexists. eexists. split; [reflexivity|]. cbn [fst snd]. split; [reflexivity|]. split; [reflexivity|].
    assert (Z1 : map fst (map (fun ft => fm_move sh (fst ft) (snd ft)) (combine (snd from) (snd to))) = repeat [] (length (snd from))).
    { clear Hs Hf Ht. revert L. generalize (snd to). induction (snd from) as [|f fs IH]; intros [|t ts] L; cbn [length] in L; try discriminate; [reflexivity|].
      cbn [combine map fst snd length repeat]. f_equal.
      - unfold fm_move. destruct (length t <? length f)%nat; reflexivity.
      - apply IH. lia. }
    assert (LK : forall k, cfi_lookup k (false, map snd (map (fun ft => fm_move sh (fst ft) (snd ft)) (combine (snd from) (snd to)))) =
                          fm_get k (snd (fm_move sh (cfi_shard k from) (cfi_shard k to)))).
    { intros k. unfold cfi_lookup, cfi_shard, shard_ix. cbn [snd]. rewrite !map_length, combine_length, L, Nat.min_id.
      rewrite map_map. f_equal. apply (nth_zip (fun f t => snd (fm_move sh f t)) [] []); [exact L|].
      rewrite L. apply mod_lt. unfold has_shards in Hs. destruct (snd to); [congruence|discriminate]. }
    split.
    { unfold cfi_entries, dm_abs. cbn [snd]. rewrite Z1. clear. induction (length (snd from)); [reflexivity|]. cbn. assumption. }
    split; [rewrite Z1; apply repeat_length|]. split; [rewrite !map_length, combine_length, L; lia|].
    split; [exact LK|].
    intros [Wf Pf] [Wt Pt].
    assert (NF : forall k, NoDup (fm_keys (cfi_shard k from))) by (intros k; unfold cfi_shard; apply (Forall_nth_d (fun m => NoDup (fm_keys m))); [exact Wf|constructor]).
    assert (NT : forall k, NoDup (fm_keys (cfi_shard k to))) by (intros k; unfold cfi_shard; apply (Forall_nth_d (fun m => NoDup (fm_keys m))); [exact Wt|constructor]).
    assert (E : dm_move (fm_move sh) from to = Ok ((false, map fst (map (fun ft => fm_move sh (fst ft) (snd ft)) (combine (snd from) (snd to)))),
                                                   (false, map snd (map (fun ft => fm_move sh (fst ft) (snd ft)) (combine (snd from) (snd to)))))).
    { unfold dm_move. rewrite Hf, Ht. replace (Nat.eqb (length (snd from)) (length (snd to))) with true by (symmetry; apply Nat.eqb_eq; exact L). reflexivity. }
    assert (MK : forall f t x, In x (fm_keys (snd (fm_move sh f t))) -> In x (fm_keys f) \/ In x (fm_keys t)).
    { intros f t x. unfold fm_move. destruct (length t <? length f)%nat; cbn [snd]; unfold fm_drain_into; intros H;
        apply (fm_fold_keys) in H as [H|H]; auto.
      - right. eapply Permutation_in; [apply Permutation_map, sh_perm|exact H].
      - left. eapply Permutation_in; [apply Permutation_map, sh_perm|exact H]. }
    assert (PL : dm_placed hash fmap fm_keys (false, map fst (map (fun ft => fm_move sh (fst ft) (snd ft)) (combine (snd from) (snd to)))) /\
                 dm_placed hash fmap fm_keys (false, map snd (map (fun ft => fm_move sh (fst ft) (snd ft)) (combine (snd from) (snd to))))).
    { split.
      - unfold dm_placed. cbn [snd]. rewrite Z1. apply placed_repeat. reflexivity.
      - unfold dm_placed in *. cbn [snd]. rewrite !map_length, combine_length, L, Nat.min_id. rewrite L in Pf.
        apply (zip_move_placed hash fmap fm_keys (fm_move sh) MK); auto. }
    destruct PL as [PL1 PL2].
    split; [|split; [|split; [|split]]].
    - split; [|exact PL1]. cbn [snd]. rewrite Z1. clear. induction (length (snd from)); cbn [repeat]; constructor; [constructor|assumption].
    - split; [|exact PL2]. cbn [snd]. rewrite map_map.
      apply (Forall_zip (fun m => NoDup (fm_keys m)) (fun f t => snd (fm_move sh f t))); auto.
      intros f t Nf Nt. now apply fm_move_spec.
    - intros k. rewrite !cfi_has_lookup, LK. destruct (fm_move_spec sh sh_perm _ _ (NF k) (NT k)) as [_ [_ [_ G]]]. rewrite G.
      unfold cfi_lookup. destruct (length (cfi_shard k to) <? length (cfi_shard k from))%nat;
        destruct (fm_get k (cfi_shard k from)), (fm_get k (cfi_shard k to)); reflexivity.
    - intros k v. rewrite LK. destruct (fm_move_spec sh sh_perm _ _ (NF k) (NT k)) as [_ [_ [_ G]]]. rewrite G.
      unfold cfi_lookup. destruct (length (cfi_shard k to) <? length (cfi_shard k from))%nat;
        destruct (fm_get k (cfi_shard k from)), (fm_get k (cfi_shard k to)); intros H; inversion H; subst; auto.
    - intros D k. rewrite LK. destruct (fm_move_spec sh sh_perm _ _ (NF k) (NT k)) as [_ [_ [_ G]]]. rewrite G.
      specialize (D k). rewrite !cfi_has_lookup in D. unfold cfi_lookup in *.
      destruct (length (cfi_shard k to) <? length (cfi_shard k from))%nat; [|reflexivity].
      destruct (fm_get k (cfi_shard k from)), (fm_get k (cfi_shard k to)); try reflexivity. specialize (D eq_refl). discriminate.
  Qed.

  (* ---- concurrency: racing insert_if_not_present calls; every order of the atomic steps *)
  Fixpoint cfi_np_steps (l : list (Z * Z)) (c : cfi) : res (cfi * list (Z * bool)) :=
    match l with
    | [] => Ok (c, [])
    | (k, v) :: r =>
        bind (cfi_insert_if_not_present hash k v c) (fun cb =>
        bind (cfi_np_steps r (fst cb)) (fun cr => Ok (fst cr, (k, snd cb) :: snd cr)))
    end.
  (* number of calls on key k that returned true *)
  Definition winners (k : Z) (rs : list (Z * bool)) : nat := length (filter (fun r => (fst r =? k) && snd r) rs).
  Definition called (k : Z) (l : list (Z * Z)) : bool := existsb (fun kv => fst kv =? k) l.

  Theorem cfi_np_steps_spec l : forall c, fst c = false -> has_shards fmap c ->
    exists c' rs, cfi_np_steps l c = Ok (c', rs) /\ map fst rs = map fst l /\ fst c' = false /\
      (forall k, winners k rs = if cfi_has k c then 0%nat else if called k l then 1%nat else 0%nat) /\
      (forall k, cfi_has k c' = cfi_has k c || called k l) /\
      (forall k v, cfi_lookup k c' = Some v -> cfi_lookup k c = Some v \/ (cfi_has k c = false /\ In (k, v) l)) /\
      (cfi_wf c -> cfi_wf c').
  Proof.
    induction l as [|[k v] l IH]; intros c Hf Hs.
    - exists c, []. split; [reflexivity|]. split; [reflexivity|]. split; [exact Hf|]. split.
      + intros k. cbn. now destruct (cfi_has k c).
      + split; [intros k; cbn; now rewrite orb_false_r|]. split; [auto|auto].
    - destruct (cfi_insert_if_not_present_spec k v c Hf Hs) as [c1 [E1 [F1 [L1 [LK1 [HS1 W1]]]]]].
      assert (Hs1 : has_shards fmap c1).
      { unfold has_shards in *. destruct (snd c1); [destruct (snd c); [congruence|discriminate]|discriminate]. }
      destruct (IH c1 F1 Hs1) as [c' [rs [E [M [F [Wn [HS [LK W]]]]]]]].
      exists c', ((k, negb (cfi_has k c)) :: rs). cbn [cfi_np_steps]. rewrite E1. cbn [bind fst snd]. rewrite E. cbn [bind fst snd].
      split; [reflexivity|]. split; [cbn [map fst]; now rewrite M|]. split; [exact F|]. split; [|split; [|split]].
      + intros k0. unfold winners in *. cbn [filter fst snd called existsb]. specialize (Wn k0). rewrite HS1 in Wn.
        destruct (Z.eqb_spec k k0) as [->|Ne].
        * destruct (cfi_has k0 c) eqn:H0; cbn [negb andb orb] in *.
          -- exact Wn.
          -- cbn [length]. rewrite Wn. reflexivity.
        * cbn [andb]. rewrite orb_false_r in Wn. rewrite Wn. reflexivity.
      + intros k0. rewrite HS, HS1. cbn [called existsb fst]. now rewrite orb_assoc.
      + intros k0 v0 H. apply LK in H as [H|[H1 H2]].
        * rewrite LK1 in H. destruct (cfi_has k c) eqn:Hk; cbn [negb andb] in H; [now left|].
          destruct (Z.eqb_spec k k0) as [->|Ne]; [|now left]. inversion H; subst. right. split; [exact Hk|now left].
        * right. rewrite HS1 in H1. apply orb_false_iff in H1 as [H1 _]. split; [exact H1|now right].
      + intros Wc. apply W, W1, Wc.
  Qed.

  (* among the calls of several threads racing on one key exactly one returns true (none if the key was present) *)
  Theorem cfi_concurrent_insert_if_not_present (threads : list (list (Z * Z))) (schedule : list (Z * Z)) c :
    fst c = false -> has_shards fmap c -> interleave threads schedule ->
    exists c' rs, cfi_np_steps schedule c = Ok (c', rs) /\
      (forall k, winners k rs = if cfi_has k c then 0%nat else if called k (concat threads) then 1%nat else 0%nat) /\
      (forall k, cfi_has k c' = cfi_has k c || called k (concat threads)) /\
      (forall k v, cfi_lookup k c' = Some v -> cfi_lookup k c = Some v \/ (cfi_has k c = false /\ In (k, v) (concat threads))) /\
      (cfi_wf c -> cfi_wf c').
  Proof.
    intros Hf Hs I. destruct (cfi_np_steps_spec schedule c Hf Hs) as [c' [rs [E [_ [_ [Wn [HS [LK W]]]]]]]].
    pose proof (interleave_perm _ _ I) as P.
    assert (C : forall k, called k schedule = called k (concat threads)).
    { intros k. unfold called. clear - P. induction P as [|x a b P IH|x y a|a b c0 P1 IH1 P2 IH2]; cbn [existsb].
      - reflexivity.
      - now rewrite IH.
      - destruct (fst x =? k), (fst y =? k); reflexivity.
      - now rewrite IH1. }
    exists c', rs. split; [exact E|]. split; [intros k; rewrite <- C; apply Wn|]. split; [intros k; rewrite <- C; apply HS|]. split; [|exact W].
    intros k v H. apply LK in H as [H|[H1 H2]]; [now left|right]. split; [exact H1|]. eapply Permutation_in; [exact P|exact H2].
  Qed.
End CRelFullIndex.

(* ================================================================== CLatIndex *)
Section CLatIndex.
  Variable sh : forall A : Type, list A -> list A.
  Hypothesis sh_perm : forall A (l : list A), Permutation (sh A l) l.
  Variable hash : Z -> nat.

  Definition clat_abs (c : clat) : mmap := dm_abs lmap hv_abs c.
  Definition clat_wf (c : clat) : Prop := Forall lat_wf (snd c) /\ dm_placed hash lmap hv_keys c.

  Lemma hv_abs_keys k v (m : lmap) : In (k, v) (hv_abs m) -> In k (hv_keys m).
  Proof. intros H. apply in_hv_abs in H as [vs [H _]]. change (In k (map fst m)). apply in_map_iff. exists (k, vs). auto. Qed.

  (* every (key, row) pair occurs once in the whole index *)
  Lemma clat_abs_NoDup c : clat_wf c -> NoDup (clat_abs c).
  Proof.
    intros [W1 W2]. unfold clat_abs, dm_abs. apply (placed_abs_NoDup hash lmap hv_abs hv_keys hv_abs_keys _ _ 0%nat W2).
    eapply Forall_impl; [|exact W1]. intros m. apply hv_abs_NoDup.
  Qed.

  Lemma clat_freeze_spec c : clat_abs (dm_freeze c) = clat_abs c /\ clat_abs (dm_unfreeze c) = clat_abs c /\
    (clat_wf c -> clat_wf (dm_freeze c) /\ clat_wf (dm_unfreeze c)).
  Proof. repeat split; try reflexivity; apply H. Qed.

  Lemma clat_default_wf n : clat_wf (dm_default ([] : lmap) n) /\ clat_abs (dm_default ([] : lmap) n) = [] /\ fst (dm_default ([] : lmap) n) = false.
  Proof.
    split; [|split; [|reflexivity]].
    - split.
      + cbn [dm_default snd]. clear. induction n; cbn [repeat]; constructor; [split; constructor|assumption].
      + unfold dm_placed. cbn [dm_default snd]. apply placed_repeat. reflexivity.
    - unfold clat_abs, dm_abs. cbn [dm_default snd]. clear. induction n; [reflexivity|]. cbn. assumption.
  Qed.

  Lemma lat_insert_keys k v m x : In x (hv_keys (lat_insert k v m)) -> In x (hv_keys m) \/ x = k.
  Proof. rewrite lat_insert_upd. intros H. apply keys_upd_entry in H. tauto. Qed.

  (* index_insert: set insertion of the pair (k, v) *)
  Theorem clat_insert_spec k v c : fst c = false -> has_shards lmap c -> clat_wf c ->
    exists c', clat_insert hash k v c = Ok c' /\ fst c' = false /\ length (snd c') = length (snd c) /\ clat_wf c' /\
               set_eq (clat_abs c') (ps_ins k v (clat_abs c)).
  Proof.
    intros Hf Hs [W1 W2]. unfold clat_insert.
    assert (E : dm_write hash k (lat_insert k v) c = Ok (false, upd_nth (shard_ix hash k c) (lat_insert k v) (snd c))).
    { unfold dm_write. now rewrite Hf, (is_nil_false _ Hs). }
    eexists. split; [exact E|]. cbn [fst snd]. split; [reflexivity|]. split; [apply upd_nth_length|].
    assert (W' : clat_wf (false, upd_nth (shard_ix hash k c) (lat_insert k v) (snd c))).
    { split.
      - cbn [snd]. apply Forall_upd_nth; [exact W1|]. intros m Wm. now apply lat_insert_spec.
      - apply (dm_write_placed hash lmap hv_keys [] k (lat_insert k v) c _ E W2). intros m x. apply lat_insert_keys. }
    split; [exact W'|]. apply set_eq_of_In.
    - now apply clat_abs_NoDup.
    - apply (set_ins_NoDup entry entry_eqb entry_eqb_spec). apply clat_abs_NoDup. now split.
    - intros e. rewrite ps_ins_In. unfold clat_abs.
      (* membership: only the shard of k changes, and there lat_insert adds exactly (k, v) *)
      destruct (upd_nth_split (lat_insert k v) [] (snd c) (shard_ix hash k c) (shard_ix_lt hash lmap k c Hs)) as [l1 [l2 [E1 [E2 _]]]].
      unfold dm_abs. cbn [snd]. rewrite E2. rewrite E1 at 2. rewrite !flat_map_app. cbn [flat_map]. rewrite !in_app_iff.
      assert (Wn : lat_wf (nth (shard_ix hash k c) (snd c) [])) by (apply Forall_nth_d; [exact W1|split; constructor]).
      destruct (lat_insert_spec k v _ Wn) as [_ [_ [_ P]]].
      assert (I : In e (hv_abs (lat_insert k v (nth (shard_ix hash k c) (snd c) []))) <-> e = (k, v) \/ In e (hv_abs (nth (shard_ix hash k c) (snd c) []))).
      { rewrite <- ps_ins_In. split; apply Permutation_in; [exact P|apply Permutation_sym, P]. }
      rewrite I. tauto.
  Qed.

  Lemma clat_insert_frozen k v c : fst c = true -> clat_insert hash k v c = Panic.
  Proof. apply dm_write_frozen. Qed.

  (* index_get: the rows stored under the key, each once *)
  Theorem clat_get_spec k c : fst c = true -> has_shards lmap c -> clat_wf c ->
    exists r, clat_get sh hash k c = Ok r /\
      match r with
      | Some vs => Permutation vs (mm_lookup k (clat_abs c)) /\ NoDup vs /\ vs <> []
      | None => mm_lookup k (clat_abs c) = []
      end.
  Proof.
    intros Hf Hs [W1 W2]. unfold clat_get. eexists. split; [apply (dm_read_spec hash lmap [] k (lat_get sh k) c Hf Hs)|].
    unfold clat_abs. rewrite (dm_lookup hash lmap hv_abs hv_keys [] lookup_absent k c Hs W2).
    apply lat_get_spec; [exact sh_perm|]. apply Forall_nth_d; [exact W1|]. split; constructor.
  Qed.

  Theorem clat_iter_all_spec c : fst c = true ->
    exists l, clat_iter_all sh c = Ok l /\ Permutation (hv_abs l) (mm_entries (clat_abs c)) /\ (clat_wf c -> NoDup (map fst l)).
  Proof.
    intros Hf. destruct c as [fz ss]. cbn [fst] in Hf. subst fz. eexists. split; [reflexivity|].
    unfold clat_abs, dm_abs, clat_wf, dm_placed, mm_entries. cbn [snd]. split.
    - rewrite (lat_iter_all_abs sh sh_perm). unfold mm_entries. now rewrite hv_abs_concat.
    - intros [W1 W2]. unfold lat_iter_all. rewrite map_map. cbn [fst].
      eapply Permutation_NoDup; [apply Permutation_map, Permutation_sym, sh_perm|].
      rewrite concat_map. apply (placed_NoDup hash lmap hv_keys _ _ 0%nat W2).
      eapply Forall_impl; [|exact W1]. intros m [N _]. exact N.
  Qed.

  (* ---- move_index_contents / merge: set union *)
  Lemma clat_shard_move_In f t e : lat_wf f -> lat_wf t ->
    In e (hv_abs (snd (clat_shard_move sh f t))) <-> In e (hv_abs f) \/ In e (hv_abs t).
  Proof. intros Wf Wt. now apply clat_shard_move_spec. Qed.

  Theorem clat_move_spec from to : fst from = false -> fst to = false -> length (snd from) = length (snd to) ->
    clat_wf from -> clat_wf to ->
    exists f' t', clat_move sh from to = Ok (f', t') /\ fst f' = false /\ fst t' = false /\
      clat_abs f' = [] /\ length (snd f') = length (snd from) /\ length (snd t') = length (snd to) /\
      clat_wf f' /\ clat_wf t' /\
      set_eq (clat_abs t') (ps_union (clat_abs to) (clat_abs from)).
  Proof.
    intros Hf Ht L [Wf Pf] [Wt Pt]. unfold clat_move, dm_move. rewrite Hf, Ht.
    replace (Nat.eqb (length (snd from)) (length (snd to))) with true by (symmetry; apply Nat.eqb_eq; exact L). cbn [negb].
    eexists. eexists. split; [reflexivity|]. cbn [fst snd]. split; [reflexivity|]. split; [reflexivity|].
    set (ps := map (fun ft => clat_shard_move sh (fst ft) (snd ft)) (combine (snd from) (snd to))).
    assert (Z1 : map fst ps = repeat [] (length (snd from))).
    { subst ps. clear - L. revert L. generalize (snd to). induction (snd from) as [|f fs IH]; intros [|t ts] L; cbn [length] in L; try discriminate; [reflexivity|].
      cbn [combine map fst snd length repeat]. f_equal.
      - unfold clat_shard_move. destruct (length t <? length f)%nat; reflexivity.
      - apply IH. lia. }
    (* shard-wise facts, by induction over the zipped shard lists *)
    assert (G : forall fs ts b n, length fs = length ts -> Forall lat_wf fs -> Forall lat_wf ts ->
                placed hash lmap hv_keys n fs b -> placed hash lmap hv_keys n ts b ->
                let qs := map snd (map (fun ft => clat_shard_move sh (fst ft) (snd ft)) (combine fs ts)) in
                Forall lat_wf qs /\ placed hash lmap hv_keys n qs b /\
                forall e, In e (flat_map hv_abs qs) <-> In e (flat_map hv_abs fs) \/ In e (flat_map hv_abs ts)).
    { induction fs as [|f fs IH]; intros [|t ts] b n L' Ff Ft Qf Qt; cbn [length] in L'; try discriminate.
      - cbn. repeat split; auto. tauto.
      - injection L' as L'. inversion Ff as [|? ? Hwf Ff']; inversion Ft as [|? ? Hwt Ft']; subst. destruct Qf as [Qf1 Qf2], Qt as [Qt1 Qt2].
        destruct (IH ts (S b) n L' Ff' Ft' Qf2 Qt2) as [I1 [I2 I3]].
        destruct (clat_shard_move_spec sh sh_perm f t Hwf Hwt) as [_ [S2 [S3 S4]]].
        cbn [combine map fst snd flat_map placed]. split; [constructor; assumption|]. split.
        + split; [|exact I2]. intros k Hk. apply S4 in Hk as [Hk|Hk]; auto.
        + intros e. rewrite !in_app_iff, S3, I3. tauto. }
    destruct (G (snd from) (snd to) 0%nat (length (snd to)) L Wf Wt) as [G1 [G2 G3]].
    { unfold dm_placed in Pf. now rewrite L in Pf. }
    { exact Pt. }
    cbn zeta in G1, G2, G3. fold ps in G1, G2, G3.
    assert (Wf' : clat_wf (false, map fst ps)).
    { split; cbn [snd].
      - rewrite Z1. clear. induction (length (snd from)); cbn [repeat]; constructor; [split; constructor|assumption].
      - unfold dm_placed. cbn [snd]. rewrite Z1. apply placed_repeat. reflexivity. }
    assert (Wt' : clat_wf (false, map snd ps)).
    { split; [exact G1|]. unfold dm_placed. cbn [snd]. subst ps. rewrite !map_length, combine_length, L, Nat.min_id. exact G2. }
    split.
    { unfold clat_abs, dm_abs. cbn [snd]. rewrite Z1. clear. induction (length (snd from)); [reflexivity|]. cbn. assumption. }
    split; [rewrite Z1; apply repeat_length|]. split; [subst ps; rewrite !map_length, combine_length, L; lia|].
    split; [exact Wf'|]. split; [exact Wt'|]. apply set_eq_of_In.
    - now apply clat_abs_NoDup.
    - apply (set_union_NoDup entry entry_eqb entry_eqb_spec); apply clat_abs_NoDup; split; assumption.
    - intros e. rewrite ps_union_In. unfold clat_abs, dm_abs. cbn [snd]. rewrite G3. tauto.
  Qed.

  Theorem clat_merge_spec new delta total : fst delta = false -> fst total = false -> length (snd delta) = length (snd total) ->
    clat_wf delta -> clat_wf total ->
    exists n' t', merge3r (clat_move sh) new delta total = Ok (n', new, t') /\
      clat_abs n' = [] /\ fst n' = false /\ fst t' = false /\ clat_wf n' /\ clat_wf t' /\
      set_eq (clat_abs t') (ps_union (clat_abs total) (clat_abs delta)).
  Proof.
    intros Hd Ht L Wd Wt. destruct (clat_move_spec delta total Hd Ht L Wd Wt) as [f' [t' [E [F1 [F2 [A1 [_ [_ [W1 [W2 P]]]]]]]]]].
    exists f', t'. unfold merge3r. rewrite E. cbn [bind fst snd]. auto 10.
  Qed.

  (* ---- concurrency: every order of the atomic insert steps yields the set union *)
  Definition clat_step (kv : Z * Z) (c : clat) : res clat := clat_insert hash (fst kv) (snd kv) c.

  Theorem clat_steps_spec l : forall c, fst c = false -> has_shards lmap c -> clat_wf c ->
    exists c', steps clat_step l c = Ok c' /\ fst c' = false /\ clat_wf c' /\
               forall e, In e (clat_abs c') <-> In e l \/ In e (clat_abs c).
  Proof.
    induction l as [|[k v] l IH]; intros c Hf Hs W.
    - exists c. split; [reflexivity|]. split; [exact Hf|]. split; [exact W|]. intros e. cbn. tauto.
    - destruct (clat_insert_spec k v c Hf Hs W) as [c1 [E1 [F1 [L1 [W1 P1]]]]].
      assert (Hs1 : has_shards lmap c1).
      { unfold has_shards in *. destruct (snd c1); [destruct (snd c); [congruence|discriminate]|discriminate]. }
      destruct (IH c1 F1 Hs1 W1) as [c' [E [F [W' I]]]]. exists c'. split.
      + rewrite (steps_cons clat_step (k, v) l c c1 E1). exact E.
      + split; [exact F|]. split; [exact W'|]. intros e. rewrite I. destruct P1 as [_ [_ P1]].
        assert (I1 : In e (clat_abs c1) <-> e = (k, v) \/ In e (clat_abs c)).
        { rewrite <- ps_ins_In. split; apply Permutation_in; [exact P1|apply Permutation_sym, P1]. }
        rewrite I1. cbn [In]. intuition.
  Qed.

  Theorem clat_concurrent_inserts (threads : list (list (Z * Z))) (schedule : list (Z * Z)) c :
    fst c = false -> has_shards lmap c -> clat_wf c -> interleave threads schedule ->
    exists c', steps clat_step schedule c = Ok c' /\ clat_wf c' /\ NoDup (clat_abs c') /\
               forall e, In e (clat_abs c') <-> In e (concat threads) \/ In e (clat_abs c).
  Proof.
    intros Hf Hs W I. destruct (clat_steps_spec schedule c Hf Hs W) as [c' [E [_ [W' H]]]]. exists c'.
    split; [exact E|]. split; [exact W'|]. split; [now apply clat_abs_NoDup|]. intros e. rewrite H.
    pose proof (interleave_perm _ _ I) as P. split; (intros [H1|H1]; [left|now right]).
    - eapply Permutation_in; [exact P|exact H1].
    - eapply Permutation_in; [apply Permutation_sym, P|exact H1].
  Qed.
End CLatIndex.

(* ================================================================== CRelNoIndex *)
Section CRelNoIndex.
  Definition cni_abs (c : cni) : list Z := concat (snd c).

  Lemma cni_default_spec n : cni_abs (cni_default n) = [] /\ fst (cni_default n) = false /\ length (snd (cni_default n)) = Nat.max n 1.
  Proof.
    split; [|split; [reflexivity|apply repeat_length]]. unfold cni_abs, cni_default. cbn [snd].
    induction (Nat.max n 1); [reflexivity|]. cbn. assumption.
  Qed.

  Lemma cni_freeze_spec c : cni_abs (cni_freeze c) = cni_abs c /\ cni_abs (cni_unfreeze c) = cni_abs c /\
    snd (cni_unfreeze (cni_freeze c)) = snd c.
  Proof. repeat split. Qed.

  Lemma concat_upd_nth_push v (l : list (list Z)) : forall i, (i < length l)%nat ->
    Permutation (concat (upd_nth i (fun s => s ++ [v]) l)) (v :: concat l).
  Proof.
    induction l as [|s l IH]; intros i Hi; [cbn in Hi; lia|]. destruct i as [|i]; cbn [upd_nth concat].
    - rewrite <- app_assoc. cbn [app]. apply Permutation_sym, Permutation_middle.
    - cbn in Hi. rewrite IH by lia. apply Permutation_sym, Permutation_middle.
  Qed.

  (* an insert by the thread with rayon index tid (any tid): retained, whatever shard it lands in *)
  Theorem cni_insert_spec tid v c : fst c = false -> snd c <> [] ->
    exists c', cni_insert tid v c = Ok c' /\ fst c' = false /\ length (snd c') = length (snd c) /\
               Permutation (cni_abs c') (v :: cni_abs c).
  Proof.
    intros Hf Hs. unfold cni_insert, cni_insert_mut. rewrite Hf. destruct (snd c) as [|s l] eqn:E; [congruence|]. cbn [is_nil].
    eexists. split; [reflexivity|]. cbn [fst snd]. split; [reflexivity|]. split; [apply upd_nth_length|].
    unfold cni_abs. cbn [snd]. rewrite E. apply concat_upd_nth_push. apply mod_lt. cbn. lia.
  Qed.

  Theorem cni_insert_mut_spec tid v c : snd c <> [] ->
    exists c', cni_insert_mut tid v c = Ok c' /\ fst c' = fst c /\ length (snd c') = length (snd c) /\
               Permutation (cni_abs c') (v :: cni_abs c).
  Proof.
    intros Hs. unfold cni_insert_mut. destruct (snd c) as [|s l] eqn:E; [congruence|]. cbn [is_nil].
    eexists. split; [reflexivity|]. cbn [fst snd]. split; [reflexivity|]. split; [apply upd_nth_length|].
    unfold cni_abs. cbn [snd]. rewrite E. apply concat_upd_nth_push. apply mod_lt. cbn. lia.
  Qed.

  Lemma cni_get_spec c : fst c = true -> cni_get c = Ok (Some (cni_abs c)).
  Proof. intros H. unfold cni_get. now rewrite H. Qed.
  Lemma cni_get_unfrozen c : fst c = false -> cni_get c = Panic.
  Proof. intros H. unfold cni_get. now rewrite H. Qed.

  (* ---- move_index_contents zips the shard vectors *)
  Lemma cni_zip_move_equal : forall from to, length from = length to ->
    let '(f', t') := cni_zip_move from to in
    concat f' = [] /\ length f' = length from /\ length t' = length to /\ Permutation (concat t') (concat to ++ concat from).
  Proof.
    induction from as [|f fr IH]; intros [|t tr] L; cbn [length] in L; try discriminate.
    - cbn. repeat split; constructor.
    - injection L as L. specialize (IH tr L). cbn [cni_zip_move]. destruct (cni_zip_move fr tr) as [fr' tr'].
      destruct IH as [I1 [I2 [I3 I4]]]. cbn [concat length app]. repeat split; auto.
      destruct (length t <? length f)%nat; rewrite I4, <- !app_assoc.
      + rewrite (Permutation_app_swap_app f t). apply Permutation_app_head. apply Permutation_app_swap_app.
      + apply Permutation_app_head. apply Permutation_app_swap_app.
  Qed.

  (* whatever the two shard counts are, nothing is lost or duplicated across source and destination together *)
  Lemma cni_zip_move_conserves : forall from to,
    let '(f', t') := cni_zip_move from to in
    length f' = length from /\ length t' = length to /\ Permutation (concat f' ++ concat t') (concat from ++ concat to).
  Proof.
    induction from as [|f fr IH]; intros to.
    - cbn. repeat split; reflexivity.
    - destruct to as [|t tr].
      + cbn [cni_zip_move]. repeat split; reflexivity.
      + specialize (IH tr). cbn [cni_zip_move]. destruct (cni_zip_move fr tr) as [fr' tr']. destruct IH as [I1 [I2 I3]].
        cbn [concat length app]. repeat split; auto.
        assert (P : Permutation (concat fr' ++ (f ++ t) ++ concat tr') ((f ++ concat fr) ++ t ++ concat tr)).
        { rewrite <- !app_assoc. rewrite (Permutation_app_swap_app (concat fr')). apply Permutation_app_head.
          rewrite (Permutation_app_swap_app (concat fr')). rewrite (Permutation_app_swap_app (concat fr)). apply Permutation_app_head. exact I3. }
        destruct (length t <? length f)%nat; [exact P|]. rewrite <- P. apply Permutation_app_head, Permutation_app_tail, Permutation_app_comm.
  Qed.

  Theorem cni_move_spec from to : length (snd from) = length (snd to) ->
    exists f' t', cni_move from to = Ok (f', t') /\ fst f' = fst from /\ fst t' = fst to /\
      cni_abs f' = [] /\ length (snd f') = length (snd from) /\ length (snd t') = length (snd to) /\
      Permutation (cni_abs t') (cni_abs to ++ cni_abs from).
  Proof.
    intros L. unfold cni_move. pose proof (cni_zip_move_equal (snd from) (snd to) L) as H.
    destruct (cni_zip_move (snd from) (snd to)) as [f' t']. destruct H as [H1 [H2 [H3 H4]]].
    eexists. eexists. split; [reflexivity|]. cbn [fst snd]. unfold cni_abs. cbn [snd]. auto 10.
  Qed.

  (* merge with equal shard counts (values created in the same pool): total' = total + delta, delta' = new, new' empty *)
  Theorem cni_merge_spec new delta total : length (snd delta) = length (snd total) ->
    exists n' t', merge3r cni_move new delta total = Ok (n', new, t') /\
      cni_abs n' = [] /\ Permutation (cni_abs t') (cni_abs total ++ cni_abs delta).
  Proof.
    intros L. destruct (cni_move_spec delta total L) as [f' [t' [E [_ [_ [A [_ [_ P]]]]]]]].
    exists f', t'. unfold merge3r. rewrite E. cbn [bind fst snd]. auto.
  Qed.

  (* merge with arbitrary shard counts: new + delta + total together are conserved *)
  Theorem cni_merge_conserves new delta total :
    exists n' t', merge3r cni_move new delta total = Ok (n', new, t') /\
      Permutation (cni_abs n' ++ cni_abs new ++ cni_abs t') (cni_abs new ++ cni_abs delta ++ cni_abs total).
  Proof.
    unfold merge3r, cni_move. pose proof (cni_zip_move_conserves (snd delta) (snd total)) as H.
    destruct (cni_zip_move (snd delta) (snd total)) as [f' t']. destruct H as [_ [_ P]].
    eexists. eexists. split; [reflexivity|]. unfold cni_abs. cbn [fst snd].
    rewrite (Permutation_app_swap_app (concat f')). apply Permutation_app_head. exact P.
  Qed.

  (* ... but the merge equation itself fails when delta has more shards than total: the extra shards stay in
     delta's value and surface as the next new *)
  Lemma cni_merge_unequal_refuted :
    exists new delta total n' d' t',
      length (snd delta) <> length (snd total) /\
      merge3r cni_move new delta total = Ok (n', d', t') /\
      cni_abs new = [] /\ cni_abs delta = [7; 8] /\ cni_abs total = [9] /\
      cni_abs t' = [9; 7] /\ cni_abs n' = [8] /\ cni_abs d' = [].
  Proof.
    exists (false, [[]; []]), (false, [[7]; []; [8]]), (false, [[9]; []]).
    eexists. eexists. eexists. split; [cbn; discriminate|]. split; [reflexivity|]. cbn. repeat split.
  Qed.

  (* ---- concurrency: every order of the atomic pushes, every assignment of threads to shards *)
  Definition cni_step (tv : nat * Z) (c : cni) : res cni := cni_insert (fst tv) (snd tv) c.

  Theorem cni_steps_spec l : forall c, fst c = false -> snd c <> [] ->
    exists c', steps cni_step l c = Ok c' /\ fst c' = false /\ length (snd c') = length (snd c) /\
               Permutation (cni_abs c') (map snd l ++ cni_abs c).
  Proof.
    induction l as [|[tid v] l IH]; intros c Hf Hs.
    - exists c. split; [reflexivity|]. split; [exact Hf|]. split; reflexivity.
    - destruct (cni_insert_spec tid v c Hf Hs) as [c1 [E1 [F1 [L1 P1]]]].
      assert (Hs1 : snd c1 <> []) by (destruct (snd c1); [destruct (snd c); [congruence|discriminate]|discriminate]).
      destruct (IH c1 F1 Hs1) as [c' [E [F [L P]]]]. exists c'. split.
      + rewrite (steps_cons cni_step (tid, v) l c c1 E1). exact E.
      + split; [exact F|]. split; [congruence|]. rewrite P, P1. cbn [map snd app]. apply Permutation_sym, Permutation_middle.
  Qed.

  Theorem cni_concurrent_inserts (threads : list (list (nat * Z))) (schedule : list (nat * Z)) c :
    fst c = false -> snd c <> [] -> interleave threads schedule ->
    exists c', steps cni_step schedule c = Ok c' /\ Permutation (cni_abs c') (map snd (concat threads) ++ cni_abs c).
  Proof.
    intros Hf Hs I. destruct (cni_steps_spec schedule c Hf Hs) as [c' [E [_ [_ P]]]]. exists c'. split; [exact E|].
    rewrite P. apply Permutation_app_tail, Permutation_map. now apply interleave_perm.
  Qed.
End CRelNoIndex.

(* ================================================================== end to end: concurrent phase, freeze, read *)
Section EndToEnd.
  Variable sh : forall A : Type, list A -> list A.
  Hypothesis sh_perm : forall A (l : list A), Permutation (sh A l) l.
  Variable hash : Z -> nat.

  Lemma has_shards_len {M} (c c' : dmap M) : length (snd c') = length (snd c) -> has_shards M c -> has_shards M c'.
  Proof. unfold has_shards. intros L H E. rewrite E in L. destruct (snd c); [congruence|discriminate]. Qed.

  (* CRelIndex: whatever the interleaving, after the phase and a freeze every lookup returns exactly the values
     inserted under the key by all threads together *)
  Theorem cri_concurrent_then_lookup n (threads : list (list (Z * Z))) schedule : n <> O -> interleave threads schedule ->
    exists c', steps (cri_step hash) schedule (dm_default [] n) = Ok c' /\
      forall k, exists r, cri_get hash k (dm_freeze c') = Ok r /\
        match r with
        | Some vs => Permutation vs (mm_lookup k (mm_of_inserts (concat threads))) /\ vs <> []
        | None => mm_lookup k (mm_of_inserts (concat threads)) = []
        end.
  Proof.
    intros Hn I. destruct (cri_default_wf hash n) as [W0 [A0 F0]].
    pose proof (dm_default_has_shards hvec [] n Hn) as Hs0.
    destruct (cri_steps_spec hash schedule _ F0 Hs0) as [c' [E [F [L [P W]]]]]. exists c'. split; [exact E|]. intros k.
    assert (Hs : has_shards hvec (dm_freeze c')) by (apply (has_shards_len (dm_default [] n)); [exact L|exact Hs0]).
    destruct (cri_get_spec hash k (dm_freeze c') eq_refl Hs (W W0)) as [r [G S]]. exists r. split; [exact G|].
    assert (Q : Permutation (cri_abs (dm_freeze c')) (mm_of_inserts (concat threads))).
    { change (cri_abs (dm_freeze c')) with (cri_abs c'). rewrite P, A0. unfold mm_union, mm_of_inserts. rewrite app_nil_r.
      now apply interleave_perm. }
    destruct r as [vs|].
    - destruct S as [-> Hne]. split; [now apply mm_lookup_perm|exact Hne].
    - apply Permutation_nil. rewrite <- S. apply Permutation_sym. now apply mm_lookup_perm.
  Qed.

  (* CLatIndex: the rows found under a key are exactly those some thread inserted, each once *)
  Theorem clat_concurrent_then_lookup n (threads : list (list (Z * Z))) schedule : n <> O -> interleave threads schedule ->
    exists c', steps (clat_step hash) schedule (dm_default [] n) = Ok c' /\
      forall k, exists r, clat_get sh hash k (dm_freeze c') = Ok r /\
        match r with
        | Some vs => NoDup vs /\ vs <> [] /\ forall v, In v vs <-> In (k, v) (concat threads)
        | None => forall v, ~ In (k, v) (concat threads)
        end.
  Proof.
    intros Hn I. destruct (clat_default_wf hash n) as [W0 [A0 F0]].
    pose proof (dm_default_has_shards lmap [] n Hn) as Hs0.
    destruct (clat_steps_spec hash schedule _ F0 Hs0 W0) as [c' [E [F [W H]]]]. exists c'. split; [exact E|]. intros k.
    assert (L : length (snd c') = length (snd (dm_default ([] : lmap) n))).
    { clear - E F0 Hs0 W0. revert E. generalize (dm_default ([] : lmap) n) as c0. induction schedule as [|[k v] l IH]; intros c0 E.
      - unfold steps in E. cbn in E. inversion E. reflexivity.
      - unfold steps in E. cbn [fold_left] in E. unfold bind at 2 in E. unfold clat_step at 2 in E. cbn [fst snd] in E.
        destruct (clat_insert hash k v c0) as [c1| |] eqn:E1.
        + fold (steps (clat_step hash) l c1) in E. rewrite (IH c1 E). unfold clat_insert, dm_write in E1.
          destruct (fst c0); [discriminate|]. destruct (is_nil (snd c0)); [discriminate|]. inversion E1. cbn [snd]. apply upd_nth_length.
        + exfalso. clear - E. induction l as [|a l IHl]; [discriminate|]. cbn [fold_left bind] in E. exact (IHl E).
        + exfalso. clear - E. induction l as [|a l IHl]; [discriminate|]. cbn [fold_left bind] in E. exact (IHl E). }
    assert (Hs : has_shards lmap (dm_freeze c')) by (apply (has_shards_len (dm_default [] n)); [exact L|exact Hs0]).
    destruct (clat_get_spec sh sh_perm hash k (dm_freeze c') eq_refl Hs W) as [r [G S]]. exists r. split; [exact G|].
    assert (Q : forall v, In (k, v) (clat_abs c') <-> In (k, v) (concat threads)).
    { intros v. rewrite H, A0. pose proof (interleave_perm _ _ I) as P. split.
      - intros [H1|[]]. eapply Permutation_in; [exact P|exact H1].
      - intros H1. left. eapply Permutation_in; [apply Permutation_sym, P|exact H1]. }
    change (clat_abs (dm_freeze c')) with (clat_abs c') in S. destruct r as [vs|].
    - destruct S as [S1 [S2 S3]]. split; [exact S2|]. split; [exact S3|]. intros v. rewrite <- Q, <- mm_lookup_in.
      split; apply Permutation_in; [exact S1|apply Permutation_sym, S1].
    - intros v Hv. apply Q in Hv. apply mm_lookup_in in Hv. rewrite S in Hv. destruct Hv.
  Qed.

  (* CRelNoIndex: the single lookup returns every pushed value once, whatever the pool size and the threads' indices *)
  Theorem cni_concurrent_then_lookup pool (threads : list (list (nat * Z))) schedule : interleave threads schedule ->
    exists c', steps cni_step schedule (cni_default pool) = Ok c' /\
      exists vs, cni_get (cni_freeze c') = Ok (Some vs) /\ Permutation vs (map snd (concat threads)).
  Proof.
    intros I. destruct (cni_default_spec pool) as [A0 [F0 L0]].
    assert (Hs0 : snd (cni_default pool) <> []).
    { intros E. rewrite E in L0. cbn in L0. lia. }
    destruct (cni_concurrent_inserts threads schedule _ F0 Hs0 I) as [c' [E P]]. exists c'. split; [exact E|].
    exists (cni_abs c'). split; [reflexivity|]. rewrite P, A0. now rewrite app_nil_r.
  Qed.

  (* CRelFullIndex: plain inserts (overwriting) and insert_if_not_present calls mixed in one phase *)
  Fixpoint cfi_mixed_steps (l : list (bool * Z * Z)) (c : cfi) : res (cfi * list (Z * bool)) :=
    match l with
    | [] => Ok (c, [])
    | (true, k, v) :: r =>
        bind (cfi_insert_if_not_present hash k v c) (fun cb =>
        bind (cfi_mixed_steps r (fst cb)) (fun cr => Ok (fst cr, (k, snd cb) :: snd cr)))
    | (false, k, v) :: r => bind (cfi_insert hash k v c) (fun c1 => cfi_mixed_steps r c1)
    end.
  Definition mcalled (np : bool) (k : Z) (l : list (bool * Z * Z)) : bool :=
    existsb (fun o => Bool.eqb (fst (fst o)) np && (snd (fst o) =? k)) l.

  Lemma mcalled_cons np np' k k0 v l : mcalled np k0 ((np', k, v) :: l) = (Bool.eqb np' np && (k =? k0)) || mcalled np k0 l.
  Proof. reflexivity. Qed.

  Theorem cfi_mixed_steps_spec l : forall c, fst c = false -> has_shards fmap c ->
    exists c' rs, cfi_mixed_steps l c = Ok (c', rs) /\ fst c' = false /\
      (forall k, (winners k rs <= 1)%nat) /\
      (forall k, cfi_has hash k c = true -> winners k rs = 0%nat) /\
      (forall k, cfi_has hash k c = false -> mcalled false k l = false -> winners k rs = if mcalled true k l then 1%nat else 0%nat) /\
      (forall k, cfi_has hash k c' = cfi_has hash k c || mcalled true k l || mcalled false k l) /\
      (cfi_wf hash c -> cfi_wf hash c').
  Proof.
    induction l as [|[[np k] v] l IH]; intros c Hf Hs.
    - exists c, []. split; [reflexivity|]. split; [exact Hf|]. split; [intros k; cbn; lia|]. split; [reflexivity|]. split; [reflexivity|].
      split; [intros k; cbn; now rewrite !orb_false_r|auto].
    - destruct np.
      + destruct (cfi_insert_if_not_present_spec hash k v c Hf Hs) as [c1 [E1 [F1 [L1 [_ [HS1 W1]]]]]].
        assert (Hs1 : has_shards fmap c1) by (apply (has_shards_len c); assumption).
        destruct (IH c1 F1 Hs1) as [c' [rs [E [F [B1 [B2 [B3 [B4 W]]]]]]]].
        exists c', ((k, negb (cfi_has hash k c)) :: rs). cbn [cfi_mixed_steps]. rewrite E1. cbn [bind fst snd]. rewrite E. cbn [bind fst snd].
        split; [reflexivity|]. split; [exact F|].
        assert (WN : forall k0, winners k0 ((k, negb (cfi_has hash k c)) :: rs) =
                     ((if ((k =? k0)%Z && negb (cfi_has hash k c))%bool then 1 else 0) + winners k0 rs)%nat).
        { intros k0. unfold winners. cbn [filter fst snd]. destruct ((k =? k0) && negb (cfi_has hash k c)); reflexivity. }
        split; [|split; [|split; [|split]]].
        * intros k0. rewrite WN. destruct (Z.eqb_spec k k0) as [->|Ne]; cbn [andb].
          -- destruct (cfi_has hash k0 c) eqn:H0; cbn [negb]; [apply B1|]. rewrite (B2 k0); [lia|]. rewrite HS1, Z.eqb_refl. apply orb_true_r.
          -- apply B1.
        * intros k0 H0. rewrite WN. rewrite (B2 k0); [|rewrite HS1, H0; reflexivity].
          destruct (Z.eqb_spec k k0) as [->|Ne]; cbn [andb]; [rewrite H0|]; reflexivity.
        * intros k0 H0 Hc. rewrite WN. rewrite mcalled_cons in *. cbn [Bool.eqb andb orb] in *.
          destruct (Z.eqb_spec k k0) as [->|Ne]; cbn [andb orb] in *.
          -- rewrite H0. cbn [negb]. rewrite (B2 k0); [reflexivity|]. rewrite HS1, Z.eqb_refl. apply orb_true_r.
          -- apply B3; [rewrite HS1, H0; cbn; now apply Z.eqb_neq|exact Hc].
        * intros k0. rewrite B4, HS1, !mcalled_cons. cbn [Bool.eqb andb orb]. destruct (k =? k0), (cfi_has hash k0 c), (mcalled true k0 l), (mcalled false k0 l); reflexivity.
        * intros Wc. apply W, W1, Wc.
      + destruct (cfi_insert_spec hash k v c Hf Hs) as [c1 [E1 [F1 [L1 [LK1 W1]]]]].
        assert (Hs1 : has_shards fmap c1) by (apply (has_shards_len c); assumption).
        assert (HS1 : forall k', cfi_has hash k' c1 = cfi_has hash k' c || (k =? k')).
        { intros k'. rewrite !cfi_has_lookup, LK1. destruct (k =? k'); [now rewrite orb_true_r|now rewrite orb_false_r]. }
        destruct (IH c1 F1 Hs1) as [c' [rs [E [F [B1 [B2 [B3 [B4 W]]]]]]]].
        exists c', rs. cbn [cfi_mixed_steps]. rewrite E1. cbn [bind]. rewrite E.
        split; [reflexivity|]. split; [exact F|]. split; [exact B1|]. split; [|split; [|split]].
        * intros k0 H0. apply B2. rewrite HS1, H0. reflexivity.
        * intros k0 H0 Hc. rewrite mcalled_cons in *. cbn [Bool.eqb andb orb] in *. apply orb_false_iff in Hc as [Hc1 Hc2].
          apply B3; [rewrite HS1, H0, Hc1; reflexivity|exact Hc2].
        * intros k0. rewrite B4, HS1, !mcalled_cons. cbn [Bool.eqb andb orb]. destruct (k =? k0), (cfi_has hash k0 c), (mcalled true k0 l), (mcalled false k0 l); reflexivity.
        * intros Wc. apply W, W1, Wc.
  Qed.
  Lemma mcalled_perm np k a b : Permutation a b -> mcalled np k a = mcalled np k b.
  Proof.
    intros P. unfold mcalled. induction P as [|x a b P IH|x y a|a b c0 P1 IH1 P2 IH2]; cbn [existsb].
    - reflexivity.
    - now rewrite IH.
    - destruct (Bool.eqb (fst (fst x)) np && (snd (fst x) =? k)), (Bool.eqb (fst (fst y)) np && (snd (fst y) =? k)); reflexivity.
    - now rewrite IH1.
  Qed.

  (* for EVERY interleaving of threads that mix index_insert and insert_if_not_present: never more than one
     winner per key, none for a key already present, exactly one for an absent key nobody overwrites *)
  Theorem cfi_concurrent_mixed (threads : list (list (bool * Z * Z))) schedule c :
    fst c = false -> has_shards fmap c -> interleave threads schedule ->
    exists c' rs, cfi_mixed_steps schedule c = Ok (c', rs) /\
      (forall k, (winners k rs <= 1)%nat) /\
      (forall k, cfi_has hash k c = true -> winners k rs = 0%nat) /\
      (forall k, cfi_has hash k c = false -> mcalled false k (concat threads) = false ->
                 winners k rs = if mcalled true k (concat threads) then 1%nat else 0%nat) /\
      (forall k, cfi_has hash k c' = cfi_has hash k c || mcalled true k (concat threads) || mcalled false k (concat threads)) /\
      (cfi_wf hash c -> cfi_wf hash c').
  Proof.
    intros Hf Hs I. destruct (cfi_mixed_steps_spec schedule c Hf Hs) as [c' [rs [E [_ [B1 [B2 [B3 [B4 W]]]]]]]].
    pose proof (interleave_perm _ _ I) as P. exists c', rs. split; [exact E|]. split; [exact B1|]. split; [exact B2|].
    split; [|split; [|exact W]].
    - intros k H0 Hc. rewrite <- (mcalled_perm true k _ _ P). apply B3; [exact H0|]. now rewrite (mcalled_perm false k _ _ P).
    - intros k. rewrite <- (mcalled_perm true k _ _ P), <- (mcalled_perm false k _ _ P). apply B4.
  Qed.
End EndToEnd.

(* ================================================================== the stratum protocol on CRelIndex *)
(* One iteration of a parallel stratum as generated code drives an index: a parallel phase inserting into new
   (any interleaving), then merge_delta_to_total_new_to_delta.  Iterated any number of times, the three
   concrete values stay related to the three abstract multimaps. *)
Section Rounds.
  Variable sh : forall A : Type, list A -> list A.
  Hypothesis sh_perm : forall A (l : list A), Permutation (sh A l) l.
  Variable hash : Z -> nat.
  Variable n : nat.
  Hypothesis n_pos : n <> O.

  Definition cri_ok (c : cri) (a : mmap) : Prop :=
    fst c = false /\ length (snd c) = n /\ cri_wf hash c /\ Permutation (cri_abs c) a.
  Definition cri_ok3 (c : cri * cri * cri) (a : mmap * mmap * mmap) : Prop :=
    let '(c0, c1, c2) := c in let '(a0, a1, a2) := a in cri_ok c0 a0 /\ cri_ok c1 a1 /\ cri_ok c2 a2.

  Definition cri_round (schedule : list (Z * Z)) (c : cri * cri * cri) : res (cri * cri * cri) :=
    let '(c0, c1, c2) := c in
    bind (steps (cri_step hash) schedule c0) (fun c0' => merge3r (cri_move sh) c0' c1 c2).
  Definition mm_round (inserts : list (Z * Z)) (a : mmap * mmap * mmap) : mmap * mmap * mmap :=
    let '(a0, a1, a2) := a in (mm_empty, mm_union (mm_of_inserts inserts) a0, mm_union a2 a1).

  Lemma len_has_shards (c : cri) : length (snd c) = n -> has_shards hvec c.
  Proof. intros L E. rewrite E in L. cbn in L. congruence. Qed.

  Theorem cri_round_spec (threads : list (list (Z * Z))) schedule c a :
    interleave threads schedule -> cri_ok3 c a ->
    exists c', cri_round schedule c = Ok c' /\ cri_ok3 c' (mm_round (concat threads) a).
  Proof.
    destruct c as [[c0 c1] c2], a as [[a0 a1] a2]. intros I [[F0 [L0 [W0 P0]]] [[F1 [L1 [W1 P1]]] [F2 [L2 [W2 P2]]]]].
    destruct (cri_steps_spec hash schedule c0 F0 (len_has_shards c0 L0)) as [c0' [E0 [F0' [L0' [P0' W0']]]]].
    destruct (cri_merge_spec sh sh_perm hash c0' c1 c2 F1 F2 (eq_trans L1 (eq_sym L2))) as [n' [t' [E [A [Fn [Ft [Pt Wt]]]]]]].
    destruct (Wt W1 W2) as [Wn' Wt'].
    exists (n', c0', t'). unfold cri_round. rewrite E0. cbn [bind]. split; [exact E|].
    (* lengths of the merge results *)
    assert (LL : length (snd n') = n /\ length (snd t') = n).
    { unfold merge3r in E. destruct (cri_move_spec sh sh_perm hash c1 c2 F1 F2 (eq_trans L1 (eq_sym L2))) as [f'' [t'' [E' [_ [_ [_ [Lf [Lt _]]]]]]]].
      rewrite E' in E. cbn [bind fst snd] in E. inversion E; subst. split; congruence. }
    destruct LL as [Ln Lt]. cbn [cri_ok3 mm_round]. split; [|split].
    - split; [exact Fn|]. split; [exact Ln|]. split; [exact Wn'|]. rewrite A. reflexivity.
    - split; [exact F0'|]. split; [congruence|]. split; [now apply W0'|]. rewrite P0'. unfold mm_union, mm_of_inserts.
      apply Permutation_app; [now apply interleave_perm|exact P0].
    - split; [exact Ft|]. split; [exact Lt|]. split; [exact Wt'|]. rewrite Pt. unfold mm_union. now apply Permutation_app.
  Qed.

  (* any number of iterations, each with its own threads and its own interleaving *)
  Fixpoint cri_rounds (scheds : list (list (Z * Z))) (c : cri * cri * cri) : res (cri * cri * cri) :=
    match scheds with
    | [] => Ok c
    | s :: r => bind (cri_round s c) (cri_rounds r)
    end.
  Fixpoint mm_rounds (ins : list (list (Z * Z))) (a : mmap * mmap * mmap) : mmap * mmap * mmap :=
    match ins with
    | [] => a
    | i :: r => mm_rounds r (mm_round i a)
    end.

  Theorem cri_rounds_spec (rounds : list (list (list (Z * Z)) * list (Z * Z))) : forall c a,
    Forall (fun ts => interleave (fst ts) (snd ts)) rounds -> cri_ok3 c a ->
    exists c', cri_rounds (map snd rounds) c = Ok c' /\ cri_ok3 c' (mm_rounds (map (fun ts => concat (fst ts)) rounds) a).
  Proof.
    induction rounds as [|[ts s] rounds IH]; intros c a F R.
    - exists c. split; [reflexivity|exact R].
    - inversion F as [|? ? I F']; subst. cbn [fst snd] in I. destruct (cri_round_spec ts s c a I R) as [c1 [E1 R1]].
      destruct (IH c1 _ F' R1) as [c' [E R']]. exists c'. cbn [map snd fst cri_rounds mm_rounds]. rewrite E1. cbn [bind]. auto.
  Qed.

  Lemma cri_ok3_initial :
    cri_ok3 (dm_default ([] : hvec) n, dm_default ([] : hvec) n, dm_default ([] : hvec) n) (mm_empty, mm_empty, mm_empty).
  Proof.
    destruct (cri_default_wf hash n) as [W [A F]].
    assert (K : cri_ok (dm_default ([] : hvec) n) mm_empty).
    { split; [exact F|]. split; [apply repeat_length|]. split; [exact W|]. rewrite A. reflexivity. }
    exact (conj K (conj K K)).
  Qed.
End Rounds.
