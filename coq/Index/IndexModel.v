(* Executable model of the index building blocks of ascent/src (C19):
     internal.rs           RelIndexType1 (hash map of vectors), the hashbrown full index,
                           LatticeIndexType, RelNoIndexType, move_index_contents with its
                           size-based swaps, default merge_delta_to_total_new_to_delta
     rel_index_read.rs     index_get / len_estimate / is_empty / iter_all, RelIndexCombined
     c_rel_index.rs, c_rel_full_index.rs, c_lat_index.rs, c_rel_no_index.rs,
     c_rel_index_combined.rs   the DashMap based concurrent counterparts, freeze / unfreeze
   Keys and values are Z.  A hash map is an association list with distinct keys; the order in
   which a hash map / hash set is iterated or drained is given by an arbitrary oracle [sh]
   (a Section variable: every theorem is for every oracle that permutes its argument).
   A DashMap is a list of shards, the shard of a key is [hash k mod #shards] for an arbitrary
   [hash]; every DashMap operation is one atomic step.  Panics are explicit.
   No proofs in this file. *)
From Coq Require Import List ZArith Bool.
Import ListNotations.
Open Scope Z_scope.

Inductive res (A : Type) : Type := Ok (a : A) | Panic | Unsup.
Arguments Ok {A} a.
Arguments Panic {A}.
Arguments Unsup {A}.

Definition bind {A B} (r : res A) (f : A -> res B) : res B :=
  match r with Ok a => f a | Panic => Panic | Unsup => Unsup end.

Fixpoint upd_nth {A} (i : nat) (f : A -> A) (l : list A) : list A :=
  match l, i with
  | [], _ => []
  | x :: r, O => f x :: r
  | x :: r, S j => x :: upd_nth j f r
  end.

Definition zlen {A} (l : list A) : Z := Z.of_nat (length l).
Definition is_nil {A} (l : list A) : bool := match l with [] => true | _ => false end.

Section Model.
  (* iteration / drain order of hash maps and hash sets *)
  Variable sh : forall A : Type, list A -> list A.
  (* DashMap::hash_usize + determine_shard, before reduction to the shard count *)
  Variable hash : Z -> nat.

  (* ================================================================ serial types *)

  (* ---- RelIndexType1<K, V> = HashMap<K, Vec<V>> ---- *)
  Definition hvec : Type := list (Z * list Z).

  Fixpoint hv_get (k : Z) (m : hvec) : option (list Z) :=
    match m with
    | [] => None
    | (k', vs) :: r => if k' =? k then Some vs else hv_get k r
    end.

  (* index_insert: entry(key): Occupied => push; Vacant => vec![value] *)
  Fixpoint hv_insert (k v : Z) (m : hvec) : hvec :=
    match m with
    | [] => [(k, [v])]
    | (k', vs) :: r => if k' =? k then (k', vs ++ [v]) :: r else (k', vs) :: hv_insert k v r
    end.

  Definition hv_len (m : hvec) : Z := zlen m.           (* len_estimate = HashMap::len *)
  Definition hv_is_empty (m : hvec) : bool := is_nil m.
  Definition hv_iter_all (m : hvec) : list (Z * list Z) := sh _ m.

  (* one step of the drain loop of move_index_contents:
       Occupied(existing) => { if v.len() > existing.len() { swap(&mut v, existing) } existing.append(&mut v) }
       Vacant => insert(v) *)
  Fixpoint hv_merge_entry (k : Z) (v : list Z) (to : hvec) : hvec :=
    match to with
    | [] => [(k, v)]
    | (k', e) :: r =>
        if k' =? k then (k', if (length e <? length v)%nat then v ++ e else e ++ v) :: r
        else (k', e) :: hv_merge_entry k v r
    end.

  Definition hv_drain_into (from to : hvec) : hvec :=
    fold_left (fun t kv => hv_merge_entry (fst kv) (snd kv) t) (sh _ from) to.

  (* move_index_contents(from, to): if from.len() > to.len() { swap(from, to) }; drain from into to.
     Result: (from', to'). *)
  Definition hv_move (from to : hvec) : hvec * hvec :=
    if (length to <? length from)%nat then ([], hv_drain_into to from) else ([], hv_drain_into from to).

  (* ---- RelFullIndexType<K, V> = hashbrown::HashMap<K, V> ---- *)
  Definition fmap : Type := list (Z * Z).

  Fixpoint fm_get (k : Z) (m : fmap) : option Z :=
    match m with
    | [] => None
    | (k', v) :: r => if k' =? k then Some v else fm_get k r
    end.
  Definition fm_contains (k : Z) (m : fmap) : bool := match fm_get k m with Some _ => true | None => false end.
  Definition fm_index_get (k : Z) (m : fmap) : option (list Z) :=
    match fm_get k m with Some v => Some [v] | None => None end.

  (* RelIndexWrite::index_insert = HashMap::insert: replaces the value of an existing key *)
  Fixpoint fm_insert (k v : Z) (m : fmap) : fmap :=
    match m with
    | [] => [(k, v)]
    | (k', v') :: r => if k' =? k then (k', v) :: r else (k', v') :: fm_insert k v r
    end.

  (* RelFullIndexWrite::insert_if_not_present: raw_entry_mut: Occupied => false; Vacant => insert, true *)
  Definition fm_insert_if_not_present (k v : Z) (m : fmap) : fmap * bool :=
    if fm_contains k m then (m, false) else (m ++ [(k, v)], true).

  Definition fm_len (m : fmap) : Z := zlen m.
  Definition fm_is_empty (m : fmap) : bool := is_nil m.
  Definition fm_iter_all (m : fmap) : list (Z * list Z) := map (fun kv => (fst kv, [snd kv])) (sh _ m).

  Definition fm_drain_into (from to : fmap) : fmap :=
    fold_left (fun t kv => fm_insert (fst kv) (snd kv) t) (sh _ from) to.
  Definition fm_move (from to : fmap) : fmap * fmap :=
    if (length to <? length from)%nat then ([], fm_drain_into to from) else ([], fm_drain_into from to).

  (* ---- LatticeIndexType<K, V> = HashMap<K, HashSet<V>> ---- *)
  Definition lmap : Type := list (Z * list Z).     (* inner lists are sets: no duplicates *)

  Fixpoint vs_add (v : Z) (s : list Z) : list Z :=
    match s with
    | [] => [v]
    | x :: r => if x =? v then s else x :: vs_add v r
    end.
  (* HashSet::extend(iter) *)
  Definition vs_extend (s vs : list Z) : list Z := fold_left (fun s v => vs_add v s) vs s.

  (* index_insert: self.entry(key).or_default().insert(tuple_index) *)
  Fixpoint lat_insert (k v : Z) (m : lmap) : lmap :=
    match m with
    | [] => [(k, [v])]
    | (k', s) :: r => if k' =? k then (k', vs_add v s) :: r else (k', s) :: lat_insert k v r
    end.

  (* index_get: self.get(key).map(HashSet::iter): the set in its iteration order *)
  Definition lat_get (k : Z) (m : lmap) : option (list Z) :=
    match hv_get k m with Some s => Some (sh _ s) | None => None end.
  Definition lat_iter_all (m : lmap) : list (Z * list Z) := map (fun ks => (fst ks, sh _ (snd ks))) (sh _ m).

  (* serial move_index_contents: for (k, v) in hm1.drain() { hm2.entry(k).or_default().extend(v) }  — no swap *)
  Fixpoint lat_extend_entry (k : Z) (vs : list Z) (m : lmap) : lmap :=
    match m with
    | [] => [(k, vs_extend [] vs)]
    | (k', s) :: r => if k' =? k then (k', vs_extend s vs) :: r else (k', s) :: lat_extend_entry k vs r
    end.
  Definition lat_drain_into (from to : lmap) : lmap :=
    fold_left (fun t kv => lat_extend_entry (fst kv) (sh _ (snd kv)) t) (sh _ from) to.
  Definition lat_move (from to : lmap) : lmap * lmap := ([], lat_drain_into from to).

  (* concurrent variant (per shard): size swap, then per key: larger set absorbs the smaller *)
  Fixpoint clat_merge_entry (k : Z) (v : list Z) (to : lmap) : lmap :=
    match to with
    | [] => [(k, v)]
    | (k', e) :: r =>
        if k' =? k then (k', if (length e <? length v)%nat then vs_extend v (sh _ e) else vs_extend e (sh _ v)) :: r
        else (k', e) :: clat_merge_entry k v r
    end.
  Definition clat_drain_into (from to : lmap) : lmap :=
    fold_left (fun t kv => clat_merge_entry (fst kv) (snd kv) t) (sh _ from) to.
  Definition clat_shard_move (from to : lmap) : lmap * lmap :=
    if (length to <? length from)%nat then ([], clat_drain_into to from) else ([], clat_drain_into from to).

  (* ---- RelNoIndexType = Vec<usize> ---- *)
  Definition ni_insert (v : Z) (l : list Z) : list Z := l ++ [v].
  Definition ni_move (ind1 ind2 : list Z) : list Z * list Z := ([], ind2 ++ ind1).   (* ind2.append(ind1) *)

  (* ---- RelIndexCombined<Ind1, Ind2> (reads only) ---- *)
  Definition flat_opt (o : option (list Z)) : list Z := match o with Some l => l | None => [] end.
  Definition comb_get (a b : option (list Z)) : option (list Z) :=
    match a, b with
    | None, None => None
    | _, _ => Some (flat_opt a ++ flat_opt b)
    end.
  Definition comb_len (a b : Z) : Z := a + b.
  Definition comb_is_empty (a b : bool) : bool := a && b.
  Definition comb_iter_all (a b : list (Z * list Z)) : list (Z * list Z) := a ++ b.

  (* ---- RelIndexMerge::merge_delta_to_total_new_to_delta (default, used by every type here):
          move_index_contents(delta, total); swap(new, delta).   Result (new', delta', total'). *)
  Definition merge3 {S} (move : S -> S -> S * S) (new delta total : S) : S * S * S :=
    let '(d', t') := move delta total in (d', new, t').
  Definition merge3r {S} (move : S -> S -> res (S * S)) (new delta total : S) : res (S * S * S) :=
    bind (move delta total) (fun dt => Ok (fst dt, new, snd dt)).

  (* ================================================================ concurrent types *)
  (* a DashMap / ReadOnlyView pair: (frozen?, shards) *)
  Definition dmap (M : Type) : Type := (bool * list M)%type.
  Definition dm_default {M} (e : M) (n : nat) : dmap M := (false, repeat e n).
  Definition dm_freeze {M} (c : dmap M) : dmap M := (true, snd c).       (* into_read_only keeps the shards *)
  Definition dm_unfreeze {M} (c : dmap M) : dmap M := (false, snd c).    (* into_inner keeps the shards *)
  Definition shard_ix {M} (k : Z) (c : dmap M) : nat := Nat.modulo (hash k) (length (snd c)).

  (* a write through unwrap_(mut_)unfrozen on the shard of k *)
  Definition dm_write {M} (k : Z) (f : M -> M) (c : dmap M) : res (dmap M) :=
    if fst c then Panic
    else if is_nil (snd c) then Panic
    else Ok (false, upd_nth (shard_ix k c) f (snd c)).
  (* a read through unwrap_frozen on the shard of k *)
  Definition dm_read {M R} (e : M) (k : Z) (f : M -> R) (c : dmap M) : res R :=
    if fst c then (if is_nil (snd c) then Panic else Ok (f (nth (shard_ix k c) (snd c) e))) else Panic.
  Definition dm_read_all {M R} (f : list M -> R) (c : dmap M) : res R :=
    if fst c then Ok (f (snd c)) else Panic.

  (* move_index_contents: both unfrozen, equal shard counts (assert_eq), shard-wise move *)
  Definition dm_move {M} (smove : M -> M -> M * M) (from to : dmap M) : res (dmap M * dmap M) :=
    if fst from then Panic
    else if fst to then Panic
    else if negb (Nat.eqb (length (snd from)) (length (snd to))) then Panic
    else let ps := map (fun ft => smove (fst ft) (snd ft)) (combine (snd from) (snd to)) in
         Ok ((false, map fst ps), (false, map snd ps)).

  (* ---- CRelIndex<K, V> ---- *)
  Definition cri : Type := dmap hvec.
  (* RelIndexWrite::index_insert(&mut self) and CRelIndexWrite::index_insert(&self): same effect *)
  Definition cri_insert (k v : Z) (c : cri) : res cri := dm_write k (hv_insert k v) c.
  Definition cri_get (k : Z) (c : cri) : res (option (list Z)) := dm_read [] k (hv_get k) c.
  (* len_estimate: sample the first 4 shards: sum * shards.len() / count *)
  Definition cri_len_estimate (c : cri) : res Z :=
    if fst c then
      let sample := firstn 4 (snd c) in
      if is_nil sample then Panic
      else Ok (fold_left (fun s m => s + hv_len m) sample 0 * zlen (snd c) / zlen sample)
    else Panic.
  Definition cri_is_empty (c : cri) : res bool := dm_read_all (forallb hv_is_empty) c.
  Definition cri_iter_all (c : cri) : res (list (Z * list Z)) := dm_read_all (fun ss => sh _ (concat ss)) c.
  Definition cri_move (from to : cri) : res (cri * cri) := dm_move hv_move from to.

  (* ---- CRelFullIndex<K, V> ---- *)
  Definition cfi : Type := dmap fmap.
  Definition cfi_insert (k v : Z) (c : cfi) : res cfi := dm_write k (fm_insert k v) c.
  (* RelFullIndexWrite::insert_if_not_present(&mut self): self.unfreeze() first *)
  Definition cfi_insert_if_not_present_mut (k v : Z) (c : cfi) : res (cfi * bool) :=
    let c := dm_unfreeze c in
    if is_nil (snd c) then Panic
    else let b := negb (fm_contains k (nth (shard_ix k c) (snd c) [])) in
         Ok ((false, upd_nth (shard_ix k c) (fun m => fst (fm_insert_if_not_present k v m)) (snd c)), b).
  (* CRelFullIndexWrite::insert_if_not_present(&self): unwrap_unfrozen, one atomic step under the shard lock *)
  Definition cfi_insert_if_not_present (k v : Z) (c : cfi) : res (cfi * bool) :=
    if fst c then Panic else cfi_insert_if_not_present_mut k v c.
  Definition cfi_get (k : Z) (c : cfi) : res (option (list Z)) := dm_read [] k (fm_index_get k) c.
  Definition cfi_contains (k : Z) (c : cfi) : res bool := dm_read [] k (fm_contains k) c.
  Definition cfi_len (c : cfi) : res Z := dm_read_all (fun ss => zlen (concat ss)) c.
  Definition cfi_is_empty (c : cfi) : res bool := dm_read_all (fun ss => zlen (concat ss) =? 0) c.
  Definition cfi_iter_all (c : cfi) : res (list (Z * list Z)) := dm_read_all (fun ss => fm_iter_all (concat ss)) c.
  Definition cfi_move (from to : cfi) : res (cfi * cfi) := dm_move fm_move from to.

  (* ---- CLatIndex<K, V> ---- *)
  Definition clat : Type := dmap lmap.
  Definition clat_insert (k v : Z) (c : clat) : res clat := dm_write k (lat_insert k v) c.
  Definition clat_get (k : Z) (c : clat) : res (option (list Z)) := dm_read [] k (lat_get k) c.
  Definition clat_len (c : clat) : res Z := dm_read_all (fun ss => zlen (concat ss)) c.
  Definition clat_is_empty (c : clat) : res bool := dm_read_all (fun ss => zlen (concat ss) =? 0) c.
  Definition clat_iter_all (c : clat) : res (list (Z * list Z)) := dm_read_all (fun ss => lat_iter_all (concat ss)) c.
  Definition clat_move (from to : clat) : res (clat * clat) := dm_move clat_shard_move from to.

  (* ---- CRelNoIndex<V>: (frozen, per-thread shard vectors) ---- *)
  Definition cni : Type := (bool * list (list Z))%type.
  Definition cni_default (threads : nat) : cni := (false, repeat [] (Nat.max threads 1)).
  Definition cni_freeze (c : cni) : cni := (true, snd c).
  Definition cni_unfreeze (c : cni) : cni := (false, snd c).
  (* RelIndexWrite::index_insert(&mut self): shard = current_thread_index % vec.len(); no frozen check *)
  Definition cni_insert_mut (tid : nat) (v : Z) (c : cni) : res cni :=
    if is_nil (snd c) then Panic      (* remainder by zero *)
    else Ok (fst c, upd_nth (Nat.modulo tid (length (snd c))) (fun l => l ++ [v]) (snd c)).
  (* CRelIndexWrite::index_insert(&self): assert!(!self.frozen) *)
  Definition cni_insert (tid : nat) (v : Z) (c : cni) : res cni :=
    if fst c then Panic else cni_insert_mut tid v c.
  (* index_get: assert!(self.frozen); always Some *)
  Definition cni_get (c : cni) : res (option (list Z)) := if fst c then Ok (Some (concat (snd c))) else Panic.
  Definition cni_len_estimate (c : cni) : res Z := Ok 1.
  Definition cni_is_empty (c : cni) : res bool := Ok false.
  Definition cni_iter_all (c : cni) : res (list (Z * list Z)) := if fst c then Ok [(0, concat (snd c))] else Panic.
  (* move_index_contents: assert_eq!(from.len_estimate(), to.len_estimate()) compares 1 with 1;
     from.vec.iter_mut().zip(to.vec.iter_mut()): { if from.len() > to.len() { swap }; to.append(from) }.
     Shard vectors beyond the shorter of the two are left where they are. *)
  Fixpoint cni_zip_move (from to : list (list Z)) : list (list Z) * list (list Z) :=
    match from, to with
    | f :: fr, t :: tr =>
        let '(fr', tr') := cni_zip_move fr tr in
        ([] :: fr', (if (length t <? length f)%nat then f ++ t else t ++ f) :: tr')
    | _, _ => (from, to)
    end.
  Definition cni_move (from to : cni) : res (cni * cni) :=
    let '(f', t') := cni_zip_move (snd from) (snd to) in Ok ((fst from, f'), (fst to, t')).

  (* ================================================================ operation histories *)
  (* what the tie evaluates: a history over three values (slots 0 = new, 1 = delta, 2 = total) of one type *)
  Inductive op : Type :=
  | OIns (s k v : Z)          (* RelIndexWrite::index_insert (&mut) *)
  | OCIns (s k v : Z)         (* CRelIndexWrite::index_insert (&self) *)
  | ONp (s k v : Z)           (* RelFullIndexWrite::insert_if_not_present (&mut) *)
  | OCNp (s k v : Z)          (* CRelFullIndexWrite::insert_if_not_present (&self) *)
  | OGet (s k : Z) | OHas (s k : Z) | OLen (s : Z) | OEmp (s : Z) | OIter (s : Z)
  | OMove (a b : Z)           (* move_index_contents(slot a, slot b) *)
  | OMerge                    (* merge_delta_to_total_new_to_delta(new, delta, total) *)
  | OFrz (s : Z) | OUnf (s : Z)
  | OCombGet (k : Z) | OCombLen | OCombEmp | OCombIter   (* RelIndexCombined(total, delta) *)
  | OPar (s : Z) (sched : list (Z * Z * Z)).  (* atomic steps in one interleaving: (kind 0 = insert / 1 = insert_if_not_present, k, v) *)

  Inductive out : Type :=
  | RGet (o : option (list Z)) | RBool (b : bool) | RNum (n : Z) | RIter (l : list (Z * list Z))
  | RPar (l : list (Z * bool)) | RPanic | RUnsup.

  Record impl : Type := mk_impl {
    St : Type;
    i_init : Z -> St;
    i_ins : Z -> Z -> St -> res St;
    i_cins : Z -> Z -> St -> res St;
    i_np : Z -> Z -> St -> res (St * bool);
    i_cnp : Z -> Z -> St -> res (St * bool);
    i_get : Z -> St -> res (option (list Z));
    i_has : Z -> St -> res bool;
    i_len : St -> res Z;
    i_emp : St -> res bool;
    i_iter : St -> res (list (Z * list Z));
    i_move : St -> St -> res (St * St);
    i_frz : St -> res St;
    i_unf : St -> res St
  }.

  Definition slot_get {S} (s : Z) (st : S * S * S) : S :=
    let '(n, d, t) := st in if s =? 0 then n else if s =? 1 then d else t.
  Definition slot_set {S} (s : Z) (x : S) (st : S * S * S) : S * S * S :=
    let '(n, d, t) := st in if s =? 0 then (x, d, t) else if s =? 1 then (n, x, t) else (n, d, x).

  Definition res_out {A} (r : res A) (f : A -> out) : out :=
    match r with Ok a => f a | Panic => RPanic | Unsup => RUnsup end.

  (* the atomic steps of a parallel phase, in the given interleaving *)
  Fixpoint run_par (I : impl) (sched : list (Z * Z * Z)) (x : St I) (acc : list (Z * bool)) : res (St I * list (Z * bool)) :=
    match sched with
    | [] => Ok (x, rev acc)
    | (kind, k, v) :: r =>
        if kind =? 0 then bind (i_cins I k v x) (fun x' => run_par I r x' acc)
        else bind (i_cnp I k v x) (fun xb => run_par I r (fst xb) ((k, snd xb) :: acc))
    end.

  Fixpoint run (I : impl) (ops : list op) (st : St I * St I * St I) : list out :=
    match ops with
    | [] => []
    | o :: r =>
        let upd (s : Z) (x : res (St I)) :=
          match x with Ok x' => run I r (slot_set s x' st) | Panic => [RPanic] | Unsup => [RUnsup] end in
        let rd (x : out) := match x with RPanic => [RPanic] | RUnsup => [RUnsup] | _ => x :: run I r st end in
        match o with
        | OIns s k v => upd s (i_ins I k v (slot_get s st))
        | OCIns s k v => upd s (i_cins I k v (slot_get s st))
        | ONp s k v =>
            match i_np I k v (slot_get s st) with
            | Ok (x, b) => RBool b :: run I r (slot_set s x st) | Panic => [RPanic] | Unsup => [RUnsup] end
        | OCNp s k v =>
            match i_cnp I k v (slot_get s st) with
            | Ok (x, b) => RBool b :: run I r (slot_set s x st) | Panic => [RPanic] | Unsup => [RUnsup] end
        | OGet s k => rd (res_out (i_get I k (slot_get s st)) RGet)
        | OHas s k => rd (res_out (i_has I k (slot_get s st)) RBool)
        | OLen s => rd (res_out (i_len I (slot_get s st)) RNum)
        | OEmp s => rd (res_out (i_emp I (slot_get s st)) RBool)
        | OIter s => rd (res_out (i_iter I (slot_get s st)) RIter)
        | OMove a b =>
            if a =? b then [RUnsup]
            else match i_move I (slot_get a st) (slot_get b st) with
                 | Ok (x, y) => run I r (slot_set b y (slot_set a x st)) | Panic => [RPanic] | Unsup => [RUnsup] end
        | OMerge =>
            let '(n, d, t) := st in
            match merge3r (i_move I) n d t with
            | Ok st' => run I r st' | Panic => [RPanic] | Unsup => [RUnsup] end
        | OFrz s => upd s (i_frz I (slot_get s st))
        | OUnf s => upd s (i_unf I (slot_get s st))
        | OCombGet k =>
            let '(n, d, t) := st in
            rd (res_out (bind (i_get I k t) (fun a => bind (i_get I k d) (fun b => Ok (comb_get a b)))) RGet)
        | OCombLen =>
            let '(n, d, t) := st in
            rd (res_out (bind (i_len I t) (fun a => bind (i_len I d) (fun b => Ok (comb_len a b)))) RNum)
        | OCombEmp =>
            let '(n, d, t) := st in
            (* self.ind1.is_empty() && self.ind2.is_empty(): short-circuit *)
            rd (res_out (bind (i_emp I t) (fun a => if a then i_emp I d else Ok false)) RBool)
        | OCombIter =>
            let '(n, d, t) := st in
            rd (res_out (bind (i_iter I t) (fun a => bind (i_iter I d) (fun b => Ok (comb_iter_all a b)))) RIter)
        | OPar s sched =>
            match run_par I sched (slot_get s st) [] with
            | Ok (x, bs) => RPar bs :: run I r (slot_set s x st) | Panic => [RPanic] | Unsup => [RUnsup] end
        end
    end.

  Definition run0 (I : impl) (ops : list op) : list out := run I ops (i_init I 0, i_init I 1, i_init I 2).

  Definition un1 {S A} : Z -> S -> res A := fun _ _ => Unsup.
  Definition un2 {S A} : Z -> Z -> S -> res A := fun _ _ _ => Unsup.
  Definition ok2 {S} (f : S -> S -> S * S) : S -> S -> res (S * S) := fun a b => Ok (f a b).

  Definition I_hv : impl := mk_impl hvec (fun _ => [])
    (fun k v m => Ok (hv_insert k v m)) un2 un2 un2
    (fun k m => Ok (hv_get k m)) un1 (fun m => Ok (hv_len m)) (fun m => Ok (hv_is_empty m)) (fun m => Ok (hv_iter_all m))
    (ok2 hv_move) (fun m => Ok m) (fun m => Ok m).

  Definition I_fm : impl := mk_impl fmap (fun _ => [])
    (fun k v m => Ok (fm_insert k v m)) un2 (fun k v m => Ok (fm_insert_if_not_present k v m)) un2
    (fun k m => Ok (fm_index_get k m)) (fun k m => Ok (fm_contains k m)) (fun m => Ok (fm_len m)) (fun m => Ok (fm_is_empty m))
    (fun m => Ok (fm_iter_all m)) (ok2 fm_move) (fun m => Ok m) (fun m => Ok m).

  Definition I_lat : impl := mk_impl lmap (fun _ => [])
    (fun k v m => Ok (lat_insert k v m)) un2 un2 un2
    (fun k m => Ok (lat_get k m)) un1 (fun m => Ok (hv_len m)) (fun m => Ok (hv_is_empty m)) (fun m => Ok (lat_iter_all m))
    (ok2 lat_move) (fun m => Ok m) (fun m => Ok m).

  (* RelNoIndexType has no read traits; the harness reads the vector itself (OGet = the vector, OLen = its length) *)
  Definition I_ni : impl := mk_impl (list Z) (fun _ => [])
    (fun _ v l => Ok (ni_insert v l)) un2 un2 un2
    (fun _ l => Ok (Some l)) un1 (fun l => Ok (zlen l)) (fun l => Ok (is_nil l)) (fun _ => Unsup)
    (ok2 ni_move) (fun m => Ok m) (fun m => Ok m).

  Definition I_cri (n : nat) : impl := mk_impl cri (fun _ => dm_default [] n)
    cri_insert cri_insert un2 un2 cri_get un1 cri_len_estimate cri_is_empty cri_iter_all cri_move
    (fun c => Ok (dm_freeze c)) (fun c => Ok (dm_unfreeze c)).

  Definition I_cfi (n : nat) : impl := mk_impl cfi (fun _ => dm_default [] n)
    cfi_insert cfi_insert cfi_insert_if_not_present_mut cfi_insert_if_not_present
    cfi_get cfi_contains cfi_len cfi_is_empty cfi_iter_all cfi_move
    (fun c => Ok (dm_freeze c)) (fun c => Ok (dm_unfreeze c)).

  Definition I_clat (n : nat) : impl := mk_impl clat (fun _ => dm_default [] n)
    clat_insert clat_insert un2 un2 clat_get un1 clat_len clat_is_empty clat_iter_all clat_move
    (fun c => Ok (dm_freeze c)) (fun c => Ok (dm_unfreeze c)).

  (* CRelNoIndex: the key field of an insert carries the rayon thread index of the caller;
     the three slots may have been created in pools of different sizes *)
  Definition I_cni (n0 n1 n2 : nat) : impl := mk_impl cni
    (fun s => cni_default (if s =? 0 then n0 else if s =? 1 then n1 else n2))
    (fun tid v c => cni_insert_mut (Z.to_nat tid) v c) (fun tid v c => cni_insert (Z.to_nat tid) v c) un2 un2
    (fun _ c => cni_get c) un1 cni_len_estimate cni_is_empty cni_iter_all cni_move
    (fun c => Ok (cni_freeze c)) (fun c => Ok (cni_unfreeze c)).
End Model.

(* oracles used when the model is evaluated by the tie *)
Definition sh_id : forall A : Type, list A -> list A := fun _ l => l.
Definition sh_rev : forall A : Type, list A -> list A := fun _ l => rev l.
(* the shard placement measured on the real DashMap: table of (key, shard) *)
Fixpoint tbl_hash (t : list (Z * Z)) (k : Z) : nat :=
  match t with
  | [] => O
  | (k', s) :: r => if k' =? k then Z.to_nat s else tbl_hash r k
  end.
