(* C20, index level: the life of ONE CRelNoIndex-backed index of a relation across a run of a parallel program,
   as generated code drives it, with shard vectors of arbitrary and possibly different lengths.

   Sources mirrored (model part of this file; the value-level operations are those of Index/IndexModel.v):
     ascent/src/c_rel_no_index.rs:17-30    Default: one shard vector per thread of the pool current at creation,
                                           rayon::current_num_threads().max(1)
     ascent/src/c_rel_no_index.rs:85-91,119-125  index_insert: shard = current_thread_index().unwrap_or(0) % self.vec.len()
     ascent/src/c_rel_no_index.rs:94-117   move_index_contents: zip of the two shard vectors (IndexModel.cni_zip_move)
     ascent_macro/src/ascent_codegen.rs compile_update_indices_function_body (708-790):
                                           self.<index> = Default::default();   then a parallel loop inserting every row
     ascent_macro/src/ascent_codegen.rs compile_mir_scc (447-650): dynamic relation:
                                           delta = take(&mut self.<index>); total = Default; new = Default;
                                           loop { freeze total, delta; workers insert into new; unfreeze;
                                                  merge_delta_to_total_new_to_delta(new, delta, total); exit when nothing changed }
                                           (non-looping: one evaluation, two merges);  self.<index> = total
                                           body-only relation: self.<index>.freeze(); taken; put back
     run / run_timeout (175-210): update_indices_priv() is the first statement of every run.
   All Default::default() calls of one run are made by the thread that executes run(), hence in ONE pool:
   the pool that is current for that thread (rayon fixes a thread's registry), whose size we call c.
   The stored value met by a run (created at construction in some pool A, or left by an earlier run in some
   pool B) has an arbitrary shard count a.  thread_of = rayon::current_thread_index() is arbitrary.
   Definitions first (no proofs among them), then the proofs. *)
From Coq Require Import List ZArith Bool Lia Permutation Arith.
From AV Require Import Index.MultiMap.
From AV Require Import Index.IndexModel.
From AV Require Import Index.IndexRefine.
From AV Require Import Index.ConcIndex.
Import ListNotations.
Open Scope Z_scope.

(* ================================================================== model of the protocol *)
Definition sched : Type := list (nat * Z).     (* atomic inserts in the order they happen: (thread index, row id) *)

(* update_indices: the stored value is REPLACED by a fresh one created in the run pool (size c), then every row
   is inserted by some worker.  [old] is the value found in the struct: it is dropped. *)
Definition update_indices (c : nat) (rows : sched) (old : cni) : res cni := steps cni_step rows (cni_default c).

(* the same function before commit 949309d (no reset): rows are inserted into whatever value is stored *)
Definition update_indices_noreset (rows : sched) (old : cni) : res cni := steps cni_step rows old.

(* one iteration of the SCC loop *)
Definition pool_round (ins : sched) (st : cni * cni * cni) : res (cni * cni * cni) :=
  let '(n, d, t) := st in
  let d1 := cni_freeze d in let t1 := cni_freeze t in          (* freeze_code: total, delta *)
  bind (steps cni_step ins n) (fun n1 =>                        (* the rules' head updates *)
  let d2 := cni_unfreeze d1 in let t2 := cni_unfreeze t1 in    (* unfreeze_code *)
  merge3r cni_move n1 d2 t2).

Fixpoint pool_rounds (l : list sched) (st : cni * cni * cni) : res (cni * cni * cni) :=
  match l with
  | [] => Ok st
  | r :: l' => bind (pool_round r st) (pool_rounds l')
  end.

(* an SCC in which the relation is dynamic; the loop leaves after an iteration that inserted nothing
   (non-looping SCC: one evaluation and a second merge — the same shape with one round) *)
Definition scc_dynamic (c : nat) (rounds : list sched) (field : cni) : res cni :=
  let delta := field in                       (* std::mem::take(&mut self.field) *)
  let total := cni_default c in
  let new := cni_default c in
  bind (pool_rounds (rounds ++ [[]]) (new, delta, total)) (fun st => Ok (snd st)).   (* self.field = total *)

Definition scc_body_only (field : cni) : res cni := Ok (cni_freeze field).

Inductive visit : Type := VDyn (rounds : list sched) | VBody.

Definition visit_run (c : nat) (v : visit) (field : cni) : res cni :=
  match v with VDyn rounds => scc_dynamic c rounds field | VBody => scc_body_only field end.

Fixpoint visits_run (c : nat) (vs : list visit) (field : cni) : res cni :=
  match vs with
  | [] => Ok field
  | v :: r => bind (visit_run c v field) (visits_run c r)
  end.

(* one run of the program, seen from this index *)
Definition run_index (c : nat) (rows : sched) (vs : list visit) (stored : cni) : res cni :=
  bind (update_indices c rows stored) (visits_run c vs).
Definition run_index_noreset (c : nat) (rows : sched) (vs : list visit) (stored : cni) : res cni :=
  bind (update_indices_noreset rows stored) (visits_run c vs).

(* everything inserted during the SCC visits *)
Definition visit_rows (v : visit) : list Z := match v with VDyn rounds => map snd (concat rounds) | VBody => [] end.
Definition visits_rows (vs : list visit) : list Z := flat_map visit_rows vs.

(* the shard an insert lands in *)
Definition cni_shard_of (tid : nat) (c : cni) : nat := Nat.modulo tid (length (snd c)).

(* ================================================================== proofs *)

(* ---- (2) index_insert never indexes out of bounds; a value written from a larger pool wraps around *)
Lemma cni_shard_in_bounds tid c : snd c <> [] -> (cni_shard_of tid c < length (snd c))%nat.
Proof. intros H. unfold cni_shard_of. apply Nat.mod_upper_bound. destruct (snd c); [congruence|discriminate]. Qed.

Lemma cni_shard_own tid c : (tid < length (snd c))%nat -> cni_shard_of tid c = tid.
Proof. intros H. unfold cni_shard_of. now apply Nat.mod_small. Qed.

Lemma cni_insert_lands tid v (c : cni) : fst c = false -> snd c <> [] ->
  cni_insert tid v c = Ok (false, upd_nth (cni_shard_of tid c) (fun l => l ++ [v]) (snd c)).
Proof.
  intros Hf Hs. unfold cni_insert, cni_insert_mut, cni_shard_of. rewrite Hf. destruct (snd c); [congruence|]. reflexivity.
Qed.

Lemma cni_insert_frozen tid v c : fst c = true -> cni_insert tid v c = Panic.
Proof. intros H. unfold cni_insert. now rewrite H. Qed.

(* ---- the zip merge moves everything as soon as the source has no more shards than the destination *)
Lemma cni_zip_move_le : forall from to, (length from <= length to)%nat ->
  let '(f', t') := cni_zip_move from to in
  concat f' = [] /\ length f' = length from /\ length t' = length to /\ Permutation (concat t') (concat to ++ concat from).
Proof.
  induction from as [|f fr IH]; intros to L.
  - cbn. rewrite app_nil_r. repeat split; reflexivity.
  - destruct to as [|t tr]; [cbn in L; lia|]. cbn [length] in L. specialize (IH tr ltac:(lia)). cbn [cni_zip_move].
    destruct (cni_zip_move fr tr) as [fr' tr']. destruct IH as [I1 [I2 [I3 I4]]]. cbn [concat length app]. repeat split; auto.
    destruct (length t <? length f)%nat; rewrite I4, <- !app_assoc.
    + rewrite (Permutation_app_swap_app f t). apply Permutation_app_head. apply Permutation_app_swap_app.
    + apply Permutation_app_head. apply Permutation_app_swap_app.
Qed.

Lemma cni_move_le (from to : cni) : (length (snd from) <= length (snd to))%nat ->
  exists f' t', cni_move from to = Ok (f', t') /\ fst f' = fst from /\ fst t' = fst to /\
    cni_abs f' = [] /\ length (snd f') = length (snd from) /\ length (snd t') = length (snd to) /\
    Permutation (cni_abs t') (cni_abs to ++ cni_abs from).
Proof.
  intros L. unfold cni_move. pose proof (cni_zip_move_le (snd from) (snd to) L) as H.
  destruct (cni_zip_move (snd from) (snd to)) as [f' t']. destruct H as [H1 [H2 [H3 H4]]].
  eexists. eexists. split; [reflexivity|]. cbn [fst snd]. unfold cni_abs. cbn [snd]. auto 10.
Qed.

(* ---- one round.  Invariant: new and delta are non-empty vectors no longer than total, new is unfrozen. *)
Definition pools_inv (st : cni * cni * cni) : Prop :=
  let '(n, d, t) := st in
  fst n = false /\ (1 <= length (snd n) <= length (snd t))%nat /\ (1 <= length (snd d) <= length (snd t))%nat.

Lemma steps_len rows : forall c, fst c = false -> snd c <> [] ->
  exists c', steps cni_step rows c = Ok c' /\ fst c' = false /\ length (snd c') = length (snd c) /\
             Permutation (cni_abs c') (map snd rows ++ cni_abs c).
Proof. exact (cni_steps_spec rows). Qed.

Lemma len_nonempty {A} (l : list A) : (1 <= length l)%nat -> l <> [].
Proof. destruct l; cbn; [lia|discriminate]. Qed.

Lemma pool_round_spec ins (n d t : cni) : pools_inv (n, d, t) ->
  exists n' d' t', pool_round ins (n, d, t) = Ok (n', d', t') /\ pools_inv (n', d', t') /\
    length (snd n') = length (snd d) /\ length (snd d') = length (snd n) /\ length (snd t') = length (snd t) /\
    fst d' = false /\ fst t' = false /\
    cni_abs n' = [] /\ Permutation (cni_abs d') (map snd ins ++ cni_abs n) /\ Permutation (cni_abs t') (cni_abs t ++ cni_abs d).
Proof.
  intros [Fn [[Ln1 Ln2] [Ld1 Ld2]]]. unfold pool_round.
  destruct (steps_len ins n Fn (len_nonempty _ Ln1)) as [n1 [E1 [F1 [L1 P1]]]]. rewrite E1. cbn [bind].
  destruct (cni_move_le (cni_unfreeze (cni_freeze d)) (cni_unfreeze (cni_freeze t))) as [f' [t' [E [Ff [Ft [A [Lf [Lt P]]]]]]]].
  { cbn [cni_unfreeze cni_freeze snd]. exact Ld2. }
  unfold merge3r. rewrite E. cbn [bind fst snd]. exists f', n1, t'. split; [reflexivity|].
  cbn [cni_unfreeze cni_freeze fst snd] in *. split.
  - split; [exact Ff|]. rewrite Lf, Lt, L1. split; [split; assumption|split; assumption].
  - rewrite Lf, Lt, L1. repeat split; auto.
Qed.

(* the abstract three lists through one round *)
Definition spec_round (ins : list Z) (a : list Z * list Z * list Z) : list Z * list Z * list Z :=
  let '(n, d, t) := a in ([], ins ++ n, t ++ d).
Fixpoint spec_rounds (l : list (list Z)) (a : list Z * list Z * list Z) : list Z * list Z * list Z :=
  match l with [] => a | r :: l' => spec_rounds l' (spec_round r a) end.

Definition abs3_rel (st : cni * cni * cni) (a : list Z * list Z * list Z) : Prop :=
  let '(n, d, t) := st in let '(an, ad, at_) := a in
  Permutation (cni_abs n) an /\ Permutation (cni_abs d) ad /\ Permutation (cni_abs t) at_.

Lemma pool_rounds_spec l : forall st a, pools_inv st -> abs3_rel st a ->
  exists st', pool_rounds l st = Ok st' /\ pools_inv st' /\ abs3_rel st' (spec_rounds (map (map snd) l) a) /\
              length (snd (snd st')) = length (snd (snd st)) /\ (l <> [] -> fst (snd st') = false).
Proof.
  induction l as [|r l IH]; intros [[n d] t] [[an ad] at_] I R.
  - exists (n, d, t). split; [reflexivity|]. split; [exact I|]. split; [exact R|]. split; [reflexivity|congruence].
  - destruct (pool_round_spec r n d t I) as [n' [d' [t' [E [I' [_ [_ [Lt [Fd [Ft [A [Pd Pt]]]]]]]]]]]].
    destruct R as [Rn [Rd Rt]].
    assert (R' : abs3_rel (n', d', t') (spec_round (map snd r) (an, ad, at_))).
    { cbn [abs3_rel spec_round]. split; [now rewrite A|]. split; [rewrite Pd; now apply Permutation_app_head|].
      rewrite Pt. now apply Permutation_app. }
    destruct (IH (n', d', t') _ I' R') as [st' [E' [I'' [R'' [L'' F'']]]]]. exists st'. cbn [pool_rounds map]. rewrite E. cbn [bind].
    split; [exact E'|]. split; [exact I''|]. split; [exact R''|]. cbn [snd] in *. split; [congruence|]. intros _.
    destruct l as [|r' l']; [|apply F''; discriminate]. cbn in E'. inversion E'; subst. exact Ft.
Qed.

(* on the abstract side: starting with an empty new and ending with a round that inserts nothing, everything is in total *)
Lemma spec_rounds_final rs : forall d t,
  exists t', spec_rounds (rs ++ [[]]) ([], d, t) = ([], [], t') /\ Permutation t' (t ++ d ++ concat rs).
Proof.
  induction rs as [|r rs IH]; intros d t.
  - cbn. exists (t ++ d). split; [reflexivity|]. now rewrite app_nil_r.
  - cbn [app spec_rounds spec_round concat]. rewrite app_nil_r. destruct (IH r (t ++ d)) as [t' [E P]]. exists t'. split; [exact E|].
    rewrite P. rewrite <- !app_assoc. reflexivity.
Qed.

Lemma cni_default_len c : length (snd (cni_default c)) = Nat.max c 1 /\ (1 <= Nat.max c 1)%nat.
Proof. split; [apply repeat_length|lia]. Qed.

(* ---- an SCC in which the relation is dynamic: nothing lost, nothing duplicated, provided the value taken from the
        struct has between 1 and (run pool size) shards — in particular when it was created in the run pool *)
Theorem scc_dynamic_spec c rounds (field : cni) :
  (1 <= length (snd field) <= Nat.max c 1)%nat ->
  exists f', scc_dynamic c rounds field = Ok f' /\ fst f' = false /\ length (snd f') = Nat.max c 1 /\
             Permutation (cni_abs f') (cni_abs field ++ map snd (concat rounds)).
Proof.
  intros [La Lb]. unfold scc_dynamic. cbv zeta. destruct (cni_default_spec c) as [A0 [F0 L0]].
  assert (I : pools_inv (cni_default c, field, cni_default c)).
  { cbn [pools_inv]. rewrite L0. split; [exact F0|]. split; lia. }
  assert (R : abs3_rel (cni_default c, field, cni_default c) ([], cni_abs field, [])).
  { cbn [abs3_rel]. rewrite A0. repeat split; reflexivity. }
  destruct (pool_rounds_spec (rounds ++ [[]]) _ _ I R) as [[[n' d'] t'] [E [_ [R' [L' F']]]]]. rewrite E. cbn [bind snd].
  exists t'. split; [reflexivity|]. cbn [snd] in *. split; [apply F'; destruct rounds; discriminate|]. split; [congruence|].
  replace (map (map snd) (rounds ++ [[]])) with (map (map snd) rounds ++ [[]]) in R' by (rewrite map_app; reflexivity).
  destruct (spec_rounds_final (map (map snd) rounds) (cni_abs field) []) as [ts [Es Ps]].
  rewrite Es in R'. destruct R' as [_ [_ Rt]]. rewrite Rt, Ps. cbn [app]. apply Permutation_app_head.
  rewrite concat_map. reflexivity.
Qed.

Lemma scc_body_only_spec (field : cni) :
  exists f', scc_body_only field = Ok f' /\ length (snd f') = length (snd field) /\ cni_abs f' = cni_abs field.
Proof. eexists. split; [reflexivity|]. split; reflexivity. Qed.

Lemma visits_run_spec c vs : forall field : cni, (1 <= length (snd field) <= Nat.max c 1)%nat ->
  exists f', visits_run c vs field = Ok f' /\ (1 <= length (snd f') <= Nat.max c 1)%nat /\
             Permutation (cni_abs f') (cni_abs field ++ visits_rows vs).
Proof.
  induction vs as [|v vs IH]; intros field L.
  - exists field. split; [reflexivity|]. split; [exact L|]. cbn. now rewrite app_nil_r.
  - destruct v as [rounds|].
    + destruct (scc_dynamic_spec c rounds field L) as [f1 [E1 [_ [L1 P1]]]].
      destruct (IH f1) as [f' [E [L' P]]]; [lia|]. exists f'. cbn [visits_run visit_run]. rewrite E1. cbn [bind].
      split; [exact E|]. split; [exact L'|]. rewrite P, P1. cbn [visits_rows flat_map visit_rows]. now rewrite <- app_assoc.
    + destruct (IH (cni_freeze field) L) as [f' [E [L' P]]]. exists f'. cbn [visits_run visit_run scc_body_only bind].
      split; [exact E|]. split; [exact L'|]. exact P.
Qed.

Lemma update_indices_spec c rows (old : cni) :
  exists f, update_indices c rows old = Ok f /\ fst f = false /\ length (snd f) = Nat.max c 1 /\
            Permutation (cni_abs f) (map snd rows).
Proof.
  destruct (cni_default_spec c) as [A0 [F0 L0]]. unfold update_indices.
  destruct (steps_len rows (cni_default c) F0) as [f [E [F [L P]]]].
  { apply len_nonempty. rewrite L0. lia. }
  exists f. split; [exact E|]. split; [exact F|]. split; [congruence|]. rewrite P, A0. now rewrite app_nil_r.
Qed.

(* ---- (1) a whole run: whatever value was stored (any shard count, any content, frozen or not), whatever the run pool,
        whatever the threads' indices and the order of the atomic inserts: no panic, and the rows readable from the
        index afterwards are exactly the rows inserted, each as often as it was inserted *)
Theorem run_index_no_loss c rows vs (stored : cni) :
  exists f', run_index c rows vs stored = Ok f' /\
    length (snd f') = Nat.max c 1 /\
    Permutation (cni_abs f') (map snd rows ++ visits_rows vs) /\
    cni_get (cni_freeze f') = Ok (Some (cni_abs f')).
Proof.
  unfold run_index. destruct (update_indices_spec c rows stored) as [f [E [F [L P]]]]. rewrite E. cbn [bind].
  destruct (visits_run_spec c vs f) as [f' [E' [L' P']]]; [rewrite L; lia|].
  assert (Lf : length (snd f') = Nat.max c 1).
  { clear - E' L. revert f L E'. induction vs as [|v vs IH]; intros f L E'.
    - cbn in E'. inversion E'; subst. exact L.
    - cbn [visits_run] in E'. destruct v as [rounds|]; cbn [visit_run] in E'.
      + destruct (scc_dynamic_spec c rounds f) as [f1 [E1 [_ [L1 _]]]]; [rewrite L; lia|]. rewrite E1 in E'. cbn [bind] in E'. exact (IH f1 L1 E').
      + cbn [scc_body_only bind] in E'. exact (IH (cni_freeze f) L E'). }
  exists f'. split; [exact E'|]. split; [exact Lf|]. split; [rewrite P', P; reflexivity|reflexivity].
Qed.

(* every shard count of the run is the run pool's: the freshly created values have it by construction *)
Lemma run_counts_equal c rows (old : cni) :
  exists f, update_indices c rows old = Ok f /\
    length (snd f) = length (snd (cni_default c)) /\ length (snd (cni_default c)) = Nat.max c 1.
Proof.
  destruct (update_indices_spec c rows old) as [f [E [_ [L _]]]]. exists f. split; [exact E|].
  destruct (cni_default_len c) as [L0 _]. split; congruence.
Qed.

Corollary run_index_rows_once c rows vs (stored : cni) : NoDup (map snd rows ++ visits_rows vs) ->
  exists f', run_index c rows vs stored = Ok f' /\ NoDup (cni_abs f') /\
             forall r, In r (cni_abs f') <-> In r (map snd rows ++ visits_rows vs).
Proof.
  intros N. destruct (run_index_no_loss c rows vs stored) as [f' [E [_ [P _]]]]. exists f'. split; [exact E|]. split.
  - eapply Permutation_NoDup; [apply Permutation_sym, P|exact N].
  - intros r. split; apply Permutation_in; [exact P|apply Permutation_sym, P].
Qed.

(* ---- without the reset (the code before commit 949309d, or a run that would skip update_indices):
        a stored value with NO MORE shards than the run pool is still safe ... *)
Theorem run_index_noreset_small c rows vs (stored : cni) :
  fst stored = false -> (1 <= length (snd stored) <= Nat.max c 1)%nat ->
  exists f', run_index_noreset c rows vs stored = Ok f' /\
    Permutation (cni_abs f') (cni_abs stored ++ map snd rows ++ visits_rows vs).
Proof.
  intros F L. unfold run_index_noreset, update_indices_noreset.
  destruct (steps_len rows stored F (len_nonempty _ (proj1 L))) as [f [E [_ [Lf P]]]]. rewrite E. cbn [bind].
  destruct (visits_run_spec c vs f) as [f' [E' [_ P']]]; [rewrite Lf; exact L|].
  exists f'. split; [exact E'|]. rewrite P', P. rewrite <- !app_assoc. apply Permutation_app_swap_app.
Qed.

(* ... but a stored value with MORE shards than the run pool (left by a run in a larger pool) loses the rows held in
   the extra shards: the zip merge never moves them and they are dropped with delta / new at the end of the SCC *)
Lemma run_index_noreset_large_refuted :
  exists c stored f',
    (length (snd stored) > Nat.max c 1)%nat /\
    run_index_noreset c [] [VDyn []] stored = Ok f' /\
    cni_abs stored = [1; 2] /\ cni_abs f' = [1].
Proof. exists 1%nat, (false, [[1]; [2]]). eexists. split; [cbn; lia|]. split; [reflexivity|]. split; reflexivity. Qed.

(* ---- (3) DashMap based indices: shards_count() (ascent/src/c_rel_index.rs:320-326) is a once_cell Lazy static, i.e.
        one constant n per process, and every Default (c_rel_index.rs:113, c_rel_full_index.rs:109, c_lat_index.rs:90)
        uses it; every operation keeps the number of shards; hence the assert_eq! on the shard counts in their
        move_index_contents cannot fire *)
Lemma dm_counts_constant {M} (e : M) (n : nat) (smove : M -> M -> M * M) (from to : dmap M) :
  length (snd (dm_default e n)) = n /\
  length (snd (dm_freeze from)) = length (snd from) /\ length (snd (dm_unfreeze from)) = length (snd from) /\
  (fst from = false -> fst to = false -> length (snd from) = n -> length (snd to) = n ->
     exists f' t', dm_move smove from to = Ok (f', t') /\ length (snd f') = n /\ length (snd t') = n).
Proof.
  split; [apply repeat_length|]. split; [reflexivity|]. split; [reflexivity|]. intros Hf Ht Lf Lt. unfold dm_move. rewrite Hf, Ht.
  replace (Nat.eqb (length (snd from)) (length (snd to))) with true by (symmetry; apply Nat.eqb_eq; congruence). cbn [negb].
  eexists. eexists. split; [reflexivity|]. cbn [snd]. rewrite !map_length, combine_length. split; lia.
Qed.

Lemma dm_write_keeps_count {M} hash k (f : M -> M) (c c' : dmap M) : dm_write hash k f c = Ok c' -> length (snd c') = length (snd c).
Proof.
  unfold dm_write. destruct (fst c); [discriminate|]. destruct (is_nil (snd c)); [discriminate|]. intros E. inversion E. cbn [snd].
  apply upd_nth_length.
Qed.
