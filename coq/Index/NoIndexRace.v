(* C19, CRelNoIndex: what the shard lock of the concurrent insert is for.

   Index/ConcIndex.v takes `self.vec[shard].write().push(value)` (ascent/src/c_rel_no_index.rs:121-125) as ONE atomic step
   (cni_insert) and proves that every interleaving of such steps retains every value.  This file opens the step: a push is
     (1) read the length n of the shard vector          RRead t
     (2) store the value in slot n, set the length n+1   RWrite t v
   With the write lock held the two happen back to back (push_locked_is_insert: the pair IS cni_insert).  Without the lock
   ("every rayon worker only pushes into its own shard") steps of different threads may come between them.  That is harmless
   when the two threads use different shards and loses an insert when they share one - threads that are not rayon workers
   (current_thread_index() = None -> shard 0), or worker indices folded by the modulo when the index was created inside a
   smaller pool than the one that fills it.  Both facts are computed below over ALL interleavings of two threads with two
   pushes each; the tie's CONTENTION family (gen/c19_contention.py) looks for the second one in the real code.

   Limits of this model (stated, not hidden): reallocation of the buffer is not modelled (a racing reallocation is a
   use-after-free in the real code, i.e. anything); a store above the current length (possible after another thread's
   store has set the length back) is outside the model and reported as Unsup.
   Model part first (no proofs among the definitions), then the proofs. *)
From Coq Require Import List ZArith Bool Lia Permutation Arith.
From AV Require Import Index.IndexModel.
From AV Require Import Index.ConcIndex.
Import ListNotations.
Open Scope Z_scope.

(* ================================================================== model *)
Inductive rstep : Type := RRead (t : nat) | RWrite (t : nat) (v : Z).

(* per thread: the length it has read and not yet used *)
Definition regs : Type := list (nat * nat).
Fixpoint reg_get (t : nat) (r : regs) : option nat :=
  match r with [] => None | (t', n) :: r' => if Nat.eqb t t' then Some n else reg_get t r' end.
Fixpoint reg_clear (t : nat) (r : regs) : regs :=
  match r with [] => [] | (t', n) :: r' => if Nat.eqb t t' then reg_clear t r' else (t', n) :: reg_clear t r' end.

Definition rstate : Type := (cni * regs)%type.

(* CRelIndexWrite::index_insert(&self) with the push opened: assert!(!frozen); shard = thread index % shards *)
Definition rstep_run (s : rstep) (st : rstate) : res rstate :=
  let c := fst st in
  let r := snd st in
  if fst c then Panic
  else if is_nil (snd c) then Panic
  else match s with
       | RRead t =>
           let i := Nat.modulo t (length (snd c)) in
           Ok (c, (t, length (nth i (snd c) [])) :: reg_clear t r)
       | RWrite t v =>
           let i := Nat.modulo t (length (snd c)) in
           match reg_get t r with
           | None => Unsup
           | Some n => if Nat.leb n (length (nth i (snd c) []))
                       then Ok ((fst c, upd_nth i (fun l => firstn n l ++ [v]) (snd c)), reg_clear t r)
                       else Unsup
           end
       end.

Definition push_steps (t : nat) (v : Z) : list rstep := [RRead t; RWrite t v].
Definition thread_steps (t : nat) (vs : list Z) : list rstep := flat_map (push_steps t) vs.

(* every interleaving of two step lists (a function: the bounded statements below are computed) *)
Fixpoint interleavings_aux {A} (fuel : nat) (a b : list A) : list (list A) :=
  match fuel with
  | O => []
  | S f => match a, b with
           | [], _ => [b]
           | _, [] => [a]
           | x :: a', y :: b' => map (cons x) (interleavings_aux f a' b) ++ map (cons y) (interleavings_aux f a b')
           end
  end.
Definition interleavings {A} (a b : list A) : list (list A) := interleavings_aux (S (length a + length b)) a b.

Definition run_unlocked (pool : nat) (sch : list rstep) : res (list Z) :=
  match steps rstep_run sch (cni_default pool, []) with
  | Ok st => Ok (concat (snd (fst st)))
  | Panic => Panic
  | Unsup => Unsup
  end.

Definition zlist_eqb (a b : list Z) : bool := if list_eq_dec Z.eq_dec a b then true else false.
Definition retains (pool : nat) (exp : list Z) (sch : list rstep) : bool :=
  match run_unlocked pool sch with Ok l => zlist_eqb l exp | _ => false end.
Definition count {A} (p : A -> bool) (l : list A) : nat := length (filter p l).

(* ================================================================== proofs *)
Lemma upd_nth_ext_at {A} (f g : A -> A) d : forall l i, f (nth i l d) = g (nth i l d) -> upd_nth i f l = upd_nth i g l.
Proof.
  induction l as [|x l IH]; intros i E; [destruct i; reflexivity|].
  destruct i as [|i]; cbn [upd_nth nth] in *; [now rewrite E|]. now rewrite (IH i E).
Qed.

(* with the lock held the two halves are adjacent: the pair is exactly the atomic step of ConcIndex.v *)
Theorem push_locked_is_insert t v c :
  steps rstep_run (push_steps t v) (c, []) = bind (cni_insert t v c) (fun c' => Ok (c', [])).
Proof.
  destruct c as [fr sh]. unfold steps, push_steps, cni_insert, cni_insert_mut, rstep_run. cbn [fold_left bind fst snd].
  destruct fr; [reflexivity|]. destruct sh as [|s0 sh]; [reflexivity|].
  cbn [is_nil bind fst snd reg_get reg_clear]. rewrite Nat.eqb_refl, Nat.leb_refl. cbn [bind].
  rewrite (upd_nth_ext_at _ (fun l : list Z => l ++ [v]) [] (s0 :: sh)); [reflexivity|]. now rewrite firstn_all.
Qed.

(* two threads of ONE shard, the lock elided: an insert is lost.  Threads 0 and 2 of a pool of 4 filling an index created in a
   pool of 2 (2 shards: 0 mod 2 = 2 mod 2); the same schedule with two threads outside any pool (both index 0) *)
Theorem push_unlocked_shared_shard_refuted :
  exists sch st, interleave [push_steps 0 7; push_steps 2 8] sch /\
    steps rstep_run sch (cni_default 2, []) = Ok st /\ cni_abs (fst st) = [8] /\ snd st = [].
Proof.
  exists [RRead 0; RRead 2; RWrite 0 7; RWrite 2 8]. eexists. split; [|split; [vm_compute; reflexivity|split; reflexivity]].
  exact (il_step [] (RRead 0) [RWrite 0 7] [push_steps 2 8] _
        (il_step [[RWrite 0 7]] (RRead 2) [RWrite 2 8] [] _
        (il_step [] (RWrite 0 7) [] [[RWrite 2 8]] _
        (il_step [[]] (RWrite 2 8) [] [] _
        (il_done [[]; []] (Forall_cons _ eq_refl (Forall_cons _ eq_refl (Forall_nil _)))))))).
Qed.

(* bounded, computed over ALL 70 interleavings of two threads with two pushes each (8 steps), index of 2 shards:
   own shards (threads 0 and 1): every schedule retains the four values, each shard in program order;
   shared shard (threads 0 and 2: 0 mod 2 = 2 mod 2): only the 6 schedules in which no push is split by a step of the other thread
   (the schedules the lock allows) retain all four values, the other 64 end with fewer than four *)
Theorem push_unlocked_bounded :
  length (interleavings (thread_steps 0 [1; 2]) (thread_steps 1 [3; 4])) = 70%nat /\
  forallb (retains 2 [1; 2; 3; 4]) (interleavings (thread_steps 0 [1; 2]) (thread_steps 1 [3; 4])) = true /\
  count (fun s => match run_unlocked 2 s with Ok l => Nat.eqb (length l) 4 | _ => false end)
        (interleavings (thread_steps 0 [1; 2]) (thread_steps 2 [3; 4])) = 6%nat /\
  count (fun s => match run_unlocked 2 s with Ok l => Nat.ltb (length l) 4 | _ => false end)
        (interleavings (thread_steps 0 [1; 2]) (thread_steps 2 [3; 4])) = 64%nat.
Proof. vm_compute. repeat split; reflexivity. Qed.
