(* C20, index level: the LIFE of one CRelNoIndex-backed index of a relation of a parallel program, from the construction of the
   program value to any number of runs, every step possibly in a different rayon pool.

   Index/NoIndexPools.v models ONE run (update_indices, then the SCC visits) over an arbitrary stored value.  This file makes
   explicit where stored values come from and that the rebuild at the start of run() is a step of its own:

     ascent_macro/src/ascent_codegen.rs  Default::default() of the generated struct (310-345): the relations' initial values
                                         (`relation r(..) = expr;`) are assigned, then `_self.update_indices_priv()` — in the pool
                                         current where the program value is CONSTRUCTED;
                                         pub fn update_indices (deprecated, public): the same function, callable at any time in
                                         any pool;
                                         the relations' row vectors are public fields: the user may overwrite / extend them
                                         between any two steps (the indices are not touched by that);
                                         run / run_timeout (175-210): `self.update_indices_priv();` FIRST, then the SCCs.

   update_indices_priv re-creates every index (`self.<index> = Default::default()`, in the pool current at that moment) and
   inserts every row (a parallel loop over the row vector: the worker that inserts row i is arbitrary).

   The statement of C20 at this level: whatever happened before (construction with initial values in any pool, explicit
   update_indices() calls in any pools, earlier runs in any pools, rows overwritten), after a run in a pool of c threads the rows
   readable from the index "with no bound column" (what `agg .. in r(_)`, a cross product or a first clause reads) are exactly
   the rows of the relation.  It holds BECAUSE run() rebuilds; a run() that keeps the indices it finds when the relation has not
   changed size since they were built (policy KeepIfSizeUnchanged below) loses rows as soon as they were built in a larger pool.
   Definitions first (no proofs among them), then the proofs. *)
From Coq Require Import List ZArith Bool Lia Permutation Arith.
From AV Require Import Index.MultiMap.
From AV Require Import Index.IndexModel.
From AV Require Import Index.IndexRefine.
From AV Require Import Index.ConcIndex.
From AV Require Import Index.NoIndexPools.
Import ListNotations.
Open Scope Z_scope.

(* ================================================================== model *)
(* the relation's row vector (row ids), its no-bound-column index, and the size of the row vector at the last index build
   (None: never built, or the relation has been run since — a run appends rows) *)
Record lstate : Type := mk_lstate { l_rows : list Z; l_index : cni; l_built : option nat }.

(* the parallel loop of update_indices_priv: row i is inserted by worker (nth i tids 0) *)
Fixpoint sched_of (tids : list nat) (rows : list Z) : sched :=
  match rows with
  | [] => []
  | r :: rs => (hd 0%nat tids, r) :: sched_of (tl tids) rs
  end.

Inductive policy : Type :=
| AlwaysRebuild            (* the code: run() starts with update_indices_priv() *)
| KeepIfSizeUnchanged.     (* a run() that skips it when indices exist and the relation has the size it had when they were built *)

Inductive event : Type :=
| ESet (rows : list Z)                                  (* the row vector is assigned (initial values; user code) *)
| EBuild (a : nat) (tids : list nat)                    (* update_indices_priv() OUTSIDE run, in a pool of a threads: the end of Default::default(), or update_indices() *)
| ERun (c : nat) (tids : list nat) (vs : list visit).   (* run() in a pool of c threads; vs: the SCC visits of this index *)

Definition build (a : nat) (tids : list nat) (st : lstate) : res lstate :=
  bind (update_indices a (sched_of tids (l_rows st)) (l_index st)) (fun ix =>
  Ok (mk_lstate (l_rows st) ix (Some (length (l_rows st))))).

Definition run_visits (c : nat) (vs : list visit) (st : lstate) (ix : cni) : res lstate :=
  bind (visits_run c vs ix) (fun ix' => Ok (mk_lstate (l_rows st ++ visits_rows vs) ix' None)).

Definition index_current (st : lstate) : bool :=
  match l_built st with Some n => Nat.eqb n (length (l_rows st)) | None => false end.

Definition run_step (p : policy) (c : nat) (tids : list nat) (vs : list visit) (st : lstate) : res lstate :=
  let rebuild := bind (update_indices c (sched_of tids (l_rows st)) (l_index st)) (run_visits c vs st) in
  match p with
  | AlwaysRebuild => rebuild
  | KeepIfSizeUnchanged => if index_current st then run_visits c vs st (l_index st) else rebuild
  end.

Definition step (p : policy) (e : event) (st : lstate) : res lstate :=
  match e with
  | ESet rows => Ok (mk_lstate rows (l_index st) (l_built st))
  | EBuild a tids => build a tids st
  | ERun c tids vs => run_step p c tids vs st
  end.

Fixpoint life (p : policy) (evs : list event) (st : lstate) : res lstate :=
  match evs with
  | [] => Ok st
  | e :: r => bind (step p e st) (life p r)
  end.

(* a fresh program value (before the initial values are assigned): the index was created by Default in a pool of a0 threads *)
Definition fresh_state (a0 : nat) : lstate := mk_lstate [] (cni_default a0) None.

(* what a count() aggregate over r(_, .., _) returns / how many rows a cross product or a first clause visits *)
Definition noindex_count (st : lstate) : Z := Z.of_nat (length (cni_abs (l_index st))).

(* spread n rows 0 .. n-1 round robin over the workers of a pool of a threads (for examples and for the tie) *)
Definition spread (a n : nat) : list nat := map (fun i => Nat.modulo i (Nat.max a 1)) (seq 0 n).
Definition ids (from n : nat) : list Z := map Z.of_nat (seq from n).

(* ================================================================== proofs *)
Lemma sched_of_rows : forall rows tids, map snd (sched_of tids rows) = rows.
Proof. induction rows as [|r rs IH]; intros tids; [reflexivity|]. cbn [sched_of map snd]. now rewrite IH. Qed.

Lemma life_app p : forall evs1 evs2 st, life p (evs1 ++ evs2) st = bind (life p evs1 st) (life p evs2).
Proof.
  induction evs1 as [|e r IH]; intros evs2 st; [reflexivity|]. cbn [app life].
  destruct (step p e st) as [st1| |]; cbn [bind]; [apply IH|reflexivity|reflexivity].
Qed.

Lemma build_ok a tids st : exists ix, build a tids st = Ok (mk_lstate (l_rows st) ix (Some (length (l_rows st)))) /\
  fst ix = false /\ length (snd ix) = Nat.max a 1 /\ Permutation (cni_abs ix) (l_rows st).
Proof.
  unfold build. destruct (update_indices_spec a (sched_of tids (l_rows st)) (l_index st)) as [ix [E [F [L P]]]].
  rewrite E. cbn [bind]. exists ix. split; [reflexivity|]. split; [exact F|]. split; [exact L|]. now rewrite sched_of_rows in P.
Qed.

(* a run that rebuilds: total, and exact, over ANY state *)
Lemma run_rebuild_ok c tids vs st :
  exists ix, bind (update_indices c (sched_of tids (l_rows st)) (l_index st)) (run_visits c vs st)
             = Ok (mk_lstate (l_rows st ++ visits_rows vs) ix None) /\
    length (snd ix) = Nat.max c 1 /\ Permutation (cni_abs ix) (l_rows st ++ visits_rows vs).
Proof.
  destruct (run_index_no_loss c (sched_of tids (l_rows st)) vs (l_index st)) as [ix [E [L [P _]]]].
  unfold run_index in E. destruct (update_indices c (sched_of tids (l_rows st)) (l_index st)) as [f| |]; cbn [bind] in *; try discriminate.
  unfold run_visits. rewrite E. cbn [bind]. exists ix. split; [reflexivity|]. split; [exact L|]. now rewrite sched_of_rows in P.
Qed.

Lemma step_always_ok e st : exists st', step AlwaysRebuild e st = Ok st'.
Proof.
  destruct e as [rows|a tids|c tids vs]; cbn [step].
  - eexists. reflexivity.
  - destruct (build_ok a tids st) as [ix [E _]]. eexists. exact E.
  - unfold run_step. destruct (run_rebuild_ok c tids vs st) as [ix [E _]]. eexists. exact E.
Qed.

(* ---- no history panics (no frozen-index assert, no out-of-bounds shard) when run() rebuilds *)
Theorem life_always_total : forall evs st, exists st', life AlwaysRebuild evs st = Ok st'.
Proof.
  induction evs as [|e r IH]; intros st; [eexists; reflexivity|]. cbn [life].
  destruct (step_always_ok e st) as [st1 E]. rewrite E. cbn [bind]. apply IH.
Qed.

(* ---- after a run in a pool of c threads, whatever the history before it: the index has the run pool's shard count and
        holds exactly the relation's rows; in particular a count() over r(_) equals the number of rows *)
Theorem life_always_no_loss : forall evs c tids vs st,
  exists st', life AlwaysRebuild (evs ++ [ERun c tids vs]) st = Ok st' /\
    length (snd (l_index st')) = Nat.max c 1 /\
    Permutation (cni_abs (l_index st')) (l_rows st') /\
    cni_get (cni_freeze (l_index st')) = Ok (Some (cni_abs (l_index st'))) /\
    noindex_count st' = Z.of_nat (length (l_rows st')).
Proof.
  intros evs c tids vs st. rewrite life_app. destruct (life_always_total evs st) as [st1 E1]. rewrite E1. cbn [bind life step].
  unfold run_step. destruct (run_rebuild_ok c tids vs st1) as [ix [E [L P]]]. rewrite E. cbn [bind].
  eexists. split; [reflexivity|]. cbn [l_index l_rows]. split; [exact L|]. split; [exact P|]. split; [reflexivity|].
  unfold noindex_count. cbn [l_index]. f_equal. now apply Permutation_length.
Qed.

(* ---- the relation's rows themselves: what the user assigned last, plus everything the runs since then derived *)
Lemma life_always_rows_after_set : forall rows c tids vs st,
  exists st', life AlwaysRebuild [ESet rows; ERun c tids vs] st = Ok st' /\ l_rows st' = rows ++ visits_rows vs.
Proof.
  intros rows c tids vs st. cbn [life step bind]. unfold run_step.
  destruct (run_rebuild_ok c tids vs (mk_lstate rows (l_index st) (l_built st))) as [ix [E _]]. rewrite E. cbn [bind].
  eexists. split; reflexivity.
Qed.

(* ---- a run() that keeps indices built outside it is still exact when they were built in a pool NO LARGER than the run pool ... *)
Theorem life_keep_small_pool : forall a0 rows a tids c tids' vs, (a <= Nat.max c 1)%nat ->
  exists st', life KeepIfSizeUnchanged [ESet rows; EBuild a tids; ERun c tids' vs] (fresh_state a0) = Ok st' /\
    Permutation (cni_abs (l_index st')) (l_rows st').
Proof.
  intros a0 rows a tids c tids' vs Hac. cbn [life step bind].
  destruct (build_ok a tids (mk_lstate rows (l_index (fresh_state a0)) (l_built (fresh_state a0)))) as [ix [E [F [L P]]]].
  rewrite E. cbn [bind l_rows]. unfold run_step, index_current. cbn [l_built l_rows l_index]. rewrite Nat.eqb_refl.
  destruct (visits_run_spec c vs ix) as [f' [E' [_ P']]]; [rewrite L; lia|].
  unfold run_visits. rewrite E'. cbn [bind l_rows]. eexists. split; [reflexivity|]. cbn [l_index l_rows]. rewrite P'.
  apply Permutation_app_tail. exact P.
Qed.

(* ... and loses rows when they were built in a LARGER pool: 300 initial rows indexed at construction in a pool of 8 (spread
   over the 8 shards), run in a pool of 2 whose only SCC visit derives 2 more rows: the zip merge of the 8-shard delta into the
   2-shard total moves shards 0 and 1 only; a count() over the relation then returns 78 although the relation has 302 rows. *)
Definition keep_witness : list event :=
  [ESet (ids 0 300); EBuild 8 (spread 8 300); ERun 2 [] [VDyn [[(0%nat, 300); (1%nat, 301)]]]].

Lemma life_keep_large_pool_refuted :
  exists st', life KeepIfSizeUnchanged keep_witness (fresh_state 8) = Ok st' /\
    length (l_rows st') = 302%nat /\ NoDup (l_rows st') /\ noindex_count st' = 78 /\
    ~ Permutation (cni_abs (l_index st')) (l_rows st').
Proof.
  destruct (life KeepIfSizeUnchanged keep_witness (fresh_state 8)) as [st'| |] eqn:E; try (vm_compute in E; discriminate).
  exists st'. split; [reflexivity|].
  assert (R : l_rows st' = ids 0 302) by (vm_compute in E; inversion E; reflexivity).
  assert (C : noindex_count st' = 78) by (vm_compute in E; inversion E; reflexivity).
  split; [rewrite R; unfold ids; now rewrite map_length, seq_length|]. split.
  - rewrite R. unfold ids. apply FinFun.Injective_map_NoDup; [intros x y H; now apply Nat2Z.inj|apply seq_NoDup].
  - split; [exact C|]. intros P. apply Permutation_length in P. unfold noindex_count in C. rewrite P, R in C.
    unfold ids in C. rewrite map_length, seq_length in C. discriminate.
Qed.

(* the same history under the real policy: all 302 rows *)
Lemma life_always_on_witness :
  exists st', life AlwaysRebuild keep_witness (fresh_state 8) = Ok st' /\ noindex_count st' = 302 /\ l_rows st' = ids 0 302.
Proof. eexists. split; [vm_compute; reflexivity|]. split; reflexivity. Qed.
