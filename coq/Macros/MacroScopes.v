(* C08 — expression-level scopes inside macro bodies and expression arguments.

   The renaming of macro-local variables (ascent_syntax.rs body_items_rename_macro_originated_vars) finds the occurrences
   of a macro local INSIDE a Rust expression through the free-variable walk of ascent_macro/src/syn_utils.rs
   (expr_visit_free_vars_mut, block_visit_free_vars_mut): an occurrence is offered to the renaming iff no enclosing binder OF
   THE EXPRESSION (a block's `let`, a closure parameter, a match arm, `if let`, `for`) has its spelling.  MacroModel.v /
   MacroArgs.v treat an expression as a tree of vocabulary functions over variables: no binders.  Here:

     sx          a small expression language with those binders (identifiers = spelling + origin, as everywhere in Macros/)
     eval        its evaluation, parameterised by the identity of identifiers: same_id (spelling AND origin: the hygienic
                 reading of the instantiated macro body) / same_nm (spelling only: what rustc sees)
     ren         the walk + renaming as the code does it (walk_cfg: the two scoping decisions a walker can get wrong)
     occs / free_occs   every occurrence with `is it free`; ren renames exactly the free ones that the mapping knows
     hyp         the computable hypothesis of the theorem (no expression-level binder captures an identifier of another
                 origin; the rule-level names stay apart; generated names are unused)
     ren_sound   eval same_nm (renamed rule variables) (ren e) = eval same_id (rule variables) e        (no capture)
     refuted variants, by vm_compute: a `let` that binds inside its own initialiser (seed C08 round 5); the guard of a match
     arm walked outside the arm's scope (walk_before_fix: the code BEFORE fix e64116b, finding
     match_guard_walked_outside_arm_scope, repaired); an expression-level binder of the macro body above an identifier of the
     actual (the code as it is: finding expression_binder_resolved_by_spelling). *)
From Coq Require Import List String ZArith Bool Arith Lia.
Import ListNotations.
Open Scope string_scope.
Open Scope list_scope.

(* ------------------------------------------------------------------ syntax *)

Definition ident := (string * nat)%type.          (* spelling, origin: 0 = written at the call site, S k = in the body of macro k *)
Definition iname (i : ident) : string := fst i.
Definition iorg (i : ident) : nat := snd i.

Inductive sx : Type :=
| SVar (i : ident)
| SConst (z : Z)
| SOp1 (f : nat) (a : sx)
| SOp2 (f : nat) (a b : sx)
| SLet (b : ident) (init body : sx)               (* { let b = init; body }                                   *)
| SClo (b : ident) (body arg : sx)                (* (|b: i32| body)(arg)                                     *)
| SMatch (scrut : sx) (b : ident) (body : sx)     (* match scrut { b => body }                                *)
| SMatchG (scrut : sx) (b : ident) (guard body els : sx)   (* match scrut { b if guard > 0 => body, _ => els } *)
| SIfLet (b : ident) (scrut thn els : sx)         (* if let Some(b) = half(scrut) { thn } else { els }        *)
| SFor (b : ident) (bound body : sx).             (* { let mut acc_ = 0; for b in 0..=(bound mod 3) { acc_ += body } acc_ mod 7 } *)

(* the vocabulary of gen/dl.py (ids as in Engine/Vocab.v std_fint) *)
Definition op1 (f : nat) (x : Z) : Z :=
  match f with
  | 0%nat => Z.min (x + 1) 7          (* incs *)
  | 2%nat => x mod 3                  (* mod3 *)
  | 3%nat => Z.max (x - 1) 0          (* decs *)
  | _ => x                            (* asi32 *)
  end.
Definition op2 (f : nat) (x y : Z) : Z :=
  match f with
  | 1%nat => (x + y) mod 7            (* addm *)
  | _ => Z.max x y                    (* max2 *)
  end.

(* ------------------------------------------------------------------ evaluation *)

Definition same_id (i j : ident) : bool := String.eqb (iname i) (iname j) && Nat.eqb (iorg i) (iorg j).
Definition same_nm (i j : ident) : bool := String.eqb (iname i) (iname j).

Definition env := list (ident * Z).

Fixpoint lookup (same : ident -> ident -> bool) (en : env) (i : ident) : option Z :=
  match en with
  | [] => None
  | (j, z) :: r => if same j i then Some z else lookup same r i
  end.

Fixpoint zrange (lo : Z) (n : nat) : list Z := match n with O => [] | S k => lo :: zrange (lo + 1) k end.

Fixpoint sum_opt (l : list (option Z)) : option Z :=
  match l with
  | [] => Some 0%Z
  | None :: _ => None
  | Some x :: r => match sum_opt r with Some y => Some (x + y)%Z | None => None end
  end.

(* None = an identifier that nothing binds (rustc: cannot find value): every branch is evaluated, so None does not depend on
   the values; a `for` runs at least once *)
Fixpoint eval (same : ident -> ident -> bool) (en : env) (e : sx) : option Z :=
  match e with
  | SVar i => lookup same en i
  | SConst z => Some z
  | SOp1 f a => match eval same en a with Some x => Some (op1 f x) | None => None end
  | SOp2 f a b => match eval same en a, eval same en b with Some x, Some y => Some (op2 f x y) | _, _ => None end
  | SLet b i body => match eval same en i with Some v => eval same ((b, v) :: en) body | None => None end
  | SClo b body a => match eval same en a with Some v => eval same ((b, v) :: en) body | None => None end
  | SMatch s b body => match eval same en s with Some v => eval same ((b, v) :: en) body | None => None end
  | SMatchG s b g body els =>
      match eval same en s with
      | None => None
      | Some v => match eval same ((b, v) :: en) g, eval same ((b, v) :: en) body, eval same en els with
                  | Some gv, Some x, Some y => Some (if Z.ltb 0 gv then x else y)
                  | _, _, _ => None
                  end
      end
  | SIfLet b s thn els =>
      match eval same en s with
      | None => None
      | Some v => match eval same ((b, (v / 2)%Z) :: en) thn, eval same en els with
                  | Some x, Some y => Some (if Z.eqb (v mod 2) 0 then x else y)
                  | _, _ => None
                  end
      end
  | SFor b bd body =>
      match eval same en bd with
      | None => None
      | Some n => match sum_opt (map (fun k => eval same ((b, k) :: en) body) (zrange 0 (S (Z.to_nat (n mod 3))))) with
                  | Some t => Some (t mod 7)%Z
                  | None => None
                  end
      end
  end.

(* ------------------------------------------------------------------ the walk and the renaming *)

Record walk_cfg := { let_binds_init : bool; guard_in_arm_scope : bool }.
Definition rust_walk := {| let_binds_init := false; guard_in_arm_scope := true |}.     (* the scoping of Rust *)
Definition real_walk := {| let_binds_init := false; guard_in_arm_scope := true |}.     (* syn_utils.rs as it is (since fix e64116b) *)
Definition walk_before_fix := {| let_binds_init := false; guard_in_arm_scope := false |}.   (* syn_utils.rs before e64116b: guards walked outside the arm's scope *)
Definition seed_walk := {| let_binds_init := true; guard_in_arm_scope := true |}.      (* a let bound before its initialiser is walked *)

(* var_mappings restricted by the span test: macro-originated local (spelling, origin) -> generated spelling *)
Definition mapping := list (ident * string).

Fixpoint mlook (m : mapping) (i : ident) : option string :=
  match m with
  | [] => None
  | (j, s) :: r => if same_id j i then Some s else mlook r i
  end.

Definition ren_ident (m : mapping) (i : ident) : ident :=
  match mlook m i with Some s => (s, iorg i) | None => i end.

Fixpoint mem (x : string) (l : list string) : bool :=
  match l with [] => false | y :: r => String.eqb y x || mem x r end.

Definition push (c : bool) (b : ident) (bound : list string) : list string := if c then iname b :: bound else bound.

Fixpoint ren (c : walk_cfg) (m : mapping) (bound : list string) (e : sx) : sx :=
  match e with
  | SVar i => if mem (iname i) bound then e else SVar (ren_ident m i)
  | SConst _ => e
  | SOp1 f a => SOp1 f (ren c m bound a)
  | SOp2 f a b => SOp2 f (ren c m bound a) (ren c m bound b)
  | SLet b i body => SLet b (ren c m (push (let_binds_init c) b bound) i) (ren c m (iname b :: bound) body)
  | SClo b body a => SClo b (ren c m (iname b :: bound) body) (ren c m bound a)
  | SMatch s b body => SMatch (ren c m bound s) b (ren c m (iname b :: bound) body)
  | SMatchG s b g body els =>
      SMatchG (ren c m bound s) b (ren c m (push (guard_in_arm_scope c) b bound) g) (ren c m (iname b :: bound) body) (ren c m bound els)
  | SIfLet b s thn els => SIfLet b (ren c m bound s) (ren c m (iname b :: bound) thn) (ren c m bound els)
  | SFor b bd body => SFor b (ren c m bound bd) (ren c m (iname b :: bound) body)
  end.

(* every occurrence in textual order of the constructors' fields, with `free` = no enclosing binder of the expression has
   its spelling (bound = the spellings bound around e) *)
Fixpoint occs (c : walk_cfg) (bound : list string) (e : sx) : list (ident * bool) :=
  match e with
  | SVar i => [(i, negb (mem (iname i) bound))]
  | SConst _ => []
  | SOp1 _ a => occs c bound a
  | SOp2 _ a b => occs c bound a ++ occs c bound b
  | SLet b i body => occs c (push (let_binds_init c) b bound) i ++ occs c (iname b :: bound) body
  | SClo b body a => occs c (iname b :: bound) body ++ occs c bound a
  | SMatch s b body => occs c bound s ++ occs c (iname b :: bound) body
  | SMatchG s b g body els =>
      occs c bound s ++ occs c (push (guard_in_arm_scope c) b bound) g ++ occs c (iname b :: bound) body ++ occs c bound els
  | SIfLet b s thn els => occs c bound s ++ occs c (iname b :: bound) thn ++ occs c bound els
  | SFor b bd body => occs c bound bd ++ occs c (iname b :: bound) body
  end.

Definition free_occs (c : walk_cfg) (bound : list string) (e : sx) : list ident :=
  map fst (filter (fun p => snd p) (occs c bound e)).

Fixpoint binders (e : sx) : list ident :=
  match e with
  | SVar _ | SConst _ => []
  | SOp1 _ a => binders a
  | SOp2 _ a b => binders a ++ binders b
  | SLet b i body => b :: binders i ++ binders body
  | SClo b body a => b :: binders body ++ binders a
  | SMatch s b body => b :: binders s ++ binders body
  | SMatchG s b g body els => b :: binders s ++ binders g ++ binders body ++ binders els
  | SIfLet b s thn els => b :: binders s ++ binders thn ++ binders els
  | SFor b bd body => b :: binders bd ++ binders body
  end.

(* ------------------------------------------------------------------ the hypothesis of the theorem, computable *)

Definition ident_eqb (i j : ident) : bool := same_id i j.

Fixpoint first_named (n : string) (bs : list ident) : option ident :=
  match bs with
  | [] => None
  | b :: r => if String.eqb (iname b) n then Some b else first_named n r
  end.

(* the rule-level identifiers (dom) keep apart from i once renamed: two of them get one spelling only if they are one identifier *)
Definition unamb (m : mapping) (dom : list ident) (i : ident) : bool :=
  forallb (fun j => implb (String.eqb (iname (ren_ident m j)) (iname (ren_ident m i))) (ident_eqb j i)) dom.

Definition fresh_b (m : mapping) (b : ident) : bool := negb (mem (iname b) (map snd m)).

(* bs: the expression-level binders around e, innermost first *)
Fixpoint hyp (m : mapping) (dom : list ident) (bs : list ident) (e : sx) : bool :=
  match e with
  | SVar i => match first_named (iname i) bs with
              | Some b => ident_eqb b i          (* the binder that rustc resolves it to is the one of its own origin *)
              | None => unamb m dom i            (* a rule-level identifier *)
              end
  | SConst _ => true
  | SOp1 _ a => hyp m dom bs a
  | SOp2 _ a b => hyp m dom bs a && hyp m dom bs b
  | SLet b i body => fresh_b m b && hyp m dom bs i && hyp m dom (b :: bs) body
  | SClo b body a => fresh_b m b && hyp m dom (b :: bs) body && hyp m dom bs a
  | SMatch s b body => fresh_b m b && hyp m dom bs s && hyp m dom (b :: bs) body
  | SMatchG s b g body els => fresh_b m b && hyp m dom bs s && hyp m dom (b :: bs) g && hyp m dom (b :: bs) body && hyp m dom bs els
  | SIfLet b s thn els => fresh_b m b && hyp m dom bs s && hyp m dom (b :: bs) thn && hyp m dom bs els
  | SFor b bd body => fresh_b m b && hyp m dom bs bd && hyp m dom (b :: bs) body
  end.

(* history (the code before fix e64116b, walk_before_fix: guards outside the arm's scope; no theorem about the code as it is
   needs this any more): the extra hypothesis under which that walk agrees with Rust's scoping: no guard mentions, under the spelling of its arm's binder, an identifier that the mapping renames *)
Fixpoint occurs_mapped (m : mapping) (n : string) (e : sx) : bool :=
  match e with
  | SVar i => String.eqb (iname i) n && match mlook m i with Some _ => true | None => false end
  | SConst _ => false
  | SOp1 _ a => occurs_mapped m n a
  | SOp2 _ a b => occurs_mapped m n a || occurs_mapped m n b
  | SLet _ i body => occurs_mapped m n i || occurs_mapped m n body
  | SClo _ body a => occurs_mapped m n body || occurs_mapped m n a
  | SMatch s _ body => occurs_mapped m n s || occurs_mapped m n body
  | SMatchG s _ g body els => occurs_mapped m n s || occurs_mapped m n g || occurs_mapped m n body || occurs_mapped m n els
  | SIfLet _ s thn els => occurs_mapped m n s || occurs_mapped m n thn || occurs_mapped m n els
  | SFor _ bd body => occurs_mapped m n bd || occurs_mapped m n body
  end.

Fixpoint guards_ok (m : mapping) (e : sx) : bool :=
  match e with
  | SVar _ | SConst _ => true
  | SOp1 _ a => guards_ok m a
  | SOp2 _ a b => guards_ok m a && guards_ok m b
  | SLet _ i body => guards_ok m i && guards_ok m body
  | SClo _ body a => guards_ok m body && guards_ok m a
  | SMatch s _ body => guards_ok m s && guards_ok m body
  | SMatchG s b g body els => negb (occurs_mapped m (iname b) g) && guards_ok m s && guards_ok m g && guards_ok m body && guards_ok m els
  | SIfLet _ s thn els => guards_ok m s && guards_ok m thn && guards_ok m els
  | SFor _ bd body => guards_ok m bd && guards_ok m body
  end.

Definition ren_env (m : mapping) (en : env) : env := map (fun p => (ren_ident m (fst p), snd p)) en.
Definition names (en : env) : list string := map (fun p => iname (fst p)) en.

(* ------------------------------------------------------------------ proofs *)

Lemma same_id_true : forall i j, same_id i j = true -> i = j.
Proof.
  intros [a x] [b y]; unfold same_id, iname, iorg; cbn [fst snd]; intro H.
  apply andb_true_iff in H; destruct H as [H1 H2].
  apply String.eqb_eq in H1; apply Nat.eqb_eq in H2; subst; reflexivity.
Qed.

Lemma same_id_refl : forall i, same_id i i = true.
Proof. intros [a x]; unfold same_id; cbn. rewrite String.eqb_refl, Nat.eqb_refl. reflexivity. Qed.

Lemma same_id_names : forall i j, String.eqb (iname i) (iname j) = false -> same_id i j = false.
Proof. intros i j H; unfold same_id; rewrite H; reflexivity. Qed.

Lemma mem_names_first : forall n (inner : env), mem n (names inner) = match first_named n (map fst inner) with Some _ => true | None => false end.
Proof.
  intros n inner; induction inner as [|[j z] r IH]; cbn [names map mem first_named fst]; [reflexivity|].
  destruct (String.eqb (iname j) n); cbn; [reflexivity|exact IH].
Qed.

Lemma mlook_in : forall m i s, mlook m i = Some s -> In s (map snd m).
Proof.
  induction m as [|[j t] r IH]; cbn; intros i s H; [discriminate|].
  destruct (same_id j i); [inversion H; left; reflexivity | right; eapply IH; exact H].
Qed.

Lemma mem_In : forall x l, mem x l = true <-> In x l.
Proof.
  intros x l; induction l as [|y r IH]; cbn; [split; [discriminate|tauto]|].
  rewrite orb_true_iff, IH, String.eqb_eq. tauto.
Qed.

(* an occurrence that an expression-level binder of its own identity binds: both readings find that binder *)
Lemma lookup_inner : forall (inner : env) i b X Y,
  first_named (iname i) (map fst inner) = Some b -> ident_eqb b i = true ->
  lookup same_nm (inner ++ X) i = lookup same_id (inner ++ Y) i.
Proof.
  induction inner as [|[j z] r IH]; cbn [map fst first_named app lookup]; intros i b X Y Hf Hb; [discriminate|].
  unfold same_nm at 1.
  destruct (String.eqb (iname j) (iname i)) eqn:En.
  - inversion Hf; subst b. unfold ident_eqb in Hb. rewrite Hb. reflexivity.
  - rewrite (same_id_names _ _ En). eapply IH; eassumption.
Qed.

(* no expression-level binder has the spelling n: the lookup falls through to the rule level *)
Lemma lookup_skip_nm : forall (inner : env) i X,
  mem (iname i) (names inner) = false -> lookup same_nm (inner ++ X) i = lookup same_nm X i.
Proof.
  induction inner as [|[j z] r IH]; cbn [names map mem app lookup fst]; intros i X H; [reflexivity|].
  apply orb_false_iff in H; destruct H as [H1 H2]. unfold same_nm at 1. rewrite H1. apply IH; exact H2.
Qed.

Lemma lookup_skip_id : forall (inner : env) i X,
  mem (iname i) (names inner) = false -> lookup same_id (inner ++ X) i = lookup same_id X i.
Proof.
  induction inner as [|[j z] r IH]; cbn [names map mem app lookup fst]; intros i X H; [reflexivity|].
  apply orb_false_iff in H; destruct H as [H1 H2]. rewrite (same_id_names _ _ H1). apply IH; exact H2.
Qed.

Lemma lookup_outer : forall m (outer : env) i,
  unamb m (map fst outer) i = true ->
  lookup same_nm (ren_env m outer) (ren_ident m i) = lookup same_id outer i.
Proof.
  induction outer as [|[j z] r IH]; cbn [ren_env map fst snd lookup unamb forallb]; intros i H; [reflexivity|].
  apply andb_true_iff in H; destruct H as [H1 H2].
  unfold same_nm at 1.
  destruct (String.eqb (iname (ren_ident m j)) (iname (ren_ident m i))) eqn:En.
  - cbn in H1. unfold ident_eqb in H1. rewrite H1. reflexivity.
  - destruct (same_id j i) eqn:Es.
    + apply same_id_true in Es; subst j. rewrite String.eqb_refl in En. discriminate.
    + apply IH. exact H2.
Qed.

Lemma sum_opt_ext : forall (f g : Z -> option Z) l, (forall k, f k = g k) -> sum_opt (map f l) = sum_opt (map g l).
Proof. intros f g l H; induction l as [|x r IH]; cbn; [reflexivity|]. rewrite H, IH. reflexivity. Qed.

Definition fresh_env (m : mapping) (inner : env) : Prop := forall n, In n (map snd m) -> mem n (names inner) = false.

Lemma fresh_env_cons : forall m inner b z, fresh_env m inner -> fresh_b m b = true -> fresh_env m ((b, z) :: inner).
Proof.
  intros m inner b z H Hb n Hn. change (names ((b, z) :: inner)) with (iname b :: names inner). cbn [mem].
  rewrite (H n Hn), orb_false_r.
  unfold fresh_b in Hb. apply negb_true_iff in Hb.
  destruct (String.eqb (iname b) n) eqn:E; [|reflexivity].
  apply String.eqb_eq in E; subst n. apply mem_In in Hn. rewrite Hn in Hb. discriminate.
Qed.

(* the main lemma, with the expression-level environment `inner` of the enclosing binders *)
Lemma ren_sound_gen : forall m outer e inner,
  fresh_env m inner ->
  hyp m (map fst outer) (map fst inner) e = true ->
  eval same_nm (inner ++ ren_env m outer) (ren rust_walk m (names inner) e) = eval same_id (inner ++ outer) e.
Proof.
  intros m outer e; induction e; intros inner Hfr H; cbn [hyp] in H; cbn [ren eval rust_walk let_binds_init guard_in_arm_scope push].
  - (* SVar *)
    rewrite mem_names_first. destruct (first_named (iname i) (map fst inner)) as [b|] eqn:Ef.
    + cbn [eval]. eapply lookup_inner; eassumption.
    + cbn [eval].
      assert (Hm : mem (iname i) (names inner) = false) by (rewrite mem_names_first, Ef; reflexivity).
      rewrite (lookup_skip_id _ _ _ Hm).
      assert (Hm' : mem (iname (ren_ident m i)) (names inner) = false).
      { unfold ren_ident. destruct (mlook m i) as [s|] eqn:El; [|exact Hm].
        cbn [iname fst]. apply Hfr. eapply mlook_in; exact El. }
      rewrite (lookup_skip_nm _ _ _ Hm'). apply lookup_outer. exact H.
  - reflexivity.
  - rewrite (IHe inner Hfr H). reflexivity.
  - apply andb_true_iff in H; destruct H as [H1 H2]. rewrite (IHe1 inner Hfr H1), (IHe2 inner Hfr H2). reflexivity.
  - (* SLet *)
    apply andb_true_iff in H; destruct H as [H H3]. apply andb_true_iff in H; destruct H as [H1 H2].
    rewrite (IHe1 inner Hfr H2). destruct (eval same_id (inner ++ outer) e1) as [v|]; [|reflexivity].
    exact (IHe2 ((b, v) :: inner) (fresh_env_cons _ _ _ _ Hfr H1) H3).
  - (* SClo *)
    apply andb_true_iff in H; destruct H as [H H3]. apply andb_true_iff in H; destruct H as [H1 H2].
    rewrite (IHe2 inner Hfr H3). destruct (eval same_id (inner ++ outer) e2) as [v|]; [|reflexivity].
    exact (IHe1 ((b, v) :: inner) (fresh_env_cons _ _ _ _ Hfr H1) H2).
  - (* SMatch *)
    apply andb_true_iff in H; destruct H as [H H3]. apply andb_true_iff in H; destruct H as [H1 H2].
    rewrite (IHe1 inner Hfr H2). destruct (eval same_id (inner ++ outer) e1) as [v|]; [|reflexivity].
    exact (IHe2 ((b, v) :: inner) (fresh_env_cons _ _ _ _ Hfr H1) H3).
  - (* SMatchG *)
    apply andb_true_iff in H; destruct H as [H H5]. apply andb_true_iff in H; destruct H as [H H4].
    apply andb_true_iff in H; destruct H as [H H3]. apply andb_true_iff in H; destruct H as [H1 H2].
    rewrite (IHe1 inner Hfr H2). destruct (eval same_id (inner ++ outer) e1) as [v|]; [|reflexivity].
    pose proof (fresh_env_cons _ _ b v Hfr H1) as Hfr'.
    assert (E2 : eval same_nm ((b, v) :: inner ++ ren_env m outer) (ren rust_walk m (iname b :: names inner) e2) = eval same_id ((b, v) :: inner ++ outer) e2)
      by exact (IHe2 ((b, v) :: inner) Hfr' H3).
    assert (E3 : eval same_nm ((b, v) :: inner ++ ren_env m outer) (ren rust_walk m (iname b :: names inner) e3) = eval same_id ((b, v) :: inner ++ outer) e3)
      by exact (IHe3 ((b, v) :: inner) Hfr' H4).
    rewrite E2, E3, (IHe4 inner Hfr H5). reflexivity.
  - (* SIfLet *)
    apply andb_true_iff in H; destruct H as [H H4]. apply andb_true_iff in H; destruct H as [H H3].
    apply andb_true_iff in H; destruct H as [H1 H2].
    rewrite (IHe1 inner Hfr H2). destruct (eval same_id (inner ++ outer) e1) as [v|]; [|reflexivity].
    assert (E2 : eval same_nm ((b, (v / 2)%Z) :: inner ++ ren_env m outer) (ren rust_walk m (iname b :: names inner) e2) = eval same_id ((b, (v / 2)%Z) :: inner ++ outer) e2)
      by exact (IHe2 ((b, (v / 2)%Z) :: inner) (fresh_env_cons _ _ _ _ Hfr H1) H3).
    rewrite E2, (IHe3 inner Hfr H4). reflexivity.
  - (* SFor *)
    apply andb_true_iff in H; destruct H as [H H3]. apply andb_true_iff in H; destruct H as [H1 H2].
    rewrite (IHe1 inner Hfr H2). destruct (eval same_id (inner ++ outer) e1) as [v|]; [|reflexivity].
    rewrite (sum_opt_ext (fun k => eval same_nm ((b, k) :: inner ++ ren_env m outer) (ren rust_walk m (iname b :: names inner) e2))
                         (fun k => eval same_id ((b, k) :: inner ++ outer) e2)).
    + reflexivity.
    + intro k. exact (IHe2 ((b, k) :: inner) (fresh_env_cons _ _ _ _ Hfr H1) H3).
Qed.

(* No capture: under Rust's scoping, renaming the free occurrences of the macro locals (and the rule-level binders, ren_env)
   and reading the result by spelling alone is the hygienic reading of the expression *)
Theorem ren_sound : forall m outer e,
  hyp m (map fst outer) [] e = true ->
  eval same_nm (ren_env m outer) (ren rust_walk m [] e) = eval same_id outer e.
Proof.
  intros m outer e H. apply (ren_sound_gen m outer e []); [intros n _; reflexivity | exact H].
Qed.

(* two sets of spellings that differ at most on n give the same renaming of e if e has no renamed identifier spelled n *)
Lemma ren_bound_irrelevant : forall c m n e bound bound',
  (forall x, String.eqb x n = false -> mem x bound' = mem x bound) ->
  occurs_mapped m n e = false ->
  ren c m bound' e = ren c m bound e.
Proof.
  intros c m n e; induction e; intros bound bound' Hb Ho; cbn [occurs_mapped] in Ho; cbn [ren];
    repeat match goal with H : (_ || _) = false |- _ => apply orb_false_iff in H; destruct H end.
  - destruct (String.eqb (iname i) n) eqn:En.
    + cbn in Ho. unfold ren_ident. destruct (mlook m i); [discriminate|].
      destruct (mem (iname i) bound'), (mem (iname i) bound); reflexivity.
    + rewrite (Hb _ En). reflexivity.
  - reflexivity.
  - rewrite (IHe bound bound'); auto.
  - rewrite (IHe1 bound bound'), (IHe2 bound bound'); auto.
  - rewrite (IHe1 (push (let_binds_init c) b bound) (push (let_binds_init c) b bound')), (IHe2 (iname b :: bound) (iname b :: bound')); auto.
    + intros x Hx; cbn [mem]; rewrite (Hb x Hx); reflexivity.
    + intros x Hx; unfold push; destruct (let_binds_init c); [cbn [mem]; rewrite (Hb x Hx); reflexivity | exact (Hb x Hx)].
  - rewrite (IHe1 (iname b :: bound) (iname b :: bound')), (IHe2 bound bound'); auto.
    intros x Hx; cbn [mem]; rewrite (Hb x Hx); reflexivity.
  - rewrite (IHe1 bound bound'), (IHe2 (iname b :: bound) (iname b :: bound')); auto.
    intros x Hx; cbn [mem]; rewrite (Hb x Hx); reflexivity.
  - rewrite (IHe1 bound bound'), (IHe2 (push (guard_in_arm_scope c) b bound) (push (guard_in_arm_scope c) b bound')),
      (IHe3 (iname b :: bound) (iname b :: bound')), (IHe4 bound bound'); auto.
    + intros x Hx; cbn [mem]; rewrite (Hb x Hx); reflexivity.
    + intros x Hx; unfold push; destruct (guard_in_arm_scope c); [cbn [mem]; rewrite (Hb x Hx); reflexivity | exact (Hb x Hx)].
  - rewrite (IHe1 bound bound'), (IHe2 (iname b :: bound) (iname b :: bound')), (IHe3 bound bound'); auto.
    intros x Hx; cbn [mem]; rewrite (Hb x Hx); reflexivity.
  - rewrite (IHe1 bound bound'), (IHe2 (iname b :: bound) (iname b :: bound')); auto.
    intros x Hx; cbn [mem]; rewrite (Hb x Hx); reflexivity.
Qed.

(* the walk of the code before fix e64116b and the walk with Rust's scoping rename alike when guards_ok holds *)
Lemma before_fix_agrees : forall m e bound, guards_ok m e = true -> ren walk_before_fix m bound e = ren rust_walk m bound e.
Proof.
  intros m e; induction e; intros bound H; cbn [guards_ok] in H; cbn [ren walk_before_fix rust_walk let_binds_init guard_in_arm_scope push];
    repeat match goal with H : (_ && _) = true |- _ => apply andb_true_iff in H; destruct H end;
    try reflexivity.
  - rewrite IHe; auto.
  - rewrite IHe1, IHe2; auto.
  - rewrite IHe1, IHe2; auto.
  - rewrite IHe1, IHe2; auto.
  - rewrite IHe1, IHe2; auto.
  - rewrite IHe1, IHe2, IHe3, IHe4; auto.
    f_equal. symmetry. apply (ren_bound_irrelevant rust_walk m (iname b)).
    + intros x Hx. cbn [mem]. rewrite String.eqb_sym in Hx. rewrite Hx. reflexivity.
    + match goal with H : negb _ = true |- _ => apply negb_true_iff in H; exact H end.
  - rewrite IHe1, IHe2, IHe3; auto.
  - rewrite IHe1, IHe2; auto.
Qed.

(* the code as it is (since e64116b its walk IS Rust's scoping): no capture *)
Theorem ren_sound_real : forall m outer e,
  hyp m (map fst outer) [] e = true ->
  eval same_nm (ren_env m outer) (ren real_walk m [] e) = eval same_id outer e.
Proof. exact ren_sound. Qed.

Lemma real_walk_is_rust_scoping : forall m e bound, ren real_walk m bound e = ren rust_walk m bound e.
Proof. reflexivity. Qed.

(* history: the code before e64116b was free of capture only when, in addition, no guard mentioned a renamed identifier under
   its arm binder's spelling *)
Theorem ren_sound_before_fix : forall m outer e,
  hyp m (map fst outer) [] e = true -> guards_ok m e = true ->
  eval same_nm (ren_env m outer) (ren walk_before_fix m [] e) = eval same_id outer e.
Proof. intros m outer e H G. rewrite (before_fix_agrees m e [] G). apply ren_sound; exact H. Qed.

(* ren renames exactly the free occurrences (those the mapping knows), nothing else, and leaves the binders alone *)
Lemma ren_occs : forall c m e bound,
  map fst (occs c bound (ren c m bound e)) = map (fun p : ident * bool => if snd p then ren_ident m (fst p) else fst p) (occs c bound e).
Proof.
  intros c m e; induction e; intro bound; cbn [ren occs]; repeat rewrite !map_app;
    repeat match goal with IH : forall bound, map fst (occs _ bound (ren _ _ bound ?x)) = _ |- _ => rewrite IH; clear IH end;
    try reflexivity.
  destruct (mem (iname i) bound); reflexivity.
Qed.

Lemma ren_binders : forall c m e bound, binders (ren c m bound e) = binders e.
Proof.
  intros c m e; induction e; intro bound; cbn [ren binders];
    repeat match goal with IH : forall bound, binders (ren _ _ bound ?x) = _ |- _ => rewrite IH; clear IH end; try reflexivity.
  destruct (mem (iname i) bound); reflexivity.
Qed.

(* what Rust's scoping says about each binder, as equations on free_occs *)
Lemma free_occs_app : forall (a b : list (ident * bool)),
  map fst (filter (fun p => snd p) (a ++ b)) = map fst (filter (fun p => snd p) a) ++ map fst (filter (fun p => snd p) b).
Proof. intros a b. rewrite filter_app, map_app. reflexivity. Qed.

Lemma free_occs_var : forall c bound i, free_occs c bound (SVar i) = if mem (iname i) bound then [] else [i].
Proof. intros c bound i. unfold free_occs. cbn. destruct (mem (iname i) bound); reflexivity. Qed.

(* the initialiser of a let is OUTSIDE the scope of that let *)
Lemma free_occs_let : forall bound b i body,
  free_occs rust_walk bound (SLet b i body) = free_occs rust_walk bound i ++ free_occs rust_walk (iname b :: bound) body.
Proof. intros. unfold free_occs. cbn [occs rust_walk let_binds_init push]. apply free_occs_app. Qed.

(* a closure parameter scopes over the closure body only, not over the argument it is applied to *)
Lemma free_occs_clo : forall bound b body a,
  free_occs rust_walk bound (SClo b body a) = free_occs rust_walk (iname b :: bound) body ++ free_occs rust_walk bound a.
Proof. intros. unfold free_occs. cbn [occs]. apply free_occs_app. Qed.

(* a match arm's binder scopes over its guard and its body, not over the scrutinee nor over the other arms *)
Lemma free_occs_match : forall bound s b body,
  free_occs rust_walk bound (SMatch s b body) = free_occs rust_walk bound s ++ free_occs rust_walk (iname b :: bound) body.
Proof. intros. unfold free_occs. cbn [occs]. apply free_occs_app. Qed.

Lemma free_occs_matchg : forall bound s b g body els,
  free_occs rust_walk bound (SMatchG s b g body els) =
  free_occs rust_walk bound s ++ free_occs rust_walk (iname b :: bound) g ++ free_occs rust_walk (iname b :: bound) body ++ free_occs rust_walk bound els.
Proof. intros. unfold free_occs. cbn [occs rust_walk guard_in_arm_scope push]. rewrite !free_occs_app. reflexivity. Qed.

(* the binder of `if let` scopes over the then-block only *)
Lemma free_occs_iflet : forall bound b s thn els,
  free_occs rust_walk bound (SIfLet b s thn els) = free_occs rust_walk bound s ++ free_occs rust_walk (iname b :: bound) thn ++ free_occs rust_walk bound els.
Proof. intros. unfold free_occs. cbn [occs]. rewrite !free_occs_app. reflexivity. Qed.

(* the binder of `for` scopes over the loop body only *)
Lemma free_occs_for : forall bound b bd body,
  free_occs rust_walk bound (SFor b bd body) = free_occs rust_walk bound bd ++ free_occs rust_walk (iname b :: bound) body.
Proof. intros. unfold free_occs. cbn [occs]. apply free_occs_app. Qed.

(* ------------------------------------------------------------------ witnesses of the refuted variants *)

Definition X0 : ident := ("x", 0%nat).
Definition X1 : ident := ("x", 1%nat).
Definition w_map : mapping := [(X1, "__x_")].
Definition w_outer : env := [(X1, 10%Z); (X0, 1%Z)].

(* { let x = incs(x); x } in the body of a macro whose local is x, next to a call-site x *)
Definition w_shadow : sx := SLet X1 (SOp1 0 (SVar X1)) (SVar X1).
(* match 0 { x if x > 0 => 5, _ => 6 } : the guard reads the arm's x *)
Definition w_guard : sx := SMatchG (SConst 0) X1 (SVar X1) (SConst 5) (SConst 6).
(* { let x = 5; addm(x, <the call site's x, passed as an argument>) } : the macro's let above an identifier of the actual *)
Definition w_capture : sx := SLet X1 (SConst 5) (SOp2 1 (SVar X1) (SVar X0)).

(* what the three walks make of { let x = incs(x); x } *)
Lemma shadow_example :
  ren real_walk w_map [] w_shadow = SLet X1 (SOp1 0 (SVar ("__x_", 1%nat))) (SVar X1)
  /\ ren rust_walk w_map [] w_shadow = ren real_walk w_map [] w_shadow
  /\ ren seed_walk w_map [] w_shadow = w_shadow
  /\ free_occs rust_walk [] w_shadow = [X1] /\ free_occs seed_walk [] w_shadow = []
  /\ eval same_id w_outer w_shadow = Some 7%Z
  /\ eval same_nm (ren_env w_map w_outer) (ren real_walk w_map [] w_shadow) = Some 7%Z
  /\ eval same_nm (ren_env w_map w_outer) (ren seed_walk w_map [] w_shadow) = Some 2%Z.
Proof. vm_compute. repeat split; reflexivity. Qed.

(* REFUTED variant: a let that binds inside its own initialiser (the hypothesis of ren_sound_real holds) *)
Lemma seed_walk_refuted : exists m outer e,
  hyp m (map fst outer) [] e = true
  /\ eval same_nm (ren_env m outer) (ren seed_walk m [] e) <> eval same_id outer e.
Proof. exists w_map, w_outer, w_shadow. split; [reflexivity|]. vm_compute. discriminate. Qed.

(* REFUTED variant, history: the code before e64116b without guards_ok — the guard's x is the arm's, that walk offered it to the
   renaming; the code as it is gets the witness right *)
Lemma before_fix_guard_refuted : exists m outer e,
  hyp m (map fst outer) [] e = true
  /\ eval same_nm (ren_env m outer) (ren real_walk m [] e) = eval same_id outer e
  /\ eval same_nm (ren_env m outer) (ren walk_before_fix m [] e) <> eval same_id outer e.
Proof. exists w_map, w_outer, w_guard. split; [reflexivity|]. split; [reflexivity|]. vm_compute. discriminate. Qed.

(* without hyp: a binder written in the macro body above an identifier of the actual; no walk helps, the binders of
   expressions are not renamed *)
Lemma expression_binder_captures_refuted : exists m outer e,
  hyp m (map fst outer) [] e = false
  /\ ren real_walk m [] e = e /\ ren walk_before_fix m [] e = e
  /\ eval same_nm (ren_env m outer) e <> eval same_id outer e.
Proof. exists w_map, w_outer, w_capture. repeat (split; [reflexivity|]). vm_compute. discriminate. Qed.

Lemma ren_spec : forall c m e bound,
  map fst (occs c bound (ren c m bound e)) = map (fun p : ident * bool => if snd p then ren_ident m (fst p) else fst p) (occs c bound e)
  /\ binders (ren c m bound e) = binders e.
Proof. intros c m e bound. split; [exact (ren_occs c m e bound) | exact (ren_binders c m e bound)]. Qed.

(* ------------------------------------------------------------------ several invocations: one renaming pass per invocation *)

Definition apart (m1 m2 : mapping) : Prop := forall i s, In (i, s) m1 -> mlook m2 (s, iorg i) = None.

Lemma mlook_In_pair : forall m i s, mlook m i = Some s -> In (i, s) m.
Proof.
  induction m as [|[j t] r IH]; cbn [mlook]; intros i s H; [discriminate|].
  destruct (same_id j i) eqn:E.
  - apply same_id_true in E; subst j. inversion H; subst. left; reflexivity.
  - right. apply IH; exact H.
Qed.

Lemma mlook_app : forall m1 m2 i, mlook (m1 ++ m2) i = match mlook m1 i with Some s => Some s | None => mlook m2 i end.
Proof.
  induction m1 as [|[j t] r IH]; intros m2 i; cbn [app mlook]; [reflexivity|].
  destruct (same_id j i); [reflexivity | apply IH].
Qed.

Lemma ren_ident_compose : forall m1 m2 i, apart m1 m2 -> ren_ident m2 (ren_ident m1 i) = ren_ident (m1 ++ m2) i.
Proof.
  intros m1 m2 i A. unfold ren_ident at 2 3. rewrite mlook_app.
  destruct (mlook m1 i) as [s|] eqn:E.
  - unfold ren_ident. rewrite (A i s (mlook_In_pair _ _ _ E)). reflexivity.
  - reflexivity.
Qed.

(* the pass of the enclosing invocation after the pass of a nested one = one pass with both mappings *)
Lemma ren_compose : forall c m1 m2 e bound,
  apart m1 m2 ->
  (forall n, In n (map snd m1) -> mem n bound = false) ->
  (forall b, In b (binders e) -> fresh_b m1 b = true) ->
  ren c m2 bound (ren c m1 bound e) = ren c (m1 ++ m2) bound e.
Proof.
  intros c m1 m2 e; induction e; intros bound A Hb Hf; cbn [ren binders] in *.
  - destruct (mem (iname i) bound) eqn:Em; cbn [ren]; [rewrite Em; reflexivity|].
    assert (Em' : mem (iname (ren_ident m1 i)) bound = false).
    { unfold ren_ident. destruct (mlook m1 i) as [s|] eqn:El; [|exact Em]. cbn [iname fst]. apply Hb. eapply mlook_in; exact El. }
    rewrite Em'. rewrite ren_ident_compose; [reflexivity | exact A].
  - reflexivity.
  - rewrite IHe; auto.
  - rewrite IHe1, IHe2; auto; intros; apply Hf; apply in_or_app; auto.
  - assert (Hb' : forall n, In n (map snd m1) -> mem n (iname b :: bound) = false).
    { intros n Hn. cbn [mem]. rewrite (Hb n Hn), orb_false_r. pose proof (Hf b (or_introl eq_refl)) as F.
      unfold fresh_b in F. apply negb_true_iff in F. destruct (String.eqb (iname b) n) eqn:E; [|reflexivity].
      apply String.eqb_eq in E; subst n. apply mem_In in Hn. rewrite Hn in F. discriminate. }
    rewrite IHe1, IHe2; auto.
    + intros; apply Hf; right; apply in_or_app; auto.
    + unfold push; destruct (let_binds_init c); [exact Hb' | exact Hb].
    + intros; apply Hf; right; apply in_or_app; auto.
  - assert (Hb' : forall n, In n (map snd m1) -> mem n (iname b :: bound) = false).
    { intros n Hn. cbn [mem]. rewrite (Hb n Hn), orb_false_r. pose proof (Hf b (or_introl eq_refl)) as F.
      unfold fresh_b in F. apply negb_true_iff in F. destruct (String.eqb (iname b) n) eqn:E; [|reflexivity].
      apply String.eqb_eq in E; subst n. apply mem_In in Hn. rewrite Hn in F. discriminate. }
    rewrite IHe1, IHe2; auto; intros; apply Hf; right; apply in_or_app; auto.
  - assert (Hb' : forall n, In n (map snd m1) -> mem n (iname b :: bound) = false).
    { intros n Hn. cbn [mem]. rewrite (Hb n Hn), orb_false_r. pose proof (Hf b (or_introl eq_refl)) as F.
      unfold fresh_b in F. apply negb_true_iff in F. destruct (String.eqb (iname b) n) eqn:E; [|reflexivity].
      apply String.eqb_eq in E; subst n. apply mem_In in Hn. rewrite Hn in F. discriminate. }
    rewrite IHe1, IHe2; auto; intros; apply Hf; right; apply in_or_app; auto.
  - assert (Hb' : forall n, In n (map snd m1) -> mem n (iname b :: bound) = false).
    { intros n Hn. cbn [mem]. rewrite (Hb n Hn), orb_false_r. pose proof (Hf b (or_introl eq_refl)) as F.
      unfold fresh_b in F. apply negb_true_iff in F. destruct (String.eqb (iname b) n) eqn:E; [|reflexivity].
      apply String.eqb_eq in E; subst n. apply mem_In in Hn. rewrite Hn in F. discriminate. }
    rewrite IHe1, IHe2, IHe3, IHe4; auto.
    + intros; apply Hf; right; apply in_or_app; right; apply in_or_app; right; apply in_or_app; auto.
    + intros; apply Hf; right; apply in_or_app; right; apply in_or_app; right; apply in_or_app; auto.
    + unfold push; destruct (guard_in_arm_scope c); [exact Hb' | exact Hb].
    + intros; apply Hf; right; apply in_or_app; right; apply in_or_app; auto.
    + intros; apply Hf; right; apply in_or_app; auto.
  - assert (Hb' : forall n, In n (map snd m1) -> mem n (iname b :: bound) = false).
    { intros n Hn. cbn [mem]. rewrite (Hb n Hn), orb_false_r. pose proof (Hf b (or_introl eq_refl)) as F.
      unfold fresh_b in F. apply negb_true_iff in F. destruct (String.eqb (iname b) n) eqn:E; [|reflexivity].
      apply String.eqb_eq in E; subst n. apply mem_In in Hn. rewrite Hn in F. discriminate. }
    rewrite IHe1, IHe2, IHe3; auto.
    + intros; apply Hf; right; apply in_or_app; right; apply in_or_app; auto.
    + intros; apply Hf; right; apply in_or_app; right; apply in_or_app; auto.
    + intros; apply Hf; right; apply in_or_app; auto.
  - assert (Hb' : forall n, In n (map snd m1) -> mem n (iname b :: bound) = false).
    { intros n Hn. cbn [mem]. rewrite (Hb n Hn), orb_false_r. pose proof (Hf b (or_introl eq_refl)) as F.
      unfold fresh_b in F. apply negb_true_iff in F. destruct (String.eqb (iname b) n) eqn:E; [|reflexivity].
      apply String.eqb_eq in E; subst n. apply mem_In in Hn. rewrite Hn in F. discriminate. }
    rewrite IHe1, IHe2; auto; intros; apply Hf; right; apply in_or_app; auto.
Qed.

Lemma ren_env_compose : forall m1 m2 outer, apart m1 m2 -> ren_env m2 (ren_env m1 outer) = ren_env (m1 ++ m2) outer.
Proof.
  intros m1 m2 outer A. unfold ren_env. rewrite map_map. apply map_ext. intros [j z]. cbn [fst snd].
  rewrite ren_ident_compose; [reflexivity | exact A].
Qed.

Lemma hyp_fresh_binders : forall m dom e bs, hyp m dom bs e = true -> forall b, In b (binders e) -> fresh_b m b = true.
Proof.
  intros m dom e; induction e; intros bs H b0 Hin; cbn [hyp binders] in *;
    repeat match goal with H : (_ && _) = true |- _ => apply andb_true_iff in H; destruct H end;
    repeat match goal with
           | H : In _ (_ :: _) |- _ => destruct H as [H|H]; [subst; assumption|]
           | H : In _ (_ ++ _) |- _ => apply in_app_or in H; destruct H as [H|H]
           end;
    try contradiction; eauto.
Qed.

Lemma fresh_app_l : forall m1 m2 b, fresh_b (m1 ++ m2) b = true -> fresh_b m1 b = true.
Proof.
  intros m1 m2 b H. unfold fresh_b in *. apply negb_true_iff in H. apply negb_true_iff.
  destruct (mem (iname b) (map snd m1)) eqn:E; [|reflexivity].
  apply mem_In in E. assert (In (iname b) (map snd (m1 ++ m2))) by (rewrite map_app; apply in_or_app; left; exact E).
  apply mem_In in H0. rewrite H0 in H. discriminate.
Qed.

(* NO CAPTURE for two invocations (a nested one first, then the enclosing one; or two invocations of one rule): the passes
   one after the other are the single pass of ren_sound with both mappings, when the names generated by the first pass are
   not renamed again by the second *)
Theorem ren_sound_two_passes : forall m1 m2 outer e,
  apart m1 m2 ->
  hyp (m1 ++ m2) (map fst outer) [] e = true ->
  eval same_nm (ren_env m2 (ren_env m1 outer)) (ren rust_walk m2 [] (ren rust_walk m1 [] e)) = eval same_id outer e.
Proof.
  intros m1 m2 outer e A H.
  rewrite ren_env_compose by exact A.
  rewrite ren_compose.
  - apply ren_sound; exact H.
  - exact A.
  - intros n _; reflexivity.
  - intros b Hb. eapply fresh_app_l. eapply hyp_fresh_binders; eassumption.
Qed.
