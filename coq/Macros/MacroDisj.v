(* C08 — disjunctions inside macro bodies: which occurrence decides the renaming.

   body_items_rename_macro_originated_vars collects the bound variables of the expanded items with
   body_item_get_bound_vars — a list with ONE ENTRY PER OCCURRENCE; a disjunction contributes the occurrences of all its
   disjuncts (MacroModel.bv_item, arm IDisj) — and asks of every occurrence, from its span, whether it was written in
   the macro body (MacroModel.org_is).  After the parameters are replaced by the actuals the list can hold ONE SPELLING
   WITH TWO ORIGINS (the call site passed an identifier spelled like a macro local for a parameter that stands in a
   binding position): `macro m0($p0) { (e0($p0, t), u0(t) | u1($p0)) }` invoked as `m0!(t)` gives the list
   [t@call; t@m0; t@m0; t@call].  The spelling is renamed iff SOME occurrence of the list carries the macro's origin
   ([originated_iff]); the order of the occurrences and what else is spelled alike do not matter.

   [bv_item_uniq] is the variant that reports every spelling of a disjunction once, the first occurrence standing for the
   others (`.unique()` on identifiers, whose equality ignores the span): when the call-site occurrence comes first the
   macro-origin occurrences disappear from the list, nothing is renamed and the local is captured.  The variant is not
   hygienic on a table and rule inside the hypotheses of the hygiene theorem ([refuted_disjunction_dedup]); the faithful
   expansion renames the local whatever the call site passes ([disj_local_renamed]).
   (A statement about a variant of the model, not about the code; the tie runs the family gen/c08_disj.py on every check.) *)
From Coq Require Import List String Ascii ZArith Bool Arith Lia.
From AV Require Import Macros.MacroModel.
From AV Require Import Macros.MacroLemmas.
From AV Require Import Macros.MacroNames.
From AV Require Import Macros.MacroProofs.
From AV Require Import Macros.MacroRefuted.
Import ListNotations.
Open Scope string_scope.
Open Scope list_scope.

(* ---------------------------------------------------------------- the decision is per occurrence *)
Lemma originated_iff m l s :
  In s (originated m l) <-> exists i, In i (bv_items l) /\ org_is m i = true /\ iname i = s.
Proof.
  unfold originated. rewrite dedup_str_in, in_map_iff. split.
  - intros (i & <- & Hi). apply filter_In in Hi as (Hi & Ho). exists i. auto.
  - intros (i & Hi & Ho & <-). exists i. split; [reflexivity|]. apply filter_In. auto.
Qed.

(* a disjunction contributes the occurrences of every disjunct, at any depth *)
Lemma bv_disj_in alts i : In i (bv_item (IDisj alts)) <-> exists alt it, In alt alts /\ In it alt /\ In i (bv_item it).
Proof.
  simpl. rewrite in_flat_map_iff. split.
  - intros (alt & Ha & Hi). apply in_flat_map_iff in Hi as (it & Hit & Hi). eauto.
  - intros (alt & it & Ha & Hit & Hi). exists alt. split; [exact Ha|]. apply in_flat_map_iff. eauto.
Qed.

(* hence: an identifier written in the body of m that stands in a binding position of some disjunct of some item is
   renamed, whatever else (of whatever origin, before or after it) is spelled like it *)
Lemma originated_in_disjunct m l alts alt it i :
  In (IDisj alts) l -> In alt alts -> In it alt -> In i (bv_item it) -> org_is m i = true -> In (iname i) (originated m l).
Proof.
  intros Hl Ha Hit Hi Ho. apply originated_iff. exists i. split; [|auto].
  unfold bv_items. apply in_flat_map_iff. exists (IDisj alts). split; [exact Hl|]. apply bv_disj_in. eauto.
Qed.

(* ---------------------------------------------------------------- the variant: one entry per SPELLING of a disjunction *)
Fixpoint mem_name (s : string) (l : list ident) : bool :=
  match l with [] => false | i :: l' => String.eqb s (iname i) || mem_name s l' end.
(* Itertools::unique(): the first of equal items is kept; Ident's Eq / Hash compare the spelling only *)
Fixpoint uniq_first (seen l : list ident) : list ident :=
  match l with
  | [] => []
  | i :: l' => if mem_name (iname i) seen then uniq_first seen l' else i :: uniq_first (i :: seen) l'
  end.
Fixpoint bv_item_uniq (it : item) : list ident :=
  match it with
  | IClause _ args cs => flat_map bv_term args ++ flat_map bv_cnd cs
  | ICond c => bv_cnd c
  | IGen x _ _ => bv_var x
  | INeg _ _ => []
  | IDisj alts => uniq_first [] (flat_map (flat_map bv_item_uniq) alts)
  | IInv _ _ => []
  end.
Definition originated_uniq (m : nat) (l : list item) : list string :=
  dedup_str (map iname (filter (org_is m) (flat_map bv_item_uniq l))).
Definition rename_originated_uniq (m : nat) (l : list item) (g : gensym) : list item * gensym :=
  let '(mp, g') := issue (originated_uniq m l) g in (map (ren_item (ren m mp)) l, g').
(* MacroModel.expand_item with that collector *)
Fixpoint expand_item_uniq (depth : nat) (M : list mdef) (it : item) (g : gensym) : res (list item * gensym) :=
  match depth with
  | O => Err ERecursive
  | S d =>
      match it with
      | IInv m acts =>
          match instantiate M m acts (fun b => b) with
          | Err e => Err e
          | OK b =>
              match expand_list (expand_item_uniq d M) b g with
              | Err e => Err e
              | OK (its, g1) => OK (rename_originated_uniq m its g1)
              end
          end
      | IDisj alts =>
          match expand_alts (expand_item_uniq d M) alts g with
          | Err e => Err e
          | OK (alts', g') => OK ([IDisj alts'], g')
          end
      | _ => OK ([it], g)
      end
  end.
Definition expand_rule_uniq (M : list mdef) (r : rule) : res rule :=
  match expand_list (expand_item_uniq DEPTH M) (rbody r) [] with
  | Err e => Err e
  | OK (b, _) =>
      match expand_hlist (expand_head DEPTH M) (rheads r) tt with
      | Err e => Err e
      | OK (hs, _) => OK {| rheads := hs; rbody := b |}
      end
  end.

(* ---------------------------------------------------------------- the witness
   relations: 0 = e0/2, 1 = u0/1, 2 = u1/1, 4 = d1/1
       macro m0($p0: ident) { (e0($p0, t), u0(t) | u1($p0)) }
       d1(s) <-- m0!(s);                                          for a call-site spelling s *)
Definition M_dj : list mdef :=
  [mkDef 0 [(0, true)] [IDisj [[IClause 0 [TV (VPar 0); TV (ml 0 "t")] []; IClause 1 [TV (ml 0 "t")] []]; [IClause 2 [TV (VPar 0)] []]]]].
Definition r_dj (s : string) : rule := mkRule [HClause 4 [TV (cs s)]] [IInv 0 [TV (cs s)]].

Lemma disj_table_wf : wf_macros (fun m => m) [] M_dj = true.
Proof. reflexivity. Qed.
Lemma disj_rule_wf s : user_name s = true -> wf_rule [] (r_dj s) = true.
Proof. intros H. unfold wf_rule, r_dj, ids_rule, wf_ident. simpl. rewrite H. reflexivity. Qed.

(* the faithful expansion gives the local a name of its own whatever is passed — in particular when s = "t" *)
Lemma disj_local_renamed s :
  expand_rule M_dj (r_dj s) =
    OK (mkRule [HClause 4 [TV (cs s)]]
               [IDisj [[IClause 0 [TV (cs s); TV (VId (mkId "__t_" (OMac 0) 0))] []; IClause 1 [TV (VId (mkId "__t_" (OMac 0) 0))] []];
                       [IClause 2 [TV (cs s)] []]]]).
Proof. vm_compute. reflexivity. Qed.

(* the variant leaves `t` alone when the call site passes `t`: (e0(t, t), u0(t) | u1(t)) *)
Lemma disj_uniq_captures :
  expand_rule_uniq M_dj (r_dj "t") =
    OK (mkRule [HClause 4 [TV (cs "t")]]
               [IDisj [[IClause 0 [TV (cs "t"); TV (ml 0 "t")] []; IClause 1 [TV (ml 0 "t")] []]; [IClause 2 [TV (cs "t")] []]]]).
Proof. vm_compute. reflexivity. Qed.
(* ... and agrees with the faithful expansion when it passes another spelling *)
Lemma disj_uniq_other_spelling : expand_rule_uniq M_dj (r_dj "x") = expand_rule M_dj (r_dj "x").
Proof. vm_compute. reflexivity. Qed.

Lemma refuted_disjunction_dedup :
  wf_macros (fun m => m) [] M_dj = true /\ wf_rule [] (r_dj "t") = true
  /\ exists r' h, expand_rule_uniq M_dj (r_dj "t") = OK r' /\ hexpand_rule M_dj (r_dj "t") = OK h /\ ~ exists phi, hygienic_image r' h phi.
Proof.
  repeat (split; [reflexivity|]). eexists _, _. split; [vm_compute; reflexivity|]. split; [vm_compute; reflexivity|].
  intros (phi & H). pose proof (image_ids _ _ _ H) as Hi. destruct H as (_ & Hinj & _).
  apply (f_equal (map iname)) in Hi. vm_compute in Hi. injection Hi. intros.
  assert (E : iname (mkId "t" OCall 0) = iname (mkId "t" (OMac 0) 1) /\ isc (mkId "t" OCall 0) = isc (mkId "t" (OMac 0) 1)).
  { apply Hinj; [vm_compute; auto 20|vm_compute; auto 20|]. simpl. congruence. }
  destruct E as [_ E]. discriminate.
Qed.
