(* C08 — the names issued by the per-rule GenSym: injectivity, disjointness from user identifiers, counters. *)
From Coq Require Import List String Ascii ZArith Bool Arith Lia Decimal DecimalString DecimalNat.
From AV Require Import Macros.MacroModel.
Import ListNotations.
Open Scope string_scope.

(* ---------------------------------------------------------------- generated names *)
Definition is_digit (c : ascii) : bool := (48 <=? nat_of_ascii c)%nat && (nat_of_ascii c <=? 57)%nat.
Fixpoint all_digits (s : string) : bool := match s with EmptyString => true | String c s' => is_digit c && all_digits s' end.

Lemma uint_digits d : all_digits (NilEmpty.string_of_uint d) = true.
Proof. induction d; simpl; auto. Qed.
Lemma dec_digits n : all_digits (dec n) = true.
Proof. apply uint_digits. Qed.
Lemma string_of_uint_inj d d' : NilEmpty.string_of_uint d = NilEmpty.string_of_uint d' -> d = d'.
Proof. intros H. pose proof (NilEmpty.usu d) as A. pose proof (NilEmpty.usu d') as B. rewrite H in A. congruence. Qed.
Lemma dec_inj a b : dec a = dec b -> a = b.
Proof.
  unfold dec. intros H. apply string_of_uint_inj in H.
  rewrite <- (DecimalNat.Unsigned.of_to a), <- (DecimalNat.Unsigned.of_to b). congruence.
Qed.
Lemma dec_nonempty n : n <> 0%nat -> dec n <> "".
Proof.
  unfold dec. intros Hn H. change "" with (NilEmpty.string_of_uint Nil) in H. apply string_of_uint_inj in H.
  apply Hn. rewrite <- (DecimalNat.Unsigned.of_to n). rewrite H. reflexivity.
Qed.

Lemma digits_no_sep x y : all_digits (x ++ String "_" y) = false.
Proof. induction x; simpl; [reflexivity|]. rewrite IHx. apply andb_false_r. Qed.

Lemma sep_inj : forall s s' d d', all_digits d = true -> all_digits d' = true ->
  s ++ String "_" d = s' ++ String "_" d' -> s = s' /\ d = d'.
Proof.
  induction s as [|c s IH]; intros [|c' s'] d d' Hd Hd' H; simpl in H.
  - injection H as H; auto.
  - injection H as Hc H. subst d. rewrite digits_no_sep in Hd. discriminate.
  - injection H as Hc H. subst d'. rewrite digits_no_sep in Hd'. discriminate.
  - injection H as Hc H. subst c'. destruct (IH s' d d' Hd Hd' H) as [-> ->]. auto.
Qed.

Definition suffix (c : nat) : string := match c with O => EmptyString | _ => dec c end.
Lemma gname_eq s c : gname s c = String "_" (String "_" (s ++ String "_" (suffix c))).
Proof. reflexivity. Qed.
Lemma suffix_digits c : all_digits (suffix c) = true.
Proof. destruct c; [reflexivity|apply dec_digits]. Qed.
Lemma suffix_inj c c' : suffix c = suffix c' -> c = c'.
Proof.
  destruct c, c'; simpl; intros H; auto.
  - symmetry in H. apply dec_nonempty in H; [contradiction|discriminate].
  - apply dec_nonempty in H; [contradiction|discriminate].
  - apply dec_inj; auto.
Qed.
Lemma gname_inj s c s' c' : gname s c = gname s' c' -> s = s' /\ c = c'.
Proof.
  rewrite !gname_eq. intros H. injection H as H.
  apply sep_inj in H as [-> H]; try apply suffix_digits. apply suffix_inj in H. auto.
Qed.
Lemma gname_not_user s c : user_name (gname s c) = false.
Proof. rewrite gname_eq. unfold user_name. simpl. destruct (s ++ String "_" (suffix c)); reflexivity. Qed.

(* ---------------------------------------------------------------- counters *)
Lemma gs_count_bump g s q : gs_count (gs_bump g s) q = if String.eqb q s then S (gs_count g s) else gs_count g q.
Proof. reflexivity. Qed.

Definition gs_le (g g' : gensym) : Prop := forall s, (gs_count g s <= gs_count g' s)%nat.
Lemma gs_le_refl g : gs_le g g. Proof. intros s; lia. Qed.
Lemma gs_le_trans a b c : gs_le a b -> gs_le b c -> gs_le a c.
Proof. intros H1 H2 s. specialize (H1 s). specialize (H2 s). lia. Qed.
Lemma gs_le_bump g s : gs_le g (gs_bump g s).
Proof. intros q. rewrite gs_count_bump. destruct (String.eqb_spec q s); subst; lia. Qed.

(* a name issued between the states g and g' *)
Definition gen_in (g g' : gensym) (x : string) : Prop :=
  exists b c, x = gname b c /\ (gs_count g b <= c < gs_count g' b)%nat.
Lemma gen_in_mono g0 g g' g1 x : gs_le g0 g -> gs_le g' g1 -> gen_in g g' x -> gen_in g0 g1 x.
Proof. intros H0 H1 (b & c & -> & Hc). exists b, c. split; auto. specialize (H0 b). specialize (H1 b). lia. Qed.
Lemma gen_in_disjoint g g1 g2 x y : gs_le g g1 -> gen_in g g1 x -> gen_in g1 g2 y -> x <> y.
Proof.
  intros _ (b & c & -> & Hc) (b' & c' & -> & Hc') E. apply gname_inj in E as [-> ->]. lia.
Qed.
Lemma gen_in_not_user g g' x : gen_in g g' x -> user_name x = false.
Proof. intros (b & c & -> & _). apply gname_not_user. Qed.

(* issue: one name per base, bases pairwise distinct *)
Lemma mem_str_in s l : mem_str s l = true <-> In s l.
Proof.
  induction l; simpl; [split; [discriminate|tauto]|].
  rewrite orb_true_iff, IHl. destruct (String.eqb_spec s a); split; intros; intuition (try congruence).
Qed.
Lemma dedup_str_nodup l : NoDup (dedup_str l).
Proof.
  induction l; simpl; [constructor|]. destruct (mem_str a l) eqn:E; auto. constructor; auto.
  intros H. assert (In a l). { clear -H. induction l; simpl in *; [auto|]. destruct (mem_str a0 l) eqn:E; simpl in *; intuition. }
  apply mem_str_in in H0. congruence.
Qed.
Lemma dedup_str_in l s : In s (dedup_str l) <-> In s l.
Proof.
  induction l; simpl; [tauto|]. destruct (mem_str a l) eqn:E; simpl; rewrite IHl; [|tauto].
  apply mem_str_in in E. split; [auto|intros [<-|]; auto].
Qed.

Lemma sassoc_in mp s x : sassoc mp s = Some x -> In (s, x) mp.
Proof. induction mp as [|[a b] mp IH]; simpl; [discriminate|]. destruct (String.eqb_spec s a); [intros [= <-]; subst; auto|auto]. Qed.

Lemma issue_spec : forall names g mp g', NoDup names -> issue names g = (mp, g') ->
  gs_le g g'
  /\ (forall s, In s names -> sassoc mp s = Some (gname s (gs_count g s)) /\ gs_count g' s = S (gs_count g s))
  /\ (forall s, ~ In s names -> sassoc mp s = None /\ gs_count g' s = gs_count g s).
Proof.
  induction names as [|a names IH]; intros g mp g' Hnd H; simpl in H.
  - injection H as <- <-. split; [apply gs_le_refl|]. split; [intros s []|]. intros s _. auto.
  - destruct (issue names (gs_bump g a)) as [mp1 g2] eqn:E. injection H as <- <-.
    inversion Hnd as [|? ? Hna Hnd']; subst.
    destruct (IH _ _ _ Hnd' E) as (Hle & Hin & Hout).
    split; [eapply gs_le_trans; [apply gs_le_bump|exact Hle]|]. split.
    + intros s [<-|Hs]; simpl.
      * rewrite String.eqb_refl. split; [reflexivity|]. destruct (Hout a Hna) as [_ ->]. rewrite gs_count_bump, String.eqb_refl. reflexivity.
      * destruct (String.eqb_spec s a) as [->|Hne]; [contradiction|].
        destruct (Hin s Hs) as [-> ->]. rewrite gs_count_bump. apply String.eqb_neq in Hne. rewrite Hne. auto.
    + intros s Hs. simpl. destruct (String.eqb_spec s a) as [->|Hne]; [exfalso; apply Hs; simpl; auto|].
      destruct (Hout s) as [-> ->]; [intros H; apply Hs; simpl; auto|]. rewrite gs_count_bump. apply String.eqb_neq in Hne. rewrite Hne. auto.
Qed.
