(* C08 — where the faithful model is NOT hygienic: one computed witness per hypothesis of the hygiene theorem.
   In every witness the real expansion [expand_rule] succeeds and is not an injective naming of the
   reference expansion [hexpand_rule]. *)
From Coq Require Import List String Ascii ZArith Bool Arith Lia.
From AV Require Import Macros.MacroModel.
From AV Require Import Macros.MacroLemmas.
From AV Require Import Macros.MacroProofs.
Import ListNotations.
Open Scope string_scope.
Open Scope list_scope.

Definition cs (s : string) : var := VId (mkId s OCall 0).
Definition ml (m : nat) (s : string) : var := VId (mkId s (OMac m) 0).
Definition not_hygienic (M : list mdef) (r : rule) : Prop :=
  exists r' h, expand_rule M r = OK r' /\ hexpand_rule M r = OK h /\ ~ exists phi, hygienic_image r' h phi.

Lemma image_ids r' h phi : hygienic_image r' h phi -> ids_rule r' = map (names_via phi) (ids_rule h).
Proof. intros (-> & _). apply ids_rule_map. Qed.

(* relations: 0 = e0/2, 1 = u0/1, 2 = u1/1, 3 = d0/2 *)

(* a condition attached to a clause (finding attached_condition_not_renamed, fixed by 931a20f: the renaming pass now
   visits the conditions attached to a clause):  macro m0($p0: ident) { e0($p0, y) if $p0 < y }
       d0(a, y) <-- u1(y), u0(a), m0!(a);
   expands to  u1(y), u0(a), e0(a, __y_) if a < __y_ *)
Definition M_att : list mdef := [mkDef 0 [(0, true)] [IClause 0 [TV (VPar 0); TV (ml 0 "y")] [CIf 0 [VPar 0; ml 0 "y"]]]].
Definition r_att : rule := mkRule [HClause 3 [TV (cs "a"); TV (cs "y")]] [IClause 2 [TV (cs "y")] []; IClause 1 [TV (cs "a")] []; IInv 0 [TV (cs "a")]].
Lemma attached_condition_renamed :
  wf_macros (fun m => m) [] M_att = true /\ wf_rule [] r_att = true
  /\ expand_rule M_att r_att =
      OK (mkRule [HClause 3 [TV (cs "a"); TV (cs "y")]]
                 [IClause 2 [TV (cs "y")] []; IClause 1 [TV (cs "a")] [];
                  IClause 0 [TV (cs "a"); TV (VId (mkId "__y_" (OMac 0) 0))] [CIf 0 [cs "a"; VId (mkId "__y_" (OMac 0) 0)]]]).
Proof. repeat split; vm_compute; reflexivity. Qed.

(* user identifier spelled like a generated name:  macro m0($p0: ident) { e0($p0, y), u0(y) }
       d0(a, __y_) <-- u1(__y_), m0!(a);      the rule's __y_ and the macro's y get the same name *)
Definition M_gen : list mdef := [mkDef 0 [(0, true)] [IClause 0 [TV (VPar 0); TV (ml 0 "y")] []; IClause 1 [TV (ml 0 "y")] []]].
Definition r_gen : rule := mkRule [HClause 3 [TV (cs "a"); TV (cs "__y_")]] [IClause 2 [TV (cs "__y_")] []; IInv 0 [TV (cs "a")]].
Lemma refuted_generated_name_collision : wf_macros (fun m => m) [] M_gen = true /\ not_hygienic M_gen r_gen.
Proof.
  split; [reflexivity|]. eexists _, _. split; [vm_compute; reflexivity|]. split; [vm_compute; reflexivity|].
  intros (phi & H). pose proof (image_ids _ _ _ H) as Hi. destruct H as (_ & Hinj & _).
  apply (f_equal (map iname)) in Hi. vm_compute in Hi. injection Hi. intros.
  assert (E : iname (mkId "__y_" OCall 0) = iname (mkId "y" (OMac 0) 1) /\ isc (mkId "__y_" OCall 0) = isc (mkId "y" (OMac 0) 1)).
  { apply Hinj; [vm_compute; auto|vm_compute; auto 10|]. simpl. congruence. }
  destruct E as [E _]. discriminate.
Qed.

(* a macro used in head position with an identifier of its own:  macro m0($p0: ident) { d0($p0, y) }
       m0!(a) <-- e0(a, y);        head expansion renames nothing: the macro's y IS the rule's y *)
Definition M_head : list mdef := [mkDef 0 [(0, true)] [IClause 3 [TV (VPar 0); TV (ml 0 "y")] []]].
Definition r_head : rule := mkRule [HInv 0 [TV (cs "a")]] [IClause 0 [TV (cs "a"); TV (cs "y")] []].
Lemma refuted_head_identifier_captured : forallb (wf_def (fun m => m) M_head) M_head = true /\ wf_rule [0] r_head = true /\ not_hygienic M_head r_head.
Proof.
  repeat (split; [reflexivity|]). eexists _, _. split; [vm_compute; reflexivity|]. split; [vm_compute; reflexivity|].
  intros (phi & H). pose proof (image_ids _ _ _ H) as Hi. destruct H as (_ & Hinj & _).
  apply (f_equal (map iname)) in Hi. vm_compute in Hi. injection Hi. intros.
  assert (E : iname (mkId "y" OCall 0) = iname (mkId "y" (OMac 0) 1) /\ isc (mkId "y" OCall 0) = isc (mkId "y" (OMac 0) 1)).
  { apply Hinj; [vm_compute; auto|vm_compute; auto 10|]. simpl. congruence. }
  destruct E as [_ E]. discriminate.
Qed.

(* (2) an identifier that the body does not bind:  macro m0($p0: ident) { e0($p0, w), if w < y }
       d0(a, y) <-- u1(y), m0!(a);       y is not renamed and is the rule's y *)
Definition M_free : list mdef := [mkDef 0 [(0, true)] [IClause 0 [TV (VPar 0); TV (ml 0 "w")] []; ICond (CIf 0 [ml 0 "w"; ml 0 "y"])]].
Definition r_free : rule := mkRule [HClause 3 [TV (cs "a"); TV (cs "y")]] [IClause 2 [TV (cs "y")] []; IInv 0 [TV (cs "a")]].
Lemma refuted_unbound_identifier_captured :
  forallb wf_def_ids M_free = true /\ forallb (wf_def_rank (fun m => m)) M_free = true
  /\ forallb (wf_head_def []) M_free = true /\ wf_rule [] r_free = true /\ not_hygienic M_free r_free.
Proof.
  repeat (split; [reflexivity|]). eexists _, _. split; [vm_compute; reflexivity|]. split; [vm_compute; reflexivity|].
  intros (phi & H). pose proof (image_ids _ _ _ H) as Hi. destruct H as (_ & Hinj & _).
  apply (f_equal (map iname)) in Hi. vm_compute in Hi. injection Hi. intros.
  assert (E : iname (mkId "y" OCall 0) = iname (mkId "y" (OMac 0) 1) /\ isc (mkId "y" OCall 0) = isc (mkId "y" (OMac 0) 1)).
  { apply Hinj; [vm_compute; auto|vm_compute; auto 10|]. simpl. congruence. }
  destruct E as [_ E]. discriminate.
Qed.

(* (1) a macro body that uses x and __x_: the identifier argument x is renamed twice (bound-variable pass, then
   expression pass) and ends up with the name issued for __x_:  macro m0($p0: ident) { e0(x, __x_), u0($p0) } *)
Definition M_twice : list mdef := [mkDef 0 [(0, true)] [IClause 0 [TV (ml 0 "x"); TV (ml 0 "__x_")] []; IClause 1 [TV (VPar 0)] []]].
Definition r_twice : rule := mkRule [HClause 1 [TV (cs "a")]] [IInv 0 [TV (cs "a")]].
Lemma refuted_renamed_twice :
  forallb (wf_def_bound M_twice) M_twice = true /\ forallb (wf_def_rank (fun m => m)) M_twice = true
  /\ wf_rule [] r_twice = true /\ not_hygienic M_twice r_twice.
Proof.
  repeat (split; [reflexivity|]). eexists _, _. split; [vm_compute; reflexivity|]. split; [vm_compute; reflexivity|].
  intros (phi & H). pose proof (image_ids _ _ _ H) as Hi. destruct H as (_ & Hinj & _).
  apply (f_equal (map iname)) in Hi. vm_compute in Hi. injection Hi. intros.
  assert (E : iname (mkId "x" (OMac 0) 1) = iname (mkId "__x_" (OMac 0) 1) /\ isc (mkId "x" (OMac 0) 1) = isc (mkId "__x_" (OMac 0) 1)).
  { apply Hinj; [vm_compute; auto|vm_compute; auto 10|]. simpl. congruence. }
  destruct E as [E _]. discriminate.
Qed.

(* ---------------------------------------------------------------- the hypotheses are satisfiable: nesting, a macro invoked twice,
   the same spelling z at the call site, in the outer and in the inner macro, a disjunction, a head macro with a nested one *)
Definition M_ex : list mdef :=
  [ mkDef 0 [(0, true)] [IClause 0 [TV (VPar 0); TV (ml 0 "z")] [CIf 1 [VPar 0; ml 0 "z"]]; IClause 1 [TV (ml 0 "z")] []];   (* inner, with an attached condition *)
    mkDef 1 [(0, true); (1, false)] [IClause 0 [TV (VPar 0); TV (ml 1 "z")] []; IInv 0 [TV (ml 1 "z")];
                                      IDisj [[IClause 0 [TV (ml 1 "z"); TV (VPar 1)] []]; [IInv 0 [TV (VPar 0)]]]];       (* outer *)
    mkDef 2 [(0, true)] [IClause 1 [TV (VPar 0)] []];                                                                     (* head, inner *)
    mkDef 3 [(0, true); (1, false)] [IClause 3 [TV (VPar 0); TV (VPar 1)] []; IInv 2 [TV (VPar 0)]] ].                    (* head, outer *)
Definition r_ex : rule :=
  mkRule [HInv 3 [TV (cs "z"); TF 0 [cs "a"]]]
         [IClause 2 [TV (cs "z")] []; IInv 1 [TV (cs "a"); TC 3]; IInv 0 [TV (cs "z")]; IInv 1 [TV (cs "z"); TV (cs "a")]].
Lemma example_wf : wf_macros (fun m => m) [2; 3] M_ex = true /\ wf_rule [2; 3] r_ex = true
  /\ exists r', expand_rule M_ex r_ex = OK r' /\ List.length (ids_rule r') = 36.
Proof. split; [reflexivity|]. split; [reflexivity|]. eexists. split; vm_compute; reflexivity. Qed.

(* ---------------------------------------------------------------- a local bound only through nested invocations
       macro hop($p0: ident, $p1: ident) { e0($p0, $p1) }
       macro two($p0: ident, $p1: ident) { hop!($p0, mid), hop!(mid, $p1) }
       d0(a, mid) <-- two!(a, b), two!(b, mid);
   no direct item of the body of `two` binds mid (the former hypothesis wf_def_bound_direct fails); it is bound through the
   arguments of the nested invocations, the hypotheses of the theorem hold, and the expansion gives each invocation a
   `mid` of its own, distinct from the call-site `mid` *)
Definition M_two : list mdef :=
  [ mkDef 0 [(0, true); (1, true)] [IClause 0 [TV (VPar 0); TV (VPar 1)] []];
    mkDef 1 [(0, true); (1, true)] [IInv 0 [TV (VPar 0); TV (ml 1 "mid")]; IInv 0 [TV (ml 1 "mid"); TV (VPar 1)]] ].
Definition r_two : rule :=
  mkRule [HClause 3 [TV (cs "a"); TV (cs "mid")]] [IInv 1 [TV (cs "a"); TV (cs "b")]; IInv 1 [TV (cs "b"); TV (cs "mid")]].
Lemma nested_binder_example :
  wf_macros (fun m => m) [] M_two = true /\ forallb wf_def_bound_direct M_two = false /\ wf_rule [] r_two = true
  /\ expand_rule M_two r_two =
      OK (mkRule [HClause 3 [TV (cs "a"); TV (cs "mid")]]
                 [IClause 0 [TV (cs "a"); TV (VId (mkId "__mid_" (OMac 1) 0))] []; IClause 0 [TV (VId (mkId "__mid_" (OMac 1) 0)); TV (cs "b")] [];
                  IClause 0 [TV (cs "b"); TV (VId (mkId "__mid_1" (OMac 1) 0))] []; IClause 0 [TV (VId (mkId "__mid_1" (OMac 1) 0)); TV (cs "mid")] []]).
Proof. repeat split; vm_compute; reflexivity. Qed.

(* The ORDER matters: a variant of the expansion that renames the variables of a macro body BEFORE the nested invocations
   of that body are expanded (the bound variables are then collected from items among which the nested invocations are still
   opaque: bv_item (IInv ..) = []) is not hygienic on this very table — `mid` keeps its spelling, the two invocations share it
   and the call-site `mid` captures it.  [expand_item_early] differs from MacroModel.expand_item only in that order. *)
Fixpoint expand_item_early (depth : nat) (M : list mdef) (it : item) (g : gensym) : res (list item * gensym) :=
  match depth with
  | O => Err ERecursive
  | S d =>
      match it with
      | IInv m acts =>
          match instantiate M m acts (fun b => b) with
          | Err e => Err e
          | OK b => let '(b', g1) := rename_originated m b g in expand_list (expand_item_early d M) b' g1
          end
      | IDisj alts =>
          match expand_alts (expand_item_early d M) alts g with
          | Err e => Err e
          | OK (alts', g') => OK ([IDisj alts'], g')
          end
      | _ => OK ([it], g)
      end
  end.
Definition expand_rule_early (M : list mdef) (r : rule) : res rule :=
  match expand_list (expand_item_early DEPTH M) (rbody r) [] with
  | Err e => Err e
  | OK (b, _) =>
      match expand_hlist (expand_head DEPTH M) (rheads r) tt with
      | Err e => Err e
      | OK (hs, _) => OK {| rheads := hs; rbody := b |}
      end
  end.
Lemma refuted_rename_before_nested_expansion :
  wf_macros (fun m => m) [] M_two = true /\ wf_rule [] r_two = true
  /\ exists r' h, expand_rule_early M_two r_two = OK r' /\ hexpand_rule M_two r_two = OK h /\ ~ exists phi, hygienic_image r' h phi.
Proof.
  repeat (split; [reflexivity|]). eexists _, _. split; [vm_compute; reflexivity|]. split; [vm_compute; reflexivity|].
  intros (phi & H). pose proof (image_ids _ _ _ H) as Hi. destruct H as (_ & Hinj & _).
  apply (f_equal (map iname)) in Hi. vm_compute in Hi. injection Hi. intros.
  assert (E : iname (mkId "mid" OCall 0) = iname (mkId "mid" (OMac 1) 1) /\ isc (mkId "mid" OCall 0) = isc (mkId "mid" (OMac 1) 1)).
  { apply Hinj; [vm_compute; auto 20|vm_compute; auto 20|]. simpl. congruence. }
  destruct E as [_ E]. discriminate.
Qed.

(* a recursive table with well-formed invocations: mutual recursion through a disjunction, reached through a third macro *)
Definition M_rec : list mdef :=
  [ mkDef 0 [(0, true)] [IClause 0 [TV (VPar 0); TV (VId (mkId "y" (OMac 0) 0))] []; IInv 1 [TV (VId (mkId "y" (OMac 0) 0))]];
    mkDef 1 [(0, true)] [IDisj [[IClause 1 [TV (VPar 0)] []]; [IInv 0 [TV (VPar 0)]]]];
    mkDef 2 [(0, true)] [IInv 1 [TV (VPar 0)]] ].
Definition r_rec : rule := mkRule [HClause 1 [TV (VId (mkId "a" OCall 0))]] [IClause 1 [TV (VId (mkId "a" OCall 0))] []; IInv 2 [TV (VId (mkId "a" OCall 0))]].
