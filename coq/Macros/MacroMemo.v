(* C08 — what an invocation expands to depends on the ORIGINS of its argument identifiers, not on their spelling.

   MacroModel.expand_item instantiates every invocation independently: `$p` is replaced by the actual's TOKENS, and
   an identifier token carries its origin (the model's counterpart of a span), which is what the renaming pass of an
   ENCLOSING macro later reads (MacroModel.ren: org_is).  So `step!(x, y)` written by a rule and `step!($x, y)` written
   in the body of `macro two($x, $z) { step!($x, y), step!(y, $z) }` and instantiated by `two!(x, w)` are spelled alike
   and are different invocations: in the second one y is a local of `two`.

   This file has the variant of the expansion that REMEMBERS the instantiated body of an invocation in a table that
   lives as long as the program (threaded through the items of a rule, body then heads, and from rule to rule), under
   a key made of the macro and of what [norm] keeps of the argument identifiers:
     - norm = forget (the spelling only):  [expand_prog_memo], NOT hygienic — refuted below on the program above, within
       one rule and across two rules; a later invocation receives the tokens of the first one of that spelling, the
       enclosing macro does not recognise its own local in them and does not rename it;
     - norm = the identity (spelling AND origin):  the table returns exactly what [instantiate] returns
       ([instantiate_memo_exact]): remembering an expansion is sound only under a key that keeps the origins.
   Generators of the class: gen/c08_memo.py. *)
From Coq Require Import List String Ascii ZArith Bool Arith Lia.
From AV Require Import Macros.MacroModel.
From AV Require Import Macros.MacroLemmas.
From AV Require Import Macros.MacroProofs.
From AV Require Import Macros.MacroRefuted.
Import ListNotations.
Open Scope string_scope.
Open Scope list_scope.

(* ------------------------------------------------------------------ equality of argument lists *)

Definition ident_eqb (i j : ident) : bool := String.eqb (iname i) (iname j) && org_eqb (iorg i) (iorg j) && Nat.eqb (isc i) (isc j).
Definition var_eqb (v w : var) : bool :=
  match v, w with VId i, VId j => ident_eqb i j | VPar p, VPar q => Nat.eqb p q | _, _ => false end.
Fixpoint list_eqb {A} (e : A -> A -> bool) (l l' : list A) : bool :=
  match l, l' with [], [] => true | a :: t, a' :: t' => e a a' && list_eqb e t t' | _, _ => false end.
Definition term_eqb (t u : term) : bool :=
  match t, u with
  | TV v, TV w => var_eqb v w
  | TC c, TC c' => Z.eqb c c'
  | TF f xs, TF f' xs' => Nat.eqb f f' && list_eqb var_eqb xs xs'
  | _, _ => false
  end.

(* the spelling of an identifier: its origin (and scope) forgotten *)
Definition forget (i : ident) : ident := mkId (iname i) OCall 0.
Definition spelled_alike (acts acts' : list term) : Prop := map (map_term forget) acts = map (map_term forget) acts'.

(* ------------------------------------------------------------------ the remembering expansion *)

Definition memo := list (nat * list term * list item).      (* (macro, key of the arguments, instantiated body) *)

Section Memo.
Variable norm : ident -> ident.        (* what the key keeps of an argument identifier *)

Fixpoint memo_find (tb : memo) (m : nat) (k : list term) : option (list item) :=
  match tb with
  | [] => None
  | (m', k', b) :: tb' => if Nat.eqb m m' && list_eqb term_eqb k k' then Some b else memo_find tb' m k
  end.

(* invoke_macro with the table: look the invocation up first; instantiate and remember it otherwise *)
Definition instantiate_memo (M : list mdef) (m : nat) (acts : list term) (tb : memo) : res (list item * memo) :=
  let k := map (map_term norm) acts in
  match memo_find tb m k with
  | Some b => OK (b, tb)
  | None => match instantiate M m acts (fun b => b) with Err e => Err e | OK b => OK (b, (m, k, b) :: tb) end
  end.

(* MacroModel.expand_item with the table next to the GenSym; the renaming is untouched *)
Fixpoint expand_item_memo (depth : nat) (M : list mdef) (it : item) (s : gensym * memo) : res (list item * (gensym * memo)) :=
  match depth with
  | O => Err ERecursive
  | S d =>
      match it with
      | IInv m acts =>
          match instantiate_memo M m acts (snd s) with
          | Err e => Err e
          | OK (b, tb1) =>
              match expand_list (expand_item_memo d M) b (fst s, tb1) with
              | Err e => Err e
              | OK (its, (g1, tb2)) => let '(its', g2) := rename_originated m its g1 in OK (its', (g2, tb2))
              end
          end
      | IDisj alts =>
          match expand_alts (expand_item_memo d M) alts s with
          | Err e => Err e
          | OK (alts', s') => OK ([IDisj alts'], s')
          end
      | _ => OK ([it], s)
      end
  end.

Fixpoint expand_head_memo (depth : nat) (M : list mdef) (h : hitem) (tb : memo) : res (list hitem * memo) :=
  match depth with
  | O => Err ERecursive
  | S d =>
      match h with
      | HInv m acts =>
          match instantiate_memo M m acts tb with
          | Err e => Err e
          | OK (b, tb1) => match to_heads b with
                           | None => Err EHeadParse
                           | Some hs => expand_hlist (expand_head_memo d M) hs tb1
                           end
          end
      | HClause _ _ => OK ([h], tb)
      end
  end.

(* fresh GenSym per rule; the table comes from the rules before and goes to the rules after *)
Definition expand_rule_memo (M : list mdef) (r : rule) (tb : memo) : res (rule * memo) :=
  match expand_list (expand_item_memo DEPTH M) (rbody r) ([], tb) with
  | Err e => Err e
  | OK (b, (_, tb1)) =>
      match expand_hlist (expand_head_memo DEPTH M) (rheads r) tb1 with
      | Err e => Err e
      | OK (hs, tb2) => OK ({| rheads := hs; rbody := b |}, tb2)
      end
  end.

Fixpoint expand_rules_memo (M : list mdef) (rs : list rule) (tb : memo) : res (list rule) :=
  match rs with
  | [] => OK []
  | r :: rs' => match expand_rule_memo M r tb with
                | Err e => Err e
                | OK (r', tb1) => match expand_rules_memo M rs' tb1 with Err e => Err e | OK l => OK (r' :: l) end
                end
  end.
End Memo.

(* the table keyed by (macro, argument spelling) *)
Definition expand_prog_memo (M : list mdef) (rs : list rule) : res (list rule) := expand_rules_memo forget M rs [].
(* the table keyed by (macro, argument tokens) *)
Definition expand_prog_memo_exact (M : list mdef) (rs : list rule) : res (list rule) := expand_rules_memo (fun i => i) M rs [].

(* ------------------------------------------------------------------ the program of the class
     relations: 0 = edge/2, 3 = out/2, 4 = succ/2
       macro step($p0: expr, $p1: expr) { edge($p0, $p1) }
       macro two($p0: expr, $p1: expr)  { step!($p0, y), step!(y, $p1) }        y is private to two!
       out(x, w), succ(x, y) <-- step!(x, y), two!(x, w);                        one rule
       succ(x, y) <-- step!(x, y);   out(x, w) <-- two!(x, w);                   two rules *)
Definition M_memo : list mdef :=
  [ mkDef 0 [(0, false); (1, false)] [IClause 0 [TV (VPar 0); TV (VPar 1)] []];
    mkDef 1 [(0, false); (1, false)] [IInv 0 [TV (VPar 0); TV (ml 1 "y")]; IInv 0 [TV (ml 1 "y"); TV (VPar 1)]] ].
Definition r_memo : rule :=
  mkRule [HClause 3 [TV (cs "x"); TV (cs "w")]; HClause 4 [TV (cs "x"); TV (cs "y")]]
         [IInv 0 [TV (cs "x"); TV (cs "y")]; IInv 1 [TV (cs "x"); TV (cs "w")]].
Definition r_memo_a : rule := mkRule [HClause 4 [TV (cs "x"); TV (cs "y")]] [IInv 0 [TV (cs "x"); TV (cs "y")]].
Definition r_memo_b : rule := mkRule [HClause 3 [TV (cs "x"); TV (cs "w")]] [IInv 1 [TV (cs "x"); TV (cs "w")]].

(* the faithful expansion: each origin of y gets its own name *)
Lemma memo_program_faithful :
  wf_macros (fun m => m) [] M_memo = true /\ wf_rule [] r_memo = true
  /\ expand_rule M_memo r_memo =
      OK (mkRule [HClause 3 [TV (cs "x"); TV (cs "w")]; HClause 4 [TV (cs "x"); TV (cs "y")]]
                 [IClause 0 [TV (cs "x"); TV (cs "y")] [];
                  IClause 0 [TV (cs "x"); TV (VId (mkId "__y_" (OMac 1) 0))] []; IClause 0 [TV (VId (mkId "__y_" (OMac 1) 0)); TV (cs "w")] []]).
Proof. repeat split; vm_compute; reflexivity. Qed.

(* with the table keyed by spelling: the first invocation inside two! comes back with the CALL-SITE y; two! then finds only
   its second y to rename, which is left unconstrained *)
Lemma memo_program_by_spelling :
  expand_prog_memo M_memo [r_memo] =
      OK [mkRule [HClause 3 [TV (cs "x"); TV (cs "w")]; HClause 4 [TV (cs "x"); TV (cs "y")]]
                 [IClause 0 [TV (cs "x"); TV (cs "y")] [];
                  IClause 0 [TV (cs "x"); TV (cs "y")] []; IClause 0 [TV (VId (mkId "__y_" (OMac 1) 0)); TV (cs "w")] []]].
Proof. vm_compute; reflexivity. Qed.

(* REFUTED: the expansion that remembers invocations by (macro, argument spelling) is not hygienic, on a program inside
   the hypotheses of c08_hygiene — the identically spelled invocations in one rule *)
Lemma refuted_memo_by_spelling_same_rule :
  wf_macros (fun m => m) [] M_memo = true /\ wf_rule [] r_memo = true
  /\ exists r' h, expand_prog_memo M_memo [r_memo] = OK [r'] /\ hexpand_rule M_memo r_memo = OK h /\ ~ exists phi, hygienic_image r' h phi.
Proof.
  repeat (split; [reflexivity|]). eexists _, _. split; [vm_compute; reflexivity|]. split; [vm_compute; reflexivity|].
  intros (phi & H). pose proof (image_ids _ _ _ H) as Hi. destruct H as (_ & Hinj & _).
  apply (f_equal (map iname)) in Hi. vm_compute in Hi. injection Hi. intros.
  assert (E : iname (mkId "y" OCall 0) = iname (mkId "y" (OMac 1) 2) /\ isc (mkId "y" OCall 0) = isc (mkId "y" (OMac 1) 2)).
  { apply Hinj; [vm_compute; auto 20|vm_compute; auto 20|]. simpl. congruence. }
  destruct E as [_ E]. discriminate.
Qed.

(* ... and in two rules of the program, the call-site one first: the rule that only invokes two! is expanded wrongly because
   of a rule that stands before it.  The rule alone expands as the faithful model does; so do, UP TO THE ORIGIN TAGS of the
   result (the call-site rule receives tokens written in two!, which nothing reads any more), the two rules in the other order *)
Definition spelling_of (x : res (list rule)) : res (list rule) :=
  match x with OK l => OK (map (map_rule forget) l) | Err e => Err e end.
Lemma refuted_memo_by_spelling_across_rules :
  wf_macros (fun m => m) [] M_memo = true /\ wf_rule [] r_memo_a = true /\ wf_rule [] r_memo_b = true
  /\ (exists ra r' h, expand_prog_memo M_memo [r_memo_a; r_memo_b] = OK [ra; r'] /\ hexpand_rule M_memo r_memo_b = OK h
                      /\ ~ exists phi, hygienic_image r' h phi)
  /\ spelling_of (expand_prog_memo M_memo [r_memo_b; r_memo_a]) = spelling_of (expand_prog M_memo [r_memo_b; r_memo_a])
  /\ expand_prog_memo M_memo [r_memo_b] = expand_prog M_memo [r_memo_b].
Proof.
  repeat (split; [reflexivity|]). split; [|split; vm_compute; reflexivity].
  eexists _, _, _. split; [vm_compute; reflexivity|]. split; [vm_compute; reflexivity|].
  intros (phi & H). pose proof (image_ids _ _ _ H) as Hi. destruct H as (_ & _ & _).
  apply (f_equal (map iname)) in Hi. vm_compute in Hi. injection Hi. intros. congruence.
Qed.

(* ------------------------------------------------------------------ the expansion of an invocation depends on the origins *)

(* two invocations of one macro, spelled alike, the second argument a call-site identifier in one and a local of macro 1 in
   the other: the faithful expansions differ — in the origin of that token, which is what the renaming of macro 1 reads *)
Lemma expansion_depends_on_origin :
  let a := [TV (cs "x"); TV (cs "y")] in
  let a' := [TV (cs "x"); TV (ml 1 "y")] in
  spelled_alike a a'
  /\ expand_item DEPTH M_memo (IInv 0 a) [] = OK ([IClause 0 a []], [])
  /\ expand_item DEPTH M_memo (IInv 0 a') [] = OK ([IClause 0 a' []], [])
  /\ expand_item DEPTH M_memo (IInv 0 a) [] <> expand_item DEPTH M_memo (IInv 0 a') []
  /\ fst (rename_originated 1 [IClause 0 a []] []) = [IClause 0 a []]
  /\ fst (rename_originated 1 [IClause 0 a' []] []) = [IClause 0 [TV (cs "x"); TV (VId (mkId "__y_" (OMac 1) 0))] []].
Proof. cbv zeta. repeat split; try (vm_compute; reflexivity). vm_compute. discriminate. Qed.

(* in general: the renaming of an enclosing macro m tells two identifiers of one spelling apart by their origin alone *)
Lemma ren_reads_the_origin m mp i j s :
  iname i = iname j -> org_is m i = true -> org_is m j = false -> sassoc mp (iname i) = Some s -> s <> iname i ->
  forget i = forget j /\ ren m mp i <> ren m mp j.
Proof.
  intros En Hi Hj Hs Hne. split; [unfold forget; rewrite En; reflexivity|].
  unfold ren. rewrite Hi, Hj, Hs. intros E. apply (f_equal iname) in E. simpl in E. congruence.
Qed.

(* ------------------------------------------------------------------ a key that keeps the origins is sound *)

Lemma ident_eqb_eq i j : ident_eqb i j = true -> i = j.
Proof.
  destruct i as [n o k], j as [n' o' k']. unfold ident_eqb. simpl. intros H.
  apply andb_true_iff in H as [H Hk]. apply andb_true_iff in H as [Hn Ho].
  apply String.eqb_eq in Hn. apply Nat.eqb_eq in Hk. subst.
  destruct o as [|a], o' as [|a']; simpl in Ho; try discriminate; [reflexivity|]. apply Nat.eqb_eq in Ho. subst. reflexivity.
Qed.
Lemma var_eqb_eq v w : var_eqb v w = true -> v = w.
Proof.
  destruct v, w; simpl; try discriminate; intros H; [apply ident_eqb_eq in H|apply Nat.eqb_eq in H]; subst; reflexivity.
Qed.
Lemma list_eqb_eq {A} (e : A -> A -> bool) : (forall a b, e a b = true -> a = b) -> forall l l', list_eqb e l l' = true -> l = l'.
Proof.
  intros He. induction l as [|a l IH]; destruct l' as [|a' l']; simpl; try discriminate; [reflexivity|].
  intros H. apply andb_true_iff in H as [H1 H2]. apply He in H1. apply IH in H2. subst. reflexivity.
Qed.
Lemma term_eqb_eq t u : term_eqb t u = true -> t = u.
Proof.
  destruct t, u; simpl; try discriminate; intros H.
  - apply var_eqb_eq in H. subst. reflexivity.
  - apply Z.eqb_eq in H. subst. reflexivity.
  - apply andb_true_iff in H as [H1 H2]. apply Nat.eqb_eq in H1. apply (list_eqb_eq _ var_eqb_eq) in H2. subst. reflexivity.
Qed.

Lemma map_term_same t : map_term (fun i => i) t = t.
Proof.
  assert (Hv : forall v, map_var (fun i => i) v = v) by (intros [i|p]; reflexivity).
  destruct t as [v|c|f xs]; simpl; [rewrite Hv; reflexivity|reflexivity|].
  f_equal. induction xs as [|x xs IH]; simpl; [reflexivity|]. rewrite Hv, IH. reflexivity.
Qed.
Lemma map_terms_same l : map (map_term (fun i => i)) l = l.
Proof. induction l as [|t l IH]; simpl; [reflexivity|]. rewrite map_term_same, IH. reflexivity. Qed.

(* every entry of the table is what instantiate returns for its key read as the argument list *)
Definition memo_exact (M : list mdef) (tb : memo) : Prop :=
  forall m k b, In (m, k, b) tb -> instantiate M m k (fun b => b) = OK b.

Lemma memo_find_in tb m k b : memo_find tb m k = Some b -> exists k', In (m, k', b) tb /\ k = k'.
Proof.
  induction tb as [|[[m' k'] b'] tb IH]; simpl; [discriminate|].
  destruct (Nat.eqb m m' && list_eqb term_eqb k k') eqn:E.
  - intros [= <-]. apply andb_true_iff in E as [E1 E2]. apply Nat.eqb_eq in E1. apply (list_eqb_eq _ term_eqb_eq) in E2. subst.
    exists k'. auto.
  - intros H. destruct (IH H) as (k2 & Hin & Hk). exists k2. auto.
Qed.

(* keyed by the argument TOKENS (spelling and origin), the table answers exactly as instantiate does, and stays exact *)
Lemma instantiate_memo_exact M m acts tb :
  memo_exact M tb ->
  match instantiate_memo (fun i => i) M m acts tb with
  | OK (b, tb') => instantiate M m acts (fun b => b) = OK b /\ memo_exact M tb'
  | Err e => instantiate M m acts (fun b => b) = Err e
  end.
Proof.
  intros Hx. unfold instantiate_memo. rewrite map_terms_same.
  destruct (memo_find tb m acts) as [b|] eqn:F.
  - apply memo_find_in in F as (k' & Hin & ->). split; [apply Hx; exact Hin|exact Hx].
  - destruct (instantiate M m acts (fun b => b)) as [b|e] eqn:I; [|reflexivity].
    split; [reflexivity|]. intros m' k' b' [[= <- <- <-]|Hin]; [exact I|apply Hx; exact Hin].
Qed.

(* keyed by the spelling, it does not: the table built by `step!(x, y)` of the call site answers the invocation with the
   local of macro 1 with another body than instantiate *)
Lemma instantiate_memo_by_spelling_differs :
  exists tb b b', instantiate_memo forget M_memo 0 [TV (cs "x"); TV (cs "y")] [] = OK (b, tb)
    /\ instantiate_memo forget M_memo 0 [TV (cs "x"); TV (ml 1 "y")] tb = OK (b, tb)
    /\ instantiate M_memo 0 [TV (cs "x"); TV (ml 1 "y")] (fun b => b) = OK b' /\ b <> b'.
Proof. eexists _, _, _. repeat split; try (vm_compute; reflexivity). vm_compute. discriminate. Qed.

(* on the program of the class the exact table changes nothing *)
Lemma memo_exact_example :
  expand_prog_memo_exact M_memo [r_memo] = expand_prog M_memo [r_memo]
  /\ expand_prog_memo_exact M_memo [r_memo_a; r_memo_b] = expand_prog M_memo [r_memo_a; r_memo_b].
Proof. split; vm_compute; reflexivity. Qed.
