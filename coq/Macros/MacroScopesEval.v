(* C08 — glue used by the tie only (no theorem depends on it): one rule of body items over the scoped expressions of
   MacroScopes.v, evaluated against a database.  The rule is the INSTANTIATED macro body (parameters substituted, every
   identifier with its origin = the invocation that wrote it).
     run_rule same_id db r                            the hygienic reading
     run_rule same_nm db (ren_rule cfg passes r)      what the code produces: per invocation (innermost first) the rule-level
                                                      binders of that origin and the free occurrences the walk offers are
                                                      renamed, then rustc reads the rule by spelling *)
From Coq Require Import List String ZArith Bool Arith.
From AV Require Import Macros.MacroScopes.
Import ListNotations.
Open Scope string_scope.
Open Scope list_scope.

Inductive carg := CBind (i : ident) | CExp (e : sx).

Inductive item :=
| IClause (rel : nat) (args : list carg)
| ILet (b : ident) (e : sx)               (* let b = e                          *)
| IIfLetSome (b : ident) (e : sx)         (* if let Some(b) = Some(e)           *)
| IIfLetPred (b : ident) (e : sx)         (* if let Some(b) = pred_(e)          (e > 0: e - 1) *)
| IForOne (b : ident) (e : sx)            (* for b in [e]                       *)
| IForUpto (b : ident) (e : sx)           (* for b in 0..(e).min(3)             *)
| IIfEq (e1 e2 : sx)                      (* if e1 == e2                        *)
| INeg (rel : nat) (args : list sx).      (* !rel(e..)                          *)

Record rule := mkRule { rbody : list item; rhead : list ident }.

Definition db := list (nat * list Z).

Inductive outcome := Facts (l : list (list Z)) | CompileError.

(* ---- renaming of a rule, one pass per invocation *)
Definition ren_carg (c : walk_cfg) (m : mapping) (a : carg) : carg :=
  match a with CBind i => CBind (ren_ident m i) | CExp e => CExp (ren c m [] e) end.

Definition ren_item (c : walk_cfg) (m : mapping) (it : item) : item :=
  match it with
  | IClause r args => IClause r (map (ren_carg c m) args)
  | ILet b e => ILet (ren_ident m b) (ren c m [] e)
  | IIfLetSome b e => IIfLetSome (ren_ident m b) (ren c m [] e)
  | IIfLetPred b e => IIfLetPred (ren_ident m b) (ren c m [] e)
  | IForOne b e => IForOne (ren_ident m b) (ren c m [] e)
  | IForUpto b e => IForUpto (ren_ident m b) (ren c m [] e)
  | IIfEq e1 e2 => IIfEq (ren c m [] e1) (ren c m [] e2)
  | INeg r args => INeg r (map (ren c m []) args)
  end.

Definition ren_rule (c : walk_cfg) (passes : list mapping) (r : rule) : rule :=
  fold_left (fun r m => mkRule (map (ren_item c m) (rbody r)) (rhead r)) passes r.

(* ---- evaluation *)
Definition zeqb_list (a b : list Z) : bool :=
  Nat.eqb (List.length a) (List.length b) && forallb (fun p => Z.eqb (fst p) (snd p)) (combine a b).

(* match the arguments of a clause against a tuple: None = no match; an unbound identifier is bound, a bound one tested; an
   expression among the arguments is a key computed from the variables bound BEFORE the clause (en0) *)
Fixpoint match_args (same : ident -> ident -> bool) (en0 : env) (args : list carg) (t : list Z) (en : env) : option env :=
  match args, t with
  | [], [] => Some en
  | CBind i :: ar, z :: tr =>
      match lookup same en i with
      | Some v => if Z.eqb v z then match_args same en0 ar tr en else None
      | None => match_args same en0 ar tr ((i, z) :: en)
      end
  | CExp e :: ar, z :: tr =>
      match eval same en0 e with
      | Some v => if Z.eqb v z then match_args same en0 ar tr en else None
      | None => None
      end
  | _, _ => None
  end.

Definition eval_all (same : ident -> ident -> bool) (en : env) (es : list sx) : list Z :=
  map (fun e => match eval same en e with Some v => v | None => 0%Z end) es.

Definition step (same : ident -> ident -> bool) (d : db) (it : item) (en : env) : list env :=
  match it with
  | IClause r args =>
      flat_map (fun f => if Nat.eqb (fst f) r then match match_args same en args (snd f) en with Some en' => [en'] | None => [] end else []) d
  | ILet b e | IIfLetSome b e | IForOne b e => match eval same en e with Some v => [(b, v) :: en] | None => [] end
  | IIfLetPred b e => match eval same en e with Some v => if Z.ltb 0 v then [(b, (v - 1)%Z) :: en] else [] | None => [] end
  | IForUpto b e => match eval same en e with Some v => map (fun k => (b, k) :: en) (zrange 0 (Z.to_nat (Z.min v 3))) | None => [] end
  | IIfEq e1 e2 => match eval same en e1, eval same en e2 with Some x, Some y => if Z.eqb x y then [en] else [] | _, _ => [] end
  | INeg r args =>
      let t := eval_all same en args in
      if existsb (fun f => Nat.eqb (fst f) r && zeqb_list (snd f) t) d then [] else [en]
  end.

Definition run_body (same : ident -> ident -> bool) (d : db) (its : list item) : list env :=
  fold_left (fun ens it => flat_map (step same d it) ens) its [[]].

(* ---- rustc's verdict: every identifier that is read is bound (values do not matter: eval evaluates every branch) *)
Definition closed_sx (same : ident -> ident -> bool) (bs : list ident) (e : sx) : bool :=
  match eval same (map (fun b => (b, 0%Z)) bs) e with Some _ => true | None => false end.

Definition bound_in (same : ident -> ident -> bool) (bs : list ident) (i : ident) : bool := existsb (fun b => same b i) bs.

Fixpoint closed_args (same : ident -> ident -> bool) (args : list carg) (bs0 bs : list ident) : option (list ident) :=
  (* expressions among the arguments of a clause see the variables bound before the clause (bs0) *)
  match args with
  | [] => Some bs
  | CBind i :: ar => closed_args same ar bs0 (if bound_in same bs i then bs else i :: bs)
  | CExp e :: ar => if closed_sx same bs0 e then closed_args same ar bs0 bs else None
  end.

Definition closed_item (same : ident -> ident -> bool) (it : item) (bs : list ident) : option (list ident) :=
  match it with
  | IClause _ args => closed_args same args bs bs
  | ILet b e | IIfLetSome b e | IIfLetPred b e | IForOne b e | IForUpto b e => if closed_sx same bs e then Some (b :: bs) else None
  | IIfEq e1 e2 => if closed_sx same bs e1 && closed_sx same bs e2 then Some bs else None
  | INeg _ args => if forallb (closed_sx same bs) args then Some bs else None
  end.

Fixpoint closed_body (same : ident -> ident -> bool) (its : list item) (bs : list ident) : option (list ident) :=
  match its with
  | [] => Some bs
  | it :: r => match closed_item same it bs with Some bs' => closed_body same r bs' | None => None end
  end.

Definition run_rule (same : ident -> ident -> bool) (d : db) (r : rule) : outcome :=
  match closed_body same (rbody r) [] with
  | None => CompileError
  | Some bs =>
      if forallb (bound_in same bs) (rhead r)
      then Facts (map (fun en => map (fun i => match lookup same en i with Some v => v | None => 0%Z end) (rhead r)) (run_body same d (rbody r)))
      else CompileError
  end.

(* ---- the hypothesis of MacroScopes.ren_sound_real for every expression of the rule, the mapping being the union of the
   passes and the rule-level identifiers all the binders of the rule; second component: guards_ok (history: the extra
   hypothesis the code needed before fix e64116b; the tie counts the programs that exercise the fix) *)
Definition item_sxs (it : item) : list sx :=
  match it with
  | IClause _ args => flat_map (fun a => match a with CExp e => [e] | CBind _ => [] end) args
  | ILet _ e | IIfLetSome _ e | IIfLetPred _ e | IForOne _ e | IForUpto _ e => [e]
  | IIfEq e1 e2 => [e1; e2]
  | INeg _ args => args
  end.

Definition item_binders (it : item) : list ident :=
  match it with
  | IClause _ args => flat_map (fun a => match a with CBind i => [i] | CExp _ => [] end) args
  | ILet b _ | IIfLetSome b _ | IIfLetPred b _ | IForOne b _ | IForUpto b _ => [b]
  | IIfEq _ _ | INeg _ _ => []
  end.

Definition hyp_report (passes : list mapping) (r : rule) : bool * bool :=
  let m := List.concat passes in
  let dom := flat_map item_binders (rbody r) in
  let es := flat_map item_sxs (rbody r) in
  (forallb (hyp m dom []) es, forallb (guards_ok m) es).

Definition run_case (passes : list mapping) (r : rule) (ds : list db) :=
  (hyp_report passes r,
   map (fun d => (run_rule same_id d r,
                  run_rule same_nm d (ren_rule real_walk passes r),
                  run_rule same_nm d (ren_rule walk_before_fix passes r),
                  run_rule same_nm d (ren_rule seed_walk passes r))) ds).
