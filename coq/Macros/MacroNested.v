(* C08 — binders reached through nested invocations: a variable that [xbv_item] finds in a binding position of an
   item (directly, or as the actual of a parameter that the invoked macro binds, at any nesting depth) IS in a
   binding position of the fully expanded item.  Used by MacroSim.sim_item for the macro locals that no direct item
   of the body binds (`mid` in `macro two($x, $z) { hop!($x, mid), hop!(mid, $z) }`). *)
From Coq Require Import List String Ascii ZArith Bool Arith Lia.
From AV Require Import Macros.MacroModel.
From AV Require Import Macros.MacroLemmas.
Import ListNotations.
Open Scope list_scope.

(* ---------------------------------------------------------------- argument lists *)
Definition map_snd (g : term -> term) (s : list (nat * term)) : list (nat * term) := map (fun pt => (fst pt, g (snd pt))) s.
Lemma assoc_map_snd g s p : assoc (map_snd g s) p = option_map g (assoc s p).
Proof. induction s as [|[q t] s IH]; simpl; [reflexivity|]. destruct (Nat.eqb p q); auto. Qed.
Lemma zip_args_map g ps : forall acts acc, zip_args ps (map g acts) (map_snd g acc) = map_snd g (zip_args ps acts acc).
Proof.
  induction ps as [|[p k] ps IH]; intros [|a acts] acc; simpl; try reflexivity.
  exact (IH acts ((p, a) :: acc)).
Qed.
Lemma bind_args_zip ps : forall acts acc s, bind_args ps acts acc = Some s -> s = zip_args ps acts acc.
Proof.
  induction ps as [|[p k] ps IH]; intros [|a acts] acc s; simpl; try discriminate.
  - intros [= <-]. reflexivity.
  - destruct (act_ok k a); [|discriminate]. apply IH.
Qed.
Lemma zip_args_in ps : forall acts acc p t, In (p, t) (zip_args ps acts acc) -> In t acts \/ In (p, t) acc.
Proof.
  induction ps as [|[q k] ps IH]; intros [|a acts] acc p t H; simpl in H; auto.
  apply IH in H as [H|[H|H]]; [left; right; exact H|injection H as <- <-; left; left; reflexivity|right; exact H].
Qed.

(* ---------------------------------------------------------------- the sequencing combinators keep the outputs of the items *)
Section SeqIncl.
Context {St : Type}.
Variable f : item -> St -> res (list item * St).
Lemma expand_list_in : forall l s o s', expand_list f l s = OK (o, s') ->
  forall it, In it l -> exists s0 o0 s1, f it s0 = OK (o0, s1) /\ incl o0 o.
Proof.
  induction l as [|a l IH]; intros s o s' H it Hin; [destruct Hin|].
  simpl in H. destruct (f a s) as [[o1 s1]|] eqn:E1; [|discriminate].
  destruct (expand_list f l s1) as [[o2 s2]|] eqn:E2; [|discriminate]. injection H as <- <-.
  destruct Hin as [<-|Hin].
  - exists s, o1, s1. split; [exact E1|apply incl_appl, incl_refl].
  - destruct (IH _ _ _ E2 it Hin) as (s0 & o0 & s3 & Hf & Hi). exists s0, o0, s3. split; [exact Hf|apply incl_appr; exact Hi].
Qed.
Lemma expand_alts_in : forall alts s o s', expand_alts f alts s = OK (o, s') ->
  forall alt it, In alt alts -> In it alt -> exists s0 o0 s1 oa, f it s0 = OK (o0, s1) /\ incl o0 oa /\ In oa o.
Proof.
  induction alts as [|a alts IH]; intros s o s' H alt it Ha Hi; [destruct Ha|].
  simpl in H. destruct (expand_list f a s) as [[o1 s1]|] eqn:E1; [|discriminate].
  destruct (expand_alts f alts s1) as [[o2 s2]|] eqn:E2; [|discriminate]. injection H as <- <-.
  destruct Ha as [<-|Ha].
  - destruct (expand_list_in _ _ _ _ E1 it Hi) as (s0 & o0 & s3 & Hf & Hin). exists s0, o0, s3, o1. repeat split; auto. left; reflexivity.
  - destruct (IH _ _ _ E2 alt it Ha Hi) as (s0 & o0 & s3 & oa & Hf & Hin & Ho). exists s0, o0, s3, oa. repeat split; auto. right; exact Ho.
Qed.
End SeqIncl.

Lemma bv_items_mono l1 l2 : incl l1 l2 -> incl (bv_items l1) (bv_items l2).
Proof.
  intros H x Hx. apply in_flat_map in Hx as (it & Hit & Hx). apply in_flat_map. exists it. split; [apply H; exact Hit|exact Hx].
Qed.

(* ---------------------------------------------------------------- one variable position under instantiation *)
Lemma subst_term_TV s u i : subst_var s u = VId i -> subst_term s (TV u) = TV (VId i).
Proof.
  destruct u as [j|q]; simpl.
  - intros [= <-]. reflexivity.
  - destruct (assoc s q) as [t|]; [|discriminate]. destruct t as [w| |]; try discriminate. intros ->. reflexivity.
Qed.
Lemma bp_term_sound s f t v i : In v (bp_term t) -> subst_var s (map_var f v) = VId i -> In i (bv_term (subst_term s (map_term f t))).
Proof.
  destruct t as [u| |]; intros Hv Hs; simpl in Hv; try contradiction. destruct Hv as [<-|[]].
  replace (map_term f (TV u)) with (TV (map_var f u)) by reflexivity.
  rewrite (subst_term_TV _ _ _ Hs). simpl. auto.
Qed.
Lemma bp_cnd_sound s f c v i : In v (bp_cnd c) -> subst_var s (map_var f v) = VId i -> In i (bv_cnd (subst_cnd s (map_cnd f c))).
Proof.
  destruct c as [p xs|x g xs]; simpl; try contradiction. intros [<-|[]] H. rewrite H. simpl. auto.
Qed.

(* ---------------------------------------------------------------- soundness of xbv_item w.r.t. the reference expansion *)
Section Sound.
Variable M : list mdef.

Lemma xbv_sound : forall n it s f k hs k',
  hexpand_item n M (subst_item s (map_item f it)) k = OK (hs, k') ->
  forall N v i, In v (xbv_item N M it) -> subst_var s (map_var f v) = VId i -> In i (bv_items hs).
Proof.
  induction n as [|n IH]; intros it s f k hs k' H N v i Hv Hs; [discriminate|].
  destruct N as [|N]; [destruct Hv|].
  destruct it as [r args cs|c|x g0 args|r args|alts|m acts]; simpl in H, Hv.
  - injection H as <- <-. unfold bv_items. simpl. rewrite app_nil_r.
    apply in_app_or in Hv as [Hv|Hv]; apply in_or_app; [left|right].
    + apply in_flat_map in Hv as (t & Ht & Hv). apply in_flat_map. exists (subst_term s (map_term f t)).
      split; [apply in_map, in_map; exact Ht|eapply bp_term_sound; eauto].
    + apply in_flat_map in Hv as (c & Hc & Hv). apply in_flat_map. exists (subst_cnd s (map_cnd f c)).
      split; [apply in_map, in_map; exact Hc|eapply bp_cnd_sound; eauto].
  - injection H as <- <-. unfold bv_items. simpl. rewrite app_nil_r. eapply bp_cnd_sound; eauto.
  - injection H as <- <-. unfold bv_items. simpl. rewrite app_nil_r. destruct Hv as [<-|[]]. rewrite Hs. simpl. auto.
  - destruct Hv.
  - destruct (expand_alts (hexpand_item n M) _ k) as [[o s1]|] eqn:E; [|discriminate]. injection H as <- <-.
    apply in_flat_map in Hv as (alt & Ha & Hv). apply in_flat_map in Hv as (it & Hit & Hv).
    destruct (expand_alts_in _ _ _ _ _ E (map (subst_item s) (map (map_item f) alt)) (subst_item s (map_item f it)))
      as (s0 & o0 & s2 & oa & Hf & Hin & Ho); [apply in_map, in_map; exact Ha|apply in_map, in_map; exact Hit|].
    pose proof (IH _ _ _ _ _ _ Hf N v i Hv Hs) as Hi.
    unfold bv_items at 1. simpl. rewrite app_nil_r. apply in_flat_map. exists oa. split; [exact Ho|].
    apply (bv_items_mono _ _ Hin). exact Hi.
  - unfold instantiate in H. destruct (lookup_macro M m) as [d|] eqn:L; [|discriminate].
    destruct (bind_args (mparams d) _ []) as [s'|] eqn:Eb; [|discriminate].
    destruct (par_items _) eqn:Ep; [discriminate|].
    apply in_flat_map in Hv as (v' & Hv' & Hth).
    apply in_flat_map in Hv' as (it' & Hit' & Hv').
    destruct v' as [j|p]; simpl in Hth; [destruct Hth|].
    destruct (assoc (zip_args (mparams d) acts []) p) as [t|] eqn:Ea; [|destruct Hth].
    destruct t as [w| |]; [|destruct Hth|destruct Hth]. destruct Hth as [<-|[]].
    destruct (expand_list_in _ _ _ _ _ H (subst_item s' (map_item (set_sc (S k)) it'))) as (s0 & o0 & s2 & Hf & Hin).
    { unfold subst_items, map_items. apply in_map, in_map. exact Hit'. }
    apply (bv_items_mono _ _ Hin).
    apply (IH _ _ _ _ _ _ Hf N (VPar p) i Hv').
    apply bind_args_zip in Eb. rewrite map_map in Eb.
    pose proof (zip_args_map (fun t => subst_term s (map_term f t)) (mparams d) acts []) as Z. simpl in Z. rewrite Z in Eb.
    simpl. rewrite Eb, assoc_map_snd, Ea. cbn [option_map].
    replace (map_term f (TV w)) with (TV (map_var f w)) by reflexivity.
    rewrite (subst_term_TV _ _ _ Hs). reflexivity.
Qed.

Lemma xbv_sound_list n l s f k hs k' :
  expand_list (hexpand_item n M) (subst_items s (map_items f l)) k = OK (hs, k') ->
  forall N v i, In v (xbv_items N M l) -> subst_var s (map_var f v) = VId i -> In i (bv_items hs).
Proof.
  intros H N v i Hv Hs. apply in_flat_map in Hv as (it & Hit & Hv).
  destruct (expand_list_in _ _ _ _ _ H (subst_item s (map_item f it))) as (s0 & o0 & s2 & Hf & Hin).
  { unfold subst_items, map_items. apply in_map, in_map. exact Hit. }
  apply (bv_items_mono _ _ Hin). eapply xbv_sound; eauto.
Qed.

(* the identifiers that xbv_item reports are identifiers of the item *)
Lemma xbv_item_ids : forall N it j, In (VId j) (xbv_item N M it) -> In j (ids_item it).
Proof.
  induction N as [|N IH]; intros it j H; [destruct H|].
  destruct it as [r args cs|c|x g0 args|r args|alts|m acts]; simpl in H |- *.
  - apply in_app_or in H as [H|H]; apply in_or_app; [left|right].
    + apply in_flat_map in H as (t & Ht & H). apply in_flat_map. exists t. split; [exact Ht|].
      destruct t as [u| |]; simpl in H; try contradiction. destruct H as [->|[]]. simpl. auto.
    + apply in_flat_map in H as (c & Hc & H). apply in_flat_map. exists c. split; [exact Hc|].
      destruct c as [p xs|x g xs]; simpl in H; try contradiction. destruct H as [->|[]]. simpl. auto.
  - destruct c as [p xs|x g xs]; simpl in H; try contradiction. destruct H as [->|[]]. simpl. auto.
  - destruct H as [->|[]]. simpl. auto.
  - destruct H.
  - apply in_flat_map in H as (alt & Ha & H). apply in_flat_map in H as (it & Hit & H).
    apply in_flat_map. exists alt. split; [exact Ha|]. apply in_flat_map. exists it. split; [exact Hit|]. apply IH; exact H.
  - destruct (lookup_macro M m) as [d|]; [|destruct H].
    apply in_flat_map in H as (v' & _ & Hth). destruct v' as [j'|p]; simpl in Hth; [destruct Hth|].
    destruct (assoc (zip_args (mparams d) acts []) p) as [t|] eqn:Ea; [|destruct Hth].
    destruct t as [w| |]; [|destruct Hth|destruct Hth]. destruct Hth as [->|[]].
    apply assoc_in in Ea. apply zip_args_in in Ea as [Ea|[]].
    apply in_flat_map. exists (TV (VId j)). split; [exact Ea|simpl; auto].
Qed.
Lemma xbv_items_ids N l j : In (VId j) (xbv_items N M l) -> In j (ids_items l).
Proof.
  intros H. apply in_flat_map in H as (it & Hit & H). apply in_flat_map. exists it. split; [exact Hit|eapply xbv_item_ids; eauto].
Qed.
End Sound.

Lemma var_names_in l s : In s (var_names l) <-> exists j, In (VId j) l /\ iname j = s.
Proof.
  unfold var_names. rewrite in_flat_map. split.
  - intros (v & Hv & H). destruct v as [j|p]; simpl in H; [|destruct H]. destruct H as [<-|[]]. eauto.
  - intros (j & Hj & <-). exists (VId j). split; [exact Hj|simpl; auto].
Qed.
