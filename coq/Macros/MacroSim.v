(* C08 — simulation between the faithful expansion (renaming by spans / origin tags, per-rule GenSym) and the
   hygienic reference expansion (scope stamps): by induction on the depth budget, for arbitrary nesting. *)
From Coq Require Import List String Ascii ZArith Bool Arith Lia Decimal DecimalString DecimalNat.
From AV Require Import Macros.MacroModel.
From AV Require Import Macros.MacroLemmas.
From AV Require Import Macros.MacroNames.
From AV Require Import Macros.MacroNested.
Import ListNotations.
Open Scope list_scope.

Definition clr (i : ident) : ident := names_via (fun n _ => n) i.
Definition nu_id : string -> nat -> string := fun n _ => n.

Lemma clr_set_sc K i : isc i = 0 -> clr (set_sc K i) = i.
Proof. destruct i; simpl; intros ->; reflexivity. Qed.

(* ---------------------------------------------------------------- generic facts about the sequencing combinators *)
Section SeqFacts.
Context {St : Type}.
Variable f : item -> St -> res (list item * St).

Lemma expand_list_app_inv : forall l s o s', expand_list f l s = OK (o, s') ->
  forall it, In it l -> exists s0 o0 s1, f it s0 = OK (o0, s1).
Proof.
  induction l as [|a l IH]; intros s o s' H it Hin; [destruct Hin|].
  simpl in H. destruct (f a s) as [[o1 s1]|] eqn:E1; [|discriminate].
  destruct (expand_list f l s1) as [[o2 s2]|] eqn:E2; [|discriminate].
  destruct Hin as [<-|Hin]; [eauto|eapply IH; eauto].
Qed.

Lemma expand_alts_inv : forall alts s o s', expand_alts f alts s = OK (o, s') ->
  forall alt it, In alt alts -> In it alt -> exists s0 o0 s1, f it s0 = OK (o0, s1).
Proof.
  induction alts as [|a alts IH]; intros s o s' H alt it Ha Hi; [destruct Ha|].
  simpl in H. destruct (expand_list f a s) as [[o1 s1]|] eqn:E1; [|discriminate].
  destruct (expand_alts f alts s1) as [[o2 s2]|] eqn:E2; [|discriminate].
  destruct Ha as [<-|Ha]; [eapply expand_list_app_inv; eauto|eapply IH; eauto].
Qed.

Variables (Q : item -> Prop) (R : item -> Prop).
Hypothesis step : forall it s o s', f it s = OK (o, s') -> Q it -> Forall R o.
Lemma expand_list_Forall : forall l s o s', expand_list f l s = OK (o, s') -> Forall Q l -> Forall R o.
Proof.
  induction l as [|a l IH]; intros s o s' H HQ; simpl in H.
  - injection H as <- <-. constructor.
  - destruct (f a s) as [[o1 s1]|] eqn:E1; [|discriminate].
    destruct (expand_list f l s1) as [[o2 s2]|] eqn:E2; [|discriminate]. injection H as <- <-.
    inversion HQ; subst. apply Forall_app. split; [eapply step; eauto|eapply IH; eauto].
Qed.
Lemma expand_alts_Forall : forall alts s o s', expand_alts f alts s = OK (o, s') -> Forall (Forall Q) alts -> Forall (Forall R) o.
Proof.
  induction alts as [|a alts IH]; intros s o s' H HQ; simpl in H.
  - injection H as <- <-. constructor.
  - destruct (expand_list f a s) as [[o1 s1]|] eqn:E1; [|discriminate].
    destruct (expand_alts f alts s1) as [[o2 s2]|] eqn:E2; [|discriminate]. injection H as <- <-.
    inversion HQ; subst. constructor; [eapply expand_list_Forall; eauto|eapply IH; eauto].
Qed.
End SeqFacts.

Lemma forallb_Forall {A} (p : A -> bool) l : forallb p l = true <-> Forall (fun x => p x = true) l.
Proof. rewrite forallb_forall, Forall_forall. tauto. Qed.

(* ---------------------------------------------------------------- the reference expansion keeps binders *)
Section HexpFacts.
Variable M : list mdef.

Lemma expand_list_bv (H : item -> nat -> res (list item * nat)) :
  (forall it k o k', H it k = OK (o, k') -> incl (bv_item it) (bv_items o)) ->
  forall l k o k', expand_list H l k = OK (o, k') -> incl (bv_items l) (bv_items o).
Proof.
  intros Hs. induction l as [|a l IH]; intros k o k' E; simpl in E.
  - injection E as <- <-. apply incl_refl.
  - destruct (H a k) as [[o1 s1]|] eqn:E1; [|discriminate].
    destruct (expand_list H l s1) as [[o2 s2]|] eqn:E2; [|discriminate]. injection E as <- <-.
    unfold bv_items in *. simpl. rewrite flat_map_app. apply incl_app; [apply incl_appl; eapply Hs; eauto|apply incl_appr; eapply IH; eauto].
Qed.
Lemma expand_alts_bv (H : item -> nat -> res (list item * nat)) :
  (forall it k o k', H it k = OK (o, k') -> incl (bv_item it) (bv_items o)) ->
  forall alts k o k', expand_alts H alts k = OK (o, k') -> incl (flat_map bv_items alts) (flat_map bv_items o).
Proof.
  intros Hs. induction alts as [|a alts IH]; intros k o k' E; simpl in E.
  - injection E as <- <-. apply incl_refl.
  - destruct (expand_list H a k) as [[o1 s1]|] eqn:E1; [|discriminate].
    destruct (expand_alts H alts s1) as [[o2 s2]|] eqn:E2; [|discriminate]. injection E as <- <-.
    simpl. apply incl_app; [apply incl_appl; eapply expand_list_bv; eauto|apply incl_appr; eapply IH; eauto].
Qed.
Lemma hexp_bv : forall n h k hs k', hexpand_item n M h k = OK (hs, k') -> incl (bv_item h) (bv_items hs).
Proof.
  induction n as [|n IH]; intros h k hs k' H; [discriminate|].
  destruct h as [r a c|c|x g0 a|r a|alts|m acts]; simpl in H; try (injection H as <- <-; unfold bv_items; simpl; rewrite ?app_nil_r; apply incl_refl).
  - destruct (expand_alts (hexpand_item n M) alts k) as [[o s]|] eqn:E; [|discriminate]. injection H as <- <-.
    unfold bv_items at 1. simpl. rewrite app_nil_r. apply (expand_alts_bv (hexpand_item n M) IH) in E. exact E.
  - simpl. intros x [].
Qed.
End HexpFacts.


Section Sim.
Variable M : list mdef.
Variable rk : nat -> nat.

Definition sc_le (b : nat) (ids : list ident) : Prop := forall i, In i ids -> isc i <= b.
Definition above (ids : list ident) (invs : list nat) : Prop :=
  forall i m m', In i ids -> In m' invs -> iorg i = OMac m -> rk m' < rk m.

Record SimOut (b k k' : nat) (g g' : gensym) (inids : list ident) (ininvs : list nat)
              (nu : string -> nat -> string) (outids : list ident) : Prop := {
  so_k : k <= k';
  so_old : forall nm s, s <= k -> nu nm s = nm;
  so_ids : forall i, In i outids ->
             (isc i <= b /\ In i inids)
             \/ (k < isc i <= k' /\ (exists m m0, iorg i = OMac m /\ In m0 ininvs /\ rk m <= rk m0) /\ gen_in g g' (nu (iname i) (isc i)));
  so_inj : forall i j, In i outids -> In j outids -> k < isc i -> k < isc j ->
             nu (iname i) (isc i) = nu (iname j) (isc j) -> iname i = iname j /\ isc i = isc j;
  so_g : gs_le g g' }.

Lemma SimOut_nil b k g inids ininvs : SimOut b k k g g inids ininvs nu_id [].
Proof. constructor; try (intros; contradiction); auto using gs_le_refl. Qed.

Definition merge (k1 : nat) (nu1 nu2 : string -> nat -> string) : string -> nat -> string :=
  fun nm s => if Nat.leb s k1 then nu1 nm s else nu2 nm s.

Lemma SimOut_merge b k k1 k2 g g1 g2 in1 in2 iv1 iv2 nu1 nu2 o1 o2 :
  b <= k ->
  SimOut b k k1 g g1 in1 iv1 nu1 o1 -> SimOut b k1 k2 g1 g2 in2 iv2 nu2 o2 ->
  SimOut b k k2 g g2 (in1 ++ in2) (iv1 ++ iv2) (merge k1 nu1 nu2) (o1 ++ o2)
  /\ (forall i, In i o1 -> merge k1 nu1 nu2 (iname i) (isc i) = nu1 (iname i) (isc i))
  /\ (forall i, In i o2 -> merge k1 nu1 nu2 (iname i) (isc i) = nu2 (iname i) (isc i)).
Proof.
  intros Hbk [K1 O1 I1 J1 G1] [K2 O2 I2 J2 G2].
  assert (A1 : forall i, In i o1 -> merge k1 nu1 nu2 (iname i) (isc i) = nu1 (iname i) (isc i)).
  { intros i Hi. unfold merge. destruct (I1 i Hi) as [[Hs _]|[[_ Hs] _]]; destruct (Nat.leb_spec (isc i) k1); auto; lia. }
  assert (A2 : forall i, In i o2 -> merge k1 nu1 nu2 (iname i) (isc i) = nu2 (iname i) (isc i)).
  { intros i Hi. unfold merge. destruct (I2 i Hi) as [[Hs _]|[[Hs _] _]]; destruct (Nat.leb_spec (isc i) k1); auto; try lia.
    rewrite O1 by lia. rewrite O2 by lia. reflexivity. }
  split; [|split; assumption]. constructor.
  - lia.
  - intros nm s Hs. unfold merge. destruct (Nat.leb_spec s k1); [apply O1; auto|lia].
  - intros i Hi. apply in_app_or in Hi as [Hi|Hi].
    + rewrite (A1 i Hi). destruct (I1 i Hi) as [[Hs Hin]|[Hs [(m & m0 & Ho & Hm0 & Hr) Hg]]].
      * left; split; auto. apply in_or_app; auto.
      * right. split; [lia|]. split; [exists m, m0; repeat split; auto; apply in_or_app; auto|].
        eapply gen_in_mono; [apply gs_le_refl|exact G2|exact Hg].
    + rewrite (A2 i Hi). destruct (I2 i Hi) as [[Hs Hin]|[Hs [(m & m0 & Ho & Hm0 & Hr) Hg]]].
      * left; split; auto. apply in_or_app; auto.
      * right. split; [lia|]. split; [exists m, m0; repeat split; auto; apply in_or_app; auto|].
        eapply gen_in_mono; [exact G1|apply gs_le_refl|exact Hg].
  - intros i j Hi Hj Si Sj E.
    apply in_app_or in Hi as [Hi|Hi]; apply in_app_or in Hj as [Hj|Hj].
    + rewrite (A1 i Hi), (A1 j Hj) in E. apply J1; auto.
    + rewrite (A1 i Hi), (A2 j Hj) in E. exfalso.
      destruct (I1 i Hi) as [[Hs _]|[_ [_ Hg1]]]; [lia|].
      destruct (I2 j Hj) as [[Hs _]|[_ [_ Hg2]]]; [lia|].
      exact (gen_in_disjoint _ _ _ _ _ G1 Hg1 Hg2 E).
    + rewrite (A2 i Hi), (A1 j Hj) in E. exfalso.
      destruct (I2 i Hi) as [[Hs _]|[_ [_ Hg2]]]; [lia|].
      destruct (I1 j Hj) as [[Hs _]|[_ [_ Hg1]]]; [lia|].
      exact (gen_in_disjoint _ _ _ _ _ G1 Hg1 Hg2 (eq_sym E)).
    + rewrite (A2 i Hi), (A2 j Hj) in E.
      destruct (I2 i Hi) as [[Hs _]|[[Hs _] _]]; [lia|].
      destruct (I2 j Hj) as [[Hs' _]|[[Hs' _] _]]; [lia|].
      apply J2; auto.
  - eapply gs_le_trans; eauto.
Qed.

Lemma sc_le_app b l1 l2 : sc_le b (l1 ++ l2) -> sc_le b l1 /\ sc_le b l2.
Proof. intros H; split; intros i Hi; apply H; apply in_or_app; auto. Qed.
Lemma above_app l1 l2 v1 v2 : above (l1 ++ l2) (v1 ++ v2) -> above l1 v1 /\ above l2 v2.
Proof. intros H; split; intros i m m' Hi Hm Ho; eapply H; eauto; apply in_or_app; auto. Qed.

(* the property proved by induction on the depth budget, for one item *)
Definition SimItem (E : item -> gensym -> res (list item * gensym)) (H : item -> nat -> res (list item * nat)) : Prop :=
  forall h b k g es g', b <= k -> sc_le b (ids_item h) -> above (ids_item h) (invs_item h) ->
    E (map_item clr h) g = OK (es, g') ->
    exists hs k' nu, H h k = OK (hs, k') /\ es = map_items (names_via nu) hs
                     /\ SimOut b k k' g g' (ids_item h) (invs_item h) nu (ids_items hs).

Lemma ids_items_app l1 l2 : ids_items (l1 ++ l2) = ids_items l1 ++ ids_items l2.
Proof. unfold ids_items. apply flat_map_app. Qed.
Lemma invs_items_app l1 l2 : invs_items (l1 ++ l2) = invs_items l1 ++ invs_items l2.
Proof. unfold invs_items. apply flat_map_app. Qed.
Lemma map_items_app f l1 l2 : map_items f (l1 ++ l2) = map_items f l1 ++ map_items f l2.
Proof. unfold map_items. apply map_app. Qed.

Lemma sim_list E H : SimItem E H ->
  forall l b k g es g', b <= k -> sc_le b (ids_items l) -> above (ids_items l) (invs_items l) ->
    expand_list E (map_items clr l) g = OK (es, g') ->
    exists hs k' nu, expand_list H l k = OK (hs, k') /\ es = map_items (names_via nu) hs
                     /\ SimOut b k k' g g' (ids_items l) (invs_items l) nu (ids_items hs).
Proof.
  intros HS. induction l as [|h l IH]; intros b k g es g' Hbk Hsc Hab Hex; simpl in Hex.
  - injection Hex as <- <-. exists [], k, nu_id. split; [reflexivity|split; [reflexivity|apply SimOut_nil]].
  - destruct (E (map_item clr h) g) as [[o1 g1]|] eqn:E1; [|discriminate].
    destruct (expand_list E _ g1) as [[o2 g2]|] eqn:E2; [|discriminate]. injection Hex as <- <-.
    change (ids_items (h :: l)) with (ids_item h ++ ids_items l) in *.
    change (invs_items (h :: l)) with (invs_item h ++ invs_items l) in *.
    apply sc_le_app in Hsc as [Hsc1 Hsc2]. apply above_app in Hab as [Hab1 Hab2].
    destruct (HS h b k g o1 g1 Hbk Hsc1 Hab1 E1) as (hs1 & k1 & nu1 & Eh1 & -> & S1).
    assert (Hbk1 : b <= k1) by (pose proof (so_k _ _ _ _ _ _ _ _ _ S1); lia).
    destruct (IH b k1 g1 o2 g2 Hbk1 Hsc2 Hab2 E2) as (hs2 & k2 & nu2 & Eh2 & -> & S2).
    destruct (SimOut_merge _ _ _ _ _ _ _ _ _ _ _ _ _ _ _ Hbk S1 S2) as (S & A1 & A2).
    exists (hs1 ++ hs2), k2, (merge k1 nu1 nu2). simpl. rewrite Eh1, Eh2. split; [reflexivity|]. split.
    + rewrite map_items_app. f_equal; apply map_items_ext; intros i Hi; unfold names_via; [rewrite A1|rewrite A2]; auto.
    + rewrite ids_items_app. exact S.
Qed.

Lemma sim_alts E H : SimItem E H ->
  forall alts b k g es g', b <= k -> sc_le b (flat_map ids_items alts) -> above (flat_map ids_items alts) (flat_map invs_items alts) ->
    expand_alts E (map (map_items clr) alts) g = OK (es, g') ->
    exists hs k' nu, expand_alts H alts k = OK (hs, k') /\ es = map (map_items (names_via nu)) hs
                     /\ SimOut b k k' g g' (flat_map ids_items alts) (flat_map invs_items alts) nu (flat_map ids_items hs).
Proof.
  intros HS. induction alts as [|a alts IH]; intros b k g es g' Hbk Hsc Hab Hex; simpl in Hex.
  - injection Hex as <- <-. exists [], k, nu_id. split; [reflexivity|split; [reflexivity|apply SimOut_nil]].
  - destruct (expand_list E (map_items clr a) g) as [[o1 g1]|] eqn:E1; [|discriminate].
    destruct (expand_alts E (map (map_items clr) alts) g1) as [[o2 g2]|] eqn:E2; [|discriminate]. injection Hex as <- <-.
    simpl in Hsc, Hab.
    apply sc_le_app in Hsc as [Hsc1 Hsc2]. apply above_app in Hab as [Hab1 Hab2].
    destruct (sim_list E H HS a b k g o1 g1 Hbk Hsc1 Hab1 E1) as (hs1 & k1 & nu1 & Eh1 & -> & S1).
    assert (Hbk1 : b <= k1) by (pose proof (so_k _ _ _ _ _ _ _ _ _ S1); lia).
    destruct (IH b k1 g1 o2 g2 Hbk1 Hsc2 Hab2 E2) as (hs2 & k2 & nu2 & Eh2 & -> & S2).
    destruct (SimOut_merge _ _ _ _ _ _ _ _ _ _ _ _ _ _ _ Hbk S1 S2) as (S & A1 & A2).
    exists (hs1 :: hs2), k2, (merge k1 nu1 nu2). simpl. rewrite Eh1, Eh2. split; [reflexivity|]. split.
    + f_equal.
      * apply map_items_ext; intros i Hi; unfold names_via; rewrite A1; auto.
      * apply map_ext_in. intros alt Halt. apply map_items_ext. intros i Hi. unfold names_via. rewrite A2; auto.
        apply in_flat_map. eauto.
    + exact S.
Qed.
End Sim.


Section Main.
Variable M : list mdef.
Variable rk : nat -> nat.
Hypothesis WF : forallb (wf_def rk M) M = true.

Lemma wf_ident_spec o i : wf_ident o i = true -> iorg i = o /\ isc i = 0 /\ user_name (iname i) = true.
Proof.
  unfold wf_ident. rewrite !andb_true_iff. intros [[Ho Hs] Hu]. apply Nat.eqb_eq in Hs. repeat split; auto.
  destruct (iorg i), o; simpl in Ho; try discriminate; auto. apply Nat.eqb_eq in Ho. congruence.
Qed.

(* an identifier of a macro body is bound by the body: by one of its own items, or through nested invocations *)
Definition bound_in (d : mdef) (nm : string) : Prop :=
  In nm (map iname (bv_items (mbody d))) \/ In nm (var_names (xbv_items DEPTH M (mbody d))).

Lemma wf_unpack d : In d M ->
  (forall i, In i (ids_items (mbody d)) -> iorg i = OMac (mname d) /\ isc i = 0 /\ user_name (iname i) = true)
  /\ (forall i, In i (ids_items (mbody d)) -> bound_in d (iname i))
  /\ (forall m', In m' (invs_items (mbody d)) -> rk m' < rk (mname d)).
Proof.
  intros Hd. rewrite forallb_forall in WF. specialize (WF d Hd). unfold wf_def, wf_def_ids, wf_def_bound, wf_def_rank in WF.
  rewrite !andb_true_iff in WF. destruct WF as [[W1 W3] W4]. split; [|split]; auto.
  - intros i Hi. rewrite forallb_forall in W1. apply wf_ident_spec; auto.
  - intros i Hi. rewrite forallb_forall in W3. specialize (W3 i Hi). apply orb_true_iff in W3 as [W3|W3]; [left|right]; apply mem_str_in; exact W3.
  - intros m' Hm. rewrite forallb_forall in W4. apply Nat.ltb_lt. auto.
Qed.

(* the two instantiations of a macro body *)
Lemma inst_rel m acts K be :
  instantiate M m (map (map_term clr) acts) (fun b => b) = OK be ->
  exists d bh, lookup_macro M m = Some d /\ instantiate M m acts (map_items (set_sc K)) = OK bh /\ be = map_items clr bh
    /\ incl (ids_items bh) (map (set_sc K) (ids_items (mbody d)) ++ flat_map ids_term acts)
    /\ invs_items bh = invs_items (mbody d)
    /\ incl (map (set_sc K) (bv_items (mbody d))) (bv_items bh)
    /\ exists sh, bh = subst_items sh (map_items (set_sc K) (mbody d)).
Proof.
  unfold instantiate. destruct (lookup_macro M m) as [d|] eqn:L; [|discriminate].
  pose proof (bind_args_map clr (mparams d) acts []) as BA. simpl in BA. rewrite BA. clear BA.
  destruct (bind_args (mparams d) acts []) as [sh|] eqn:Eb; simpl; [|discriminate].
  destruct (lookup_macro_in _ _ _ L) as [Hd Hn]. destruct (wf_unpack d Hd) as (W1 & _).
  assert (Hrel : subst_items (map_sigma clr sh) (mbody d) = map_items clr (subst_items sh (map_items (set_sc K) (mbody d)))).
  { rewrite subst_items_map, map_items_comp. f_equal. symmetry. apply map_items_id. intros i Hi. apply clr_set_sc. apply W1; auto. }
  rewrite Hrel, par_items_map.
  destruct (par_items (subst_items sh (map_items (set_sc K) (mbody d)))) eqn:Ep; [discriminate|].
  intros [= <-]. exists d, (subst_items sh (map_items (set_sc K) (mbody d))). repeat split; auto.
  - intros x Hx. apply ids_items_subst in Hx. rewrite ids_items_map in Hx. apply in_app_or in Hx as [Hx|Hx]; apply in_or_app; auto.
    right. apply bind_args_ids in Eb. apply Eb in Hx. simpl in Hx. rewrite app_nil_r in Hx. exact Hx.
  - rewrite invs_items_subst, invs_items_map. reflexivity.
  - rewrite <- bv_items_map. apply bv_items_subst.
  - exists sh. reflexivity.
Qed.

Lemma ren_idem m mp i : (forall s x, sassoc mp s = Some x -> sassoc mp x = None) -> ren m mp (ren m mp i) = ren m mp i.
Proof.
  intros H. unfold ren. destruct (org_is m i) eqn:E; [|rewrite E; reflexivity].
  destruct (sassoc mp (iname i)) as [x|] eqn:Ex; [|rewrite E, Ex; reflexivity].
  assert (org_is m (set_name x i) = true) by exact E. rewrite H0. simpl. rewrite (H _ _ Ex). reflexivity.
Qed.

Lemma ren_item_map R it : (forall i, In i (ids_item it) -> R (R i) = R i) -> ren_item R it = map_item R it.
Proof.
  induction it using item_ind'; simpl; intros Hid; try reflexivity.
  - f_equal. apply map_ext_in. intros t Ht.
    destruct t as [[i|p]| |]; simpl; try reflexivity. rewrite Hid; auto. apply in_or_app; left. apply in_flat_map. exists (TV (VId i)). simpl; auto.
  - f_equal. apply map_ext_in. intros alt Ha. apply map_ext_in. intros i Hi.
    apply (FF_in _ _ H alt Ha i Hi).
    intros j Hj. apply Hid. apply in_flat_map. exists alt; split; auto. apply in_flat_map; eauto.
Qed.
Lemma ren_items_map R l : (forall i, In i (ids_items l) -> R (R i) = R i) -> map (ren_item R) l = map_items R l.
Proof.
  intros Hid. apply map_ext_in. intros it Hit. apply ren_item_map.
  intros i Hi. apply Hid. apply in_flat_map; eauto.
Qed.

Lemma org_is_spec m i : org_is m i = true <-> iorg i = OMac m.
Proof. unfold org_is. destruct (iorg i); [split; [discriminate|discriminate]|]. rewrite Nat.eqb_eq. split; [intros ->; auto|intros [= ->]; auto]. Qed.

Theorem sim_item : forall n, SimItem rk (expand_item n M) (hexpand_item n M).
Proof.
  induction n as [|n IH]; intros h b k g es g' Hbk Hsc Hab Hex; [discriminate|].
  destruct h as [r a c|c|x g0 a|r a|alts|m acts].
  1-4: (simpl in Hex; injection Hex as <- <-; eexists [_], k, nu_id; split; [reflexivity|]; split; [reflexivity|];
        constructor; [lia|reflexivity| |intros i j Hi Hj Si; exfalso; unfold ids_items in Hi; simpl in Hi; rewrite app_nil_r in Hi; specialize (Hsc i Hi); lia|apply gs_le_refl];
        intros i Hi; left; unfold ids_items in Hi; simpl in Hi; rewrite app_nil_r in Hi; split; [apply Hsc; exact Hi|exact Hi]).
  - (* disjunction *)
    simpl in Hex. destruct (expand_alts (expand_item n M) _ g) as [[o g1]|] eqn:E; [|discriminate]. injection Hex as <- <-.
    destruct (sim_alts rk _ _ IH alts b k g o g1 Hbk Hsc Hab E) as (hs & k' & nu & Eh & -> & S).
    exists [IDisj hs], k', nu. simpl. rewrite Eh. split; [reflexivity|]. split; [reflexivity|].
    unfold ids_items. simpl. rewrite app_nil_r. exact S.
  - (* invocation *)
    simpl in Hex. destruct (instantiate M m (map (map_term clr) acts) (fun b0 => b0)) as [be|] eqn:Ei; [|discriminate].
    destruct (expand_list (expand_item n M) be g) as [[its g1]|] eqn:El; [|discriminate].
    set (K := S k) in *.
    destruct (inst_rel m acts K be Ei) as (d & bh & L & Eh & -> & Hids & Hinv & Hbv & sh & Ebh).
    destruct (lookup_macro_in _ _ _ L) as [Hd Hn]. destruct (wf_unpack d Hd) as (W1 & W3 & W4). rewrite Hn in *.
    simpl in Hsc, Hab.
    (* facts about the identifiers of the instantiated body *)
    assert (Hbh : forall i, In i (ids_items bh) -> (isc i = K /\ iorg i = OMac m /\ user_name (iname i) = true /\ bound_in d (iname i))
                                                    \/ (isc i <= b /\ In i (flat_map ids_term acts))).
    { intros i Hi. apply Hids in Hi. apply in_app_or in Hi as [Hi|Hi]; [left|right; split; auto].
      apply in_map_iff in Hi as (i0 & <- & Hi0). destruct (W1 i0 Hi0) as (Ho & Hs & Hu). simpl. repeat split; auto. }
    assert (Hsc' : sc_le K (ids_items bh)).
    { intros i Hi. destruct (Hbh i Hi) as [[-> _]|[Hs _]]; unfold K; lia. }
    assert (Hab' : above rk (ids_items bh) (invs_items bh)).
    { intros i m1 m' Hi Hm' Ho. rewrite Hinv in Hm'. apply W4 in Hm'.
      destruct (Hbh i Hi) as [(_ & Ho' & _)|[_ Hia]]; [congruence|].
      assert (rk m < rk m1) by (eapply Hab; eauto; simpl; auto). lia. }
    destruct (sim_list rk _ _ IH bh K K g its g1 (le_n _) Hsc' Hab' El) as (hs & k' & nu1 & Ehs & -> & S1).
    destruct S1 as [K1 O1 I1 J1 G1].
    (* identifiers of the expanded body tagged with m are exactly those of scope K *)
    assert (Horg : forall i, In i (ids_items hs) -> iorg i = OMac m -> isc i = K /\ user_name (iname i) = true).
    { intros i Hi Ho. destruct (I1 i Hi) as [[_ Hin]|[_ [(m1 & m0 & Ho1 & Hm0 & Hr) _]]].
      - destruct (Hbh i Hin) as [(Hs & _ & Hu & _)|[_ Hia]]; [auto|].
        exfalso. assert (rk m < rk m) by (eapply Hab; eauto; simpl; auto). lia.
      - exfalso. rewrite Hinv in Hm0. apply W4 in Hm0. assert (m1 = m) by congruence. subst. lia. }
    assert (HK : forall i, In i (ids_items hs) -> isc i = K -> iorg i = OMac m /\ bound_in d (iname i)).
    { intros i Hi Hs. destruct (I1 i Hi) as [[_ Hin]|[[Hlt _] _]]; [|lia].
      destruct (Hbh i Hin) as [(_ & Ho & _ & Hb)|[Hs' _]]; [auto|unfold K in *; lia]. }
    unfold rename_originated in Hex.
    destruct (issue (originated m (map_items (names_via nu1) hs)) g1) as [mp g2] eqn:Eis. injection Hex as <- <-.
    pose proof (issue_spec _ _ _ _ (dedup_str_nodup _) Eis) as (G2 & Sin & Sout).
    set (S := originated m (map_items (names_via nu1) hs)) in *.
    (* membership in S *)
    assert (HS_user : forall s, In s S -> user_name s = true).
    { intros s Hs. unfold S, originated in Hs. rewrite dedup_str_in in Hs. apply in_map_iff in Hs as (e & <- & He).
      apply filter_In in He as [He Ho]. rewrite bv_items_map in He. apply in_map_iff in He as (i & <- & Hi).
      apply bv_items_incl in Hi. apply org_is_spec in Ho. simpl in Ho. destruct (Horg i Hi Ho) as [Hs Hu].
      simpl. rewrite Hs, O1 by lia. exact Hu. }
    (* a bound identifier of the body has a binding occurrence among the expanded items: one of its own items binds it
       (hexpand keeps binders), or nested invocations do (MacroNested.xbv_sound_list) *)
    assert (HB : forall nm, bound_in d nm -> exists j0, iname j0 = nm /\ In j0 (ids_items (mbody d)) /\ In (set_sc K j0) (bv_items hs)).
    { intros nm [Hb|Hb].
      - apply in_map_iff in Hb as (j0 & Hj0n & Hj0). exists j0. split; [exact Hj0n|]. split; [apply bv_items_incl; exact Hj0|].
        eapply (expand_list_bv (hexpand_item n M) (hexp_bv M n)); [exact Ehs|]. apply Hbv. apply in_map. exact Hj0.
      - apply var_names_in in Hb as (j0 & Hj0 & Hj0n). exists j0. split; [exact Hj0n|]. split; [eapply xbv_items_ids; exact Hj0|].
        rewrite Ebh in Ehs. eapply (xbv_sound_list M n _ _ _ _ _ _ Ehs DEPTH (VId j0)); [exact Hj0|reflexivity]. }
    assert (HS_K : forall i, In i (ids_items hs) -> isc i = K -> In (iname i) S).
    { intros i Hi Hs. destruct (HK i Hi Hs) as [Ho Hb]. destruct (HB _ Hb) as (j0 & Hj0n & Hj0 & Hj).
      unfold S, originated. apply dedup_str_in. apply in_map_iff.
      exists (names_via nu1 (set_sc K j0)). split.
      - simpl. rewrite O1 by lia. exact Hj0n.
      - apply filter_In. split; [rewrite bv_items_map; apply in_map; exact Hj|].
        apply org_is_spec. simpl. apply W1 in Hj0. tauto. }
    set (R := ren m mp).
    assert (Hidem : forall i, R (R i) = R i).
    { intros i. apply ren_idem. intros s x Hsx. destruct (in_dec string_dec s S) as [Hs|Hs].
      - destruct (Sin s Hs) as [E _]. rewrite E in Hsx. injection Hsx as <-.
        apply Sout. intros Hc. apply HS_user in Hc. rewrite gname_not_user in Hc. discriminate.
      - destruct (Sout s Hs) as [E _]. congruence. }
    rewrite (ren_items_map R _ (fun i _ => Hidem i)), map_items_comp.
    set (nu2 := fun nm s => if Nat.eqb s K then gname nm (gs_count g1 nm) else nu1 nm s).
    assert (Hnu2 : forall i, In i (ids_items hs) -> R (names_via nu1 i) = names_via nu2 i).
    { intros i Hi. unfold R, ren, nu2, names_via. simpl.
      destruct (Nat.eqb_spec (isc i) K) as [Hs|Hs].
      - destruct (HK i Hi Hs) as [Ho _]. assert (Ho' : org_is m {| iname := nu1 (iname i) (isc i); iorg := iorg i; isc := 0 |} = true) by (apply org_is_spec; exact Ho).
        rewrite Ho'. rewrite Hs, O1 by lia. destruct (Sin (iname i) (HS_K i Hi Hs)) as [E _]. rewrite E. reflexivity.
      - destruct (org_is m {| iname := nu1 (iname i) (isc i); iorg := iorg i; isc := 0 |}) eqn:Ho'; [|reflexivity].
        apply org_is_spec in Ho'. simpl in Ho'. destruct (Horg i Hi Ho'). contradiction. }
    exists hs, k', nu2. simpl. fold K. rewrite Eh, Ehs. split; [reflexivity|]. split; [apply map_items_ext; exact Hnu2|].
    constructor.
    + unfold K in *; lia.
    + intros nm s Hs. unfold nu2. destruct (Nat.eqb_spec s K); [unfold K in *; lia|]. apply O1. unfold K; lia.
    + intros i Hi. destruct (I1 i Hi) as [[Hs Hin]|[Hs [(m1 & m0 & Ho1 & Hm0 & Hr) Hg]]].
      * destruct (Hbh i Hin) as [(HsK & Ho & _ & _)|[Hs' Hia]]; [right|left; auto].
        split; [unfold K in *; lia|]. split; [exists m, m; simpl; auto|].
        unfold nu2. rewrite HsK, Nat.eqb_refl. exists (iname i), (gs_count g1 (iname i)). split; [reflexivity|].
        destruct (Sin (iname i) (HS_K i Hi HsK)) as [_ E]. rewrite E. specialize (G1 (iname i)). lia.
      * right. split; [unfold K in *; lia|]. split.
        -- exists m1, m. rewrite Hinv in Hm0. apply W4 in Hm0. simpl. repeat split; auto. lia.
        -- unfold nu2. destruct (Nat.eqb_spec (isc i) K); [lia|]. eapply gen_in_mono; [apply gs_le_refl|exact G2|exact Hg].
    + intros i j Hi Hj Si Sj E. unfold nu2 in E.
      assert (Ci : isc i = K \/ K < isc i) by (destruct (I1 i Hi) as [[? Hin]|[[? ?] _]]; [destruct (Hbh i Hin) as [(? & _)|[? _]]; [auto|lia]|auto]).
      assert (Cj : isc j = K \/ K < isc j) by (destruct (I1 j Hj) as [[? Hin]|[[? ?] _]]; [destruct (Hbh j Hin) as [(? & _)|[? _]]; [auto|lia]|auto]).
      destruct (Nat.eqb_spec (isc i) K) as [Hsi|Hsi]; destruct (Nat.eqb_spec (isc j) K) as [Hsj|Hsj].
      * apply gname_inj in E as [E _]. split; congruence.
      * exfalso. destruct (I1 j Hj) as [[? _]|[_ [_ (bb & cc & Eg & Hc)]]]; [lia|]. rewrite Eg in E. apply gname_inj in E as [<- <-]. lia.
      * exfalso. destruct (I1 i Hi) as [[? _]|[_ [_ (bb & cc & Eg & Hc)]]]; [lia|]. rewrite Eg in E. apply gname_inj in E as [-> ->]. lia.
      * apply J1; auto; lia.
    + eapply gs_le_trans; eauto.
Qed.
End Main.
