(* C08 — head position, the rule-level hygiene theorem, its corollaries, rejection of recursive macros. *)
From Coq Require Import List String Ascii ZArith Bool Arith Lia Decimal DecimalString DecimalNat.
From AV Require Import Macros.MacroModel.
From AV Require Import Macros.MacroLemmas.
From AV Require Import Macros.MacroNames.
From AV Require Import Macros.MacroSim.
Import ListNotations.
Open Scope list_scope.

Lemma map_hitem_ext f g h : (forall i, In i (ids_hitem h) -> f i = g i) -> map_hitem f h = map_hitem g h.
Proof. destruct h; simpl; intros H; f_equal; apply map_terms_ext; auto. Qed.
Lemma ids_hitem_map f h : ids_hitem (map_hitem f h) = map f (ids_hitem h).
Proof. destruct h; simpl; apply ids_terms_map. Qed.
Lemma ids_rule_map f r : ids_rule (map_rule f r) = map f (ids_rule r).
Proof.
  unfold ids_rule, map_rule. simpl. rewrite map_app, ids_items_map. f_equal.
  rewrite flat_map_map, map_flat_map. apply flat_map_ext_in. intros; apply ids_hitem_map.
Qed.

Lemma to_heads_map f : forall l, to_heads (map_items f l) = option_map (map (map_hitem f)) (to_heads l).
Proof.
  induction l as [|it l IH]; simpl; [reflexivity|].
  destruct it as [r a c|c|x g0 a|r a|alts|m acts]; simpl; try reflexivity.
  - destruct c; simpl; [|reflexivity]. fold (map_items f l). rewrite IH. destruct (to_heads l); reflexivity.
  - fold (map_items f l). rewrite IH. destruct (to_heads l); reflexivity.
Qed.
Lemma to_heads_obs : forall l hs, to_heads l = Some hs -> flat_map hinvs hs = invs_items l /\ flat_map ids_hitem hs = ids_items l.
Proof.
  induction l as [|it l IH]; simpl; intros hs H.
  - injection H as <-. auto.
  - destruct it as [r a c|c|x g0 a|r a|alts|m acts]; try discriminate.
    + destruct c; [|discriminate]. destruct (to_heads l) as [hs'|]; [|discriminate]. injection H as <-.
      destruct (IH hs' eq_refl) as [I1 I2]. simpl. unfold ids_items, invs_items in *. simpl. rewrite I1, I2, app_nil_r. auto.
    + destruct (to_heads l) as [hs'|]; [|discriminate]. injection H as <-.
      destruct (IH hs' eq_refl) as [I1 I2]. simpl. unfold ids_items, invs_items in *. simpl. rewrite I1, I2. auto.
Qed.

Lemma clr_id i : isc i = 0 -> clr i = i.
Proof. destruct i; simpl; intros ->; reflexivity. Qed.

Section Rule.
Variable M : list mdef.
Variable rk : nat -> nat.
Variable HM : list nat.
Hypothesis WF : forallb (wf_def rk M) M = true.
Hypothesis WH : forallb (wf_head_def HM) M = true.

Lemma memn_in n l : memn n l = true <-> In n l.
Proof. unfold memn. rewrite existsb_exists. split; [intros (x & Hx & E); apply Nat.eqb_eq in E; subst; auto|intros; exists n; split; auto; apply Nat.eqb_refl]. Qed.

Lemma head_def d : In d M -> In (mname d) HM -> ids_items (mbody d) = [] /\ (forall m', In m' (invs_items (mbody d)) -> In m' HM).
Proof.
  intros Hd Hm. rewrite forallb_forall in WH. specialize (WH d Hd). unfold wf_head_def in WH.
  apply memn_in in Hm. rewrite Hm in WH. apply andb_true_iff in WH as [W1 W2]. split.
  - destruct (ids_items (mbody d)); [reflexivity|discriminate].
  - intros m' Hm'. rewrite forallb_forall in W2. apply memn_in. auto.
Qed.

Definition HeadSim (E : hitem -> unit -> res (list hitem * unit)) (H : hitem -> nat -> res (list hitem * nat)) : Prop :=
  forall h k es u, (forall m, In m (hinvs h) -> In m HM) -> E (map_hitem clr h) tt = OK (es, u) ->
    exists hs k', H h k = OK (hs, k') /\ es = map (map_hitem clr) hs /\ incl (flat_map ids_hitem hs) (ids_hitem h).

Lemma head_list E H : HeadSim E H -> forall l k es u, (forall m, In m (flat_map hinvs l) -> In m HM) ->
  expand_hlist E (map (map_hitem clr) l) tt = OK (es, u) ->
  exists hs k', expand_hlist H l k = OK (hs, k') /\ es = map (map_hitem clr) hs /\ incl (flat_map ids_hitem hs) (flat_map ids_hitem l).
Proof.
  intros HS. induction l as [|h l IH]; intros k es u Hm Hex; simpl in Hex.
  - injection Hex as <- <-. exists [], k. repeat split; auto. apply incl_refl.
  - destruct (E (map_hitem clr h) tt) as [[o1 []]|] eqn:E1; [|discriminate].
    destruct (expand_hlist E _ tt) as [[o2 u2]|] eqn:E2; [|discriminate]. injection Hex as <- <-.
    destruct (HS h k o1 tt) as (hs1 & k1 & Eh1 & -> & I1); [intros; apply Hm; simpl; apply in_or_app; auto|exact E1|].
    destruct (IH k1 o2 u2) as (hs2 & k2 & Eh2 & -> & I2); [intros; apply Hm; simpl; apply in_or_app; auto|first [exact E2|reflexivity]|].
    exists (hs1 ++ hs2), k2. simpl. rewrite Eh1, Eh2. split; [reflexivity|]. split; [rewrite map_app; reflexivity|].
    rewrite flat_map_app. apply incl_app; [apply incl_appl|apply incl_appr]; auto.
Qed.

Lemma head_sim : forall n, HeadSim (expand_head n M) (hexpand_head n M).
Proof.
  induction n as [|n IH]; intros h k es u Hm Hex; [discriminate|].
  destruct h as [r a|m acts]; simpl in Hex.
  - injection Hex as <- <-. exists [HClause r a], k. repeat split; auto. simpl. rewrite app_nil_r. apply incl_refl.
  - destruct (instantiate M m (map (map_term clr) acts) (fun b => b)) as [be|] eqn:Ei; [|discriminate].
    destruct (inst_rel M rk WF m acts (S k) be Ei) as (d & bh & L & Eh & -> & Hids & Hinv & _).
    destruct (lookup_macro_in _ _ _ L) as [Hd Hn].
    destruct (head_def d Hd) as [Hpure Hcl]; [rewrite Hn; apply Hm; simpl; auto|].
    rewrite to_heads_map in Hex. destruct (to_heads bh) as [hb|] eqn:Et; simpl in Hex; [|discriminate].
    destruct (to_heads_obs _ _ Et) as [O1 O2].
    destruct (head_list _ _ IH hb (S k) es u) as (hs & k' & Ehs & -> & I); [|exact Hex|].
    + intros m' Hm'. rewrite O1, Hinv in Hm'. auto.
    + exists hs, k'. simpl. rewrite Eh, Et. split; [exact Ehs|]. split; [reflexivity|].
      intros x Hx. apply I in Hx. rewrite O2 in Hx. apply Hids in Hx. rewrite Hpure in Hx. simpl in Hx. exact Hx.
Qed.

Theorem hygiene : forall r r', wf_rule HM r = true -> expand_rule M r = OK r' ->
  exists h phi, hexpand_rule M r = OK h /\ hygienic_image r' h phi.
Proof.
  intros r r' Hr Hex. unfold wf_rule in Hr. rewrite !andb_true_iff in Hr. destruct Hr as [[[Hid _] _] Hhm].
  assert (Hids : forall i, In i (ids_rule r) -> iorg i = OCall /\ isc i = 0 /\ user_name (iname i) = true).
  { intros i Hi. rewrite forallb_forall in Hid. apply wf_ident_spec; auto. }
  unfold expand_rule in Hex.
  assert (Eb : rbody r = map_items clr (rbody r)).
  { symmetry. apply map_items_id. intros i Hi. apply clr_id. apply Hids. unfold ids_rule. apply in_or_app; auto. }
  assert (Ehd : rheads r = map (map_hitem clr) (rheads r)).
  { symmetry. erewrite map_ext_in; [apply map_id|]. intros h Hh. simpl.
    rewrite (map_hitem_ext clr (fun i => i)).
    - destruct h; simpl; f_equal; erewrite map_ext; try apply map_id; intros t; destruct t as [[|]| |]; simpl; try reflexivity;
        f_equal; erewrite map_ext; try apply map_id; intros [|]; reflexivity.
    - intros i Hi. apply clr_id. apply Hids. unfold ids_rule. apply in_or_app; right. apply in_flat_map; eauto. }
  rewrite Eb in Hex.
  destruct (expand_list (expand_item DEPTH M) (map_items clr (rbody r)) []) as [[eb g1]|] eqn:E1; [|discriminate].
  rewrite Ehd in Hex.
  destruct (expand_hlist (expand_head DEPTH M) (map (map_hitem clr) (rheads r)) tt) as [[eh u]|] eqn:E2; [|discriminate].
  injection Hex as <-.
  destruct (sim_list rk _ _ (sim_item M rk WF DEPTH) (rbody r) 0 0 [] eb g1 (le_n _)) as (hs & k' & nu & Ehs & -> & S); [| |exact E1|].
  { intros i Hi. assert (isc i = 0) by (apply Hids; unfold ids_rule; apply in_or_app; auto). lia. }
  { intros i m m' Hi _ Ho. assert (iorg i = OCall) by (apply Hids; unfold ids_rule; apply in_or_app; auto). congruence. }
  destruct (head_list _ _ (head_sim DEPTH) (rheads r) k' eh u) as (hh & k'' & Ehh & -> & Ih); [|exact E2|].
  { intros m Hm. rewrite forallb_forall in Hhm. apply memn_in. auto. }
  destruct S as [K1 O1 I1 J1 G1].
  assert (Hold : forall i, In i (ids_items hs ++ flat_map ids_hitem hh) ->
            (isc i = 0 /\ user_name (iname i) = true) \/ (0 < isc i /\ In i (ids_items hs) /\ gen_in [] g1 (nu (iname i) (isc i)))).
  { intros i Hi. apply in_app_or in Hi as [Hi|Hi].
    - destruct (I1 i Hi) as [[Hs Hin]|[[Hs _] [_ Hg]]]; [left|right; auto].
      destruct (Hids i) as (_ & ? & ?); [unfold ids_rule; apply in_or_app; auto|auto].
    - left. apply Ih in Hi. destruct (Hids i) as (_ & ? & ?); [unfold ids_rule; apply in_or_app; auto|auto]. }
  exists {| rheads := hh; rbody := hs |}, nu. split.
  - unfold hexpand_rule. rewrite Ehs, Ehh. reflexivity.
  - split; [|split].
    + unfold map_rule. simpl. f_equal. apply map_ext_in. intros h Hh. apply map_hitem_ext. intros i Hi.
      assert (isc i = 0). { destruct (Hold i) as [[? _]|[? [? _]]]; auto.
        - apply in_or_app; right. apply in_flat_map; eauto.
        - exfalso. assert (In i (flat_map ids_hitem (rheads r))) by (apply Ih; apply in_flat_map; eauto).
          assert (isc i = 0) by (apply Hids; unfold ids_rule; apply in_or_app; auto). lia. }
      unfold clr, names_via. rewrite H, O1 by lia. reflexivity.
    + unfold ids_rule. simpl. intros i j Hi Hj E.
      destruct (Hold i Hi) as [[Si Ui]|(Si & Ii & Gi)]; destruct (Hold j Hj) as [[Sj Uj]|(Sj & Ij & Gj)].
      * rewrite Si, Sj in *. rewrite !O1 in E by lia. auto.
      * exfalso. rewrite Si, (O1 (iname i) 0) in E by lia. apply gen_in_not_user in Gj. congruence.
      * exfalso. rewrite Sj, (O1 (iname j) 0) in E by lia. apply gen_in_not_user in Gi. congruence.
      * apply J1; auto.
    + intros i _ Hs. rewrite O1 by lia. reflexivity.
Qed.
End Rule.


Lemma wf_macros_split rk HM M : wf_macros rk HM M = true -> forallb (wf_def rk M) M = true /\ forallb (wf_head_def HM) M = true.
Proof. unfold wf_macros. apply andb_true_iff. Qed.

(* the hypothesis "bound by a direct item of the body" (the only one admitted before binders through nested invocations
   were) implies the present one *)
Lemma bound_direct_weaker M d : wf_def_bound_direct d = true -> wf_def_bound M d = true.
Proof.
  unfold wf_def_bound_direct, wf_def_bound. rewrite !forallb_forall. intros H i Hi. rewrite (H i Hi). reflexivity.
Qed.

Theorem hygiene_thm : forall M rk HM r r', wf_macros rk HM M = true -> wf_rule HM r = true -> expand_rule M r = OK r' ->
  exists h phi, hexpand_rule M r = OK h /\ hygienic_image r' h phi.
Proof. intros M rk HM r r' HW. apply wf_macros_split in HW as [W1 W2]. eapply hygiene; eauto. Qed.

Lemma nth_map_default {A B} (f : A -> B) l p d d' : p < List.length l -> nth p (map f l) d' = f (nth p l d).
Proof. intros H. rewrite (nth_indep (map f l) d' (f d)) by (rewrite map_length; exact H). apply map_nth. Qed.

Lemma occurrences : forall M rk HM r r', wf_macros rk HM M = true -> wf_rule HM r = true -> expand_rule M r = OK r' ->
  exists h phi, hexpand_rule M r = OK h /\ hygienic_image r' h phi
    /\ List.length (ids_rule r') = List.length (ids_rule h)
    /\ forall p d, p < List.length (ids_rule h) -> In (nth p (ids_rule h) d) (ids_rule h)
         /\ iname (nth p (ids_rule r') d) = phi (iname (nth p (ids_rule h) d)) (isc (nth p (ids_rule h) d)).
Proof.
  intros M rk HM r r' HW Hr Hex. destruct (hygiene_thm M rk HM r r' HW Hr Hex) as (h & phi & Eh & Hy).
  exists h, phi. split; [exact Eh|]. split; [exact Hy|]. destruct Hy as (-> & _ & _).
  rewrite ids_rule_map. split; [apply map_length|]. intros p d Hp. split; [apply nth_In; exact Hp|].
  rewrite (nth_map_default _ _ p d d Hp). reflexivity.
Qed.

(* two identifier occurrences that the reference expansion puts in different scopes (two invocations, an invocation
   and an enclosing one, an invocation and the call site) never receive the same name *)
Theorem two_invocations_disjoint : forall M rk HM r r', wf_macros rk HM M = true -> wf_rule HM r = true -> expand_rule M r = OK r' ->
  exists h, hexpand_rule M r = OK h /\ List.length (ids_rule r') = List.length (ids_rule h) /\
    forall p q d, p < List.length (ids_rule h) -> q < List.length (ids_rule h) ->
      isc (nth p (ids_rule h) d) <> isc (nth q (ids_rule h) d) ->
      iname (nth p (ids_rule r') d) <> iname (nth q (ids_rule r') d).
Proof.
  intros M rk HM r r' HW Hr Hex. destruct (occurrences M rk HM r r' HW Hr Hex) as (h & phi & Eh & (_ & Hinj & _) & Hlen & Hocc).
  exists h. split; [exact Eh|]. split; [exact Hlen|]. intros p q d Hp Hq Hne E.
  destruct (Hocc p d Hp) as [Ip Np]. destruct (Hocc q d Hq) as [Iq Nq]. rewrite Np, Nq in E.
  destruct (Hinj _ _ Ip Iq E) as [_ Hs]. contradiction.
Qed.

Theorem no_capture : forall M rk HM r r', wf_macros rk HM M = true -> wf_rule HM r = true -> expand_rule M r = OK r' ->
  exists h, hexpand_rule M r = OK h /\ List.length (ids_rule r') = List.length (ids_rule h) /\
    (* call-site identifiers, among them the actuals that replaced parameters, keep their names *)
    (forall p d, p < List.length (ids_rule h) -> isc (nth p (ids_rule h) d) = 0 ->
       iname (nth p (ids_rule r') d) = iname (nth p (ids_rule h) d)) /\
    (* occurrences of one variable stay occurrences of one variable (parameters unify with the call site) *)
    (forall p q d, p < List.length (ids_rule h) -> q < List.length (ids_rule h) ->
       iname (nth p (ids_rule h) d) = iname (nth q (ids_rule h) d) -> isc (nth p (ids_rule h) d) = isc (nth q (ids_rule h) d) ->
       iname (nth p (ids_rule r') d) = iname (nth q (ids_rule r') d)) /\
    (* a call-site variable and a macro-local one are never identified, even when they are spelled alike *)
    (forall p q d, p < List.length (ids_rule h) -> q < List.length (ids_rule h) ->
       isc (nth p (ids_rule h) d) = 0 -> isc (nth q (ids_rule h) d) <> 0 ->
       iname (nth p (ids_rule r') d) <> iname (nth q (ids_rule r') d)).
Proof.
  intros M rk HM r r' HW Hr Hex. destruct (occurrences M rk HM r r' HW Hr Hex) as (h & phi & Eh & (_ & Hinj & Hfix) & Hlen & Hocc).
  exists h. split; [exact Eh|]. split; [exact Hlen|]. split; [|split].
  - intros p d Hp Hs. destruct (Hocc p d Hp) as [Ip Np]. rewrite Np, Hs. apply Hfix; auto.
  - intros p q d Hp Hq En Es. destruct (Hocc p d Hp) as [Ip Np]. destruct (Hocc q d Hq) as [Iq Nq]. rewrite Np, Nq, En, Es. reflexivity.
  - intros p q d Hp Hq Sp Sq E. destruct (Hocc p d Hp) as [Ip Np]. destruct (Hocc q d Hq) as [Iq Nq]. rewrite Np, Nq in E.
    destruct (Hinj _ _ Ip Iq E) as [_ Hs]. congruence.
Qed.

(* ---------------------------------------------------------------- recursion *)
Section Rec.
Variable M : list mdef.

Lemma reaches_trans a b c : reaches M a b -> reaches M b c -> reaches M a c.
Proof. induction 1; intros; [eapply reach_trans; eauto|eapply reach_trans; eauto]. Qed.

Lemma bad_step m d : diverges M m -> lookup_macro M m = Some d -> exists m', In m' (invs_items (mbody d)) /\ diverges M m'.
Proof.
  intros [Hself|(c & Hc & Hcc)] L.
  - inversion Hself as [? ? (d' & L' & Hin)|? m' ? (d' & L' & Hin) Hr]; subst; rewrite L in L'; injection L' as <-.
    + exists m. split; auto. left; exact Hself.
    + exists m'. split; auto. left. eapply reaches_trans; [exact Hr|]. apply reach_step. exists d; auto.
  - inversion Hc as [? ? (d' & L' & Hin)|? m' ? (d' & L' & Hin) Hr]; subst; rewrite L in L'; injection L' as <-.
    + exists c. split; auto. left; exact Hcc.
    + exists m'. split; auto. right. exists c; auto.
Qed.

Lemma inst_invs m acts pre b : (forall l, invs_items (pre l) = invs_items l) -> instantiate M m acts pre = OK b ->
  exists d, lookup_macro M m = Some d /\ invs_items b = invs_items (mbody d).
Proof.
  unfold instantiate. intros Hp. destruct (lookup_macro M m) as [d|]; [|discriminate].
  destruct (bind_args _ _ _); [|discriminate]. destruct (par_items _); [discriminate|]. intros [= <-].
  exists d. split; auto. rewrite invs_items_subst. apply Hp.
Qed.

Lemma expand_item_bad : forall n it g x, (exists m, In m (invs_item it) /\ diverges M m) -> expand_item n M it g <> OK x.
Proof.
  induction n as [|n IH]; intros it g x (m & Hm & Hb) Hex; [discriminate|].
  destruct it as [r a c|c|x0 g0 a|r a|alts|m0 acts]; simpl in Hm; try contradiction.
  - simpl in Hex. destruct (expand_alts (expand_item n M) alts g) as [[o g1]|] eqn:E; [|discriminate].
    apply in_flat_map in Hm as (alt & Ha & Hm). apply in_flat_map in Hm as (it & Hi & Hm).
    destruct (expand_alts_inv _ _ _ _ _ E alt it Ha Hi) as (s0 & o0 & s1 & Hf). eapply IH; [|exact Hf]. eauto.
  - destruct Hm as [<-|[]]. simpl in Hex.
    destruct (instantiate M m0 acts (fun b => b)) as [b|] eqn:Ei; [|discriminate].
    destruct (expand_list (expand_item n M) b g) as [[its g1]|] eqn:El; [|discriminate].
    destruct (inst_invs _ _ _ _ (fun l => eq_refl) Ei) as (d & L & Hinv).
    destruct (bad_step _ _ Hb L) as (m' & Hm' & Hb'). rewrite <- Hinv in Hm'.
    apply in_flat_map in Hm' as (it & Hi & Hm').
    destruct (expand_list_app_inv _ _ _ _ _ El it Hi) as (s0 & o0 & s1 & Hf). eapply IH; [|exact Hf]. eauto.
Qed.

Lemma expand_hlist_inv {St} (f : hitem -> St -> res (list hitem * St)) : forall l s o s', expand_hlist f l s = OK (o, s') ->
  forall h, In h l -> exists s0 o0 s1, f h s0 = OK (o0, s1).
Proof.
  induction l as [|a l IH]; intros s o s' H h Hin; [destruct Hin|].
  simpl in H. destruct (f a s) as [[o1 s1]|] eqn:E1; [|discriminate].
  destruct (expand_hlist f l s1) as [[o2 s2]|] eqn:E2; [|discriminate].
  destruct Hin as [<-|Hin]; [eauto|eapply IH; eauto].
Qed.

Lemma expand_head_bad : forall n h u x, (exists m, In m (hinvs h) /\ diverges M m) -> expand_head n M h u <> OK x.
Proof.
  induction n as [|n IH]; intros h u x (m & Hm & Hb) Hex; [discriminate|].
  destruct h as [r a|m0 acts]; simpl in Hm; [contradiction|]. destruct Hm as [<-|[]]. simpl in Hex.
  destruct (instantiate M m0 acts (fun b => b)) as [b|] eqn:Ei; [|discriminate].
  destruct (to_heads b) as [hs|] eqn:Et; [|discriminate].
  destruct (inst_invs _ _ _ _ (fun l => eq_refl) Ei) as (d & L & Hinv).
  destruct (bad_step _ _ Hb L) as (m' & Hm' & Hb'). rewrite <- Hinv in Hm'.
  destruct (to_heads_obs _ _ Et) as [O1 _]. rewrite <- O1 in Hm'.
  apply in_flat_map in Hm' as (h & Hi & Hm').
  destruct x as [o u']. destruct (expand_hlist_inv _ _ _ _ _ Hex h Hi) as (s0 & o0 & s1 & Hf). eapply IH; [|exact Hf]. eauto.
Qed.

(* a rule that invokes, in its body or in its head, directly or through other macros, a macro that refers to itself
   (directly or mutually) is rejected: no depth budget makes the expansion succeed *)
Theorem recursive_rejected : forall r, (exists m, In m (invs_items (rbody r) ++ flat_map hinvs (rheads r)) /\ diverges M m) ->
  forall r', expand_rule M r <> OK r'.
Proof.
  intros r (m & Hm & Hb) r' Hex. unfold expand_rule in Hex.
  destruct (expand_list (expand_item DEPTH M) (rbody r) []) as [[b g]|] eqn:E1; [|discriminate].
  destruct (expand_hlist (expand_head DEPTH M) (rheads r) tt) as [[hs u]|] eqn:E2; [|discriminate].
  apply in_app_or in Hm as [Hm|Hm].
  - apply in_flat_map in Hm as (it & Hi & Hm). destruct (expand_list_app_inv _ _ _ _ _ E1 it Hi) as (s0 & o0 & s1 & Hf).
    eapply expand_item_bad; [|exact Hf]. eauto.
  - apply in_flat_map in Hm as (h & Hi & Hm). destruct (expand_hlist_inv _ _ _ _ _ E2 h Hi) as (s0 & o0 & s1 & Hf).
    eapply expand_head_bad; [|exact Hf]. eauto.
Qed.
End Rec.
