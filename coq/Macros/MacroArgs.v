(* C08 — NESTED argument expressions of a macro invocation, and which of their identifiers the renaming pass may look at.

   An `expr` actual is an arbitrary Rust expression: `m!((t + 1) * 2)`, `m!(succ(t))`, `m!(v[t])`, `m!({ t })`,
   `m!(y.min(t))`.  As a TOKEN STREAM (`invocation.mac.tokens`) it is a sequence of token trees; an identifier of the
   expression is either a token of that sequence (TOP LEVEL: `t + 1`, `t.min(6)`, the receiver of a method chain, the
   operands of a binary operator) or it sits inside a delimiter GROUP `( .. )`, `[ .. ]`, `{ .. }`, at some depth.
   MacroModel.term is the normal form "function symbol applied to variables" ([TF f xs]: the symbol f stands for the whole
   expression with its variable leaves taken out, ids_term = the leaves = a FULL traversal) and cannot say at which depth a
   leaf sits.  This file adds the missing structure:

     aexp            nested argument expressions with explicit delimiter groups
     occs            every identifier occurrence of an expression with the number of groups around it
                     (utils.rs token_stream_idents: descends into TokenTree::Group)
     top_ids_aexp    the identifiers a scan of the top-level tokens sees (it never enters a group)
     ashape / plug   a function symbol f >= XBASE of a model term denotes the (f - XBASE)-th shape of a table, plugged with
                     the variable leaves; symbols of the fixed vocabulary (gen/dl.py FUNS) parenthesise every operand.
                     [aexp_of_term] decodes a model term; renaming commutes with it ([aexp_of_term_map])

   and proves that the renaming of macro-originated variables
     - visits every occurrence of an argument expression and decides from the origin (span) of THAT occurrence alone,
       whatever its depth ([occs_map], [arg_occurrence_other_origin_untouched], [arg_occurrence_macro_origin_renamed]);
     - may be given a fast path "an identifier spelled like a macro variable that does not occur among the identifiers of the
       invocation's arguments is renamed without looking at its origin" only if the identifiers of the arguments are
       collected by a full traversal ([ren_fast_agrees], [scan_full_complete]); with the scan of the top-level tokens the
       expansion is NOT hygienic ([refuted_flat_argument_scan], [refuted_flat_argument_scan_nested_invocation]: computed
       witnesses inside the hypotheses of the hygiene theorem), while on an argument whose colliding identifier stands at
       top level the two coincide ([flat_scan_top_level_control]).
   The variant [expand_rule_scan] is a statement about a variant of the model, not about the code (the code has no fast
   path); the tie runs the family gen/c08_args.py — the colliding spelling only inside a group / at top level / both, every
   kind of delimiter, depth 1-3, ident and expr parameters, nested invocations passing the argument on — on every check. *)
From Coq Require Import List String Ascii ZArith Bool Arith Lia.
From AV Require Import Macros.MacroModel.
From AV Require Import Macros.MacroLemmas.
From AV Require Import Macros.MacroNames.
From AV Require Import Macros.MacroProofs.
From AV Require Import Macros.MacroRefuted.
Import ListNotations.
Open Scope string_scope.
Open Scope list_scope.

(* ---------------------------------------------------------------- nested argument expressions *)
Inductive aexp :=
| AV (v : var)                          (* an identifier (or `$p`) at this level *)
| AC (c : Z)
| AApp (f : nat) (args : list aexp)     (* operator / method chain / cast: the operands stand at the level of the operator *)
| AGrp (e : aexp).                      (* one delimiter group around e: ( e )  f( e )  [ e ]  { e }  x.f( e )  ( e , 0 ) *)

Section AexpInd.
Variable P : aexp -> Prop.
Hypothesis HV : forall v, P (AV v).
Hypothesis HC : forall c, P (AC c).
Hypothesis HA : forall f args, Forall P args -> P (AApp f args).
Hypothesis HG : forall e, P e -> P (AGrp e).
Fixpoint aexp_ind' (e : aexp) : P e :=
  match e with
  | AV v => HV v
  | AC c => HC c
  | AApp f args => HA f args ((fix go (l : list aexp) : Forall P l :=
                                 match l with [] => Forall_nil P | a :: l' => Forall_cons a (aexp_ind' a) (go l') end) args)
  | AGrp e' => HG e' (aexp_ind' e')
  end.
End AexpInd.

Fixpoint map_aexp (R : ident -> ident) (e : aexp) : aexp :=
  match e with
  | AV v => AV (map_var R v)
  | AC c => AC c
  | AApp f args => AApp f (map (map_aexp R) args)
  | AGrp e' => AGrp (map_aexp R e')
  end.

(* every identifier occurrence, in textual order, with the number of delimiter groups around it *)
Fixpoint occs (d : nat) (e : aexp) : list (nat * ident) :=
  match e with
  | AV v => map (pair d) (ids_var v)
  | AC _ => []
  | AApp _ args => flat_map (occs d) args
  | AGrp e' => occs (S d) e'
  end.
(* token_stream_idents: all of them *)
Definition ids_aexp (e : aexp) : list ident := map snd (occs 0 e).
(* `tokens.into_iter().filter_map(TokenTree::Ident)`: the tokens of the sequence itself, never those of a group *)
Definition top_ids_aexp (e : aexp) : list ident := map snd (filter (fun p => Nat.eqb (fst p) 0) (occs 0 e)).
Definition max_depth (e : aexp) : nat := fold_right Nat.max 0 (map fst (occs 0 e)).

(* ---------------------------------------------------------------- the renaming visits every occurrence, at any depth *)
Definition on_snd (R : ident -> ident) (p : nat * ident) : nat * ident := (fst p, R (snd p)).

Lemma occs_map R e : forall d, occs d (map_aexp R e) = map (on_snd R) (occs d e).
Proof.
  induction e as [v|c|f args IH|e IH] using aexp_ind'; intros d; simpl.
  - destruct v; reflexivity.
  - reflexivity.
  - rewrite flat_map_map, map_flat_map. apply flat_map_ext_in. intros a Ha.
    rewrite Forall_forall in IH. apply IH, Ha.
  - apply IH.
Qed.

Lemma ids_aexp_map R e : ids_aexp (map_aexp R e) = map R (ids_aexp e).
Proof. unfold ids_aexp. rewrite occs_map, !map_map. reflexivity. Qed.

Lemma ren_other_origin m mp i : org_is m i = false -> ren m mp i = i.
Proof. unfold ren. intros ->. reflexivity. Qed.
Lemma ren_call_site m mp i : iorg i = OCall -> ren m mp i = i.
Proof. intros H. apply ren_other_origin. unfold org_is. rewrite H. reflexivity. Qed.

(* the k-th identifier occurrence of an argument, d groups deep: if it was not written in the body of m (a call-site
   identifier, an identifier of an enclosing macro) the renaming of m's variables leaves it as it is — whatever d ... *)
Lemma arg_occurrence_other_origin_untouched m mp e k d i :
  nth_error (occs 0 e) k = Some (d, i) -> org_is m i = false ->
  nth_error (occs 0 (map_aexp (ren m mp) e)) k = Some (d, i).
Proof.
  intros Hk Ho. rewrite occs_map, nth_error_map, Hk. simpl. unfold on_snd. simpl. rewrite (ren_other_origin _ _ _ Ho). reflexivity.
Qed.
(* ... and if it was (a local of m passed on to a nested invocation), it is renamed like every other occurrence of m's body *)
Lemma arg_occurrence_macro_origin_renamed m mp e k d i s :
  nth_error (occs 0 e) k = Some (d, i) -> org_is m i = true -> sassoc mp (iname i) = Some s ->
  nth_error (occs 0 (map_aexp (ren m mp) e)) k = Some (d, set_name s i).
Proof.
  intros Hk Ho Hs. rewrite occs_map, nth_error_map, Hk. simpl. unfold on_snd, ren. simpl. rewrite Ho, Hs. reflexivity.
Qed.
Lemma arg_call_site_untouched m mp e :
  (forall i, In i (ids_aexp e) -> iorg i = OCall) -> map_aexp (ren m mp) e = e.
Proof.
  unfold ids_aexp. generalize 0%nat.
  induction e as [v|c|f args IH|e IH] using aexp_ind'; intros d H; simpl.
  - destruct v as [i|p]; [|reflexivity]. simpl. rewrite ren_call_site; [reflexivity|]. apply H. simpl. auto.
  - reflexivity.
  - f_equal. rewrite <- (map_id args) at 2. apply map_ext_in. intros a Ha. rewrite Forall_forall in IH.
    apply (IH a Ha d). intros i Hi. apply H. simpl. rewrite map_flat_map. apply in_flat_map_iff. eauto.
  - f_equal. apply (IH (S d)). exact H.
Qed.

(* ---------------------------------------------------------------- model terms denote nested expressions *)
Inductive ashape :=
| SHole (k : nat)                       (* the k-th variable leaf of the term *)
| SConst (c : Z)
| SApp (f : nat) (args : list ashape)
| SGrp (s : ashape).

Section ShapeInd.
Variable P : ashape -> Prop.
Hypothesis HH : forall k, P (SHole k).
Hypothesis HC : forall c, P (SConst c).
Hypothesis HA : forall f args, Forall P args -> P (SApp f args).
Hypothesis HG : forall s, P s -> P (SGrp s).
Fixpoint ashape_ind' (s : ashape) : P s :=
  match s with
  | SHole k => HH k
  | SConst c => HC c
  | SApp f args => HA f args ((fix go (l : list ashape) : Forall P l :=
                                 match l with [] => Forall_nil P | a :: l' => Forall_cons a (ashape_ind' a) (go l') end) args)
  | SGrp s' => HG s' (ashape_ind' s')
  end.
End ShapeInd.

Fixpoint plug (s : ashape) (xs : list var) : aexp :=
  match s with
  | SHole k => AV (nth k xs (VPar 0))
  | SConst c => AC c
  | SApp f args => AApp f (map (fun s' => plug s' xs) args)
  | SGrp s' => AGrp (plug s' xs)
  end.
Fixpoint holes (s : ashape) : list nat :=
  match s with
  | SHole k => [k]
  | SConst _ => []
  | SApp _ args => flat_map holes args
  | SGrp s' => holes s'
  end.

Definition XBASE : nat := 1000.
Definition is_ext (f : nat) : bool := Nat.leb XBASE f.
Definition shape_of (tbl : list ashape) (f : nat) : ashape := nth (f - XBASE) tbl (SConst 0).
Arguments is_ext : simpl never.
Arguments shape_of : simpl never.
Definition aexp_of_term (tbl : list ashape) (t : term) : aexp :=
  match t with
  | TV v => AV v
  | TC c => AC c
  | TF f xs => if is_ext f then plug (shape_of tbl f) xs
               else AApp f (map (fun x => AGrp (AV x)) xs)      (* gen/dl.py FUNS: `($0 + 1).min(7)`, `($0).max($1)`, ... *)
  end.

Lemma plug_map R s xs : plug s (map (map_var R) xs) = map_aexp R (plug s xs).
Proof.
  induction s as [k|c|f args IH|s IH] using ashape_ind'; simpl.
  - f_equal. change (VPar 0) with (map_var R (VPar 0)) at 1. apply map_nth.
  - reflexivity.
  - f_equal. rewrite map_map. apply map_ext_in. intros a Ha. rewrite Forall_forall in IH. apply IH, Ha.
  - f_equal. exact IH.
Qed.
(* renaming a model term = renaming the expression it denotes *)
Lemma aexp_of_term_map tbl R t : aexp_of_term tbl (map_term R t) = map_aexp R (aexp_of_term tbl t).
Proof.
  destruct t as [v|c|f xs]; simpl; try reflexivity.
  destruct (is_ext f); [apply plug_map|]. simpl. f_equal. rewrite !map_map. reflexivity.
Qed.

(* the identifiers of the denoted expression are leaves of the term ... *)
Lemma ids_plug_incl s xs : incl (ids_aexp (plug s xs)) (flat_map ids_var xs).
Proof.
  unfold ids_aexp. generalize 0%nat.
  induction s as [k|c|f args IH|s IH] using ashape_ind'; intros d i Hi; simpl in Hi.
  - rewrite map_map in Hi. simpl in Hi. rewrite map_id in Hi.
    destruct (Nat.lt_ge_cases k (List.length xs)) as [Hk|Hk].
    + apply in_flat_map_iff. exists (nth k xs (VPar 0)). split; [apply nth_In; exact Hk|exact Hi].
    + rewrite nth_overflow in Hi by exact Hk. destruct Hi.
  - destruct Hi.
  - rewrite flat_map_map, map_flat_map in Hi. apply in_flat_map_iff in Hi as (a & Ha & Hi).
    rewrite Forall_forall in IH. exact (IH a Ha d i Hi).
  - exact (IH (S d) i Hi).
Qed.
(* ... and all of them when every leaf is used by the shape *)
Lemma ids_plug_complete s xs :
  (forall k, (k < List.length xs)%nat -> In k (holes s)) -> incl (flat_map ids_var xs) (ids_aexp (plug s xs)).
Proof.
  intros Hc i Hi. apply in_flat_map_iff in Hi as (x & Hx & Hi).
  apply (In_nth _ _ (VPar 0)) in Hx as (k & Hk & <-). specialize (Hc k Hk). clear Hk.
  unfold ids_aexp. generalize 0%nat.
  induction s as [k'|c|f args IH|s IH] using ashape_ind'; intros d; simpl in *.
  - destruct Hc as [->|[]]. rewrite map_map. simpl. rewrite map_id. exact Hi.
  - destruct Hc.
  - apply in_flat_map_iff in Hc as (a & Ha & Hc). rewrite flat_map_map, map_flat_map. apply in_flat_map_iff.
    exists a. split; [exact Ha|]. rewrite Forall_forall in IH. exact (IH a Ha Hc d).
  - exact (IH Hc (S d)).
Qed.

Definition covers (s : ashape) (n : nat) : bool := forallb (fun k => memn k (holes s)) (seq 0 n).
Lemma covers_spec s n : covers s n = true -> forall k, (k < n)%nat -> In k (holes s).
Proof.
  unfold covers. rewrite forallb_forall. intros H k Hk. specialize (H k). rewrite in_seq in H.
  assert (Hm : memn k (holes s) = true) by (apply H; lia). unfold memn in Hm. apply existsb_exists in Hm as (x & Hx & He).
  apply Nat.eqb_eq in He. subst. exact Hx.
Qed.
Definition term_covered (tbl : list ashape) (t : term) : bool :=
  match t with TF f xs => if is_ext f then covers (shape_of tbl f) (List.length xs) else true | _ => true end.

Lemma ids_aexp_of_term_incl tbl t : incl (ids_aexp (aexp_of_term tbl t)) (ids_term t).
Proof.
  destruct t as [v|c|f xs]; simpl.
  - unfold ids_aexp. simpl. rewrite map_map. simpl. rewrite map_id. apply incl_refl.
  - intros i [].
  - destruct (is_ext f); [apply ids_plug_incl|].
    unfold ids_aexp. simpl. rewrite flat_map_map, map_flat_map. intros i Hi. apply in_flat_map_iff in Hi as (x & Hx & Hi).
    simpl in Hi. rewrite map_map in Hi. simpl in Hi. rewrite map_id in Hi. apply in_flat_map_iff. eauto.
Qed.
Lemma ids_aexp_of_term_complete tbl t : term_covered tbl t = true -> incl (ids_term t) (ids_aexp (aexp_of_term tbl t)).
Proof.
  destruct t as [v|c|f xs]; simpl; intros Hc.
  - unfold ids_aexp. simpl. rewrite map_map. simpl. rewrite map_id. apply incl_refl.
  - intros i [].
  - destruct (is_ext f); [apply ids_plug_complete, covers_spec, Hc|].
    unfold ids_aexp. simpl. rewrite flat_map_map, map_flat_map. intros i Hi. apply in_flat_map_iff in Hi as (x & Hx & Hi).
    apply in_flat_map_iff. exists x. split; [exact Hx|]. simpl. rewrite map_map. simpl. rewrite map_id. exact Hi.
Qed.

(* ---------------------------------------------------------------- the two scans of the arguments of an invocation *)
Definition scan := list term -> list string.
Definition scan_full (tbl : list ashape) : scan := fun acts => map iname (flat_map (fun t => ids_aexp (aexp_of_term tbl t)) acts).
Definition scan_flat (tbl : list ashape) : scan := fun acts => map iname (flat_map (fun t => top_ids_aexp (aexp_of_term tbl t)) acts).

Lemma scan_full_complete tbl acts i :
  forallb (term_covered tbl) acts = true -> In i (flat_map ids_term acts) -> mem_str (iname i) (scan_full tbl acts) = true.
Proof.
  intros Hc Hi. apply mem_str_in. unfold scan_full. apply in_map. apply in_flat_map_iff in Hi as (t & Ht & Hi).
  apply in_flat_map_iff. exists t. split; [exact Ht|]. rewrite forallb_forall in Hc. exact (ids_aexp_of_term_complete tbl t (Hc t Ht) i Hi).
Qed.

(* ---------------------------------------------------------------- a renaming pass with a fast path
   "the origin (span) of an identifier is only looked at for the spellings that also occur among the identifiers [argn] of
   the invocation's arguments; an identifier spelled like a variable of the macro body that does not occur there can only
   have come from the macro body". *)
Definition fast_test (argn : list string) (m : nat) (i : ident) : bool := negb (mem_str (iname i) argn) || org_is m i.
Definition originated_fast (argn : list string) (d : mdef) (l : list item) : list string :=
  let bound := map iname (bv_items l) in
  let body := filter (fun s => mem_str s bound) (map iname (ids_items (mbody d))) in
  dedup_str (map iname (filter (fun i => mem_str (iname i) body && fast_test argn (mname d) i) (bv_items l))).
Definition ren_fast (argn : list string) (m : nat) (mp : list (string * string)) (i : ident) : ident :=
  match sassoc mp (iname i) with
  | Some s => if fast_test argn m i then set_name s i else i
  | None => i
  end.

(* the fast path is the faithful visitor on every identifier that, if it is spelled like a renamed variable and was not
   written in the body of m, occurs among the scanned identifiers of the arguments *)
Lemma ren_fast_agrees argn m mp i :
  (org_is m i = false -> sassoc mp (iname i) <> None -> mem_str (iname i) argn = true) ->
  ren_fast argn m mp i = ren m mp i.
Proof.
  unfold ren_fast, ren, fast_test. intros H. destruct (sassoc mp (iname i)) as [s|] eqn:Hs.
  - destruct (org_is m i) eqn:Ho; [rewrite orb_true_r; reflexivity|]. rewrite H; [reflexivity|reflexivity|discriminate].
  - destruct (org_is m i); reflexivity.
Qed.
(* with the full traversal of the arguments that covers every identifier that came in through the arguments *)
Lemma ren_fast_full_scan_on_arguments tbl acts m mp i :
  forallb (term_covered tbl) acts = true -> In i (flat_map ids_term acts) -> ren_fast (scan_full tbl acts) m mp i = ren m mp i.
Proof. intros Hc Hi. apply ren_fast_agrees. intros _ _. exact (scan_full_complete tbl acts i Hc Hi). Qed.

(* MacroModel.expand_item with that pass, the arguments scanned by [sc] *)
Fixpoint expand_item_scan (sc : scan) (depth : nat) (M : list mdef) (it : item) (g : gensym) : res (list item * gensym) :=
  match depth with
  | O => Err ERecursive
  | S n =>
      match it with
      | IInv m acts =>
          match lookup_macro M m, instantiate M m acts (fun b => b) with
          | Some d, OK b =>
              match expand_list (expand_item_scan sc n M) b g with
              | Err e => Err e
              | OK (its, g1) =>
                  let argn := sc acts in
                  let '(mp, g') := issue (originated_fast argn d its) g1 in
                  OK (map (ren_item (ren_fast argn m mp)) its, g')
              end
          | _, Err e => Err e
          | None, _ => Err EUndefined
          end
      | IDisj alts =>
          match expand_alts (expand_item_scan sc n M) alts g with
          | Err e => Err e
          | OK (alts', g') => OK ([IDisj alts'], g')
          end
      | _ => OK ([it], g)
      end
  end.
Definition expand_rule_scan (sc : scan) (M : list mdef) (r : rule) : res rule :=
  match expand_list (expand_item_scan sc DEPTH M) (rbody r) [] with
  | Err e => Err e
  | OK (b, _) =>
      match expand_hlist (expand_head DEPTH M) (rheads r) tt with
      | Err e => Err e
      | OK (hs, _) => OK {| rheads := hs; rbody := b |}
      end
  end.
Fixpoint expand_prog_scan (sc : scan) (M : list mdef) (rs : list rule) : res (list rule) :=
  match rs with
  | [] => OK []
  | r :: rs' => match expand_rule_scan sc M r with
                | Err e => Err e
                | OK r' => match expand_prog_scan sc M rs' with Err e => Err e | OK l => OK (r' :: l) end
                end
  end.

(* ---------------------------------------------------------------- witnesses
   relations: 0 = e0/2, 1 = u0/1, 2 = u1/1, 4 = d1/1;  vocabulary: 0 = incs `($0 + 1).min(7)`, 3 = decs `($0 - 1).max(0)`
       macro m0($p0: expr) { u0(t), e0(t, $p0) }
       d1(t) <-- u1(t), m0!(<argument over the call-site t>);                                                         *)
Definition M_arg : list mdef := [mkDef 0 [(0, false)] [IClause 1 [TV (ml 0 "t")] []; IClause 0 [TV (ml 0 "t"); TV (VPar 0)] []]].
Definition r_arg (a : term) : rule := mkRule [HClause 4 [TV (cs "t")]] [IClause 2 [TV (cs "t")] []; IInv 0 [a]].
(* shapes: 1000 = `(($0 - 1).max(0) + 1).min(7)` = incs(decs($0)): the leaf inside two groups;
           1001 = `$0.min(6) + 1`: the same function as incs, the operand at top level;
           1002 = `$0.max($1)`: receiver at top level, argument in a group *)
Definition tbl_arg : list ashape :=
  [SApp 0 [SGrp (SApp 3 [SGrp (SHole 0)])]; SApp 0 [SHole 0]; SApp 4 [SHole 0; SGrp (SHole 1)]].
Definition a_grp1 : term := TF 0 [cs "t"].             (* m0!((t + 1).min(7))          one group *)
Definition a_grp2 : term := TF 1000 [cs "t"].          (* m0!(((t - 1).max(0) + 1).min(7))   two groups *)
Definition a_top : term := TF 1001 [cs "t"].           (* m0!(t.min(6) + 1)           top level *)
Definition a_both : term := TF 1002 [cs "t"; cs "t"].  (* m0!(t.max(t))               both *)

Lemma arg_tables_wf : wf_macros (fun m => m) [] M_arg = true
  /\ forallb (fun a => wf_rule [] (r_arg a) && term_covered tbl_arg a) [a_grp1; a_grp2; a_top; a_both] = true.
Proof. split; reflexivity. Qed.
Lemma arg_depths : map (fun a => (max_depth (aexp_of_term tbl_arg a), map iname (top_ids_aexp (aexp_of_term tbl_arg a))))
                       [a_grp1; a_grp2; a_top; a_both] = [(1, []); (2, []); (0, ["t"]); (1, ["t"])]%nat.
Proof. reflexivity. Qed.

Definition expected_arg (a : term) : rule :=
  mkRule [HClause 4 [TV (cs "t")]]
         [IClause 2 [TV (cs "t")] []; IClause 1 [TV (VId (mkId "__t_" (OMac 0) 0))] []; IClause 0 [TV (VId (mkId "__t_" (OMac 0) 0)); a] []].
(* the faithful expansion: the local gets a name of its own, the call-site t inside the argument keeps its spelling, at
   every depth; the fast path with the FULL scan does the same *)
Lemma nested_argument_example :
  forall a, In a [a_grp1; a_grp2; a_top; a_both] ->
    expand_rule M_arg (r_arg a) = OK (expected_arg a) /\ expand_rule_scan (scan_full tbl_arg) M_arg (r_arg a) = OK (expected_arg a).
Proof. intros a [<-|[<-|[<-|[<-|[]]]]]; split; vm_compute; reflexivity. Qed.
(* the fast path with the FLAT scan: identical when the colliding identifier (also) stands at top level ... *)
Lemma flat_scan_top_level_control :
  expand_rule_scan (scan_flat tbl_arg) M_arg (r_arg a_top) = OK (expected_arg a_top)
  /\ expand_rule_scan (scan_flat tbl_arg) M_arg (r_arg a_both) = OK (expected_arg a_both).
Proof. split; vm_compute; reflexivity. Qed.
(* ... and the call-site t captured by the local when it stands only inside a group: e0(__t_, (__t_ + 1).min(7)) *)
Definition captured_arg (f : nat) : rule :=
  mkRule [HClause 4 [TV (cs "t")]]
         [IClause 2 [TV (cs "t")] []; IClause 1 [TV (VId (mkId "__t_" (OMac 0) 0))] [];
          IClause 0 [TV (VId (mkId "__t_" (OMac 0) 0)); TF f [VId (mkId "__t_" OCall 0)]] []].
Lemma flat_scan_captures :
  expand_rule_scan (scan_flat tbl_arg) M_arg (r_arg a_grp1) = OK (captured_arg 0)
  /\ expand_rule_scan (scan_flat tbl_arg) M_arg (r_arg a_grp2) = OK (captured_arg 1000).
Proof. split; vm_compute; reflexivity. Qed.

Definition not_hygienic_scan (sc : scan) (M : list mdef) (r : rule) : Prop :=
  exists r' h, expand_rule_scan sc M r = OK r' /\ hexpand_rule M r = OK h /\ ~ exists phi, hygienic_image r' h phi.

Lemma refuted_flat_argument_scan :
  wf_macros (fun m => m) [] M_arg = true /\ wf_rule [] (r_arg a_grp1) = true /\ wf_rule [] (r_arg a_grp2) = true
  /\ not_hygienic_scan (scan_flat tbl_arg) M_arg (r_arg a_grp1) /\ not_hygienic_scan (scan_flat tbl_arg) M_arg (r_arg a_grp2).
Proof.
  repeat (split; [reflexivity|]).
  split; (eexists _, _; split; [vm_compute; reflexivity|]; split; [vm_compute; reflexivity|];
    intros (phi & H); pose proof (image_ids _ _ _ H) as Hi; destruct H as (_ & Hinj & _);
    apply (f_equal (map iname)) in Hi; vm_compute in Hi; injection Hi; intros;
    assert (E : iname (mkId "t" OCall 0) = iname (mkId "t" (OMac 0) 1) /\ isc (mkId "t" OCall 0) = isc (mkId "t" (OMac 0) 1))
      by (apply Hinj; [vm_compute; auto 20|vm_compute; auto 20|]; simpl; congruence);
    destruct E as [_ E]; discriminate).
Qed.

(* one level down: the enclosing macro has a local of the same spelling and passes it to the inner macro inside a group
       macro m0($p0: expr)  { u0(t), e0(t, $p0) }
       macro m1($p0: ident) { e0($p0, t), m0!((t + 1).min(7)) }
       d1(a) <-- u1(a), m1!(a);
   faithful: u1(a), e0(a, __t_1), u0(__t_), e0(__t_, (__t_1 + 1).min(7))  — m1's t and m0's t are different variables *)
Definition M_arg2 : list mdef :=
  M_arg ++ [mkDef 1 [(0, true)] [IClause 0 [TV (VPar 0); TV (ml 1 "t")] []; IInv 0 [TF 0 [ml 1 "t"]]]].
Definition r_arg2 : rule := mkRule [HClause 4 [TV (cs "a")]] [IClause 2 [TV (cs "a")] []; IInv 1 [TV (cs "a")]].
Lemma nested_invocation_argument_example :
  wf_macros (fun m => m) [] M_arg2 = true /\ wf_rule [] r_arg2 = true
  /\ expand_rule M_arg2 r_arg2 =
       OK (mkRule [HClause 4 [TV (cs "a")]]
                  [IClause 2 [TV (cs "a")] []; IClause 0 [TV (cs "a"); TV (VId (mkId "__t_1" (OMac 1) 0))] [];
                   IClause 1 [TV (VId (mkId "__t_" (OMac 0) 0))] [];
                   IClause 0 [TV (VId (mkId "__t_" (OMac 0) 0)); TF 0 [VId (mkId "__t_1" (OMac 1) 0)]] []])
  /\ expand_rule_scan (scan_full []) M_arg2 r_arg2 = expand_rule M_arg2 r_arg2.
Proof. repeat split; vm_compute; reflexivity. Qed.
Lemma refuted_flat_argument_scan_nested_invocation :
  wf_macros (fun m => m) [] M_arg2 = true /\ wf_rule [] r_arg2 = true /\ not_hygienic_scan (scan_flat []) M_arg2 r_arg2.
Proof.
  repeat (split; [reflexivity|]). eexists _, _. split; [vm_compute; reflexivity|]. split; [vm_compute; reflexivity|].
  intros (phi & H). pose proof (image_ids _ _ _ H) as Hi. destruct H as (_ & Hinj & _).
  apply (f_equal (map iname)) in Hi. vm_compute in Hi. injection Hi. intros.
  assert (E : iname (mkId "t" (OMac 1) 1) = iname (mkId "t" (OMac 0) 2) /\ isc (mkId "t" (OMac 1) 1) = isc (mkId "t" (OMac 0) 2)).
  { apply Hinj; [vm_compute; auto 20|vm_compute; auto 20|]. simpl. congruence. }
  destruct E as [_ E]. discriminate.
Qed.
