(* C08 — with statically well-formed invocations the depth budget is the only way an expansion can fail:
   a rule that reaches a self-referential macro gets exactly Err ERecursive. *)
From Coq Require Import List String Ascii ZArith Bool Arith Lia.
From AV Require Import Macros.MacroModel.
From AV Require Import Macros.MacroLemmas.
From AV Require Import Macros.MacroNames.
From AV Require Import Macros.MacroSim.
From AV Require Import Macros.MacroProofs.
Import ListNotations.
Open Scope list_scope.

(* ---------------------------------------------------------------- with statically well-formed invocations the only error is the depth budget *)
Definition sigma_ok (G : list (nat * bool)) (s : list (nat * term)) : Prop :=
  forall p k, assoc G p = Some k -> exists a, assoc s p = Some a /\ ok_act [] k a = true.

Lemma ok_act_closed k a : ok_act [] k a = true -> act_ok k a = true.
Proof.
  unfold ok_act, act_ok. destruct k.
  - destruct a as [[i|p]| |]; simpl; try discriminate; auto.
  - destruct a as [[i|p]| |]; simpl; try discriminate; auto. intros H. rewrite andb_true_r.
    apply negb_true_iff. apply not_true_is_false. intros E. apply existsb_exists in E as (v & Hv & Pv).
    rewrite forallb_forall in H. specialize (H v Hv). destruct v; simpl in *; discriminate.
Qed.

Lemma memn_in' n l : memn n l = true <-> In n l.
Proof. unfold memn. rewrite existsb_exists. split; [intros (x & Hx & E); apply Nat.eqb_eq in E; subst; auto|intros; exists n; split; auto; apply Nat.eqb_refl]. Qed.

Lemma assoc_notin {B} (l : list (nat * B)) p : ~ In p (map fst l) -> assoc l p = None.
Proof. induction l as [|[q b] l IH]; simpl; intros H; [reflexivity|]. destruct (Nat.eqb_spec p q); [exfalso; apply H; auto|apply IH; auto]. Qed.

Lemma bind_ok : forall ps acts acc, nodupb (map fst ps) = true -> ok_acts [] ps acts = true ->
  (forall p, In p (map fst ps) -> ~ In p (map fst acc)) ->
  exists s, bind_args ps acts acc = Some s
    /\ (forall p k, assoc ps p = Some k -> exists a, assoc s p = Some a /\ ok_act [] k a = true)
    /\ (forall p, ~ In p (map fst ps) -> assoc s p = assoc acc p).
Proof.
  induction ps as [|[q k] ps IH]; intros [|a acts] acc Hnd Hok Hdis; simpl in *; try discriminate.
  - exists acc. repeat split; auto. intros; discriminate.
  - apply andb_true_iff in Hnd as [Hq Hnd]. apply andb_true_iff in Hok as [Ha Hok].
    rewrite (ok_act_closed _ _ Ha).
    destruct (IH acts ((q, a) :: acc) Hnd Hok) as (s & Es & Hin & Hout).
    { intros p Hp [<-|Hc]; simpl in *.
      - apply negb_true_iff in Hq. apply memn_in' in Hp. congruence.
      - eapply Hdis; eauto. }
    exists s. split; [exact Es|]. split.
    + intros p k0 Hp. destruct (Nat.eqb_spec p q) as [->|Hne].
      * injection Hp as <-. exists a. split; auto. rewrite Hout; [simpl; rewrite Nat.eqb_refl; reflexivity|].
        intros Hc. apply negb_true_iff in Hq. apply memn_in' in Hc. congruence.
      * apply Hin; auto.
    + intros p Hp. rewrite Hout by (intros Hc; apply Hp; auto). simpl.
      destruct (Nat.eqb_spec p q) as [->|]; [exfalso; apply Hp; auto|reflexivity].
Qed.

Section Subst.
Variables (M : list mdef) (G : list (nat * bool)) (s : list (nat * term)).
Hypothesis HS : sigma_ok G s.

Lemma subst_ok_var v : ok_var G v = true -> exists i, subst_var s v = VId i.
Proof.
  destruct v as [i|p]; simpl; [eauto|]. destruct (assoc G p) as [[|]|] eqn:E; try discriminate. intros _.
  destruct (HS p true E) as (a & -> & Ha). simpl in Ha. destruct a as [[i|q]| |]; simpl in Ha; try discriminate. eauto.
Qed.
Lemma subst_ok_vars l : forallb (ok_var G) l = true -> forallb (ok_var []) (map (subst_var s) l) = true /\ existsb par_var (map (subst_var s) l) = false.
Proof.
  induction l as [|v l IH]; simpl; [auto|]. intros H. apply andb_true_iff in H as [Hv Hl].
  destruct (subst_ok_var v Hv) as (i & ->). destruct (IH Hl) as [-> ->]. auto.
Qed.
Lemma ok_term_closed t : ok_term [] t = true -> par_term t = false.
Proof.
  destruct t as [[i|p]| |f xs]; simpl; try discriminate; auto. intros H.
  apply not_true_is_false. intros E. apply existsb_exists in E as (v & Hv & Pv).
  rewrite forallb_forall in H. specialize (H v Hv). destruct v; simpl in *; discriminate.
Qed.
Lemma subst_ok_term t : ok_term G t = true -> ok_term [] (subst_term s t) = true /\ par_term (subst_term s t) = false.
Proof.
  destruct t as [[i|p]| |f xs]; simpl; auto.
  - destruct (assoc G p) as [k|] eqn:E; [|discriminate]. intros _. destruct (HS p k E) as (a & -> & Ha).
    assert (ok_term [] a = true). { destruct k; simpl in Ha; auto. destruct a as [[i|q]| |]; simpl in *; try discriminate; auto. }
    split; auto. apply ok_term_closed; auto.
  - apply subst_ok_vars.
Qed.
Lemma subst_ok_terms l : forallb (ok_term G) l = true -> forallb (ok_term []) (map (subst_term s) l) = true /\ existsb par_term (map (subst_term s) l) = false.
Proof.
  induction l as [|t l IH]; simpl; [auto|]. intros H. apply andb_true_iff in H as [Ht Hl].
  destruct (subst_ok_term t Ht) as [-> ->]. destruct (IH Hl) as [-> ->]. auto.
Qed.
Lemma subst_ok_cnd c : ok_cnd G c = true -> ok_cnd [] (subst_cnd s c) = true /\ par_cnd (subst_cnd s c) = false.
Proof.
  destruct c as [p xs|x f xs]; simpl.
  - apply subst_ok_vars.
  - intros H. apply andb_true_iff in H as [Hx Hl]. destruct (subst_ok_var x Hx) as (i & ->). destruct (subst_ok_vars xs Hl) as [-> ->]. auto.
Qed.
Lemma subst_ok_cnds l : forallb (ok_cnd G) l = true -> forallb (ok_cnd []) (map (subst_cnd s) l) = true /\ existsb par_cnd (map (subst_cnd s) l) = false.
Proof.
  induction l as [|t l IH]; simpl; [auto|]. intros H. apply andb_true_iff in H as [Ht Hl].
  destruct (subst_ok_cnd t Ht) as [-> ->]. destruct (IH Hl) as [-> ->]. auto.
Qed.
Lemma subst_ok_acts : forall ps acts, ok_acts G ps acts = true -> ok_acts [] ps (map (subst_term s) acts) = true.
Proof.
  induction ps as [|[q k] ps IH]; intros [|a acts]; simpl; auto. intros H. apply andb_true_iff in H as [Ha Hl].
  rewrite (IH _ Hl), andb_true_r. unfold ok_act in *. destruct k.
  - destruct a as [v| |]; try discriminate. destruct (subst_ok_var v Ha) as (i & E).
    destruct v as [j|p]; simpl in *; [reflexivity|].
    destruct (assoc G p) as [[|]|] eqn:EG; try discriminate. destruct (HS p true EG) as (a' & Ea & Ha'). rewrite Ea.
    simpl in Ha'. destruct a' as [[j|q']| |]; simpl in *; try discriminate; auto.
  - apply subst_ok_term; auto.
Qed.
Lemma subst_ok_item it : ok_item M G it = true -> ok_item M [] (subst_item s it) = true /\ par_item (subst_item s it) = false.
Proof.
  induction it using item_ind'; simpl; intros Hok.
  - apply andb_true_iff in Hok as [H1 H2]. destruct (subst_ok_terms _ H1) as [-> ->]. destruct (subst_ok_cnds _ H2) as [-> ->]. auto.
  - apply subst_ok_cnd; auto.
  - apply andb_true_iff in Hok as [H1 H2]. destruct (subst_ok_var _ H1) as (i & ->). destruct (subst_ok_vars _ H2) as [-> ->]. auto.
  - apply subst_ok_terms; auto.
  - split.
    + rewrite forallb_map. apply forallb_forall. intros alt Ha. rewrite forallb_map. apply forallb_forall. intros i Hi.
      rewrite forallb_forall in Hok. specialize (Hok alt Ha). rewrite forallb_forall in Hok. apply (FF_in _ _ H alt Ha i Hi); auto.
    + apply not_true_is_false. intros E. rewrite existsb_map in E. apply existsb_exists in E as (alt & Ha & E).
      rewrite existsb_map in E. apply existsb_exists in E as (i & Hi & E).
      rewrite forallb_forall in Hok. specialize (Hok alt Ha). rewrite forallb_forall in Hok.
      destruct (FF_in _ _ H alt Ha i Hi (Hok i Hi)) as [_ E']. congruence.
  - destruct (lookup_macro M m) as [d|]; [|discriminate]. split; [apply subst_ok_acts; auto|].
    clear -Hok HS. revert a Hok. generalize (mparams d). induction l as [|[q k] ps IH]; intros [|a acts]; simpl; auto; try discriminate.
    intros H. apply andb_true_iff in H as [Ha Hl]. rewrite (IH _ Hl), orb_false_r.
    unfold ok_act in Ha. destruct k.
    + destruct a as [v| |]; try discriminate. destruct (subst_ok_var v Ha) as (i & E).
      destruct v as [j|p]; simpl in *; [reflexivity|].
      destruct (assoc G p) as [[|]|] eqn:EG; try discriminate. destruct (HS p true EG) as (a' & Ea & Ha'). rewrite Ea.
      simpl in Ha'. destruct a' as [[j|q']| |]; simpl in *; try discriminate; auto.
    + apply subst_ok_term; auto.
Qed.
Lemma subst_ok_items l : forallb (ok_item M G) l = true -> forallb (ok_item M []) (subst_items s l) = true /\ par_items (subst_items s l) = false.
Proof.
  unfold subst_items, par_items. induction l as [|t l IH]; simpl; [auto|]. intros H. apply andb_true_iff in H as [Ht Hl].
  destruct (subst_ok_item t Ht) as [-> ->]. destruct (IH Hl) as [-> ->]. auto.
Qed.
End Subst.

Section OnlyRec.
Variables (M : list mdef) (HM : list nat).
Hypothesis TOK : table_ok HM M = true.

Lemma table_unpack d : In d M -> nodupb (map fst (mparams d)) = true /\ forallb (ok_item M (mparams d)) (mbody d) = true
  /\ (In (mname d) HM -> forallb head_shape (mbody d) = true /\ forall m', In m' (invs_items (mbody d)) -> In m' HM).
Proof.
  intros Hd. unfold table_ok in TOK. rewrite forallb_forall in TOK. specialize (TOK d Hd).
  rewrite !andb_true_iff in TOK. destruct TOK as [[T1 T2] T3]. repeat split; auto.
  - apply memn_in' in H. rewrite H in T3. apply andb_true_iff in T3. tauto.
  - intros m' Hm'. apply memn_in' in H. rewrite H in T3. apply andb_true_iff in T3 as [_ T3]. rewrite forallb_forall in T3. apply memn_in'. auto.
Qed.

Lemma inst_ok m acts : ok_item M [] (IInv m acts) = true ->
  exists d b, lookup_macro M m = Some d /\ instantiate M m acts (fun b => b) = OK b /\ forallb (ok_item M []) b = true
             /\ b = subst_items (match bind_args (mparams d) acts [] with Some s => s | None => [] end) (mbody d).
Proof.
  simpl. unfold instantiate. destruct (lookup_macro M m) as [d|] eqn:L; [|discriminate]. intros Hok.
  destruct (lookup_macro_in _ _ _ L) as [Hd _]. destruct (table_unpack d Hd) as (T1 & T2 & _).
  destruct (bind_ok (mparams d) acts [] T1 Hok) as (s & Es & Hin & _); [intros p _ []|].
  rewrite Es. destruct (subst_ok_items M (mparams d) s Hin (mbody d) T2) as [O1 O2]. rewrite O2.
  exists d, (subst_items s (mbody d)). repeat split; auto. rewrite Es. reflexivity.
Qed.

Lemma only_rec_list {St} (f : item -> St -> res (list item * St)) :
  (forall it s e, ok_item M [] it = true -> f it s = Err e -> e = ERecursive) ->
  forall l s e, forallb (ok_item M []) l = true -> expand_list f l s = Err e -> e = ERecursive.
Proof.
  intros Hf. induction l as [|a l IH]; intros s e Hok H; simpl in *; [discriminate|].
  apply andb_true_iff in Hok as [Ha Hl].
  destruct (f a s) as [[o s1]|e1] eqn:E1; [|injection H as <-; eapply Hf; eauto].
  destruct (expand_list f l s1) as [[o2 s2]|e2] eqn:E2; [discriminate|]. injection H as <-. eapply IH; eauto.
Qed.
Lemma only_rec_alts {St} (f : item -> St -> res (list item * St)) :
  (forall it s e, ok_item M [] it = true -> f it s = Err e -> e = ERecursive) ->
  forall alts s e, forallb (forallb (ok_item M [])) alts = true -> expand_alts f alts s = Err e -> e = ERecursive.
Proof.
  intros Hf. induction alts as [|a l IH]; intros s e Hok H; simpl in *; [discriminate|].
  apply andb_true_iff in Hok as [Ha Hl].
  destruct (expand_list f a s) as [[o s1]|e1] eqn:E1; [|injection H as <-; eapply only_rec_list; eauto].
  destruct (expand_alts f l s1) as [[o2 s2]|e2] eqn:E2; [discriminate|]. injection H as <-. eapply IH; eauto.
Qed.

Lemma only_rec_item : forall n it g e, ok_item M [] it = true -> expand_item n M it g = Err e -> e = ERecursive.
Proof.
  induction n as [|n IH]; intros it g e Hok H; [injection H as <-; reflexivity|].
  destruct it as [r a c|c|x g0 a|r a|alts|m acts]; simpl in H; try discriminate.
  - destruct (expand_alts (expand_item n M) alts g) as [[o g1]|e1] eqn:E; [discriminate|]. injection H as <-.
    eapply only_rec_alts; [|exact Hok|exact E]. intros; eapply IH; eauto.
  - destruct (inst_ok m acts Hok) as (d & b & L & Ei & Hb & _). rewrite Ei in H.
    destruct (expand_list (expand_item n M) b g) as [[its g1]|e1] eqn:El; [discriminate|]. injection H as <-.
    eapply only_rec_list; [|exact Hb|exact El]. intros; eapply IH; eauto.
Qed.

Lemma to_heads_shape : forall l, forallb head_shape l = true -> exists hs, to_heads l = Some hs.
Proof.
  induction l as [|it l IH]; simpl; [eauto|]. intros H. apply andb_true_iff in H as [Hi Hl]. destruct (IH Hl) as (hs & ->).
  destruct it as [r a c|c|x g0 a|r a|alts|m acts]; simpl in Hi; try discriminate; [destruct c; [|discriminate]|]; simpl; eauto.
Qed.
Lemma head_shape_subst s l : forallb head_shape (subst_items s l) = forallb head_shape l.
Proof. unfold subst_items. rewrite forallb_map. apply forallb_ext_in. intros it _. destruct it as [r a c|c|x g0 a|r a|alts|m acts]; simpl; auto. destruct c; reflexivity. Qed.

Lemma only_rec_hlist {St} (f : hitem -> St -> res (list hitem * St)) (P : hitem -> Prop) :
  (forall h s e, P h -> f h s = Err e -> e = ERecursive) ->
  forall l s e, (forall h, In h l -> P h) -> expand_hlist f l s = Err e -> e = ERecursive.
Proof.
  intros Hf. induction l as [|a l IH]; intros s e HP H; simpl in *; [discriminate|].
  destruct (f a s) as [[o s1]|e1] eqn:E1; [|injection H as <-; eapply Hf; eauto].
  destruct (expand_hlist f l s1) as [[o2 s2]|e2] eqn:E2; [discriminate|]. injection H as <-. eapply IH; eauto.
Qed.

Definition hok (h : hitem) : Prop := ok_hitem M h = true /\ forall m, In m (hinvs h) -> In m HM.

Lemma to_heads_ok : forall l hs, to_heads l = Some hs -> forallb (ok_item M []) l = true -> (forall m, In m (invs_items l) -> In m HM) -> forall h, In h hs -> hok h.
Proof.
  induction l as [|it l IH]; simpl; intros hs H Hok Hm h Hh.
  - injection H as <-. destruct Hh.
  - apply andb_true_iff in Hok as [Hi Hl].
    destruct it as [r a c|c|x g0 a|r a|alts|m acts]; try discriminate.
    + destruct c; [|discriminate]. destruct (to_heads l) as [hs'|] eqn:Et; [|discriminate]. injection H as <-.
      destruct Hh as [<-|Hh].
      * split; [simpl in *; apply andb_true_iff in Hi; tauto|intros m []].
      * eapply IH; eauto.
    + destruct (to_heads l) as [hs'|] eqn:Et; [|discriminate]. injection H as <-.
      destruct Hh as [<-|Hh].
      * split; [exact Hi|]. intros m' [<-|[]]. apply Hm. simpl. auto.
      * eapply IH; eauto. intros m' Hm'. apply Hm. unfold invs_items in *. simpl. auto.
Qed.

Lemma only_rec_head : forall n h u e, hok h -> expand_head n M h u = Err e -> e = ERecursive.
Proof.
  induction n as [|n IH]; intros h u e [Hok Hm] H; [injection H as <-; reflexivity|].
  destruct h as [r a|m acts]; simpl in H; [discriminate|].
  destruct (inst_ok m acts Hok) as (d & b & L & Ei & Hb & Eb). rewrite Ei in H.
  destruct (lookup_macro_in _ _ _ L) as [Hd Hn]. destruct (table_unpack d Hd) as (_ & _ & T3).
  destruct T3 as [Hsh Hcl]; [rewrite Hn; apply Hm; simpl; auto|].
  destruct (to_heads_shape b) as (hs & Et); [rewrite Eb, head_shape_subst; exact Hsh|]. rewrite Et in H.
  eapply (only_rec_hlist _ hok); [|eapply to_heads_ok; eauto|exact H].
  - intros; eapply IH; eauto.
  - intros m' Hm'. apply Hcl. rewrite Eb, invs_items_subst in Hm'. exact Hm'.
Qed.

Theorem recursive_error : forall r, rule_ok HM M r = true ->
  (exists m, In m (invs_items (rbody r) ++ flat_map hinvs (rheads r)) /\ diverges M m) -> expand_rule M r = Err ERecursive.
Proof.
  intros r Hr Hb. pose proof (recursive_rejected M r Hb) as Hno.
  unfold rule_ok in Hr. rewrite !andb_true_iff in Hr. destruct Hr as [[R1 R2] R3].
  unfold expand_rule in *.
  destruct (expand_list (expand_item DEPTH M) (rbody r) []) as [[b g]|e] eqn:E1.
  - destruct (expand_hlist (expand_head DEPTH M) (rheads r) tt) as [[hs u]|e] eqn:E2; [exfalso; eapply Hno; reflexivity|].
    f_equal. eapply (only_rec_hlist _ hok); [|intros h Hh|exact E2].
    + intros; eapply only_rec_head; eauto.
    + split; [rewrite forallb_forall in R2; auto|]. intros m Hm. rewrite forallb_forall in R3. apply memn_in'. apply R3. apply in_flat_map; eauto.
  - f_equal. eapply only_rec_list; [|exact R1|exact E1]. intros; eapply only_rec_item; eauto.
Qed.
End OnlyRec.
