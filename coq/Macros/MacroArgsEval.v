(* C08 — glue used by the tie only (no theorem depends on it): evaluation of expanded rules whose terms use the function
   symbols >= MacroArgs.XBASE, i.e. nested argument expressions given by a table of shapes (MacroArgs.ashape) over the fixed
   vocabulary of Engine/Vocab.v; everything else as Macros/MacroEval.v.  Also the expansion with the fast-path renaming of
   MacroArgs.v under either scan of the arguments (used by the tie to DESCRIBE a mismatch, never to excuse one). *)
From Coq Require Import List String ZArith Bool Arith.
From AV Require Import Engine.Core.
From AV Require Import Engine.Sem.
From AV Require Import Engine.Vocab.
From AV Require Import Engine.Strat.
From AV Require Import Macros.MacroModel.
From AV Require Import Macros.MacroEval.
From AV Require Import Macros.MacroArgs.
Import ListNotations.

Fixpoint eval_shape (s : ashape) (l : list Z) : Z :=
  match s with
  | SHole k => nth k l 0%Z
  | SConst c => c
  | SApp f args => std_fint f (map (fun a => eval_shape a l) args)
  | SGrp s' => eval_shape s' l
  end.
Definition ext_fint (tbl : list ashape) (f : nat) (l : list Z) : Z :=
  if is_ext f then eval_shape (shape_of tbl f) l else std_fint f l.
Definition ext_interp (tbl : list ashape) : interp :=
  {| fint := ext_fint tbl; pint := std_pint; bint := std_bint; gint := std_gint; aint := std_aint |}.

Definition run_expanded_x (tbl : list ashape) (rs : res (list MacroModel.rule)) (strata : list (list nat)) (F0 : list fact) : outcome :=
  match rs with
  | Err e => Rejected e
  | OK rules =>
      if existsb residual rules then Residual else
      let per_rule := map core_rules rules in
      match first_bad (List.concat per_rule) with
      | ScOk =>
          let st := map (fun ixs => flat_map (fun i => nth i per_rule []) ixs) strata in
          if stratified st then
            match strat_fix (ext_interp tbl) 200 st F0 with Some F => Facts F | None => OutOfFuel end
          else NotStratified
      | bad => CompileError bad
      end
  end.

Definition run_model_x (tbl : list ashape) (M : list mdef) (rs : list MacroModel.rule) (strata : list (list nat)) (F0 : list fact) : outcome :=
  run_expanded_x tbl (expand_prog M rs) strata F0.
Definition run_hygienic_x (tbl : list ashape) (M : list mdef) (rs : list MacroModel.rule) (strata : list (list nat)) (F0 : list fact) : outcome :=
  run_expanded_x tbl (hexpand_prog M rs) strata F0.
(* the fast-path variant: flat = true scans the top-level tokens of the arguments only *)
Definition run_scan_x (flat : bool) (tbl : list ashape) (M : list mdef) (rs : list MacroModel.rule) (strata : list (list nat)) (F0 : list fact) : outcome :=
  run_expanded_x tbl (expand_prog_scan (if flat then scan_flat tbl else scan_full tbl) M rs) strata F0.
(* every nested argument expression of the program uses all its leaves (hypothesis of MacroArgs.scan_full_complete) *)
Definition terms_item_top (it : item) : list term :=
  match it with IClause _ a _ => a | INeg _ a => a | IInv _ a => a | _ => [] end.
Fixpoint terms_item (n : nat) (it : item) : list term :=
  match n with
  | O => []
  | S k => match it with IDisj alts => flat_map (flat_map (terms_item k)) alts | _ => terms_item_top it end
  end.
Definition terms_hitem (h : hitem) : list term := match h with HClause _ a => a | HInv _ a => a end.
Definition covered_prog (tbl : list ashape) (M : list mdef) (rs : list MacroModel.rule) : bool :=
  forallb (fun d => forallb (term_covered tbl) (flat_map (terms_item 50) (mbody d))) M
  && forallb (fun r => forallb (term_covered tbl) (flat_map (terms_item 50) (rbody r) ++ flat_map terms_hitem (rheads r))) rs.
