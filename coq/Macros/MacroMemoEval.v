(* C08 — glue used by the tie only (no theorem depends on it): the program expanded by MacroMemo.expand_prog_memo (the REFUTED
   expansion that remembers invocations per program under the key (macro, argument spelling)) and evaluated like the other
   outcomes of Macros/MacroArgsEval.v; used by the tie to DESCRIBE a mismatch, never to excuse one. *)
From Coq Require Import List String ZArith Bool Arith.
From AV Require Import Engine.Core.
From AV Require Import Macros.MacroModel.
From AV Require Import Macros.MacroEval.
From AV Require Import Macros.MacroArgs.
From AV Require Import Macros.MacroArgsEval.
From AV Require Import Macros.MacroMemo.
Import ListNotations.

Definition run_memo_x (tbl : list ashape) (M : list mdef) (rs : list MacroModel.rule) (strata : list (list nat)) (F0 : list fact) : outcome :=
  run_expanded_x tbl (expand_prog_memo M rs) strata F0.
