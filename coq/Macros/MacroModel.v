(* C08 — executable model of the expansion of in-program macros
   (ascent_macro/src/ascent_syntax.rs: MacroDefNode, invoke_macro, rule_expand_macro_invocations,
   body_items_rename_macro_originated_vars; utils.rs: token_stream_replace_macro_idents, spans_eq).

   Identifiers carry an ORIGIN tag: the model's counterpart of a token span.  The real renaming pass
   asks "does the span of this identifier equal the span of some identifier token of the body of
   macro m" (spans_eq over token_stream_idents(macro_def.body)); since every token of a source file
   has its own span, that is "this token was written in the body of macro m" = [iorg i = OMac m].
   The third field [isc] (scope) is NEVER read or written by the faithful expansion [expand_*];
   it is written only by the hygienic reference expansion [hexpand_*] (the specification).

   Model = the code as it is, including what is not hygienic:
     - only identifiers that occur in a binding position of the expanded items are renamed;
     - head-position expansion does no renaming at all;
     - generated names are `__<x>_`, `__<x>_1`, `__<x>_2` ... (per-rule GenSym), which a user may write too;
     - depth budget 100, decremented by macro invocations AND by disjunctions.
   No proofs in this file. *)
From Coq Require Import List String Ascii ZArith Bool Arith Decimal DecimalString.
Import ListNotations.

(* ------------------------------------------------------------------ syntax *)

Inductive origin := OCall | OMac (m : nat).
Record ident := mkId { iname : string; iorg : origin; isc : nat }.

(* a variable position holds an identifier or a macro parameter `$p` *)
Inductive var := VId (i : ident) | VPar (p : nat).
(* a term position: variable / parameter, constant, interpreted function of variables *)
Inductive term := TV (v : var) | TC (c : Z) | TF (f : nat) (args : list var).
(* if p(xs)  |  let x = f(xs)  /  if let Some(x) = f(xs) *)
Inductive cnd := CIf (p : nat) (args : list var) | CBind (x : var) (f : nat) (args : list var).

Inductive item :=
| IClause (r : nat) (args : list term) (cs : list cnd)    (* r(args) followed by attached conditions *)
| ICond (c : cnd)
| IGen (x : var) (g : nat) (args : list var)              (* for x in g(args) *)
| INeg (r : nat) (args : list term)                       (* !r(args) *)
| IDisj (alts : list (list item))                         (* ( a, b | c, d ) *)
| IInv (m : nat) (acts : list term).                      (* m!(acts) *)

Inductive hitem := HClause (r : nat) (args : list term) | HInv (m : nat) (acts : list term).
Record rule := mkRule { rheads : list hitem; rbody : list item }.
(* parameter kinds: true = `$p: ident`, false = `$p: expr` *)
Record mdef := mkDef { mname : nat; mparams : list (nat * bool); mbody : list item }.

Inductive err :=
| ERecursive      (* "recursively defined Ascent macro" *)
| EUndefined      (* "undefined macro" *)
| EArgs           (* "expected more arguments" / "unexpected token" / an `ident` parameter given a non-identifier *)
| EParam          (* a `$p` is left in the substituted body: unknown parameter (parse error in the implementation),
                     or a non-variable actual at a variable position (outside this model) *)
| EHeadParse.     (* the substituted body does not parse as head items *)
Inductive res (A : Type) := OK (a : A) | Err (e : err).
Arguments OK {A} a.
Arguments Err {A} e.

(* ------------------------------------------------------------------ generic traversals *)

Definition map_var (f : ident -> ident) (v : var) : var := match v with VId i => VId (f i) | VPar p => VPar p end.
Definition map_term (f : ident -> ident) (t : term) : term :=
  match t with TV v => TV (map_var f v) | TC c => TC c | TF g xs => TF g (map (map_var f) xs) end.
Definition map_cnd (f : ident -> ident) (c : cnd) : cnd :=
  match c with CIf p xs => CIf p (map (map_var f) xs) | CBind x g xs => CBind (map_var f x) g (map (map_var f) xs) end.
Fixpoint map_item (f : ident -> ident) (it : item) : item :=
  match it with
  | IClause r args cs => IClause r (map (map_term f) args) (map (map_cnd f) cs)
  | ICond c => ICond (map_cnd f c)
  | IGen x g args => IGen (map_var f x) g (map (map_var f) args)
  | INeg r args => INeg r (map (map_term f) args)
  | IDisj alts => IDisj (map (map (map_item f)) alts)
  | IInv m acts => IInv m (map (map_term f) acts)
  end.
Definition map_items (f : ident -> ident) (l : list item) : list item := map (map_item f) l.
Definition map_hitem (f : ident -> ident) (h : hitem) : hitem :=
  match h with HClause r args => HClause r (map (map_term f) args) | HInv m acts => HInv m (map (map_term f) acts) end.
Definition map_rule (f : ident -> ident) (r : rule) : rule :=
  {| rheads := map (map_hitem f) (rheads r); rbody := map_items f (rbody r) |}.

Definition ids_var (v : var) : list ident := match v with VId i => [i] | VPar _ => [] end.
Definition ids_term (t : term) : list ident :=
  match t with TV v => ids_var v | TC _ => [] | TF _ xs => flat_map ids_var xs end.
Definition ids_cnd (c : cnd) : list ident :=
  match c with CIf _ xs => flat_map ids_var xs | CBind x _ xs => ids_var x ++ flat_map ids_var xs end.
(* every identifier occurrence, in textual order *)
Fixpoint ids_item (it : item) : list ident :=
  match it with
  | IClause _ args cs => flat_map ids_term args ++ flat_map ids_cnd cs
  | ICond c => ids_cnd c
  | IGen x _ args => ids_var x ++ flat_map ids_var args
  | INeg _ args => flat_map ids_term args
  | IDisj alts => flat_map (flat_map ids_item) alts
  | IInv _ acts => flat_map ids_term acts
  end.
Definition ids_items (l : list item) : list ident := flat_map ids_item l.
Definition ids_hitem (h : hitem) : list ident :=
  match h with HClause _ args => flat_map ids_term args | HInv _ acts => flat_map ids_term acts end.
Definition ids_rule (r : rule) : list ident := ids_items (rbody r) ++ flat_map ids_hitem (rheads r).

Definition par_var (v : var) : bool := match v with VPar _ => true | VId _ => false end.
Definition par_term (t : term) : bool := match t with TV v => par_var v | TC _ => false | TF _ xs => existsb par_var xs end.
Definition par_cnd (c : cnd) : bool :=
  match c with CIf _ xs => existsb par_var xs | CBind x _ xs => par_var x || existsb par_var xs end.
Fixpoint par_item (it : item) : bool :=
  match it with
  | IClause _ args cs => existsb par_term args || existsb par_cnd cs
  | ICond c => par_cnd c
  | IGen x _ args => par_var x || existsb par_var args
  | INeg _ args => existsb par_term args
  | IDisj alts => existsb (existsb par_item) alts
  | IInv _ acts => existsb par_term acts
  end.
Definition par_items (l : list item) : bool := existsb par_item l.

(* macros invoked in an item (at any disjunction depth) *)
Fixpoint invs_item (it : item) : list nat :=
  match it with
  | IDisj alts => flat_map (flat_map invs_item) alts
  | IInv m _ => [m]
  | _ => []
  end.
Definition invs_items (l : list item) : list nat := flat_map invs_item l.

(* ------------------------------------------------------------------ parameter substitution
   token_stream_replace_macro_idents: `$p` -> the tokens of the actual, everywhere in the body
   (also inside the argument lists of nested invocations). *)

Fixpoint assoc {B} (l : list (nat * B)) (p : nat) : option B :=
  match l with [] => None | (q, b) :: l' => if Nat.eqb p q then Some b else assoc l' p end.

Definition subst_var (s : list (nat * term)) (v : var) : var :=
  match v with
  | VPar p => match assoc s p with Some (TV w) => w | _ => VPar p end
  | VId i => VId i
  end.
Definition subst_term (s : list (nat * term)) (t : term) : term :=
  match t with
  | TV (VPar p) => match assoc s p with Some a => a | None => TV (VPar p) end
  | TV (VId i) => TV (VId i)
  | TC c => TC c
  | TF g xs => TF g (map (subst_var s) xs)
  end.
Definition subst_cnd (s : list (nat * term)) (c : cnd) : cnd :=
  match c with
  | CIf p xs => CIf p (map (subst_var s) xs)
  | CBind x g xs => CBind (subst_var s x) g (map (subst_var s) xs)
  end.
Fixpoint subst_item (s : list (nat * term)) (it : item) : item :=
  match it with
  | IClause r args cs => IClause r (map (subst_term s) args) (map (subst_cnd s) cs)
  | ICond c => ICond (subst_cnd s c)
  | IGen x g args => IGen (subst_var s x) g (map (subst_var s) args)
  | INeg r args => INeg r (map (subst_term s) args)
  | IDisj alts => IDisj (map (map (subst_item s)) alts)
  | IInv m acts => IInv m (map (subst_term s) acts)
  end.
Definition subst_items (s : list (nat * term)) (l : list item) : list item := map (subst_item s) l.

(* invoke_macro::parse_args.  The enum MacroParamKind has its variant NAMES swapped (keyword `ident` parses
   to the variant called Expr and vice versa) and parse_args swaps them back, so the behaviour is the expected
   one: `$p: ident` takes an identifier, `$p: expr` an expression.  The replacement map is a HashMap: a
   parameter name declared twice keeps the last actual.  Since fix 7f45914 an `expr` actual that is not a primary /
   postfix expression is substituted in parentheses: an actual is ONE node, as the terms of this model are. *)
Definition act_ok (is_ident : bool) (a : term) : bool :=
  negb (par_term a) && (if is_ident then match a with TV (VId _) => true | _ => false end else true).
Fixpoint bind_args (ps : list (nat * bool)) (acts : list term) (acc : list (nat * term)) : option (list (nat * term)) :=
  match ps, acts with
  | [], [] => Some acc
  | (p, k) :: ps', a :: acts' => if act_ok k a then bind_args ps' acts' ((p, a) :: acc) else None
  | _, _ => None
  end.

(* macros: HashMap<Ident, &MacroDefNode> collected from the definitions in order: the last definition wins *)
Definition lookup_macro (M : list mdef) (m : nat) : option mdef := find (fun d => Nat.eqb (mname d) m) (List.rev M).

(* ------------------------------------------------------------------ GenSym (per rule, transformer `__{}_`) *)

Definition gensym := list (string * nat).      (* names already issued per base identifier *)
Fixpoint gs_count (g : gensym) (s : string) : nat :=
  match g with [] => 0 | (s', n) :: g' => if String.eqb s s' then n else gs_count g' s end.
Definition gs_bump (g : gensym) (s : string) : gensym := (s, S (gs_count g s)) :: g.
Definition dec (n : nat) : string := NilEmpty.string_of_uint (Nat.to_uint n).
(* first request: `__x_`; then `__x_1`, `__x_2`, ... (GenSym::next prints the counter before the increment) *)
Definition gname (s : string) (c : nat) : string :=
  String.append "__" (String.append s (String.append "_" (match c with O => EmptyString | _ => dec c end))).
Definition gs_next (g : gensym) (s : string) : string * gensym := (gname s (gs_count g s), gs_bump g s).

(* ------------------------------------------------------------------ renaming of macro-originated variables
   body_items_rename_macro_originated_vars(bis, macro_def, gensym) *)

(* body_item_get_bound_vars: identifier arguments of clauses, patterns of let / if let / for — also of the conditions
   attached to a clause (since fix 931a20f); nothing for negations, for invocations *)
Definition bv_var (v : var) : list ident := match v with VId i => [i] | VPar _ => [] end.
Definition bv_term (t : term) : list ident := match t with TV v => bv_var v | _ => [] end.
Definition bv_cnd (c : cnd) : list ident := match c with CBind x _ _ => bv_var x | CIf _ _ => [] end.
Fixpoint bv_item (it : item) : list ident :=
  match it with
  | IClause _ args cs => flat_map bv_term args ++ flat_map bv_cnd cs
  | ICond c => bv_cnd c
  | IGen x _ _ => bv_var x
  | INeg _ _ => []
  | IDisj alts => flat_map (flat_map bv_item) alts
  | IInv _ _ => []
  end.
Definition bv_items (l : list item) : list ident := flat_map bv_item l.

Definition org_is (m : nat) (i : ident) : bool := match iorg i with OMac m' => Nat.eqb m m' | OCall => false end.
Definition set_name (s : string) (i : ident) : ident := {| iname := s; iorg := iorg i; isc := isc i |}.
Fixpoint sassoc (l : list (string * string)) (s : string) : option string :=
  match l with [] => None | (a, b) :: l' => if String.eqb s a then Some b else sassoc l' s end.
(* the visitor: an identifier spelled like a macro-originated bound variable AND written in the macro body *)
Definition ren (m : nat) (mp : list (string * string)) (i : ident) : ident :=
  if org_is m i then match sassoc mp (iname i) with Some s => set_name s i | None => i end else i.

(* body_item_visit_bound_vars_mut followed by body_item_visit_exprs_free_vars_mut: an identifier argument of a
   clause is visited by both (R applied twice); the conditions attached to a clause are visited like stand-alone
   conditions (since fix 931a20f: before it they were visited by neither pass) *)
Definition ren_clause_arg (R : ident -> ident) (t : term) : term :=
  match t with
  | TV (VId i) => TV (VId (R (R i)))
  | TV (VPar p) => TV (VPar p)
  | TC c => TC c
  | TF g xs => TF g (map (map_var R) xs)
  end.
Fixpoint ren_item (R : ident -> ident) (it : item) : item :=
  match it with
  | IClause r args cs => IClause r (map (ren_clause_arg R) args) (map (map_cnd R) cs)
  | ICond c => ICond (map_cnd R c)
  | IGen x g args => IGen (map_var R x) g (map (map_var R) args)
  | INeg r args => INeg r (map (map_term R) args)
  | IDisj alts => IDisj (map (map (ren_item R)) alts)
  | IInv m acts => IInv m (map (map_term R) acts)
  end.

Fixpoint mem_str (s : string) (l : list string) : bool :=
  match l with [] => false | a :: l' => String.eqb s a || mem_str s l' end.
Fixpoint dedup_str (l : list string) : list string :=
  match l with [] => [] | a :: l' => if mem_str a l' then dedup_str l' else a :: dedup_str l' end.

Fixpoint issue (names : list string) (g : gensym) : list (string * string) * gensym :=
  match names with
  | [] => ([], g)
  | s :: names' => let '(n, g1) := gs_next g s in let '(mp, g2) := issue names' g1 in ((s, n) :: mp, g2)
  end.

Definition originated (m : nat) (l : list item) : list string :=
  dedup_str (map iname (filter (org_is m) (bv_items l))).

Definition rename_originated (m : nat) (l : list item) (g : gensym) : list item * gensym :=
  let '(mp, g') := issue (originated m l) g in (map (ren_item (ren m mp)) l, g').

(* ------------------------------------------------------------------ the expansion (faithful) *)

Section Seq.
Context {St : Type}.
Variable f : item -> St -> res (list item * St).
Fixpoint expand_list (l : list item) (s : St) : res (list item * St) :=
  match l with
  | [] => OK ([], s)
  | it :: l' =>
      match f it s with
      | Err e => Err e
      | OK (o, s1) => match expand_list l' s1 with Err e => Err e | OK (o', s2) => OK (o ++ o', s2) end
      end
  end.
Fixpoint expand_alts (alts : list (list item)) (s : St) : res (list (list item) * St) :=
  match alts with
  | [] => OK ([], s)
  | a :: alts' =>
      match expand_list a s with
      | Err e => Err e
      | OK (o, s1) => match expand_alts alts' s1 with Err e => Err e | OK (o', s2) => OK (o :: o', s2) end
      end
  end.
End Seq.

(* invoke_macro + parse of the replaced body *)
Definition instantiate (M : list mdef) (m : nat) (acts : list term) (pre : list item -> list item) : res (list item) :=
  match lookup_macro M m with
  | None => Err EUndefined
  | Some d =>
      match bind_args (mparams d) acts [] with
      | None => Err EArgs
      | Some s => let b := subst_items s (pre (mbody d)) in if par_items b then Err EParam else OK b
      end
  end.

(* body_item_expand_macros(bi, macros, gensym, depth, _).
   ORDER of the invocation arm, as in the code: substitute, expand the nested invocations of the substituted body
   (recursively, threading the GenSym), and only THEN rename the variables originating in this macro's body — the bound
   variables are collected from the fully expanded items, so a local that only nested invocations bind is found
   (wf_def_bound / xbv_item below; the swapped order is MacroRefuted.expand_item_early, which is not hygienic). *)
Fixpoint expand_item (depth : nat) (M : list mdef) (it : item) (g : gensym) : res (list item * gensym) :=
  match depth with
  | O => Err ERecursive
  | S d =>
      match it with
      | IInv m acts =>
          match instantiate M m acts (fun b => b) with
          | Err e => Err e
          | OK b =>
              match expand_list (expand_item d M) b g with
              | Err e => Err e
              | OK (its, g1) => OK (rename_originated m its g1)
              end
          end
      | IDisj alts =>
          match expand_alts (expand_item d M) alts g with
          | Err e => Err e
          | OK (alts', g') => OK ([IDisj alts'], g')
          end
      | _ => OK ([it], g)
      end
  end.

(* parse of a replaced body as head items *)
Fixpoint to_heads (l : list item) : option (list hitem) :=
  match l with
  | [] => Some []
  | IClause r args [] :: l' => option_map (cons (HClause r args)) (to_heads l')
  | IInv m acts :: l' => option_map (cons (HInv m acts)) (to_heads l')
  | _ => None
  end.

Section SeqH.
Context {St : Type}.
Variable f : hitem -> St -> res (list hitem * St).
Fixpoint expand_hlist (l : list hitem) (s : St) : res (list hitem * St) :=
  match l with
  | [] => OK ([], s)
  | h :: l' =>
      match f h s with
      | Err e => Err e
      | OK (o, s1) => match expand_hlist l' s1 with Err e => Err e | OK (o', s2) => OK (o ++ o', s2) end
      end
  end.
End SeqH.

(* head_item_expand_macros(hi, macros, depth, _): no gensym, no renaming *)
Fixpoint expand_head (depth : nat) (M : list mdef) (h : hitem) (u : unit) : res (list hitem * unit) :=
  match depth with
  | O => Err ERecursive
  | S d =>
      match h with
      | HInv m acts =>
          match instantiate M m acts (fun b => b) with
          | Err e => Err e
          | OK b => match to_heads b with
                    | None => Err EHeadParse
                    | Some hs => expand_hlist (expand_head d M) hs u
                    end
          end
      | HClause _ _ => OK ([h], u)
      end
  end.

Definition DEPTH : nat := 100.

(* rule_expand_macro_invocations: fresh GenSym per rule, body items first, then the head items *)
Definition expand_rule (M : list mdef) (r : rule) : res rule :=
  match expand_list (expand_item DEPTH M) (rbody r) [] with
  | Err e => Err e
  | OK (b, _) =>
      match expand_hlist (expand_head DEPTH M) (rheads r) tt with
      | Err e => Err e
      | OK (hs, _) => OK {| rheads := hs; rbody := b |}
      end
  end.

Fixpoint expand_prog (M : list mdef) (rs : list rule) : res (list rule) :=
  match rs with
  | [] => OK []
  | r :: rs' => match expand_rule M r with
                | Err e => Err e
                | OK r' => match expand_prog M rs' with Err e => Err e | OK l => OK (r' :: l) end
                end
  end.

(* ------------------------------------------------------------------ the hygienic reference expansion (specification)
   Every invocation receives a scope number of its own (1, 2, ... in the order in which invocations are
   instantiated; 0 = the call site).  ALL identifiers written in the macro body are stamped with the scope of the
   invocation, then the parameters are replaced by the actuals, which keep their own scopes.  Two identifier
   occurrences denote the same variable iff they agree on (iname, isc).  Nothing is renamed, [iorg] is not read. *)

Definition set_sc (k : nat) (i : ident) : ident := {| iname := iname i; iorg := iorg i; isc := k |}.

Fixpoint hexpand_item (depth : nat) (M : list mdef) (it : item) (k : nat) : res (list item * nat) :=
  match depth with
  | O => Err ERecursive
  | S d =>
      match it with
      | IInv m acts =>
          match instantiate M m acts (map_items (set_sc (S k))) with
          | Err e => Err e
          | OK b => expand_list (hexpand_item d M) b (S k)
          end
      | IDisj alts =>
          match expand_alts (hexpand_item d M) alts k with
          | Err e => Err e
          | OK (alts', k') => OK ([IDisj alts'], k')
          end
      | _ => OK ([it], k)
      end
  end.

Fixpoint hexpand_head (depth : nat) (M : list mdef) (h : hitem) (k : nat) : res (list hitem * nat) :=
  match depth with
  | O => Err ERecursive
  | S d =>
      match h with
      | HInv m acts =>
          match instantiate M m acts (map_items (set_sc (S k))) with
          | Err e => Err e
          | OK b => match to_heads b with
                    | None => Err EHeadParse
                    | Some hs => expand_hlist (hexpand_head d M) hs (S k)
                    end
          end
      | HClause _ _ => OK ([h], k)
      end
  end.

Definition hexpand_rule (M : list mdef) (r : rule) : res rule :=
  match expand_list (hexpand_item DEPTH M) (rbody r) 0 with
  | Err e => Err e
  | OK (b, k) =>
      match expand_hlist (hexpand_head DEPTH M) (rheads r) k with
      | Err e => Err e
      | OK (hs, _) => OK {| rheads := hs; rbody := b |}
      end
  end.

Fixpoint hexpand_prog (M : list mdef) (rs : list rule) : res (list rule) :=
  match rs with
  | [] => OK []
  | r :: rs' => match hexpand_rule M r with
                | Err e => Err e
                | OK r' => match hexpand_prog M rs' with Err e => Err e | OK l => OK (r' :: l) end
                end
  end.

(* the real expansion is hygienic on a rule when it is the reference expansion with the scoped identifiers
   (iname, isc) NAMED injectively, call-site identifiers keeping their names *)
Definition names_via (phi : string -> nat -> string) (i : ident) : ident :=
  {| iname := phi (iname i) (isc i); iorg := iorg i; isc := 0 |}.
Definition hygienic_image (r' h : rule) (phi : string -> nat -> string) : Prop :=
  r' = map_rule (names_via phi) h
  /\ (forall i j, In i (ids_rule h) -> In j (ids_rule h) ->
        phi (iname i) (isc i) = phi (iname j) (isc j) -> iname i = iname j /\ isc i = isc j)
  /\ (forall i, In i (ids_rule h) -> isc i = 0 -> phi (iname i) 0 = iname i).

(* ------------------------------------------------------------------ well-formedness (hypotheses of the hygiene theorem) *)

Definition user_name (s : string) : bool := negb (String.prefix "__" s).
Definition org_eqb (a b : origin) : bool :=
  match a, b with OCall, OCall => true | OMac m, OMac m' => Nat.eqb m m' | _, _ => false end.
Definition wf_ident (o : origin) (i : ident) : bool := org_eqb (iorg i) o && Nat.eqb (isc i) 0 && user_name (iname i).

Definition memn (n : nat) (l : list nat) : bool := existsb (Nat.eqb n) l.

(* Binding positions reached THROUGH nested invocations.  [xbv_item n M it]: the variables (identifiers and `$p`) of
   the item that stand in a binding position once the invocations inside it are expanded (nesting depth < n):
     - for a clause / let / if let / for: its own binding positions, parameters included;
     - for `m!(acts)`: the actuals `TV w` passed for those parameters `$p` of m that stand in a binding position of m's
       body in this same sense (so `mid` in `hop!($x, mid)` with `macro hop($a, $b) { edge($a, $b) }`);
   the identifiers that the body of m introduces itself are not variables of the enclosing body and are dropped.
   The real renaming pass sees exactly these binders because it runs on the FULLY expanded items
   (rule_expand_macro_invocations: nested invocations first, body_items_rename_macro_originated_vars afterwards). *)
Fixpoint zip_args (ps : list (nat * bool)) (acts : list term) (acc : list (nat * term)) : list (nat * term) :=
  match ps, acts with
  | (p, _) :: ps', a :: acts' => zip_args ps' acts' ((p, a) :: acc)
  | _, _ => acc
  end.
Definition bp_term (t : term) : list var := match t with TV v => [v] | _ => [] end.
Definition bp_cnd (c : cnd) : list var := match c with CBind x _ _ => [x] | CIf _ _ => [] end.
Definition through (s : list (nat * term)) (v : var) : list var :=
  match v with
  | VPar p => match assoc s p with Some (TV w) => [w] | _ => [] end
  | VId _ => []
  end.
Fixpoint xbv_item (depth : nat) (M : list mdef) (it : item) : list var :=
  match depth with
  | O => []
  | S n =>
      match it with
      | IClause _ args cs => flat_map bp_term args ++ flat_map bp_cnd cs
      | ICond c => bp_cnd c
      | IGen x _ _ => [x]
      | INeg _ _ => []
      | IDisj alts => flat_map (flat_map (xbv_item n M)) alts
      | IInv m acts =>
          match lookup_macro M m with
          | None => []
          | Some d => flat_map (through (zip_args (mparams d) acts [])) (flat_map (xbv_item n M) (mbody d))
          end
      end
  end.
Definition xbv_items (depth : nat) (M : list mdef) (l : list item) : list var := flat_map (xbv_item depth M) l.
Definition var_names (l : list var) : list string :=
  flat_map (fun v => match v with VId i => [iname i] | VPar _ => [] end) l.

(* a macro definition:
   (1) its identifiers are tagged with the macro, unscoped, and not spelled like generated names;
   (2) every identifier of the body is a bound, "macro-local" variable in the sense of MACROS.MD: it occurs in a binding
       position of the body itself (argument of a clause, pattern of let / if let / for: [bound_direct]) or it is bound
       through the arguments of nested invocations ([bound_nested], see xbv_item above);
   (3) it invokes only macros of smaller rank (no recursion). *)
Definition wf_def_ids (d : mdef) : bool := forallb (wf_ident (OMac (mname d))) (ids_items (mbody d)).
Definition bound_direct (d : mdef) (s : string) : bool := mem_str s (map iname (bv_items (mbody d))).
Definition bound_nested (M : list mdef) (d : mdef) (s : string) : bool := mem_str s (var_names (xbv_items DEPTH M (mbody d))).
(* the hypothesis before nested binders were admitted (kept for reference: it implies wf_def_bound) *)
Definition wf_def_bound_direct (d : mdef) : bool := forallb (fun i => bound_direct d (iname i)) (ids_items (mbody d)).
Definition wf_def_bound (M : list mdef) (d : mdef) : bool :=
  forallb (fun i => bound_direct d (iname i) || bound_nested M d (iname i)) (ids_items (mbody d)).
Definition wf_def_rank (rk : nat -> nat) (d : mdef) : bool :=
  forallb (fun m' => Nat.ltb (rk m') (rk (mname d))) (invs_items (mbody d)).
Definition wf_def (rk : nat -> nat) (M : list mdef) (d : mdef) : bool :=
  wf_def_ids d && wf_def_bound M d && wf_def_rank rk d.

(* macros usable in head position (HM): no identifiers of their own, invoke only such macros *)
Definition wf_head_def (HM : list nat) (d : mdef) : bool :=
  if memn (mname d) HM then
    match ids_items (mbody d) with [] => true | _ => false end && forallb (fun m' => memn m' HM) (invs_items (mbody d))
  else true.

Definition wf_macros (rk : nat -> nat) (HM : list nat) (M : list mdef) : bool :=
  forallb (wf_def rk M) M && forallb (wf_head_def HM) M.

Definition hinvs (h : hitem) : list nat := match h with HInv m _ => [m] | HClause _ _ => [] end.
Definition par_hitem (h : hitem) : bool := match h with HClause _ a => existsb par_term a | HInv _ a => existsb par_term a end.
Definition wf_rule (HM : list nat) (r : rule) : bool :=
  forallb (wf_ident OCall) (ids_rule r)
  && negb (par_items (rbody r)) && negb (existsb par_hitem (rheads r))
  && forallb (fun m => memn m HM) (flat_map hinvs (rheads r)).

(* ------------------------------------------------------------------ the call graph (for the rejection of recursion) *)

Definition calls (M : list mdef) (m m' : nat) : Prop :=
  exists d, lookup_macro M m = Some d /\ In m' (invs_items (mbody d)).
Inductive reaches (M : list mdef) : nat -> nat -> Prop :=
| reach_step : forall m m', calls M m m' -> reaches M m m'
| reach_trans : forall m m' m'', calls M m m' -> reaches M m' m'' -> reaches M m m''.
(* m is self-referential, directly or mutually, or leads to such a macro *)
Definition diverges (M : list mdef) (m : nat) : Prop := reaches M m m \/ exists c, reaches M m c /\ reaches M c c.

(* ------------------------------------------------------------------ statically well-formed invocations
   (every invoked macro is defined, receives as many actuals as it has parameters, an `ident` parameter receives an
   identifier or an `ident` parameter of the enclosing macro, every `$p` is a declared parameter and stands at a
   variable position only if it is an `ident` parameter): then the depth budget is the only way an expansion can fail *)
Definition ok_var (G : list (nat * bool)) (v : var) : bool :=
  match v with VId _ => true | VPar p => match assoc G p with Some true => true | _ => false end end.
Definition ok_term (G : list (nat * bool)) (t : term) : bool :=
  match t with
  | TV (VId _) => true
  | TV (VPar p) => match assoc G p with Some _ => true | None => false end
  | TC _ => true
  | TF _ xs => forallb (ok_var G) xs
  end.
Definition ok_cnd (G : list (nat * bool)) (c : cnd) : bool :=
  match c with CIf _ xs => forallb (ok_var G) xs | CBind x _ xs => ok_var G x && forallb (ok_var G) xs end.
Definition ok_act (G : list (nat * bool)) (k : bool) (a : term) : bool :=
  if k then match a with TV v => ok_var G v | _ => false end else ok_term G a.
Fixpoint ok_acts (G : list (nat * bool)) (ps : list (nat * bool)) (acts : list term) : bool :=
  match ps, acts with
  | [], [] => true
  | (_, k) :: ps', a :: acts' => ok_act G k a && ok_acts G ps' acts'
  | _, _ => false
  end.
Fixpoint ok_item (M : list mdef) (G : list (nat * bool)) (it : item) : bool :=
  match it with
  | IClause _ args cs => forallb (ok_term G) args && forallb (ok_cnd G) cs
  | ICond c => ok_cnd G c
  | IGen x _ args => ok_var G x && forallb (ok_var G) args
  | INeg _ args => forallb (ok_term G) args
  | IDisj alts => forallb (forallb (ok_item M G)) alts
  | IInv m acts => match lookup_macro M m with Some d => ok_acts G (mparams d) acts | None => false end
  end.
Fixpoint nodupb (l : list nat) : bool := match l with [] => true | a :: l' => negb (memn a l') && nodupb l' end.
Definition head_shape (it : item) : bool := match it with IClause _ _ [] => true | IInv _ _ => true | _ => false end.
Definition table_ok (HM : list nat) (M : list mdef) : bool :=
  forallb (fun d => nodupb (map fst (mparams d)) && forallb (ok_item M (mparams d)) (mbody d)
                    && (if memn (mname d) HM then forallb head_shape (mbody d) && forallb (fun m' => memn m' HM) (invs_items (mbody d)) else true)) M.
Definition ok_hitem (M : list mdef) (h : hitem) : bool :=
  match h with HClause _ args => forallb (ok_term []) args | HInv m acts => ok_item M [] (IInv m acts) end.
Definition rule_ok (HM : list nat) (M : list mdef) (r : rule) : bool :=
  forallb (ok_item M []) (rbody r) && forallb (ok_hitem M) (rheads r) && forallb (fun m => memn m HM) (flat_map hinvs (rheads r)).
