(* C08 — structural lemmas about the syntax of Macros/MacroModel.v: induction principle, map over identifiers,
   observers under map, parameter substitution. *)
From Coq Require Import List String Ascii ZArith Bool Arith Lia Decimal DecimalString DecimalNat.
From AV Require Import Macros.MacroModel.
Import ListNotations.

(* ---------------------------------------------------------------- induction principle for items *)
Section ItemInd.
Variable P : item -> Prop.
Hypothesis Hcl : forall r a c, P (IClause r a c).
Hypothesis Hco : forall c, P (ICond c).
Hypothesis Hge : forall x g a, P (IGen x g a).
Hypothesis Hne : forall r a, P (INeg r a).
Hypothesis Hdi : forall alts, Forall (Forall P) alts -> P (IDisj alts).
Hypothesis Hin : forall m a, P (IInv m a).
Fixpoint item_ind' (it : item) : P it :=
  match it with
  | IClause r a c => Hcl r a c
  | ICond c => Hco c
  | IGen x g a => Hge x g a
  | INeg r a => Hne r a
  | IDisj alts =>
      Hdi alts ((fix go (l : list (list item)) : Forall (Forall P) l :=
                   match l with
                   | [] => Forall_nil _
                   | a :: l' => Forall_cons a ((fix go2 (b : list item) : Forall P b :=
                                                  match b with [] => Forall_nil _ | i :: b' => Forall_cons i (item_ind' i) (go2 b') end) a) (go l')
                   end) alts)
  | IInv m a => Hin m a
  end.
End ItemInd.

(* ---------------------------------------------------------------- small list facts *)
Lemma flat_map_map {A B C} (f : A -> B) (g : B -> list C) l : flat_map g (map f l) = flat_map (fun x => g (f x)) l.
Proof. induction l; simpl; congruence. Qed.
Lemma map_flat_map {A B C} (f : B -> C) (g : A -> list B) l : map f (flat_map g l) = flat_map (fun x => map f (g x)) l.
Proof. induction l; simpl; [reflexivity|]. rewrite map_app. congruence. Qed.
Lemma flat_map_ext_in {A B} (f g : A -> list B) l : (forall x, In x l -> f x = g x) -> flat_map f l = flat_map g l.
Proof. induction l; simpl; intros H; [reflexivity|]. rewrite H by auto. rewrite IHl; auto. Qed.
Lemma existsb_map {A B} (f : A -> B) (p : B -> bool) l : existsb p (map f l) = existsb (fun x => p (f x)) l.
Proof. induction l; simpl; congruence. Qed.
Lemma existsb_ext_in {A} (p q : A -> bool) l : (forall x, In x l -> p x = q x) -> existsb p l = existsb q l.
Proof. induction l; simpl; intros H; [reflexivity|]. rewrite H by auto. rewrite IHl; auto. Qed.
Lemma forallb_map {A B} (f : A -> B) (p : B -> bool) l : forallb p (map f l) = forallb (fun x => p (f x)) l.
Proof. induction l; simpl; congruence. Qed.
Lemma forallb_ext_in {A} (p q : A -> bool) l : (forall x, In x l -> p x = q x) -> forallb p l = forallb q l.
Proof. induction l; simpl; intros H; [reflexivity|]. rewrite H by auto. rewrite IHl; auto. Qed.
Lemma in_flat_map_iff {A B} (f : A -> list B) l y : In y (flat_map f l) <-> exists x, In x l /\ In y (f x).
Proof. apply in_flat_map. Qed.

(* ---------------------------------------------------------------- map over identifiers *)
Section MapLemmas.
Variables f g : ident -> ident.

Lemma map_var_ext v : (forall i, In i (ids_var v) -> f i = g i) -> map_var f v = map_var g v.
Proof. destruct v; simpl; intros H; [rewrite H; auto|reflexivity]. Qed.
Lemma map_vars_ext l : (forall i, In i (flat_map ids_var l) -> f i = g i) -> map (map_var f) l = map (map_var g) l.
Proof.
  induction l; simpl; intros H; [reflexivity|].
  rewrite (map_var_ext a), IHl; auto; intros; apply H; apply in_or_app; auto.
Qed.
Lemma map_term_ext t : (forall i, In i (ids_term t) -> f i = g i) -> map_term f t = map_term g t.
Proof.
  destruct t; simpl; intros H; [rewrite (map_var_ext v); auto|reflexivity|rewrite (map_vars_ext args); auto].
Qed.
Lemma map_terms_ext l : (forall i, In i (flat_map ids_term l) -> f i = g i) -> map (map_term f) l = map (map_term g) l.
Proof.
  induction l; simpl; intros H; [reflexivity|].
  rewrite (map_term_ext a), IHl; auto; intros; apply H; apply in_or_app; auto.
Qed.
Lemma map_cnd_ext c : (forall i, In i (ids_cnd c) -> f i = g i) -> map_cnd f c = map_cnd g c.
Proof.
  destruct c; simpl; intros H.
  - rewrite (map_vars_ext args); auto.
  - rewrite (map_var_ext x), (map_vars_ext args); auto; intros; apply H; apply in_or_app; auto.
Qed.
Lemma map_cnds_ext l : (forall i, In i (flat_map ids_cnd l) -> f i = g i) -> map (map_cnd f) l = map (map_cnd g) l.
Proof.
  induction l; simpl; intros H; [reflexivity|].
  rewrite (map_cnd_ext a), IHl; auto; intros; apply H; apply in_or_app; auto.
Qed.
Lemma map_item_ext it : (forall i, In i (ids_item it) -> f i = g i) -> map_item f it = map_item g it.
Proof.
  induction it using item_ind'; simpl; intros He.
  - rewrite (map_terms_ext a), (map_cnds_ext c); auto; intros; apply He; apply in_or_app; auto.
  - rewrite (map_cnd_ext c); auto.
  - rewrite (map_var_ext x), (map_vars_ext a); auto; intros; apply He; apply in_or_app; auto.
  - rewrite (map_terms_ext a); auto.
  - f_equal. revert He. induction H as [|alt alts Ha Hs IH]; simpl; intros He; [reflexivity|].
    f_equal.
    + clear IH Hs. assert (He' : forall i, In i (flat_map ids_item alt) -> f i = g i) by (intros; apply He; apply in_or_app; auto).
      clear He. induction Ha as [|i alt Hi Ha IH2]; simpl in *; [reflexivity|].
      f_equal; [apply Hi|apply IH2]; intros; apply He'; apply in_or_app; auto.
    + apply IH. intros; apply He; apply in_or_app; auto.
  - rewrite (map_terms_ext a); auto.
Qed.
Lemma map_items_ext l : (forall i, In i (ids_items l) -> f i = g i) -> map_items f l = map_items g l.
Proof.
  unfold map_items, ids_items. induction l; simpl; intros H; [reflexivity|].
  rewrite (map_item_ext a), IHl; auto; intros; apply H; apply in_or_app; auto.
Qed.
End MapLemmas.

Lemma FF_in (P : item -> Prop) alts : Forall (Forall P) alts -> forall alt, In alt alts -> forall i, In i alt -> P i.
Proof. intros H alt Ha i Hi. rewrite Forall_forall in H. specialize (H alt Ha). rewrite Forall_forall in H. auto. Qed.

Lemma map_var_comp f g v : map_var f (map_var g v) = map_var (fun i => f (g i)) v.
Proof. destruct v; reflexivity. Qed.
Lemma map_term_comp f g t : map_term f (map_term g t) = map_term (fun i => f (g i)) t.
Proof. destruct t; simpl; [rewrite map_var_comp|..]; try reflexivity. rewrite map_map. f_equal. apply map_ext; intros; apply map_var_comp. Qed.
Lemma map_cnd_comp f g c : map_cnd f (map_cnd g c) = map_cnd (fun i => f (g i)) c.
Proof. destruct c; simpl; rewrite ?map_var_comp, map_map; f_equal; apply map_ext; intros; apply map_var_comp. Qed.
Lemma map_item_comp f g it : map_item f (map_item g it) = map_item (fun i => f (g i)) it.
Proof.
  induction it using item_ind'; simpl; rewrite ?map_map, ?map_var_comp.
  - f_equal; apply map_ext; intros; [apply map_term_comp|apply map_cnd_comp].
  - f_equal; apply map_cnd_comp.
  - f_equal; apply map_ext; intros; apply map_var_comp.
  - f_equal; apply map_ext; intros; apply map_term_comp.
  - f_equal. apply map_ext_in; intros alt Ha. rewrite map_map. apply map_ext_in; intros i Hi. exact (FF_in _ _ H alt Ha i Hi).
  - f_equal; apply map_ext; intros; apply map_term_comp.
Qed.
Lemma map_items_comp f g l : map_items f (map_items g l) = map_items (fun i => f (g i)) l.
Proof. unfold map_items. rewrite map_map. apply map_ext; intros; apply map_item_comp. Qed.

Lemma map_var_id f v : (forall i, In i (ids_var v) -> f i = i) -> map_var f v = v.
Proof. destruct v; simpl; intros H; [rewrite H; auto|reflexivity]. Qed.
Lemma map_item_id f it : (forall i, In i (ids_item it) -> f i = i) -> map_item f it = it.
Proof.
  intros H. rewrite (map_item_ext f (fun i => i)) by exact H. clear H.
  induction it using item_ind'; simpl.
  - f_equal; [erewrite map_ext; [apply map_id|]; intros t; destruct t; simpl; try reflexivity; [destruct v; reflexivity|f_equal; erewrite map_ext; [apply map_id|]; intros v; destruct v; reflexivity]
            |erewrite map_ext; [apply map_id|]; intros c0; destruct c0; simpl; f_equal; try (destruct x; reflexivity); erewrite map_ext; [apply map_id| |apply map_id|]; intros v; destruct v; reflexivity].
  - destruct c; simpl; repeat f_equal; try (destruct x; reflexivity); erewrite map_ext; [apply map_id| |apply map_id|]; intros v; destruct v; reflexivity.
  - f_equal; [destruct x; reflexivity|erewrite map_ext; [apply map_id|]; intros v; destruct v; reflexivity].
  - f_equal. erewrite map_ext; [apply map_id|]; intros t; destruct t; simpl; try reflexivity; [destruct v; reflexivity|f_equal; erewrite map_ext; [apply map_id|]; intros v; destruct v; reflexivity].
  - f_equal. erewrite map_ext_in; [apply map_id|]. intros alt Ha. erewrite map_ext_in; [apply map_id|]. intros i Hi. exact (FF_in _ _ H alt Ha i Hi).
  - f_equal. erewrite map_ext; [apply map_id|]; intros t; destruct t; simpl; try reflexivity; [destruct v; reflexivity|f_equal; erewrite map_ext; [apply map_id|]; intros v; destruct v; reflexivity].
Qed.
Lemma map_items_id f l : (forall i, In i (ids_items l) -> f i = i) -> map_items f l = l.
Proof.
  unfold map_items, ids_items. induction l; simpl; intros H; [reflexivity|].
  rewrite map_item_id, IHl; auto; intros; apply H; apply in_or_app; auto.
Qed.

(* ---------------------------------------------------------------- observers under map *)
Lemma ids_var_map f v : ids_var (map_var f v) = map f (ids_var v).
Proof. destruct v; reflexivity. Qed.
Lemma ids_vars_map f l : flat_map ids_var (map (map_var f) l) = map f (flat_map ids_var l).
Proof. rewrite flat_map_map, map_flat_map. apply flat_map_ext_in; intros; apply ids_var_map. Qed.
Lemma ids_term_map f t : ids_term (map_term f t) = map f (ids_term t).
Proof. destruct t; simpl; [apply ids_var_map|reflexivity|apply ids_vars_map]. Qed.
Lemma ids_terms_map f l : flat_map ids_term (map (map_term f) l) = map f (flat_map ids_term l).
Proof. rewrite flat_map_map, map_flat_map. apply flat_map_ext_in; intros; apply ids_term_map. Qed.
Lemma ids_cnd_map f c : ids_cnd (map_cnd f c) = map f (ids_cnd c).
Proof. destruct c; simpl; rewrite ?map_app, ?ids_var_map, ids_vars_map; reflexivity. Qed.
Lemma ids_cnds_map f l : flat_map ids_cnd (map (map_cnd f) l) = map f (flat_map ids_cnd l).
Proof. rewrite flat_map_map, map_flat_map. apply flat_map_ext_in; intros; apply ids_cnd_map. Qed.
Lemma ids_item_map f it : ids_item (map_item f it) = map f (ids_item it).
Proof.
  induction it using item_ind'; simpl; rewrite ?map_app, ?ids_terms_map, ?ids_cnds_map, ?ids_cnd_map, ?ids_var_map, ?ids_vars_map; try reflexivity.
  rewrite flat_map_map, map_flat_map. apply flat_map_ext_in; intros alt Ha.
  rewrite flat_map_map, map_flat_map. apply flat_map_ext_in; intros i Hi. exact (FF_in _ _ H alt Ha i Hi).
Qed.
Lemma ids_items_map f l : ids_items (map_items f l) = map f (ids_items l).
Proof. unfold ids_items, map_items. rewrite flat_map_map, map_flat_map. apply flat_map_ext_in; intros; apply ids_item_map. Qed.

Lemma bv_var_map f v : bv_var (map_var f v) = map f (bv_var v).
Proof. destruct v; reflexivity. Qed.
Lemma bv_term_map f t : bv_term (map_term f t) = map f (bv_term t).
Proof. destruct t; simpl; [apply bv_var_map|reflexivity..]. Qed.
Lemma bv_item_map f it : bv_item (map_item f it) = map f (bv_item it).
Proof.
  induction it using item_ind'; simpl; try reflexivity.
  - rewrite map_app. f_equal.
    + rewrite flat_map_map, map_flat_map. apply flat_map_ext_in; intros; apply bv_term_map.
    + rewrite flat_map_map, map_flat_map. apply flat_map_ext_in; intros c0 _. destruct c0; simpl; [reflexivity|apply bv_var_map].
  - destruct c; simpl; [reflexivity|apply bv_var_map].
  - apply bv_var_map.
  - rewrite flat_map_map, map_flat_map. apply flat_map_ext_in; intros alt Ha.
    rewrite flat_map_map, map_flat_map. apply flat_map_ext_in; intros i Hi. exact (FF_in _ _ H alt Ha i Hi).
Qed.
Lemma bv_items_map f l : bv_items (map_items f l) = map f (bv_items l).
Proof. unfold bv_items, map_items. rewrite flat_map_map, map_flat_map. apply flat_map_ext_in; intros; apply bv_item_map. Qed.

Lemma par_var_map f v : par_var (map_var f v) = par_var v.
Proof. destruct v; reflexivity. Qed.
Lemma par_vars_map f l : existsb par_var (map (map_var f) l) = existsb par_var l.
Proof. rewrite existsb_map. apply existsb_ext_in; intros; apply par_var_map. Qed.
Lemma par_term_map f t : par_term (map_term f t) = par_term t.
Proof. destruct t; simpl; [apply par_var_map|reflexivity|apply par_vars_map]. Qed.
Lemma par_terms_map f l : existsb par_term (map (map_term f) l) = existsb par_term l.
Proof. rewrite existsb_map. apply existsb_ext_in; intros; apply par_term_map. Qed.
Lemma par_cnd_map f c : par_cnd (map_cnd f c) = par_cnd c.
Proof. destruct c; simpl; rewrite ?par_var_map, par_vars_map; reflexivity. Qed.
Lemma par_item_map f it : par_item (map_item f it) = par_item it.
Proof.
  induction it using item_ind'; simpl; rewrite ?par_terms_map, ?par_cnd_map, ?par_var_map, ?par_vars_map; try reflexivity.
  - f_equal. rewrite existsb_map. apply existsb_ext_in; intros; apply par_cnd_map.
  - rewrite existsb_map. apply existsb_ext_in; intros alt Ha.
    rewrite existsb_map. apply existsb_ext_in; intros i Hi. exact (FF_in _ _ H alt Ha i Hi).
Qed.
Lemma par_items_map f l : par_items (map_items f l) = par_items l.
Proof. unfold par_items, map_items. rewrite existsb_map. apply existsb_ext_in; intros; apply par_item_map. Qed.

Lemma invs_item_map f it : invs_item (map_item f it) = invs_item it.
Proof.
  induction it using item_ind'; simpl; try reflexivity.
  rewrite flat_map_map. apply flat_map_ext_in; intros alt Ha.
  rewrite flat_map_map. apply flat_map_ext_in; intros i Hi. exact (FF_in _ _ H alt Ha i Hi).
Qed.
Lemma invs_items_map f l : invs_items (map_items f l) = invs_items l.
Proof. unfold invs_items, map_items. rewrite flat_map_map. apply flat_map_ext_in; intros; apply invs_item_map. Qed.


Lemma bv_var_incl v : incl (bv_var v) (ids_var v).
Proof. destruct v; simpl; auto with datatypes. Qed.
Lemma bv_item_incl it : incl (bv_item it) (ids_item it).
Proof.
  induction it using item_ind'; simpl; try (intros x []).
  - intros x Hx. apply in_app_or in Hx as [Hx|Hx]; apply in_or_app; [left|right].
    + apply in_flat_map in Hx as [t [Ht Hx]]. apply in_flat_map. exists t; split; auto.
      destruct t; simpl in *; try contradiction. destruct v; simpl in *; auto.
    + apply in_flat_map in Hx as [c0 [Hc Hx]]. apply in_flat_map. exists c0; split; auto.
      destruct c0; simpl in *; [contradiction|]. apply in_or_app; left. apply bv_var_incl; auto.
  - destruct c; simpl; [intros x []|]. intros i Hi. apply in_or_app; left. apply bv_var_incl; auto.
  - intros i Hi. apply in_or_app; left. apply bv_var_incl; auto.
  - intros x Hx. apply in_flat_map in Hx as [alt [Ha Hx]]. apply in_flat_map in Hx as [i [Hi Hx]].
    apply in_flat_map. exists alt; split; auto. apply in_flat_map. exists i; split; auto. exact (FF_in _ _ H alt Ha i Hi x Hx).
Qed.
Lemma bv_items_incl l : incl (bv_items l) (ids_items l).
Proof. intros x Hx. apply in_flat_map in Hx as [i [Hi Hx]]. apply in_flat_map. exists i; split; auto. apply bv_item_incl; auto. Qed.

(* ---------------------------------------------------------------- substitution *)
Definition map_sigma (f : ident -> ident) (s : list (nat * term)) : list (nat * term) := map (fun pt => (fst pt, map_term f (snd pt))) s.
Lemma assoc_map_sigma f s p : assoc (map_sigma f s) p = option_map (map_term f) (assoc s p).
Proof. induction s as [|[q t] s IH]; simpl; [reflexivity|]. destruct (Nat.eqb p q); auto. Qed.
Lemma subst_var_map f s v : map_var f (subst_var s v) = subst_var (map_sigma f s) (map_var f v).
Proof.
  destruct v; simpl; [reflexivity|]. rewrite assoc_map_sigma. destruct (assoc s p) as [t|]; simpl; [|reflexivity].
  destruct t; simpl; try reflexivity.
Qed.
Lemma subst_vars_map f s l : map (map_var f) (map (subst_var s) l) = map (subst_var (map_sigma f s)) (map (map_var f) l).
Proof. rewrite !map_map. apply map_ext; intros; apply subst_var_map. Qed.
Lemma subst_term_map f s t : map_term f (subst_term s t) = subst_term (map_sigma f s) (map_term f t).
Proof.
  destruct t; simpl; try reflexivity.
  - destruct v; simpl; [reflexivity|]. rewrite assoc_map_sigma. destruct (assoc s p); reflexivity.
  - f_equal. apply subst_vars_map.
Qed.
Lemma subst_terms_map f s l : map (map_term f) (map (subst_term s) l) = map (subst_term (map_sigma f s)) (map (map_term f) l).
Proof. rewrite !map_map. apply map_ext; intros; apply subst_term_map. Qed.
Lemma subst_cnd_map f s c : map_cnd f (subst_cnd s c) = subst_cnd (map_sigma f s) (map_cnd f c).
Proof. destruct c; simpl; rewrite ?subst_var_map, subst_vars_map; reflexivity. Qed.
Lemma subst_item_map f s it : map_item f (subst_item s it) = subst_item (map_sigma f s) (map_item f it).
Proof.
  induction it using item_ind'; simpl; rewrite ?subst_terms_map, ?subst_cnd_map, ?subst_var_map, ?subst_vars_map; try reflexivity.
  - f_equal. rewrite !map_map. apply map_ext; intros; apply subst_cnd_map.
  - f_equal. rewrite !map_map. apply map_ext_in; intros alt Ha. rewrite !map_map. apply map_ext_in; intros i Hi.
    exact (FF_in _ _ H alt Ha i Hi).
Qed.
Lemma subst_items_map f s l : map_items f (subst_items s l) = subst_items (map_sigma f s) (map_items f l).
Proof. unfold map_items, subst_items. rewrite !map_map. apply map_ext; intros; apply subst_item_map. Qed.

Lemma invs_item_subst s it : invs_item (subst_item s it) = invs_item it.
Proof.
  induction it using item_ind'; simpl; try reflexivity.
  rewrite flat_map_map. apply flat_map_ext_in; intros alt Ha.
  rewrite flat_map_map. apply flat_map_ext_in; intros i Hi. exact (FF_in _ _ H alt Ha i Hi).
Qed.
Lemma invs_items_subst s l : invs_items (subst_items s l) = invs_items l.
Proof. unfold invs_items, subst_items. rewrite flat_map_map. apply flat_map_ext_in; intros; apply invs_item_subst. Qed.


Lemma bv_var_subst s v : incl (bv_var v) (bv_var (subst_var s v)).
Proof. destruct v; simpl; [apply incl_refl|intros x []]. Qed.
Lemma bv_item_subst s it : incl (bv_item it) (bv_item (subst_item s it)).
Proof.
  induction it using item_ind'; simpl; try (intros x []).
  - intros x Hx. apply in_app_or in Hx as [Hx|Hx]; apply in_or_app; [left|right].
    + apply in_flat_map in Hx as [t [Ht Hx]]. apply in_flat_map. exists (subst_term s t). split; [apply in_map; auto|].
      destruct t; simpl in *; try contradiction. destruct v; simpl in *; [auto|contradiction].
    + apply in_flat_map in Hx as [c0 [Hc Hx]]. apply in_flat_map. exists (subst_cnd s c0). split; [apply in_map; auto|].
      destruct c0; simpl in *; [contradiction|]. apply bv_var_subst; auto.
  - destruct c; simpl; [intros x []|apply bv_var_subst].
  - apply bv_var_subst.
  - intros x Hx. apply in_flat_map in Hx as [alt [Ha Hx]]. apply in_flat_map in Hx as [i [Hi Hx]].
    apply in_flat_map. exists (map (subst_item s) alt). split; [apply in_map; auto|].
    apply in_flat_map. exists (subst_item s i). split; [apply in_map; auto|]. exact (FF_in _ _ H alt Ha i Hi x Hx).
Qed.
Lemma bv_items_subst s l : incl (bv_items l) (bv_items (subst_items s l)).
Proof.
  intros x Hx. apply in_flat_map in Hx as [i [Hi Hx]]. apply in_flat_map. exists (subst_item s i).
  split; [apply in_map; auto|apply bv_item_subst; auto].
Qed.

Definition sigma_ids (s : list (nat * term)) : list ident := flat_map (fun pt => ids_term (snd pt)) s.
Lemma assoc_in {B} (s : list (nat * B)) p t : assoc s p = Some t -> In (p, t) s.
Proof. induction s as [|[q u] s IH]; simpl; [discriminate|]. destruct (Nat.eqb_spec p q); [intros [= ->]; subst; auto|auto]. Qed.
Lemma ids_var_subst s v : incl (ids_var (subst_var s v)) (ids_var v ++ sigma_ids s).
Proof.
  destruct v; simpl; [intros x [<-|[]]; left; reflexivity|].
  destruct (assoc s p) as [t|] eqn:E; [|intros x []]. destruct t; try (intros x []).
  intros x Hx. apply assoc_in in E. apply in_flat_map. exists (p, TV v). auto.
Qed.
Lemma ids_vars_subst s l : incl (flat_map ids_var (map (subst_var s) l)) (flat_map ids_var l ++ sigma_ids s).
Proof.
  intros x Hx. apply in_flat_map in Hx as [v [Hv Hx]]. apply in_map_iff in Hv as [w [<- Hw]].
  apply ids_var_subst in Hx. apply in_app_or in Hx as [Hx|Hx]; apply in_or_app; [left|auto]. apply in_flat_map; eauto.
Qed.
Lemma ids_term_subst s t : incl (ids_term (subst_term s t)) (ids_term t ++ sigma_ids s).
Proof.
  destruct t; simpl; try (intros x []).
  - destruct v; simpl; [intros x [<-|[]]; left; reflexivity|].
    destruct (assoc s p) as [t|] eqn:E; [|intros x []]. intros x Hx. apply assoc_in in E. apply in_flat_map. exists (p, t). auto.
  - apply ids_vars_subst.
Qed.
Lemma ids_terms_subst s l : incl (flat_map ids_term (map (subst_term s) l)) (flat_map ids_term l ++ sigma_ids s).
Proof.
  intros x Hx. apply in_flat_map in Hx as [v [Hv Hx]]. apply in_map_iff in Hv as [w [<- Hw]].
  apply ids_term_subst in Hx. apply in_app_or in Hx as [Hx|Hx]; apply in_or_app; [left|auto]. apply in_flat_map; eauto.
Qed.
Lemma ids_cnd_subst s c : incl (ids_cnd (subst_cnd s c)) (ids_cnd c ++ sigma_ids s).
Proof.
  destruct c; simpl; [apply ids_vars_subst|].
  intros i Hi. apply in_app_or in Hi as [Hi|Hi]; [apply ids_var_subst in Hi|apply ids_vars_subst in Hi];
    apply in_app_or in Hi as [Hi|Hi]; apply in_or_app; auto; left; apply in_or_app; auto.
Qed.
Lemma ids_item_subst s it : incl (ids_item (subst_item s it)) (ids_item it ++ sigma_ids s).
Proof.
  induction it using item_ind'; simpl.
  - intros i Hi. apply in_app_or in Hi as [Hi|Hi].
    + apply ids_terms_subst in Hi. apply in_app_or in Hi as [Hi|Hi]; apply in_or_app; auto. left; apply in_or_app; auto.
    + apply in_flat_map in Hi as [c0 [Hc Hi]]. apply in_map_iff in Hc as [c1 [<- Hc1]]. apply ids_cnd_subst in Hi.
      apply in_app_or in Hi as [Hi|Hi]; apply in_or_app; auto. left; apply in_or_app; right. apply in_flat_map; eauto.
  - apply ids_cnd_subst.
  - intros i Hi. apply in_app_or in Hi as [Hi|Hi]; [apply ids_var_subst in Hi|apply ids_vars_subst in Hi];
      apply in_app_or in Hi as [Hi|Hi]; apply in_or_app; auto; left; apply in_or_app; auto.
  - apply ids_terms_subst.
  - intros x Hx. apply in_flat_map in Hx as [alt' [Ha Hx]]. apply in_map_iff in Ha as [alt [<- Ha]].
    apply in_flat_map in Hx as [i' [Hi Hx]]. apply in_map_iff in Hi as [i [<- Hi]].
    apply (FF_in _ _ H alt Ha i Hi) in Hx. apply in_app_or in Hx as [Hx|Hx]; apply in_or_app; auto.
    left. apply in_flat_map. exists alt; split; auto. apply in_flat_map; eauto.
  - apply ids_terms_subst.
Qed.
Lemma ids_items_subst s l : incl (ids_items (subst_items s l)) (ids_items l ++ sigma_ids s).
Proof.
  intros x Hx. apply in_flat_map in Hx as [i' [Hi Hx]]. apply in_map_iff in Hi as [i [<- Hi]].
  apply ids_item_subst in Hx. apply in_app_or in Hx as [Hx|Hx]; apply in_or_app; auto. left. apply in_flat_map; eauto.
Qed.

(* bind_args *)
Lemma act_ok_map f k a : act_ok k (map_term f a) = act_ok k a.
Proof. unfold act_ok. rewrite par_term_map. destruct k; [|reflexivity]. destruct a as [[|]| |]; reflexivity. Qed.
Lemma bind_args_map f ps : forall acts acc,
  bind_args ps (map (map_term f) acts) (map_sigma f acc) = option_map (map_sigma f) (bind_args ps acts acc).
Proof.
  induction ps as [|[p k] ps IH]; intros [|a acts] acc; simpl; try reflexivity.
  rewrite act_ok_map. destruct (act_ok k a); [|reflexivity]. exact (IH acts ((p, a) :: acc)).
Qed.
Lemma bind_args_ids ps : forall acts acc s, bind_args ps acts acc = Some s -> incl (sigma_ids s) (flat_map ids_term acts ++ sigma_ids acc).
Proof.
  induction ps as [|[p k] ps IH]; intros [|a acts] acc s; simpl; try discriminate.
  - intros [= <-]. intros x Hx; auto.
  - destruct (act_ok k a); [|discriminate]. intros Hb. apply IH in Hb. intros x Hx. apply Hb in Hx.
    apply in_app_or in Hx as [Hx|Hx]; apply in_or_app; [left; apply in_or_app; auto|].
    simpl in Hx. apply in_app_or in Hx as [Hx|Hx]; [left; apply in_or_app; auto|auto].
Qed.
Lemma lookup_macro_in M m d : lookup_macro M m = Some d -> In d M /\ mname d = m.
Proof.
  unfold lookup_macro. intros H. apply find_some in H as [Hi He]. apply in_rev in Hi. apply Nat.eqb_eq in He. auto.
Qed.
