(* C08 — glue used by the tie only (no theorem depends on it): an expanded rule (no invocation, no `$p` left)
   is translated to the core language of Engine/Core.v and evaluated with the specification semantics
   (Engine/Sem.v naive_fix through Engine/Strat.v strat_fix).  Variables are identified by (iname, isc):
   for the faithful expansion isc is 0 everywhere (variables are told apart by name, as rustc does), for the
   hygienic reference expansion the scope is part of the variable's identity.
   Scoping errors that the real tool chain reports at compile time are detected here as well:
   use of an unbound variable (rustc: cannot find value) and a let / if-let / for pattern that rebinds a
   bound variable (ascent: "shadows another variable"). *)
From Coq Require Import List String ZArith Bool Arith.
From AV Require Import Engine.Core Engine.Sem Engine.Vocab Engine.Strat Macros.MacroModel.
Import ListNotations.

Definition key := (string * nat)%type.
Definition key_of (i : ident) : key := (iname i, isc i).
Definition key_eqb (a b : key) : bool := String.eqb (fst a) (fst b) && Nat.eqb (snd a) (snd b).
Fixpoint key_index (k : key) (tbl : list key) : option nat :=
  match tbl with
  | [] => None
  | a :: t => if key_eqb k a then Some 0%nat else option_map S (key_index k t)
  end.
Fixpoint key_dedup (l : list key) (acc : list key) : list key :=
  match l with
  | [] => acc
  | k :: l' => match key_index k acc with Some _ => key_dedup l' acc | None => key_dedup l' (acc ++ [k]) end
  end.

(* rule_desugar_disjunction_nodes: one rule per choice of disjuncts *)
Fixpoint flat_item (fuel : nat) (it : item) : list (list item) :=
  match fuel with
  | O => []
  | S n =>
      match it with
      | IDisj alts =>
          flat_map (fun alt => fold_left (fun acc i => flat_map (fun pre => map (fun suf => pre ++ suf) (flat_item n i)) acc) alt [[]]) alts
      | _ => [[it]]
      end
  end.
Definition flat_items (l : list item) : list (list item) :=
  fold_left (fun acc i => flat_map (fun pre => map (fun suf => pre ++ suf) (flat_item 200 i)) acc) l [[]].

Section Conv.
Variable tbl : list key.
Definition vnum (v : MacroModel.var) : nat :=
  match v with VId i => match key_index (key_of i) tbl with Some n => n | None => 0%nat end | VPar _ => 0%nat end.
Definition cterm (t : MacroModel.term) : Core.term :=
  match t with TV v => TVar (vnum v) | TC c => TConst c | TF f xs => TFun f (map vnum xs) end.
Definition ccnd (c : cnd) : Core.cond :=
  match c with MacroModel.CIf p xs => Core.CIf p (map vnum xs) | MacroModel.CBind x f xs => Core.CBind (vnum x) f (map vnum xs) end.
Definition citem (it : item) : list bitem :=
  match it with
  | IClause r args cs => [BClause r (map cterm args) (map ccnd cs)]
  | ICond c => [BCond (ccnd c)]
  | IGen x g xs => [BGen (vnum x) g (map vnum xs)]
  | INeg r args => [BAgg None 4%nat [] r (map (fun t => AKey (cterm t)) args)]
  | _ => []
  end.
End Conv.

Inductive scoping := ScOk | ScUnbound | ScShadow.
Definition memv (x : nat) (l : list nat) : bool := existsb (Nat.eqb x) l.
Definition all_bound (xs : list nat) (b : list nat) : bool := forallb (fun x => memv x b) xs.

Definition sc_cond (c : Core.cond) (b : list nat) : scoping * list nat :=
  match c with
  | Core.CIf _ xs => (if all_bound xs b then ScOk else ScUnbound, b)
  | Core.CBind x _ xs => if all_bound xs b then (if memv x b then (ScShadow, b) else (ScOk, x :: b)) else (ScUnbound, b)
  end.
Fixpoint sc_conds (cs : list Core.cond) (b : list nat) : scoping * list nat :=
  match cs with
  | [] => (ScOk, b)
  | c :: cs' => match sc_cond c b with (ScOk, b') => sc_conds cs' b' | bad => bad end
  end.
Fixpoint sc_args (args : list Core.term) (b : list nat) : scoping * list nat :=
  match args with
  | [] => (ScOk, b)
  | TVar x :: args' => sc_args args' (if memv x b then b else x :: b)
  | TConst _ :: args' => sc_args args' b
  | TFun _ xs :: args' => if all_bound xs b then sc_args args' b else (ScUnbound, b)
  end.
Definition sc_aarg (a : aarg) (b : list nat) : bool :=
  match a with AKey (TVar x) => memv x b | AKey (TFun _ xs) => all_bound xs b | _ => true end.
Fixpoint sc_body (items : list bitem) (b : list nat) : scoping * list nat :=
  match items with
  | [] => (ScOk, b)
  | BClause _ args cs :: rest =>
      match sc_args args b with
      | (ScOk, b1) => match sc_conds cs b1 with (ScOk, b2) => sc_body rest b2 | bad => bad end
      | bad => bad
      end
  | BCond c :: rest => match sc_cond c b with (ScOk, b') => sc_body rest b' | bad => bad end
  | BGen x _ xs :: rest =>
      if all_bound xs b then (if memv x b then (ScShadow, b) else sc_body rest (x :: b)) else (ScUnbound, b)
  | BAgg _ _ _ _ args :: rest => if forallb (fun a => sc_aarg a b) args then sc_body rest b else (ScUnbound, b)
  end.
Definition sc_head (b : list nat) (h : rel * list Core.term) : bool :=
  forallb (fun t => match t with TVar x => memv x b | TFun _ xs => all_bound xs b | TConst _ => true end) (snd h).
Definition sc_rule (r : Core.rule) : scoping :=
  match sc_body (body r) [] with
  | (ScOk, b) => if forallb (sc_head b) (heads r) then ScOk else ScUnbound
  | (bad, _) => bad
  end.

Definition chead (tbl : list key) (h : hitem) : list (rel * list Core.term) :=
  match h with HClause r args => [(r, map (cterm tbl) args)] | HInv _ _ => [] end.

(* an expanded surface rule -> the core rules of its disjunction-free variants *)
Definition core_rules (r : MacroModel.rule) : list Core.rule :=
  map (fun its =>
         let tbl := key_dedup (map key_of (ids_items its ++ flat_map ids_hitem (rheads r))) [] in
         {| heads := flat_map (chead tbl) (rheads r); body := flat_map (citem tbl) its |})
      (flat_items (rbody r)).

Definition residual (r : MacroModel.rule) : bool :=
  par_items (rbody r) || existsb par_hitem (rheads r)
  || match invs_items (rbody r) ++ flat_map hinvs (rheads r) with [] => false | _ => true end.

Inductive outcome :=
| Facts (fs : list fact)
| CompileError (s : scoping)        (* the expanded program is ill-scoped *)
| Rejected (e : err)                (* the expansion itself fails *)
| Residual                          (* invocation / parameter left: cannot happen after a successful expansion *)
| NotStratified
| OutOfFuel.

Fixpoint first_bad (l : list Core.rule) : scoping :=
  match l with [] => ScOk | r :: l' => match sc_rule r with ScOk => first_bad l' | bad => bad end end.

(* strata: lists of indices into the (surface) rule list, producers first *)
Definition run_expanded (rs : res (list MacroModel.rule)) (strata : list (list nat)) (F0 : list fact) : outcome :=
  match rs with
  | Err e => Rejected e
  | OK rules =>
      if existsb residual rules then Residual else
      let per_rule := map core_rules rules in
      match first_bad (List.concat per_rule) with
      | ScOk =>
          let st := map (fun ixs => flat_map (fun i => nth i per_rule []) ixs) strata in
          if stratified st then
            match strat_fix std_interp 200 st F0 with Some F => Facts F | None => OutOfFuel end
          else NotStratified
      | bad => CompileError bad
      end
  end.

Definition run_model (M : list mdef) (rs : list MacroModel.rule) (strata : list (list nat)) (F0 : list fact) : outcome :=
  run_expanded (expand_prog M rs) strata F0.
Definition run_hygienic (M : list mdef) (rs : list MacroModel.rule) (strata : list (list nat)) (F0 : list fact) : outcome :=
  run_expanded (hexpand_prog M rs) strata F0.

(* which hypothesis of the hygiene theorem fails (0 = none): used by the tie to classify a program before it is run *)
Definition ids_ok (M : list mdef) (rs : list MacroModel.rule) : bool :=
  forallb (fun d => forallb (wf_ident (OMac (mname d))) (ids_items (mbody d))) M
  && forallb (fun r => forallb (wf_ident OCall) (ids_rule r)) rs.
Definition locals_bound_ok (M : list mdef) : bool := forallb (wf_def_bound M) M.
(* every macro local is bound by a direct item of its body (the hypothesis before binders through nested invocations were
   admitted): reported so that the tie can count the programs that are inside the theorem only thanks to nested binders *)
Definition locals_bound_directly (M : list mdef) : bool := forallb wf_def_bound_direct M.
Definition wf_report (rk : nat -> nat) (HM : list nat) (M : list mdef) (rs : list MacroModel.rule) : list bool :=
  [ids_ok M rs; locals_bound_ok M;
   forallb (wf_head_def HM) M && forallb (fun r => forallb (fun m => memn m HM) (flat_map hinvs (rheads r))) rs;
   wf_macros rk HM M && forallb (wf_rule HM) rs;
   locals_bound_directly M].
