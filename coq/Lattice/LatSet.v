(* C16: Set<T> and BoundedSet<BOUND, T> over canonical sorted lists. *)
From Coq Require Import List ZArith Bool Lia.
From AV Require Import Lattice.LatModel.
From AV Require Import Lattice.LatLaws.
Import ListNotations.
Open Scope Z_scope.

(* ---------------------------------------------------------------- sorted lists as sets *)
Lemma contains_In s x : set_contains s x = true <-> In x s.
Proof.
  induction s as [|y s IH]; cbn; [split; [discriminate|tauto]|].
  rewrite orb_true_iff, Z.eqb_eq, IH. split; intros [H|H]; auto.
Qed.

Lemma insert_In x s y : In y (set_insert x s) <-> y = x \/ In y s.
Proof.
  induction s as [|z s IH]; cbn; [intuition|].
  destruct (Z.compare_spec x z) as [E|E|E]; cbn.
  - subst. intuition congruence.
  - intuition congruence.
  - rewrite IH. intuition congruence.
Qed.

Lemma sorted_cons x s : set_sorted (x :: s) = true <-> (forall y, In y s -> x < y) /\ set_sorted s = true.
Proof.
  revert x. induction s as [|z s IH]; intros x.
  - cbn. split; [intros _; split; [intros y []|reflexivity]|reflexivity].
  - change (set_sorted (x :: z :: s)) with (Z.ltb x z && set_sorted (z :: s)).
    rewrite andb_true_iff, Z.ltb_lt. split.
    + intros [H1 H2]. split; [|exact H2]. intros y [<-|Hy]; [exact H1|].
      apply IH in H2. destruct H2 as [H2 _]. specialize (H2 y Hy). lia.
    + intros [H1 H2]. split; [apply H1; left; reflexivity|exact H2].
Qed.

Lemma insert_sorted x s : set_sorted s = true -> set_sorted (set_insert x s) = true.
Proof.
  induction s as [|z s IH]; intros H; [reflexivity|]. cbn [set_insert].
  destruct (Z.compare_spec x z) as [E|E|E].
  - exact H.
  - apply sorted_cons. split; [|exact H]. apply sorted_cons in H. destruct H as [H _].
    intros y [<-|Hy]; [exact E|]. specialize (H y Hy). lia.
  - apply sorted_cons in H. destruct H as [H1 H2]. apply sorted_cons. split; [|auto].
    intros y Hy. apply insert_In in Hy. destruct Hy as [->|Hy]; [exact E|auto].
Qed.

Lemma sorted_NoDup s : set_sorted s = true -> NoDup s.
Proof.
  induction s as [|x s IH]; intros H; [constructor|]. apply sorted_cons in H. destruct H as [H1 H2].
  constructor; [|auto]. intros Hin. specialize (H1 x Hin). lia.
Qed.

Lemma sorted_ext a : forall b, set_sorted a = true -> set_sorted b = true -> (forall x, In x a <-> In x b) -> a = b.
Proof.
  induction a as [|x a IH]; intros [|y b] Ha Hb H.
  - reflexivity.
  - exfalso. apply (proj2 (H y)). left; reflexivity.
  - exfalso. apply (proj1 (H x)). left; reflexivity.
  - apply sorted_cons in Ha, Hb. destruct Ha as [La Sa], Hb as [Lb Sb].
    assert (x = y).
    { destruct (proj1 (H x) (or_introl eq_refl)) as [E|E]; [auto|].
      destruct (proj2 (H y) (or_introl eq_refl)) as [E'|E']; [auto|].
      specialize (La y E'). specialize (Lb x E). lia. }
    subst y. f_equal. apply IH; auto. intros z. split; intros Hz.
    + destruct (proj1 (H z) (or_intror Hz)) as [E|E]; [|exact E]. specialize (La z Hz). lia.
    + destruct (proj2 (H z) (or_intror Hz)) as [E|E]; [|exact E]. specialize (Lb z Hz). lia.
Qed.

Lemma subset_incl a b : set_is_subset a b = true <-> incl a b.
Proof.
  unfold set_is_subset, incl. rewrite forallb_forall. split; intros H x Hx; [apply contains_In|apply contains_In]; auto.
Qed.

Lemma zlist_eqb_spec : forall a b, list_eqb Z.eqb a b = true <-> a = b.
Proof.
  induction a as [|x a IH]; intros [|y b]; cbn; try (split; congruence).
  rewrite andb_true_iff, Z.eqb_eq, IH. split; [intros [-> ->]; reflexivity|intros X; injection X as -> ->; auto].
Qed.
Lemma zlist_eqb_refl a : list_eqb Z.eqb a a = true.
Proof. apply zlist_eqb_spec. reflexivity. Qed.

(* a sorted superset (subset) of the same length is the same set *)
Lemma len_flag_sup a r : set_sorted a = true -> set_sorted r = true -> incl a r ->
  negb (Z.eqb (set_len a) (set_len r)) = negb (list_eqb Z.eqb r a).
Proof.
  intros Sa Sr I. f_equal. unfold set_len.
  destruct (list_eqb Z.eqb r a) eqn:E.
  - apply zlist_eqb_spec in E. subst. apply Z.eqb_refl.
  - apply Z.eqb_neq. intros Len. apply Nat2Z.inj in Len.
    assert (r = a); [|subst; rewrite zlist_eqb_refl in E; discriminate].
    apply sorted_ext; auto. intros x. split; [|apply I].
    apply (NoDup_length_incl (sorted_NoDup a Sa)); [lia|exact I].
Qed.
Lemma len_flag_sub a r : set_sorted a = true -> set_sorted r = true -> incl r a ->
  negb (Z.eqb (set_len a) (set_len r)) = negb (list_eqb Z.eqb r a).
Proof.
  intros Sa Sr I. f_equal. unfold set_len.
  destruct (list_eqb Z.eqb r a) eqn:E.
  - apply zlist_eqb_spec in E. subst. apply Z.eqb_refl.
  - apply Z.eqb_neq. intros Len. apply Nat2Z.inj in Len.
    assert (r = a); [|subst; rewrite zlist_eqb_refl in E; discriminate].
    apply sorted_ext; auto. intros x. split; [apply I|].
    apply (NoDup_length_incl (sorted_NoDup r Sr)); [lia|exact I].
Qed.

(* the two loops *)
Lemma fold_insert_spec o : forall s,
  (forall y, In y (fold_left (fun acc item => set_insert item acc) o s) <-> In y o \/ In y s) /\
  (set_sorted s = true -> set_sorted (fold_left (fun acc item => set_insert item acc) o s) = true).
Proof.
  induction o as [|i o IH]; intros s; cbn [fold_left].
  - split; [intros y; cbn; tauto|auto].
  - destruct (IH (set_insert i s)) as [H1 H2]. split.
    + intros y. rewrite H1, insert_In. cbn. intuition.
    + intros S. apply H2, insert_sorted, S.
Qed.
Lemma fold_filter_spec other old : forall s,
  (forall y, In y (fold_left (fun acc item => if set_contains other item then set_insert item acc else acc) old s)
             <-> (In y old /\ In y other) \/ In y s) /\
  (set_sorted s = true ->
   set_sorted (fold_left (fun acc item => if set_contains other item then set_insert item acc else acc) old s) = true).
Proof.
  induction old as [|i old IH]; intros s; cbn [fold_left].
  - split; [intros y; cbn; tauto|auto].
  - destruct (set_contains other i) eqn:E.
    + destruct (IH (set_insert i s)) as [H1 H2]. apply contains_In in E. split.
      * intros y. rewrite H1, insert_In. cbn. intuition; subst; auto.
      * intros S. apply H2, insert_sorted, S.
    + destruct (IH s) as [H1 H2]. split; [|exact H2].
      intros y. rewrite H1. cbn. intuition. subst. apply contains_In in H3. congruence.
Qed.

Definition set_j (a b : list Z) : list Z := fst (set_join_mut a b).
Definition set_m (a b : list Z) : list Z := fst (set_meet_mut a b).

Lemma set_j_In a b y : In y (set_j a b) <-> In y a \/ In y b.
Proof.
  unfold set_j, set_join_mut. destruct (Z.ltb (set_len a) (set_len b)); cbn [fst].
  - rewrite (proj1 (fold_insert_spec a b)). tauto.
  - rewrite (proj1 (fold_insert_spec b a)). tauto.
Qed.
Lemma set_j_sorted a b : set_sorted a = true -> set_sorted b = true -> set_sorted (set_j a b) = true.
Proof.
  intros Sa Sb. unfold set_j, set_join_mut. destruct (Z.ltb (set_len a) (set_len b)); cbn [fst].
  - apply (proj2 (fold_insert_spec a b)); auto.
  - apply (proj2 (fold_insert_spec b a)); auto.
Qed.
Lemma set_join_mut_spec a b : set_sorted a = true -> set_sorted b = true ->
  set_join_mut a b = (set_j a b, negb (list_eqb Z.eqb (set_j a b) a)).
Proof.
  intros Sa Sb. rewrite <- (len_flag_sup a (set_j a b)); auto.
  - unfold set_j, set_join_mut. destruct (Z.ltb (set_len a) (set_len b)); reflexivity.
  - apply set_j_sorted; auto.
  - intros x Hx. apply set_j_In. auto.
Qed.

Lemma gtb_nil b : Z.gtb (set_len []) (set_len b) = false.
Proof. rewrite Z.gtb_ltb. apply Z.ltb_ge. unfold set_len; cbn. lia. Qed.

Lemma set_m_In a b y : In y (set_m a b) <-> In y a /\ In y b.
Proof.
  unfold set_m, set_meet_mut. rewrite (gtb_nil b).
  cbn [fst]. rewrite (proj1 (fold_filter_spec b a [])). cbn. tauto.
Qed.
Lemma set_m_sorted a b : set_sorted (set_m a b) = true.
Proof.
  unfold set_m, set_meet_mut. rewrite (gtb_nil b).
  cbn [fst]. apply (proj2 (fold_filter_spec b a [])). reflexivity.
Qed.
Lemma set_meet_mut_spec a b : set_sorted a = true ->
  set_meet_mut a b = (set_m a b, negb (list_eqb Z.eqb (set_m a b) a)).
Proof.
  intros Sa. rewrite <- (len_flag_sub a (set_m a b)); auto.
  - unfold set_m, set_meet_mut. rewrite (gtb_nil b).
    reflexivity.
  - apply set_m_sorted.
  - intros x Hx. apply set_m_In in Hx. tauto.
Qed.

(* the order *)
Lemma set_le_incl a b : ople (set_pcmp a b) = true <-> incl a b.
Proof.
  unfold set_pcmp. destruct (list_eqb Z.eqb a b) eqn:E.
  - apply zlist_eqb_spec in E. subst. cbn. split; [intros _; apply incl_refl|reflexivity].
  - destruct (set_is_subset a b) eqn:S.
    + cbn. apply subset_incl in S. tauto.
    + assert (~ incl a b) by (rewrite <- subset_incl; congruence).
      destruct (set_is_subset b a); cbn; split; intros; try discriminate; contradiction.
Qed.
Lemma set_pcmp_eq a b : set_pcmp a b = Some Eq <-> a = b.
Proof.
  unfold set_pcmp. destruct (list_eqb Z.eqb a b) eqn:E.
  - apply zlist_eqb_spec in E. tauto.
  - split.
    + destruct (set_is_subset a b); [discriminate|]. destruct (set_is_subset b a); discriminate.
    + intros ->. rewrite zlist_eqb_refl in E. discriminate.
Qed.
Lemma set_pcmp_flip a b : set_sorted a = true -> set_sorted b = true ->
  set_pcmp b a = option_map CompOpp (set_pcmp a b).
Proof.
  intros Sa Sb. unfold set_pcmp. destruct (list_eqb Z.eqb a b) eqn:E.
  - apply zlist_eqb_spec in E. subst. rewrite zlist_eqb_refl. reflexivity.
  - assert (E' : list_eqb Z.eqb b a = false).
    { destruct (list_eqb Z.eqb b a) eqn:X; auto. apply zlist_eqb_spec in X. subst. rewrite zlist_eqb_refl in E. discriminate. }
    rewrite E'. destruct (set_is_subset a b) eqn:S1, (set_is_subset b a) eqn:S2; try reflexivity.
    exfalso. apply subset_incl in S1, S2. assert (a = b) by (apply sorted_ext; auto; intros x; split; auto).
    subst. rewrite zlist_eqb_refl in E. discriminate.
Qed.

Lemma SetLat_ok : LatOK SetLat.
Proof.
  assert (LE : forall a b, le SetLat a b <-> incl a b) by (intros; apply set_le_incl).
  constructor; cbn; change (wf SetLat) with (fun s => set_sorted s = true); cbn beta.
  - apply zlist_eqb_spec.
  - intros a b _ _. apply set_pcmp_eq.
  - apply set_pcmp_flip.
  - intros a b c _ _ _. rewrite !LE. apply incl_tran.
  - intros a b Sa Sb. apply set_j_sorted; auto.
  - intros a b _ _. apply set_m_sorted.
  - intros a b _ _. apply LE. intros x Hx. apply set_j_In. auto.
  - intros a b _ _. apply LE. intros x Hx. apply set_j_In. auto.
  - intros a b c _ _ _. rewrite !LE. intros H1 H2 x Hx. apply set_j_In in Hx. destruct Hx; auto.
  - intros a b _ _. apply LE. intros x Hx. apply set_m_In in Hx. tauto.
  - intros a b _ _. apply LE. intros x Hx. apply set_m_In in Hx. tauto.
  - intros a b c _ _ _. rewrite !LE. intros H1 H2 x Hx. apply set_m_In. auto.
  - apply set_join_mut_spec.
  - intros a b Sa _. apply set_meet_mut_spec; auto.
  - discriminate.
  - discriminate.
Qed.

(* ---------------------------------------------------------------- BoundedSet<BOUND, T> *)
Lemma incl_len (a b : list Z) : NoDup a -> incl a b -> set_len a <= set_len b.
Proof. intros N I. unfold set_len. apply Nat2Z.inj_le. apply NoDup_incl_length; auto. Qed.

Section BSetOK.
  Variable n : Z.
  Hypothesis Hn : 0 <= n.
  Notation Bn := (BSetLat n).

  Lemma bset_wf_some s : wf Bn (Some s) <-> set_sorted s = true /\ set_len s <= n.
  Proof. unfold wf; cbn. rewrite andb_true_iff, Z.leb_le. tauto. Qed.
  Lemma bset_le_top a : le Bn a None.
  Proof. destruct a; reflexivity. Qed.
  Lemma bset_le_top_some s : ~ le Bn None (Some s).
  Proof. unfold le, ple; cbn. discriminate. Qed.
  Lemma bset_le_some a b : le Bn (Some a) (Some b) <-> incl a b.
  Proof. apply set_le_incl. Qed.

  Lemma bset_jv_some a b : jv Bn (Some a) (Some b) = if Z.gtb (set_len (set_j a b)) n then None else Some (set_j a b).
  Proof. reflexivity. Qed.
  Lemma bset_mv_some a b : mv Bn (Some a) (Some b) = Some (set_m a b).
  Proof. reflexivity. Qed.

  Lemma BSetLat_ok : LatOK Bn.
  Proof.
    constructor.
    - intros [a|] [b|]; cbn; try (split; congruence). rewrite zlist_eqb_spec. split; congruence.
    - intros [a|] [b|] _ _; cbn; try (split; congruence). rewrite set_pcmp_eq. split; congruence.
    - intros [a|] [b|] Ha Hb; cbn; try reflexivity. apply bset_wf_some in Ha, Hb. apply set_pcmp_flip; tauto.
    - intros [a|] [b|] [c|] _ _ _ H1 H2; try apply bset_le_top; try (exfalso; eapply bset_le_top_some; eassumption).
      apply bset_le_some. apply bset_le_some in H1, H2. eapply incl_tran; eauto.
    - intros [a|] [b|] Ha Hb; try reflexivity. rewrite bset_jv_some.
      apply bset_wf_some in Ha, Hb. destruct (Z.gtb (set_len (set_j a b)) n) eqn:G; [reflexivity|].
      apply bset_wf_some. split; [apply set_j_sorted; tauto|]. rewrite Z.gtb_ltb in G. apply Z.ltb_ge in G. exact G.
    - intros [a|] [b|] Ha Hb; try reflexivity; try assumption. rewrite bset_mv_some.
      apply bset_wf_some in Ha, Hb. apply bset_wf_some. split; [apply set_m_sorted|].
      apply Z.le_trans with (m := set_len a); [|tauto]. apply incl_len.
      + apply sorted_NoDup, set_m_sorted.
      + intros x Hx. apply set_m_In in Hx. tauto.
    - intros [a|] [b|] _ _; try apply bset_le_top. rewrite bset_jv_some.
      destruct (Z.gtb (set_len (set_j a b)) n); [apply bset_le_top|]. apply bset_le_some. intros x Hx. apply set_j_In. auto.
    - intros [a|] [b|] _ _; try apply bset_le_top. rewrite bset_jv_some.
      destruct (Z.gtb (set_len (set_j a b)) n); [apply bset_le_top|]. apply bset_le_some. intros x Hx. apply set_j_In. auto.
    - intros [a|] [b|] [c|] Ha Hb Hc H1 H2; try apply bset_le_top; try (exfalso; eapply bset_le_top_some; eassumption).
      rewrite bset_jv_some. apply bset_le_some in H1, H2. apply bset_wf_some in Ha, Hb, Hc.
      assert (I : incl (set_j a b) c) by (intros x Hx; apply set_j_In in Hx; destruct Hx; auto).
      assert (Len := incl_len _ _ (sorted_NoDup _ (set_j_sorted a b (proj1 Ha) (proj1 Hb))) I).
      replace (Z.gtb (set_len (set_j a b)) n) with false by (symmetry; rewrite Z.gtb_ltb; apply Z.ltb_ge; lia).
      apply bset_le_some. exact I.
    - intros [a|] [b|] Ha Hb; try apply bset_le_top.
      + rewrite bset_mv_some. apply bset_le_some. intros x Hx. apply set_m_In in Hx. tauto.
      + apply bset_le_some, incl_refl.
    - intros [a|] [b|] Ha Hb; try apply bset_le_top.
      + rewrite bset_mv_some. apply bset_le_some. intros x Hx. apply set_m_In in Hx. tauto.
      + apply bset_le_some, incl_refl.
    - intros [a|] [b|] [c|] Ha Hb Hc H1 H2; try apply bset_le_top; try (exfalso; eapply bset_le_top_some; eassumption); try assumption.
      rewrite bset_mv_some. apply bset_le_some in H1, H2. apply bset_le_some. intros x Hx. apply set_m_In. auto.
    - intros [a|] [b|] Ha Hb; try reflexivity.
      rewrite bset_jv_some. apply bset_wf_some in Ha, Hb. cbn [jm BSetLat bset_join_mut].
      rewrite set_join_mut_spec by tauto. destruct (Z.gtb (set_len (set_j a b)) n); reflexivity.
    - intros [a|] [b|] Ha Hb; try reflexivity.
      + rewrite bset_mv_some. apply bset_wf_some in Ha. cbn [mm BSetLat bset_meet_mut].
        rewrite set_meet_mut_spec by tauto. reflexivity.
      + cbn. rewrite zlist_eqb_refl. reflexivity.
    - intros bo tp E. injection E as <- <-. split; [apply bset_wf_some; split; [reflexivity|unfold set_len; cbn; lia]|].
      split; [reflexivity|]. intros a _. split; [|apply bset_le_top].
      destruct a as [s|]; [apply bset_le_some; intros x []|apply bset_le_top].
    - discriminate.
  Qed.
End BSetOK.
