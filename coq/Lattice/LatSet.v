(* C16: Set<T> and BoundedSet<BOUND, T> over canonical sorted lists, for every element type T: Ord. *)
From Coq Require Import List ZArith Bool Lia.
From AV Require Import Lattice.LatModel.
From AV Require Import Lattice.LatLaws.
From AV Require Import Lattice.LatTotal.
Import ListNotations.
Open Scope Z_scope.

Section SetOK.
  Variable E : LatImpl.
  Hypothesis OKE : LatOK E.
  Hypothesis HO : has_ord E = true.
  Notation elt := (carrier E).
  Notation c := (cmp_of E).
  Notation W := (wf E).
  Notation WS := (Forall (wf E)).

  Let TO : TotalOrd (wf E) (cmp_of E) := proj1 (ok_cmp_of E OKE HO).

  Lemma c_refl x : W x -> c x x = Eq.
  Proof. intros Hx. apply (to_eq _ _ TO); auto. Qed.
  Lemma c_eq x y : W x -> W y -> c x y = Eq -> x = y.
  Proof. intros Hx Hy. apply (to_eq _ _ TO); auto. Qed.
  Lemma c_lt_gt x y : W x -> W y -> c x y = Lt -> c y x = Gt.
  Proof. intros Hx Hy H. rewrite (to_flip _ _ TO x y), H by auto. reflexivity. Qed.
  Lemma c_gt_lt x y : W x -> W y -> c x y = Gt -> c y x = Lt.
  Proof. intros Hx Hy H. rewrite (to_flip _ _ TO x y), H by auto. reflexivity. Qed.
  Lemma c_lt_irrefl x : W x -> c x x <> Lt.
  Proof. intros Hx. rewrite c_refl by auto. discriminate. Qed.
  Lemma c_lt_asym x y : W x -> W y -> c x y = Lt -> c y x = Lt -> False.
  Proof. intros Hx Hy H1 H2. rewrite (c_lt_gt x y) in H2 by auto. discriminate. Qed.

  Lemma WS_cons x s : WS (x :: s) <-> W x /\ WS s.
  Proof. split; [intros H; inversion H; auto | intros [H1 H2]; constructor; auto]. Qed.
  Lemma WS_In s x : WS s -> In x s -> W x.
  Proof. intros H. rewrite Forall_forall in H. auto. Qed.
  Lemma wfb_WS s : forallb (wfb E) s = true <-> WS s.
  Proof. rewrite forallb_forall, Forall_forall. reflexivity. Qed.

  (* ---------------------------------------------------------------- sorted lists as sets *)
  Lemma contains_In s x : WS s -> W x -> (set_contains E s x = true <-> In x s).
  Proof.
    intros Hs Hx. induction s as [|y s IH]; cbn; [split; [discriminate|tauto]|].
    apply WS_cons in Hs. destruct Hs as [Hy Hs]. specialize (IH Hs).
    destruct (c x y) eqn:C.
    - apply c_eq in C; auto. subst. split; auto.
    - rewrite IH. split; [auto|]. intros [->|H]; [|exact H]. rewrite c_refl in C by auto. discriminate.
    - rewrite IH. split; [auto|]. intros [->|H]; [|exact H]. rewrite c_refl in C by auto. discriminate.
  Qed.

  Lemma insert_In x s y : WS s -> W x -> (In y (set_insert E x s) <-> y = x \/ In y s).
  Proof.
    intros Hs Hx. induction s as [|z s IH]; cbn; [intuition congruence|].
    apply WS_cons in Hs. destruct Hs as [Hz Hs]. specialize (IH Hs).
    destruct (c x z) eqn:C; cbn.
    - apply c_eq in C; auto. subst. intuition congruence.
    - intuition congruence.
    - rewrite IH. intuition congruence.
  Qed.
  Lemma insert_WS x s : WS s -> W x -> WS (set_insert E x s).
  Proof.
    intros Hs Hx. apply Forall_forall. intros y Hy. apply insert_In in Hy; auto.
    destruct Hy as [->|Hy]; [auto|eapply WS_In; eauto].
  Qed.

  Lemma sorted_cons x s : WS (x :: s) ->
    (set_sorted E (x :: s) = true <-> (forall y, In y s -> c x y = Lt) /\ set_sorted E s = true).
  Proof.
    revert x. induction s as [|z s IH]; intros x Hs.
    - cbn. split; [intros _; split; [intros y []|reflexivity]|reflexivity].
    - apply WS_cons in Hs. destruct Hs as [Hx Hs]. assert (Hzs := Hs). apply WS_cons in Hs. destruct Hs as [Hz Hs].
      change (set_sorted E (x :: z :: s)) with (match c x z with Lt => set_sorted E (z :: s) | _ => false end).
      split.
      + intros H. destruct (c x z) eqn:C; try discriminate. split; [|exact H].
        intros y [<-|Hy]; [exact C|]. apply IH in H; auto. destruct H as [H _].
        apply (to_lt_trans _ _ TO x z y); auto. exact (WS_In s y Hs Hy).
      + intros [H1 H2]. rewrite (H1 z (or_introl eq_refl)). exact H2.
  Qed.

  Lemma insert_sorted x s : WS s -> W x -> set_sorted E s = true -> set_sorted E (set_insert E x s) = true.
  Proof.
    intros Hs Hx. induction s as [|z s IH]; intros H; [reflexivity|]. cbn [set_insert].
    assert (Hzs := Hs). apply WS_cons in Hs. destruct Hs as [Hz Hs].
    destruct (c x z) eqn:C.
    - exact H.
    - apply sorted_cons; [constructor; auto|]. split; [|exact H]. apply sorted_cons in H; auto. destruct H as [H _].
      intros y [<-|Hy]; [exact C|]. apply (to_lt_trans _ _ TO x z y); auto. exact (WS_In s y Hs Hy).
    - apply sorted_cons in H; auto. destruct H as [H1 H2].
      apply sorted_cons; [constructor; auto; apply insert_WS; auto|]. split; [|auto].
      intros y Hy. apply insert_In in Hy; auto. destruct Hy as [->|Hy]; [apply c_gt_lt; auto|auto].
  Qed.

  Lemma sorted_NoDup s : WS s -> set_sorted E s = true -> NoDup s.
  Proof.
    induction s as [|x s IH]; intros Hs H; [constructor|]. apply sorted_cons in H; auto. destruct H as [H1 H2].
    apply WS_cons in Hs. destruct Hs as [Hx Hs].
    constructor; [|auto]. intros Hin. specialize (H1 x Hin). apply (c_lt_irrefl x Hx H1).
  Qed.

  Lemma sorted_ext a : forall b, WS a -> WS b -> set_sorted E a = true -> set_sorted E b = true ->
    (forall x, In x a <-> In x b) -> a = b.
  Proof.
    induction a as [|x a IH]; intros [|y b] Wa Wb Ha Hb H.
    - reflexivity.
    - exfalso. apply (proj2 (H y)). left; reflexivity.
    - exfalso. apply (proj1 (H x)). left; reflexivity.
    - apply sorted_cons in Ha, Hb; auto. destruct Ha as [La Sa], Hb as [Lb Sb].
      apply WS_cons in Wa, Wb. destruct Wa as [Wx Wa], Wb as [Wy Wb].
      assert (x = y).
      { destruct (proj1 (H x) (or_introl eq_refl)) as [E0|E0]; [auto|].
        destruct (proj2 (H y) (or_introl eq_refl)) as [E'|E']; [auto|].
        exfalso. apply (c_lt_asym x y); auto. }
      subst y. f_equal. apply IH; auto. intros z. split; intros Hz.
      + destruct (proj1 (H z) (or_intror Hz)) as [E0|E0]; [|exact E0]. subst z. exfalso. apply (c_lt_irrefl x); auto.
      + destruct (proj2 (H z) (or_intror Hz)) as [E0|E0]; [|exact E0]. subst z. exfalso. apply (c_lt_irrefl x); auto.
  Qed.

  Lemma subset_incl a b : WS a -> WS b -> (set_is_subset E a b = true <-> incl a b).
  Proof.
    intros Wa Wb. unfold set_is_subset, incl. rewrite forallb_forall.
    split; intros H x Hx.
    - apply contains_In; auto. exact (WS_In a x Wa Hx).
    - apply contains_In; auto. exact (WS_In a x Wa Hx).
  Qed.

  Lemma elist_eqb_spec : forall a b, list_eqb (eqb E) a b = true <-> a = b.
  Proof.
    induction a as [|x a IH]; intros [|y b]; cbn; try (split; congruence).
    rewrite andb_true_iff, (ok_eqb E OKE), IH. split; [intros [-> ->]; reflexivity|intros X; injection X as -> ->; auto].
  Qed.
  Lemma elist_eqb_refl a : list_eqb (eqb E) a a = true.
  Proof. apply elist_eqb_spec. reflexivity. Qed.

  (* a sorted superset (subset) of the same length is the same set *)
  Lemma len_flag_sup a r : WS a -> WS r -> set_sorted E a = true -> set_sorted E r = true -> incl a r ->
    negb (Z.eqb (set_len E a) (set_len E r)) = negb (list_eqb (eqb E) r a).
  Proof.
    intros Wa Wr Sa Sr I. f_equal. unfold set_len.
    destruct (list_eqb (eqb E) r a) eqn:E0.
    - apply elist_eqb_spec in E0. subst. apply Z.eqb_refl.
    - apply Z.eqb_neq. intros Len. apply Nat2Z.inj in Len.
      assert (r = a); [|subst; rewrite elist_eqb_refl in E0; discriminate].
      apply sorted_ext; auto. intros x. split; [|apply I].
      apply (NoDup_length_incl (sorted_NoDup a Wa Sa)); [lia|exact I].
  Qed.
  Lemma len_flag_sub a r : WS a -> WS r -> set_sorted E a = true -> set_sorted E r = true -> incl r a ->
    negb (Z.eqb (set_len E a) (set_len E r)) = negb (list_eqb (eqb E) r a).
  Proof.
    intros Wa Wr Sa Sr I. f_equal. unfold set_len.
    destruct (list_eqb (eqb E) r a) eqn:E0.
    - apply elist_eqb_spec in E0. subst. apply Z.eqb_refl.
    - apply Z.eqb_neq. intros Len. apply Nat2Z.inj in Len.
      assert (r = a); [|subst; rewrite elist_eqb_refl in E0; discriminate].
      apply sorted_ext; auto. intros x. split; [apply I|].
      apply (NoDup_length_incl (sorted_NoDup r Wr Sr)); [lia|exact I].
  Qed.

  (* the two loops *)
  Lemma fold_insert_spec o : forall s, WS o -> WS s ->
    (forall y, In y (fold_left (fun acc item => set_insert E item acc) o s) <-> In y o \/ In y s) /\
    WS (fold_left (fun acc item => set_insert E item acc) o s) /\
    (set_sorted E s = true -> set_sorted E (fold_left (fun acc item => set_insert E item acc) o s) = true).
  Proof.
    induction o as [|i o IH]; intros s Wo Ws; cbn [fold_left].
    - split; [intros y; cbn; tauto|auto].
    - apply WS_cons in Wo. destruct Wo as [Wi Wo].
      destruct (IH (set_insert E i s) Wo (insert_WS i s Ws Wi)) as [H1 [H2 H3]]. split; [|split].
      + intros y. rewrite H1, insert_In by auto. cbn. intuition congruence.
      + exact H2.
      + intros S. apply H3, insert_sorted; auto.
  Qed.
  Lemma fold_filter_spec other old : forall s, WS other -> WS old -> WS s ->
    (forall y, In y (fold_left (fun acc item => if set_contains E other item then set_insert E item acc else acc) old s)
               <-> (In y old /\ In y other) \/ In y s) /\
    WS (fold_left (fun acc item => if set_contains E other item then set_insert E item acc else acc) old s) /\
    (set_sorted E s = true ->
     set_sorted E (fold_left (fun acc item => if set_contains E other item then set_insert E item acc else acc) old s) = true).
  Proof.
    induction old as [|i old IH]; intros s Wot Wo Ws; cbn [fold_left].
    - split; [intros y; cbn; tauto|auto].
    - apply WS_cons in Wo. destruct Wo as [Wi Wo].
      destruct (set_contains E other i) eqn:E0.
      + destruct (IH (set_insert E i s) Wot Wo (insert_WS i s Ws Wi)) as [H1 [H2 H3]]. apply contains_In in E0; auto. split; [|split].
        * intros y. rewrite H1, insert_In by auto. cbn. intuition (subst; auto).
        * exact H2.
        * intros S. apply H3, insert_sorted; auto.
      + destruct (IH s Wot Wo Ws) as [H1 [H2 H3]]. split; [|split; [exact H2|exact H3]].
        intros y. rewrite H1. cbn. intuition. subst.
        match goal with H : In y other |- _ => apply contains_In in H; auto; congruence end.
  Qed.

  Definition set_j (a b : list elt) : list elt := fst (set_join_mut E a b).
  Definition set_m (a b : list elt) : list elt := fst (set_meet_mut E a b).

  Lemma set_j_spec a b : WS a -> WS b ->
    (forall y, In y (set_j a b) <-> In y a \/ In y b) /\ WS (set_j a b) /\
    (set_sorted E a = true -> set_sorted E b = true -> set_sorted E (set_j a b) = true).
  Proof.
    intros Wa Wb. unfold set_j, set_join_mut. destruct (Z.ltb (set_len E a) (set_len E b)); cbn [fst].
    - destruct (fold_insert_spec a b Wa Wb) as [H1 [H2 H3]]. split; [intros y; rewrite H1; tauto|]. split; auto.
    - destruct (fold_insert_spec b a Wb Wa) as [H1 [H2 H3]]. split; [intros y; rewrite H1; tauto|]. split; auto.
  Qed.
  Lemma set_join_mut_spec a b : WS a -> WS b -> set_sorted E a = true -> set_sorted E b = true ->
    set_join_mut E a b = (set_j a b, negb (list_eqb (eqb E) (set_j a b) a)).
  Proof.
    intros Wa Wb Sa Sb. destruct (set_j_spec a b Wa Wb) as [H1 [H2 H3]].
    rewrite <- (len_flag_sup a (set_j a b)); auto.
    - unfold set_j, set_join_mut. destruct (Z.ltb (set_len E a) (set_len E b)); reflexivity.
    - intros x Hx. apply H1. auto.
  Qed.

  Lemma gtb_nil b : Z.gtb (set_len E []) (set_len E b) = false.
  Proof. rewrite Z.gtb_ltb. apply Z.ltb_ge. unfold set_len; cbn. lia. Qed.

  Lemma set_m_spec a b : WS a -> WS b ->
    (forall y, In y (set_m a b) <-> In y a /\ In y b) /\ WS (set_m a b) /\ set_sorted E (set_m a b) = true.
  Proof.
    intros Wa Wb. unfold set_m, set_meet_mut. rewrite (gtb_nil b). cbn [fst].
    destruct (fold_filter_spec b a [] Wb Wa (Forall_nil _)) as [H1 [H2 H3]].
    split; [intros y; rewrite H1; cbn; tauto|]. split; [exact H2|apply H3; reflexivity].
  Qed.
  Lemma set_meet_mut_spec a b : WS a -> WS b -> set_sorted E a = true ->
    set_meet_mut E a b = (set_m a b, negb (list_eqb (eqb E) (set_m a b) a)).
  Proof.
    intros Wa Wb Sa. destruct (set_m_spec a b Wa Wb) as [H1 [H2 H3]].
    rewrite <- (len_flag_sub a (set_m a b)); auto.
    - unfold set_m, set_meet_mut. rewrite (gtb_nil b). reflexivity.
    - intros x Hx. apply H1 in Hx. tauto.
  Qed.

  (* the order *)
  Lemma set_le_incl a b : WS a -> WS b -> (ople (set_pcmp E a b) = true <-> incl a b).
  Proof.
    intros Wa Wb. unfold set_pcmp. destruct (list_eqb (eqb E) a b) eqn:E0.
    - apply elist_eqb_spec in E0. subst. cbn. split; [intros _; apply incl_refl|reflexivity].
    - destruct (set_is_subset E a b) eqn:S.
      + cbn. apply subset_incl in S; auto. tauto.
      + assert (~ incl a b) by (rewrite <- subset_incl by auto; congruence).
        destruct (set_is_subset E b a); cbn; split; intros; try discriminate; contradiction.
  Qed.
  Lemma set_pcmp_eq a b : set_pcmp E a b = Some Eq <-> a = b.
  Proof.
    unfold set_pcmp. destruct (list_eqb (eqb E) a b) eqn:E0.
    - apply elist_eqb_spec in E0. tauto.
    - split.
      + destruct (set_is_subset E a b); [discriminate|]. destruct (set_is_subset E b a); discriminate.
      + intros ->. rewrite elist_eqb_refl in E0. discriminate.
  Qed.
  Lemma set_pcmp_flip a b : WS a -> WS b -> set_sorted E a = true -> set_sorted E b = true ->
    set_pcmp E b a = option_map CompOpp (set_pcmp E a b).
  Proof.
    intros Wa Wb Sa Sb. unfold set_pcmp. destruct (list_eqb (eqb E) a b) eqn:E0.
    - apply elist_eqb_spec in E0. subst. rewrite elist_eqb_refl. reflexivity.
    - assert (E' : list_eqb (eqb E) b a = false).
      { destruct (list_eqb (eqb E) b a) eqn:X; auto. apply elist_eqb_spec in X. subst. rewrite elist_eqb_refl in E0. discriminate. }
      rewrite E'. destruct (set_is_subset E a b) eqn:S1, (set_is_subset E b a) eqn:S2; try reflexivity.
      exfalso. apply subset_incl in S1, S2; auto. assert (a = b) by (apply sorted_ext; auto; intros x; split; auto).
      subst. rewrite elist_eqb_refl in E0. discriminate.
  Qed.

  Lemma set_wf s : wf (SetLat E) s <-> WS s /\ set_sorted E s = true.
  Proof. unfold wf; cbn. rewrite andb_true_iff, wfb_WS. reflexivity. Qed.

  Lemma SetLat_ok : LatOK (SetLat E).
  Proof.
    assert (LE : forall a b, WS a -> WS b -> (le (SetLat E) a b <-> incl a b)) by (intros; apply set_le_incl; auto).
    constructor.
    - apply elist_eqb_spec.
    - intros a b _ _. apply set_pcmp_eq.
    - intros a b Ha Hb. apply set_wf in Ha, Hb. apply set_pcmp_flip; tauto.
    - intros a b d Ha Hb Hd. apply set_wf in Ha, Hb, Hd. rewrite !LE by tauto. apply incl_tran.
    - intros a b Ha Hb. apply set_wf in Ha, Hb. apply set_wf. destruct (set_j_spec a b (proj1 Ha) (proj1 Hb)) as [H1 [H2 H3]].
      split; [exact H2|apply H3; tauto].
    - intros a b Ha Hb. apply set_wf in Ha, Hb. apply set_wf. destruct (set_m_spec a b (proj1 Ha) (proj1 Hb)) as [H1 [H2 H3]]. auto.
    - intros a b Ha Hb. apply set_wf in Ha, Hb. destruct (set_j_spec a b (proj1 Ha) (proj1 Hb)) as [H1 [H2 H3]].
      apply LE; try tauto. intros x Hx. apply H1. auto.
    - intros a b Ha Hb. apply set_wf in Ha, Hb. destruct (set_j_spec a b (proj1 Ha) (proj1 Hb)) as [H1 [H2 H3]].
      apply LE; try tauto. intros x Hx. apply H1. auto.
    - intros a b d Ha Hb Hd. apply set_wf in Ha, Hb, Hd. destruct (set_j_spec a b (proj1 Ha) (proj1 Hb)) as [H1 [H2 H3]].
      rewrite !LE by tauto. intros I1 I2 x Hx. apply H1 in Hx. destruct Hx; auto.
    - intros a b Ha Hb. apply set_wf in Ha, Hb. destruct (set_m_spec a b (proj1 Ha) (proj1 Hb)) as [H1 [H2 H3]].
      apply LE; try tauto. intros x Hx. apply H1 in Hx. tauto.
    - intros a b Ha Hb. apply set_wf in Ha, Hb. destruct (set_m_spec a b (proj1 Ha) (proj1 Hb)) as [H1 [H2 H3]].
      apply LE; try tauto. intros x Hx. apply H1 in Hx. tauto.
    - intros a b d Ha Hb Hd. apply set_wf in Ha, Hb, Hd. destruct (set_m_spec a b (proj1 Ha) (proj1 Hb)) as [H1 [H2 H3]].
      rewrite !LE by tauto. intros I1 I2 x Hx. apply H1. auto.
    - intros a b Ha Hb. apply set_wf in Ha, Hb. apply set_join_mut_spec; tauto.
    - intros a b Ha Hb. apply set_wf in Ha, Hb. apply set_meet_mut_spec; tauto.
    - discriminate.
    - discriminate.
  Qed.

  (* ---------------------------------------------------------------- BoundedSet<BOUND, T> *)
  Lemma incl_len (a b : list elt) : NoDup a -> incl a b -> set_len E a <= set_len E b.
  Proof. intros N I. unfold set_len. apply Nat2Z.inj_le. apply NoDup_incl_length; auto. Qed.

  Section BSetOK.
    Variable n : Z.
    Hypothesis Hn : 0 <= n.
    Notation Bn := (BSetLat E n).

    Lemma bset_wf_some s : wf Bn (Some s) <-> WS s /\ set_sorted E s = true /\ set_len E s <= n.
    Proof. unfold wf; cbn. rewrite !andb_true_iff, Z.leb_le, wfb_WS. tauto. Qed.
    Lemma bset_le_top a : le Bn a None.
    Proof. destruct a; reflexivity. Qed.
    Lemma bset_le_top_some s : ~ le Bn None (Some s).
    Proof. unfold le, ple; cbn. discriminate. Qed.
    Lemma bset_le_some a b : WS a -> WS b -> (le Bn (Some a) (Some b) <-> incl a b).
    Proof. apply set_le_incl. Qed.
    Lemma bset_jv_some a b : jv Bn (Some a) (Some b) = if Z.gtb (set_len E (set_j a b)) n then None else Some (set_j a b).
    Proof. reflexivity. Qed.
    Lemma bset_mv_some a b : mv Bn (Some a) (Some b) = Some (set_m a b).
    Proof. reflexivity. Qed.

    Lemma BSetLat_ok : LatOK Bn.
    Proof.
      constructor.
      - intros [a|] [b|]; cbn; try (split; congruence). rewrite elist_eqb_spec. split; congruence.
      - intros [a|] [b|] _ _; cbn; try (split; congruence). rewrite set_pcmp_eq. split; congruence.
      - intros [a|] [b|] Ha Hb; cbn; try reflexivity. apply bset_wf_some in Ha, Hb. apply set_pcmp_flip; tauto.
      - intros [a|] [b|] [d|] Ha Hb Hd H1 H2; try apply bset_le_top; try (exfalso; eapply bset_le_top_some; eassumption).
        apply bset_wf_some in Ha, Hb, Hd. apply bset_le_some; try tauto. apply bset_le_some in H1, H2; try tauto. eapply incl_tran; eauto.
      - intros [a|] [b|] Ha Hb; try reflexivity. rewrite bset_jv_some.
        apply bset_wf_some in Ha, Hb. destruct (set_j_spec a b (proj1 Ha) (proj1 Hb)) as [H1 [H2 H3]].
        destruct (Z.gtb (set_len E (set_j a b)) n) eqn:G; [reflexivity|].
        apply bset_wf_some. split; [exact H2|]. split; [apply H3; tauto|]. rewrite Z.gtb_ltb in G. apply Z.ltb_ge in G. exact G.
      - intros [a|] [b|] Ha Hb; try reflexivity; try assumption. rewrite bset_mv_some.
        apply bset_wf_some in Ha, Hb. destruct (set_m_spec a b (proj1 Ha) (proj1 Hb)) as [H1 [H2 H3]].
        apply bset_wf_some. split; [exact H2|]. split; [exact H3|].
        apply Z.le_trans with (m := set_len E a); [|tauto]. apply incl_len.
        + apply sorted_NoDup; auto.
        + intros x Hx. apply H1 in Hx. tauto.
      - intros [a|] [b|] Ha Hb; try apply bset_le_top. rewrite bset_jv_some.
        apply bset_wf_some in Ha, Hb. destruct (set_j_spec a b (proj1 Ha) (proj1 Hb)) as [H1 [H2 H3]].
        destruct (Z.gtb (set_len E (set_j a b)) n); [apply bset_le_top|]. apply bset_le_some; try tauto. intros x Hx. apply H1. auto.
      - intros [a|] [b|] Ha Hb; try apply bset_le_top. rewrite bset_jv_some.
        apply bset_wf_some in Ha, Hb. destruct (set_j_spec a b (proj1 Ha) (proj1 Hb)) as [H1 [H2 H3]].
        destruct (Z.gtb (set_len E (set_j a b)) n); [apply bset_le_top|]. apply bset_le_some; try tauto. intros x Hx. apply H1. auto.
      - intros [a|] [b|] [d|] Ha Hb Hd H1 H2; try apply bset_le_top; try (exfalso; eapply bset_le_top_some; eassumption).
        rewrite bset_jv_some. apply bset_wf_some in Ha, Hb, Hd. apply bset_le_some in H1, H2; try tauto.
        destruct (set_j_spec a b (proj1 Ha) (proj1 Hb)) as [J1 [J2 J3]].
        assert (I : incl (set_j a b) d) by (intros x Hx; apply J1 in Hx; destruct Hx; auto).
        assert (Len := incl_len _ _ (sorted_NoDup _ J2 (J3 (proj1 (proj2 Ha)) (proj1 (proj2 Hb)))) I).
        replace (Z.gtb (set_len E (set_j a b)) n) with false by (symmetry; rewrite Z.gtb_ltb; apply Z.ltb_ge; lia).
        apply bset_le_some; tauto.
      - intros [a|] [b|] Ha Hb; try apply bset_le_top.
        + rewrite bset_mv_some. apply bset_wf_some in Ha, Hb. destruct (set_m_spec a b (proj1 Ha) (proj1 Hb)) as [H1 [H2 H3]].
          apply bset_le_some; try tauto. intros x Hx. apply H1 in Hx. tauto.
        + apply bset_wf_some in Ha. apply bset_le_some; try tauto. apply incl_refl.
      - intros [a|] [b|] Ha Hb; try apply bset_le_top.
        + rewrite bset_mv_some. apply bset_wf_some in Ha, Hb. destruct (set_m_spec a b (proj1 Ha) (proj1 Hb)) as [H1 [H2 H3]].
          apply bset_le_some; try tauto. intros x Hx. apply H1 in Hx. tauto.
        + apply bset_wf_some in Hb. apply bset_le_some; try tauto. apply incl_refl.
      - intros [a|] [b|] [d|] Ha Hb Hd H1 H2; try apply bset_le_top; try (exfalso; eapply bset_le_top_some; eassumption); try assumption.
        rewrite bset_mv_some. apply bset_wf_some in Ha, Hb, Hd. apply bset_le_some in H1, H2; try tauto.
        destruct (set_m_spec a b (proj1 Ha) (proj1 Hb)) as [M1 [M2 M3]].
        apply bset_le_some; try tauto. intros x Hx. apply M1. auto.
      - intros [a|] [b|] Ha Hb; try reflexivity.
        rewrite bset_jv_some. apply bset_wf_some in Ha, Hb. cbn [jm BSetLat bset_join_mut].
        rewrite set_join_mut_spec by tauto. destruct (Z.gtb (set_len E (set_j a b)) n); reflexivity.
      - intros [a|] [b|] Ha Hb; try reflexivity.
        + rewrite bset_mv_some. apply bset_wf_some in Ha, Hb. cbn [mm BSetLat bset_meet_mut].
          rewrite set_meet_mut_spec by tauto. reflexivity.
        + cbn. rewrite elist_eqb_refl. reflexivity.
      - intros bo tp E0. injection E0 as <- <-.
        split; [apply bset_wf_some; split; [constructor|split; [reflexivity|unfold set_len; cbn; lia]]|].
        split; [reflexivity|]. intros a Ha. split; [|apply bset_le_top].
        destruct a as [s|]; [|apply bset_le_top]. apply bset_wf_some in Ha. apply bset_le_some; try tauto; try (intros x []); try constructor.
      - discriminate.
    Qed.
  End BSetOK.
End SetOK.
