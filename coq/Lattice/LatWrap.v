(* C16: Option, Rc / Arc, Box, Reverse, Dual, ConstPropagation. *)
From Coq Require Import List ZArith Bool Lia.
From AV Require Import Lattice.LatModel.
From AV Require Import Lattice.LatLaws.
Import ListNotations.
Open Scope Z_scope.

(* ---------------------------------------------------------------- Option<T> *)
Section OptionOK.
  Variable L : LatImpl.
  Hypothesis OK : LatOK L.
  Notation O := (OptionLat L).

  Lemma opt_le_none b : le O None b.
  Proof. destruct b; reflexivity. Qed.
  Lemma opt_le_some_none x : ~ le O (Some x) None.
  Proof. unfold le, ple; cbn. discriminate. Qed.
  Lemma opt_le_some x y : le O (Some x) (Some y) <-> le L x y.
  Proof. reflexivity. Qed.
  Lemma opt_jv_some x y : wf L x -> wf L y -> jv O (Some x) (Some y) = Some (jv L x y).
  Proof. intros Hx Hy. cbn. unfold dflt; cbn. rewrite (ok_jm L OK) by auto. reflexivity. Qed.
  Lemma opt_mv_some x y : wf L x -> wf L y -> mv O (Some x) (Some y) = Some (mv L x y).
  Proof. intros Hx Hy. cbn. unfold dflt; cbn. rewrite (ok_mm L OK) by auto. reflexivity. Qed.
  Lemma opt_le_refl a : wf O a -> le O a a.
  Proof. destruct a as [x|]; intros H; [apply opt_le_some, (le_refl L OK); exact H | reflexivity]. Qed.

  Lemma OptionLat_ok : LatOK O.
  Proof.
    constructor.
    - intros [x|] [y|]; cbn; try (split; congruence). rewrite (ok_eqb L OK). split; congruence.
    - intros [x|] [y|] Ha Hb; cbn; try (split; congruence). rewrite (ok_pcmp_eq L OK) by auto. split; congruence.
    - intros [x|] [y|] Ha Hb; cbn; try reflexivity. apply (ok_pcmp_flip L OK); auto.
    - intros [x|] [y|] [z|] Ha Hb Hc H1 H2; try apply opt_le_none;
        try (exfalso; eapply opt_le_some_none; eassumption).
      apply opt_le_some. apply (ok_trans L OK) with (b := y); auto.
    - intros [x|] [y|] Ha Hb; try exact I; try assumption; try reflexivity.
      rewrite opt_jv_some by auto. apply (ok_j_wf L OK); auto.
    - intros [x|] [y|] Ha Hb; try exact I; try assumption; try reflexivity.
      rewrite opt_mv_some by auto. apply (ok_m_wf L OK); auto.
    - intros [x|] [y|] Ha Hb; try apply opt_le_none.
      + rewrite opt_jv_some by auto. apply opt_le_some, (ok_j_ub_l L OK); auto.
      + apply opt_le_refl; exact Ha.
    - intros [x|] [y|] Ha Hb; try apply opt_le_none.
      + rewrite opt_jv_some by auto. apply opt_le_some, (ok_j_ub_r L OK); auto.
      + apply opt_le_refl; exact Hb.
    - intros [x|] [y|] [z|] Ha Hb Hc H1 H2; try (exfalso; eapply opt_le_some_none; eassumption); try apply opt_le_none; try assumption.
      rewrite opt_jv_some by auto. apply opt_le_some, (ok_j_least L OK); auto.
    - intros [x|] [y|] Ha Hb; try apply opt_le_none.
      rewrite opt_mv_some by auto. apply opt_le_some, (ok_m_lb_l L OK); auto.
    - intros [x|] [y|] Ha Hb; try apply opt_le_none.
      rewrite opt_mv_some by auto. apply opt_le_some, (ok_m_lb_r L OK); auto.
    - intros [x|] [y|] [z|] Ha Hb Hc H1 H2; try (exfalso; eapply opt_le_some_none; eassumption); try apply opt_le_none.
      rewrite opt_mv_some by auto. apply opt_le_some, (ok_m_greatest L OK); auto.
    - intros [x|] [y|] Ha Hb; try reflexivity.
      + rewrite opt_jv_some by auto. cbn. rewrite (ok_jm L OK) by auto. reflexivity.
      + cbn. unfold dflt; cbn. rewrite (eqb_refl L OK). reflexivity.
    - intros [x|] [y|] Ha Hb; try reflexivity.
      rewrite opt_mv_some by auto. cbn. rewrite (ok_mm L OK) by auto. reflexivity.
    - intros bo tp E. cbn in E. destruct (bnd L) as [[b t]|] eqn:EB; [|discriminate]. injection E as <- <-.
      destruct (ok_bnd L OK b t EB) as [Wb [Wt H]]. split; [reflexivity|]. split; [exact Wt|].
      intros [x|] Hx; split; try apply opt_le_none. apply opt_le_some. apply H; auto.
    - intros c E a b Ha Hb. cbn in E. destruct (ocmp L) as [c0|] eqn:EC; [|discriminate]. injection E as <-.
      destruct a as [x|], b as [y|]; cbn; try reflexivity. apply (ok_cmp L OK); auto.
  Qed.
End OptionOK.

(* ---------------------------------------------------------------- same carrier, pointwise equal operations *)
Lemma LatOK_ext (L : LatImpl) pcmp' ocmp' jm' mm' jv' mv' bnd' :
  LatOK L ->
  (forall a b, wf L a -> wf L b -> pcmp' a b = pcmp L a b) ->
  (ocmp' = None \/ ocmp' = ocmp L) ->
  (forall a b, wf L a -> wf L b -> jm' a b = jm L a b) ->
  (forall a b, wf L a -> wf L b -> mm' a b = mm L a b) ->
  (forall a b, wf L a -> wf L b -> jv' a b = jv L a b) ->
  (forall a b, wf L a -> wf L b -> mv' a b = mv L a b) ->
  (bnd' = None \/ bnd' = bnd L) ->
  LatOK {| carrier := carrier L; wfb := wfb L; eqb := eqb L; pcmp := pcmp'; ocmp := ocmp';
           jm := jm'; mm := mm'; jv := jv'; mv := mv'; bnd := bnd' |}.
Proof.
  intros OK Hp Ho Hjm Hmm Hj Hm Hb.
  set (L' := {| carrier := carrier L; wfb := wfb L; eqb := eqb L; pcmp := pcmp'; ocmp := ocmp';
                jm := jm'; mm := mm'; jv := jv'; mv := mv'; bnd := bnd' |}).
  assert (LE : forall a b, wf L a -> wf L b -> (le L' a b <-> le L a b)).
  { intros a b Ha Hb'. unfold le, ple. cbn. rewrite Hp by auto. reflexivity. }
  assert (Wj := ok_j_wf L OK). assert (Wm := ok_m_wf L OK).
  constructor; cbn; change (wf L') with (wf L).
  - apply (ok_eqb L OK).
  - intros a b Ha Hb'. rewrite Hp by auto. apply (ok_pcmp_eq L OK); auto.
  - intros a b Ha Hb'. rewrite !Hp by auto. apply (ok_pcmp_flip L OK); auto.
  - intros a b c Ha Hb' Hc. rewrite !LE by auto. apply (ok_trans L OK); auto.
  - intros a b Ha Hb'. rewrite Hj by auto. auto.
  - intros a b Ha Hb'. rewrite Hm by auto. auto.
  - intros a b Ha Hb'. rewrite Hj by auto. apply LE; auto. apply (ok_j_ub_l L OK); auto.
  - intros a b Ha Hb'. rewrite Hj by auto. apply LE; auto. apply (ok_j_ub_r L OK); auto.
  - intros a b c Ha Hb' Hc. rewrite Hj by auto. rewrite !LE by auto. apply (ok_j_least L OK); auto.
  - intros a b Ha Hb'. rewrite Hm by auto. apply LE; auto. apply (ok_m_lb_l L OK); auto.
  - intros a b Ha Hb'. rewrite Hm by auto. apply LE; auto. apply (ok_m_lb_r L OK); auto.
  - intros a b c Ha Hb' Hc. rewrite Hm by auto. rewrite !LE by auto. apply (ok_m_greatest L OK); auto.
  - intros a b Ha Hb'. rewrite Hjm, Hj by auto. apply (ok_jm L OK); auto.
  - intros a b Ha Hb'. rewrite Hmm, Hm by auto. apply (ok_mm L OK); auto.
  - intros bo tp E. destruct Hb as [Hb|Hb]; rewrite Hb in E; [discriminate|].
    destruct (ok_bnd L OK bo tp E) as [W1 [W2 H]]. repeat split; auto; apply LE; auto; apply H; auto.
  - intros c E a b Ha Hb'. destruct Ho as [Ho|Ho]; rewrite Ho in E; [discriminate|].
    rewrite Hp by auto. apply (ok_cmp L OK); auto.
Qed.

(* ---------------------------------------------------------------- Box, Rc, Arc *)
Lemma dflt_jm L : LatOK L -> forall a b, wf L a -> wf L b -> dflt (jm L) a b = jv L a b.
Proof. intros OK a b Ha Hb. unfold dflt. rewrite (ok_jm L OK) by auto. reflexivity. Qed.
Lemma dflt_mm L : LatOK L -> forall a b, wf L a -> wf L b -> dflt (mm L) a b = mv L a b.
Proof. intros OK a b Ha Hb. unfold dflt. rewrite (ok_mm L OK) by auto. reflexivity. Qed.

Lemma BoxLat_ok L : LatOK L -> LatOK (BoxLat L).
Proof.
  intros OK. unfold BoxLat. apply LatOK_ext; auto.
  - apply dflt_jm; auto.
  - apply dflt_mm; auto.
Qed.

Lemma rc_join_mut_eq L : LatOK L -> forall a b, wf L a -> wf L b -> rc_join_mut L a b = jm L a b.
Proof.
  intros OK a b Ha Hb. unfold rc_join_mut. rewrite (ok_jm L OK) by auto.
  destruct (pcmp L a b) as [[]|] eqn:E; try reflexivity.
  - apply (ok_pcmp_eq L OK) in E; auto. subst b. rewrite (j_idem L OK) by auto. rewrite (eqb_refl L OK). reflexivity.
  - apply (pcmp_lt_iff L OK) in E; auto. destruct E as [E N].
    apply (le_iff_join L OK) in E; auto. rewrite E. rewrite (eqb_neq L OK) by congruence. reflexivity.
  - apply (pcmp_gt_iff L OK) in E; auto. destruct E as [E N].
    apply (le_iff_join L OK) in E; auto. rewrite (j_comm L OK) in E by auto. rewrite E.
    rewrite (eqb_refl L OK). reflexivity.
Qed.
Lemma rc_meet_mut_eq L : LatOK L -> forall a b, wf L a -> wf L b -> rc_meet_mut L a b = mm L a b.
Proof.
  intros OK a b Ha Hb. unfold rc_meet_mut. rewrite (ok_mm L OK) by auto.
  destruct (pcmp L a b) as [[]|] eqn:E; try reflexivity.
  - apply (ok_pcmp_eq L OK) in E; auto. subst b. rewrite (m_idem L OK) by auto. rewrite (eqb_refl L OK). reflexivity.
  - apply (pcmp_lt_iff L OK) in E; auto. destruct E as [E N].
    apply (le_iff_meet L OK) in E; auto. rewrite E. rewrite (eqb_refl L OK). reflexivity.
  - apply (pcmp_gt_iff L OK) in E; auto. destruct E as [E N].
    apply (le_iff_meet L OK) in E; auto. rewrite (m_comm L OK) in E by auto. rewrite E.
    rewrite (eqb_neq L OK) by congruence. reflexivity.
Qed.

Lemma RcLat_ok L : LatOK L -> LatOK (RcLat L).
Proof.
  intros OK. unfold RcLat. apply LatOK_ext; auto.
  - apply rc_join_mut_eq; auto.
  - apply rc_meet_mut_eq; auto.
  - intros a b Ha Hb. unfold dflt. rewrite rc_join_mut_eq by auto. apply dflt_jm; auto.
  - intros a b Ha Hb. unfold dflt. rewrite rc_meet_mut_eq by auto. apply dflt_mm; auto.
Qed.
Lemma ArcLat_ok L : LatOK L -> LatOK (ArcLat L).
Proof. exact (RcLat_ok L). Qed.

(* ---------------------------------------------------------------- Dual, Reverse *)
Lemma DualLat_ok L : LatOK L -> LatOK (DualLat L).
Proof.
  intros OK.
  assert (LE : forall a b, le (DualLat L) a b <-> le L b a) by (intros; reflexivity).
  constructor; cbn; change (wf (DualLat L)) with (wf L).
  - apply (ok_eqb L OK).
  - intros a b Ha Hb. rewrite (ok_pcmp_eq L OK) by auto. split; congruence.
  - intros a b Ha Hb. apply (ok_pcmp_flip L OK); auto.
  - intros a b c Ha Hb Hc. rewrite !LE. intros H1 H2. apply (ok_trans L OK) with (b := b); auto.
  - apply (ok_m_wf L OK).
  - apply (ok_j_wf L OK).
  - intros a b Ha Hb. apply LE, (ok_m_lb_l L OK); auto.
  - intros a b Ha Hb. apply LE, (ok_m_lb_r L OK); auto.
  - intros a b c Ha Hb Hc. rewrite !LE. apply (ok_m_greatest L OK); auto.
  - intros a b Ha Hb. apply LE, (ok_j_ub_l L OK); auto.
  - intros a b Ha Hb. apply LE, (ok_j_ub_r L OK); auto.
  - intros a b c Ha Hb Hc. rewrite !LE. apply (ok_j_least L OK); auto.
  - apply (ok_mm L OK).
  - apply (ok_jm L OK).
  - intros bo tp E. destruct (bnd L) as [[b t]|] eqn:EB; [|discriminate]. injection E as <- <-.
    destruct (ok_bnd L OK b t EB) as [Wb [Wt H]]. repeat split; auto; apply LE; apply H; auto.
  - intros c E a b Ha Hb. destruct (ocmp L) as [c0|] eqn:EC; [|discriminate]. injection E as <-.
    unfold flip_cmp. apply (ok_cmp L OK); auto.
Qed.
Lemma ReverseLat_ok L : LatOK L -> LatOK (ReverseLat L).
Proof. exact (DualLat_ok L). Qed.

(* Dual and Reverse swap the two operations, the order and the bounds *)
Lemma dual_swaps L :
  (forall a b, jv (DualLat L) a b = mv L a b) /\ (forall a b, mv (DualLat L) a b = jv L a b) /\
  (forall a b, jm (DualLat L) a b = mm L a b) /\ (forall a b, mm (DualLat L) a b = jm L a b) /\
  (forall a b, pcmp (DualLat L) a b = pcmp L b a) /\ (forall a b, le (DualLat L) a b <-> le L b a) /\
  (forall bo tp, bnd L = Some (bo, tp) -> bnd (DualLat L) = Some (tp, bo)).
Proof. repeat split; intros; try reflexivity; try assumption. cbn. rewrite H. reflexivity. Qed.
Lemma reverse_swaps L :
  (forall a b, jv (ReverseLat L) a b = mv L a b) /\ (forall a b, mv (ReverseLat L) a b = jv L a b) /\
  (forall a b, jm (ReverseLat L) a b = mm L a b) /\ (forall a b, mm (ReverseLat L) a b = jm L a b) /\
  (forall a b, pcmp (ReverseLat L) a b = pcmp L b a) /\ (forall a b, le (ReverseLat L) a b <-> le L b a) /\
  (forall bo tp, bnd L = Some (bo, tp) -> bnd (ReverseLat L) = Some (tp, bo)).
Proof. exact (dual_swaps L). Qed.

(* ---------------------------------------------------------------- ConstPropagation<T> (uses only T's ==) *)
Section CPOK.
  Variable L : LatImpl.
  Hypothesis OK : LatOK L.
  Notation C := (CPLat L).

  Ltac eqs :=
    repeat match goal with
    | |- context [eqb L ?x ?y] =>
        let E := fresh "E" in destruct (eqb L x y) eqn:E;
        [apply (ok_eqb L OK) in E; try subst y | ]
    end.
  Ltac refl_eqb := repeat rewrite (eqb_refl L OK) in *.
  Ltac fin := cbn in *; refl_eqb; try reflexivity; try discriminate; try congruence; try assumption.

  Lemma CPLat_ok : LatOK C.
  Proof.
    constructor.
    - intros [|x|] [|y|]; cbn; try (split; congruence). rewrite (ok_eqb L OK). split; congruence.
    - intros [|x|] [|y|] _ _; cbn; try (split; congruence).
      destruct (eqb L x y) eqn:E.
      + apply (ok_eqb L OK) in E. subst. split; reflexivity.
      + split; [discriminate|]. intros H. injection H as ->. rewrite (eqb_refl L OK) in E. discriminate.
    - intros [|x|] [|y|] _ _; cbn; try reflexivity.
      destruct (eqb L x y) eqn:E.
      + apply (ok_eqb L OK) in E. subst. rewrite (eqb_refl L OK). reflexivity.
      + rewrite (eqb_neq L OK); [reflexivity|]. intros ->. rewrite (eqb_refl L OK) in E. discriminate.
    - intros [|x|] [|y|] [|z|] _ _ _; unfold le, ple; cbn; eqs; intros H1 H2; fin.
    - intros [|x|] [|y|] Ha Hb; unfold wf in *; cbn in *; eqs; fin.
    - intros [|x|] [|y|] Ha Hb; unfold wf in *; cbn in *; eqs; fin.
    - intros [|x|] [|y|] _ _; unfold le, ple; cbn; eqs; fin.
    - intros [|x|] [|y|] _ _; unfold le, ple; cbn; eqs; fin.
    - intros [|x|] [|y|] [|z|] _ _ _; unfold le, ple; cbn; eqs; intros H1 H2; fin.
    - intros [|x|] [|y|] _ _; unfold le, ple; cbn; eqs; fin.
    - intros [|x|] [|y|] _ _; unfold le, ple; cbn; eqs; fin.
    - intros [|x|] [|y|] [|z|] _ _ _; unfold le, ple; cbn; eqs; intros H1 H2; fin.
    - intros [|x|] [|y|] _ _; cbn; eqs; fin.
    - intros [|x|] [|y|] _ _; cbn; eqs; fin.
    - intros bo tp E. injection E as <- <-. split; [reflexivity|]. split; [reflexivity|].
      intros [|x|] _; split; reflexivity.
    - discriminate.
  Qed.
End CPOK.
