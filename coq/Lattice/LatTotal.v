(* C16: lattices of total orders (integers, bool, (), OrdLattice, lexicographic tuples): one generic lemma. *)
From Coq Require Import List ZArith Bool Lia.
From AV Require Import Lattice.LatModel.
From AV Require Import Lattice.LatLaws.
Import ListNotations.
Open Scope Z_scope.

Record TotalOrd {T : Type} (W : T -> Prop) (c : T -> T -> comparison) : Prop := mkTO {
  to_eq : forall a b, W a -> W b -> (c a b = Eq <-> a = b);
  to_flip : forall a b, W a -> W b -> c b a = CompOpp (c a b);
  to_lt_trans : forall a b d, W a -> W b -> W d -> c a b = Lt -> c b d = Lt -> c a d = Lt
}.

Definition tmax {T} (c : T -> T -> comparison) (a b : T) : T := match c a b with Lt => b | _ => a end.
Definition tmin {T} (c : T -> T -> comparison) (a b : T) : T := match c a b with Gt => b | _ => a end.

Lemma to_le_trans {T} (W : T -> Prop) c : TotalOrd W c ->
  forall a b d, W a -> W b -> W d -> c a b <> Gt -> c b d <> Gt -> c a d <> Gt.
Proof.
  intros TO a b d Ha Hb Hd H1 H2.
  destruct (c a b) eqn:E1; try congruence.
  - apply (to_eq W c TO) in E1; auto. subst b. exact H2.
  - destruct (c b d) eqn:E2; try congruence.
    + apply (to_eq W c TO) in E2; auto. subst d. congruence.
    + rewrite (to_lt_trans W c TO a b d) by auto. discriminate.
Qed.

Lemma total_ok (L : LatImpl) (c : carrier L -> carrier L -> comparison) :
  (forall a b, eqb L a b = true <-> a = b) ->
  TotalOrd (wf L) c ->
  (forall a b, wf L a -> wf L b -> pcmp L a b = Some (c a b)) ->
  (forall c', ocmp L = Some c' -> forall a b, wf L a -> wf L b -> c' a b = c a b) ->
  (forall a b, wf L a -> wf L b -> jv L a b = tmax c a b) ->
  (forall a b, wf L a -> wf L b -> mv L a b = tmin c a b) ->
  (forall a b, wf L a -> wf L b -> jm L a b = match c a b with Lt => (b, true) | _ => (a, false) end) ->
  (forall a b, wf L a -> wf L b -> mm L a b = match c a b with Gt => (b, true) | _ => (a, false) end) ->
  (forall bo tp, bnd L = Some (bo, tp) -> wf L bo /\ wf L tp /\ forall a, wf L a -> c bo a <> Gt /\ c a tp <> Gt) ->
  LatOK L.
Proof.
  intros Heq TO Hp Hc Hj Hm Hjm Hmm Hb.
  assert (LE : forall a b, wf L a -> wf L b -> (le L a b <-> c a b <> Gt)).
  { intros a b Ha Hb'. unfold le, ple. rewrite Hp by auto. destruct (c a b); split; intros; congruence. }
  constructor.
  - exact Heq.
  - intros a b Ha Hb'. rewrite Hp by auto. rewrite <- (to_eq _ c TO a b Ha Hb'). split; congruence.
  - intros a b Ha Hb'. rewrite !Hp by auto. cbn. f_equal. apply (to_flip _ c TO); auto.
  - intros a b d Ha Hb' Hd. rewrite !LE by auto. apply (to_le_trans _ c TO); auto.
  - intros a b Ha Hb'. rewrite Hj by auto. unfold tmax. destruct (c a b); auto.
  - intros a b Ha Hb'. rewrite Hm by auto. unfold tmin. destruct (c a b); auto.
  - intros a b Ha Hb'. rewrite Hj by auto. unfold tmax. destruct (c a b) eqn:E.
    + apply LE; auto. assert (X : c a a = Eq) by (apply (to_eq _ c TO); auto). congruence.
    + apply LE; auto. congruence.
    + apply LE; auto. assert (X : c a a = Eq) by (apply (to_eq _ c TO); auto). congruence.
  - intros a b Ha Hb'. rewrite Hj by auto. unfold tmax. destruct (c a b) eqn:E.
    + apply LE; auto. rewrite (to_flip _ c TO a b), E by auto. discriminate.
    + apply LE; auto. assert (X : c b b = Eq) by (apply (to_eq _ c TO); auto). congruence.
    + apply LE; auto. rewrite (to_flip _ c TO a b), E by auto. discriminate.
  - intros a b d Ha Hb' Hd H1 H2. rewrite Hj by auto. unfold tmax. destruct (c a b); auto.
  - intros a b Ha Hb'. rewrite Hm by auto. unfold tmin. destruct (c a b) eqn:E.
    + apply LE; auto. assert (X : c a a = Eq) by (apply (to_eq _ c TO); auto). congruence.
    + apply LE; auto. assert (X : c a a = Eq) by (apply (to_eq _ c TO); auto). congruence.
    + apply LE; auto. rewrite (to_flip _ c TO a b), E by auto. discriminate.
  - intros a b Ha Hb'. rewrite Hm by auto. unfold tmin. destruct (c a b) eqn:E.
    + apply LE; auto. congruence.
    + apply LE; auto. congruence.
    + apply LE; auto. assert (X : c b b = Eq) by (apply (to_eq _ c TO); auto). congruence.
  - intros a b d Ha Hb' Hd H1 H2. rewrite Hm by auto. unfold tmin. destruct (c a b); auto.
  - intros a b Ha Hb'. rewrite Hjm, Hj by auto. unfold tmax. destruct (c a b) eqn:E.
    + f_equal. symmetry. apply negb_false_iff. apply Heq. reflexivity.
    + f_equal. symmetry. apply negb_true_iff. destruct (eqb L b a) eqn:X; auto. apply Heq in X. subst b.
      assert (Y : c a a = Eq) by (apply (to_eq _ c TO); auto). congruence.
    + f_equal. symmetry. apply negb_false_iff. apply Heq. reflexivity.
  - intros a b Ha Hb'. rewrite Hmm, Hm by auto. unfold tmin. destruct (c a b) eqn:E.
    + f_equal. symmetry. apply negb_false_iff. apply Heq. reflexivity.
    + f_equal. symmetry. apply negb_false_iff. apply Heq. reflexivity.
    + f_equal. symmetry. apply negb_true_iff. destruct (eqb L b a) eqn:X; auto. apply Heq in X. subst b.
      assert (Y : c a a = Eq) by (apply (to_eq _ c TO); auto). congruence.
  - intros bo tp E. destruct (Hb bo tp E) as [W1 [W2 H]]. repeat split; auto; apply LE; auto; apply H; auto.
  - intros c' E a b Ha Hb'. rewrite Hp by auto. f_equal. symmetry. apply Hc; auto.
Qed.

(* conversely: a verified lattice whose type implements Ord is totally ordered by cmp *)
Lemma ok_total (L : LatImpl) c : LatOK L -> ocmp L = Some c -> TotalOrd (wf L) c.
Proof.
  intros OK E. assert (P := ok_cmp L OK c E). constructor.
  - intros a b Ha Hb. rewrite <- (ok_pcmp_eq L OK a b Ha Hb), P by auto. split; congruence.
  - intros a b Ha Hb. assert (F := ok_pcmp_flip L OK a b Ha Hb). rewrite !P in F by auto. cbn in F. congruence.
  - intros a b d Ha Hb Hd H1 H2.
    assert (L1 : le L a b) by (apply le_cases; left; rewrite P by auto; congruence).
    assert (L2 : le L b d) by (apply le_cases; left; rewrite P by auto; congruence).
    assert (L3 := ok_trans L OK a b d Ha Hb Hd L1 L2). apply le_cases in L3. rewrite !P in L3 by auto.
    destruct L3 as [L3|L3]; [congruence|].
    assert (a = d) by (apply (ok_pcmp_eq L OK); auto; rewrite P by auto; congruence). subst d.
    assert (a = b) by (apply (le_antisym L OK); auto). subst b.
    assert (pcmp L a a = Some Eq) by (apply (ok_pcmp_eq L OK); auto). rewrite P in H by auto. congruence.
Qed.

Lemma ok_cmp_of (L : LatImpl) : LatOK L -> has_ord L = true ->
  TotalOrd (wf L) (cmp_of L) /\ forall a b, wf L a -> wf L b -> pcmp L a b = Some (cmp_of L a b).
Proof.
  unfold has_ord, cmp_of. intros OK H. destruct (ocmp L) as [c|] eqn:E; [|discriminate].
  split; [eapply ok_total; eauto | eapply ok_cmp; eauto].
Qed.

(* ---------------------------------------------------------------- integers, bool, () *)
Lemma IntLat_ok lo hi : lo <= hi -> LatOK (IntLat lo hi).
Proof.
  intros Hlh. apply (total_ok (IntLat lo hi) Z.compare); cbn.
  - intros a b. apply Z.eqb_eq.
  - constructor.
    + intros a b _ _. apply Z.compare_eq_iff.
    + intros a b _ _. apply Z.compare_antisym.
    + intros a b d _ _ _. rewrite !Z.compare_lt_iff. lia.
  - reflexivity.
  - intros c' E. injection E as <-. reflexivity.
  - intros a b _ _. unfold dflt, ord_join_mut, tmax, zcmp, oge. destruct (a ?= b); reflexivity.
  - intros a b _ _. unfold dflt, ord_meet_mut, tmin, zcmp, ople. destruct (a ?= b); reflexivity.
  - intros a b _ _. unfold ord_join_mut, zcmp, oge. destruct (a ?= b); reflexivity.
  - intros a b _ _. unfold ord_meet_mut, zcmp, ople. destruct (a ?= b); reflexivity.
  - intros bo tp E. injection E as <- <-. unfold wf; cbn. repeat split.
    + apply andb_true_iff; split; apply Z.leb_le; lia.
    + apply andb_true_iff; split; apply Z.leb_le; lia.
    + apply andb_true_iff in H. destruct H as [H _]. apply Z.leb_le in H. rewrite Z.compare_gt_iff. lia.
    + apply andb_true_iff in H. destruct H as [_ H]. apply Z.leb_le in H. rewrite Z.compare_gt_iff. lia.
Qed.

Lemma BoolLat_ok : LatOK BoolLat.
Proof.
  apply (total_ok BoolLat bool_compare); cbn.
  - intros [] []; cbn; split; congruence.
  - constructor.
    + intros [] [] _ _; cbn; split; congruence.
    + intros [] [] _ _; reflexivity.
    + intros [] [] [] _ _ _; cbn; congruence.
  - reflexivity.
  - intros c' E. injection E as <-. reflexivity.
  - intros [] [] _ _; reflexivity.
  - intros [] [] _ _; reflexivity.
  - intros [] [] _ _; reflexivity.
  - intros [] [] _ _; reflexivity.
  - intros bo tp E. injection E as <- <-. repeat split; destruct a; cbn; congruence.
Qed.

Lemma UnitLat_ok : LatOK UnitLat.
Proof.
  apply (total_ok UnitLat (fun _ _ => Eq)); cbn.
  - intros [] []; split; reflexivity.
  - constructor.
    + intros [] [] _ _; split; reflexivity.
    + reflexivity.
    + discriminate.
  - reflexivity.
  - intros c' E. injection E as <-. reflexivity.
  - intros [] []; reflexivity.
  - intros [] []; reflexivity.
  - intros [] []; reflexivity.
  - intros [] []; reflexivity.
  - intros bo tp E. injection E as <- <-. repeat split; discriminate.
Qed.

(* ---------------------------------------------------------------- OrdLattice<T: Ord> *)
Lemma OrdLat_ok L : LatOK L -> has_ord L = true -> LatOK (OrdLat L).
Proof.
  intros OK HO. destruct (ok_cmp_of L OK HO) as [TO P].
  assert (PL : forall a b, wf L a -> wf L b -> plt L a b = match cmp_of L a b with Lt => true | _ => false end).
  { intros a b Ha Hb. unfold plt. rewrite P by auto. reflexivity. }
  assert (PG : forall a b, wf L a -> wf L b -> pgt L a b = match cmp_of L a b with Gt => true | _ => false end).
  { intros a b Ha Hb. unfold pgt. rewrite P by auto. reflexivity. }
  apply (total_ok (OrdLat L) (cmp_of L)); cbn; change (wf (OrdLat L)) with (wf L).
  - apply (ok_eqb L OK).
  - exact TO.
  - exact P.
  - intros c' E a b Ha Hb. unfold cmp_of. rewrite E. reflexivity.
  - intros a b Ha Hb. unfold ord_max, tmax. rewrite PL by auto. rewrite (to_flip _ _ TO a b) by auto.
    destruct (cmp_of L a b) eqn:E; cbn; try reflexivity. apply (to_eq _ _ TO) in E; auto.
  - intros a b Ha Hb. unfold ord_min, tmin. rewrite PL by auto. rewrite (to_flip _ _ TO a b) by auto.
    destruct (cmp_of L a b) eqn:E; cbn; reflexivity.
  - intros a b Ha Hb. rewrite PL by auto. destruct (cmp_of L a b); reflexivity.
  - intros a b Ha Hb. rewrite PG by auto. destruct (cmp_of L a b); reflexivity.
  - discriminate.
Qed.

(* ---------------------------------------------------------------- lexicographic comparison *)
Definition lex_cmp {A B} (c : A -> A -> comparison) (cs : B -> B -> comparison) (a b : A * B) : comparison :=
  match c (fst a) (fst b) with Eq => cs (snd a) (snd b) | ordering => ordering end.

Lemma lex_total {A B} (WA : A -> Prop) (WB : B -> Prop) c cs :
  TotalOrd WA c -> TotalOrd WB cs -> TotalOrd (fun p => WA (fst p) /\ WB (snd p)) (lex_cmp c cs).
Proof.
  intros TA TB. constructor.
  - intros [a1 a2] [b1 b2] [Ha1 Ha2] [Hb1 Hb2]. unfold lex_cmp; cbn in *.
    destruct (c a1 b1) eqn:E.
    + apply (to_eq _ _ TA) in E; auto. subst b1. rewrite (to_eq _ _ TB a2 b2) by auto. split; congruence.
    + split; [discriminate|]. intros H. injection H as <- <-.
      assert (X : c a1 a1 = Eq) by (apply (to_eq _ _ TA); auto). congruence.
    + split; [discriminate|]. intros H. injection H as <- <-.
      assert (X : c a1 a1 = Eq) by (apply (to_eq _ _ TA); auto). congruence.
  - intros [a1 a2] [b1 b2] [Ha1 Ha2] [Hb1 Hb2]. unfold lex_cmp; cbn in *.
    rewrite (to_flip _ _ TA a1 b1) by auto. destruct (c a1 b1); cbn; try reflexivity.
    apply (to_flip _ _ TB); auto.
  - intros [a1 a2] [b1 b2] [d1 d2] [Ha1 Ha2] [Hb1 Hb2] [Hd1 Hd2]. unfold lex_cmp; cbn in *.
    destruct (c a1 b1) eqn:E1; try discriminate.
    + apply (to_eq _ _ TA) in E1; auto. subst b1. destruct (c a1 d1); try discriminate; auto.
      apply (to_lt_trans _ _ TB); auto.
    + intros _. destruct (c b1 d1) eqn:E2; try discriminate.
      * apply (to_eq _ _ TA) in E2; auto. subst d1. rewrite E1. reflexivity.
      * rewrite (to_lt_trans _ _ TA a1 b1 d1) by auto. reflexivity.
Qed.
