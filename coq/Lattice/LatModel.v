(* Executable model of ascent_base/src/lattice.rs and ascent_base/src/lattice/*.rs (C16; used by C03).

   One Gallina mirror per `impl Lattice` / `impl PartialOrd` / `impl BoundedLattice`, written the way the
   Rust code computes (flags computed as the code computes them, by-value overrides where the impl has
   them, otherwise the trait default `{ self.join_mut(other); self }`).  Generic Rust types are
   combinators LatImpl -> LatImpl.  No proofs here (see LatLaws.v).

   Modelling decisions (stated once):
   * integers: `LInt lo hi` = Z restricted to lo..hi (i32 = LInt (-2^31) (2^31-1), u8 = LInt 0 255, ...);
     MIN / MAX are lo / hi.  No arithmetic is performed by any lattice operation, so there is no overflow.
   * Set<T> / BoundedSet<N, T>: canonical strictly increasing (w.r.t. T's Ord::cmp) duplicate-free lists
     (the BTreeSet observed through its sorted iteration order), for every element type T of the syntax
     that implements Ord; `insert` / `contains` / `len` / `is_subset` are the list functions below.
   * Rc / Arc / Box: the pointee (sharing, make_mut, try_unwrap-or-clone are ownership glue).
   * `ocmp` is `Ord::cmp` where the Rust type implements `Ord` (None otherwise); `pcmp` is
     `PartialOrd::partial_cmp`; the comparison operators `<  <=  >  >=` are the PartialOrd defaults derived
     from partial_cmp (std's specialised versions for integers, tuples and Reverse compute the same thing;
     the tie checks the operators against partial_cmp on every row).
   * `Ord::min(a, b)` = `if b < a { b } else { a }`, `Ord::max(a, b)` = `if b < a { a } else { b }`
     (library/core/src/cmp.rs of the pinned toolchain).
   * tuples and Product<(..)> of arity n >= 1 are modelled over a non-empty component list `CList`
     (carrier = right-nested pairs, the last component bare); the macro-generated straight-line code
     becomes a recursion over the list, accumulators (`res`, `changed`) kept as in the code. *)
From Coq Require Import List ZArith Bool.
Import ListNotations.
Open Scope Z_scope.

Record LatImpl : Type := mkLat {
  carrier : Type;
  wfb  : carrier -> bool;                            (* representation invariant of the model value *)
  eqb  : carrier -> carrier -> bool;                 (* PartialEq::eq *)
  pcmp : carrier -> carrier -> option comparison;    (* PartialOrd::partial_cmp *)
  ocmp : option (carrier -> carrier -> comparison);  (* Ord::cmp, where implemented *)
  jm   : carrier -> carrier -> carrier * bool;       (* join_mut: (receiver afterwards, returned flag) *)
  mm   : carrier -> carrier -> carrier * bool;       (* meet_mut *)
  jv   : carrier -> carrier -> carrier;              (* join (by value) *)
  mv   : carrier -> carrier -> carrier;              (* meet (by value) *)
  bnd  : option (carrier * carrier)                  (* BoundedLattice: (bottom, top), where implemented *)
}.

(* PartialOrd's provided operators *)
Definition ple (L : LatImpl) (a b : carrier L) : bool := match pcmp L a b with Some Lt | Some Eq => true | _ => false end.
Definition pge (L : LatImpl) (a b : carrier L) : bool := match pcmp L a b with Some Gt | Some Eq => true | _ => false end.
Definition plt (L : LatImpl) (a b : carrier L) : bool := match pcmp L a b with Some Lt => true | _ => false end.
Definition pgt (L : LatImpl) (a b : carrier L) : bool := match pcmp L a b with Some Gt => true | _ => false end.

(* Ord::cmp of a type that is used under an `Ord` bound; the default is never reached for well-formed
   types (wf_lty below demands ocmp <> None wherever Rust demands `Ord`) *)
Definition cmp_of (L : LatImpl) : carrier L -> carrier L -> comparison :=
  match ocmp L with Some c => c | None => fun _ _ => Eq end.

(* trait defaults: fn join(mut self, other) { self.join_mut(other); self } *)
Definition dflt {T : Type} (op_mut : T -> T -> T * bool) (a b : T) : T := fst (op_mut a b).

(* ---------------------------------------------------------------- ord_lattice_impl! (bool, integers) *)
Definition ord_meet_mut {T : Type} (le : T -> T -> bool) (self other : T) : T * bool :=
  let changed := negb (le self other) in
  ((if changed then other else self), changed).
Definition ord_join_mut {T : Type} (ge : T -> T -> bool) (self other : T) : T * bool :=
  let changed := negb (ge self other) in
  ((if changed then other else self), changed).

Definition zcmp (a b : Z) : option comparison := Some (Z.compare a b).
Definition ople (o : option comparison) : bool := match o with Some Lt | Some Eq => true | _ => false end.
Definition oge (o : option comparison) : bool := match o with Some Gt | Some Eq => true | _ => false end.

Definition IntLat (lo hi : Z) : LatImpl := {|
  carrier := Z;
  wfb a := Z.leb lo a && Z.leb a hi;
  eqb := Z.eqb;
  pcmp := zcmp;
  ocmp := Some Z.compare;
  mm := ord_meet_mut (fun a b => ople (zcmp a b));
  jm := ord_join_mut (fun a b => oge (zcmp a b));
  mv := dflt (ord_meet_mut (fun a b => ople (zcmp a b)));
  jv := dflt (ord_join_mut (fun a b => oge (zcmp a b)));
  bnd := Some (lo, hi)            (* bottom = MIN, top = MAX *)
|}.

Definition bool_compare (a b : bool) : comparison :=
  match a, b with false, true => Lt | true, false => Gt | _, _ => Eq end.
Definition bcmp (a b : bool) : option comparison := Some (bool_compare a b).

Definition BoolLat : LatImpl := {|
  carrier := bool;
  wfb _ := true;
  eqb := Bool.eqb;
  pcmp := bcmp;
  ocmp := Some bool_compare;
  mm := ord_meet_mut (fun a b => ople (bcmp a b));
  jm := ord_join_mut (fun a b => oge (bcmp a b));
  mv := dflt (ord_meet_mut (fun a b => ople (bcmp a b)));
  jv := dflt (ord_join_mut (fun a b => oge (bcmp a b)));
  bnd := Some (false, true)
|}.

(* ---------------------------------------------------------------- () (tuple.rs) *)
Definition UnitLat : LatImpl := {|
  carrier := unit;
  wfb _ := true;
  eqb _ _ := true;
  pcmp _ _ := Some Eq;
  ocmp := Some (fun _ _ => Eq);
  mm self _ := (self, false);
  jm self _ := (self, false);
  mv _ _ := tt;
  jv _ _ := tt;
  bnd := Some (tt, tt)
|}.

(* ---------------------------------------------------------------- Option<T> *)
Definition opt_eqb {T} (e : T -> T -> bool) (a b : option T) : bool :=
  match a, b with Some x, Some y => e x y | None, None => true | _, _ => false end.
(* derived PartialOrd / Ord: None < Some(_) *)
Definition opt_pcmp {T} (p : T -> T -> option comparison) (a b : option T) : option comparison :=
  match a, b with
  | None, None => Some Eq | None, Some _ => Some Lt | Some _, None => Some Gt
  | Some x, Some y => p x y
  end.
Definition opt_cmp {T} (c : T -> T -> comparison) (a b : option T) : comparison :=
  match a, b with
  | None, None => Eq | None, Some _ => Lt | Some _, None => Gt
  | Some x, Some y => c x y
  end.
Definition opt_meet_mut {T} (mmT : T -> T -> T * bool) (self other : option T) : option T * bool :=
  match self, other with
  | Some x, Some y => let '(v, f) := mmT x y in (Some v, f)
  | Some _, None => (None, true)
  | None, _ => (None, false)
  end.
Definition opt_join_mut {T} (jmT : T -> T -> T * bool) (self other : option T) : option T * bool :=
  match self, other with
  | Some x, Some y => let '(v, f) := jmT x y in (Some v, f)
  | None, Some y => (Some y, true)
  | _, None => (self, false)
  end.

Definition OptionLat (L : LatImpl) : LatImpl := {|
  carrier := option (carrier L);
  wfb a := match a with Some x => wfb L x | None => true end;
  eqb := opt_eqb (eqb L);
  pcmp := opt_pcmp (pcmp L);
  ocmp := match ocmp L with Some c => Some (opt_cmp c) | None => None end;
  mm := opt_meet_mut (mm L);
  jm := opt_join_mut (jm L);
  mv := dflt (opt_meet_mut (mm L));
  jv := dflt (opt_join_mut (jm L));
  bnd := match bnd L with Some (_, t) => Some (None, Some t) | None => None end
|}.

(* ---------------------------------------------------------------- Rc<T>, Arc<T>: compare, then recurse *)
Definition rc_meet_mut (L : LatImpl) (self other : carrier L) : carrier L * bool :=
  match pcmp L self other with
  | Some Lt | Some Eq => (self, false)
  | Some Gt => (other, true)
  | None => mm L self other
  end.
Definition rc_join_mut (L : LatImpl) (self other : carrier L) : carrier L * bool :=
  match pcmp L self other with
  | Some Gt | Some Eq => (self, false)
  | Some Lt => (other, true)
  | None => jm L self other
  end.

Definition RcLat (L : LatImpl) : LatImpl := {|
  carrier := carrier L;
  wfb := wfb L;
  eqb := eqb L;
  pcmp := pcmp L;
  ocmp := ocmp L;
  mm := rc_meet_mut L;
  jm := rc_join_mut L;
  mv := dflt (rc_meet_mut L);
  jv := dflt (rc_join_mut L);
  bnd := None
|}.
Definition ArcLat (L : LatImpl) : LatImpl := {|
  carrier := carrier L;
  wfb := wfb L;
  eqb := eqb L;
  pcmp := pcmp L;
  ocmp := ocmp L;
  mm := rc_meet_mut L;
  jm := rc_join_mut L;
  mv := dflt (rc_meet_mut L);
  jv := dflt (rc_join_mut L);
  bnd := None
|}.

(* ---------------------------------------------------------------- Box<T>: delegates the mut variants *)
Definition BoxLat (L : LatImpl) : LatImpl := {|
  carrier := carrier L;
  wfb := wfb L;
  eqb := eqb L;
  pcmp := pcmp L;
  ocmp := ocmp L;
  mm := mm L;
  jm := jm L;
  mv := dflt (mm L);
  jv := dflt (jm L);
  bnd := None
|}.

(* ---------------------------------------------------------------- std::cmp::Reverse<T>, Dual<T> *)
Definition flip_cmp {T} (c : T -> T -> comparison) (a b : T) : comparison := c b a.

Definition ReverseLat (L : LatImpl) : LatImpl := {|
  carrier := carrier L;
  wfb := wfb L;
  eqb := eqb L;
  pcmp a b := pcmp L b a;
  ocmp := match ocmp L with Some c => Some (flip_cmp c) | None => None end;
  mm := jm L;
  jm := mm L;
  mv := jv L;
  jv := mv L;
  bnd := match bnd L with Some (b, t) => Some (t, b) | None => None end
|}.
Definition DualLat (L : LatImpl) : LatImpl := {|
  carrier := carrier L;
  wfb := wfb L;
  eqb := eqb L;
  pcmp a b := pcmp L b a;
  ocmp := match ocmp L with Some c => Some (flip_cmp c) | None => None end;
  mm := jm L;
  jm := mm L;
  mv := jv L;
  jv := mv L;
  bnd := match bnd L with Some (b, t) => Some (t, b) | None => None end
|}.

(* ---------------------------------------------------------------- OrdLattice<T: Ord> *)
Definition ord_min (L : LatImpl) (a b : carrier L) : carrier L := if plt L b a then b else a.
Definition ord_max (L : LatImpl) (a b : carrier L) : carrier L := if plt L b a then a else b.

Definition OrdLat (L : LatImpl) : LatImpl := {|
  carrier := carrier L;
  wfb := wfb L;
  eqb := eqb L;
  pcmp := pcmp L;                 (* derive(PartialOrd, Ord) *)
  ocmp := ocmp L;
  mm self other := if pgt L self other then (other, true) else (self, false);
  jm self other := if plt L self other then (other, true) else (self, false);
  mv := ord_min L;
  jv := ord_max L;
  bnd := None
|}.

(* ---------------------------------------------------------------- component lists: tuples and Product<(..)> *)
(* product.rs combine_orderings *)
Definition combine_orderings (ord1 ord2 : comparison) : option comparison :=
  match ord1, ord2 with
  | Eq, _ => Some ord2
  | _, Eq => Some ord1
  | Lt, Lt => Some Lt
  | Gt, Gt => Some Gt
  | _, _ => None
  end.

Record CList : Type := mkCList {
  ccar : Type;
  cwfb : ccar -> bool;
  ceqb : ccar -> ccar -> bool;                                 (* tuple PartialEq *)
  clex_pcmp : ccar -> ccar -> option comparison;               (* std tuple PartialOrd (lexicographic) *)
  clex_cmp : option (ccar -> ccar -> comparison);              (* std tuple Ord, when every component is Ord *)
  cprod_pcmp : comparison -> ccar -> ccar -> option comparison;(* Product::partial_cmp from component i on, res so far *)
  cprod_mm : bool -> ccar -> ccar -> ccar * bool;              (* Product::meet_mut from component i on, changed so far *)
  cprod_jm : bool -> ccar -> ccar -> ccar * bool;
  cprod_mv : ccar -> ccar -> ccar;                             (* Product::meet: component-wise by-value *)
  cprod_jv : ccar -> ccar -> ccar;
  cbnd : option (ccar * ccar)                                  (* component-wise bottom / top, when every component is bounded *)
}.

Definition COne (L : LatImpl) : CList := {|
  ccar := carrier L;
  cwfb := wfb L;
  ceqb := eqb L;
  clex_pcmp := pcmp L;
  clex_cmp := ocmp L;
  cprod_pcmp res a b :=
    match pcmp L a b with
    | None => None
    | Some ord => match combine_orderings ord res with None => None | Some new_res => Some new_res end
    end;
  cprod_mm changed a b := let '(v, f) := mm L a b in (v, changed || f);
  cprod_jm changed a b := let '(v, f) := jm L a b in (v, changed || f);
  cprod_mv := mv L;
  cprod_jv := jv L;
  cbnd := bnd L
|}.

Definition CCons (L : LatImpl) (C : CList) : CList := {|
  ccar := carrier L * ccar C;
  cwfb a := wfb L (fst a) && cwfb C (snd a);
  ceqb a b := eqb L (fst a) (fst b) && ceqb C (snd a) (snd b);
  clex_pcmp a b :=
    match pcmp L (fst a) (fst b) with
    | Some Eq => clex_pcmp C (snd a) (snd b)
    | ordering => ordering
    end;
  clex_cmp :=
    match ocmp L, clex_cmp C with
    | Some c, Some cs => Some (fun a b => match c (fst a) (fst b) with Eq => cs (snd a) (snd b) | ordering => ordering end)
    | _, _ => None
    end;
  cprod_pcmp res a b :=
    match pcmp L (fst a) (fst b) with
    | None => None
    | Some ord => match combine_orderings ord res with
                  | None => None
                  | Some new_res => cprod_pcmp C new_res (snd a) (snd b)
                  end
    end;
  cprod_mm changed a b :=
    let '(v, f) := mm L (fst a) (fst b) in
    let '(vs, c) := cprod_mm C (changed || f) (snd a) (snd b) in ((v, vs), c);
  cprod_jm changed a b :=
    let '(v, f) := jm L (fst a) (fst b) in
    let '(vs, c) := cprod_jm C (changed || f) (snd a) (snd b) in ((v, vs), c);
  cprod_mv a b := (mv L (fst a) (fst b), cprod_mv C (snd a) (snd b));
  cprod_jv a b := (jv L (fst a) (fst b), cprod_jv C (snd a) (snd b));
  cbnd := match bnd L, cbnd C with
          | Some (b, t), Some (bs, ts) => Some ((b, bs), (t, ts))
          | _, _ => None
          end
|}.

Definition clex_cmp_of (C : CList) : ccar C -> ccar C -> comparison :=
  match clex_cmp C with Some c => c | None => fun _ _ => Eq end.
Definition clex_lt (C : CList) (a b : ccar C) : bool := match clex_pcmp C a b with Some Lt => true | _ => false end.

(* tuple.rs: impl Lattice for (T0, .., Tn) where the tuple is Ord *)
Definition TupleLat (C : CList) : LatImpl := {|
  carrier := ccar C;
  wfb := cwfb C;
  eqb := ceqb C;
  pcmp := clex_pcmp C;
  ocmp := clex_cmp C;
  mm self other := match clex_cmp_of C self other with Lt | Eq => (self, false) | Gt => (other, true) end;
  jm self other := match clex_cmp_of C self other with Gt | Eq => (self, false) | Lt => (other, true) end;
  mv self other := if clex_lt C other self then other else self;     (* self.min(other) *)
  jv self other := if clex_lt C other self then self else other;     (* self.max(other) *)
  bnd := cbnd C
|}.

(* product.rs: Product<(T0, .., Tn)> *)
Definition ProdLat (C : CList) : LatImpl := {|
  carrier := ccar C;
  wfb := cwfb C;
  eqb := ceqb C;                  (* derive(PartialEq) *)
  pcmp := cprod_pcmp C Eq;
  ocmp := None;
  mm := cprod_mm C false;
  jm := cprod_jm C false;
  mv := cprod_mv C;
  jv := cprod_jv C;
  bnd := cbnd C
|}.

(* ---------------------------------------------------------------- Product<[T; N]> *)
Fixpoint list_eqb {T} (e : T -> T -> bool) (a b : list T) : bool :=
  match a, b with
  | [], [] => true
  | x :: a', y :: b' => e x y && list_eqb e a' b'
  | _, _ => false
  end.

Fixpoint arr_pcmp (L : LatImpl) (ord : comparison) (a b : list (carrier L)) : option comparison :=
  match a, b with
  | x :: a', y :: b' =>
      match pcmp L x y with
      | None => None
      | Some ith_ord => match combine_orderings ith_ord ord with
                        | Some new_ord => arr_pcmp L new_ord a' b'
                        | None => None
                        end
      end
  | _, _ => Some ord
  end.

(* for (l, r) in self.0.iter_mut().zip(other.0) { changed |= l.op_mut(r) } *)
Fixpoint arr_op_mut {T} (op : T -> T -> T * bool) (changed : bool) (a b : list T) : list T * bool :=
  match a, b with
  | x :: a', y :: b' =>
      let '(v, f) := op x y in
      let '(vs, c) := arr_op_mut op (changed || f) a' b' in (v :: vs, c)
  | _, _ => (a, changed)
  end.

Definition ProdArrLat (n : nat) (L : LatImpl) : LatImpl := {|
  carrier := list (carrier L);
  wfb a := Nat.eqb (length a) n && forallb (wfb L) a;
  eqb := list_eqb (eqb L);
  pcmp := arr_pcmp L Eq;
  ocmp := None;
  mm := arr_op_mut (mm L) false;
  jm := arr_op_mut (jm L) false;
  mv := dflt (arr_op_mut (mm L) false);
  jv := dflt (arr_op_mut (jm L) false);
  bnd := match bnd L with Some (b, t) => Some (repeat b n, repeat t n) | None => None end
|}.

(* ---------------------------------------------------------------- Set<T: Ord> (BTreeSet as sorted list) *)
(* E is the element type; BTreeSet navigates with Ord::cmp (cmp_of E) and compares sets with T's == *)
Section SetModel.
  Variable E : LatImpl.
  Notation elt := (carrier E).

  Fixpoint set_insert (x : elt) (s : list elt) : list elt :=
    match s with
    | [] => [x]
    | y :: s' => match cmp_of E x y with
                 | Lt => x :: s
                 | Eq => s                      (* already present: the set keeps the old element *)
                 | Gt => y :: set_insert x s'
                 end
    end.
  Fixpoint set_contains (s : list elt) (x : elt) : bool :=
    match s with
    | [] => false
    | y :: s' => match cmp_of E x y with Eq => true | _ => set_contains s' x end
    end.
  Definition set_len (s : list elt) : Z := Z.of_nat (length s).
  Definition set_is_subset (a b : list elt) : bool := forallb (set_contains b) a.
  Fixpoint set_sorted (s : list elt) : bool :=
    match s with
    | x :: ((y :: _) as s') => match cmp_of E x y with Lt => set_sorted s' | _ => false end
    | _ => true
    end.

  Definition set_pcmp (a b : list elt) : option comparison :=
    if list_eqb (eqb E) a b then Some Eq
    else if set_is_subset a b then Some Lt
    else if set_is_subset b a then Some Gt        (* is_superset *)
    else None.

  Definition set_meet_mut (self other : list elt) : list elt * bool :=
    let self_len := set_len self in
    let old_self := self in
    let self0 : list elt := [] in                             (* swap(&mut self.0, &mut old_self) *)
    let '(self1, other1) :=
      if Z.gtb (set_len self0) (set_len other) then (other, self0) else (self0, other) in  (* never taken *)
    let self2 := fold_left (fun acc item => if set_contains other1 item then set_insert item acc else acc) old_self self1 in
    (self2, negb (Z.eqb self_len (set_len self2))).

  Definition set_join_mut (self other : list elt) : list elt * bool :=
    let self_len := set_len self in
    let '(self1, other1) := if Z.ltb self_len (set_len other) then (other, self) else (self, other) in
    let self2 := fold_left (fun acc item => set_insert item acc) other1 self1 in
    (self2, negb (Z.eqb self_len (set_len self2))).

  Definition SetLat : LatImpl := {|
    carrier := list elt;
    wfb s := forallb (wfb E) s && set_sorted s;
    eqb := list_eqb (eqb E);
    pcmp := set_pcmp;
    ocmp := None;
    mm := set_meet_mut;
    jm := set_join_mut;
    mv := dflt set_meet_mut;          (* overridden in set.rs with the same body as the default *)
    jv := dflt set_join_mut;
    bnd := None
  |}.

  (* -------------------------------------------------------------- BoundedSet<BOUND, T>: None = TOP *)
  Definition bset_pcmp (a b : option (list elt)) : option comparison :=
    match a, b with
    | None, None => Some Eq
    | None, _ => Some Gt
    | _, None => Some Lt
    | Some s1, Some s2 => set_pcmp s1 s2
    end.
  Definition bset_meet_mut (self other : option (list elt)) : option (list elt) * bool :=
    match self, other with
    | None, None => (None, false)
    | None, Some s2 => (Some s2, true)
    | Some _, None => (self, false)
    | Some s1, Some s2 => let '(v, f) := set_meet_mut s1 s2 in (Some v, f)
    end.
  Definition bset_join_mut (bound : Z) (self other : option (list elt)) : option (list elt) * bool :=
    match self, other with
    | None, _ => (None, false)
    | Some _, None => (None, true)
    | Some s1, Some s2 =>
        let '(v, changed) := set_join_mut s1 s2 in
        if Z.gtb (set_len v) bound then (None, true) else (Some v, changed)
    end.
  Definition bset_meet (self other : option (list elt)) : option (list elt) :=
    match self, other with
    | None, None => None
    | None, Some s2 => Some s2
    | Some s1, None => Some s1
    | Some s1, Some s2 => Some (dflt set_meet_mut s1 s2)
    end.
  Definition bset_join (bound : Z) (self other : option (list elt)) : option (list elt) :=
    match self, other with
    | None, _ => None
    | _, None => None
    | Some s1, Some s2 =>
        let res := dflt set_join_mut s1 s2 in
        if Z.gtb (set_len res) bound then None else Some res
    end.

  Definition BSetLat (bound : Z) : LatImpl := {|
    carrier := option (list elt);
    wfb a := match a with Some s => forallb (wfb E) s && set_sorted s && Z.leb (set_len s) bound | None => true end;
    eqb := opt_eqb (list_eqb (eqb E));
    pcmp := bset_pcmp;
    ocmp := None;
    mm := bset_meet_mut;
    jm := bset_join_mut bound;
    mv := bset_meet;
    jv := bset_join bound;
    bnd := Some (Some [], None)       (* bottom = new(), top = TOP *)
  |}.
End SetModel.

(* ---------------------------------------------------------------- ConstPropagation<T> *)
Inductive cp (T : Type) : Type := CBot | CConst (x : T) | CTop.
Arguments CBot {T}.
Arguments CConst {T} x.
Arguments CTop {T}.

Definition cp_eqb {T} (e : T -> T -> bool) (a b : cp T) : bool :=
  match a, b with
  | CBot, CBot => true | CTop, CTop => true | CConst x, CConst y => e x y | _, _ => false
  end.
Definition cp_pcmp {T} (e : T -> T -> bool) (a b : cp T) : option comparison :=
  match a, b with
  | CBot, CBot => Some Eq
  | CBot, _ => Some Lt
  | CConst _, CBot => Some Gt
  | CConst x, CConst y => if e x y then Some Eq else None
  | CConst _, CTop => Some Lt
  | CTop, CTop => Some Eq
  | CTop, _ => Some Gt
  end.
Definition cp_meet {T} (e : T -> T -> bool) (self other : cp T) : cp T :=
  match self, other with
  | CBot, _ => CBot
  | CConst _, CBot => CBot
  | CConst x, CConst y => if e x y then CConst x else CBot
  | CConst x, CTop => CConst x
  | CTop, o => o
  end.
Definition cp_join {T} (e : T -> T -> bool) (self other : cp T) : cp T :=
  match self, other with
  | CBot, o => o
  | CConst x, CBot => CConst x
  | CConst x, CConst y => if e x y then CConst x else CTop
  | CConst _, CTop => CTop
  | CTop, _ => CTop
  end.
Definition cp_meet_mut {T} (e : T -> T -> bool) (self other : cp T) : cp T * bool :=
  match self, other with
  | CBot, _ => (self, false)
  | CConst x, CConst y => if e x y then (self, false) else (CBot, true)
  | CConst _, CBot => (CBot, true)
  | _, CTop => (self, false)
  | CTop, o => (o, true)
  end.
Definition cp_join_mut {T} (e : T -> T -> bool) (self other : cp T) : cp T * bool :=
  match self, other with
  | _, CBot => (self, false)
  | CBot, o => (o, true)
  | CConst x, CConst y => if e x y then (self, false) else (CTop, true)
  | CConst _, CTop => (CTop, true)
  | CTop, _ => (self, false)
  end.

Definition CPLat (L : LatImpl) : LatImpl := {|
  carrier := cp (carrier L);
  wfb a := match a with CConst x => wfb L x | _ => true end;
  eqb := cp_eqb (eqb L);
  pcmp := cp_pcmp (eqb L);
  ocmp := None;
  mm := cp_meet_mut (eqb L);
  jm := cp_join_mut (eqb L);
  mv := cp_meet (eqb L);
  jv := cp_join (eqb L);
  bnd := Some (CBot, CTop)
|}.

(* ---------------------------------------------------------------- syntax of lattice types *)
Inductive lty : Type :=
  | LInt (lo hi : Z) | LBool | LUnit
  | LOption (t : lty) | LRc (t : lty) | LArc (t : lty) | LBox (t : lty)
  | LReverse (t : lty) | LDual (t : lty) | LOrd (t : lty)
  | LTuple (ts : ltys) | LProd (ts : ltys) | LProdArr (n : nat) (t : lty)
  | LSet (t : lty) | LBSet (bound : Z) (t : lty) | LCP (t : lty)
with ltys : Type :=
  | LOne (t : lty) | LCons (t : lty) (ts : ltys).

Fixpoint denote (t : lty) : LatImpl :=
  match t with
  | LInt lo hi => IntLat lo hi
  | LBool => BoolLat
  | LUnit => UnitLat
  | LOption t => OptionLat (denote t)
  | LRc t => RcLat (denote t)
  | LArc t => ArcLat (denote t)
  | LBox t => BoxLat (denote t)
  | LReverse t => ReverseLat (denote t)
  | LDual t => DualLat (denote t)
  | LOrd t => OrdLat (denote t)
  | LTuple ts => TupleLat (denotes ts)
  | LProd ts => ProdLat (denotes ts)
  | LProdArr n t => ProdArrLat n (denote t)
  | LSet t => SetLat (denote t)
  | LBSet n t => BSetLat (denote t) n
  | LCP t => CPLat (denote t)
  end
with denotes (ts : ltys) : CList :=
  match ts with
  | LOne t => COne (denote t)
  | LCons t ts => CCons (denote t) (denotes ts)
  end.

Definition has_ord (L : LatImpl) : bool := match ocmp L with Some _ => true | None => false end.
Definition chas_ord (C : CList) : bool := match clex_cmp C with Some _ => true | None => false end.

(* the Rust type exists: trait bounds hold (`Ord` where demanded), integer range non-empty, BOUND >= 0 *)
Fixpoint wf_lty (t : lty) : bool :=
  match t with
  | LInt lo hi => Z.leb lo hi
  | LBool | LUnit => true
  | LOption t | LRc t | LArc t | LBox t | LReverse t | LDual t | LCP t | LProdArr _ t => wf_lty t
  | LOrd t => wf_lty t && has_ord (denote t)
  | LTuple ts => wf_ltys ts && chas_ord (denotes ts)
  | LProd ts => wf_ltys ts
  | LSet t => wf_lty t && has_ord (denote t)
  | LBSet n t => wf_lty t && has_ord (denote t) && Z.leb 0 n
  end
with wf_ltys (ts : ltys) : bool :=
  match ts with
  | LOne t => wf_lty t
  | LCons t ts => wf_lty t && wf_ltys ts
  end.

(* one table row of the correspondence: everything the harness prints for a pair *)
Inductive Row (T : Type) : Type :=
  R (j m jm_val : T) (jm_flag : bool) (mm_val : T) (mm_flag : bool) (pc : option comparison) (eq : bool)
    (oc : option comparison) (abs1 abs2 : T) (wf_in wf_out : bool).
Arguments R {T}.
Definition row (L : LatImpl) (a b : carrier L) : Row (carrier L) :=
  R (jv L a b) (mv L a b) (fst (jm L a b)) (snd (jm L a b)) (fst (mm L a b)) (snd (mm L a b))
    (pcmp L a b) (eqb L a b)
    (match ocmp L with Some c => Some (c a b) | None => None end)
    (jv L a (mv L a b)) (mv L a (jv L a b))
    (wfb L a && wfb L b)
    (wfb L (jv L a b) && wfb L (mv L a b) && wfb L (fst (jm L a b)) && wfb L (fst (mm L a b))).
Definition rows (L : LatImpl) (l : list (carrier L * carrier L)) : list (Row (carrier L)) :=
  map (fun p => row L (fst p) (snd p)) l.
(* static facts compared with the harness table: (type exists, implements Ord, BoundedLattice bottom/top) *)
Definition static (t : lty) := (wf_lty t, has_ord (denote t), bnd (denote t)).
Definition i32 : lty := LInt (-2147483648) 2147483647.
