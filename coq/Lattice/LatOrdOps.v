(* C16 - the CONSUMERS of `Ord` on the shipped lattice types that implement it: besides a direct `cmp`, std reaches
   `Ord::cmp` through `sort_by(Ord::cmp)`, `BTreeSet` (insertion / iteration order) and - inside ascent_base - the tuple
   lattices' join_mut / meet_mut; `Ord::max` / `Ord::min` / `sort()` go through `<` (PartialOrd::lt).  The model row below
   is what harness/ds_lat prints in mode `O`; the theorem says that for every well-formed type with an `Ord` impl all of
   them are determined by the lattice: sorting two values by `cmp` yields (meet, join), max = join, min = meet, and
   cmp is antisymmetric.  (The hypothesis that makes this true is LatOK's ok_cmp: cmp agrees with partial_cmp.) *)
From Coq Require Import List ZArith Bool.
From AV Require Import Lattice.LatModel.
From AV Require Import Lattice.LatLaws.
From AV Require Import Lattice.LatMain.
Import ListNotations.

(* [a, b].sort_by(Ord::cmp) - stable: b moves in front of a only when cmp(a, b) = Greater *)
Definition sort2 {T : Type} (c : T -> T -> comparison) (a b : T) : T * T :=
  match c a b with Gt => (b, a) | _ => (a, b) end.
(* BTreeSet::from([a, b]) read in iteration order: the second insertion is dropped when cmp says Equal *)
Definition bts2 {T : Type} (c : T -> T -> comparison) (a b : T) : list T :=
  match c b a with Eq => [a] | Lt => [b; a] | Gt => [a; b] end.

Inductive OrdRow (T : Type) : Type :=
  OR (cab cba : comparison) (omax omin : T) (sorted : T * T) (set : list T).
Arguments OR {T}.
Definition ord_row (L : LatImpl) (a b : carrier L) : option (OrdRow (carrier L)) :=
  match ocmp L with
  | Some c => Some (OR (c a b) (c b a) (ord_max L a b) (ord_min L a b) (sort2 c a b) (bts2 c a b))
  | None => None
  end.
Definition ord_rows (L : LatImpl) (l : list (carrier L * carrier L)) : list (option (OrdRow (carrier L))) :=
  map (fun p => ord_row L (fst p) (snd p)) l.

Section OrdOps.
  Variable L : LatImpl.
  Hypothesis OK : LatOK L.
  Variable c : carrier L -> carrier L -> comparison.
  Hypothesis HC : ocmp L = Some c.

  Lemma cmp_pcmp a b : wf L a -> wf L b -> pcmp L a b = Some (c a b).
  Proof. intros Ha Hb. exact (ok_cmp L OK c HC a b Ha Hb). Qed.

  Lemma cmp_flip a b : wf L a -> wf L b -> c b a = CompOpp (c a b).
  Proof.
    intros Ha Hb. pose proof (ok_pcmp_flip L OK a b Ha Hb) as F.
    rewrite (cmp_pcmp a b Ha Hb), (cmp_pcmp b a Hb Ha) in F. cbn in F. injection F as F. exact F.
  Qed.

  Lemma cmp_eq a b : wf L a -> wf L b -> (c a b = Eq <-> a = b).
  Proof.
    intros Ha Hb. rewrite <- (ok_pcmp_eq L OK a b Ha Hb), (cmp_pcmp a b Ha Hb). split; [intros ->; reflexivity | intros E; injection E as E; exact E].
  Qed.

  Lemma cmp_le a b : wf L a -> wf L b -> (le L a b <-> c a b <> Gt).
  Proof.
    intros Ha Hb. rewrite le_cases, (cmp_pcmp a b Ha Hb). destruct (c a b); split; intros H; auto; try discriminate.
    - destruct H; discriminate.
    - contradiction.
  Qed.

  Lemma total a b : wf L a -> wf L b -> le L a b \/ le L b a.
  Proof.
    intros Ha Hb. destruct (c a b) eqn:E.
    - left. apply cmp_le; auto. rewrite E. discriminate.
    - left. apply cmp_le; auto. rewrite E. discriminate.
    - right. apply cmp_le; auto. rewrite (cmp_flip a b Ha Hb), E. discriminate.
  Qed.

  Lemma join_of_le a b : wf L a -> wf L b -> le L a b -> jv L a b = b /\ mv L a b = a.
  Proof. intros Ha Hb H. split; [apply (le_iff_join L OK); auto | apply (le_iff_meet L OK); auto]. Qed.
  Lemma join_of_ge a b : wf L a -> wf L b -> le L b a -> jv L a b = a /\ mv L a b = b.
  Proof.
    intros Ha Hb H. destruct (join_of_le b a Hb Ha H) as [J M]. rewrite (j_comm L OK a b Ha Hb), (m_comm L OK a b Ha Hb). auto.
  Qed.

  Theorem sort2_meet_join a b : wf L a -> wf L b -> sort2 c a b = (mv L a b, jv L a b).
  Proof.
    intros Ha Hb. unfold sort2. destruct (c a b) eqn:E.
    - apply cmp_eq in E; auto. subst b. rewrite (j_idem L OK a Ha), (m_idem L OK a Ha). reflexivity.
    - assert (H : le L a b) by (apply cmp_le; auto; rewrite E; discriminate).
      destruct (join_of_le a b Ha Hb H) as [J M]. rewrite J, M. reflexivity.
    - assert (H : le L b a) by (apply cmp_le; auto; rewrite (cmp_flip a b Ha Hb), E; discriminate).
      destruct (join_of_ge a b Ha Hb H) as [J M]. rewrite J, M. reflexivity.
  Qed.

  Theorem bts2_meet_join a b : wf L a -> wf L b -> bts2 c a b = if eqb L a b then [a] else [mv L a b; jv L a b].
  Proof.
    intros Ha Hb. unfold bts2. rewrite (cmp_flip a b Ha Hb). destruct (c a b) eqn:E; cbn.
    - apply cmp_eq in E; auto. subst b. rewrite (eqb_refl L OK). reflexivity.
    - assert (N : a <> b) by (intros X; apply cmp_eq in X; auto; rewrite X in E; discriminate).
      rewrite (eqb_neq L OK a b N).
      assert (H : le L a b) by (apply cmp_le; auto; rewrite E; discriminate).
      destruct (join_of_le a b Ha Hb H) as [J M]. rewrite J, M. reflexivity.
    - assert (N : a <> b) by (intros X; apply cmp_eq in X; auto; rewrite X in E; discriminate).
      rewrite (eqb_neq L OK a b N).
      assert (H : le L b a) by (apply cmp_le; auto; rewrite (cmp_flip a b Ha Hb), E; discriminate).
      destruct (join_of_ge a b Ha Hb H) as [J M]. rewrite J, M. reflexivity.
  Qed.

  (* Ord::max(a, b) = if b < a { a } else { b }, Ord::min(a, b) = if b < a { b } else { a } *)
  Theorem ord_max_min a b : wf L a -> wf L b -> ord_max L a b = jv L a b /\ ord_min L a b = mv L a b.
  Proof.
    intros Ha Hb. unfold ord_max, ord_min, plt. rewrite (cmp_pcmp b a Hb Ha), (cmp_flip a b Ha Hb). destruct (c a b) eqn:E; cbn.
    - apply cmp_eq in E; auto. subst b. rewrite (j_idem L OK a Ha), (m_idem L OK a Ha). auto.
    - assert (H : le L a b) by (apply cmp_le; auto; rewrite E; discriminate).
      destruct (join_of_le a b Ha Hb H) as [J M]. rewrite J, M. auto.
    - assert (H : le L b a) by (apply cmp_le; auto; rewrite (cmp_flip a b Ha Hb), E; discriminate).
      destruct (join_of_ge a b Ha Hb H) as [J M]. rewrite J, M. auto.
  Qed.
End OrdOps.

Theorem ord_consumers : forall t, wf_lty t = true -> forall c, ocmp (denote t) = Some c ->
  forall a b, wf (denote t) a -> wf (denote t) b ->
    c b a = CompOpp (c a b) /\ (c a b = Eq <-> a = b) /\ (le (denote t) a b \/ le (denote t) b a) /\
    sort2 c a b = (mv (denote t) a b, jv (denote t) a b) /\
    bts2 c a b = (if eqb (denote t) a b then [a] else [mv (denote t) a b; jv (denote t) a b]) /\
    ord_max (denote t) a b = jv (denote t) a b /\ ord_min (denote t) a b = mv (denote t) a b.
Proof.
  intros t H c HC a b Ha Hb. pose proof (denote_ok t H) as OK.
  split; [exact (cmp_flip _ OK c HC a b Ha Hb)|].
  split; [exact (cmp_eq _ OK c HC a b Ha Hb)|].
  split; [exact (total _ OK c HC a b Ha Hb)|].
  split; [exact (sort2_meet_join _ OK c HC a b Ha Hb)|].
  split; [exact (bts2_meet_join _ OK c HC a b Ha Hb)|].
  exact (ord_max_min _ OK c HC a b Ha Hb).
Qed.
