(* C16: component lists — Product<(T0, .., Tn)> (product order) and (T0, .., Tn) (lexicographic order). *)
From Coq Require Import List ZArith Bool Lia.
From AV Require Import Lattice.LatModel.
From AV Require Import Lattice.LatLaws.
From AV Require Import Lattice.LatTotal.
From AV Require Import Lattice.LatWrap.
Import ListNotations.
Open Scope Z_scope.

(* combine_orderings, totalised: the comparison outcomes form a meet-semilattice
   (Some Eq = "<= and >=", Some Lt = "<= only", Some Gt = ">= only", None = "neither") *)
Definition cand (x y : option comparison) : option comparison :=
  match x, y with Some a, Some b => combine_orderings a b | _, _ => None end.

Lemma ople_cand x y : ople (cand x y) = ople x && ople y.
Proof. destruct x as [[]|], y as [[]|]; reflexivity. Qed.
Lemma cand_eq x y : cand x y = Some Eq <-> x = Some Eq /\ y = Some Eq.
Proof.
  destruct x as [[]|], y as [[]|]; cbn;
    (split; [intros H; try discriminate H; split; reflexivity | intros [H1 H2]; try discriminate H1; try discriminate H2; reflexivity]).
Qed.
Lemma cand_opp x y : option_map CompOpp (cand x y) = cand (option_map CompOpp x) (option_map CompOpp y).
Proof. destruct x as [[]|], y as [[]|]; reflexivity. Qed.
Lemma cand_comm x y : cand x y = cand y x.
Proof. destruct x as [[]|], y as [[]|]; reflexivity. Qed.
Lemma cand_assoc x y z : cand (cand x y) z = cand x (cand y z).
Proof. destruct x as [[]|], y as [[]|], z as [[]|]; reflexivity. Qed.
Lemma cand_eq_l y : cand (Some Eq) y = y.
Proof. destruct y as [[]|]; reflexivity. Qed.
Lemma combine_eq_r o : combine_orderings o Eq = Some o.
Proof. destruct o; reflexivity. Qed.

Arguments cand x y : simpl never.

Definition PairLat (L P : LatImpl) : LatImpl := {|
  carrier := carrier L * carrier P;
  wfb a := wfb L (fst a) && wfb P (snd a);
  eqb a b := eqb L (fst a) (fst b) && eqb P (snd a) (snd b);
  pcmp a b := cand (pcmp L (fst a) (fst b)) (pcmp P (snd a) (snd b));
  ocmp := None;
  jm a b := ((fst (jm L (fst a) (fst b)), fst (jm P (snd a) (snd b))), snd (jm L (fst a) (fst b)) || snd (jm P (snd a) (snd b)));
  mm a b := ((fst (mm L (fst a) (fst b)), fst (mm P (snd a) (snd b))), snd (mm L (fst a) (fst b)) || snd (mm P (snd a) (snd b)));
  jv a b := (jv L (fst a) (fst b), jv P (snd a) (snd b));
  mv a b := (mv L (fst a) (fst b), mv P (snd a) (snd b));
  bnd := match bnd L, bnd P with Some (b, t), Some (bs, ts) => Some ((b, bs), (t, ts)) | _, _ => None end
|}.

Section PairOK.
  Variables L P : LatImpl.
  Hypothesis OKL : LatOK L.
  Hypothesis OKP : LatOK P.
  Notation Q := (PairLat L P).

  Lemma pair_wf a : wf Q a <-> wf L (fst a) /\ wf P (snd a).
  Proof. unfold wf; cbn. apply andb_true_iff. Qed.
  Lemma pair_le a b : le Q a b <-> le L (fst a) (fst b) /\ le P (snd a) (snd b).
  Proof.
    unfold le. change (ple Q a b) with (ople (cand (pcmp L (fst a) (fst b)) (pcmp P (snd a) (snd b)))).
    rewrite ople_cand. apply andb_true_iff.
  Qed.

  Lemma PairLat_ok : LatOK Q.
  Proof.
    constructor.
    - intros [a1 a2] [b1 b2]; cbn. rewrite andb_true_iff, (ok_eqb L OKL), (ok_eqb P OKP). split.
      + intros [-> ->]; reflexivity.
      + intros X; injection X as -> ->; auto.
    - intros [a1 a2] [b1 b2] Ha Hb. apply pair_wf in Ha, Hb. cbn in *. destruct Ha, Hb.
      rewrite cand_eq, (ok_pcmp_eq L OKL), (ok_pcmp_eq P OKP) by auto. split.
      + intros [-> ->]; reflexivity.
      + intros X; injection X as -> ->; auto.
    - intros [a1 a2] [b1 b2] Ha Hb. apply pair_wf in Ha, Hb. cbn in *. destruct Ha, Hb.
      rewrite cand_opp, <- (ok_pcmp_flip L OKL), <- (ok_pcmp_flip P OKP) by auto. reflexivity.
    - intros a b c Ha Hb Hc. apply pair_wf in Ha, Hb, Hc. rewrite !pair_le. intros [H1 H2] [H3 H4].
      destruct Ha, Hb, Hc. split; [apply (ok_trans L OKL) with (b := fst b) | apply (ok_trans P OKP) with (b := snd b)]; auto.
    - intros a b Ha Hb. apply pair_wf in Ha, Hb. apply pair_wf. destruct Ha, Hb. cbn.
      split; [apply (ok_j_wf L OKL) | apply (ok_j_wf P OKP)]; auto.
    - intros a b Ha Hb. apply pair_wf in Ha, Hb. apply pair_wf. destruct Ha, Hb. cbn.
      split; [apply (ok_m_wf L OKL) | apply (ok_m_wf P OKP)]; auto.
    - intros a b Ha Hb. apply pair_wf in Ha, Hb. apply pair_le. destruct Ha, Hb. cbn.
      split; [apply (ok_j_ub_l L OKL) | apply (ok_j_ub_l P OKP)]; auto.
    - intros a b Ha Hb. apply pair_wf in Ha, Hb. apply pair_le. destruct Ha, Hb. cbn.
      split; [apply (ok_j_ub_r L OKL) | apply (ok_j_ub_r P OKP)]; auto.
    - intros a b c Ha Hb Hc. apply pair_wf in Ha, Hb, Hc. rewrite !pair_le. intros [H1 H2] [H3 H4].
      destruct Ha, Hb, Hc. cbn. split; [apply (ok_j_least L OKL) | apply (ok_j_least P OKP)]; auto.
    - intros a b Ha Hb. apply pair_wf in Ha, Hb. apply pair_le. destruct Ha, Hb. cbn.
      split; [apply (ok_m_lb_l L OKL) | apply (ok_m_lb_l P OKP)]; auto.
    - intros a b Ha Hb. apply pair_wf in Ha, Hb. apply pair_le. destruct Ha, Hb. cbn.
      split; [apply (ok_m_lb_r L OKL) | apply (ok_m_lb_r P OKP)]; auto.
    - intros a b c Ha Hb Hc. apply pair_wf in Ha, Hb, Hc. rewrite !pair_le. intros [H1 H2] [H3 H4].
      destruct Ha, Hb, Hc. cbn. split; [apply (ok_m_greatest L OKL) | apply (ok_m_greatest P OKP)]; auto.
    - intros a b Ha Hb. apply pair_wf in Ha, Hb. destruct Ha, Hb. cbn.
      rewrite (ok_jm L OKL), (ok_jm P OKP) by auto. cbn. rewrite negb_andb. reflexivity.
    - intros a b Ha Hb. apply pair_wf in Ha, Hb. destruct Ha, Hb. cbn.
      rewrite (ok_mm L OKL), (ok_mm P OKP) by auto. cbn. rewrite negb_andb. reflexivity.
    - intros bo tp E. cbn in E. destruct (bnd L) as [[b t]|] eqn:E1; [|discriminate].
      destruct (bnd P) as [[bs ts]|] eqn:E2; [|discriminate]. injection E as <- <-.
      destruct (ok_bnd L OKL b t E1) as [W1 [W2 H1]]. destruct (ok_bnd P OKP bs ts E2) as [W3 [W4 H2]].
      split; [apply pair_wf; auto|]. split; [apply pair_wf; auto|].
      intros a Ha. apply pair_wf in Ha. destruct Ha as [Ha1 Ha2]. rewrite !pair_le. cbn.
      destruct (H1 _ Ha1), (H2 _ Ha2). auto.
    - discriminate.
  Qed.
End PairOK.

(* ---------------------------------------------------------------- component lists *)
Definition cwf (C : CList) (a : ccar C) : Prop := cwfb C a = true.

Lemma TotalOrd_impl {T} (W W' : T -> Prop) c : (forall a, W' a -> W a) -> TotalOrd W c -> TotalOrd W' c.
Proof.
  intros I TO. constructor.
  - intros a b Ha Hb. apply (to_eq _ _ TO); auto.
  - intros a b Ha Hb. apply (to_flip _ _ TO); auto.
  - intros a b d Ha Hb Hd. apply (to_lt_trans _ _ TO); auto.
Qed.

Record CListOK (C : CList) : Prop := mkCLOK {
  cl_prod : LatOK (ProdLat C);
  cl_acc_pcmp : forall res a b, cprod_pcmp C res a b = cand (Some res) (cprod_pcmp C Eq a b);
  cl_acc_jm : forall ch a b, cprod_jm C ch a b = (fst (cprod_jm C false a b), ch || snd (cprod_jm C false a b));
  cl_acc_mm : forall ch a b, cprod_mm C ch a b = (fst (cprod_mm C false a b), ch || snd (cprod_mm C false a b));
  cl_lex : chas_ord C = true ->
           TotalOrd (cwf C) (clex_cmp_of C) /\
           (forall a b, cwf C a -> cwf C b -> clex_pcmp C a b = Some (clex_cmp_of C a b)) /\
           (forall bo tp, cbnd C = Some (bo, tp) -> forall a, cwf C a -> clex_cmp_of C bo a <> Gt /\ clex_cmp_of C a tp <> Gt)
}.

Lemma le_cmp_of L : LatOK L -> has_ord L = true -> forall a b, wf L a -> wf L b -> (le L a b <-> cmp_of L a b <> Gt).
Proof.
  intros OK HO a b Ha Hb. destruct (ok_cmp_of L OK HO) as [_ P]. unfold le, ple. rewrite P by auto.
  destruct (cmp_of L a b); split; congruence.
Qed.

Lemma COne_ok L : LatOK L -> CListOK (COne L).
Proof.
  intros OK. constructor.
  - unfold ProdLat; cbn. apply LatOK_ext; auto.
    + intros a b _ _. destruct (pcmp L a b) as [o|]; [|reflexivity]. rewrite combine_eq_r. reflexivity.
    + intros a b _ _. destruct (jm L a b). reflexivity.
    + intros a b _ _. destruct (mm L a b). reflexivity.
  - intros res a b. cbn. destruct (pcmp L a b) as [o|]; [|reflexivity].
    rewrite combine_eq_r. cbn. destruct o, res; reflexivity.
  - intros ch a b. cbn. destruct (jm L a b). reflexivity.
  - intros ch a b. cbn. destruct (mm L a b). reflexivity.
  - intros HO. change (chas_ord (COne L)) with (has_ord L) in HO.
    change (clex_cmp_of (COne L)) with (cmp_of L). change (cwf (COne L)) with (wf L).
    destruct (ok_cmp_of L OK HO) as [TO P]. split; [exact TO|]. split; [exact P|].
    intros bo tp E a Ha. cbn in E. destruct (ok_bnd L OK bo tp E) as [W1 [W2 H]]. destruct (H a Ha) as [H1 H2].
    split; apply (le_cmp_of L OK HO); auto.
Qed.

Lemma chas_ord_cons L C : chas_ord (CCons L C) = true -> has_ord L = true /\ chas_ord C = true.
Proof.
  unfold chas_ord, has_ord; cbn. destruct (ocmp L); [|discriminate]. destruct (clex_cmp C); [auto|discriminate].
Qed.
Lemma clex_cmp_of_cons L C : chas_ord (CCons L C) = true ->
  clex_cmp_of (CCons L C) = lex_cmp (cmp_of L) (clex_cmp_of C).
Proof.
  unfold chas_ord, clex_cmp_of, cmp_of; cbn. destruct (ocmp L); [|discriminate]. destruct (clex_cmp C); [|discriminate].
  reflexivity.
Qed.

Lemma CCons_ok L C : LatOK L -> CListOK C -> CListOK (CCons L C).
Proof.
  intros OK CK. assert (OKP := cl_prod C CK).
  assert (ACC : forall res a b, cprod_pcmp (CCons L C) res a b =
                 cand (Some res) (cand (pcmp L (fst a) (fst b)) (cprod_pcmp C Eq (snd a) (snd b)))).
  { intros res a b. cbn. destruct (pcmp L (fst a) (fst b)) as [o|]; [|destruct res; reflexivity].
    rewrite <- cand_assoc. change (cand (Some res) (Some o)) with (combine_orderings res o).
    replace (combine_orderings o res) with (combine_orderings res o) by (destruct o, res; reflexivity).
    destruct (combine_orderings res o) as [r|]; [|reflexivity]. apply (cl_acc_pcmp C CK). }
  constructor.
  - unfold ProdLat. apply (LatOK_ext (PairLat L (ProdLat C))).
    + apply PairLat_ok; auto.
    + intros a b _ _. rewrite ACC. apply cand_eq_l.
    + left; reflexivity.
    + intros [a1 a2] [b1 b2] _ _. cbn. destruct (jm L a1 b1) as [v f]. rewrite (cl_acc_jm C CK f). reflexivity.
    + intros [a1 a2] [b1 b2] _ _. cbn. destruct (mm L a1 b1) as [v f]. rewrite (cl_acc_mm C CK f). reflexivity.
    + reflexivity.
    + reflexivity.
    + right; reflexivity.
  - intros res a b. rewrite !ACC. rewrite (cand_eq_l (cand _ _)). reflexivity.
  - intros ch a b. cbn. destruct (jm L (fst a) (fst b)) as [v f].
    rewrite (cl_acc_jm C CK (ch || f)), (cl_acc_jm C CK f). cbn. rewrite orb_assoc. reflexivity.
  - intros ch a b. cbn. destruct (mm L (fst a) (fst b)) as [v f].
    rewrite (cl_acc_mm C CK (ch || f)), (cl_acc_mm C CK f). cbn. rewrite orb_assoc. reflexivity.
  - intros HO. rewrite (clex_cmp_of_cons L C HO). destruct (chas_ord_cons L C HO) as [HL HC].
    destruct (ok_cmp_of L OK HL) as [TL PL]. destruct (cl_lex C CK HC) as [TC [PC BC]].
    assert (WF : forall a, cwf (CCons L C) a <-> wf L (fst a) /\ cwf C (snd a)).
    { intros a. unfold cwf, wf; cbn. apply andb_true_iff. }
    split; [|split].
    + eapply TotalOrd_impl; [|apply (lex_total _ _ _ _ TL TC)]. intros a Ha. apply WF; exact Ha.
    + intros a b Ha Hb. apply WF in Ha, Hb. destruct Ha, Hb. cbn. unfold lex_cmp.
      rewrite PL by auto. destruct (cmp_of L (fst a) (fst b)); try reflexivity. apply PC; auto.
    + intros bo tp E a Ha. apply WF in Ha. destruct Ha as [Ha1 Ha2]. cbn in E.
      destruct (bnd L) as [[b t]|] eqn:E1; [|discriminate]. destruct (cbnd C) as [[bs ts]|] eqn:E2; [|discriminate].
      injection E as <- <-. destruct (ok_bnd L OK b t E1) as [W1 [W2 H1]]. destruct (H1 _ Ha1) as [H1a H1b].
      apply (le_cmp_of L OK HL) in H1a, H1b; auto. destruct (BC bs ts eq_refl _ Ha2) as [H2a H2b].
      unfold lex_cmp; cbn. split.
      * destruct (cmp_of L b (fst a)); auto; congruence.
      * destruct (cmp_of L (fst a) t); auto; congruence.
Qed.

(* ---------------------------------------------------------------- Product<(..)> and tuples *)
Lemma ProdLat_ok C : CListOK C -> LatOK (ProdLat C).
Proof. apply cl_prod. Qed.

Lemma TupleLat_ok C : CListOK C -> chas_ord C = true -> LatOK (TupleLat C).
Proof.
  intros CK HO. destruct (cl_lex C CK HO) as [TO [PC BC]]. assert (OKP := cl_prod C CK).
  assert (PL : forall a b, cwf C a -> cwf C b -> clex_lt C a b = match clex_cmp_of C a b with Lt => true | _ => false end).
  { intros a b Ha Hb. unfold clex_lt. rewrite PC by auto. reflexivity. }
  apply (total_ok (TupleLat C) (clex_cmp_of C)); cbn; change (wf (TupleLat C)) with (cwf C).
  - apply (ok_eqb _ OKP).
  - exact TO.
  - exact PC.
  - intros c' E a b Ha Hb. unfold clex_cmp_of. rewrite E. reflexivity.
  - intros a b Ha Hb. unfold tmax. rewrite PL by auto. rewrite (to_flip _ _ TO a b) by auto.
    destruct (clex_cmp_of C a b) eqn:E; cbn; try reflexivity. apply (to_eq _ _ TO) in E; auto.
  - intros a b Ha Hb. unfold tmin. rewrite PL by auto. rewrite (to_flip _ _ TO a b) by auto.
    destruct (clex_cmp_of C a b) eqn:E; cbn; reflexivity.
  - intros a b Ha Hb. destruct (clex_cmp_of C a b); reflexivity.
  - intros a b Ha Hb. destruct (clex_cmp_of C a b); reflexivity.
  - intros bo tp E. destruct (ok_bnd _ OKP bo tp E) as [W1 [W2 _]]. split; [exact W1|]. split; [exact W2|].
    apply BC; auto.
Qed.
