(* C16: Product<[T; N]>. *)
From Coq Require Import List ZArith Bool Lia.
From AV Require Import Lattice.LatModel.
From AV Require Import Lattice.LatLaws.
From AV Require Import Lattice.LatTotal.
From AV Require Import Lattice.LatWrap.
From AV Require Import Lattice.LatProd.
Import ListNotations.
Open Scope Z_scope.

Section ArrOK.
  Variable L : LatImpl.
  Hypothesis OK : LatOK L.
  Notation A n := (ProdArrLat n L).

  Lemma list_eqb_spec : forall a b, list_eqb (eqb L) a b = true <-> a = b.
  Proof.
    induction a as [|x a IHa]; intros [|y b]; cbn; try (split; congruence).
    rewrite andb_true_iff, (ok_eqb L OK), IHa. split; [intros [-> ->]; reflexivity | intros X; injection X as -> ->; auto].
  Qed.

  Lemma arr_pcmp_acc : forall a b ord, arr_pcmp L ord a b = cand (Some ord) (arr_pcmp L Eq a b).
  Proof.
    induction a as [|x a IH]; intros b ord.
    - cbn. destruct ord; reflexivity.
    - destruct b as [|y b]; [cbn; destruct ord; reflexivity|]. cbn.
      destruct (pcmp L x y) as [o|]; [|destruct ord; reflexivity].
      rewrite combine_eq_r. rewrite (IH b o). rewrite <- cand_assoc.
      change (cand (Some ord) (Some o)) with (combine_orderings ord o).
      replace (combine_orderings o ord) with (combine_orderings ord o) by (destruct o, ord; reflexivity).
      destruct (combine_orderings ord o) as [r|]; [apply IH|reflexivity].
  Qed.
  Lemma arr_pcmp_cons x a y b : arr_pcmp L Eq (x :: a) (y :: b) = cand (pcmp L x y) (arr_pcmp L Eq a b).
  Proof.
    cbn. destruct (pcmp L x y) as [o|]; [|reflexivity]. rewrite combine_eq_r. apply arr_pcmp_acc.
  Qed.

  Lemma arr_op_acc (op : carrier L -> carrier L -> carrier L * bool) : forall a b ch,
    arr_op_mut op ch a b = (fst (arr_op_mut op false a b), ch || snd (arr_op_mut op false a b)).
  Proof.
    induction a as [|x a IH]; intros b ch.
    - cbn. rewrite orb_false_r. reflexivity.
    - destruct b as [|y b]; [cbn; rewrite orb_false_r; reflexivity|]. cbn.
      destruct (op x y) as [v f]. rewrite (IH b (ch || f)), (IH b f). cbn. rewrite orb_assoc. reflexivity.
  Qed.
  Lemma arr_op_cons (op : carrier L -> carrier L -> carrier L * bool) x a y b :
    arr_op_mut op false (x :: a) (y :: b) =
    (fst (op x y) :: fst (arr_op_mut op false a b), snd (op x y) || snd (arr_op_mut op false a b)).
  Proof. cbn. destruct (op x y) as [v f]. rewrite (arr_op_acc op a b f). reflexivity. Qed.

  Lemma arr_wf_cons n x a : wf (A (S n)) (x :: a) <-> wf L x /\ wf (A n) a.
  Proof.
    unfold wf; cbn. rewrite !andb_true_iff. tauto.
  Qed.
  Lemma arr_wf_inv n a : wf (A (S n)) a -> exists x a', a = x :: a' /\ wf L x /\ wf (A n) a'.
  Proof.
    destruct a as [|x a']; [unfold wf; cbn; discriminate|]. intros H. apply arr_wf_cons in H. eauto.
  Qed.
  Lemma arr_wf_0 a : wf (A 0%nat) a -> a = [].
  Proof. destruct a; [reflexivity|unfold wf; cbn; discriminate]. Qed.
  Lemma arr_le_cons n m x a y b : le (A n) (x :: a) (y :: b) <-> le L x y /\ le (A m) a b.
  Proof.
    unfold le. change (ple (A n) (x :: a) (y :: b)) with (ople (arr_pcmp L Eq (x :: a) (y :: b))).
    rewrite arr_pcmp_cons, ople_cand. apply andb_true_iff.
  Qed.
  Lemma arr_jv_cons n m x a y b : wf L x -> wf L y ->
    jv (A n) (x :: a) (y :: b) = jv L x y :: jv (A m) a b.
  Proof.
    intros Hx Hy. cbn. unfold dflt. rewrite arr_op_cons. cbn [fst]. rewrite (ok_jm L OK) by auto. reflexivity.
  Qed.
  Lemma arr_mv_cons n m x a y b : wf L x -> wf L y ->
    mv (A n) (x :: a) (y :: b) = mv L x y :: mv (A m) a b.
  Proof.
    intros Hx Hy. cbn. unfold dflt. rewrite arr_op_cons. cbn [fst]. rewrite (ok_mm L OK) by auto. reflexivity.
  Qed.

  Ltac inv_wf :=
    repeat match goal with
    | H : wf (A (S _)) _ |- _ => let x := fresh "x" in let a := fresh "a" in let E := fresh "E" in
        let W1 := fresh "Wx" in let W2 := fresh "Wa" in
        destruct (arr_wf_inv _ _ H) as [x [a [E [W1 W2]]]]; subst; clear H
    | H : wf (A 0%nat) _ |- _ => apply arr_wf_0 in H; subst
    end.

  Lemma ProdArrLat_ok : forall n, LatOK (A n).
  Proof.
    induction n as [|n IH].
    - constructor; intros; inv_wf; try reflexivity.
      + apply list_eqb_spec.
      + split; reflexivity.
      + cbn in H. destruct (bnd L) as [[b t]|]; [|discriminate]. injection H as <- <-.
        split; [reflexivity|]. split; [reflexivity|]. intros a Ha. inv_wf. split; reflexivity.
      + discriminate H.
    - constructor.
      + apply list_eqb_spec.
      + intros a b Ha Hb. inv_wf. cbn [pcmp ProdArrLat]. rewrite arr_pcmp_cons, cand_eq.
        rewrite (ok_pcmp_eq L OK) by auto. repeat match goal with |- context [arr_pcmp L Eq ?u ?v] => change (arr_pcmp L Eq u v) with (pcmp (A n) u v) end.
        rewrite (ok_pcmp_eq _ IH) by auto. split; [intros [-> ->]; reflexivity | intros X; injection X as -> ->; auto].
      + intros a b Ha Hb. inv_wf. cbn [pcmp ProdArrLat]. rewrite !arr_pcmp_cons, cand_opp.
        rewrite <- (ok_pcmp_flip L OK) by auto. repeat match goal with |- context [arr_pcmp L Eq ?u ?v] => change (arr_pcmp L Eq u v) with (pcmp (A n) u v) end.
        rewrite <- (ok_pcmp_flip _ IH) by auto. reflexivity.
      + intros a b c Ha Hb Hc. inv_wf. rewrite !(arr_le_cons (S n) n). intros [H1 H2] [H3 H4].
        split; [eapply (ok_trans L OK) | eapply (ok_trans _ IH)]; [| | | eassumption | eassumption | | | | eassumption | eassumption]; auto.
      + intros a b Ha Hb. inv_wf. rewrite (arr_jv_cons (S n) n) by auto. apply arr_wf_cons.
        split; [apply (ok_j_wf L OK) | apply (ok_j_wf _ IH)]; auto.
      + intros a b Ha Hb. inv_wf. rewrite (arr_mv_cons (S n) n) by auto. apply arr_wf_cons.
        split; [apply (ok_m_wf L OK) | apply (ok_m_wf _ IH)]; auto.
      + intros a b Ha Hb. inv_wf. rewrite (arr_jv_cons (S n) n) by auto. apply (arr_le_cons (S n) n).
        split; [apply (ok_j_ub_l L OK) | apply (ok_j_ub_l _ IH)]; auto.
      + intros a b Ha Hb. inv_wf. rewrite (arr_jv_cons (S n) n) by auto. apply (arr_le_cons (S n) n).
        split; [apply (ok_j_ub_r L OK) | apply (ok_j_ub_r _ IH)]; auto.
      + intros a b c Ha Hb Hc. inv_wf. rewrite (arr_jv_cons (S n) n) by auto. rewrite !(arr_le_cons (S n) n).
        intros [H1 H2] [H3 H4]. split; [apply (ok_j_least L OK) | apply (ok_j_least _ IH)]; auto.
      + intros a b Ha Hb. inv_wf. rewrite (arr_mv_cons (S n) n) by auto. apply (arr_le_cons (S n) n).
        split; [apply (ok_m_lb_l L OK) | apply (ok_m_lb_l _ IH)]; auto.
      + intros a b Ha Hb. inv_wf. rewrite (arr_mv_cons (S n) n) by auto. apply (arr_le_cons (S n) n).
        split; [apply (ok_m_lb_r L OK) | apply (ok_m_lb_r _ IH)]; auto.
      + intros a b c Ha Hb Hc. inv_wf. rewrite (arr_mv_cons (S n) n) by auto. rewrite !(arr_le_cons (S n) n).
        intros [H1 H2] [H3 H4]. split; [apply (ok_m_greatest L OK) | apply (ok_m_greatest _ IH)]; auto.
      + intros a b Ha Hb. inv_wf. rewrite (arr_jv_cons (S n) n) by auto. cbn [jm ProdArrLat]. rewrite arr_op_cons.
        rewrite (ok_jm L OK) by auto. match goal with |- context [arr_op_mut (jm L) false ?u ?v] => change (arr_op_mut (jm L) false u v) with (jm (A n) u v) end.
        rewrite (ok_jm _ IH) by auto. cbn. rewrite negb_andb. reflexivity.
      + intros a b Ha Hb. inv_wf. rewrite (arr_mv_cons (S n) n) by auto. cbn [mm ProdArrLat]. rewrite arr_op_cons.
        rewrite (ok_mm L OK) by auto. match goal with |- context [arr_op_mut (mm L) false ?u ?v] => change (arr_op_mut (mm L) false u v) with (mm (A n) u v) end.
        rewrite (ok_mm _ IH) by auto. cbn. rewrite negb_andb. reflexivity.
      + intros bo tp E. cbn in E. destruct (bnd L) as [[b t]|] eqn:EB; [|discriminate]. injection E as <- <-.
        destruct (ok_bnd L OK b t EB) as [Wb [Wt H]].
        assert (EN : bnd (A n) = Some (repeat b n, repeat t n)) by (cbn; rewrite EB; reflexivity).
        destruct (ok_bnd _ IH _ _ EN) as [Wbs [Wts Hs]].
        split; [apply arr_wf_cons; auto|]. split; [apply arr_wf_cons; auto|].
        intros a Ha. inv_wf. rewrite !(arr_le_cons (S n) n). destruct (H _ Wx), (Hs _ Wa). auto.
      + discriminate.
  Qed.
End ArrOK.
