(* C16: the per-type obligation LatOK and the lattice laws derived from it once. *)
From Coq Require Import List ZArith Bool Lia.
From AV Require Import Lattice.LatModel.
Import ListNotations.
Open Scope Z_scope.

Definition wf (L : LatImpl) (a : carrier L) : Prop := wfb L a = true.
(* Rust's a <= b : matches!(a.partial_cmp(&b), Some(Less | Equal)) *)
Definition le (L : LatImpl) (a b : carrier L) : Prop := ple L a b = true.

Record LatOK (L : LatImpl) : Prop := mkOK {
  ok_eqb : forall a b, eqb L a b = true <-> a = b;
  ok_pcmp_eq : forall a b, wf L a -> wf L b -> (pcmp L a b = Some Eq <-> a = b);
  ok_pcmp_flip : forall a b, wf L a -> wf L b -> pcmp L b a = option_map CompOpp (pcmp L a b);
  ok_trans : forall a b c, wf L a -> wf L b -> wf L c -> le L a b -> le L b c -> le L a c;
  ok_j_wf : forall a b, wf L a -> wf L b -> wf L (jv L a b);
  ok_m_wf : forall a b, wf L a -> wf L b -> wf L (mv L a b);
  ok_j_ub_l : forall a b, wf L a -> wf L b -> le L a (jv L a b);
  ok_j_ub_r : forall a b, wf L a -> wf L b -> le L b (jv L a b);
  ok_j_least : forall a b c, wf L a -> wf L b -> wf L c -> le L a c -> le L b c -> le L (jv L a b) c;
  ok_m_lb_l : forall a b, wf L a -> wf L b -> le L (mv L a b) a;
  ok_m_lb_r : forall a b, wf L a -> wf L b -> le L (mv L a b) b;
  ok_m_greatest : forall a b c, wf L a -> wf L b -> wf L c -> le L c a -> le L c b -> le L c (mv L a b);
  ok_jm : forall a b, wf L a -> wf L b -> jm L a b = (jv L a b, negb (eqb L (jv L a b) a));
  ok_mm : forall a b, wf L a -> wf L b -> mm L a b = (mv L a b, negb (eqb L (mv L a b) a));
  ok_bnd : forall bo tp, bnd L = Some (bo, tp) -> wf L bo /\ wf L tp /\ forall a, wf L a -> le L bo a /\ le L a tp;
  ok_cmp : forall c, ocmp L = Some c -> forall a b, wf L a -> wf L b -> pcmp L a b = Some (c a b)
}.

Lemma le_cases L a b : le L a b <-> pcmp L a b = Some Lt \/ pcmp L a b = Some Eq.
Proof.
  unfold le, ple. destruct (pcmp L a b) as [[]|]; split; intros H; auto; try discriminate; destruct H; discriminate.
Qed.

Lemma eqb_refl L : LatOK L -> forall a, eqb L a a = true.
Proof. intros OK a. apply (ok_eqb L OK). reflexivity. Qed.
Lemma eqb_neq L : LatOK L -> forall a b, a <> b -> eqb L a b = false.
Proof. intros OK a b N. destruct (eqb L a b) eqn:E; auto. apply (ok_eqb L OK) in E. contradiction. Qed.

Section Derived.
  Variable L : LatImpl.
  Hypothesis OK : LatOK L.
  Notation "a <=L b" := (le L a b) (at level 70).
  Notation J := (jv L).
  Notation M := (mv L).
  Notation W := (wf L).

  Lemma le_refl a : W a -> a <=L a.
  Proof. intros Ha. apply le_cases. right. apply (ok_pcmp_eq L OK); auto. Qed.

  Lemma le_antisym a b : W a -> W b -> a <=L b -> b <=L a -> a = b.
  Proof.
    intros Ha Hb H1 H2. apply le_cases in H1. apply le_cases in H2.
    destruct H1 as [H1|H1].
    - rewrite (ok_pcmp_flip L OK a b Ha Hb), H1 in H2. cbn in H2. destruct H2; discriminate.
    - apply (ok_pcmp_eq L OK); auto.
  Qed.

  Lemma le_of_eq a b : W a -> a = b -> a <=L b.
  Proof. intros Ha <-. apply le_refl; auto. Qed.

  (* partial_cmp is determined by <= *)
  Lemma pcmp_lt_iff a b : W a -> W b -> (pcmp L a b = Some Lt <-> a <=L b /\ a <> b).
  Proof.
    intros Ha Hb. split.
    - intros H. split. { apply le_cases; auto. }
      intros E. apply (ok_pcmp_eq L OK a b Ha Hb) in E. congruence.
    - intros [H N]. apply le_cases in H. destruct H as [H|H]; auto.
      apply (ok_pcmp_eq L OK a b Ha Hb) in H. contradiction.
  Qed.
  Lemma pcmp_gt_iff a b : W a -> W b -> (pcmp L a b = Some Gt <-> b <=L a /\ a <> b).
  Proof.
    intros Ha Hb. assert (F := ok_pcmp_flip L OK b a Hb Ha). split.
    - intros H. rewrite H in F. destruct (pcmp_lt_iff b a Hb Ha) as [X _].
      destruct (pcmp L b a) as [[]|] eqn:E; try discriminate. destruct (X eq_refl). split; auto.
    - intros [H N]. destruct (pcmp_lt_iff b a Hb Ha) as [_ X]. rewrite X in F by (split; auto). exact F.
  Qed.
  Lemma pcmp_none_iff a b : W a -> W b -> (pcmp L a b = None <-> ~ a <=L b /\ ~ b <=L a).
  Proof.
    intros Ha Hb. rewrite !le_cases, (ok_pcmp_flip L OK a b Ha Hb).
    destruct (pcmp L a b) as [[]|]; cbn; split; intros H; try discriminate; try reflexivity.
    all: try (exfalso; first [apply (proj1 H); auto; fail | apply (proj2 H); auto; fail]).
    split; intros [X|X]; discriminate.
  Qed.

  (* ---- join ---- *)
  Lemma j_idem a : W a -> J a a = a.
  Proof.
    intros Ha. apply le_antisym; auto using (ok_j_wf L OK).
    - apply (ok_j_least L OK); auto using le_refl.
    - apply (ok_j_ub_l L OK); auto.
  Qed.
  Lemma j_comm a b : W a -> W b -> J a b = J b a.
  Proof.
    intros Ha Hb. apply le_antisym; auto using (ok_j_wf L OK);
    apply (ok_j_least L OK); auto using (ok_j_wf L OK), (ok_j_ub_l L OK), (ok_j_ub_r L OK).
  Qed.
  Lemma j_assoc a b c : W a -> W b -> W c -> J (J a b) c = J a (J b c).
  Proof.
    intros Ha Hb Hc.
    assert (Wab := ok_j_wf L OK a b Ha Hb). assert (Wbc := ok_j_wf L OK b c Hb Hc).
    assert (W1 := ok_j_wf L OK _ c Wab Hc). assert (W2 := ok_j_wf L OK a _ Ha Wbc).
    apply le_antisym; auto.
    - apply (ok_j_least L OK); auto. apply (ok_j_least L OK); auto.
      + apply (ok_j_ub_l L OK); auto.
      + apply (ok_trans L OK) with (b := J b c); auto. apply (ok_j_ub_l L OK); auto. apply (ok_j_ub_r L OK); auto.
      + apply (ok_trans L OK) with (b := J b c); auto. apply (ok_j_ub_r L OK); auto. apply (ok_j_ub_r L OK); auto.
    - apply (ok_j_least L OK); auto. 2: apply (ok_j_least L OK); auto.
      + apply (ok_trans L OK) with (b := J a b); auto. apply (ok_j_ub_l L OK); auto. apply (ok_j_ub_l L OK); auto.
      + apply (ok_trans L OK) with (b := J a b); auto. apply (ok_j_ub_r L OK); auto. apply (ok_j_ub_l L OK); auto.
      + apply (ok_j_ub_r L OK); auto.
  Qed.
  (* ---- meet ---- *)
  Lemma m_idem a : W a -> M a a = a.
  Proof.
    intros Ha. apply le_antisym; auto using (ok_m_wf L OK).
    - apply (ok_m_lb_l L OK); auto.
    - apply (ok_m_greatest L OK); auto using le_refl.
  Qed.
  Lemma m_comm a b : W a -> W b -> M a b = M b a.
  Proof.
    intros Ha Hb. apply le_antisym; auto using (ok_m_wf L OK);
    apply (ok_m_greatest L OK); auto using (ok_m_wf L OK), (ok_m_lb_l L OK), (ok_m_lb_r L OK).
  Qed.
  Lemma m_assoc a b c : W a -> W b -> W c -> M (M a b) c = M a (M b c).
  Proof.
    intros Ha Hb Hc.
    assert (Wab := ok_m_wf L OK a b Ha Hb). assert (Wbc := ok_m_wf L OK b c Hb Hc).
    assert (W1 := ok_m_wf L OK _ c Wab Hc). assert (W2 := ok_m_wf L OK a _ Ha Wbc).
    apply le_antisym; auto.
    - apply (ok_m_greatest L OK); auto. 2: apply (ok_m_greatest L OK); auto.
      + apply (ok_trans L OK) with (b := M a b); auto. apply (ok_m_lb_l L OK); auto. apply (ok_m_lb_l L OK); auto.
      + apply (ok_trans L OK) with (b := M a b); auto. apply (ok_m_lb_l L OK); auto. apply (ok_m_lb_r L OK); auto.
      + apply (ok_m_lb_r L OK); auto.
    - apply (ok_m_greatest L OK); auto. apply (ok_m_greatest L OK); auto.
      + apply (ok_m_lb_l L OK); auto.
      + apply (ok_trans L OK) with (b := M b c); auto. apply (ok_m_lb_r L OK); auto. apply (ok_m_lb_l L OK); auto.
      + apply (ok_trans L OK) with (b := M b c); auto. apply (ok_m_lb_r L OK); auto. apply (ok_m_lb_r L OK); auto.
  Qed.
  (* ---- order agreement ---- *)
  Lemma le_iff_join a b : W a -> W b -> (a <=L b <-> J a b = b).
  Proof.
    intros Ha Hb. split.
    - intros H. apply le_antisym; auto using (ok_j_wf L OK).
      + apply (ok_j_least L OK); auto using le_refl.
      + apply (ok_j_ub_r L OK); auto.
    - intros E. rewrite <- E. apply (ok_j_ub_l L OK); auto.
  Qed.
  Lemma le_iff_meet a b : W a -> W b -> (a <=L b <-> M a b = a).
  Proof.
    intros Ha Hb. split.
    - intros H. apply le_antisym; auto using (ok_m_wf L OK).
      + apply (ok_m_lb_l L OK); auto.
      + apply (ok_m_greatest L OK); auto using le_refl.
    - intros E. rewrite <- E. apply (ok_m_lb_r L OK); auto.
  Qed.
  (* ---- absorption ---- *)
  Lemma absorb_jm a b : W a -> W b -> J a (M a b) = a.
  Proof.
    intros Ha Hb. assert (Wm := ok_m_wf L OK a b Ha Hb).
    rewrite j_comm by auto. apply le_iff_join; auto. apply (ok_m_lb_l L OK); auto.
  Qed.
  Lemma absorb_mj a b : W a -> W b -> M a (J a b) = a.
  Proof.
    intros Ha Hb. assert (Wj := ok_j_wf L OK a b Ha Hb).
    apply le_iff_meet; auto. apply (ok_j_ub_l L OK); auto.
  Qed.
  (* ---- the in-place variants ---- *)
  Lemma jm_value a b : W a -> W b -> fst (jm L a b) = J a b.
  Proof. intros Ha Hb. rewrite (ok_jm L OK) by auto. reflexivity. Qed.
  Lemma mm_value a b : W a -> W b -> fst (mm L a b) = M a b.
  Proof. intros Ha Hb. rewrite (ok_mm L OK) by auto. reflexivity. Qed.
  Lemma jm_flag a b : W a -> W b -> (snd (jm L a b) = true <-> fst (jm L a b) <> a).
  Proof.
    intros Ha Hb. rewrite (ok_jm L OK) by auto. cbn [fst snd]. rewrite negb_true_iff.
    rewrite <- (ok_eqb L OK). destruct (eqb L (J a b) a); split; congruence.
  Qed.
  Lemma mm_flag a b : W a -> W b -> (snd (mm L a b) = true <-> fst (mm L a b) <> a).
  Proof.
    intros Ha Hb. rewrite (ok_mm L OK) by auto. cbn [fst snd]. rewrite negb_true_iff.
    rewrite <- (ok_eqb L OK). destruct (eqb L (M a b) a); split; congruence.
  Qed.
  (* the flag in terms of the order: join_mut reports a change iff other is not below self *)
  Lemma jm_flag_le a b : W a -> W b -> (snd (jm L a b) = false <-> b <=L a).
  Proof.
    intros Ha Hb. rewrite (ok_jm L OK) by auto. cbn [snd]. rewrite negb_false_iff, (ok_eqb L OK).
    rewrite j_comm by auto. symmetry. apply le_iff_join; auto.
  Qed.
  Lemma mm_flag_le a b : W a -> W b -> (snd (mm L a b) = false <-> a <=L b).
  Proof.
    intros Ha Hb. rewrite (ok_mm L OK) by auto. cbn [snd]. rewrite negb_false_iff, (ok_eqb L OK).
    symmetry. apply le_iff_meet; auto.
  Qed.
  (* ---- bounds ---- *)
  Lemma bnd_laws bo tp : bnd L = Some (bo, tp) -> W bo /\ W tp /\
    forall a, W a -> bo <=L a /\ a <=L tp /\ J a tp = tp /\ M a bo = bo /\ J bo a = a /\ M tp a = a.
  Proof.
    intros E. destruct (ok_bnd L OK bo tp E) as [Wb [Wt H]]. repeat split; auto; try (apply H; auto).
    - apply le_iff_join; auto. apply H; auto.
    - rewrite m_comm by auto. apply le_iff_meet; auto. apply H; auto.
    - apply le_iff_join; auto. apply H; auto.
    - rewrite m_comm by auto. apply le_iff_meet; auto. apply H; auto.
  Qed.
End Derived.
