(* C16: every well-formed lattice type denotes a verified lattice (induction on the type syntax). *)
From Coq Require Import List ZArith Bool Lia.
From AV Require Import Lattice.LatModel.
From AV Require Import Lattice.LatLaws.
From AV Require Import Lattice.LatTotal.
From AV Require Import Lattice.LatWrap.
From AV Require Import Lattice.LatProd.
From AV Require Import Lattice.LatArr.
From AV Require Import Lattice.LatSet.
Import ListNotations.
Open Scope Z_scope.

Scheme lty_mind := Induction for lty Sort Prop
  with ltys_mind := Induction for ltys Sort Prop.

Lemma denote_ok_mutual :
  (forall t, wf_lty t = true -> LatOK (denote t)) /\ (forall ts, wf_ltys ts = true -> CListOK (denotes ts)).
Proof.
  assert (H : forall t, wf_lty t = true -> LatOK (denote t)).
  { apply (lty_mind (fun t => wf_lty t = true -> LatOK (denote t))
                    (fun ts => wf_ltys ts = true -> CListOK (denotes ts))); cbn [wf_lty wf_ltys denote denotes].
    - intros lo hi H. apply IntLat_ok. apply Z.leb_le. exact H.
    - intros _. exact BoolLat_ok.
    - intros _. exact UnitLat_ok.
    - intros t IH H. apply OptionLat_ok; auto.
    - intros t IH H. apply RcLat_ok; auto.
    - intros t IH H. apply ArcLat_ok; auto.
    - intros t IH H. apply BoxLat_ok; auto.
    - intros t IH H. apply ReverseLat_ok; auto.
    - intros t IH H. apply DualLat_ok; auto.
    - intros t IH H. apply andb_true_iff in H. destruct H as [H1 H2]. apply OrdLat_ok; auto.
    - intros ts IH H. apply andb_true_iff in H. destruct H as [H1 H2]. apply TupleLat_ok; auto.
    - intros ts IH H. apply ProdLat_ok; auto.
    - intros n t IH H. apply ProdArrLat_ok; auto.
    - intros t IH H. apply andb_true_iff in H. destruct H as [H1 H2]. apply SetLat_ok; auto.
    - intros n t IH H. apply andb_true_iff in H. destruct H as [H H3]. apply andb_true_iff in H. destruct H as [H1 H2].
      apply BSetLat_ok; auto. apply Z.leb_le. exact H3.
    - intros t IH H. apply CPLat_ok; auto.
    - intros t IH H. apply COne_ok; auto.
    - intros t IH ts IHs H. apply andb_true_iff in H. destruct H as [H1 H2]. apply CCons_ok; auto. }
  split; [exact H|].
  induction ts as [t|t ts IH]; cbn [wf_ltys denotes]; intros W.
  - apply COne_ok; auto.
  - apply andb_true_iff in W. destruct W as [W1 W2]. apply CCons_ok; auto.
Qed.

Theorem denote_ok : forall t, wf_lty t = true -> LatOK (denote t).
Proof. exact (proj1 denote_ok_mutual). Qed.

(* ------------------------------------------------------------------ the laws of the property, bundled *)
Record Laws (L : LatImpl) : Prop := mkLaws {
  (* operations stay inside the type *)
  law_closed : forall a b, wf L a -> wf L b -> wf L (jv L a b) /\ wf L (mv L a b);
  law_comm : forall a b, wf L a -> wf L b -> jv L a b = jv L b a /\ mv L a b = mv L b a;
  law_assoc : forall a b c, wf L a -> wf L b -> wf L c ->
              jv L (jv L a b) c = jv L a (jv L b c) /\ mv L (mv L a b) c = mv L a (mv L b c);
  law_idem : forall a, wf L a -> jv L a a = a /\ mv L a a = a;
  law_absorb : forall a b, wf L a -> wf L b -> jv L a (mv L a b) = a /\ mv L a (jv L a b) = a;
  (* agreement with PartialOrd: a <= b iff join(a,b) = b iff meet(a,b) = a *)
  law_order : forall a b, wf L a -> wf L b -> (le L a b <-> jv L a b = b) /\ (le L a b <-> mv L a b = a);
  (* PartialOrd is a partial order, and partial_cmp / == say what <= says *)
  law_refl : forall a, wf L a -> le L a a;
  law_antisym : forall a b, wf L a -> wf L b -> le L a b -> le L b a -> a = b;
  law_trans : forall a b c, wf L a -> wf L b -> wf L c -> le L a b -> le L b c -> le L a c;
  law_pcmp : forall a b, wf L a -> wf L b ->
             (pcmp L a b = Some Eq <-> a = b) /\ (pcmp L a b = Some Lt <-> le L a b /\ a <> b) /\
             (pcmp L a b = Some Gt <-> le L b a /\ a <> b) /\ (pcmp L a b = None <-> ~ le L a b /\ ~ le L b a);
  law_eq : forall a b, eqb L a b = true <-> a = b;
  (* join is the least upper bound, meet the greatest lower bound *)
  law_lub : forall a b c, wf L a -> wf L b -> wf L c ->
            le L a (jv L a b) /\ le L b (jv L a b) /\ (le L a c -> le L b c -> le L (jv L a b) c);
  law_glb : forall a b c, wf L a -> wf L b -> wf L c ->
            le L (mv L a b) a /\ le L (mv L a b) b /\ (le L c a -> le L c b -> le L c (mv L a b));
  (* the in-place variants leave join / meet and return true exactly when the receiver changed *)
  law_mut_value : forall a b, wf L a -> wf L b -> fst (jm L a b) = jv L a b /\ fst (mm L a b) = mv L a b;
  law_mut_flag : forall a b, wf L a -> wf L b ->
                 (snd (jm L a b) = true <-> fst (jm L a b) <> a) /\ (snd (mm L a b) = true <-> fst (mm L a b) <> a);
  (* bottom / top are extremal and neutral / absorbing *)
  law_bounds : forall bo tp, bnd L = Some (bo, tp) -> wf L bo /\ wf L tp /\
               forall a, wf L a -> le L bo a /\ le L a tp /\ jv L a tp = tp /\ mv L a bo = bo /\ jv L bo a = a /\ mv L tp a = a;
  (* Ord::cmp, where implemented, is partial_cmp and the order is total *)
  law_cmp : forall c, ocmp L = Some c -> forall a b, wf L a -> wf L b -> pcmp L a b = Some (c a b)
}.

Lemma laws_of_ok L : LatOK L -> Laws L.
Proof.
  intros OK. constructor.
  - intros a b Ha Hb. split; [apply (ok_j_wf L OK)|apply (ok_m_wf L OK)]; auto.
  - intros a b Ha Hb. split; [apply (j_comm L OK)|apply (m_comm L OK)]; auto.
  - intros a b c Ha Hb Hc. split; [apply (j_assoc L OK)|apply (m_assoc L OK)]; auto.
  - intros a Ha. split; [apply (j_idem L OK)|apply (m_idem L OK)]; auto.
  - intros a b Ha Hb. split; [apply (absorb_jm L OK)|apply (absorb_mj L OK)]; auto.
  - intros a b Ha Hb. split; [apply (le_iff_join L OK)|apply (le_iff_meet L OK)]; auto.
  - apply (le_refl L OK).
  - apply (le_antisym L OK).
  - apply (ok_trans L OK).
  - intros a b Ha Hb. split; [apply (ok_pcmp_eq L OK); auto|]. split; [apply (pcmp_lt_iff L OK); auto|].
    split; [apply (pcmp_gt_iff L OK); auto|apply (pcmp_none_iff L OK); auto].
  - apply (ok_eqb L OK).
  - intros a b c Ha Hb Hc. split; [apply (ok_j_ub_l L OK); auto|]. split; [apply (ok_j_ub_r L OK); auto|apply (ok_j_least L OK); auto].
  - intros a b c Ha Hb Hc. split; [apply (ok_m_lb_l L OK); auto|]. split; [apply (ok_m_lb_r L OK); auto|apply (ok_m_greatest L OK); auto].
  - intros a b Ha Hb. split; [apply (jm_value L OK)|apply (mm_value L OK)]; auto.
  - intros a b Ha Hb. split; [apply (jm_flag L OK)|apply (mm_flag L OK)]; auto.
  - apply (bnd_laws L OK).
  - apply (ok_cmp L OK).
Qed.

Theorem denote_laws : forall t, wf_lty t = true -> Laws (denote t).
Proof. intros t H. apply laws_of_ok, denote_ok, H. Qed.

(* ------------------------------------------------------------------ `Ord` is implemented exactly by these types *)
Fixpoint ord_lty (t : lty) : bool :=
  match t with
  | LInt _ _ | LBool | LUnit => true
  | LOption t | LRc t | LArc t | LBox t | LReverse t | LDual t | LOrd t => ord_lty t
  | LTuple ts => ord_ltys ts
  | LProd _ | LProdArr _ _ | LSet _ | LBSet _ _ | LCP _ => false
  end
with ord_ltys (ts : ltys) : bool :=
  match ts with
  | LOne t => ord_lty t
  | LCons t ts => ord_lty t && ord_ltys ts
  end.

Lemma has_ord_syntactic_mutual :
  (forall t, has_ord (denote t) = ord_lty t) /\ (forall ts, chas_ord (denotes ts) = ord_ltys ts).
Proof.
  assert (H : forall t, has_ord (denote t) = ord_lty t).
  { apply (lty_mind (fun t => has_ord (denote t) = ord_lty t) (fun ts => chas_ord (denotes ts) = ord_ltys ts));
      try reflexivity; unfold has_ord, chas_ord; cbn [denote denotes ord_lty ord_ltys]; cbn.
    - intros t <-. destruct (ocmp (denote t)); reflexivity.
    - intros t <-. reflexivity.
    - intros t <-. reflexivity.
    - intros t <-. reflexivity.
    - intros t <-. destruct (ocmp (denote t)); reflexivity.
    - intros t <-. destruct (ocmp (denote t)); reflexivity.
    - intros t <-. reflexivity.
    - intros ts <-. reflexivity.
    - intros t <-. reflexivity.
    - intros t <- ts <-. destruct (ocmp (denote t)), (clex_cmp (denotes ts)); reflexivity. }
  split; [exact H|].
  induction ts as [t|t ts IH]; unfold chas_ord; cbn [denotes ord_ltys]; cbn.
  - apply H.
  - rewrite <- H, <- IH. unfold has_ord, chas_ord. destruct (ocmp (denote t)), (clex_cmp (denotes ts)); reflexivity.
Qed.
Lemma has_ord_syntactic : forall t, has_ord (denote t) = ord_lty t.
Proof. exact (proj1 has_ord_syntactic_mutual). Qed.
