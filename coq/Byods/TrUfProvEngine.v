(* C12 — the engine theorem for a provider-backed relation from laws over the histories generated code really produces.

   Engine/ProvLaws.engine_laws quantifies over `guarded` histories, in which a stratum boundary (PRestart) may come at ANY
   point.  The trrel_uf provider does not meet the law "total + delta serve exactly cl (g_td)" after a boundary in the middle
   of a round: its total already holds the reflexive pairs of the elements of the last `new`, which the ghost of
   Byods/Provider.v drops at a boundary (TrUfProvLaws.pu_midround_restart_refuted).  Generated code never does that: a stratum
   ends after a merge that had nothing to move.  This file restates the laws over [qguarded] histories — a boundary only
   where g_new is empty and g_td is within g_t — and re-proves the engine theorem from them.

   The proofs are those of Engine/ProvLemmasW.v, Engine/ProvStrataW.v and Engine/ProvProofsW.v, with two additions: the state
   invariant between SCCs (GI) and the post-condition of an SCC (PostP) carry `incl (g_td ..) (g_t ..)` (true after the
   closing merge of every SCC, which has an empty `new`), which is what the boundary at the start of the next SCC needs.
   engine_laws implies qengine_laws (qlaws_of_engine_laws): the theorem here generalises prun_plan_correct_q. *)
From Coq Require Import List ZArith Bool Arith Lia.
From AV Require Import Engine.Core Engine.Sem Engine.Eval Engine.Validate Engine.Naive Engine.Interface.
From AV Require Import Byods.Provider Engine.EvalProv Engine.InterfaceProv Engine.EvalSpec.
From AV Require Import Engine.NaiveLemmas Engine.Strata Engine.SemiNaive Engine.ProvLemmas Engine.ProvStrata.
From AV Require Import Engine.ProvLaws.
Import ListNotations.
Local Open Scope nat_scope.

Section QLaws.
Variable PV : provider tuple.

Inductive qguarded : list (pop tuple) -> Prop :=
| qg_nil : qguarded []
| qg_merge h : qguarded h -> qguarded (h ++ [PMerge])
| qg_restart h : qguarded h ->
    g_new tuple (ghost_of tuple h) = [] -> incl (g_td tuple (ghost_of tuple h)) (g_t tuple (ghost_of tuple h)) ->
    qguarded (h ++ [PRestart])
| qg_ins h t : qguarded h ->
    p_contains tuple PV (run tuple PV h) Provider.VTotal t = false ->
    p_contains tuple PV (run tuple PV h) Provider.VDelta t = false ->
    qguarded (h ++ [PIns t]).

Record qengine_laws (cl : list tuple -> list tuple) : Prop := {
  ql_contains : forall h v t, qguarded h ->
    (p_contains tuple PV (run tuple PV h) v t = true <-> In t (p_read tuple PV (run tuple PV h) v));
  ql_served : forall h, qguarded h ->
    same_set (served tuple PV (run tuple PV h)) (cl (g_td tuple (ghost_of tuple h)));
  ql_first_insert : forall h t, qguarded h ->
    p_contains tuple PV (run tuple PV h) Provider.VTotal t = false ->
    p_contains tuple PV (run tuple PV h) Provider.VDelta t = false ->
    g_new tuple (ghost_of tuple h) = [] ->
    snd (p_ins tuple PV (run tuple PV h) t) = true;
  ql_merge_total : forall h, qguarded h ->
    incl (p_read tuple PV (run tuple PV (h ++ [PMerge])) Provider.VTotal)
         (served tuple PV (run tuple PV h) ++ p_read tuple PV (run tuple PV (h ++ [PMerge])) Provider.VDelta);
  ql_quiescent : forall h, qguarded h -> g_new tuple (ghost_of tuple h) = [] ->
    incl (served tuple PV (run tuple PV (h ++ [PMerge]))) (p_read tuple PV (run tuple PV (h ++ [PMerge])) Provider.VTotal);
  ql_restart_serves : forall h, qguarded h ->
    incl (p_read tuple PV (run tuple PV h) Provider.VTotal) (served tuple PV (run tuple PV (h ++ [PRestart])));
  ql_restart_total : forall h, qguarded h ->
    incl (p_read tuple PV (run tuple PV (h ++ [PRestart])) Provider.VTotal)
         (p_read tuple PV (run tuple PV (h ++ [PRestart])) Provider.VDelta) }.

Lemma qguarded_guarded : forall h, qguarded h -> guarded PV h.
Proof. induction 1; constructor; assumption. Qed.

Theorem qlaws_of_engine_laws : forall cl, engine_laws PV cl -> qengine_laws cl.
Proof.
  intros cl L. constructor.
  - intros h v t G. apply (el_contains PV cl L). apply qguarded_guarded; exact G.
  - intros h G. apply (el_served PV cl L). apply qguarded_guarded; exact G.
  - intros h t G. apply (el_first_insert PV cl L). apply qguarded_guarded; exact G.
  - intros h G. apply (el_merge_total PV cl L). apply qguarded_guarded; exact G.
  - intros h G. apply (el_quiescent PV cl L). apply qguarded_guarded; exact G.
  - intros h G. apply (el_restart_serves PV cl L). apply qguarded_guarded; exact G.
  - intros h G. apply (el_restart_total PV cl L). apply qguarded_guarded; exact G.
Qed.
End QLaws.

Definition prun_plan_correct_q_stmt (I : interp) (swap : list tuple -> list tuple -> bool) : Prop :=
  forall (PV : provider tuple) (cl : list tuple -> list tuple) (r0 : rel) (n0 : nat) arities P pl fuel F0 st,
    closure_op tuple cl -> qengine_laws PV cl -> cl_arity cl n0 -> In (r0, n0) arities ->
    arities_functional arities -> wf_facts arities F0 = true -> no_agg P = true ->
    (forall f, In f F0 -> fst f <> r0) ->
    validate arities P pl = true ->
    prun_plan I swap PV r0 fuel pl F0 = Some st ->
    least_model_cl I P cl r0 F0 (pfacts PV r0 st).

(* ================================================================== Engine/ProvLemmasW.v over qguarded *)


Section HistW.
Variable PV : provider tuple.
Variable cl : list tuple -> list tuple.
Hypothesis Hcl : closure_op tuple cl.
Hypothesis HL : qengine_laws PV cl.

Notation grd := (qguarded PV).

Lemma srv_iff_w : forall h t, grd h -> (In t (srv PV h) <-> In t (cl (g_td tuple (gh h)))).
Proof. intros h t Hg. destruct (ql_served PV cl HL h Hg) as [H1 H2]. split; [apply H1 | apply H2]. Qed.

Lemma srv_ins_w : forall h ins t, grd h -> grd (h ++ inss ins) -> (In t (srv PV (h ++ inss ins)) <-> In t (srv PV h)).
Proof.
  intros h ins t Hg Hg'. rewrite (srv_iff_w _ t Hg), (srv_iff_w _ t Hg').
  destruct (gh_ins ins h) as [_ [H _]]. rewrite H. reflexivity.
Qed.

Lemma srv_merge_mono_w : forall h t, grd h -> In t (srv PV h) -> In t (srv PV (h ++ [PMerge])).
Proof.
  intros h t Hg H. apply (srv_iff_w _ t (qg_merge PV h Hg)). apply (srv_iff_w _ t Hg) in H.
  destruct (gh_merge h) as [_ [H2 _]]. rewrite H2. revert H. apply (cl_mono tuple cl Hcl). apply incl_appl. apply incl_refl.
Qed.

Lemma new_srv_merge_w : forall h t, grd h -> In t (g_new tuple (gh h)) -> In t (srv PV (h ++ [PMerge])).
Proof.
  intros h t Hg H. apply (srv_iff_w _ t (qg_merge PV h Hg)). destruct (gh_merge h) as [_ [H2 _]]. rewrite H2.
  apply (cl_ext tuple cl Hcl). apply in_or_app. right. exact H.
Qed.

Lemma quiescent_w : forall h t, grd h -> g_new tuple (gh h) = [] ->
  In t (srv PV (h ++ [PMerge])) -> In t (rd PV (h ++ [PMerge]) Provider.VTotal).
Proof. intros h t Hg Hn H. exact (ql_quiescent PV cl HL h Hg Hn t H). Qed.

Lemma contains_srv_w : forall h t, grd h ->
  (p_contains tuple PV (run tuple PV h) Provider.VTotal t || p_contains tuple PV (run tuple PV h) Provider.VDelta t = true
   <-> In t (srv PV h)).
Proof.
  intros h t Hg. rewrite orb_true_iff, !(ql_contains PV cl HL h _ t Hg), srv_eq, in_app_iff. reflexivity.
Qed.

Lemma srv_len_w : forall n0 h t, grd h -> cl_arity cl n0 -> (forall u, In u (g_td tuple (gh h)) -> length u = n0) ->
  In t (srv PV h) -> length t = n0.
Proof. intros n0 h t Hg Har Hgd H. apply (srv_iff_w _ t Hg) in H. exact (Har _ t Hgd H). Qed.

Lemma srv_nil_w : forall t, ~ In t (srv PV []).
Proof.
  intros t H. apply (srv_iff_w [] t (qg_nil PV)) in H. cbn in H. rewrite (cl_nil tuple cl Hcl) in H. exact H.
Qed.

(* ---------- the head-update fold ---------- *)
Variable r0 : rel.
Variables T D : list fact.

Lemma fold_phead_spec_w : forall fs N R h ch N' R' ps' ch',
  grd h ->
  fold_left (phead_update PV r0 T D) fs (N, R, run tuple PV h, ch) = (N', R', ps', ch') ->
  exists A ins, N' = N ++ A /\ R' = R ++ A /\ ps' = run tuple PV (h ++ inss ins) /\ grd (h ++ inss ins)
    /\ (forall f, In f A -> In f fs /\ fst f <> r0 /\ ~ In f T /\ ~ In f D /\ ~ In f N)
    /\ (forall t, In t ins -> In (r0, t) fs)
    /\ (forall f, In f fs -> fst f <> r0 -> In f T \/ In f D \/ In f N \/ In f A)
    /\ (forall f, In f fs -> fst f = r0 -> In (snd f) (srv PV h) \/ In (snd f) ins)
    /\ (ch' = false -> ch = false /\ A = [] /\ (g_new tuple (gh h) = [] -> ins = [])).
Proof.
  induction fs as [|a fs IH]; intros N R h ch N' R' ps' ch' Hg H.
  - cbn [fold_left] in H. injection H as <- <- <- <-. exists [], []. cbn [inss map]. rewrite !app_nil_r.
    repeat split; try reflexivity; try (intros ? []); auto.
  - cbn [fold_left] in H. rewrite (phead_update_eq PV r0 T D) in H. destruct (Nat.eqb (fst a) r0) eqn:Hr.
    + apply Nat.eqb_eq in Hr.
      destruct (p_contains tuple PV (run tuple PV h) Provider.VTotal (snd a)
                || p_contains tuple PV (run tuple PV h) Provider.VDelta (snd a)) eqn:Hc.
      * apply (contains_srv_w h _ Hg) in Hc.
        destruct (IH _ _ _ _ _ _ _ _ Hg H) as [A [ins [HN [HR [Hps [Hg' [HA [Hins [Hcp [Hcr Hch]]]]]]]]]].
        exists A, ins. split; [exact HN|]. split; [exact HR|]. split; [exact Hps|]. split; [exact Hg'|].
        split; [|split; [|split; [|split]]].
        -- intros f Hf. destruct (HA f Hf) as [H1 H2]. split; [right; exact H1 | exact H2].
        -- intros t Ht. right. apply Hins. exact Ht.
        -- intros f [<- | Hf] Hne; [contradiction | apply Hcp; assumption].
        -- intros f [<- | Hf] He; [left; exact Hc | apply Hcr; assumption].
        -- exact Hch.
      * apply orb_false_iff in Hc as [Hc1 Hc2].
        pose proof (qg_ins PV h (snd a) Hg Hc1 Hc2) as Hg1.
        destruct (p_ins tuple PV (run tuple PV h) (snd a)) as [ps1 b] eqn:Hi.
        assert (Hps1 : ps1 = run tuple PV (h ++ [PIns (snd a)])).
        { rewrite run_snoc. cbn [step]. rewrite Hi. reflexivity. }
        rewrite Hps1 in H.
        destruct (IH _ _ _ _ _ _ _ _ Hg1 H) as [A [ins [HN [HR [Hps [Hg' [HA [Hins [Hcp [Hcr Hch]]]]]]]]]].
        assert (Happ : (h ++ [PIns (snd a)]) ++ inss ins = h ++ inss (snd a :: ins)).
        { cbn [inss map]. change (PIns (snd a) :: map (fun t0 => PIns t0) ins) with ([PIns (snd a)] ++ inss ins).
          rewrite app_assoc. reflexivity. }
        exists A, (snd a :: ins). split; [exact HN|]. split; [exact HR|].
        split; [rewrite Hps, Happ; reflexivity|]. split; [rewrite <- Happ; exact Hg'|].
        split; [|split; [|split; [|split]]].
        -- intros f Hf. destruct (HA f Hf) as [H1 H2]. split; [right; exact H1 | exact H2].
        -- intros t [<- | Ht]; [left; destruct a; cbn [fst snd] in *; subst; reflexivity | right; apply Hins; exact Ht].
        -- intros f [<- | Hf] Hne; [contradiction | apply Hcp; assumption].
        -- intros f [<- | Hf] He; [right; left; reflexivity|].
           destruct (Hcr f Hf He) as [Hs | Hs]; [left | right; right; exact Hs].
           change [PIns (snd a)] with (inss [snd a]) in Hs, Hg1. apply (srv_ins_w h [snd a] _ Hg Hg1) in Hs. exact Hs.
        -- intros Hf. destruct (Hch Hf) as [Hcf [HA0 _]]. apply orb_false_iff in Hcf as [Hcf Hb]. subst b.
           split; [exact Hcf|]. split; [exact HA0|]. intros Hn. exfalso.
           pose proof (ql_first_insert PV cl HL h (snd a) Hg Hc1 Hc2 Hn) as Hacc. rewrite Hi in Hacc. discriminate.
    + apply Nat.eqb_neq in Hr.
      destruct (mem_fact a T || mem_fact a D || mem_fact a N) eqn:Hm.
      * destruct (IH _ _ _ _ _ _ _ _ Hg H) as [A [ins [HN [HR [Hps [Hg' [HA [Hins [Hcp [Hcr Hch]]]]]]]]]].
        exists A, ins. split; [exact HN|]. split; [exact HR|]. split; [exact Hps|]. split; [exact Hg'|].
        split; [|split; [|split; [|split]]].
        -- intros f Hf. destruct (HA f Hf) as [H1 H2]. split; [right; exact H1 | exact H2].
        -- intros t Ht. right. apply Hins. exact Ht.
        -- intros f [<- | Hf] Hne; [|apply Hcp; assumption].
           apply orb_true_iff in Hm as [Hm | Hm]; [apply orb_true_iff in Hm as [Hm | Hm]|];
             apply mem_fact_In in Hm; auto.
        -- intros f [<- | Hf] He; [contradiction | apply Hcr; assumption].
        -- exact Hch.
      * apply orb_false_iff in Hm as [Hm HmN]. apply orb_false_iff in Hm as [HmT HmD].
        apply mem_fact_false in HmT, HmD, HmN.
        destruct (IH _ _ _ _ _ _ _ _ Hg H) as [A [ins [HN [HR [Hps [Hg' [HA [Hins [Hcp [Hcr Hch]]]]]]]]]].
        exists (a :: A), ins. split; [rewrite HN, <- app_assoc; reflexivity|].
        split; [rewrite HR, <- app_assoc; reflexivity|]. split; [exact Hps|]. split; [exact Hg'|].
        split; [|split; [|split; [|split]]].
        -- intros f [<- | Hf]; [split; [left; reflexivity | auto]|].
           destruct (HA f Hf) as [H1 [H2 [H3 [H4 H5]]]]. split; [right; exact H1|]. split; [exact H2|].
           split; [exact H3|]. split; [exact H4|]. intro Hn. apply H5. apply in_or_app. left. exact Hn.
        -- intros t Ht. right. apply Hins. exact Ht.
        -- intros f [<- | Hf] Hne; [right; right; right; left; reflexivity|].
           destruct (Hcp f Hf Hne) as [Hc | [Hc | [Hc | Hc]]]; auto.
           ++ apply in_app_or in Hc as [Hc | [<- | []]]; auto. right. right. right. left. reflexivity.
           ++ right. right. right. right. exact Hc.
        -- intros f [<- | Hf] He; [contradiction | apply Hcr; assumption].
        -- intros Hf. destruct (Hch Hf) as [Hc1 _]. discriminate.
Qed.
End HistW.

(* ================================================================== Engine/ProvStrataW.v over qguarded *)


Lemma mem_tuple_In_w : forall t l, mem_tuple t l = true <-> In t l.
Proof.
  intros t l. unfold mem_tuple. rewrite existsb_exists. split.
  - intros [u [Hu He]]. apply zlist_eqb_eq in He. subst. exact Hu.
  - intros H. exists t. split; [exact H | apply zlist_eqb_eq; reflexivity].
Qed.

Lemma contents_mono_T : forall S T T' D dyn q ver,
  incl T T' -> incl (contents S T D dyn q ver) (contents S T' D dyn q ver).
Proof.
  intros S T T' D dyn q ver H. unfold contents. destruct (is_dyn dyn q); [|apply incl_refl].
  destruct ver; [apply db_of_incl; exact H | apply incl_refl |].
  apply incl_app; [apply incl_appl; apply db_of_incl; exact H | apply incl_appr; apply incl_refl].
Qed.

Section SccProvW.
Variable I : interp.
Variable swap : list tuple -> list tuple -> bool.
Variable PV : provider tuple.
Variable cl : list tuple -> list tuple.
Variable r0 : rel.
Variable n0 : nat.
Variable arities : list (rel * nat).
Variable P : list rule.
Hypothesis Hcl : closure_op tuple cl.
Hypothesis HL : qengine_laws PV cl.
Hypothesis Har : cl_arity cl n0.
Hypothesis Hr0 : In (r0, n0) arities.
Hypothesis Hfun : arities_functional arities.
Hypothesis Hnoagg : no_agg P = true.
Variable sc : pscc.
Hypothesis Hsc : scc_ok arities P sc = true.

Let dyn := s_dyn sc.
Let hr := scc_head_rels P sc.
Let dr0 := is_dyn dyn r0.

Notation rdT h := (rd PV h Provider.VTotal).
Notation rdD h := (rd PV h Provider.VDelta).
Notation srvh h := (srv PV h).
Notation ghh h := (gh h).

Lemma dyn_hr : forall q, is_dyn dyn q = true -> In q hr.
Proof.
  intros q Hq. unfold scc_ok in Hsc. fold dyn in Hsc. fold hr in Hsc.
  apply andb_true_iff in Hsc as [H123 _]. apply andb_true_iff in H123 as [_ H3].
  rewrite forallb_forall in H3. apply is_dyn_In in Hq. specialize (H3 q Hq). apply existsb_nat_In in H3. exact H3.
Qed.

Lemma cl_in_M : forall G M t,
  (forall u, In u G -> In (r0, u) M) -> cl_closed cl r0 M -> In t (cl G) -> In (r0, t) M.
Proof.
  intros G M t HG Hc Ht. apply in_db_of. apply Hc. revert Ht. apply (cl_mono tuple cl Hcl).
  intros u Hu. apply in_db_of. apply HG. exact Hu.
Qed.

Section Inner.
Variable S : list fact.
Definition vt (h : hist) : list fact := pairs r0 (rdT h).
Definition vd (h : hist) : list fact := pairs r0 (rdD h).
Definition Sv (h : hist) : list fact := vplus (negb dr0) S (vt h).
Definition Tv (h : hist) (T : list fact) : list fact := vplus dr0 T (vt h).
Definition Dv (h : hist) (D : list fact) : list fact := vplus dr0 D (vd h).

Lemma pcontents_virtual : forall h T D r ver,
  (forall f, In f S -> fst f <> r0) -> (forall f, In f T -> fst f <> r0) -> (forall f, In f D -> fst f <> r0) ->
  is_dyn dyn r = true \/ ver = Eval.VTotal ->
  pcontents PV r0 (run tuple PV h) S T D dyn r ver = contents (Sv h) (Tv h T) (Dv h D) dyn r ver.
Proof.
  intros h T D r ver HS HT HD Hv. unfold pcontents. destruct (Nat.eqb r r0) eqn:He.
  - apply Nat.eqb_eq in He. subst r. unfold contents, Sv, Tv, Dv, vt, vd. fold dr0.
    destruct dr0 eqn:Hd.
    + destruct ver; rewrite ?(db_of_vplus_same T r0 _ HT), ?(db_of_vplus_same D r0 _ HD); reflexivity.
    + destruct Hv as [Hv | ->]; [unfold dr0 in Hd; congruence|]. cbn [negb]. rewrite (db_of_vplus_same S r0 _ HS). reflexivity.
  - apply Nat.eqb_neq in He. unfold contents, Sv, Tv, Dv, vt, vd.
    rewrite !(db_of_vplus_other _ _ r0 _ r He). reflexivity.
Qed.

Lemma pcontents_len : forall h T D,
  qguarded PV h ->
  wf_facts arities S = true -> wf_facts arities T = true -> wf_facts arities D = true ->
  (forall u, In u (g_td tuple (ghh h)) -> length u = n0) ->
  forall r ver tup n, In tup (pcontents PV r0 (run tuple PV h) S T D dyn r ver) ->
    arity_ok arities r n = true -> length tup = n.
Proof.
  intros h T D Hgd HS HT HD Hg r ver tup n Hin Han. unfold pcontents in Hin. destruct (Nat.eqb r r0) eqn:He.
  - apply Nat.eqb_eq in He. subst r. apply arity_ok_In in Han. rewrite (Hfun r0 n n0 Han Hr0).
    apply (srv_len_w PV cl HL n0 h tup Hgd Har Hg). rewrite srv_eq.
    destruct ver; [apply in_or_app; left | apply in_or_app; right |]; exact Hin.
  - apply (contents_len arities S T D dyn r ver tup n Hfun HS HT HD Hin Han).
Qed.

(* Lemma E: what a variant derives from the engine's contents = what it derives from the virtual lists *)
Lemma eval_prov_derive : forall h T D v f,
  qguarded PV h ->
  (forall g, In g S -> wf_fact arities g = true /\ fst g <> r0) ->
  (forall g, In g (T ++ D) -> wf_fact arities g = true /\ fst g <> r0) ->
  (forall u, In u (g_td tuple (ghh h)) -> length u = n0) ->
  In v (s_vars sc) ->
  (In f (eval_variant I swap (pcontents PV r0 (run tuple PV h) S T D dyn) v)
   <-> In f (derive_variant I (contents (Sv h) (Tv h T) (Dv h D) dyn) dyn v)).
Proof.
  intros h T D v f Hgd HS HTD Hg Hv.
  destruct (variant_ok_unpack arities P Hnoagg sc v (scc_ok_variant arities P sc Hsc v Hv))
    as [r [Hr [Hit [_ [Hvwf _]]]]]. fold dyn in Hvwf.
  assert (HS1 : forall g, In g S -> fst g <> r0) by (intros g Hg0; apply HS; exact Hg0).
  assert (HT1 : forall g, In g T -> fst g <> r0) by (intros g Hg0; apply HTD; apply in_or_app; left; exact Hg0).
  assert (HD1 : forall g, In g D -> fst g <> r0) by (intros g Hg0; apply HTD; apply in_or_app; right; exact Hg0).
  assert (Hlen := pcontents_len h T D Hgd
                    (proj2 (wf_facts_forall arities S) (fun g Hg0 => proj1 (HS g Hg0)))
                    (proj2 (wf_facts_forall arities T) (fun g Hg0 => proj1 (HTD g (in_or_app _ _ _ (or_introl Hg0)))))
                    (proj2 (wf_facts_forall arities D) (fun g Hg0 => proj1 (HTD g (in_or_app _ _ _ (or_intror Hg0)))))
                    Hg).
  rewrite (variant_equiv I swap _ arities dyn Hlen v Hvwf f).
  pose proof (rule_no_agg P Hnoagg _ r Hr) as Hna. rewrite <- Hit in Hna.
  unfold derive_variant. rewrite !in_heads_of_envs.
  split; intros [e [hd [He Hrest]]]; exists e, hd; (split; [|exact Hrest]); revert He;
    apply all_envs_a_mono; try exact Hna.
  - intros q _ Hq. rewrite (pcontents_virtual h T D q Eval.VTotal HS1 HT1 HD1 (or_intror eq_refl)). apply incl_refl.
  - intros k q _ Hq. rewrite (pcontents_virtual h T D q _ HS1 HT1 HD1 (or_introl Hq)). apply incl_refl.
  - intros q _ Hq. rewrite (pcontents_virtual h T D q Eval.VTotal HS1 HT1 HD1 (or_intror eq_refl)). apply incl_refl.
  - intros k q _ Hq. rewrite (pcontents_virtual h T D q _ HS1 HT1 HD1 (or_introl Hq)). apply incl_refl.
Qed.

Lemma in_Tv : forall h T f, In f (Tv h T) <-> In f T \/ (dr0 = true /\ fst f = r0 /\ In (snd f) (rdT h)).
Proof. intros. unfold Tv, vt. apply in_vplus. Qed.
Lemma in_Dv : forall h D f, In f (Dv h D) <-> In f D \/ (dr0 = true /\ fst f = r0 /\ In (snd f) (rdD h)).
Proof. intros. unfold Dv, vd. apply in_vplus. Qed.
Lemma in_Sv : forall h f, In f (Sv h) <-> In f S \/ (dr0 = false /\ fst f = r0 /\ In (snd f) (rdT h)).
Proof. intros. unfold Sv, vt. rewrite in_vplus, negb_true_iff. reflexivity. Qed.

Lemma fact_eta : forall (f : fact) q, fst f = q -> f = (q, snd f).
Proof. intros [a b] q H. cbn [fst snd] in *. subst. reflexivity. Qed.

(* everything the virtual lists hold is in every closed, cl-closed superset *)
Lemma virt_sound : forall h T D M,
  qguarded PV h ->
  cl_closed cl r0 M -> (forall t, In t (g_td tuple (ghh h)) -> In (r0, t) M) ->
  incl S M -> incl T M -> incl D M ->
  incl (Sv h) M /\ incl (Tv h T) M /\ incl (Dv h D) M.
Proof.
  intros h T D M Hgd Hc Hg HS HT HD.
  assert (Hs : forall f v, fst f = r0 -> In (snd f) (rd PV h v) -> In f M).
  { intros f v He Hin. rewrite (fact_eta f r0 He). apply (cl_in_M _ M _ Hg Hc).
    apply (srv_iff_w PV cl HL h _ Hgd). eapply rd_in_srv. exact Hin. }
  split; [|split]; intros f Hf.
  - apply in_Sv in Hf as [Hf | [_ [He Hin]]]; [apply HS; exact Hf | eapply Hs; eassumption].
  - apply in_Tv in Hf as [Hf | [_ [He Hin]]]; [apply HT; exact Hf | eapply Hs; eassumption].
  - apply in_Dv in Hf as [Hf | [_ [He Hin]]]; [apply HD; exact Hf | eapply Hs; eassumption].
Qed.

(* the history after an iteration that attempted the insertions [ins] *)
Definition hnext (h : hist) (ins : list tuple) : hist :=
  if dr0 then (h ++ inss ins) ++ [PMerge] else h ++ inss ins.

Lemma hnext_facts : forall h ins,
  qguarded PV h -> qguarded PV (h ++ inss ins) ->
  g_new tuple (ghh h) = [] -> (dr0 = false -> ins = []) ->
  qguarded PV (hnext h ins)
  /\ g_new tuple (ghh (hnext h ins)) = []
  /\ (forall u, In u (g_td tuple (ghh (hnext h ins))) <-> In u (g_td tuple (ghh h)) \/ In u ins)
  /\ (forall t, In t (srvh h) \/ In t ins -> In t (srvh (hnext h ins)))
  /\ (dr0 = false -> hnext h ins = h)
  /\ (dr0 = true -> forall t, In t (rdT (hnext h ins)) -> In t (srvh h) \/ In t (rdD (hnext h ins)))
  /\ (dr0 = true -> ins = [] -> forall t, In t (srvh (hnext h ins)) -> In t (rdT (hnext h ins)))
  /\ (ins = [] -> forall t, In t (srvh (hnext h ins)) -> In t (srvh h)).
Proof.
  intros h ins Hg Hg1 Hn Hins. destruct (gh_ins ins h) as [G1 [G2 G3]]. rewrite Hn in G3. cbn [app] in G3.
  unfold hnext. destruct dr0 eqn:Hd.
  - destruct (gh_merge (h ++ inss ins)) as [M1 [M2 M3]]. rewrite G2, G3 in M2.
    pose proof (qg_merge PV _ Hg1) as Hg2.
    split; [exact Hg2|]. split; [exact M3|]. split; [intros u; rewrite M2, in_app_iff; reflexivity|].
    split; [|split; [discriminate|split; [|split]]].
    + intros t [Ht | Ht].
      * apply (srv_merge_mono_w PV cl Hcl HL _ _ Hg1). apply (srv_ins_w PV cl HL h ins t Hg Hg1). exact Ht.
      * apply (new_srv_merge_w PV cl Hcl HL _ _ Hg1). rewrite G3. exact Ht.
    + intros _ t Ht. apply (ql_merge_total PV cl HL _ Hg1) in Ht. apply in_app_or in Ht as [Ht | Ht]; [left | right; exact Ht].
      apply (srv_ins_w PV cl HL h ins t Hg Hg1). exact Ht.
    + intros _ Hi t. subst ins. cbn [inss map]. rewrite app_nil_r. apply (quiescent_w PV cl HL h t Hg Hn).
    + intros Hi t Ht. apply (srv_iff_w PV cl HL _ t Hg2) in Ht. rewrite M2, Hi, app_nil_r in Ht.
      apply (srv_iff_w PV cl HL _ t Hg). exact Ht.
  - rewrite (Hins eq_refl). cbn [inss map]. rewrite app_nil_r.
    split; [exact Hg|]. split; [exact Hn|]. split; [intros u; split; [auto | intros [H | []]; exact H]|].
    split; [intros t [H | []]; exact H|]. split; [reflexivity|]. split; [discriminate|]. split; [discriminate|].
    intros _ t Ht. exact Ht.
Qed.

(* the known part K of total: K <= total <= K + delta *)
Definition Kinv (h : hist) (K : list tuple) : Prop :=
  dr0 = true -> incl K (rdT h) /\ forall t, In t (rdT h) -> In t K \/ In t (rdD h).
Definition Tk (K : list tuple) (T : list fact) : list fact := vplus dr0 T (pairs r0 K).
Lemma in_Tk : forall K T f, In f (Tk K T) <-> In f T \/ (dr0 = true /\ fst f = r0 /\ In (snd f) K).
Proof. intros. unfold Tk. apply in_vplus. Qed.

Lemma Tk_sub_Tv : forall h K T, Kinv h K -> incl (Tk K T) (Tv h T).
Proof.
  intros h K T HK f Hf. apply in_Tk in Hf as [Hf | [Hd [He Hin]]]; apply in_Tv; [left; exact Hf|].
  right. split; [exact Hd|]. split; [exact He|]. apply (HK Hd). exact Hin.
Qed.

(* ----- the stratum: rows at entry R0, history at entry hS ----- *)
Variable R0 : list fact.
Variable hS : hist.
Hypothesis HwfR0 : forall f, In f R0 -> wf_fact arities f = true /\ fst f <> r0.
Hypothesis HS_R0 : incl S R0.
Hypothesis HR0_static : forall f, In f R0 -> fact_dyn dyn f = false -> In f S.

Lemma HwfS : forall g, In g S -> wf_fact arities g = true /\ fst g <> r0.
Proof. intros g Hg. apply HwfR0. apply HS_R0. exact Hg. Qed.

Definition LI' (X R : list fact) (h : hist) : Prop :=
  (forall f, In f X -> wf_fact arities f = true /\ fst f <> r0)
  /\ (forall f, In f X <-> In f R /\ fact_dyn dyn f = true)
  /\ (incl R0 R /\ forall f, In f R -> fst f <> r0 /\ (In f R0 \/ In (fst f) hr))
  /\ (qguarded PV h /\ g_new tuple (ghh h) = [])
  /\ (forall u, In u (g_td tuple (ghh h)) -> length u = n0)
  /\ ((forall t, In t (srvh hS) -> In t (srvh h)) /\ (dr0 = false -> h = hS))
  /\ (forall M, closed I P M -> cl_closed cl r0 M -> incl R0 M ->
        (forall t, In t (g_td tuple (ghh hS)) -> In (r0, t) M) ->
        incl R M /\ forall t, In t (g_td tuple (ghh h)) -> In (r0, t) M).

Definition Pres (h : hist) (X : list fact) (f : fact) : Prop :=
  (fst f <> r0 /\ In f X) \/ (dr0 = true /\ fst f = r0 /\ In (snd f) (srvh h)).
Definition PresT (h : hist) (X : list fact) (f : fact) : Prop :=
  (fst f <> r0 /\ In f X) \/ (dr0 = true /\ fst f = r0 /\ In (snd f) (rdT h)).

Definition SNp (T D : list fact) (h : hist) : Prop :=
  exists K, Kinv h K /\
  forall j r f, In j (rules_of_scc sc) -> nth_error P j = Some r -> ndyn_items dyn (body r) <> 0 ->
    In f (derive_rule I (sdb (Sv h) (Tk K T) dyn) r) -> Pres h (T ++ D) f.

Definition FCp (h : hist) (X Y : list fact) (K : list tuple) : Prop :=
  Kinv h K /\
  forall j r f, In j (rules_of_scc sc) -> nth_error P j = Some r ->
    In f (derive_rule I (sdb (Sv h) (Tk K X) dyn) r) -> Pres h Y f.

Lemma pstep : forall T D R h N R' ps1 ch,
  LI' (T ++ D) R h -> SNp T D h ->
  pscc_iteration I swap PV r0 sc S T D R (run tuple PV h) = (N, R', ps1, ch) ->
  exists ins K',
    ps1 = run tuple PV (h ++ inss ins)
    /\ pmerge PV r0 sc ps1 = run tuple PV (hnext h ins)
    /\ LI' ((T ++ D) ++ N) R' (hnext h ins)
    /\ FCp (hnext h ins) (T ++ D) ((T ++ D) ++ N) K'
    /\ (forall t, In t (rdT (hnext h ins)) -> In t (srvh h) -> In t K')
    /\ (ch = false -> N = [] /\ ins = []).
Proof.
  intros T D R h N R' ps1 ch [Hwf [Hidx [[HR0R HRp] [[Hgd Hnew] [Hgar [[Hmono Hsame] Hsnd]]]]]] [K [HK Hsn]] Hit.
  unfold pscc_iteration in Hit. fold dyn in Hit.
  rewrite (fold_left_flat_map _ _ _ (phead_update PV r0 T D)
             (fun v => eval_variant I swap (pcontents PV r0 (run tuple PV h) S T D dyn) v)) in Hit.
  set (fs := flat_map (fun v => eval_variant I swap (pcontents PV r0 (run tuple PV h) S T D dyn) v) (s_vars sc)) in Hit.
  destruct (fold_phead_spec_w PV cl HL r0 T D fs [] R h false N R' ps1 ch Hgd Hit)
    as [A [ins [HN [HR' [Hps [Hgd1 [HA [Hins [Hcp [Hcr Hch]]]]]]]]]]. cbn [app] in HN. subst A.
  exists ins, (filter (fun t => mem_tuple t (srvh h)) (rdT (hnext h ins))).
  assert (Hfs : forall f, In f fs <->
            exists v, In v (s_vars sc) /\ In f (derive_variant I (contents (Sv h) (Tv h T) (Dv h D) dyn) dyn v)).
  { intros f. unfold fs. rewrite in_flat_map.
    split; intros [v [Hv Hf]]; exists v; (split; [exact Hv|]); apply (eval_prov_derive h T D v f Hgd HwfS Hwf Hgar Hv); exact Hf. }
  assert (Hfsp : forall f, In f fs -> In (fst f) hr /\ wf_fact arities f = true).
  { intros f Hf. apply Hfs in Hf as [v [Hv Hf]].
    exact (variant_fact_props I arities P Hnoagg sc Hsc (Sv h) (Tv h T) (Dv h D) v f Hv Hf). }
  assert (Hhrdyn : forall f, In (fst f) hr -> fact_dyn dyn f = true).
  { intros f Hf. unfold fact_dyn. apply (hr_dyn arities P sc Hsc). exact Hf. }
  assert (Hr0d : forall f, In f fs -> fst f = r0 -> dr0 = true).
  { intros f Hf He. pose proof (Hhrdyn f (proj1 (Hfsp f Hf))) as H. unfold fact_dyn in H. rewrite He in H. exact H. }
  assert (Hins0 : dr0 = false -> ins = []).
  { intros Hd. destruct ins as [|t ins']; [reflexivity|]. exfalso.
    pose proof (Hr0d (r0, t) (Hins t (or_introl eq_refl)) eq_refl) as H. congruence. }
  destruct (hnext_facts h ins Hgd Hgd1 Hnew Hins0) as [Hg2 [Hn1 [Hn2 [Hn3 [Hn4 [Hn5 [Hn6 Hn7]]]]]]].
  assert (HfsM : forall M, closed I P M -> cl_closed cl r0 M -> incl R0 M ->
            (forall t, In t (g_td tuple (ghh hS)) -> In (r0, t) M) -> forall f, In f fs -> In f M).
  { intros M Hc Hclc HM Hg f Hf. apply Hfs in Hf as [v [Hv Hf]].
    destruct (Hsnd M Hc Hclc HM Hg) as [HRM HgM].
    assert (HXM : incl (T ++ D) M). { intros g Hg0. apply HRM. apply Hidx. exact Hg0. }
    destruct (virt_sound h T D M Hgd Hclc HgM) as [H1 [H2 H3]].
    - intros g Hg0. apply HM. apply HS_R0. exact Hg0.
    - intros g Hg0. apply HXM. apply in_or_app. left. exact Hg0.
    - intros g Hg0. apply HXM. apply in_or_app. right. exact Hg0.
    - exact (variant_fact_sound I arities P Hnoagg sc Hsc (Sv h) (Tv h T) (Dv h D) v f M Hv Hc H1 H2 H3 Hf). }
  split; [exact Hps|]. split.
  { unfold pmerge, hnext. fold dyn. fold dr0. destruct dr0; [|exact Hps].
    rewrite Hps, run_snoc. reflexivity. }
  split; [|split; [|split]].
  - (* the invariant *)
    split; [|split; [|split; [|split; [|split; [|split]]]]].
    + intros f Hf. apply in_app_or in Hf as [Hf | Hf]; [apply Hwf; exact Hf|].
      destruct (HA f Hf) as [H1 [H2 _]]. split; [apply Hfsp; exact H1 | exact H2].
    + intros f. rewrite HR'. split.
      * intros Hf. apply in_app_or in Hf as [Hf | Hf].
        -- apply Hidx in Hf as [H1 H2]. split; [apply in_or_app; left; exact H1 | exact H2].
        -- split; [apply in_or_app; right; exact Hf|]. apply Hhrdyn. apply Hfsp. apply HA. exact Hf.
      * intros [Hf Hd]. apply in_app_or in Hf as [Hf | Hf]; apply in_or_app.
        -- left. apply Hidx. split; assumption.
        -- right. exact Hf.
    + rewrite HR'. split; [apply incl_appl; exact HR0R|]. intros f Hf. apply in_app_or in Hf as [Hf | Hf].
      * apply HRp. exact Hf.
      * destruct (HA f Hf) as [H1 [H2 _]]. split; [exact H2|]. right. apply Hfsp. exact H1.
    + split; [exact Hg2 | exact Hn1].
    + intros u Hu. apply Hn2 in Hu as [Hu | Hu]; [apply Hgar; exact Hu|].
      pose proof (wf_fact_In arities _ (proj2 (Hfsp _ (Hins u Hu)))) as Hin. cbn [fst snd] in Hin.
      exact (Hfun r0 _ _ Hin Hr0).
    + split; [intros t Ht; apply Hn3; left; apply Hmono; exact Ht|].
      intros Hd. rewrite (Hn4 Hd). apply Hsame. exact Hd.
    + intros M Hc Hclc HM Hg. destruct (Hsnd M Hc Hclc HM Hg) as [HRM HgM]. split.
      * rewrite HR'. apply incl_app; [exact HRM|]. intros f Hf. apply (HfsM M Hc Hclc HM Hg). apply HA. exact Hf.
      * intros t Ht. apply Hn2 in Ht as [Ht | Ht]; [apply HgM; exact Ht|].
        apply (HfsM M Hc Hclc HM Hg). apply Hins. exact Ht.
  - (* the semi-naive step, over the known part of the new total: what was served before the merge *)
    split.
    { intros Hd. split.
      - intros t Ht. apply filter_In in Ht. apply Ht.
      - intros t Ht. destruct (Hn5 Hd t Ht) as [H | H]; [left | right; exact H].
        apply filter_In. split; [exact Ht | apply mem_tuple_In_w; exact H]. }
    intros j r f Hj Hr Hf.
    pose proof (rule_no_agg P Hnoagg j r Hr) as Hna.
    assert (Hmon : forall g, Pres h (T ++ D) g -> Pres (hnext h ins) ((T ++ D) ++ N) g).
    { intros g [[H1 H2] | [H1 [H2 H3]]]; [left; split; [exact H1 | apply in_or_app; left; exact H2]|].
      right. split; [exact H1|]. split; [exact H2|]. apply Hn3. left. exact H3. }
    assert (Hf' : In f (derive_rule I (sdb (Sv h) (Tk K T ++ Dv h D) dyn) r)).
    { revert Hf. apply derive_rule_mono; [exact Hna|]. intros q _. unfold sdb. destruct (is_dyn dyn q).
      - apply db_of_incl. intros g Hg. apply in_Tk in Hg as [Hg | [Hd [He Hin]]].
        + apply in_app_or in Hg as [Hg | Hg]; apply in_or_app; [left; apply in_Tk | right; apply in_Dv]; left; exact Hg.
        + apply filter_In in Hin as [_ Hin]. apply mem_tuple_In_w in Hin. rewrite srv_eq in Hin.
          apply in_or_app. apply in_app_or in Hin as [Hin | Hin].
          * destruct (proj2 (HK Hd) _ Hin) as [Hk | Hk]; [left; apply in_Tk | right; apply in_Dv]; right; auto.
          * right. apply in_Dv. right. auto.
      - apply db_of_incl. intros g Hg. apply in_Sv in Hg as [Hg | [Hd [He Hin]]]; apply in_Sv; [left; exact Hg|].
        right. rewrite (Hn4 Hd) in Hin. auto. }
    unfold derive_rule in Hf'. apply in_heads_of_envs in Hf' as [e [hd [He [Hh Hev]]]].
    destruct (extract_assignment I (Sv h) (Tk K T) (Dv h D) dyn (body r) [] e Hna He) as [a [Hlen Ha]].
    assert (Hcase : (has_delta a = true \/ ndyn_items dyn (body r) = 0)
                    \/ (has_delta a = false /\ ndyn_items dyn (body r) <> 0)).
    { destruct (has_delta a); [left; left; reflexivity|].
      destruct (Nat.eq_dec (ndyn_items dyn (body r)) 0) as [Hz | Hz]; [left; right; exact Hz | right; auto]. }
    destruct Hcase as [Hc | [Hnd Hnz]].
    + destruct (cover_variant arities P Hnoagg sc Hsc j r a Hj Hr Hlen Hc) as [v [Hv [Hvj Hadm]]].
      destruct (variant_ok_unpack arities P Hnoagg sc v (scc_ok_variant arities P sc Hsc v Hv))
        as [r' [Hr' [Hitm [Hhd _]]]].
      rewrite Hvj, Hr in Hr'. injection Hr' as <-.
      assert (Hdv : In f fs).
      { apply Hfs. exists v. split; [exact Hv|]. unfold derive_variant. rewrite Hitm, Hhd.
        apply in_heads_of_envs. exists e, hd. split; [|split; assumption].
        apply (admits_incl I (Sv h) (Tk K T) (Dv h D) dyn _ a (body r) [] Hna Hadm) in Ha.
        revert Ha. apply all_envs_a_mono; [exact Hna | intros; apply contents_mono_T; apply (Tk_sub_Tv h K T HK) |].
        intros k q _ _. apply contents_mono_T. apply (Tk_sub_Tv h K T HK). }
      destruct (Nat.eq_dec (fst f) r0) as [Her | Hner].
      * right. split; [exact (Hr0d f Hdv Her)|]. split; [exact Her|]. apply Hn3.
        destruct (Hcr f Hdv Her) as [H | H]; auto.
      * left. split; [exact Hner|]. destruct (Hcp f Hdv Hner) as [H | [H | [[] | H]]]; apply in_or_app.
        -- left. apply in_or_app. left. exact H.
        -- left. apply in_or_app. right. exact H.
        -- right. exact H.
    + apply Hmon. apply (Hsn j r f Hj Hr Hnz). unfold derive_rule. apply in_heads_of_envs.
      exists e, hd. split; [|split; assumption]. revert Ha. apply no_delta_reads_total; assumption.
  - intros t Ht Hs. apply filter_In. split; [exact Ht | apply mem_tuple_In_w; exact Hs].
  - intros Hf. destruct (Hch Hf) as [_ [HN0 Hi0]]. split; [exact HN0 | exact (Hi0 Hnew)].
Qed.

Lemma LI_merge : forall X R h, dr0 = true -> LI' X R h -> LI' X R (h ++ [PMerge]).
Proof.
  intros X R h Hd [Hwf [Hidx [HR [[Hgd Hnew] [Hgar [[Hmono Hsame] Hsnd]]]]]].
  destruct (gh_merge h) as [_ [M2 M3]]. rewrite Hnew, app_nil_r in M2.
  split; [exact Hwf|]. split; [exact Hidx|]. split; [exact HR|].
  split; [split; [apply qg_merge; exact Hgd | exact M3]|].
  split; [rewrite M2; exact Hgar|]. split.
  - split; [|intros Hd'; congruence]. intros t Ht. apply (srv_merge_mono_w PV cl Hcl HL _ _ Hgd). apply Hmono. exact Ht.
  - intros M Hc Hclc HM Hg. rewrite M2. apply (Hsnd M Hc Hclc HM Hg).
Qed.

Definition PostP (T' R' : list fact) (h' : hist) : Prop :=
  LI' T' R' h'
  /\ (forall j r f, In j (rules_of_scc sc) -> nth_error P j = Some r ->
        In f (derive_rule I (sdb (Sv h') (Tv h' T') dyn) r) -> PresT h' T' f)
  /\ (dr0 = true -> forall t, In t (srvh h') -> In t (rdT h'))
  /\ (dr0 = true -> incl (g_td tuple (ghh h')) (g_t tuple (ghh h'))).

Lemma pscc_loop_post : forall fuel T D R h T' R' ps',
  LI' (T ++ D) R h -> SNp T D h ->
  pscc_loop I swap PV r0 fuel sc S T D R (run tuple PV h) = Some (T', R', ps') ->
  exists h', ps' = run tuple PV h' /\ PostP T' R' h'.
Proof.
  induction fuel as [|fuel IH]; intros T D R h T' R' ps' Hinv Hsn H; [discriminate|].
  cbn [pscc_loop] in H. destruct (pscc_iteration I swap PV r0 sc S T D R (run tuple PV h)) as [[[N R1] ps1] ch] eqn:Hit.
  cbv zeta in H. destruct (pstep T D R h N R1 ps1 ch Hinv Hsn Hit) as [ins [K' [Hps [Hmerge [Hinv' [[HK' Hfc] [HKs Hch]]]]]]].
  rewrite Hmerge in H. destruct ch.
  - apply (IH _ _ _ _ _ _ _ Hinv'); [|exact H]. exists K'. split; [exact HK'|].
    intros j r f Hj Hr _ Hf. exact (Hfc j r f Hj Hr Hf).
  - destruct (Hch eq_refl) as [HN0 Hi0]. subst N ins. injection H as <- <- <-. exists (hnext h []).
    split; [reflexivity|]. rewrite app_nil_r in Hinv', Hfc. rewrite app_nil_r.
    pose proof Hinv as [_ [_ [_ [[Hgd Hnew] _]]]].
    assert (Hgd1 : qguarded PV (h ++ inss [])) by (cbn [inss map]; rewrite app_nil_r; exact Hgd).
    destruct (hnext_facts h [] Hgd Hgd1 Hnew (fun _ => eq_refl)) as [_ [_ [_ [_ [_ [_ [Hn6 Hn7]]]]]]].
    split; [exact Hinv'|]. split.
    + intros j r f Hj Hr Hf.
      assert (Hf' : In f (derive_rule I (sdb (Sv (hnext h [])) (Tk K' (T ++ D)) dyn) r)).
      { revert Hf. apply derive_rule_mono; [unfold no_agg_rule; eapply rule_no_agg; [exact Hnoagg | exact Hr]|].
        intros q _. unfold sdb. destruct (is_dyn dyn q); [|apply incl_refl]. apply db_of_incl.
        intros g Hg. apply in_Tv in Hg as [Hg | [Hd [He Hin]]]; apply in_Tk; [left; exact Hg|].
        right. split; [exact Hd|]. split; [exact He|].
        (* at a quiescent exit the known part is the whole total *)
        apply HKs; [exact Hin|]. apply (Hn7 eq_refl). eapply rd_in_srv. exact Hin. }
      destruct (Hfc j r f Hj Hr Hf') as [Hp | [Hd [He Hs]]]; [left; exact Hp|].
      right. split; [exact Hd|]. split; [exact He|]. apply (Hn6 Hd eq_refl). exact Hs.
    + split; [intros Hd t Ht; apply (Hn6 Hd eq_refl); exact Ht|].
      intros Hd. unfold hnext. rewrite Hd. cbn [inss map]. rewrite app_nil_r.
      destruct (gh_merge h) as [M1 [M2 _]]. rewrite M1, M2, Hnew, app_nil_r. apply incl_refl.
Qed.

Lemma pscc_once_post : forall D R h N R' ps1 ch,
  s_loop sc = false -> LI' ([] ++ D) R h -> SNp [] D h ->
  pscc_iteration I swap PV r0 sc S [] D R (run tuple PV h) = (N, R', ps1, ch) ->
  exists h', pmerge PV r0 sc (pmerge PV r0 sc ps1) = run tuple PV h' /\ PostP (D ++ N) R' h'.
Proof.
  intros D R h N R' ps1 ch Hl Hinv Hsn Hit.
  destruct (pstep [] D R h N R' ps1 ch Hinv Hsn Hit) as [ins [K' [Hps [Hmerge [Hinv' [[HK' Hfc] _]]]]]].
  cbn [app] in Hinv', Hfc. set (h2 := hnext h ins) in *.
  pose proof Hinv' as [_ [_ [_ [[Hgd2 Hnew2] _]]]].
  exists (if dr0 then h2 ++ [PMerge] else h2). split.
  { rewrite Hmerge. unfold pmerge. fold dyn. fold dr0. destruct dr0; [rewrite run_snoc|]; reflexivity. }
  assert (Hfc' : forall hh X, Sv hh = Sv h2 -> forall j r f, In j (rules_of_scc sc) -> nth_error P j = Some r ->
            In f (derive_rule I (sdb (Sv hh) X dyn) r) -> Pres h2 (D ++ N) f).
  { intros hh X Hsv j r f Hj Hr Hf. apply (Hfc j r f Hj Hr).
    destruct (scc_ok_rule arities P sc Hsc j Hj) as [r' [Hr' [_ Hz]]]. rewrite Hr in Hr'. injection Hr' as <-.
    destruct Hz as [Hz | Hz]; [congruence|]. fold dyn in Hz.
    revert Hf. apply derive_rule_mono; [unfold no_agg_rule; eapply rule_no_agg; [exact Hnoagg | exact Hr]|].
    intros q Hq. rewrite body_clause_rels_eq in Hq. unfold sdb. rewrite (ndyn_zero_static dyn _ q Hz Hq).
    rewrite Hsv. apply incl_refl. }
  destruct dr0 eqn:Hd.
  - split; [apply LI_merge; [exact Hd | exact Hinv']|]. split.
    + intros j r f Hj Hr Hf.
      assert (Hsv : Sv (h2 ++ [PMerge]) = Sv h2) by (unfold Sv; rewrite Hd; reflexivity).
      destruct (Hfc' _ _ Hsv j r f Hj Hr Hf) as [Hp | [_ [He Hs]]]; [left; exact Hp|].
      right. split; [exact Hd|]. split; [exact He|]. apply (quiescent_w PV cl HL _ _ Hgd2 Hnew2).
      apply (srv_merge_mono_w PV cl Hcl HL _ _ Hgd2). exact Hs.
    + split; [intros _ t Ht; apply (quiescent_w PV cl HL _ _ Hgd2 Hnew2); exact Ht|].
      intros _. destruct (gh_merge h2) as [M1 [M2 _]]. rewrite M1, M2, Hnew2, app_nil_r. apply incl_refl.
  - split; [exact Hinv'|]. split; [|split; intros Hd'; congruence].
    intros j r f Hj Hr Hf. destruct (Hfc' h2 _ eq_refl j r f Hj Hr Hf) as [Hp | [Hd' _]]; [left; exact Hp | congruence].
Qed.

(* the SCC's rules are closed on the rows together with what the provider's total serves *)
Lemma post_closed_p : forall T' R' h', PostP T' R' h' ->
  forall j r f, In j (rules_of_scc sc) -> nth_error P j = Some r ->
    In f (derive_rule I (db_of (R' ++ vt h')) r) -> In f (R' ++ vt h').
Proof.
  intros T' R' h' [[Hwf [Hidx [[HR0R HRp] _]]] [Hfc Hq]] j r f Hj Hr Hf.
  assert (Hf' : In f (derive_rule I (sdb (Sv h') (Tv h' T') dyn) r)).
  { revert Hf. apply derive_rule_mono; [unfold no_agg_rule; eapply rule_no_agg; [exact Hnoagg | exact Hr]|].
    intros q _ t Ht. apply in_db_of in Ht. unfold sdb. apply in_app_or in Ht as [Ht | Ht].
    - destruct (HRp _ Ht) as [Hne Hor]. destruct (is_dyn dyn q) eqn:Hdq; apply in_db_of.
      + apply in_Tv. left. apply Hidx. split; [exact Ht | exact Hdq].
      + apply in_Sv. left. destruct Hor as [Hor | Hor].
        * apply HR0_static; [exact Hor | exact Hdq].
        * exfalso. cbn [fst] in Hor. pose proof (hr_dyn arities P sc Hsc q Hor) as Hx. fold dyn in Hx. congruence.
    - unfold vt in Ht. apply in_pairs in Ht as [He Hin]. cbn [fst snd] in He, Hin. subst q. fold dr0.
      destruct dr0 eqn:Hd; apply in_db_of.
      + apply in_Tv. right. auto.
      + apply in_Sv. right. auto. }
  destruct (Hfc j r f Hj Hr Hf') as [[Hne Hin] | [Hd [He Hin]]]; apply in_or_app.
  - left. apply Hidx. exact Hin.
  - right. unfold vt. apply in_pairs. auto.
Qed.
End Inner.

(* ---------- the state between SCCs ---------- *)
Definition GI (st : pstate PV) (hE : hist) : Prop :=
  pps PV st = run tuple PV hE
  /\ (qguarded PV hE /\ g_new tuple (ghh hE) = [])
  /\ (forall u, In u (g_td tuple (ghh hE)) -> length u = n0)
  /\ (forall f, In f (pstored PV st) <-> In f (prows PV st))
  /\ (forall f, In f (prows PV st) -> wf_fact arities f = true /\ fst f <> r0)
  /\ (forall t, In t (srvh hE) -> In t (rdT hE))
  /\ incl (g_td tuple (ghh hE)) (g_t tuple (ghh hE)).

Theorem prun_scc_spec : forall fuel st st' hE,
  GI st hE -> prun_scc I swap PV r0 fuel sc st = Some st' ->
  exists hX, GI st' hX
    /\ (incl (prows PV st) (prows PV st') /\ forall f, In f (prows PV st') -> In f (prows PV st) \/ In (fst f) hr)
    /\ ((forall t, In t (rdT hE) -> In t (rdT hX)) /\ (dr0 = false -> hX = hE))
    /\ (forall M, closed I P M -> cl_closed cl r0 M -> incl (prows PV st) M ->
          (forall t, In t (g_td tuple (ghh hE)) -> In (r0, t) M) ->
          incl (prows PV st') M /\ forall t, In t (g_td tuple (ghh hX)) -> In (r0, t) M)
    /\ (forall j r f, In j (rules_of_scc sc) -> nth_error P j = Some r ->
          In f (derive_rule I (db_of (pfacts PV r0 st')) r) -> In f (pfacts PV r0 st')).
Proof.
  intros fuel st st' hE [Hpps [[HgdE HnewE] [HgarE [Hsr [Hwf [HqE HtdE]]]]]] Hrun.
  set (D0 := filter (fact_dyn dyn) (pstored PV st)).
  set (S := filter (fun f => negb (fact_dyn dyn f)) (pstored PV st)).
  set (hS := if dr0 then hE ++ [PRestart] else hE).
  assert (HS_R0 : incl S (prows PV st)).
  { intros f Hf. apply filter_In in Hf as [Hf _]. apply Hsr. exact Hf. }
  assert (HR0_static : forall f, In f (prows PV st) -> fact_dyn dyn f = false -> In f S).
  { intros f Hf Hd. apply filter_In. split; [apply Hsr; exact Hf | rewrite Hd; reflexivity]. }
  assert (HD0 : forall f, In f D0 <-> In f (prows PV st) /\ fact_dyn dyn f = true).
  { intros f. unfold D0. rewrite filter_In, Hsr. reflexivity. }
  assert (Hps0 : (if is_dyn dyn r0 then p_restart tuple PV (pps PV st) else pps PV st) = run tuple PV hS).
  { unfold hS. fold dr0. destruct dr0; [rewrite run_snoc, Hpps; reflexivity | exact Hpps]. }
  assert (HgdS : qguarded PV hS).
  { unfold hS. destruct dr0; [apply qg_restart; [exact HgdE | exact HnewE | exact HtdE] | exact HgdE]. }
  assert (HnewS : g_new tuple (ghh hS) = []).
  { unfold hS. destruct dr0; [apply gh_restart | exact HnewE]. }
  assert (HgS : forall t, In t (g_td tuple (ghh hS)) -> In t (g_td tuple (ghh hE))).
  { unfold hS. destruct dr0; [|auto]. destruct (gh_restart hE) as [_ [G2 _]]. rewrite G2. apply gh_t_sub_td. }
  assert (HtotS : forall t, In t (rdT hE) -> In t (srvh hS)).
  { unfold hS. destruct dr0; [intros t Ht; apply (ql_restart_serves PV cl HL hE HgdE); exact Ht | apply total_in_srv]. }
  assert (HK0 : Kinv hS []).
  { intros Hd. split; [intros t []|]. intros t Ht. right. unfold hS in *. rewrite Hd in *.
    exact (ql_restart_total PV cl HL hE HgdE t Ht). }
  assert (Hinit : LI' (prows PV st) hS ([] ++ D0) (prows PV st) hS).
  { cbn [app]. split; [|split; [|split; [|split; [|split; [|split]]]]].
    - intros f Hf. apply Hwf. apply HD0. exact Hf.
    - exact HD0.
    - split; [apply incl_refl|]. intros f Hf. split; [apply Hwf; exact Hf | left; exact Hf].
    - split; [exact HgdS | exact HnewS].
    - intros u Hu. apply HgarE. apply HgS. exact Hu.
    - split; auto.
    - intros M _ _ HM Hg. split; assumption. }
  assert (Hsn0 : SNp S [] D0 hS).
  { exists []. split; [exact HK0|]. intros j r f Hj Hr Hnz Hf. unfold derive_rule in Hf.
    rewrite (all_envs_empty_dyn I (sdb (Sv S hS) (Tk [] []) dyn) dyn) in Hf; [destruct Hf | | exact Hnz].
    intros q Hq. unfold sdb. rewrite Hq. unfold Tk, vplus, pairs. destruct dr0; reflexivity. }
  assert (HPost : exists T' hX, (pstored PV st' = S ++ T' /\ pps PV st' = run tuple PV hX)
                                /\ PostP S (prows PV st) hS T' (prows PV st') hX).
  { unfold prun_scc in Hrun. fold dyn in Hrun. fold D0 in Hrun. fold S in Hrun. rewrite Hps0 in Hrun.
    destruct (s_loop sc) eqn:Hl.
    - destruct (pscc_loop I swap PV r0 fuel sc S [] D0 (prows PV st) (run tuple PV hS)) as [[[T' R'] ps']|] eqn:Hloop;
        [|discriminate]. injection Hrun as <-. cbn [prows].
      destruct (pscc_loop_post S (prows PV st) hS Hwf HS_R0 fuel [] D0 (prows PV st) hS T' R' ps' Hinit Hsn0 Hloop)
        as [hX [-> HP]]. exists T', hX. split; [split; reflexivity | exact HP].
    - destruct (pscc_iteration I swap PV r0 sc S [] D0 (prows PV st) (run tuple PV hS)) as [[[N R'] ps1] ch] eqn:Hit.
      injection Hrun as <-. cbn [prows].
      destruct (pscc_once_post S (prows PV st) hS Hwf HS_R0 D0 (prows PV st) hS N R' ps1 ch Hl Hinit Hsn0 Hit)
        as [hX [Hm HP]]. exists (D0 ++ N), hX. cbn [pstored pps]. rewrite Hm. split; [split; reflexivity | exact HP]. }
  destruct HPost as [T' [hX [[Hsto Hppx] HP]]]. exists hX.
  pose proof HP as [[HwfT [Hidx [[HR0R HRp] [[HgdX HnewX] [HgarX [[Hmono Hsame] Hsnd]]]]]] [Hfc [Hq Htd]]].
  assert (Hstat : forall f, In f (prows PV st') -> fact_dyn dyn f = false -> In f S).
  { intros f Hf Hd. destruct (HRp f Hf) as [_ [H | H]]; [apply HR0_static; assumption|].
    exfalso. unfold fact_dyn in Hd. pose proof (hr_dyn arities P sc Hsc _ H) as Hx. fold dyn in Hx. congruence. }
  assert (HhX : dr0 = false -> hX = hE).
  { intros Hd. rewrite (Hsame Hd). unfold hS. try rewrite Hd. reflexivity. }
  split; [|split; [|split; [|split]]].
  - unfold GI. rewrite Hsto. split; [exact Hppx|]. split; [split; [exact HgdX | exact HnewX]|].
    split; [exact HgarX|]. split; [|split; [|split]].
    + intros f. split.
      * intros Hf. apply in_app_or in Hf as [Hf | Hf]; [apply HR0R; apply HS_R0; exact Hf | apply Hidx; exact Hf].
      * intros Hf. apply in_or_app. destruct (fact_dyn dyn f) eqn:Hd; [right; apply Hidx; auto | left; apply Hstat; assumption].
    + intros f Hf. split; [|apply HRp; exact Hf]. destruct (fact_dyn dyn f) eqn:Hd.
      * apply HwfT. apply Hidx. auto.
      * apply Hwf. apply HS_R0. apply Hstat; assumption.
    + destruct dr0 eqn:Hd; [exact (Hq eq_refl)|]. rewrite (HhX eq_refl). exact HqE.
    + destruct dr0 eqn:Hd; [exact (Htd eq_refl)|]. rewrite (HhX eq_refl). exact HtdE.
  - split; [exact HR0R|]. intros f Hf. apply HRp. exact Hf.
  - split; [|exact HhX].
    intros t Ht. destruct dr0 eqn:Hd.
    + apply (Hq eq_refl). apply Hmono. apply HtotS. exact Ht.
    + rewrite (HhX eq_refl). exact Ht.
  - intros M Hc Hclc HM Hg. apply (Hsnd M Hc Hclc HM). intros t Ht. apply Hg. apply HgS. exact Ht.
  - unfold pfacts. rewrite Hppx.
    apply (post_closed_p S (prows PV st) hS HR0_static T' (prows PV st') hX HP).
Qed.
End SccProvW.

(* ================================================================== Engine/ProvProofsW.v over qguarded *)


Section ProgramProvW.
Variable I : interp.
Variable swap : list tuple -> list tuple -> bool.
Variable PV : provider tuple.
Variable cl : list tuple -> list tuple.
Variable r0 : rel.
Variable n0 : nat.
Variable arities : list (rel * nat).
Variable P : list rule.
Variable pl : plan.
Hypothesis Hcl : closure_op tuple cl.
Hypothesis HL : qengine_laws PV cl.
Hypothesis Har : cl_arity cl n0.
Hypothesis Hr0 : In (r0, n0) arities.
Hypothesis Hfun : arities_functional arities.
Hypothesis Hnoagg : no_agg P = true.
Hypothesis Hval : validate arities P pl = true.
Variable F0 : list fact.

Definition JP (k : nat) (st : pstate PV) (h : hist) : Prop :=
  GI PV r0 n0 arities st h
  /\ incl F0 (prows PV st)
  /\ (forall M, incl F0 M -> closed I P M -> cl_closed cl r0 M ->
        incl (prows PV st) M /\ forall t, In t (g_td tuple (gh h)) -> In (r0, t) M)
  /\ (forall j r i, nth_error P j = Some r -> rule_scc pl j i -> i < k ->
        forall f, In f (derive_rule I (db_of (pfacts PV r0 st)) r) -> In f (pfacts PV r0 st)).

Lemma in_pfacts : forall st f,
  In f (pfacts PV r0 st) <-> In f (prows PV st) \/ (fst f = r0 /\ In (snd f) (p_read tuple PV (pps PV st) Provider.VTotal)).
Proof.
  intros st f. unfold pfacts. rewrite in_app_iff. change (map (fun t => (r0, t)) ?l) with (pairs r0 l).
  rewrite in_pairs. reflexivity.
Qed.

Lemma JP_step : forall fuel k sc st st' h,
  nth_error pl k = Some sc -> JP k st h -> prun_scc I swap PV r0 fuel sc st = Some st' ->
  exists h', JP (S k) st' h'.
Proof.
  intros fuel k sc st st' h Hn [HG [HF0 [Hsnd Hcl']]] Hrun.
  pose proof (val_scc_ok arities P pl Hval k sc Hn) as Hsc.
  destruct (prun_scc_spec I swap PV cl r0 n0 arities P Hcl HL Har Hr0 Hfun Hnoagg sc Hsc fuel st st' h HG Hrun)
    as [hX [HG' [[Hrows Hnewrows] [[Htot Hsame] [Hsnd' Hclk]]]]].
  pose proof HG as [Hpps _]. pose proof HG' as [Hpps' _].
  assert (Hmono : forall f, In f (pfacts PV r0 st) -> In f (pfacts PV r0 st')).
  { intros f Hf. apply in_pfacts in Hf as [Hf | [He Hin]]; apply in_pfacts; [left; apply Hrows; exact Hf|].
    right. split; [exact He|]. rewrite Hpps'. apply Htot. unfold rd. rewrite <- Hpps. exact Hin. }
  exists hX. split; [exact HG'|]. split; [eapply incl_tran; eassumption|]. split.
  - intros M HM Hc Hclc. destruct (Hsnd M HM Hc Hclc) as [H1 H2]. apply (Hsnd' M Hc Hclc H1 H2).
  - intros j r i Hr Hi Hlt f Hf. destruct (Nat.eq_dec i k) as [-> | Hne].
    + destruct Hi as [sc' [Hn' Hin]]. rewrite Hn in Hn'. injection Hn' as <-. apply (Hclk j r f Hin Hr Hf).
    + assert (Hik : i < k) by lia. apply Hmono. apply (Hcl' j r i Hr Hi Hik).
      revert Hf. apply derive_rule_mono.
      * unfold no_agg in Hnoagg. rewrite forallb_forall in Hnoagg. apply Hnoagg. eapply nth_error_In. exact Hr.
      * intros q Hq t Ht. apply in_db_of in Ht. apply in_db_of.
        assert (Hcontra : In q (scc_head_rels P sc) -> False).
        { intros Hh. unfold scc_head_rels in Hh. apply in_flat_map in Hh as [j' [Hj' Hh]].
          destruct (nth_error P j') as [r'|] eqn:Hr'; [|destruct Hh].
          assert (Hk' : rule_scc pl j' k) by (exists sc; split; assumption).
          pose proof (strat_order arities P pl Hval j r j' r' i k q Hr Hr' Hi Hk' Hq Hh). lia. }
        apply in_pfacts in Ht as [Ht | [He Hin]]; apply in_pfacts.
        -- destruct (Hnewrows _ Ht) as [H | H]; [left; exact H | exfalso; exact (Hcontra H)].
        -- cbn [fst snd] in He, Hin. subst q. right. split; [reflexivity|]. cbn [snd].
           destruct (is_dyn (s_dyn sc) r0) eqn:Hd.
           ++ exfalso. apply Hcontra. apply (dyn_hr arities P sc Hsc). exact Hd.
           ++ rewrite Hpps. rewrite <- (Hsame eq_refl). rewrite <- Hpps'. exact Hin.
Qed.

Lemma prun_sccs_JP : forall fuel rest pre st h st',
  pl = pre ++ rest -> JP (length pre) st h -> prun_sccs I swap PV r0 fuel rest st = Some st' ->
  exists h', JP (length pl) st' h'.
Proof.
  intros fuel. induction rest as [|sc rest IH]; intros pre st h st' Hpl HJ Hrun.
  - cbn [prun_sccs] in Hrun. injection Hrun as <-. exists h.
    assert (Hlen : length pl = length pre) by (rewrite Hpl, app_nil_r; reflexivity). rewrite Hlen. exact HJ.
  - cbn [prun_sccs] in Hrun. destruct (prun_scc I swap PV r0 fuel sc st) as [st1|] eqn:H1; [|discriminate].
    assert (Hn : nth_error pl (length pre) = Some sc).
    { rewrite Hpl, nth_error_app2, Nat.sub_diag; [reflexivity | lia]. }
    destruct (JP_step fuel (length pre) sc st st1 h Hn HJ H1) as [h1 HJ1].
    apply (IH (pre ++ [sc]) st1 h1 st').
    + rewrite <- app_assoc. exact Hpl.
    + rewrite app_length. cbn [length]. replace (length pre + 1) with (S (length pre)) by lia. exact HJ1.
    + exact Hrun.
Qed.
End ProgramProvW.

Theorem prun_plan_correct_q : forall I swap, prun_plan_correct_q_stmt I swap.
Proof.
  intros I swap PV cl r0 n0 arities P pl fuel F0 st Hcl HL Har Hr0 Hfun HwfF0 Hna Hfree Hval Hrun.
  unfold prun_plan in Hrun.
  assert (HJ0 : JP I PV cl r0 n0 arities P pl F0 (length (@nil pscc))
                  {| prows := F0; pstored := F0; pps := p_init tuple PV |} []).
  { split; [|split; [apply incl_refl | split]].
    - unfold GI. cbn [pps pstored prows]. split; [reflexivity|]. split; [split; [apply qg_nil | reflexivity]|].
      split; [intros u []|]. split; [intros f; reflexivity|]. split.
      + intros f Hf. split; [apply (proj1 (wf_facts_forall arities F0) HwfF0 f Hf) | apply Hfree; exact Hf].
      + split; [intros t Ht; exfalso; exact (srv_nil_w PV cl Hcl HL t Ht) | intros t []].
    - intros M HM _ _. cbn [prows]. split; [exact HM | intros t []].
    - intros j r i _ _ Hlt. cbn [length] in Hlt. lia. }
  destruct (prun_sccs_JP I swap PV cl r0 n0 arities P pl Hcl HL Har Hr0 Hfun Hna Hval F0 fuel pl [] _ [] st eq_refl HJ0 Hrun)
    as [h [HG [HF0 [Hsnd Hclo]]]].
  pose proof HG as [Hpps [[Hgd _] [_ [_ [Hrows [Hq _]]]]]].
  assert (Hdb : forall t, In t (db_of (pfacts PV r0 st) r0) <-> In t (rd PV h Provider.VTotal)).
  { intros t. rewrite in_db_of, (in_pfacts PV r0). cbn [fst snd]. rewrite Hpps. split.
    - intros [Hin | [_ Hin]]; [exfalso; exact (proj2 (Hrows _ Hin) eq_refl) | exact Hin].
    - intros Hin. right. split; [reflexivity | exact Hin]. }
  split; [|split; [|split]].
  - intros f Hf. apply (in_pfacts PV r0). left. apply HF0. exact Hf.
  - intros f [r [Hr Hf]]. apply In_nth_error in Hr as [j Hj].
    assert (Hlt : j < length P) by (apply nth_error_Some; congruence).
    destruct (val_rule_scc arities P pl Hval j Hlt) as [k Hk].
    assert (Hk' : k < length pl). { destruct Hk as [sc [Hn _]]. apply nth_error_Some. congruence. }
    apply (Hclo j r k Hj Hk Hk' f Hf).
  - (* at a stratum boundary total = served = cl (g_td) *)
    intros t Ht. apply Hdb. apply Hq. apply (srv_iff_w PV cl HL h t Hgd). apply (cl_idem tuple cl Hcl).
    revert Ht. apply (cl_mono tuple cl Hcl). intros u Hu. apply (srv_iff_w PV cl HL h u Hgd).
    apply total_in_srv. apply Hdb. exact Hu.
  - intros M HM Hc Hclc. destruct (Hsnd M HM Hc Hclc) as [H1 H2]. intros f Hf.
    apply (in_pfacts PV r0) in Hf as [Hf | [He Hin]]; [apply H1; exact Hf|].
    rewrite (fact_eta f r0 He). apply (cl_in_M cl r0 Hcl _ M _ H2 Hclc).
    apply (srv_iff_w PV cl HL h _ Hgd). apply total_in_srv. rewrite Hpps in Hin. exact Hin.
Qed.


Print Assumptions prun_plan_correct_q.
