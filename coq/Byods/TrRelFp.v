(* C11 — 63-bit fingerprints of the model's observation traces.  Used ONLY by the tie (gen/c11_ds.py evaluates
   fp_hist (run_bin ..) with vm_compute and compares with the same fingerprint of the implementation's observations);
   no theorem depends on this file, which keeps primitive integers out of the property file's closure. *)
From Coq Require Import List ZArith Bool Uint63.
From AV Require Import Byods.TrRelModel.
Import ListNotations.
Open Scope Z_scope.

(* ------------------------------------------------------------------ fingerprints (tie only) *)

Definition fp_mul : Uint63.int := Eval vm_compute in Uint63.of_Z 131105.
Definition fp_one : Uint63.int := Eval vm_compute in Uint63.of_Z 1.
Definition fp_init : Uint63.int := Eval vm_compute in Uint63.of_Z 7.
Definition fp (l : list Z) : Uint63.int :=
  fold_left (fun h v => Uint63.add (Uint63.add (Uint63.mul h fp_mul) (Uint63.of_Z v)) fp_one) l fp_init.
Definition fp_steps (t : trace) : trace :=
  match t with
  | TOk s => TOk (map (fun l => [Uint63.to_Z (fp l)]) s)
  | TErr s i => TErr (map (fun l => [Uint63.to_Z (fp l)]) s) i
  end.
Definition fp_hist (t : trace) : trace :=
  match fp_steps t with
  | TOk s => TOk [[Uint63.to_Z (fp (concat s))]]
  | TErr s i => TErr [[Uint63.to_Z (fp (concat s))]] i
  end.
