(* C11 — the trrel provider inside the engine: the binary and the ternary model packaged as `provider tuple`
   (Byods/Provider.v through Byods/TrRelAdapter.v), Engine/ProvLaws.engine_laws proved for them with cl = the
   transitive closure (per key), and the program-level corollaries through Engine/ProvProofsW.prun_plan_correct_w:
   a program with a relation tagged #[ds(trrel)] computes the least model of the program extended with the explicit
   rule r(x,z) <-- r(x,y), r(y,z)  (r(k,x,z) <-- r(k,x,y), r(k,y,z) for the ternary form).

   Relation between the histories: ProvLaws.guarded = an insertion only for a tuple that neither total nor delta
   contains; a stratum boundary at ANY point (what is in delta / new is then dropped, and the ghost of Provider.v
   drops it too).  The protocol histories of TrRelProofs.brun / TrRelTernary.trun are the guarded histories whose
   boundaries come only after a merge with empty `new` (the head update's contains tests are part of binsert /
   tinsert there).  At the level of SETS the trrel model meets the laws on ALL histories, guarded or not (K_all,
   KT_all below): the guard is needed only for multiplicities (insert_unique_unchecked), which engine_laws does
   not mention. *)
From Coq Require Import List ZArith Bool Arith Lia.
From AV Require Import Engine.Core Engine.Sem Engine.Eval Engine.Validate Engine.Naive Engine.Interface Engine.NaiveLemmas.
From AV Require Import Byods.Provider Engine.EvalProv Engine.InterfaceProv Engine.ProvLaws Engine.ProvProofsW.
From AV Require Byods.Closure.
From AV Require Byods.Ternary.
From AV Require Import Byods.TrRelModel Byods.TrRelProofs Byods.TrRelTernary Byods.TrRelAdapter.
Import ListNotations.
Open Scope Z_scope.

(* ------------------------------------------------------------------ the binary provider over pairs *)

Definition pb_ins (st : bstate) (p : TrRelModel.pair) : bstate * bool :=
  let '(n, r) := brel_insert p (b_new st) in ({| b_new := n; b_delta := b_delta st; b_total := b_total st |}, r).
Definition pb_merge (b : bool) (st : bstate) : bstate := match bmerge b st with Some s => s | None => st end.
Definition pb_read (st : bstate) (v : ver) : list TrRelModel.pair :=
  match v with Provider.VTotal => b_total st | Provider.VDelta => b_delta st end.

Definition PB (b : bool) : provider TrRelModel.pair :=
  {| St := bstate; p_init := bempty; p_ins := pb_ins; p_merge := pb_merge b; p_restart := brestart;
     p_read := pb_read; p_contains := fun st v p => pmem p (pb_read st v);
     View := unit; Ix := unit; p_get := fun _ _ _ => None; p_all := fun _ _ _ => []; v_sel := fun _ _ => false; v_ix := fun _ => tt |}.

Lemma tc_nil_false x y : ~ tc [] x y.
Proof. intros H. induction H as [x y []|x y z _ _ []]. Qed.
Lemma cl_nil_false b p : ~ cl b [] p.
Proof. intros [[]|[H _]]. exact (tc_nil_false _ _ H). Qed.

(* total = cl(g_t), total + delta = cl(g_td), new = g_new (as sets), for the ghost of Provider.v *)
Record K (b : bool) (st : bstate) (g : ghost TrRelModel.pair) : Prop := {
  k_t : forall p, In p (b_total st) <-> cl b (g_t _ g) p;
  k_td : forall p, In p (reads st) <-> cl b (g_td _ g) p;
  k_new : forall p, In p (b_new st) <-> In p (g_new _ g);
  k_nd : NoDup (b_new st) }.

Lemma K_init b : K b bempty (ghost_init _).
Proof.
  constructor; cbn; try (intros p; split; [intros [] | intros H; exact (cl_nil_false _ _ H)]); [tauto | constructor].
Qed.

Lemma K_ins b st g p : K b st g -> K b (fst (pb_ins st p)) (ghost_step _ g (PIns p)).
Proof.
  intros [kt ktd kn knd]. unfold pb_ins, brel_insert. destruct (pmem p (b_new st)) eqn:M; cbn [fst ghost_step g_t g_td g_new].
  - constructor; cbn [ghost_step g_t g_td g_new b_total b_delta b_new]; auto. intros q. rewrite in_app_iff, <- kn. cbn. split; [tauto|].
    intros [H|[<-|[]]]; [exact H | apply pmem_spec; exact M].
  - constructor; unfold reads; cbn [ghost_step g_t g_td g_new b_total b_delta b_new]; auto.
    + intros q. rewrite !in_app_iff, <- kn. reflexivity.
    + apply NoDup_snoc; [exact knd | apply pmem_false; exact M].
Qed.

Lemma K_merge b st g st' : K b st g -> bmerge b st = Some st' -> K b st' (ghost_step _ g PMerge).
Proof.
  intros [kt ktd kn knd] M.
  assert (HB : bclosed b (reads st)) by (eapply cl_bclosed_set; exact ktd).
  pose proof (bmerge_cl b st st' HB M) as E. destruct (bmerge_total_eq b st st' M) as [Et En].
  assert (R : forall p, In p (reads st') <-> cl b (g_td _ g ++ g_new _ g) p).
  { intros p. unfold reads at 1. rewrite E.
    rewrite (cl_app_congr b (b_total st ++ b_delta st) (g_td _ g) (b_new st)).
    - apply cl_same_elements. intros q. rewrite !in_app_iff, kn. reflexivity.
    - intros q. rewrite (cl_of_closed b _ q HB). apply ktd. }
  constructor; cbn [ghost_step g_t g_td g_new].
  - intros p. rewrite Et. apply ktd.
  - exact R.
  - rewrite En. tauto.
  - rewrite En. constructor.
Qed.

Lemma K_restart b st g : K b st g -> K b (brestart st) (ghost_step _ g PRestart).
Proof.
  intros [kt ktd kn knd]. constructor; unfold reads, brestart; cbn [ghost_step g_t g_td g_new b_total b_delta b_new app].
  - intros p. split; [intros [] | intros H; exact (cl_nil_false _ _ H)].
  - exact kt.
  - tauto.
  - constructor.
Qed.

(* on ALL histories *)
Theorem K_all b : forall h, K b (run _ (PB b) h) (ghost_of _ h).
Proof.
  induction h as [|o h IH] using rev_ind; [apply K_init|].
  rewrite run_snoc, ghost_of_snoc. destruct o as [p| |]; cbn [step PB p_ins p_merge p_restart].
  - apply K_ins. exact IH.
  - unfold pb_merge. destruct (bmerge_total b (run _ (PB b) h) (k_nd _ _ _ IH)) as [st' M]. cbn [PB St] in *. rewrite M.
    eapply K_merge; eauto.
  - apply K_restart. exact IH.
Qed.

Lemma K_first_insert b st g p : K b st g -> g_new _ g = [] -> snd (pb_ins st p) = true.
Proof.
  intros [_ _ kn _] Hn. unfold pb_ins, brel_insert. destruct (pmem p (b_new st)) eqn:M; [|reflexivity].
  apply pmem_spec in M. apply kn in M. rewrite Hn in M. destruct M.
Qed.

Lemma K_quiescent b st g st' : K b st g -> g_new _ g = [] -> bmerge b st = Some st' ->
  forall p, In p (b_delta st') -> In p (b_total st').
Proof.
  intros [kt ktd kn knd] Hn M p Hp.
  assert (HB : bclosed b (reads st)) by (eapply cl_bclosed_set; exact ktd).
  destruct (bmerge_spec b st st' HB M) as (_ & Et & Hd). apply Hd in Hp. rewrite Et.
  assert (Enew : b_new st = []). { destruct (b_new st) as [|q l]; [reflexivity|]. exfalso. assert (In q (g_new _ g)) by (apply kn; left; reflexivity). rewrite Hn in H. destruct H. }
  destruct Hp as [Hp|(Htc & Hok & Hnot)]; [rewrite Enew in Hp; destruct Hp|].
  exfalso. apply Hnot. rewrite Enew, app_nil_r in Htc. destruct p as [x y]. apply (bclosed_tc b _ HB x y Htc Hok).
Qed.

(* ---- the laws over pairs, cl = the executable transitive closure of Byods/Closure.v *)

Lemma tc_closure_op : closure_op (Z * Z) Closure.tc.
Proof. constructor; first [exact Closure.tc_extensive | exact Closure.tc_monotone | exact Closure.tc_idem | exact Closure.tc_nil | reflexivity]. Qed.

Lemma cl_false_shared R p : cl false R p <-> In p (Closure.tc R).
Proof. destruct p as [x y]. rewrite cl_false_tc, Closure.tc_spec. cbn [fst snd]. apply tc_iff_shared. Qed.

Theorem trrel_binary_elaws : elawsT _ (PB false) Closure.tc.
Proof.
  constructor.
  - intros h v t _. cbn [PB p_contains p_read]. apply pmem_spec.
  - intros h _. pose proof (K_all false h) as [_ ktd _ _]. unfold served. cbn [PB p_read pb_read]. split; intros p Hp.
    + apply cl_false_shared. apply ktd. exact Hp.
    + apply ktd. apply cl_false_shared. exact Hp.
  - intros h t _ _ _ Hn. cbn [PB p_ins]. eapply K_first_insert; [apply (K_all false h) | exact Hn].
  - intros h _. rewrite run_snoc. cbn [step PB p_merge p_read pb_read]. unfold pb_merge.
    destruct (bmerge_total false (run _ (PB false) h) (k_nd _ _ _ (K_all false h))) as [st' M]. cbn [PB St] in *. rewrite M.
    destruct (bmerge_total_eq _ _ _ M) as [Et _]. rewrite Et. unfold served. cbn [PB p_read pb_read]. apply incl_appl. apply incl_refl.
  - intros h _ Hn. rewrite run_snoc. cbn [step PB p_merge]. unfold pb_merge.
    destruct (bmerge_total false (run _ (PB false) h) (k_nd _ _ _ (K_all false h))) as [st' M]. cbn [PB St] in *. rewrite M.
    unfold served. cbn [PB p_read pb_read]. intros p Hp. apply in_app_or in Hp. destruct Hp as [Hp|Hp]; [exact Hp|].
    eapply K_quiescent; [apply (K_all false h) | exact Hn | exact M | exact Hp].
  - intros h _. rewrite run_snoc. cbn [step PB p_restart]. unfold served, brestart. cbn [PB p_read pb_read b_total b_delta app]. apply incl_refl.
  - intros h _. rewrite run_snoc. cbn [step PB p_restart]. unfold brestart. cbn [PB p_read pb_read b_total]. intros p [].
Qed.

(* ---- packaged over list Z *)
Definition enc2 (p : TrRelModel.pair) : tuple := [fst p; snd p].
Definition dec2 (t : tuple) : option TrRelModel.pair := match t with [a; b] => Some (a, b) | _ => None end.
Lemma dec2_enc2 x : dec2 (enc2 x) = Some x.
Proof. destruct x; reflexivity. Qed.
Lemma enc2_dec2 t x : dec2 t = Some x -> enc2 x = t.
Proof. destruct t as [|a [|b [|c t]]]; cbn; try discriminate. intros H; inversion H; reflexivity. Qed.

(* the binary #[ds(trrel)] relation as the engine sees it (flag as shipped) and its closure operator *)
Definition trrel_binary : provider tuple := adapt _ (PB shipped_arefl) enc2 dec2.
Definition tc2 : list tuple -> list tuple := acl _ enc2 dec2 Closure.tc.

Theorem tc2_closure_op : closure_op tuple tc2.
Proof. apply acl_closure_op; [exact dec2_enc2 | exact enc2_dec2 | exact tc_closure_op]. Qed.
Theorem tc2_arity : cl_arity tc2 2.
Proof. apply acl_arity. intros [x y]; reflexivity. Qed.
Theorem trrel_binary_engine_laws : engine_laws trrel_binary tc2.
Proof. apply adapt_engine_laws; first [exact dec2_enc2 | exact enc2_dec2 | exact tc_closure_op | exact trrel_binary_elaws]. Qed.

(* ---- the explicit rule r0(x,z) <-- r0(x,y), r0(y,z) *)
Definition tc_rule (r0 : rel) : rule :=
  {| heads := [(r0, [TVar 0%nat; TVar 2%nat])]; body := [BClause r0 [TVar 0%nat; TVar 1%nat] []; BClause r0 [TVar 1%nat; TVar 2%nat] []] |}.

Lemma derive_tc_rule I db r0 f :
  In f (derive_rule I db (tc_rule r0)) <-> exists x y z, f = (r0, [x; z]) /\ In [x; y] (db r0) /\ In [y; z] (db r0).
Proof.
  unfold derive_rule, tc_rule. cbn [body heads all_envs]. rewrite in_flat_map. split.
  - intros [e [He Hf]]. apply in_flat_map in He. destruct He as [t1 [H1 He]].
    destruct t1 as [|x [|y [|c t1]]]; cbn in He; try (destruct He; fail).
    apply in_flat_map in He. destruct He as [t2 [H2 He]].
    destruct t2 as [|a [|z [|c t2]]]; cbn in He; try (destruct He; fail);
      destruct (y =? a) eqn:E; cbn in He; try (destruct He; fail).
    apply Z.eqb_eq in E. subst a. destruct He as [<-|[]]. cbn in Hf. destruct Hf as [<-|[]]. exists x, y, z. auto.
  - intros (x & y & z & -> & H1 & H2). exists [Some x; Some y; Some z]. split; [|left; reflexivity].
    apply in_flat_map. exists [x; y]. split; [exact H1|]. cbn. apply in_flat_map. exists [y; z]. split; [exact H2|].
    cbn. rewrite Z.eqb_refl. left; reflexivity.
Qed.

Lemma tc2_in s t : In t (tc2 s) <-> (exists x y, t = [x; y] /\ Closure.tc_rel (decs _ dec2 s) x y) \/ (In t s /\ dec2 t = None).
Proof.
  unfold tc2. rewrite (acl_in _ enc2 dec2). split.
  - intros [[[x y] [E H]]|H]; [left; exists x, y; split; [exact E | apply Closure.tc_spec; exact H] | right; exact H].
  - intros [(x & y & E & H)|H]; [left; exists (x, y); split; [exact E | apply Closure.tc_spec; exact H] | right; exact H].
Qed.

Theorem tc2_closed_iff_rule I r0 M : cl_closed tc2 r0 M <-> closed I [tc_rule r0] M.
Proof.
  unfold cl_closed, closed, derives. split.
  - intros H f [r [[<-|[]] Hf]]. apply derive_tc_rule in Hf. destruct Hf as (x & y & z & -> & H1 & H2).
    apply in_db_of. apply H. apply tc2_in. left. exists x, z. split; [reflexivity|].
    eapply Closure.tc_trans; apply Closure.tc_base; apply (decs_in _ enc2 dec2 dec2_enc2 enc2_dec2); cbn; eassumption.
  - intros H t Ht. apply tc2_in in Ht. destruct Ht as [(x & y & -> & Htc)|[Ht _]]; [|exact Ht].
    induction Htc as [x y Hb | x y z _ IH1 _ IH2].
    + apply (decs_in _ enc2 dec2 dec2_enc2 enc2_dec2) in Hb. exact Hb.
    + apply in_db_of. apply H. exists (tc_rule r0). split; [left; reflexivity|]. apply derive_tc_rule. exists x, y, z. auto.
Qed.

Lemma closed_app I P Q M : closed I (P ++ Q) M <-> closed I P M /\ closed I Q M.
Proof.
  unfold closed, derives. split.
  - intros H. split; intros f [r [Hr Hf]]; apply H; exists r; (split; [apply in_or_app; auto | exact Hf]).
  - intros [H1 H2] f [r [Hr Hf]]. apply in_app_or in Hr. destruct Hr as [Hr|Hr]; [apply H1 | apply H2]; exists r; auto.
Qed.

(* least_model_cl with the closure tc2 = the least model of the program extended with the explicit rule *)
Theorem least_model_tc2_iff I P r0 F0 M :
  least_model_cl I P tc2 r0 F0 M <-> least_model I (P ++ [tc_rule r0]) F0 M.
Proof.
  unfold least_model_cl, least_model. split.
  - intros (A & B & C & D). split; [exact A|]. split; [apply closed_app; split; [exact B | apply tc2_closed_iff_rule; exact C]|].
    intros M' H1 H2. apply closed_app in H2. destruct H2 as [H2 H3]. apply D; auto. apply (tc2_closed_iff_rule I); exact H3.
  - intros (A & B & D). apply closed_app in B. destruct B as [B C]. split; [exact A|]. split; [exact B|].
    split; [apply (tc2_closed_iff_rule I); exact C|]. intros M' H1 H2 H3. apply D; auto. apply closed_app. split; [exact H2 | apply tc2_closed_iff_rule; exact H3].
Qed.

(* the program-level statement for the binary form *)
Theorem trrel_program_binary : forall I swap r0 arities P pl fuel F0 st,
  In (r0, 2%nat) arities -> arities_functional arities -> wf_facts arities F0 = true -> no_agg P = true ->
  (forall f, In f F0 -> fst f <> r0) -> validate arities P pl = true ->
  prun_plan I swap trrel_binary r0 fuel pl F0 = Some st ->
  least_model I (P ++ [tc_rule r0]) F0 (pfacts trrel_binary r0 st).
Proof.
  intros I swap r0 arities P pl fuel F0 st H1 H2 H3 H4 H5 H6 H7. apply least_model_tc2_iff.
  eapply (prun_plan_correct_w I swap trrel_binary tc2 r0 2%nat arities P pl fuel F0 st); eauto.
  - exact tc2_closure_op.
  - exact trrel_binary_engine_laws.
  - exact tc2_arity.
Qed.

(* ------------------------------------------------------------------ the ternary provider over (key, pair) *)

Definition T3 : Type := (Z * TrRelModel.pair)%type.
Definition tri (t : T3) : triple := (fst t, fst (snd t), snd (snd t)).

(* TrRel2IndFullWrite::insert_if_not_present alone (the head update's contains tests are the guard of the history) *)
Definition tins_raw (h : bool) (t : T3) (st : tstate) : tstate * bool :=
  let k := fst t in let x := fst (snd t) in let y := snd (snd t) in
  let nw := t_new st in
  let '(c, r) := brel_insert (x, y) (kget k (t_map nw)) in
  if r then
    ({| t_new := {| t_map := kset k c (t_map nw);
                    t_rev1 := if h then padd (x, k) (t_rev1 nw) else [];
                    t_rev2 := if h then padd (y, k) (t_rev2 nw) else [] |};
        t_delta := t_delta st; t_total := t_total st |}, true)
  else (st, false).

Definition tver_of (st : tstate) (v : ver) : tver := match v with Provider.VTotal => t_total st | Provider.VDelta => t_delta st end.
Definition pt_read (st : tstate) (v : ver) : list T3 :=
  map (fun t : triple => (fst (fst t), (snd (fst t), snd t))) (tall (tver_of st v)).
Definition pt_merge (b h : bool) (st : tstate) : tstate := match tmerge b h st with Some s => s | None => st end.

Definition PT (b h : bool) : provider T3 :=
  {| St := tstate; p_init := tempty; p_ins := fun st t => tins_raw h t st; p_merge := pt_merge b h; p_restart := trestart;
     p_read := pt_read; p_contains := fun st v t => tcontains (tri t) (tver_of st v);
     View := unit; Ix := unit; p_get := fun _ _ _ => None; p_all := fun _ _ _ => []; v_sel := fun _ _ => false; v_ix := fun _ => tt |}.

Lemma tins_raw_slice h k x y st :
  slice k (fst (tins_raw h (k, (x, y)) st)) = fst (pb_ins (slice k st) (x, y)) /\
  snd (tins_raw h (k, (x, y)) st) = snd (pb_ins (slice k st) (x, y)) /\
  (forall k', k' <> k -> slice k' (fst (tins_raw h (k, (x, y)) st)) = slice k' st) /\
  (twf st -> twf (fst (tins_raw h (k, (x, y)) st))).
Proof.
  unfold tins_raw, pb_ins. cbn [fst snd slice b_new b_delta b_total].
  unfold brel_insert. destruct (pmem (x, y) (kget k (t_map (t_new st)))) eqn:Mn.
  - cbn. split; [|split; [|split]]; auto.
  - cbn [fst snd]. unfold slice. cbn [t_new t_delta t_total t_map]. rewrite kget_kset_same. split; [reflexivity | split; [reflexivity | split]].
    + intros k' Hne. rewrite kget_kset_other by (intro; apply Hne; symmetry; assumption). reflexivity.
    + intros [W1 W2 W3]. constructor; cbn; auto. apply kwf_kset; exact W1.
Qed.

Lemma tall_in v k x y : kwf (t_map v) -> (In (k, x, y) (tall v) <-> In (x, y) (kget k (t_map v))).
Proof.
  intros W. unfold tall. rewrite in_flat_map. split.
  - intros [[k0 c] [Hm H]]. apply in_map_iff in H. destruct H as [[x0 y0] [E Hp]]. cbn in E. inversion E; subst.
    unfold kget. rewrite (kwf_In_klookup _ _ _ W Hm). exact Hp.
  - intros H. unfold kget in H. destruct (klookup k (t_map v)) as [c|] eqn:L; [|destruct H].
    exists (k, c). split; [apply klookup_In; exact L|]. apply in_map_iff. exists (x, y). split; [reflexivity | exact H].
Qed.

Lemma pt_read_in st v k p : kwf (t_map (tver_of st v)) -> (In (k, p) (pt_read st v) <-> In p (kget k (t_map (tver_of st v)))).
Proof.
  intros W. destruct p as [x y]. rewrite <- (tall_in _ k x y W). unfold pt_read. rewrite in_map_iff. split.
  - intros [[[k0 x0] y0] [E H]]. cbn in E. inversion E; subst. exact H.
  - intros H. exists (k, x, y). split; [reflexivity | exact H].
Qed.

(* ---- the merge of a reachable state is defined *)
Lemma kget_kremove k k0 m : kget k (kremove k0 m) = [] \/ kget k (kremove k0 m) = kget k m.
Proof.
  unfold kget. destruct (Z.eq_dec k0 k) as [->|Hne]; [left; rewrite klookup_kremove_same; reflexivity | right; rewrite klookup_kremove_other by exact Hne; reflexivity].
Qed.

Lemma tmerge_delta_keys_defined b : forall dm nm tm ndm,
  (forall k, NoDup (kget k nm)) ->
  exists nm' tm' ndm', tmerge_delta_keys b dm nm tm ndm = Some (nm', tm', ndm') /\ forall k, NoDup (kget k nm').
Proof.
  induction dm as [|[k0 d0] dm IH]; intros nm tm ndm Hn; cbn [tmerge_delta_keys].
  - exists nm, tm, ndm. split; [reflexivity | exact Hn].
  - destruct (bmerge_total b {| b_new := kget k0 nm; b_delta := d0; b_total := kget k0 tm |} (Hn k0)) as [r M]. rewrite M.
    apply IH. intros k. destruct (kget_kremove k k0 nm) as [E|E]; rewrite E; [constructor | apply Hn].
Qed.

Lemma tmerge_new_keys_defined b : forall nm tm ndm,
  kwf nm -> (forall k, NoDup (kget k nm)) -> exists r, tmerge_new_keys b nm tm ndm = Some r.
Proof.
  induction nm as [|[k0 n0] nm IH]; intros tm ndm W Hn; cbn [tmerge_new_keys]; [eexists; reflexivity|].
  assert (Hn0 : NoDup n0). { specialize (Hn k0). unfold kget in Hn. cbn in Hn. rewrite Z.eqb_refl in Hn. exact Hn. }
  unfold kwf in W. cbn in W. inversion W as [|? ? Hnotin W']; subst.
  assert (Ht : forall k, NoDup (kget k nm)).
  { intros k. destruct (Z.eq_dec k0 k) as [->|Hne].
    - unfold kget. replace (klookup k nm) with (@None brel); [constructor|]. symmetry. apply klookup_None_notin. exact Hnotin.
    - specialize (Hn k). unfold kget in *. cbn in Hn. destruct (k0 =? k) eqn:E; [apply Z.eqb_eq in E; contradiction | exact Hn]. }
  destruct (klookup k0 tm) as [t|].
  - destruct (bmerge_total b {| b_new := n0; b_delta := []; b_total := t |} Hn0) as [r M]. rewrite M. apply IH; assumption.
  - destruct (bmerge_total b {| b_new := n0; b_delta := []; b_total := [] |} Hn0) as [r M]. rewrite M. apply IH; assumption.
Qed.

Lemma tmerge_defined b h st : twf st -> (forall k, NoDup (kget k (t_map (t_new st)))) -> exists st', tmerge b h st = Some st'.
Proof.
  intros [W1 W2 W3] Hn. unfold tmerge, tmerge_gen.
  destruct (tmerge_delta_keys_defined b (t_map (t_delta st)) (t_map (t_new st)) (t_map (t_total st)) [] Hn) as (nm & tm & ndm & E & Hn').
  rewrite E.
  assert (F0 : forall k, In k (map fst (t_map (t_delta st))) -> klookup k (@nil (Z * brel)) = None) by reflexivity.
  destruct (tmerge_delta_keys_wf b _ _ _ _ _ _ _ W2 F0 W1 W3 (NoDup_nil _) E) as (Wn & _ & _).
  destruct (tmerge_new_keys_defined b nm tm ndm Wn Hn') as [[tm' ndm'] E2]. rewrite E2. eexists; reflexivity.
Qed.

(* ---- the invariant, key by key, on ALL histories *)
Definition gk (k : Z) (g : ghost T3) : ghost TrRelModel.pair :=
  mkG _ (Ternary.proj _ k (g_t _ g)) (Ternary.proj _ k (g_td _ g)) (Ternary.proj _ k (g_new _ g)).

Definition KT (b : bool) (st : tstate) (g : ghost T3) : Prop := twf st /\ forall k, K b (slice k st) (gk k g).

Theorem KT_all b h : forall hist, KT b (run _ (PT b h) hist) (ghost_of _ hist).
Proof.
  induction hist as [|o hist IH] using rev_ind.
  - split; [constructor; cbn; constructor | intros k; apply K_init].
  - destruct IH as [W HK]. rewrite run_snoc, ghost_of_snoc. destruct o as [[k [x y]]| |]; cbn [step PT p_ins p_merge p_restart]; cbv beta.
    + destruct (tins_raw_slice h k x y (run _ (PT b h) hist)) as (E1 & _ & E3 & E4). split; [apply E4; exact W|].
      intros k'. unfold gk. cbn [ghost_step g_t g_td g_new]. rewrite Ternary.proj_snoc. destruct (Z.eq_dec k' k) as [->|Hne].
      * rewrite Z.eqb_refl. match goal with |- K b ?s ?g => replace s with (fst (pb_ins (slice k (run _ (PT b h) hist)) (x, y))) by (symmetry; exact E1) end.
        apply (K_ins b _ (gk k (ghost_of _ hist)) (x, y)). apply HK.
      * match goal with |- K b ?s ?g => replace s with (slice k' (run _ (PT b h) hist)) by (symmetry; exact (E3 k' Hne)) end.
        replace (k =? k') with false by (symmetry; apply Z.eqb_neq; intro; apply Hne; symmetry; assumption).
        rewrite app_nil_r. apply HK.
    + unfold pt_merge. destruct (tmerge_defined b h _ W (fun k => k_nd _ _ _ (HK k))) as [st' M]. cbn [PT St] in *. rewrite M.
      destruct (tmerge_per_key b h _ st' W M) as [W' Hk]. split; [exact W'|]. intros k.
      unfold gk. cbn [ghost_step g_t g_td g_new]. rewrite Ternary.proj_app.
      apply (K_merge b _ (gk k (ghost_of _ hist)) _ (HK k) (Hk k)).
    + destruct W as [W1 W2 W3]. split; [constructor; cbn; [constructor | exact W3 | constructor]|]. intros k.
      apply (K_restart b _ (gk k (ghost_of _ hist)) (HK k)).
Qed.

(* ---- the laws over (key, pair), cl = the per-key transitive closure *)
Definition tcl3 : list T3 -> list T3 := Ternary.cl3 _ Closure.tc.

Lemma tcl3_closure_op : closure_op T3 tcl3.
Proof. apply Ternary.cl3_closure_op. exact tc_closure_op. Qed.

Lemma tver_wf st v : twf st -> kwf (t_map (tver_of st v)).
Proof. intros [W1 W2 W3]. destruct v; assumption. Qed.

Theorem trrel_ternary_elaws h : elawsT _ (PT false h) tcl3.
Proof.
  constructor.
  - intros hist v [k [x y]] _. destruct (KT_all false h hist) as [W _]. cbn [PT p_contains p_read]. unfold tri. cbn [fst snd].
    rewrite tcontains_slice, pmem_spec. symmetry. apply (pt_read_in _ v k (x, y)). apply tver_wf; exact W.
  - intros hist _. destruct (KT_all false h hist) as [W HK]. unfold served. cbn [PT p_read].
    assert (S : forall k p, In (k, p) (pt_read (run _ (PT false h) hist) Provider.VTotal ++ pt_read (run _ (PT false h) hist) Provider.VDelta)
                            <-> In (k, p) (tcl3 (g_td _ (ghost_of _ hist)))).
    { intros k p. unfold tcl3. rewrite (Ternary.cl3_in _ _ tc_closure_op), <- cl_false_shared, <- (k_td _ _ _ (HK k)).
      unfold reads, slice. cbn [b_total b_delta]. rewrite !in_app_iff.
      rewrite (pt_read_in _ Provider.VTotal k p (tver_wf _ _ W)), (pt_read_in _ Provider.VDelta k p (tver_wf _ _ W)). reflexivity. }
    split; intros [k p] Hp; apply S; exact Hp.
  - intros hist [k [x y]] _ _ _ Hn. destruct (KT_all false h hist) as [_ HK]. cbn [PT p_ins].
    destruct (tins_raw_slice h k x y (run _ (PT false h) hist)) as (_ & E2 & _).
    match goal with |- ?a = true => replace a with (snd (pb_ins (slice k (run _ (PT false h) hist)) (x, y))) by (symmetry; exact E2) end.
    eapply K_first_insert; [apply (HK k)|]. unfold gk. cbn [g_new]. rewrite Hn. reflexivity.
  - intros hist _. destruct (KT_all false h hist) as [W HK]. destruct (KT_all false h (hist ++ [PMerge])) as [W' _].
    rewrite run_snoc in *. cbn [step PT p_merge] in *. unfold pt_merge in *.
    destruct (tmerge_defined false h _ W (fun k => k_nd _ _ _ (HK k))) as [st' M]. cbn [PT St] in *. rewrite M in *.
    destruct (tmerge_per_key false h _ st' W M) as [_ Hk].
    intros [k p] Hp. apply (pt_read_in _ Provider.VTotal k p (tver_wf _ _ W')) in Hp. cbn [tver_of] in Hp.
    destruct (bmerge_total_eq _ _ _ (Hk k)) as [Et _]. unfold slice in Et. cbn [b_total b_delta] in Et. rewrite Et in Hp.
    apply in_or_app; left. unfold served. cbn [PT p_read]. apply in_app_or in Hp. apply in_or_app.
    destruct Hp as [Hp|Hp]; [left; apply (pt_read_in _ Provider.VTotal k p (tver_wf _ _ W)) | right; apply (pt_read_in _ Provider.VDelta k p (tver_wf _ _ W))]; exact Hp.
  - intros hist _ Hn. destruct (KT_all false h hist) as [W HK]. destruct (KT_all false h (hist ++ [PMerge])) as [W' _].
    rewrite run_snoc in *. cbn [step PT p_merge] in *. unfold pt_merge in *.
    destruct (tmerge_defined false h _ W (fun k => k_nd _ _ _ (HK k))) as [st' M]. cbn [PT St] in *. rewrite M in *.
    destruct (tmerge_per_key false h _ st' W M) as [_ Hk].
    unfold served. cbn [PT p_read]. intros [k p] Hp. apply in_app_or in Hp. destruct Hp as [Hp|Hp]; [exact Hp|].
    apply (pt_read_in _ Provider.VDelta k p (tver_wf _ _ W')) in Hp. apply (pt_read_in _ Provider.VTotal k p (tver_wf _ _ W')).
    cbn [tver_of] in *. apply (K_quiescent false _ (gk k (ghost_of _ hist)) _ (HK k)) with (p := p) in Hk; [exact Hk | | exact Hp].
    unfold gk. cbn [g_new]. rewrite Hn. reflexivity.
  - intros hist _. rewrite run_snoc. cbn [step PT p_restart]. unfold served, pt_read, trestart. cbn [PT p_read tver_of t_total t_delta].
    intros t Ht. apply in_or_app; right. exact Ht.
  - intros hist _. rewrite run_snoc. cbn [step PT p_restart]. unfold pt_read, trestart. cbn [PT p_read tver_of t_total]. intros t [].
Qed.

(* ---- packaged over list Z *)
Definition enc3 (t : T3) : tuple := [fst t; fst (snd t); snd (snd t)].
Definition dec3 (t : tuple) : option T3 := match t with [k; a; b] => Some (k, (a, b)) | _ => None end.
Lemma dec3_enc3 x : dec3 (enc3 x) = Some x.
Proof. destruct x as [k [a b]]; reflexivity. Qed.
Lemma enc3_dec3 t x : dec3 t = Some x -> enc3 x = t.
Proof. destruct t as [|k [|a [|b [|c t]]]]; cbn; try discriminate. intros H; inversion H; reflexivity. Qed.

(* the ternary #[ds(trrel)] relation as the engine sees it (h: whether the relation is declared with an index that
   needs the reverse maps) and its closure operator: transitive closure per value of column 0 *)
Definition trrel_ternary (h : bool) : provider tuple := adapt _ (PT shipped_arefl h) enc3 dec3.
Definition tc3 : list tuple -> list tuple := acl _ enc3 dec3 tcl3.

Theorem tc3_closure_op : closure_op tuple tc3.
Proof. apply acl_closure_op; [exact dec3_enc3 | exact enc3_dec3 | exact tcl3_closure_op]. Qed.
Theorem tc3_arity : cl_arity tc3 3.
Proof. apply acl_arity. intros [k [x y]]; reflexivity. Qed.
Theorem trrel_ternary_engine_laws h : engine_laws (trrel_ternary h) tc3.
Proof. apply adapt_engine_laws; first [exact dec3_enc3 | exact enc3_dec3 | exact tcl3_closure_op | exact (trrel_ternary_elaws h)]. Qed.

(* ---- the explicit rule r0(k,x,z) <-- r0(k,x,y), r0(k,y,z) *)
Definition tc_rule3 (r0 : rel) : rule :=
  {| heads := [(r0, [TVar 0%nat; TVar 1%nat; TVar 3%nat])];
     body := [BClause r0 [TVar 0%nat; TVar 1%nat; TVar 2%nat] []; BClause r0 [TVar 0%nat; TVar 2%nat; TVar 3%nat] []] |}.

Lemma derive_tc_rule3 I db r0 f :
  In f (derive_rule I db (tc_rule3 r0)) <-> exists k x y z, f = (r0, [k; x; z]) /\ In [k; x; y] (db r0) /\ In [k; y; z] (db r0).
Proof.
  unfold derive_rule, tc_rule3. cbn [body heads all_envs]. rewrite in_flat_map. split.
  - intros [e [He Hf]]. apply in_flat_map in He. destruct He as [t1 [H1 He]].
    destruct t1 as [|k [|x [|y [|c t1]]]]; cbn in He; try (destruct He; fail).
    apply in_flat_map in He. destruct He as [t2 [H2 He]].
    destruct t2 as [|k' [|a [|z [|c t2]]]]; cbn in He; try (destruct He; fail);
      destruct (k =? k') eqn:Ek; cbn in He; try (destruct He; fail);
      destruct (y =? a) eqn:E; cbn in He; try (destruct He; fail).
    apply Z.eqb_eq in E, Ek. subst a k'. destruct He as [<-|[]]. cbn in Hf. destruct Hf as [<-|[]]. exists k, x, y, z. auto.
  - intros (k & x & y & z & -> & H1 & H2). exists [Some k; Some x; Some y; Some z]. split; [|left; reflexivity].
    apply in_flat_map. exists [k; x; y]. split; [exact H1|]. cbn. apply in_flat_map. exists [k; y; z]. split; [exact H2|].
    cbn. rewrite !Z.eqb_refl. left; reflexivity.
Qed.

Lemma tc3_in s t : In t (tc3 s) <->
  (exists k x y, t = [k; x; y] /\ Closure.tc_rel (Ternary.proj _ k (decs _ dec3 s)) x y) \/ (In t s /\ dec3 t = None).
Proof.
  unfold tc3. rewrite (acl_in _ enc3 dec3). split.
  - intros [[[k [x y]] [E H]]|H]; [left; exists k, x, y; split; [exact E|] | right; exact H].
    unfold tcl3 in H. apply (Ternary.cl3_in _ _ tc_closure_op) in H. apply Closure.tc_spec; exact H.
  - intros [(k & x & y & E & H)|H]; [left; exists (k, (x, y)); split; [exact E|] | right; exact H].
    unfold tcl3. apply (Ternary.cl3_in _ _ tc_closure_op). apply Closure.tc_spec; exact H.
Qed.

Theorem tc3_closed_iff_rule I r0 M : cl_closed tc3 r0 M <-> closed I [tc_rule3 r0] M.
Proof.
  unfold cl_closed, closed, derives. split.
  - intros H f [r [[<-|[]] Hf]]. apply derive_tc_rule3 in Hf. destruct Hf as (k & x & y & z & -> & H1 & H2).
    apply in_db_of. apply H. apply tc3_in. left. exists k, x, z. split; [reflexivity|].
    apply Closure.tc_trans with (y := y); apply Closure.tc_base; apply Ternary.proj_in; apply (decs_in _ enc3 dec3 dec3_enc3 enc3_dec3); assumption.
  - intros H t Ht. apply tc3_in in Ht. destruct Ht as [(k & x & y & -> & Htc)|[Ht _]]; [|exact Ht].
    induction Htc as [x y Hb | x y z _ IH1 _ IH2].
    + apply -> Ternary.proj_in in Hb. apply -> (decs_in _ enc3 dec3 dec3_enc3 enc3_dec3) in Hb. exact Hb.
    + apply in_db_of. apply H. exists (tc_rule3 r0). split; [left; reflexivity|]. apply derive_tc_rule3. exists k, x, y, z. auto.
Qed.

Theorem least_model_tc3_iff I P r0 F0 M :
  least_model_cl I P tc3 r0 F0 M <-> least_model I (P ++ [tc_rule3 r0]) F0 M.
Proof.
  unfold least_model_cl, least_model. split.
  - intros (A & B & C & D). split; [exact A|]. split; [apply closed_app; split; [exact B | apply tc3_closed_iff_rule; exact C]|].
    intros M' H1 H2. apply closed_app in H2. destruct H2 as [H2 H3]. apply D; auto. apply (tc3_closed_iff_rule I); exact H3.
  - intros (A & B & D). apply closed_app in B. destruct B as [B C]. split; [exact A|]. split; [exact B|].
    split; [apply (tc3_closed_iff_rule I); exact C|]. intros M' H1 H2 H3. apply D; auto. apply closed_app. split; [exact H2 | apply tc3_closed_iff_rule; exact H3].
Qed.

Theorem trrel_program_ternary : forall h I swap r0 arities P pl fuel F0 st,
  In (r0, 3%nat) arities -> arities_functional arities -> wf_facts arities F0 = true -> no_agg P = true ->
  (forall f, In f F0 -> fst f <> r0) -> validate arities P pl = true ->
  prun_plan I swap (trrel_ternary h) r0 fuel pl F0 = Some st ->
  least_model I (P ++ [tc_rule3 r0]) F0 (pfacts (trrel_ternary h) r0 st).
Proof.
  intros h I swap r0 arities P pl fuel F0 st H1 H2 H3 H4 H5 H6 H7. apply least_model_tc3_iff.
  eapply (prun_plan_correct_w I swap (trrel_ternary h) tc3 r0 3%nat arities P pl fuel F0 st); eauto.
  - exact tc3_closure_op.
  - exact (trrel_ternary_engine_laws h).
  - exact tc3_arity.
Qed.

(* ------------------------------------------------------------------ protocol histories are guarded histories *)

(* every history of TrRelProofs.brun (head update with its two contains tests, merges, boundaries after a quiescent
   merge) is the run of the provider PB on a guarded history: insertions refused by the contains tests are simply
   not offered.  The converse inclusion does not hold (guarded histories may cross a boundary at any point). *)
Theorem brun_is_guarded b : forall ops h st ins st' ins',
  guardedT _ (PB b) h -> run _ (PB b) h = st -> brun b st ins ops = Some (st', ins') ->
  exists h', guardedT _ (PB b) (h ++ h') /\ run _ (PB b) (h ++ h') = st'.
Proof.
  induction ops as [|o ops IH]; intros h st ins st' ins' G R H; cbn [brun] in H; subst st.
  - inversion H; subst. exists []. rewrite app_nil_r. split; [exact G | reflexivity].
  - destruct o as [x y| |].
    + destruct (pmem (x, y) (b_total (run _ (PB b) h)) || pmem (x, y) (b_delta (run _ (PB b) h))) eqn:C.
      * assert (E : fst (binsert (x, y) (run _ (PB b) h)) = run _ (PB b) h) by (unfold binsert; rewrite C; reflexivity). rewrite E in H.
        eapply IH; eauto.
      * assert (E : fst (binsert (x, y) (run _ (PB b) h)) = fst (pb_ins (run _ (PB b) h) (x, y))).
        { unfold binsert, pb_ins. rewrite C. destruct (brel_insert (x, y) (b_new (run _ (PB b) h))); reflexivity. }
        rewrite E in H. apply orb_false_iff in C. destruct C as [C1 C2].
        assert (G1 : guardedT _ (PB b) (h ++ [PIns (x, y)])) by (constructor; [exact G | exact C1 | exact C2]).
        assert (R1 : run _ (PB b) (h ++ [PIns (x, y)]) = fst (pb_ins (run _ (PB b) h) (x, y))) by (rewrite run_snoc; reflexivity).
        destruct (IH _ _ _ _ _ G1 R1 H) as [h' [G' R']].
        exists (PIns (x, y) :: h'). rewrite <- app_assoc in G', R'. split; assumption.
    + destruct (bmerge b (run _ (PB b) h)) as [st1|] eqn:M; [|discriminate].
      assert (G1 : guardedT _ (PB b) (h ++ [PMerge])) by (constructor; exact G).
      assert (R1 : run _ (PB b) (h ++ [PMerge]) = st1) by (rewrite run_snoc; cbn [step PB p_merge]; unfold pb_merge; rewrite M; reflexivity).
      destruct (IH _ _ _ _ _ G1 R1 H) as [h' [G' R']].
      exists (PMerge :: h'). rewrite <- app_assoc in G', R'. split; assumption.
    + destruct (isnil (b_new (run _ (PB b) h)) && isnil (b_delta (run _ (PB b) h))); [|discriminate].
      assert (G1 : guardedT _ (PB b) (h ++ [PRestart])) by (constructor; exact G).
      assert (R1 : run _ (PB b) (h ++ [PRestart]) = brestart (run _ (PB b) h)) by (rewrite run_snoc; reflexivity).
      destruct (IH _ _ _ _ _ G1 R1 H) as [h' [G' R']].
      exists (PRestart :: h'). rewrite <- app_assoc in G', R'. split; assumption.
Qed.
