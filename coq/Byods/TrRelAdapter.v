(* C11 (also usable by C10/C12) — from a provider over an arbitrary tuple type T (pairs, triples) to a provider
   over the engine's `tuple := list Z`, and from laws over T to Engine/ProvLaws.engine_laws.

   The engine model (Engine/EvalProv.v) is untyped: it may offer ANY list of integers to the provider-backed
   relation.  The Rust types exclude tuples of the wrong shape; here they ("junk": dec t = None) are carried through a
   plain new -> delta -> total set protocol next to the real provider state, and the closure operator leaves them
   alone, so that the laws hold for every tuple (the engine theorem's cl_arity / validate hypotheses make junk
   unreachable in an actual run). *)
From Coq Require Import List ZArith Bool Arith Lia.
From AV Require Import Engine.Core Engine.NaiveLemmas.
From AV Require Import Byods.Provider Engine.EvalProv Engine.InterfaceProv Engine.ProvLaws.
Import ListNotations.

Section Adapter.
Variable T : Type.
Variable P : provider T.
Variable enc : T -> tuple.
Variable dec : tuple -> option T.
Hypothesis dec_enc : forall x, dec (enc x) = Some x.
Hypothesis enc_dec : forall t x, dec t = Some x -> enc x = t.

(* ---- the laws over T: Engine/ProvLaws.engine_laws with `tuple` replaced by T *)
Inductive guardedT : list (pop T) -> Prop :=
| guardedT_nil : guardedT []
| guardedT_merge h : guardedT h -> guardedT (h ++ [PMerge])
| guardedT_restart h : guardedT h -> guardedT (h ++ [PRestart])
| guardedT_ins h t : guardedT h ->
    p_contains T P (run T P h) VTotal t = false -> p_contains T P (run T P h) VDelta t = false ->
    guardedT (h ++ [PIns t]).

Record elawsT (clT : list T -> list T) : Prop := {
  lt_contains : forall h v t, guardedT h -> (p_contains T P (run T P h) v t = true <-> In t (p_read T P (run T P h) v));
  lt_served : forall h, guardedT h -> same_set (served T P (run T P h)) (clT (g_td T (ghost_of T h)));
  lt_first_insert : forall h t, guardedT h ->
    p_contains T P (run T P h) VTotal t = false -> p_contains T P (run T P h) VDelta t = false ->
    g_new T (ghost_of T h) = [] -> snd (p_ins T P (run T P h) t) = true;
  lt_merge_total : forall h, guardedT h ->
    incl (p_read T P (run T P (h ++ [PMerge])) VTotal) (served T P (run T P h) ++ p_read T P (run T P (h ++ [PMerge])) VDelta);
  lt_quiescent : forall h, guardedT h -> g_new T (ghost_of T h) = [] ->
    incl (served T P (run T P (h ++ [PMerge]))) (p_read T P (run T P (h ++ [PMerge])) VTotal);
  lt_restart_serves : forall h, guardedT h ->
    incl (p_read T P (run T P h) VTotal) (served T P (run T P (h ++ [PRestart])));
  lt_restart_total : forall h, guardedT h ->
    incl (p_read T P (run T P (h ++ [PRestart])) VTotal) (p_read T P (run T P (h ++ [PRestart])) VDelta) }.

(* ---- the provider over list Z *)
Definition jst : Type := (list tuple * list tuple * list tuple)%type.     (* junk: new, delta, total *)
Definition jver (j : jst) (v : ver) : list tuple := match v with VTotal => snd j | VDelta => snd (fst j) end.

Definition a_ins (s : St T P * jst) (t : tuple) : (St T P * jst) * bool :=
  match dec t with
  | Some x => let '(s', b) := p_ins T P (fst s) x in ((s', snd s), b)
  | None => let '(jn, jd, jt) := snd s in
            if mem_tuple t jn then (s, false) else ((fst s, (jn ++ [t], jd, jt)), true)
  end.
Definition a_merge (s : St T P * jst) : St T P * jst :=
  let '(jn, jd, jt) := snd s in (p_merge T P (fst s), ([], jn, jt ++ jd)).
Definition a_restart (s : St T P * jst) : St T P * jst :=
  let '(jn, jd, jt) := snd s in (p_restart T P (fst s), ([], jt, [])).
Definition a_read (s : St T P * jst) (v : ver) : list tuple := map enc (p_read T P (fst s) v) ++ jver (snd s) v.
Definition a_contains (s : St T P * jst) (v : ver) (t : tuple) : bool :=
  match dec t with Some x => p_contains T P (fst s) v x | None => mem_tuple t (jver (snd s) v) end.

Definition adapt : provider tuple :=
  {| St := (St T P * jst)%type; p_init := (p_init T P, ([], [], [])); p_ins := a_ins; p_merge := a_merge;
     p_restart := a_restart; p_read := a_read; p_contains := a_contains;
     View := unit; Ix := unit; p_get := fun _ _ _ => None; p_all := fun _ _ _ => []; v_sel := fun _ _ => false; v_ix := fun _ => tt |}.

(* ---- the closure operator over list Z *)
Definition dec1 (t : tuple) : list T := match dec t with Some x => [x] | None => [] end.
Definition decs (s : list tuple) : list T := flat_map dec1 s.
Definition isjunk (t : tuple) : bool := match dec t with Some _ => false | None => true end.
Definition junk (s : list tuple) : list tuple := filter isjunk s.

Variable clT : list T -> list T.
Definition acl (s : list tuple) : list tuple := map enc (clT (decs s)) ++ junk s.

Lemma decs_in x s : In x (decs s) <-> In (enc x) s.
Proof.
  unfold decs. rewrite in_flat_map. split.
  - intros [t [Ht Hx]]. unfold dec1 in Hx. destruct (dec t) as [y|] eqn:E; [|destruct Hx].
    destruct Hx as [<-|[]]. rewrite (enc_dec t y E). exact Ht.
  - intros H. exists (enc x). split; [exact H|]. unfold dec1. rewrite dec_enc. left; reflexivity.
Qed.
Lemma decs_app a b : decs (a ++ b) = decs a ++ decs b.
Proof. unfold decs. apply flat_map_app. Qed.
Lemma junk_in t s : In t (junk s) <-> In t s /\ dec t = None.
Proof. unfold junk, isjunk. rewrite filter_In. destruct (dec t); split; intros [? ?]; split; auto; discriminate. Qed.
Lemma enc_inj x y : enc x = enc y -> x = y.
Proof. intros H. pose proof (dec_enc x) as A. rewrite H, dec_enc in A. inversion A; reflexivity. Qed.

Lemma acl_in t s : In t (acl s) <-> (exists x, t = enc x /\ In x (clT (decs s))) \/ (In t s /\ dec t = None).
Proof.
  unfold acl. rewrite in_app_iff, in_map_iff, junk_in. split.
  - intros [[x [E H]]|H]; [left; exists x; split; [symmetry; exact E | exact H] | right; exact H].
  - intros [[x [E H]]|H]; [left; exists x; split; [symmetry; exact E | exact H] | right; exact H].
Qed.

Hypothesis HclT : closure_op T clT.

Lemma acl_closure_op : closure_op tuple acl.
Proof.
  constructor.
  - intros s t Ht. apply acl_in. destruct (dec t) as [x|] eqn:E; [left | right; split; [exact Ht | reflexivity]].
    exists x. split; [symmetry; apply enc_dec; exact E|]. apply (cl_ext T clT HclT). apply decs_in. rewrite (enc_dec t x E). exact Ht.
  - intros s s' Hi t Ht. apply acl_in in Ht. apply acl_in. destruct Ht as [[x [E H]]|[H E]]; [left | right; split; [apply Hi; exact H | exact E]].
    exists x. split; [exact E|]. eapply (cl_mono T clT HclT); [|exact H]. intros y Hy. apply decs_in. apply Hi. apply decs_in. exact Hy.
  - intros s t Ht. apply acl_in in Ht. apply acl_in. destruct Ht as [[x [E H]]|[H E]].
    + left. exists x. split; [exact E|]. apply (cl_idem T clT HclT). eapply (cl_mono T clT HclT); [|exact H].
      intros y Hy. apply decs_in in Hy. apply acl_in in Hy. destruct Hy as [[z [Ez Hz]]|[_ Ez]].
      * apply enc_inj in Ez. subst z. exact Hz.
      * rewrite dec_enc in Ez. discriminate.
    + right. split; [|exact E]. apply acl_in in H. destruct H as [[x [Ex _]]|[H _]]; [|exact H]. subst t. rewrite dec_enc in E. discriminate.
  - unfold acl. cbn. rewrite (cl_nil T clT HclT). reflexivity.
Qed.

Lemma acl_arity n : (forall x, length (enc x) = n) -> cl_arity acl n.
Proof.
  intros Hn s t Hs Ht. apply acl_in in Ht. destruct Ht as [[x [-> _]]|[H _]]; [apply Hn | apply Hs; exact H].
Qed.

(* ---- simulation *)
Definition proj1op (o : pop tuple) : list (pop T) :=
  match o with
  | PIns t => match dec t with Some x => [PIns x] | None => [] end
  | PMerge => [PMerge]
  | PRestart => [PRestart]
  end.
Definition projT (h : list (pop tuple)) : list (pop T) := flat_map proj1op h.

Lemma projT_snoc h o : projT (h ++ [o]) = projT h ++ proj1op o.
Proof. unfold projT. rewrite flat_map_app. cbn. rewrite app_nil_r. reflexivity. Qed.

Lemma mem_tuple_spec t l : mem_tuple t l = true <-> In t l.
Proof.
  unfold mem_tuple. rewrite existsb_exists. split.
  - intros [u [Hu E]]. apply zlist_eqb_eq in E. subst. exact Hu.
  - intros H. exists t. split; [exact H | apply zlist_eqb_eq; reflexivity].
Qed.

Definition JI (j : jst) (g : ghost tuple) : Prop :=
  let '(jn, jd, jt) := j in
  (forall t, In t jn <-> In t (junk (g_new tuple g))) /\
  (forall t, In t jt <-> In t (junk (g_t tuple g))) /\
  (forall t, In t (jt ++ jd) <-> In t (junk (g_td tuple g))).

Definition decsG (g : ghost tuple) : ghost T := mkG T (decs (g_t tuple g)) (decs (g_td tuple g)) (decs (g_new tuple g)).

Lemma junk_app a b t : In t (junk (a ++ b)) <-> In t (junk a) \/ In t (junk b).
Proof. unfold junk. rewrite filter_app, in_app_iff. reflexivity. Qed.

Lemma sim : forall h,
  fst (run tuple adapt h) = run T P (projT h) /\ JI (snd (run tuple adapt h)) (ghost_of tuple h) /\
  ghost_of T (projT h) = decsG (ghost_of tuple h).
Proof.
  induction h as [|o h IH] using rev_ind.
  - cbn. repeat split; intros; tauto.
  - destruct IH as (E1 & J & E3). rewrite run_snoc, ghost_of_snoc, projT_snoc.
    destruct (run tuple adapt h) as [s [[jn jd] jt]] eqn:R. cbn [fst snd] in *.
    destruct (ghost_of tuple h) as [gt gtd gn] eqn:G. unfold JI in J. cbn [g_t g_td g_new] in J. destruct J as (Jn & Jt & Jtd).
    destruct o as [t| |]; cbn [step adapt p_ins p_merge p_restart proj1op ghost_step g_t g_td g_new].
    + unfold a_ins. cbn [fst snd]. destruct (dec t) as [x|] eqn:D.
      * destruct (p_ins T P s x) as [s' b] eqn:Pi. cbn [fst snd]. split; [|split].
        -- rewrite run_snoc. cbn [step]. rewrite <- E1, Pi. reflexivity.
        -- unfold JI. cbn [g_t g_td g_new]. split; [|split; assumption].
           intros u. rewrite Jn, junk_app. split; [tauto|]. intros [H|H]; [exact H|].
           apply junk_in in H. destruct H as [[<-|[]] Hd]. congruence.
        -- rewrite ghost_of_snoc, E3. unfold decsG. cbn [ghost_step g_t g_td g_new]. rewrite decs_app. cbn.
           unfold dec1. rewrite D. reflexivity.
      * rewrite app_nil_r. destruct (mem_tuple t jn) eqn:M; cbn [fst snd]; (split; [exact E1 | split]).
        -- unfold JI. cbn [g_t g_td g_new]. split; [|split; assumption].
           intros u. rewrite Jn, junk_app. split; [tauto|]. intros [H|H]; [exact H|].
           apply junk_in in H. destruct H as [[<-|[]] _]. apply Jn. apply mem_tuple_spec. exact M.
        -- rewrite E3. unfold decsG. cbn [g_t g_td g_new]. rewrite decs_app. cbn. unfold dec1. rewrite D, app_nil_r. reflexivity.
        -- unfold JI. cbn [g_t g_td g_new]. split; [|split; assumption].
           intros u. rewrite in_app_iff, Jn, junk_app. cbn [In]. split.
           ++ intros [H|[<-|[]]]; [left; exact H | right; apply junk_in; split; [left; reflexivity | exact D]].
           ++ intros [H|H]; [left; exact H | right; left]. apply junk_in in H. destruct H as [[E|[]] _]. exact E.
        -- rewrite E3. unfold decsG. cbn [g_t g_td g_new]. rewrite decs_app. cbn. unfold dec1. rewrite D, app_nil_r. reflexivity.
    + unfold a_merge. cbn [fst snd]. split; [|split].
      * rewrite run_snoc. cbn [step]. rewrite E1. reflexivity.
      * unfold JI. cbn [g_t g_td g_new]. split; [intros u; cbn; tauto|]. split; [exact Jtd|].
        intros u. rewrite junk_app, <- Jtd, <- Jn, !in_app_iff. tauto.
      * rewrite ghost_of_snoc, E3. unfold decsG. cbn [ghost_step g_t g_td g_new]. rewrite decs_app. reflexivity.
    + unfold a_restart. cbn [fst snd]. split; [|split].
      * rewrite run_snoc. cbn [step]. rewrite E1. reflexivity.
      * unfold JI. cbn [g_t g_td g_new]. split; [intros u; cbn; tauto|]. split; [intros u; cbn; tauto|].
        intros u. cbn [app]. exact (Jt u).
      * rewrite ghost_of_snoc, E3. unfold decsG. cbn [ghost_step g_t g_td g_new]. reflexivity.
Qed.

Lemma guarded_transfer h : guarded adapt h -> guardedT (projT h).
Proof.
  induction 1 as [|h G IH|h G IH|h t G IH C1 C2]; rewrite ?projT_snoc; cbn [proj1op].
  - constructor.
  - constructor; exact IH.
  - constructor; exact IH.
  - destruct (dec t) as [x|] eqn:D; [|rewrite app_nil_r; exact IH].
    destruct (sim h) as (E1 & _ & _). cbn [adapt p_contains] in C1, C2. unfold a_contains in C1, C2. rewrite D, E1 in C1, C2.
    constructor; assumption.
Qed.

Lemma junk_only j g v t : JI j g -> In t (jver j v) -> dec t = None.
Proof.
  destruct j as [[jn jd] jt]. intros (Jn & Jt & Jtd) H.
  assert (Hj : In t (junk (g_td tuple g)) \/ In t (junk (g_t tuple g))).
  { destruct v; cbn in H; [right; apply Jt; exact H | left; apply Jtd; apply in_or_app; right; exact H]. }
  destruct Hj as [Hj|Hj]; apply junk_in in Hj; tauto.
Qed.

Lemma a_read_in s v t : In t (a_read s v) <-> (exists x, t = enc x /\ In x (p_read T P (fst s) v)) \/ In t (jver (snd s) v).
Proof.
  unfold a_read. rewrite in_app_iff, in_map_iff. split.
  - intros [[x [E H]]|H]; [left; exists x; split; [symmetry; exact E | exact H] | right; exact H].
  - intros [[x [E H]]|H]; [left; exists x; split; [symmetry; exact E | exact H] | right; exact H].
Qed.

Ltac fin H E := first [exact H | rewrite E in H; exact H | rewrite <- E in H; exact H | rewrite E; exact H | rewrite <- E; exact H].

Theorem adapt_engine_laws : elawsT clT -> engine_laws adapt acl.
Proof.
  intros L. constructor.
  - (* contains *)
    intros h v t G. destruct (sim h) as (E1 & J & _). pose proof (guarded_transfer h G) as GT.
    cbn [adapt p_contains p_read]. unfold a_contains. rewrite a_read_in. destruct (dec t) as [x|] eqn:D.
    + rewrite E1, (lt_contains clT L _ v x GT). split.
      * intros H. left. exists x. split; [symmetry; apply enc_dec; exact D | fin H E1].
      * intros [[y [E H]]|H].
        -- subst t. rewrite dec_enc in D. inversion D; subst. fin H E1.
        -- pose proof (junk_only _ _ v t J H). congruence.
    + rewrite mem_tuple_spec. split; [intros H; right; exact H|]. intros [[y [E _]]|H]; [|exact H].
      subst t. rewrite dec_enc in D. discriminate.
  - (* served *)
    intros h G. destruct (sim h) as (E1 & J & E3). pose proof (guarded_transfer h G) as GT.
    destruct (lt_served clT L _ GT) as [S1 S2]. rewrite E3 in S1, S2. cbn [decsG g_td] in S1, S2.
    destruct (run tuple adapt h) as [s [[jn jd] jt]] eqn:R. cbn [fst snd] in *. destruct J as (Jn & Jt & Jtd).
    unfold served. cbn [adapt p_read]. split; intros t Ht.
    + apply acl_in. apply in_app_or in Ht. destruct Ht as [Ht|Ht]; apply a_read_in in Ht; cbn [fst snd jver] in Ht;
        destruct Ht as [[x [-> Hx]]|Hj].
      * left. exists x. split; [reflexivity|]. apply S1. unfold served. rewrite <- E1. apply in_or_app; left; exact Hx.
      * right. apply junk_in. apply Jtd. apply in_or_app; left; exact Hj.
      * left. exists x. split; [reflexivity|]. apply S1. unfold served. rewrite <- E1. apply in_or_app; right; exact Hx.
      * right. apply junk_in. apply Jtd. apply in_or_app; right; exact Hj.
    + apply acl_in in Ht. destruct Ht as [[x [-> Hx]]|Hj].
      * apply S2 in Hx. unfold served in Hx. rewrite <- E1 in Hx. apply in_app_or in Hx.
        apply in_or_app. destruct Hx as [Hx|Hx]; [left | right]; apply a_read_in; left; exists x; split; auto.
      * apply junk_in in Hj. apply Jtd in Hj. apply in_app_or in Hj.
        apply in_or_app. destruct Hj as [Hj|Hj]; [left | right]; apply a_read_in; right; exact Hj.
  - (* first insert *)
    intros h t G C1 C2 Hn. destruct (sim h) as (E1 & J & E3). pose proof (guarded_transfer h G) as GT.
    cbn [adapt p_ins p_contains] in *. unfold a_ins, a_contains in *. destruct (dec t) as [x|] eqn:D.
    + rewrite E1 in *. pose proof (lt_first_insert clT L _ x GT C1 C2) as F. rewrite E3 in F. cbn [decsG g_new] in F.
      rewrite Hn in F. specialize (F eq_refl). destruct (p_ins T P (run T P (projT h)) x) as [s' b]. exact F.
    + destruct (run tuple adapt h) as [s [[jn jd] jt]] eqn:R. cbn [fst snd] in *. destruct J as (Jn & _ & _).
      destruct (mem_tuple t jn) eqn:M; [|reflexivity]. apply mem_tuple_spec in M. apply Jn in M. rewrite Hn in M. destruct M.
  - (* merge total *)
    intros h G. destruct (sim h) as (E1 & J & _). pose proof (guarded_transfer h G) as GT.
    pose proof (lt_merge_total clT L _ GT) as M. rewrite !run_snoc in *. cbn [step adapt p_merge] in *.
    destruct (run tuple adapt h) as [s [[jn jd] jt]] eqn:R. cbn [fst snd] in *. unfold a_merge. cbn [fst snd].
    unfold served. cbn [adapt p_read]. intros t Ht. apply a_read_in in Ht. cbn [fst snd jver] in Ht. destruct Ht as [[x [-> Hx]]|Hj].
    + rewrite E1 in Hx. apply M in Hx. apply in_app_or in Hx. destruct Hx as [Hx|Hx].
      * apply in_or_app; left. unfold served in Hx. rewrite <- E1 in Hx. apply in_app_or in Hx.
        apply in_or_app. destruct Hx as [Hx|Hx]; [left | right]; apply a_read_in; left; exists x; split; auto.
      * apply in_or_app; right. apply a_read_in. left. exists x. split; [reflexivity|]. cbn [fst]. rewrite E1. exact Hx.
    + apply in_or_app; left. apply in_app_or in Hj. apply in_or_app. destruct Hj as [Hj|Hj]; [left | right]; apply a_read_in; right; exact Hj.
  - (* quiescent *)
    intros h G Hn. destruct (sim h) as (E1 & J & E3). pose proof (guarded_transfer h G) as GT.
    assert (HnT : g_new T (ghost_of T (projT h)) = []) by (rewrite E3; cbn [decsG g_new]; rewrite Hn; reflexivity).
    pose proof (lt_quiescent clT L _ GT HnT) as Q. rewrite !run_snoc in *. cbn [step adapt p_merge] in *.
    destruct (run tuple adapt h) as [s [[jn jd] jt]] eqn:R. cbn [fst snd] in *. destruct J as (Jn & _ & _). unfold a_merge. cbn [fst snd].
    unfold served. cbn [adapt p_read]. intros t Ht. apply in_app_or in Ht. destruct Ht as [Ht|Ht]; [exact Ht|].
    apply a_read_in in Ht. cbn [fst snd jver] in Ht. destruct Ht as [[x [-> Hx]]|Hj].
    + apply a_read_in. left. exists x. split; [reflexivity|]. cbn [fst]. rewrite E1 in *. apply Q. unfold served. apply in_or_app; right; exact Hx.
    + apply Jn in Hj. rewrite Hn in Hj. destruct Hj.
  - (* restart serves *)
    intros h G. destruct (sim h) as (E1 & J & _). pose proof (guarded_transfer h G) as GT.
    pose proof (lt_restart_serves clT L _ GT) as Q. rewrite !run_snoc in *. cbn [step adapt p_restart] in *.
    destruct (run tuple adapt h) as [s [[jn jd] jt]] eqn:R. cbn [fst snd] in *. unfold a_restart. cbn [fst snd].
    unfold served. cbn [adapt p_read]. intros t Ht. apply a_read_in in Ht. cbn [fst snd jver] in Ht. destruct Ht as [[x [-> Hx]]|Hj].
    + rewrite E1 in Hx. apply Q in Hx. unfold served in Hx. apply in_app_or in Hx.
      apply in_or_app. destruct Hx as [Hx|Hx]; [left | right]; apply a_read_in; left; exists x; (split; [reflexivity|]); cbn [fst]; rewrite E1; exact Hx.
    + apply in_or_app; right. apply a_read_in. right. exact Hj.
  - (* restart total *)
    intros h G. destruct (sim h) as (E1 & J & _). pose proof (guarded_transfer h G) as GT.
    pose proof (lt_restart_total clT L _ GT) as Q. rewrite !run_snoc in *. cbn [step adapt p_restart] in *.
    destruct (run tuple adapt h) as [s [[jn jd] jt]] eqn:R. cbn [fst snd] in *. unfold a_restart. cbn [fst snd].
    cbn [adapt p_read]. intros t Ht. apply a_read_in in Ht. cbn [fst snd jver] in Ht. destruct Ht as [[x [-> Hx]]|[]].
    apply a_read_in. left. exists x. split; [reflexivity|]. cbn [fst] in *. rewrite E1 in *. apply Q. exact Hx.
Qed.
End Adapter.
